import Aiortc.Model.Sctp.Endpoint
/-!
# The handlers of the SCTP endpoint never write `Out.crash` to the output log

`Out.crash` is only appended by `step`, after an exception escaped a handler.  This is a purely syntactic
fact about the handler code: the log is only touched through `emit`, and every `emit` in the model has a
literal constructor different from `.crash` as its argument.
-/
namespace Aiortc.Sctp
open Aiortc.Gen Aiortc.Sctp.Wire

def NoC (l : List Out) : Prop := ∀ o ∈ l, ∀ k, o ≠ Out.crash k

/-- the action never appends an `Out.crash` to the log (whether it returns or throws) -/
def Quiet {α} (m : M α) : Prop := ∀ s : Ep × List Out, NoC s.2 → NoC (m.run.run s).2.2

theorem NoC.append {l : List Out} {o : Out} (hl : NoC l) (ho : ∀ k, o ≠ Out.crash k) : NoC (l ++ [o]) := by
  intro x hx
  rcases List.mem_append.1 hx with h | h
  · exact hl x h
  · rw [List.mem_singleton.1 h]; exact ho

/-! ## closure lemmas -/

theorem run_bind_eq {α β} (m : M α) (f : α → M β) (s : Ep × List Out) :
    (m >>= f).run.run s = match m.run.run s with
      | (.ok a, s') => (f a).run.run s'
      | (.error k, s') => (.error k, s') := by
  simp only [ExceptT.run_bind]
  simp only [bind, StateT.bind, StateT.run]
  cases h : m.run s with
  | mk r s' => cases r <;> simp [ExceptT.run, pure, StateT.pure]

theorem Quiet.pure {α} (a : α) : Quiet (Pure.pure a : M α) := by
  intro s hs
  simpa [ExceptT.run, Pure.pure, ExceptT.pure, ExceptT.mk, StateT.run, StateT.pure] using hs

theorem Quiet.bind {α β} {m : M α} {f : α → M β} (hm : Quiet m) (hf : ∀ a, Quiet (f a)) :
    Quiet (m >>= f) := by
  intro s hs
  rw [run_bind_eq]
  have h1 := hm s hs
  cases h : m.run.run s with
  | mk r s' =>
    rw [h] at h1
    cases r with
    | ok a => exact hf a s' h1
    | error k => exact h1

theorem Quiet.map {α β} (g : α → β) {m : M α} (hm : Quiet m) : Quiet (g <$> m) := by
  rw [map_eq_pure_bind]
  exact Quiet.bind hm fun a => Quiet.pure _

theorem Quiet.throw {α} (k : String) : Quiet (throw k : M α) := by
  intro s hs
  simpa [ExceptT.run, MonadExcept.throw, throwThe, MonadExceptOf.throw, ExceptT.mk, StateT.run, Pure.pure,
    StateT.pure] using hs

theorem Quiet.crash {α} (k : String) : Quiet (crash k : M α) := Quiet.throw k

theorem Quiet.get : Quiet (get : M (Ep × List Out)) := by
  intro s hs
  simpa [ExceptT.run, MonadState.get, getThe, MonadStateOf.get, liftM, monadLift, MonadLift.monadLift,
    ExceptT.lift, ExceptT.mk, StateT.run, StateT.get, Functor.map, StateT.map, Pure.pure, StateT.pure,
    Bind.bind, StateT.bind] using hs

theorem Quiet.modify {f : Ep × List Out → Ep × List Out} (h : ∀ s, NoC s.2 → NoC (f s).2) :
    Quiet (modify f : M Unit) := by
  intro s hs
  simpa [ExceptT.run, MonadState.modifyGet, _root_.modify, modifyGet, MonadStateOf.modifyGet, liftM, monadLift,
    MonadLift.monadLift, ExceptT.lift, ExceptT.mk, StateT.run, StateT.modifyGet, Functor.map, StateT.map,
    Pure.pure, StateT.pure, Bind.bind, StateT.bind] using h s hs

theorem Quiet.getE : Quiet getE := by
  unfold Sctp.getE
  exact Quiet.bind Quiet.get fun _ => Quiet.pure _

theorem Quiet.setE (e : Ep) : Quiet (setE e) := Quiet.modify fun _ h => h

theorem Quiet.modE (f : Ep → Ep) : Quiet (modE f) := Quiet.modify fun _ h => h

theorem Quiet.emit {o : Out} (ho : ∀ k, o ≠ Out.crash k) : Quiet (emit o) :=
  Quiet.modify fun _ h => h.append ho

theorem Quiet.liftO {α} (o : Outcome α) : Quiet (liftO o) := by
  cases o
  · exact Quiet.pure _
  · exact Quiet.throw _
  · exact Quiet.throw _
  · exact Quiet.throw _

theorem Quiet.ite {α} {c : Prop} [Decidable c] {a b : M α} (ha : Quiet a) (hb : Quiet b) :
    Quiet (if c then a else b) := by
  split <;> assumption

theorem Quiet.forIn {α β} (l : List α) (init : β) {f : α → β → M (ForInStep β)}
    (hf : ∀ x b, Quiet (f x b)) : Quiet (forIn l init f) := by
  induction l generalizing init with
  | nil => simpa using Quiet.pure init
  | cons x rest ih =>
    rw [List.forIn_cons]
    refine Quiet.bind (hf x init) ?_
    intro r
    cases r with
    | done b => exact Quiet.pure b
    | yield b => exact ih b

attribute [local irreducible] Quiet

/-! ## the tactic -/

/-- extensible: closes / reduces `Quiet (f args)` for the already proved model functions -/
syntax "quiet_known" : tactic
macro_rules | `(tactic| quiet_known) => `(tactic| apply Quiet.getE)

macro "quiet_step" : tactic =>
  `(tactic| first
    | with_reducible apply Quiet.pure
    | with_reducible apply Quiet.crash
    | with_reducible apply Quiet.throw
    | with_reducible apply Quiet.get
    | with_reducible apply Quiet.setE
    | with_reducible apply Quiet.modE
    | with_reducible apply Quiet.liftO
    | ((with_reducible apply Quiet.emit); intro k h; cases h)
    | assumption
    | with_reducible quiet_known
    | with_reducible apply Quiet.bind
    | with_reducible apply Quiet.map
    | with_reducible apply Quiet.forIn
    | with_reducible apply Quiet.ite
    | split
    | intro _
    | dsimp only)

macro "quiet_tac" : tactic => `(tactic| repeat' quiet_step)

/-! ## the model functions, bottom-up -/

theorem now1000_quiet : Quiet now1000 := by unfold now1000; quiet_tac
macro_rules | `(tactic| quiet_known) => `(tactic| apply now1000_quiet)

theorem chanGet_quiet (i : Nat) : Quiet (chanGet i) := by unfold chanGet; quiet_tac
macro_rules | `(tactic| quiet_known) => `(tactic| apply chanGet_quiet)

theorem chanSet_quiet (i : Nat) (c : Chan) : Quiet (chanSet i c) := by unfold chanSet; quiet_tac
macro_rules | `(tactic| quiet_known) => `(tactic| apply chanSet_quiet)

theorem queueTask_quiet (t : Task) (name : String) : Quiet (queueTask t name) := by unfold queueTask; quiet_tac
macro_rules | `(tactic| quiet_known) => `(tactic| apply queueTask_quiet)

theorem addBufferedCore_quiet (i : Nat) (a : Int) : Quiet (addBufferedCore i a) := by unfold addBufferedCore; quiet_tac
macro_rules | `(tactic| quiet_known) => `(tactic| apply addBufferedCore_quiet)

theorem addBuffered0_quiet (i : Nat) (a : Int) : Quiet (addBuffered0 i a) := by unfold addBuffered0; quiet_tac
macro_rules | `(tactic| quiet_known) => `(tactic| apply addBuffered0_quiet)

theorem dcSend_quiet (i : Nat) (isStr : Bool) (data : Bytes) : Quiet (dcSend i isStr data) := by unfold dcSend; quiet_tac
macro_rules | `(tactic| quiet_known) => `(tactic| apply dcSend_quiet)

theorem react_quiet (k i : Nat) : Quiet (react k i) := by unfold react; quiet_tac
macro_rules | `(tactic| quiet_known) => `(tactic| apply react_quiet)

theorem setReady_quiet (i st : Nat) : Quiet (setReady i st) := by unfold setReady; quiet_tac
macro_rules | `(tactic| quiet_known) => `(tactic| apply setReady_quiet)

theorem addBuffered_quiet (i : Nat) (a : Int) : Quiet (addBuffered i a) := by unfold addBuffered; quiet_tac
macro_rules | `(tactic| quiet_known) => `(tactic| apply addBuffered_quiet)

theorem sendChunk_quiet (c : Chunk) : Quiet (sendChunk c) := by unfold sendChunk; quiet_tac
macro_rules | `(tactic| quiet_known) => `(tactic| apply sendChunk_quiet)

theorem playTx_quiet (evs : List TxEv) : Quiet (playTx evs) := by unfold playTx; quiet_tac
macro_rules | `(tactic| quiet_known) => `(tactic| apply playTx_quiet)

theorem transmit_quiet : Quiet transmit := by unfold transmit; quiet_tac
macro_rules | `(tactic| quiet_known) => `(tactic| apply transmit_quiet)

theorem sendData_quiet (sid ppid : Nat) (data : Bytes) (expiry maxRtx : Option Int) (ordered : Bool) : Quiet (sendData sid ppid data expiry maxRtx ordered) := by unfold sendData; quiet_tac
macro_rules | `(tactic| quiet_known) => `(tactic| apply sendData_quiet)

theorem t1Cancel_quiet : Quiet t1Cancel := by unfold t1Cancel; quiet_tac
macro_rules | `(tactic| quiet_known) => `(tactic| apply t1Cancel_quiet)

theorem t2Cancel_quiet : Quiet t2Cancel := by unfold t2Cancel; quiet_tac
macro_rules | `(tactic| quiet_known) => `(tactic| apply t2Cancel_quiet)

theorem t3Cancel_quiet : Quiet t3Cancel := by unfold t3Cancel; quiet_tac
macro_rules | `(tactic| quiet_known) => `(tactic| apply t3Cancel_quiet)

theorem rcCancel_quiet : Quiet rcCancel := by unfold rcCancel; quiet_tac
macro_rules | `(tactic| quiet_known) => `(tactic| apply rcCancel_quiet)

theorem rcStart_quiet : Quiet rcStart := by unfold rcStart; quiet_tac
macro_rules | `(tactic| quiet_known) => `(tactic| apply rcStart_quiet)

theorem t1Start_quiet (c : Chunk) : Quiet (t1Start c) := by unfold t1Start; quiet_tac
macro_rules | `(tactic| quiet_known) => `(tactic| apply t1Start_quiet)

theorem t2Start_quiet (c : Chunk) : Quiet (t2Start c) := by unfold t2Start; quiet_tac
macro_rules | `(tactic| quiet_known) => `(tactic| apply t2Start_quiet)

theorem dcClosed_quiet (sid : Nat) : Quiet (dcClosed sid) := by unfold dcClosed; quiet_tac
macro_rules | `(tactic| quiet_known) => `(tactic| apply dcClosed_quiet)

theorem transmitReconfig_quiet : Quiet transmitReconfig := by unfold transmitReconfig; quiet_tac
macro_rules | `(tactic| quiet_known) => `(tactic| apply transmitReconfig_quiet)

theorem flushLoop_quiet (fuel : Nat) : Quiet (flushLoop fuel) := by
  induction fuel with
  | zero => unfold flushLoop; quiet_tac
  | succ n ih => unfold flushLoop; quiet_tac
macro_rules | `(tactic| quiet_known) => `(tactic| apply flushLoop_quiet)

theorem flush_quiet : Quiet flush := by unfold flush; quiet_tac
macro_rules | `(tactic| quiet_known) => `(tactic| apply flush_quiet)

theorem dcClose_quiet (i : Nat) : Quiet (dcClose i) := by unfold dcClose; quiet_tac
macro_rules | `(tactic| quiet_known) => `(tactic| apply dcClose_quiet)

theorem setState_quiet (st : AState) : Quiet (setState st) := by unfold setState; quiet_tac
macro_rules | `(tactic| quiet_known) => `(tactic| apply setState_quiet)

theorem dcReceive_quiet (sid ppid : Nat) (data : Bytes) : Quiet (dcReceive sid ppid data) := by unfold dcReceive; quiet_tac
macro_rules | `(tactic| quiet_known) => `(tactic| apply dcReceive_quiet)

theorem getInStream_quiet (sid : Nat) : Quiet (getInStream sid) := by unfold getInStream; quiet_tac
macro_rules | `(tactic| quiet_known) => `(tactic| apply getInStream_quiet)

theorem setInStream_quiet (sid : Nat) (st : InStream) : Quiet (setInStream sid st) := by unfold setInStream; quiet_tac
macro_rules | `(tactic| quiet_known) => `(tactic| apply setInStream_quiet)

theorem deliver_quiet (msgs : List Msg) : Quiet (deliver msgs) := by unfold deliver; quiet_tac
macro_rules | `(tactic| quiet_known) => `(tactic| apply deliver_quiet)

theorem receiveData_quiet (c : RChunk) : Quiet (receiveData c) := by unfold receiveData; quiet_tac
macro_rules | `(tactic| quiet_known) => `(tactic| apply receiveData_quiet)

theorem receiveForwardTsn_quiet (cum : Int) (streams : List (Nat × Nat)) : Quiet (receiveForwardTsn cum streams) := by unfold receiveForwardTsn; quiet_tac
macro_rules | `(tactic| quiet_known) => `(tactic| apply receiveForwardTsn_quiet)

theorem sendReconfigResponse_quiet (r : Nat) : Quiet (sendReconfigResponse r) := by unfold sendReconfigResponse; quiet_tac
macro_rules | `(tactic| quiet_known) => `(tactic| apply sendReconfigResponse_quiet)

theorem receiveReconfigParam_quiet (p : RcParam) : Quiet (receiveReconfigParam p) := by
  cases p <;> (unfold receiveReconfigParam; quiet_tac)
macro_rules | `(tactic| quiet_known) => `(tactic| apply receiveReconfigParam_quiet)

theorem getExtensions_quiet (ps : List Param) : Quiet (getExtensions ps) := by unfold getExtensions; quiet_tac
macro_rules | `(tactic| quiet_known) => `(tactic| apply getExtensions_quiet)

theorem receiveSack_quiet (cum : Nat) (gaps : List (Nat × Nat)) : Quiet (receiveSack cum gaps) := by unfold receiveSack; quiet_tac
macro_rules | `(tactic| quiet_known) => `(tactic| apply receiveSack_quiet)

theorem receiveChunk_quiet (cookie : Bytes) (c : Chunk) : Quiet (receiveChunk cookie c) := by unfold receiveChunk; quiet_tac
macro_rules | `(tactic| quiet_known) => `(tactic| apply receiveChunk_quiet)

theorem sendSack_quiet : Quiet sendSack := by unfold sendSack; quiet_tac
macro_rules | `(tactic| quiet_known) => `(tactic| apply sendSack_quiet)

theorem handleData_quiet (d cookie : Bytes) : Quiet (handleData d cookie) := by unfold handleData; quiet_tac
macro_rules | `(tactic| quiet_known) => `(tactic| apply handleData_quiet)

theorem createChannel_quiet (p : CreateParams) : Quiet (createChannel p) := by unfold createChannel; quiet_tac
macro_rules | `(tactic| quiet_known) => `(tactic| apply createChannel_quiet)

theorem runTask_quiet : Quiet runTask := by unfold runTask; quiet_tac
macro_rules | `(tactic| quiet_known) => `(tactic| apply runTask_quiet)

theorem handle_quiet (inp : Input) : Quiet (handle inp) := by
  unfold handle; quiet_tac

end Aiortc.Sctp
