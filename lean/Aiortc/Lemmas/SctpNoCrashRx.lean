import Aiortc.Lemmas.SctpNoCrashInv
/-! # Receive side, pure part: TSN bookkeeping stays in range, reassembly never hangs, byte accounting -/
namespace Aiortc.Sctp
open Aiortc.Gen Aiortc.Sctp.Wire
set_option linter.unusedSimpArgs false

def RxR (r : Rx) : Prop := InRange32 r.last ∧ (∀ x ∈ r.mis, InRange32 x) ∧ (∀ x ∈ r.dups, InRange32 x)

def rbytes (l : List RChunk) : Nat := (l.map (·.data.length)).sum
def msgsBytes (l : List Msg) : Nat := (l.map (·.data.length)).sum

theorem mem_insertByKey {base t : Int} {l : List Int} {x : Int} (h : x ∈ insertByKey base t l) :
    x = t ∨ x ∈ l := by
  induction l with
  | nil => simp [insertByKey] at h; exact Or.inl h
  | cons y ys ih =>
    simp only [insertByKey] at h
    split at h
    · simpa using h
    · rcases List.mem_cons.1 h with h | h
      · right; simp [h]
      · rcases ih h with h | h
        · left; exact h
        · right; simp [h]

theorem mem_sortByKey {base : Int} {l : List Int} {x : Int} (h : x ∈ sortByKey base l) : x ∈ l := by
  induction l with
  | nil => simp [sortByKey] at h
  | cons y ys ih =>
    simp only [sortByKey, List.foldr_cons] at h
    rcases mem_insertByKey h with h | h
    · simp [h]
    · exact List.mem_cons_of_mem _ (ih h)

theorem consolidate_mem (last : Int) (l : List Int) :
    consolidate last l = last ∨ consolidate last l ∈ l := by
  induction l generalizing last with
  | nil => left; rfl
  | cons t ts ih =>
    simp only [consolidate]
    split
    · rcases ih t with h | h
      · right; simp [h]
      · right; exact List.mem_cons_of_mem _ h
    · left; rfl

theorem consolidate_sorted_range' {base last : Int} {l : List Int} (hl : InRange32 last)
    (h : ∀ x ∈ l, InRange32 x) : InRange32 (consolidate last (sortByKey base l)) := by
  rcases consolidate_mem last (sortByKey base l) with h' | h'
  · rw [h']; exact hl
  · exact h _ (mem_sortByKey h')

theorem markReceived_range {r : Rx} {tsn : Int} (hr : RxR r) (ht : InRange32 tsn) : RxR (markReceived r tsn).2 := by
  obtain ⟨h1, h2, h3⟩ := hr
  unfold markReceived
  split
  · refine ⟨h1, h2, ?_⟩
    intro x hx
    rcases List.mem_append.1 hx with hx | hx
    · exact h3 x hx
    · simp at hx; exact hx ▸ ht
  · have hm : ∀ x ∈ r.mis ++ [tsn], InRange32 x := by
      intro x hx
      rcases List.mem_append.1 hx with hx | hx
      · exact h2 x hx
      · simp at hx; exact hx ▸ ht
    refine ⟨consolidate_sorted_range' h1 hm, ?_, ?_⟩
    · intro x hx; exact hm x (List.mem_filter.1 hx).1
    · intro x hx; exact h3 x (List.mem_filter.1 hx).1

@[simp] theorem rbytes_nil : rbytes [] = 0 := rfl
@[simp] theorem rbytes_cons (c : RChunk) (l : List RChunk) : rbytes (c :: l) = c.data.length + rbytes l := by
  simp [rbytes]
@[simp] theorem rbytes_append (l l' : List RChunk) : rbytes (l ++ l') = rbytes l + rbytes l' := by
  simp [rbytes]

theorem insertLoop_bytes {c : RChunk} {l r : List RChunk} (h : insertLoop c l = some r) :
    rbytes r ≤ rbytes l + c.data.length := by
  induction l generalizing r with
  | nil => simp [insertLoop] at h; subst h; simp
  | cons x xs ih =>
    simp only [insertLoop] at h
    split at h
    · cases h
    · split at h
      · cases h; simp; omega
      · cases h' : insertLoop c xs with
        | none => simp [h'] at h
        | some r' =>
          simp [h'] at h; subst h
          have := ih h'
          simp; omega

theorem addChunk_outcome (s : InStream) (c : RChunk) :
    (∃ s', s.addChunk c = .ok s' ∧ rbytes s'.reasm ≤ rbytes s.reasm + c.data.length) ∨
      s.addChunk c = .crash "AssertionError" := by
  unfold InStream.addChunk
  split
  · left; exact ⟨_, rfl, by simp⟩
  · split
    · left; exact ⟨_, rfl, by simp⟩
    · split
      · right; rfl
      · rename_i r hr
        left; exact ⟨_, rfl, insertLoop_bytes hr⟩

/-! ## `pop_messages` terminates within its fuel and only moves bytes from the queue to the output -/

theorem msgsBytes_snoc (l : List Msg) (m : Msg) : msgsBytes (l ++ [m]) = msgsBytes l + m.data.length := by
  simp [msgsBytes]

theorem length_flatMap_data (l : List RChunk) : (l.flatMap (·.data)).length = rbytes l := by
  induction l with
  | nil => rfl
  | cons c cs ih => simp [ih]

theorem rbytes_split (l : List RChunk) (sp pos : Nat) (h : sp ≤ pos) :
    rbytes l = rbytes (l.take sp) + rbytes ((l.take (pos + 1)).drop sp) + rbytes (l.drop (pos + 1)) := by
  have h1 : l = l.take (pos + 1) ++ l.drop (pos + 1) := (List.take_append_drop _ _).symm
  have h2 : l.take (pos + 1) = (l.take (pos + 1)).take sp ++ (l.take (pos + 1)).drop sp :=
    (List.take_append_drop _ _).symm
  have h3 : (l.take (pos + 1)).take sp = l.take sp := by
    rw [List.take_take]; congr 1; omega
  conv => lhs; rw [h1, h2, h3]
  simp only [rbytes_append]

def PopInv (st : PopSt) : Prop := st.pos ≤ st.reasm.length ∧ ∀ sp, st.start = some sp → sp ≤ st.pos

/-- What one or more loop iterations preserve: bytes, chunks and messages come from the queue. -/
def PopRel (st st' : PopSt) : Prop :=
  rbytes st'.reasm + msgsBytes st'.out ≤ rbytes st.reasm + msgsBytes st.out ∧
  (∀ x ∈ st'.reasm, x ∈ st.reasm) ∧
  (∀ m ∈ st'.out, m ∈ st.out ∨ ∃ x ∈ st.reasm, m.sid = x.sid)

theorem PopRel.refl (st : PopSt) : PopRel st st :=
  ⟨Nat.le_refl _, fun _ h => h, fun _ h => Or.inl h⟩

theorem PopRel.trans {a b c : PopSt} (h1 : PopRel a b) (h2 : PopRel b c) : PopRel a c := by
  refine ⟨Nat.le_trans h2.1 h1.1, fun x hx => h1.2.1 x (h2.2.1 x hx), ?_⟩
  intro m hm
  rcases h2.2.2 m hm with h | ⟨x, hx, hs⟩
  · exact h1.2.2 m h
  · exact Or.inr ⟨x, h1.2.1 x hx, hs⟩

def PopStep (st st' : PopSt) : Prop :=
  PopInv st' ∧ 2 * st'.reasm.length + st.pos + 1 ≤ 2 * st.reasm.length + st'.pos ∧ PopRel st st'

theorem popTail_step (st : PopSt) (chunk : RChunk) (sp : Nat) (hi : PopInv st)
    (hp : st.pos < st.reasm.length) (hs : sp ≤ st.pos) (hc : chunk ∈ st.reasm) :
    PopStep st (popTail st chunk sp) := by
  unfold popTail
  split
  · refine ⟨⟨?_, ?_⟩, ?_, ?_, ?_, ?_⟩
    · simp <;> omega
    · intro sp' h; simp at h
    · simp <;> omega
    · simp only [msgsBytes_snoc, length_flatMap_data, rbytes_append]
      have := rbytes_split st.reasm sp st.pos hs
      omega
    · intro x hx
      rcases List.mem_append.1 hx with hx | hx
      · exact List.mem_of_mem_take hx
      · exact List.mem_of_mem_drop hx
    · intro m hm
      rcases List.mem_append.1 hm with hm | hm
      · exact Or.inl hm
      · simp at hm; subst hm; exact Or.inr ⟨chunk, hc, rfl⟩
  · refine ⟨⟨?_, ?_⟩, ?_, PopRel.refl st⟩
    · simp <;> omega
    · intro sp' h; have := hi.2 sp' h; simp <;> omega
    · simp <;> omega

theorem popIter_step {st st' : PopSt} (hi : PopInv st) (h : popIter st = some st') : PopStep st st' := by
  unfold popIter at h
  split at h
  · cases h
  · rename_i chunk hc
    have hp : st.pos < st.reasm.length := by
      rcases Nat.lt_or_ge st.pos st.reasm.length with h' | h'
      · exact h'
      · rw [List.getElem?_eq_none h'] at hc; cases hc
    have hmem : chunk ∈ st.reasm := List.mem_of_getElem? hc
    split at h
    · rename_i hst
      dsimp only at h
      split at h
      · split at h
        · cases h
        · cases h
          refine ⟨⟨?_, ?_⟩, ?_, PopRel.refl st⟩
          · simp <;> omega
          · intro sp' h'; simp [hst] at h'
          · simp <;> omega
      · split at h
        · cases h
        · cases h
          exact popTail_step { st with ordered := !flagU chunk.flags, expected := chunk.tsn, start := some st.pos }
            chunk st.pos ⟨hi.1, by intro sp' h'; simp at h'; subst h'; exact Nat.le_refl _⟩ hp (Nat.le_refl _) hmem
    · rename_i sp hst
      split at h
      · split at h
        · cases h
        · cases h
          refine ⟨⟨?_, ?_⟩, ?_, PopRel.refl st⟩
          · simp <;> omega
          · intro sp' h'; simp at h'
          · simp <;> omega
      · cases h
        exact popTail_step st chunk sp hi hp (hi.2 sp hst) hmem

theorem popRun_ok (fuel : Nat) : ∀ st : PopSt, PopInv st → 2 * st.reasm.length - st.pos < fuel →
    ∃ st', popRun fuel st = some st' ∧ PopRel st st' := by
  induction fuel with
  | zero => intro st _ h; omega
  | succ n ih =>
    intro st hi hm
    unfold popRun
    cases h : popIter st with
    | none => exact ⟨st, rfl, PopRel.refl st⟩
    | some st1 =>
      obtain ⟨hi1, hm1, hb1⟩ := popIter_step hi h
      have h0 := hi.1
      have h1 := hi1.1
      obtain ⟨st', hr, hb⟩ := ih st1 hi1 (by omega)
      exact ⟨st', hr, hb1.trans hb⟩

def popInit (s : InStream) : PopSt :=
  { reasm := s.reasm, seq := s.seq, pos := 0, start := none, expected := 0, ordered := true, out := [] }

theorem popMessages_run (s : InStream) :
    ∃ st', popRun (2 * s.reasm.length + 2) (popInit s) = some st' ∧ PopRel (popInit s) st' :=
  popRun_ok _ _ ⟨Nat.zero_le _, by intro sp h; simp [popInit] at h⟩ (by simp [popInit] <;> omega)

theorem popMessages_ok (s : InStream) :
    ∃ msgs s', s.popMessages = .ok (msgs, s') ∧ rbytes s'.reasm + msgsBytes msgs ≤ rbytes s.reasm := by
  unfold InStream.popMessages
  obtain ⟨st', hr, hb, -, -⟩ := popMessages_run s
  simp only [popInit] at hr hb
  simp only [hr]
  exact ⟨_, _, rfl, by simpa [msgsBytes] using hb⟩

/-! ## `prune_chunks` -/

theorem takeRun_append (prev : RChunk) (l : List RChunk) : (takeRun prev l).1 ++ (takeRun prev l).2 = l := by
  induction l generalizing prev with
  | nil => simp [takeRun]
  | cons c cs ih =>
    unfold takeRun
    split
    · simp [ih c]
    · simp

theorem pruneGo_bytes (tsn : Int) (fuel : Nat) : ∀ l : List RChunk,
    rbytes (pruneGo tsn fuel l).1 + (pruneGo tsn fuel l).2 ≤ rbytes l := by
  induction fuel with
  | zero => intro l; simp [pruneGo]
  | succ n ih =>
    intro l
    cases l with
    | nil => simp [pruneGo]
    | cons first cs =>
      have h1 := takeRun_append first cs
      have h2 := ih (takeRun first cs).2
      have h3 : rbytes cs = rbytes (takeRun first cs).1 + rbytes (takeRun first cs).2 := by
        rw [← rbytes_append, h1]
      simp only [pruneGo]
      split
      · simp only [List.map_cons, List.sum_cons, rbytes_cons]
        have : ((takeRun first cs).1.map (·.data.length)).sum = rbytes (takeRun first cs).1 := rfl
        omega
      · simp only [rbytes_cons, rbytes_append, List.cons_append]
        omega

theorem pruneChunks_bytes (s : InStream) (tsn : Int) :
    rbytes (s.pruneChunks tsn).1.reasm + (s.pruneChunks tsn).2 ≤ rbytes s.reasm := by
  simpa [InStream.pruneChunks] using pruneGo_bytes tsn (s.reasm.length + 1) s.reasm

theorem consolidate_sorted_range {base last : Int} {l : List Int} (hl : InRange32 last)
    (h : ∀ x ∈ l, InRange32 x) : InRange32 (consolidate last (sortByKey base l)) :=
  consolidate_sorted_range' hl h

/-! ## the inbound stream table (`dict`) and the receive window accounting -/

theorem dictGet_nil {β} (k : Nat) : dictGet ([] : List (Nat × β)) k = none := rfl

theorem dictGet_cons {β} (e : Nat × β) (es : List (Nat × β)) (k : Nat) :
    dictGet (e :: es) k = if e.1 = k then some e.2 else dictGet es k := by
  simp only [dictGet, List.find?_cons]
  cases hb : (e.1 == k)
  · have : ¬ e.1 = k := by simpa using hb
    simp [this]
  · have : e.1 = k := by simpa using hb
    simp [this]

theorem dictGet_cons_eq {β} (e : Nat × β) (es : List (Nat × β)) {k : Nat} (h : e.1 = k) :
    dictGet (e :: es) k = some e.2 := by
  rw [dictGet_cons, if_pos h]

theorem dictGet_cons_ne {β} (e : Nat × β) (es : List (Nat × β)) {k : Nat} (h : ¬ e.1 = k) :
    dictGet (e :: es) k = dictGet es k := by
  rw [dictGet_cons, if_neg h]

theorem dictGet_none_iff {β} (d : List (Nat × β)) (k : Nat) : dictGet d k = none ↔ k ∉ d.map (·.1) := by
  induction d with
  | nil => simp [dictGet_nil]
  | cons e es ih =>
    by_cases h : e.1 = k
    · rw [dictGet_cons_eq e es h]; simp [h]
    · rw [dictGet_cons_ne e es h, ih]
      have : ¬ k = e.1 := fun h' => h h'.symm
      simp [this]

theorem dictAny_iff {β} (d : List (Nat × β)) (k : Nat) : d.any (·.1 == k) = true ↔ k ∈ d.map (·.1) := by
  simp only [List.any_eq_true, List.mem_map, beq_iff_eq]

theorem mapSet_cons_eq {β} (e : Nat × β) (es : List (Nat × β)) {k : Nat} (v : β) (h : e.1 = k) :
    (e :: es).map (fun e => if e.1 == k then (k, v) else e) =
      (k, v) :: es.map (fun e => if e.1 == k then (k, v) else e) := by
  have : (e.1 == k) = true := by simp [h]
  rw [List.map_cons, this]; rfl

theorem mapSet_cons_ne {β} (e : Nat × β) (es : List (Nat × β)) {k : Nat} (v : β) (h : ¬ e.1 = k) :
    (e :: es).map (fun e => if e.1 == k then (k, v) else e) =
      e :: es.map (fun e => if e.1 == k then (k, v) else e) := by
  have : (e.1 == k) = false := by simp [h]
  rw [List.map_cons, this]; rfl

theorem dictGet_mapSet_ne {β} (d : List (Nat × β)) {k k' : Nat} (v : β) (hne : k' ≠ k) :
    dictGet (d.map (fun e => if e.1 == k then (k, v) else e)) k' = dictGet d k' := by
  induction d with
  | nil => rfl
  | cons e es ih =>
    by_cases h : e.1 = k
    · have h' : ¬ e.1 = k' := fun h'' => hne (h''.symm.trans h)
      rw [mapSet_cons_eq e es v h, dictGet_cons_ne _ _ h', dictGet_cons_ne _ _ (show ¬ (k, v).1 = k' from fun h'' => hne h''.symm), ih]
    · rw [mapSet_cons_ne e es v h]
      by_cases h' : e.1 = k'
      · rw [dictGet_cons_eq _ _ h', dictGet_cons_eq _ _ h']
      · rw [dictGet_cons_ne _ _ h', dictGet_cons_ne _ _ h', ih]

theorem dictGet_mapSet_self {β} (d : List (Nat × β)) {k : Nat} (v : β) (hm : k ∈ d.map (·.1)) :
    dictGet (d.map (fun e => if e.1 == k then (k, v) else e)) k = some v := by
  induction d with
  | nil => simp at hm
  | cons e es ih =>
    by_cases h : e.1 = k
    · rw [mapSet_cons_eq e es v h, dictGet_cons_eq _ _ rfl]
    · rw [mapSet_cons_ne e es v h, dictGet_cons_ne _ _ h]
      apply ih
      simp only [List.map_cons, List.mem_cons] at hm
      rcases hm with hm | hm
      · exact absurd hm.symm h
      · exact hm

theorem dictGet_append_mem {β} (d l : List (Nat × β)) {k : Nat} (hm : k ∈ d.map (·.1)) :
    dictGet (d ++ l) k = dictGet d k := by
  induction d with
  | nil => simp at hm
  | cons e es ih =>
    rw [List.cons_append]
    by_cases h : e.1 = k
    · rw [dictGet_cons_eq _ _ h, dictGet_cons_eq _ _ h]
    · rw [dictGet_cons_ne _ _ h, dictGet_cons_ne _ _ h]
      apply ih
      simp only [List.map_cons, List.mem_cons] at hm
      rcases hm with hm | hm
      · exact absurd hm.symm h
      · exact hm

theorem dictGet_append_not {β} (d l : List (Nat × β)) {k : Nat} (hm : k ∉ d.map (·.1)) :
    dictGet (d ++ l) k = dictGet l k := by
  induction d with
  | nil => rfl
  | cons e es ih =>
    simp only [List.map_cons, List.mem_cons, not_or] at hm
    have h : ¬ e.1 = k := fun h' => hm.1 h'.symm
    rw [List.cons_append, dictGet_cons_ne _ _ h, ih hm.2]

theorem dictGet_dictSet_ne {β} (d : List (Nat × β)) {k k' : Nat} (v : β) (hne : k' ≠ k) :
    dictGet (dictSet d k v) k' = dictGet d k' := by
  unfold dictSet
  split
  · exact dictGet_mapSet_ne d v hne
  · by_cases hm : k' ∈ d.map (·.1)
    · exact dictGet_append_mem d _ hm
    · rw [dictGet_append_not d _ hm, (dictGet_none_iff d k').2 hm,
        dictGet_cons_ne _ _ (show ¬ (k, v).1 = k' from fun h'' => hne h''.symm)]
      rfl

theorem dictGet_dictSet_self {β} (d : List (Nat × β)) (k : Nat) (v : β) :
    dictGet (dictSet d k v) k = some v := by
  unfold dictSet
  split
  · rename_i h; exact dictGet_mapSet_self d v ((dictAny_iff d k).1 h)
  · rename_i h
    have : k ∉ d.map (·.1) := fun h' => h ((dictAny_iff d k).2 h')
    rw [dictGet_append_not d _ this, dictGet_cons_eq _ _ rfl]

@[simp] theorem reasmBytes_nil : reasmBytes [] = 0 := rfl
@[simp] theorem reasmBytes_cons (e : Nat × InStream) (es : List (Nat × InStream)) :
    reasmBytes (e :: es) = rbytes e.2.reasm + reasmBytes es := by
  simp [reasmBytes, rbytes]
@[simp] theorem reasmBytes_append (l l' : List (Nat × InStream)) :
    reasmBytes (l ++ l') = reasmBytes l + reasmBytes l' := by
  simp [reasmBytes]

theorem mapSet_absent {β} (d : List (Nat × β)) (k : Nat) (v : β) (h : k ∉ d.map (·.1)) :
    d.map (fun e => if e.1 == k then (k, v) else e) = d := by
  induction d with
  | nil => rfl
  | cons e es ih =>
    simp only [List.map_cons, List.mem_cons, not_or] at h
    have : ¬ e.1 = k := fun h' => h.1 h'.symm
    rw [mapSet_cons_ne e es v this, ih h.2]

theorem mapSet_keys {β} (d : List (Nat × β)) (k : Nat) (v : β) :
    (d.map (fun e => if e.1 == k then (k, v) else e)).map (·.1) = d.map (·.1) := by
  induction d with
  | nil => rfl
  | cons e es ih =>
    by_cases h : e.1 = k
    · rw [mapSet_cons_eq e es v h, List.map_cons, List.map_cons, ih, h]
    · rw [mapSet_cons_ne e es v h, List.map_cons, List.map_cons, ih]

theorem reasmBytes_mapSet {ins : List (Nat × InStream)} {sid : Nat} {s s' : InStream}
    (hk : (ins.map (·.1)).Nodup) (hg : dictGet ins sid = some s) :
    reasmBytes (ins.map (fun e => if e.1 == sid then (sid, s') else e)) + rbytes s.reasm =
      reasmBytes ins + rbytes s'.reasm := by
  induction ins with
  | nil => simp [dictGet_nil] at hg
  | cons e es ih =>
    simp only [List.map_cons, List.nodup_cons] at hk
    by_cases h : e.1 = sid
    · rw [dictGet_cons_eq _ _ h] at hg
      simp only [Option.some.injEq] at hg
      rw [mapSet_cons_eq e es s' h, mapSet_absent es sid s' (h ▸ hk.1), reasmBytes_cons, reasmBytes_cons, hg]
      show rbytes s'.reasm + _ + _ = _
      omega
    · rw [dictGet_cons_ne _ _ h] at hg
      have := ih hk.2 hg
      rw [mapSet_cons_ne e es s' h, reasmBytes_cons, reasmBytes_cons]
      omega

theorem Acc.set {k k' rwnd rwnd' : Int} {ins : List (Nat × InStream)} {sid : Nat} {s s' : InStream}
    (ha : Acc k rwnd ins) (hg : dictGet ins sid = some s)
    (hle : rwnd' + rbytes s'.reasm + k' ≤ rwnd + rbytes s.reasm + k) : Acc k' rwnd' (dictSet ins sid s') := by
  have hmem : sid ∈ ins.map (·.1) := by
    apply Classical.byContradiction
    intro h; rw [(dictGet_none_iff ins sid).2 h] at hg; cases hg
  have hany := (dictAny_iff ins sid).2 hmem
  unfold dictSet
  rw [if_pos hany]
  refine ⟨?_, ?_⟩
  · have h1 := reasmBytes_mapSet (s' := s') ha.keys hg
    have h2 := ha.acc
    omega
  · rw [mapSet_keys]; exact ha.keys

theorem Acc.append {k rwnd : Int} {ins : List (Nat × InStream)} {sid : Nat}
    (ha : Acc k rwnd ins) (hg : dictGet ins sid = none) :
    Acc k rwnd (ins ++ [(sid, ({} : InStream))]) ∧ dictGet (ins ++ [(sid, ({} : InStream))]) sid = some {} := by
  have hmem := (dictGet_none_iff ins sid).1 hg
  refine ⟨⟨?_, ?_⟩, ?_⟩
  · have := ha.acc
    simp; omega
  · rw [List.map_append, List.nodup_append]
    refine ⟨ha.keys, by simp, ?_⟩
    intro a ha' b hb
    simp at hb; subst hb
    intro h; exact hmem (h ▸ ha')
  · rw [dictGet_append_not ins _ hmem, dictGet_cons_eq _ _ rfl]

theorem reasmBytes_filter (p : Nat × InStream → Bool) (ins : List (Nat × InStream)) :
    reasmBytes (ins.filter p) ≤ reasmBytes ins := by
  induction ins with
  | nil => simp
  | cons e es ih =>
    rw [List.filter_cons]
    split <;> simp <;> omega

theorem Acc.del {k rwnd : Int} {ins : List (Nat × InStream)} (ha : Acc k rwnd ins) (sid : Nat) :
    Acc k rwnd (dictDel ins sid) := by
  unfold dictDel
  refine ⟨?_, ?_⟩
  · have := ha.acc
    have := reasmBytes_filter (·.1 != sid) ins
    omega
  · exact List.Nodup.sublist (List.Sublist.map _ List.filter_sublist) ha.keys

/-! ## `_send_sack` -/

def GapsOk (acc : List (Nat × Nat)) : Prop := acc.length ≤ 296 ∧ ∀ g ∈ acc, g.1 ≤ 65535 ∧ g.2 ≤ 65535

theorem GapsOk.snoc {acc : List (Nat × Nat)} {pos : Nat} (h : GapsOk acc) (hl : acc.length ≠ 296)
    (hp : pos ≤ 65535) : GapsOk (acc ++ [(pos, pos)]) := by
  refine ⟨?_, ?_⟩
  · have := h.1; simp; omega
  · intro g hg
    rcases List.mem_append.1 hg with hg | hg
    · exact h.2 g hg
    · simp at hg; subst hg; exact ⟨hp, hp⟩

theorem GapsOk.extend {acc r : List (Nat × Nat)} {a b pos : Nat} (h : GapsOk acc)
    (hr : acc.reverse = (a, b) :: r) (hp : pos ≤ 65535) : GapsOk (r.reverse ++ [(a, pos)]) := by
  have hacc : acc = r.reverse ++ [(a, b)] := by
    have := congrArg List.reverse hr
    simpa using this
  subst hacc
  refine ⟨?_, ?_⟩
  · have := h.1; simp at this ⊢; omega
  · intro g hg
    rcases List.mem_append.1 hg with hg | hg
    · exact h.2 g (List.mem_append_left _ hg)
    · simp at hg; subst hg
      exact ⟨(h.2 (a, b) (by simp)).1, hp⟩

theorem sackBuild_gen (rx : Rx) (l : List Int) : ∀ (gapNext : Option Int) (acc : List (Nat × Nat)),
    GapsOk acc → GapsOk (sendSack.build rx gapNext acc l) := by
  induction l with
  | nil => intro g acc h; simpa [sendSack.build] using h
  | cons t ts ih =>
    intro g acc h
    simp only [sendSack.build]
    split
    · exact h
    · rename_i hpos
      have hp : ((t - rx.last) % 4294967296).toNat ≤ 65535 := by omega
      split
      · apply ih
        split
        · rename_i a b r hr
          exact h.extend hr hp
        · exact ⟨by simp, by intro g hg; simp at hg; subst hg; exact ⟨hp, hp⟩⟩
      · split
        · exact h
        · rename_i hl
          exact ih _ _ (h.snoc hl hp)

theorem sackBuild_ok (rx : Rx) (sorted : List Int) :
    (sendSack.build rx none [] sorted).length ≤ 296 ∧ pairsInRange (sendSack.build rx none [] sorted) = true := by
  have h := sackBuild_gen rx sorted none [] ⟨by simp, by simp⟩
  refine ⟨h.1, ?_⟩
  simp only [pairsInRange, List.all_eq_true, Bool.and_eq_true, decide_eq_true_eq]
  intro g hg
  have := h.2 g hg
  omega

/-! ## membership: the receive path only moves chunks around -/

theorem insertLoop_mem {c : RChunk} {l r : List RChunk} (h : insertLoop c l = some r) :
    ∀ x ∈ r, x = c ∨ x ∈ l := by
  induction l generalizing r with
  | nil => simp [insertLoop] at h; subst h; simp
  | cons y ys ih =>
    simp only [insertLoop] at h
    split at h
    · cases h
    · split at h
      · cases h; intro x hx; simpa using hx
      · cases h' : insertLoop c ys with
        | none => simp [h'] at h
        | some r' =>
          simp [h'] at h; subst h
          intro x hx
          rcases List.mem_cons.1 hx with hx | hx
          · right; simp [hx]
          · rcases ih h' x hx with h | h
            · exact Or.inl h
            · right; simp [h]

theorem addChunk_mem {s s' : InStream} {c : RChunk} (h : s.addChunk c = .ok s') :
    ∀ x ∈ s'.reasm, x = c ∨ x ∈ s.reasm := by
  unfold InStream.addChunk at h
  split at h
  · cases h; intro x hx; left; simpa using hx
  · split at h
    · cases h; intro x hx
      rcases List.mem_append.1 hx with hx | hx
      · exact Or.inr hx
      · left; simpa using hx
    · split at h
      · cases h
      · rename_i r hr
        cases h
        exact insertLoop_mem hr

theorem popMessages_mem {s s' : InStream} {msgs : List Msg} (h : s.popMessages = .ok (msgs, s')) :
    (∀ x ∈ s'.reasm, x ∈ s.reasm) ∧ (∀ m ∈ msgs, ∃ x ∈ s.reasm, m.sid = x.sid) := by
  unfold InStream.popMessages at h
  obtain ⟨st', hr, -, h1, h2⟩ := popMessages_run s
  simp only [popInit] at hr h1 h2
  simp only [hr] at h
  cases h
  refine ⟨h1, ?_⟩
  intro m hm
  rcases h2 m hm with h | h
  · simp at h
  · exact h

theorem pruneGo_mem (tsn : Int) (fuel : Nat) : ∀ l : List RChunk, ∀ x ∈ (pruneGo tsn fuel l).1, x ∈ l := by
  induction fuel with
  | zero => intro l x hx; simpa [pruneGo] using hx
  | succ n ih =>
    intro l
    cases l with
    | nil => intro x hx; simp [pruneGo] at hx
    | cons first cs =>
      have h1 := takeRun_append first cs
      have h2 := ih (takeRun first cs).2
      intro x hx
      simp only [pruneGo] at hx
      have hr : ∀ y ∈ (takeRun first cs).2, y ∈ first :: cs := by
        intro y hy; rw [← h1]; simp [hy]
      split at hx
      · exact hr x (h2 x hx)
      · simp only [List.cons_append, List.mem_cons, List.mem_append] at hx
        rcases hx with hx | hx | hx
        · simp [hx]
        · rw [← h1]; simp [hx]
        · exact hr x (h2 x hx)

theorem pruneChunks_mem (s : InStream) (tsn : Int) : ∀ x ∈ (s.pruneChunks tsn).1.reasm, x ∈ s.reasm := by
  simpa [InStream.pruneChunks] using pruneGo_mem tsn (s.reasm.length + 1) s.reasm

theorem insertLoop_none {c : RChunk} {l : List RChunk} (h : insertLoop c l = none) : ∃ r ∈ l, r.tsn = c.tsn := by
  induction l with
  | nil => simp [insertLoop] at h
  | cons r rs ih =>
    unfold insertLoop at h
    split at h
    · rename_i heq; exact ⟨r, by simp, heq⟩
    · split at h
      · cases h
      · simp only [Option.map_eq_none_iff] at h
        obtain ⟨x, hx, hxe⟩ := ih h
        exact ⟨x, by simp [hx], hxe⟩

/-- `add_chunk` cannot assert when no queued chunk has the TSN. -/
theorem addChunk_ok_of_fresh {s : InStream} {c : RChunk}
    (hf : s.reasm.any (fun r => r.tsn == c.tsn) = false) : ∃ s', s.addChunk c = .ok s' := by
  rcases addChunk_outcome s c with ⟨s', h, _⟩ | hcr
  · exact ⟨s', h⟩
  · exfalso
    unfold InStream.addChunk at hcr
    split at hcr
    · cases hcr
    · split at hcr
      · cases hcr
      · split at hcr
        · rename_i hn
          obtain ⟨x, hx, hxe⟩ := insertLoop_none hn
          rw [List.any_eq_false] at hf
          exact hf x hx (by simp [hxe])
        · cases hcr

end Aiortc.Sctp
