import Aiortc.Lemmas.SctpNoCrashChunk
/-! # Queued tasks and timers keep the invariant (under explicit conditions on what was queued / armed) -/
namespace Aiortc.Sctp
open Aiortc.Gen Aiortc.Sctp.Wire
set_option linter.unusedSimpArgs false

/-- What a queued retransmission must satisfy to be serialisable (true for everything `_t1_expired`,
`_t2_expired` and `_reconfig_timer_expired` queue, since the chunk / parameter was sent once already). -/
def TaskOk : Task → Prop
  | .resend c => c.inRange = true
  | .resendReconfig p =>
    (RcParam.resetOut p.1.toNat p.2.1.toNat p.2.2.1.toNat p.2.2.2).inRange = true ∧ p.2.2.2.length ≤ 135
  | _ => True

theorem wp_runTask {A} {Q : Unit → St → Prop} {e : Ep} {l : List Out} (h : WF e)
    (ht : ∀ t rest, e.tasks = t :: rest → TaskOk t)
    (hq : ∀ e' l', WF e' → e'.rwnd = e.rwnd → e'.inStreams = e.inStreams → Q () (e', l')) :
    wp A runTask Q (e, l) := by
  unfold runTask
  simp only [wp_bind, wp_getE]
  split
  · simpa using hq e l h rfl rfl
  · rename_i t rest hte
    have hok := ht t rest hte
    simp only [wp_bind, wp_setE]
    have hw1 : WF { e with tasks := rest } := by wf_same h
    cases t with
    | flush =>
      refine wp_flush hw1 ?_
      intro e' l' hw' hf
      obtain ⟨cs, dcs, q, tx, _, _, _, _, rfl, _⟩ := hf
      exact hq _ _ hw' rfl rfl
    | transmit =>
      refine wp_transmit hw1 ?_
      intro tx l' hw'
      exact hq _ _ hw' rfl rfl
    | reconfig =>
      refine wp_transmitReconfig hw1 ?_
      intro e' l' hw' hf
      exact hq _ _ hw' hf.rwnd hf.ins
    | resend c =>
      refine wp_sendChunk hw1 hok ?_
      intro d
      exact hq _ _ hw1 rfl rfl
    | resendReconfig p =>
      obtain ⟨hin, hlen⟩ := hok
      simp only [wp_bind, RcParam.serialize, hin, if_true, wp_liftO_ok]
      refine wp_sendChunk hw1 (reconfigChunk_inRange (by decide) ?_) ?_
      · simp only [RcParam.bytes, List.length_append, length_u32be, length_u16sBytes]
        omega
      · intro d
        exact hq _ _ hw1 rfl rfl

/-- T1 / T2 expiry: `AttributeError` unless a chunk was stored when the timer was armed. -/
theorem wp_fire_t1 {A} {Q : Unit → St → Prop} {e : Ep} {l : List Out} (h : WF e) (hc : e.t1Chunk.isSome = true)
    (hq : ∀ e' l', WF e' → e'.rwnd = e.rwnd → e'.inStreams = e.inStreams → Q () (e', l')) :
    wp A (handle (.fire "t1")) Q (e, l) := by
  obtain ⟨c, hcs⟩ := Option.isSome_iff_exists.mp hc
  simp only [handle, wp_bind, wp_modE, wp_getE]
  split
  · refine wp_setState_closed (e := { e with t1Failures := e.t1Failures + 1, t1 := false }) (by wf_same h) ?_
    intro e' l' hw hr hi
    exact hq _ _ hw hr hi
  · simp only [hcs, wp_bind, wp_queueTask, wp_modE, wp_emit]
    exact hq _ _ (by wf_same h) rfl rfl

theorem wp_fire_t2 {A} {Q : Unit → St → Prop} {e : Ep} {l : List Out} (h : WF e) (hc : e.t2Chunk.isSome = true)
    (hq : ∀ e' l', WF e' → e'.rwnd = e.rwnd → e'.inStreams = e.inStreams → Q () (e', l')) :
    wp A (handle (.fire "t2")) Q (e, l) := by
  obtain ⟨c, hcs⟩ := Option.isSome_iff_exists.mp hc
  simp only [handle, wp_bind, wp_modE, wp_getE]
  split
  · refine wp_setState_closed (e := { e with t2Failures := e.t2Failures + 1, t2 := false }) (by wf_same h) ?_
    intro e' l' hw hr hi
    exact hq _ _ hw hr hi
  · simp only [hcs, wp_bind, wp_queueTask, wp_modE, wp_emit]
    exact hq _ _ (by wf_same h) rfl rfl

theorem wp_fire_reconfig {A} {Q : Unit → St → Prop} {e : Ep} {l : List Out} (h : WF e)
    (hq : ∀ e' l', WF e' → e'.rwnd = e.rwnd → e'.inStreams = e.inStreams → Q () (e', l')) :
    wp A (handle (.fire "reconfig")) Q (e, l) := by
  simp only [handle, wp_bind, wp_modE, wp_getE]
  split
  · split
    · simp only [wp_bind, wp_queueTask]
      refine wp_rcStart ?_
      intro l'
      exact hq _ _ (by wf_same h) rfl rfl
    · simp only [wp_pure]
      exact hq _ _ (by wf_same h) rfl rfl
  · simp only [wp_pure]
    exact hq _ _ (by wf_same h) rfl rfl

/-- T3 expiry (`_t3_expired`). -/
theorem wp_fire_t3 {A} {Q : Unit → St → Prop} {e : Ep} {l : List Out} (h : WF e)
    (hq : ∀ e' l', WF e' → e'.rwnd = e.rwnd → e'.inStreams = e.inStreams → Q () (e', l')) :
    wp A (handle (.fire "t3")) Q (e, l) := by
  simp only [handle, wp_bind, wp_setE, wp_getE, wp_queueTask]
  exact hq _ _ (by wf_same (h.setTx (Tx.t3Expired_ok e.tx h.tx (1000 * e.now)))) rfl rfl

end Aiortc.Sctp
