import Aiortc.Lemmas.SctpNoCrashInv
/-! # Send side: the queues stay serialisable through `_transmit`, `_send`, `_receive_sack_chunk` -/
namespace Aiortc.Sctp
open Aiortc.Gen Aiortc.Sctp.Wire

/-! ## chunks: the loops only touch bookkeeping attributes -/

/-- In range on the wire and not subject to partial reliability. -/
private def SChunk.Good (c : SChunk) : Prop := c.Wire ∧ c.Rel

private theorem decFlight_good {fl : Nat} {c : SChunk} (h : c.Good) : (decFlight fl c).2.Good := by
  unfold decFlight; split
  · exact h
  · exact h

private theorem incFlight_good {fl : Nat} {c : SChunk} (h : c.Good) : (incFlight fl c).2.Good := by
  unfold incFlight; split
  · exact h
  · exact h

private theorem toR_wire {c : SChunk} (h : c.Good) : TxEv.Ok (.data c.toR) := h.1

private theorem t3Restart_ok (b : Bool) : ∀ ev ∈ t3Restart b, ev.Ok := by
  intro ev hev
  cases b <;> simp [t3Restart] at hev <;> rcases hev with rfl | rfl <;> trivial

private theorem mem_modify {α} {P : α → Prop} (f : α → α) :
    ∀ (l : List α) (i : Nat), (∀ c ∈ l, P c) → (∀ c ∈ l, P (f c)) → ∀ c ∈ l.modify i f, P c := by
  intro l
  induction l with
  | nil => intro i h _ c hc; simp at hc
  | cons a l ih =>
    intro i h hf c hc
    cases i with
    | zero =>
      simp only [List.modify_zero_cons, List.mem_cons] at hc
      rcases hc with rfl | hc
      · exact hf a (by simp)
      · exact h c (by simp [hc])
    | succ i =>
      simp only [List.modify_succ_cons, List.mem_cons] at hc
      rcases hc with rfl | hc
      · exact h _ (by simp)
      · exact ih i (fun c hc => h c (by simp [hc])) (fun c hc => hf c (by simp [hc])) c hc

/-! ## `_maybe_abandon`, `_update_advanced_peer_ack_point` are no-ops -/

private theorem maybeAbandon_rel (t : Tx) (pos : Nat) (now : Int) (h : ∀ c ∈ t.sentQ, c.Good) :
    t.maybeAbandon pos now = (false, t) := by
  unfold Tx.maybeAbandon
  cases hq : t.sentQ[pos]? with
  | none => rfl
  | some chunk =>
    obtain ⟨_, h1, h2, h3⟩ := h chunk (List.mem_of_getElem? hq)
    simp [shouldAbandon, h1, h2, h3]

private theorem popAbandoned_rel (adv : Int) (streams : List (Nat × Int)) (needed : Bool) (l : List SChunk)
    (h : ∀ c ∈ l, c.Good) : popAbandoned adv streams needed l = (adv, streams, needed, l) := by
  cases l with
  | nil => rfl
  | cons c cs =>
    have := (h c (by simp)).2.2.2
    simp [popAbandoned, this]

private theorem TxOk.setSent {t : Tx} (h : TxOk t) {s : List SChunk} (hs : ∀ c ∈ s, c.Good) (fl : Nat) :
    TxOk { t with flight := fl, sentQ := s } :=
  ⟨hs, h.out, h.fwd, h.fwdN, h.seq, h.tsn⟩

private theorem updateAdvAck_ok (t : Tx) (h : TxOk t) : TxOk t.updateAdvAck := by
  unfold Tx.updateAdvAck
  cases hc : uint32_gte t.lastSacked t.advAck
  · simp only [Bool.false_eq_true, if_false, popAbandoned_rel _ _ _ _ h.sent, h.fwdN]
    exact ⟨h.sent, h.out, h.fwd, rfl, h.seq, h.tsn⟩
  · simp only [if_true, popAbandoned_rel _ _ _ _ h.sent, Bool.false_eq_true, if_false]
    exact ⟨h.sent, h.out, h.fwd, rfl, h.seq, h.tsn⟩

/-! ## the loops of `_receive_sack_chunk` and `_t3_expired` -/

private theorem ackLoop_mem (ls : Int) : ∀ (l : List SChunk) (fl d db : Nat),
    ∀ c ∈ (ackLoop ls fl d db l).2.2.2, c ∈ l := by
  intro l
  induction l with
  | nil => intro fl d db c hc; simp [ackLoop] at hc
  | cons a l ih =>
    intro fl d db c hc
    unfold ackLoop at hc
    split at hc
    · exact List.mem_cons_of_mem _ (ih _ _ _ c hc)
    · exact hc

private theorem htnaLoop_good (seen : List Int) (hs : Int) : ∀ (l acc : List SChunk) (fl db : Nat) (hna : Int),
    (∀ c ∈ acc, c.Good) → (∀ c ∈ l, c.Good) →
    ∀ c ∈ (htnaLoop seen hs fl db hna acc l).2.2.2, c.Good := by
  intro l
  induction l with
  | nil =>
    intro acc fl db hna ha _ c hc
    simp only [htnaLoop, List.mem_reverse] at hc
    exact ha c hc
  | cons a l ih =>
    intro acc fl db hna ha hl c hc
    have hga : a.Good := hl a (by simp)
    have hl' : ∀ c ∈ l, c.Good := fun c hc => hl c (by simp [hc])
    unfold htnaLoop at hc
    split at hc
    · simp only [List.mem_append, List.mem_reverse] at hc
      rcases hc with hc | hc
      · exact ha c hc
      · exact hl c hc
    · split at hc
      · refine ih _ _ _ _ ?_ hl' c hc
        intro x hx
        simp only [List.mem_cons] at hx
        rcases hx with rfl | hx
        · exact decFlight_good (c := { a with acked := true }) hga
        · exact ha x hx
      · refine ih _ _ _ _ ?_ hl' c hc
        intro x hx
        simp only [List.mem_cons] at hx
        rcases hx with rfl | hx
        · exact hga
        · exact ha x hx

private theorem strikeLoop_ok (seen : List Int) (hna now : Int) : ∀ (fuel pos : Nat) (t : Tx) (loss : Bool),
    TxOk t → (loss = true → t.sentQ ≠ []) →
    TxOk (strikeLoop seen hna now fuel pos t loss).1 ∧
      ((strikeLoop seen hna now fuel pos t loss).2 = true → (strikeLoop seen hna now fuel pos t loss).1.sentQ ≠ []) := by
  intro fuel
  induction fuel with
  | zero => intro pos t loss h hl; exact ⟨h, hl⟩
  | succ fuel ih =>
    intro pos t loss h hl
    unfold strikeLoop
    cases hq : t.sentQ[pos]? with
    | none => exact ⟨h, hl⟩
    | some c =>
      have hc : c.Good := h.sent c (List.mem_of_getElem? hq)
      have hne : t.sentQ.length ≠ 0 := by
        intro h0
        have : t.sentQ = [] := List.eq_nil_of_length_eq_zero h0
        rw [this] at hq; simp at hq
      simp only []
      split
      · exact ⟨h, hl⟩
      · split
        · split
          · -- third miss
            have h1 : TxOk { t with sentQ := t.sentQ.modify pos fun c => { c with misses := 0 } } :=
              ⟨mem_modify _ _ _ h.sent (fun c hc => h.sent c hc), h.out, h.fwd, h.fwdN, h.seq, h.tsn⟩
            rw [maybeAbandon_rel _ _ _ h1.sent]
            simp only []
            apply ih
            · refine TxOk.setSent h1 ?_ _
              apply mem_modify _ _ _ h1.sent
              intro _ _
              apply decFlight_good
              have : (((t.sentQ.modify pos fun c => { c with misses := 0 })[pos]?).getD c).Good := by
                cases hq' : (t.sentQ.modify pos fun c => { c with misses := 0 })[pos]? with
                | none => exact hc
                | some d => exact h1.sent d (List.mem_of_getElem? hq')
              exact this
            · intro _ h0
              apply hne
              have := congrArg List.length h0
              simpa using this
          · apply ih
            · exact ⟨mem_modify _ _ _ h.sent (fun c hc => h.sent c hc), h.out, h.fwd, h.fwdN, h.seq, h.tsn⟩
            · intro hl' h0
              apply hne
              have := congrArg List.length h0
              simpa using this
        · exact ih _ _ _ h hl

private theorem t3Mark_ok (now : Int) : ∀ (fuel pos : Nat) (t : Tx), TxOk t → TxOk (t3Mark now fuel pos t) := by
  intro fuel
  induction fuel with
  | zero => intro pos t h; exact h
  | succ fuel ih =>
    intro pos t h
    unfold t3Mark
    rw [maybeAbandon_rel _ _ _ h.sent]
    simp only []
    apply ih
    exact ⟨mem_modify _ _ _ h.sent (fun c hc => h.sent c hc), h.out, h.fwd, h.fwdN, h.seq, h.tsn⟩

theorem Tx.t3Expired_ok (t : Tx) (h : TxOk t) (now : Int) : TxOk (t.t3Expired now) := by
  unfold Tx.t3Expired
  have h0 : TxOk { t with t3 := false } := ⟨h.sent, h.out, h.fwd, h.fwdN, h.seq, h.tsn⟩
  have h1 := updateAdvAck_ok _ (t3Mark_ok now t.sentQ.length 0 _ h0)
  exact ⟨h1.sent, h1.out, h1.fwd, h1.fwdN, h1.seq, h1.tsn⟩

/-! ## `_transmit` -/

private theorem rtxLoop_good (cwnd : Nat) : ∀ (l : List SChunk) (st : RtxSt),
    (∀ c ∈ st.done, c.Good) → (∀ c ∈ l, c.Good) → (∀ ev ∈ st.evs, ev.Ok) →
    (∀ c ∈ (rtxLoop cwnd st l).1.done, c.Good) ∧ (∀ c ∈ (rtxLoop cwnd st l).2, c.Good) ∧
      (∀ ev ∈ (rtxLoop cwnd st l).1.evs, ev.Ok) := by
  intro l
  induction l with
  | nil => intro st hd hl he; exact ⟨hd, hl, he⟩
  | cons a l ih =>
    intro st hd hl he
    have hga : a.Good := hl a (by simp)
    have hl' : ∀ c ∈ l, c.Good := fun c hc => hl c (by simp [hc])
    unfold rtxLoop
    split
    · split
      · exact ⟨hd, hl, he⟩
      · generalize hI : incFlight st.flight a = p
        obtain ⟨fl, c1⟩ := p
        have hc1 : c1.Good := by
          have := incFlight_good (fl := st.flight) hga
          rw [hI] at this; exact this
        have hg2 : SChunk.Good { c1 with misses := 0, retransmit := false, sentCount := c1.sentCount + 1 } := hc1
        have hdone : ∀ c ∈ { c1 with misses := 0, retransmit := false, sentCount := c1.sentCount + 1 } :: st.done,
            c.Good := by
          intro c hc
          simp only [List.mem_cons] at hc
          rcases hc with rfl | hc
          · exact hg2
          · exact hd c hc
        cases hE : st.earliest
        · simp only [Bool.false_eq_true, if_false]
          refine ih _ hdone hl' ?_
          intro ev hev
          simp only [List.mem_cons] at hev
          rcases hev with rfl | hev
          · exact hg2.1
          · exact he ev hev
        · simp only [if_true]
          refine ih _ hdone hl' ?_
          intro ev hev
          simp only [List.mem_append, List.mem_reverse, List.mem_cons] at hev
          rcases hev with hev | rfl | hev
          · exact t3Restart_ok _ ev hev
          · exact hg2.1
          · exact he ev hev
    · apply ih
      · intro c hc
        simp only [List.mem_cons] at hc
        rcases hc with rfl | hc
        · exact hga
        · exact hd c hc
      · exact hl'
      · exact he

private theorem newLoop_good (cwnd : Nat) : ∀ (fuel fl : Nat) (t3 : Bool) (outQ sent : List SChunk) (evs : List TxEv),
    (∀ c ∈ outQ, c.Good) → (∀ c ∈ sent, c.Good) → (∀ ev ∈ evs, ev.Ok) →
    (∀ c ∈ (newLoop cwnd fuel fl t3 outQ sent evs).2.2.1, c.Good) ∧
    (∀ c ∈ (newLoop cwnd fuel fl t3 outQ sent evs).2.2.2.1, c.Good) ∧
    (∀ ev ∈ (newLoop cwnd fuel fl t3 outQ sent evs).2.2.2.2, ev.Ok) := by
  intro fuel
  induction fuel with
  | zero => intro fl t3 outQ sent evs ho hs he; exact ⟨ho, hs, he⟩
  | succ fuel ih =>
    intro fl t3 outQ sent evs ho hs he
    cases outQ with
    | nil => exact ⟨ho, hs, he⟩
    | cons a outQ =>
      have hga : a.Good := ho a (by simp)
      have ho' : ∀ c ∈ outQ, c.Good := fun c hc => ho c (by simp [hc])
      unfold newLoop
      split
      · generalize hI : incFlight fl a = p
        obtain ⟨fl', c1⟩ := p
        have hc1 : c1.Good := by
          have := incFlight_good (fl := fl) hga
          rw [hI] at this; exact this
        have hg2 : SChunk.Good { c1 with sentCount := c1.sentCount + 1 } := hc1
        simp only []
        refine ih _ _ _ _ _ ho' ?_ ?_
        · intro c hc
          simp only [List.mem_append, List.mem_singleton] at hc
          rcases hc with hc | rfl
          · exact hs c hc
          · exact hg2
        · intro ev hev
          simp only [List.mem_append, List.mem_singleton] at hev
          rcases hev with (hev | rfl) | hev
          · exact he ev hev
          · exact hg2.1
          · cases t3
            · simp only [Bool.false_eq_true, if_false, List.mem_singleton] at hev; subst hev; trivial
            · simp at hev
      · exact ⟨ho, hs, he⟩

theorem Tx.transmit_ok (t : Tx) (h : TxOk t) : TxOk t.transmit.1 ∧ ∀ ev ∈ t.transmit.2, ev.Ok := by
  unfold Tx.transmit
  simp only [h.fwd, List.nil_append]
  generalize hcw : min (t.flight + if t.fastRecoveryExit.isSome = true then 2 * USERDATA_MAX else 4 * USERDATA_MAX) t.cwnd = cwnd
  have hr := rtxLoop_good cwnd t.sentQ
    { flight := t.flight, frt := t.fastRecoveryTransmit, t3 := t.t3, earliest := true, done := [], evs := [] } (by simp) h.sent (by simp)
  generalize rtxLoop cwnd
    { flight := t.flight, frt := t.fastRecoveryTransmit, t3 := t.t3, earliest := true, done := [], evs := [] } t.sentQ = r at hr ⊢
  obtain ⟨st, rest⟩ := r
  obtain ⟨hd, hrest, he⟩ := hr
  simp only [] at hd hrest he ⊢
  have hsent : ∀ c ∈ st.done.reverse ++ rest, c.Good := by
    intro c hc
    simp only [List.mem_append, List.mem_reverse] at hc
    rcases hc with hc | hc
    · exact hd c hc
    · exact hrest c hc
  split
  · refine ⟨⟨hsent, h.out, rfl, h.fwdN, h.seq, h.tsn⟩, ?_⟩
    intro ev hev
    exact he ev (by simpa using hev)
  · have hn := newLoop_good cwnd (t.outQ.length + 1) st.flight st.t3 t.outQ (st.done.reverse ++ rest) st.evs.reverse
      h.out hsent (fun ev hev => he ev (by simpa using hev))
    exact ⟨⟨hn.2.1, hn.1, rfl, h.fwdN, h.seq, h.tsn⟩, hn.2.2⟩

/-! ## `_send` -/

private theorem txGet_mem {d : List (Nat × Int)} {k : Nat} {v : Int} (h : dictGet d k = some v) :
    ∃ p ∈ d, p.2 = v := by
  unfold dictGet at h
  cases hf : d.find? (·.1 == k) with
  | none => simp [hf] at h
  | some p =>
    simp only [hf, Option.map_some, Option.some.injEq] at h
    exact ⟨p, List.mem_of_find?_eq_some hf, h⟩

private theorem txSet_mem (d : List (Nat × Int)) (k : Nat) (v : Int) :
    ∀ p ∈ dictSet d k v, p ∈ d ∨ p = (k, v) := by
  intro p hp
  unfold dictSet at hp
  split at hp
  · simp only [List.mem_map] at hp
    obtain ⟨e, he, rfl⟩ := hp
    split
    · exact Or.inr rfl
    · exact Or.inl he
  · simp only [List.mem_append, List.mem_singleton] at hp
    exact hp

private theorem fragments_good (tsn : Int) (sid : Nat) (ssn : Int) (ppid : Nat) (ordered : Bool) (n : Nat)
    (data : Bytes) (hs : sid < 65536) (hss : 0 ≤ ssn ∧ ssn < 65536) (hp : ppid < 4294967296) :
    ∀ k, ∀ c ∈ fragments tsn sid ssn ppid ordered none none n data k, c.Good := by
  intro k
  induction k with
  | zero => intro c hc; simp [fragments] at hc
  | succ k ih =>
    intro c hc
    simp only [fragments, List.mem_cons] at hc
    rcases hc with rfl | hc
    · refine ⟨⟨?_, ?_, ?_, hs, hss.1, hss.2, hp, ?_⟩, rfl, rfl, rfl⟩
      · simp only [SCTP_DATA_UNORDERED, SCTP_DATA_FIRST_FRAG, SCTP_DATA_LAST_FRAG]
        split <;> split <;> split <;> omega
      · exact Int.emod_nonneg _ (by decide)
      · exact Int.emod_lt_of_pos _ (by decide)
      · simp only [List.length_take, USERDATA_MAX, USERDATA_MAX_LENGTH]
        omega
    · exact ih c hc

theorem Tx.enqueue_ok (t : Tx) (h : TxOk t) (sid ppid : Nat) (data : Bytes) (ordered : Bool)
    (hs : sid < 65536) (hp : ppid < 4294967296) : TxOk (t.enqueue sid ppid data none none ordered) := by
  have hss : 0 ≤ (if ordered = true then (dictGet t.streamSeq sid).getD 0 else (0 : Int)) ∧
      (if ordered = true then (dictGet t.streamSeq sid).getD 0 else (0 : Int)) < 65536 := by
    split
    · cases hg : dictGet t.streamSeq sid with
      | none => simp
      | some v =>
        obtain ⟨p, hp, rfl⟩ := txGet_mem hg
        exact h.seq p hp
    · simp
  unfold Tx.enqueue
  refine ⟨h.sent, ?_, h.fwd, h.fwdN, ?_, ?_⟩
  · intro c hc
    simp only [List.mem_append] at hc
    rcases hc with hc | hc
    · exact h.out c hc
    · exact fragments_good _ _ _ _ _ _ _ hs hss hp _ c hc
  · intro p hp
    simp only [] at hp
    split at hp
    · rcases txSet_mem _ _ _ p hp with hp | rfl
      · exact h.seq p hp
      · simp only [uint16_add]
        exact ⟨Int.emod_nonneg _ (by decide), Int.emod_lt_of_pos _ (by decide)⟩
    · exact h.seq p hp
  · exact ⟨Int.emod_nonneg _ (by decide), Int.emod_lt_of_pos _ (by decide)⟩

/-! ## `_receive_sack_chunk` -/

private theorem sackTail_ok (done : Nat) (t : Tx) (h : TxOk t) :
    TxOk (if t.sentQ.isEmpty then ({ t with t3 := false }, if t.t3 then [TxEv.t3cancel] else [])
          else if done > 0 then ({ t with t3 := true }, t3Restart t.t3) else (t, [])).1.updateAdvAck ∧
    ∀ ev ∈ (if t.sentQ.isEmpty then ({ t with t3 := false }, if t.t3 then [TxEv.t3cancel] else [])
          else if done > 0 then ({ t with t3 := true }, t3Restart t.t3) else (t, [])).2, ev.Ok := by
  split
  · refine ⟨updateAdvAck_ok _ ⟨h.sent, h.out, h.fwd, h.fwdN, h.seq, h.tsn⟩, ?_⟩
    intro ev hev
    dsimp only at hev
    split at hev
    · simp only [List.mem_singleton] at hev; subst hev; trivial
    · simp at hev
  · split
    · exact ⟨updateAdvAck_ok _ ⟨h.sent, h.out, h.fwd, h.fwdN, h.seq, h.tsn⟩, t3Restart_ok _⟩
    · exact ⟨updateAdvAck_ok _ h, by simp⟩

private theorem sack_finish (done : Nat) (r2 : Outcome Tx) (h : ∃ t, r2 = .ok t ∧ TxOk t) :
    ∃ r, (match r2 with
          | .ok t =>
            let (t, evs) :=
              if t.sentQ.isEmpty then ({ t with t3 := false }, if t.t3 then [TxEv.t3cancel] else [])
              else if done > 0 then ({ t with t3 := true }, t3Restart t.t3)
              else (t, [])
            Outcome.ok (some (t.updateAdvAck, evs))
          | .valueError => .valueError
          | .crash k => .crash k
          | .hang => .hang) = .ok r ∧
      ∀ t' evs, r = some (t', evs) → TxOk t' ∧ ∀ ev ∈ evs, ev.Ok := by
  obtain ⟨t, rfl, ht⟩ := h
  refine ⟨_, rfl, ?_⟩
  intro t' evs he
  cases he
  exact sackTail_ok done t ht

theorem Tx.receiveSack_ok (t : Tx) (h : TxOk t) (cum : Int) (gaps : List (Nat × Nat)) (now : Int) :
    ∃ r, t.receiveSack cum gaps now = .ok r ∧
      ∀ t' evs, r = some (t', evs) → TxOk t' ∧ ∀ ev ∈ evs, ev.Ok := by
  unfold Tx.receiveSack
  split
  · exact ⟨none, rfl, by intro t' evs h; cases h⟩
  · dsimp only
    generalize hA : ackLoop cum t.flight 0 0 t.sentQ = a
    obtain ⟨fl, done, doneBytes, sent⟩ := a
    have hsent : ∀ c ∈ sent, c.Good := by
      intro c hc
      have := ackLoop_mem cum t.sentQ t.flight 0 0 c
      rw [hA] at this
      exact h.sent c (this hc)
    dsimp only
    generalize hr : (if gaps.isEmpty = true then _ else _ : Outcome (Tx × Nat × Bool)) = r
    have hR : ∃ t' db loss, r = .ok (t', db, loss) ∧ TxOk t' ∧ (loss = true → t'.sentQ ≠ []) := by
      subst hr
      have h2 : TxOk { t with lastSacked := cum, flight := fl, sentQ := sent } :=
        ⟨hsent, h.out, h.fwd, h.fwdN, h.seq, h.tsn⟩
      split
      · exact ⟨_, _, _, rfl, h2, by simp⟩
      · generalize gapSeen cum _ gaps = gs
        obtain ⟨seen, hs⟩ := gs
        dsimp only
        have hh := htnaLoop_good seen hs sent [] fl doneBytes cum (by simp) hsent
        generalize htnaLoop seen hs fl doneBytes cum [] sent = hl at hh ⊢
        obtain ⟨fl2, db, hna, sent2⟩ := hl
        dsimp only at hh ⊢
        have h3 : TxOk { t with lastSacked := cum, flight := fl2, sentQ := sent2 } :=
          ⟨hh, h.out, h.fwd, h.fwdN, h.seq, h.tsn⟩
        have hS := strikeLoop_ok seen hna now sent2.length 0 _ false h3 (by simp)
        exact ⟨_, _, _, rfl, hS.1, hS.2⟩
    clear hr
    obtain ⟨t', db, loss, rfl, ht', hloss⟩ := hR
    dsimp only
    cases hfr : t'.fastRecoveryExit with
    | some ex =>
      dsimp only
      refine sack_finish done _ ?_
      split
      · exact ⟨_, rfl, ⟨ht'.sent, ht'.out, ht'.fwd, ht'.fwdN, ht'.seq, ht'.tsn⟩⟩
      · exact ⟨_, rfl, ht'⟩
    | none =>
      dsimp only
      refine sack_finish done _ ?_
      generalize ht0 : (if (decide (done > 0) && _) = true then _ else t' : Tx) = t0
      have h0 : TxOk t0 ∧ t0.sentQ = t'.sentQ := by
        subst ht0
        split
        · split
          · exact ⟨⟨ht'.sent, ht'.out, ht'.fwd, ht'.fwdN, ht'.seq, ht'.tsn⟩, rfl⟩
          · split
            · exact ⟨⟨ht'.sent, ht'.out, ht'.fwd, ht'.fwdN, ht'.seq, ht'.tsn⟩, rfl⟩
            · exact ⟨⟨ht'.sent, ht'.out, ht'.fwd, ht'.fwdN, ht'.seq, ht'.tsn⟩, rfl⟩
        · exact ⟨ht', rfl⟩
      clear ht0
      obtain ⟨h0, hq0⟩ := h0
      cases loss with
      | false => exact ⟨_, rfl, h0⟩
      | true =>
        simp only [if_true]
        cases hq : t0.sentQ.getLast? with
        | none =>
          rw [List.getLast?_eq_none_iff, hq0] at hq
          exact absurd hq (hloss rfl)
        | some l => exact ⟨_, rfl, ⟨h0.sent, h0.out, h0.fwd, h0.fwdN, h0.seq, h0.tsn⟩⟩

end Aiortc.Sctp
