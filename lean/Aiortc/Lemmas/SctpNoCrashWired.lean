import Aiortc.Lemmas.SctpTotal
/-!
# What `parse_packet` guarantees about the chunks it returns (for a datagram made of bytes)

Fields read with `unpack` are in the range of their format, parameter lists can be re-encoded
(HEARTBEAT-ACK echoes them, COOKIE-ECHO echoes the state cookie), parameter values are bytes again.
-/
namespace Aiortc.Sctp.Wire
open Aiortc Aiortc.Gen

/-- A decoded parameter list: every entry can be packed again, the re-encoding is not longer than a chunk
body can be, and the values are byte strings. -/
def ParamsWired (ps : List Param) : Prop :=
  paramsInRange ps = true ∧ (encodeParams ps).length + 4 < 65536 ∧ ∀ p ∈ ps, IsBytes p.2

def Chunk.Wired : Chunk → Prop
  | .data _ tsn sid _ _ _ => tsn < 4294967296 ∧ sid < 65536
  | .forwardTsn _ ctsn streams => ctsn < 4294967296 ∧ ∀ p ∈ streams, p.1 < 65536
  | .params _ _ ps => ParamsWired ps
  | .init _ _ tag _ _ _ _ ps => tag < 4294967296 ∧ paramsInRange ps = true
  | _ => True

def RcParam.Wired : RcParam → Prop
  | .resetOut a b c streams => a < 4294967296 ∧ b < 4294967296 ∧ c < 4294967296 ∧ ∀ s ∈ streams, s < 65536
  | .addOut a _ => a < 4294967296
  | .resetResp a _ => a < 4294967296

/-! ### byte lists -/

theorem isBytes_cons {a : Nat} {l : Bytes} : IsBytes (a :: l) ↔ a < 256 ∧ IsBytes l := by
  simp [IsBytes]

theorem isBytes_nil : IsBytes [] := by simp [IsBytes]

theorem isBytes_take {l : Bytes} (h : IsBytes l) (n : Nat) : IsBytes (l.take n) :=
  fun b hb => h b (List.mem_of_mem_take hb)

theorem isBytes_drop {l : Bytes} (h : IsBytes l) (n : Nat) : IsBytes (l.drop n) :=
  fun b hb => h b (List.mem_of_mem_drop hb)

theorem isBytes_slice {l : Bytes} (h : IsBytes l) (i j : Nat) : IsBytes (slice l i j) :=
  isBytes_drop (isBytes_take h j) i

theorem u16_lt {a b : Nat} (ha : a < 256) (hb : b < 256) : a * 256 + b < 65536 := by omega

theorem u32_lt {a b c d : Nat} (ha : a < 256) (hb : b < 256) (hc : c < 256) (hd : d < 256) :
    ((a * 256 + b) * 256 + c) * 256 + d < 4294967296 := by omega

theorem takeU16_wired {r r' : Bytes} {a : Nat} (hr : IsBytes r) (h : takeU16 r = some (a, r')) :
    a < 65536 ∧ IsBytes r' := by
  match r, hr, h with
  | [], _, h => simp [takeU16] at h
  | [_], _, h => simp [takeU16] at h
  | x :: y :: t, hr, h =>
    simp only [takeU16, Option.some.injEq, Prod.mk.injEq] at h
    obtain ⟨rfl, rfl⟩ := h
    simp only [isBytes_cons] at hr
    exact ⟨by omega, hr.2.2⟩

theorem takeU32_wired {r r' : Bytes} {a : Nat} (hr : IsBytes r) (h : takeU32 r = some (a, r')) :
    a < 4294967296 ∧ IsBytes r' := by
  match r, hr, h with
  | [], _, h => simp [takeU32] at h
  | [_], _, h => simp [takeU32] at h
  | [_, _], _, h => simp [takeU32] at h
  | [_, _, _], _, h => simp [takeU32] at h
  | x :: y :: z :: w :: t, hr, h =>
    simp only [takeU32, Option.some.injEq, Prod.mk.injEq] at h
    obtain ⟨rfl, rfl⟩ := h
    simp only [isBytes_cons] at hr
    exact ⟨by omega, hr.2.2.2.2⟩

/-! ### parameters -/

theorem length_slice_four_cons {α} (a b c d : α) (r : List α) (n : Nat) :
    (slice (a :: b :: c :: d :: r) 4 n).length = min n (r.length + 4) - 4 := by
  simp [slice, List.length_drop, List.length_take]

/-- One round of the `decode_params` loop, seen from `encode_params`: `L` is the length field, `n` the number
of bytes left, `v` the (possibly truncated) value and `rd` what the loop continues with. -/
theorem encodeParamsAux_step (T L n : Nat) (v rd : Bytes) (ps' : List Param)
    (hl : 4 ≤ L) (hn : 4 ≤ n) (hvl : v.length = min L n - 4) (hdl : rd.length = n - (L + padl L))
    (h2 : ps' ≠ [] → 4 ≤ rd.length)
    (h3 : ∀ pad, (encodeParamsAux pad ps').length ≤ pad.length + rd.length) (pad : Bytes) :
    (encodeParamsAux pad ((T, v) :: ps')).length ≤ pad.length + n := by
  cases ps' with
  | nil =>
    simp only [encodeParamsAux, List.length_append, length_u16be, List.length_nil]
    omega
  | cons q qs =>
    have h4 := h2 (by simp)
    have hve : v.length + 4 = L := by omega
    have h5 := h3 (zeros (padl L))
    rw [zeros_length] at h5
    rw [encodeParamsAux, hve]
    simp only [List.length_append, length_u16be]
    omega

/-- What a successful `decode_params` of bytes returns: entries that `pack` accepts, byte values, and a list
whose re-encoding is not longer than the input. -/
theorem decodeParamsAux_wired (fuel : Nat) (rest : Bytes) (ps : List Param) (hr : IsBytes rest)
    (h : decodeParamsAux true fuel rest = .ok ps) :
    (∀ p ∈ ps, p.1 < 65536 ∧ p.2.length + 4 < 65536 ∧ IsBytes p.2) ∧
    (ps ≠ [] → 4 ≤ rest.length) ∧
    (∀ pad, (encodeParamsAux pad ps).length ≤ pad.length + rest.length) := by
  induction fuel generalizing rest ps with
  | zero => simp [decodeParamsAux] at h
  | succ f ih =>
    match rest, hr, h with
    | [], _, h => simp [decodeParamsAux] at h; subst h; simp [encodeParamsAux]
    | [_], _, h => simp [decodeParamsAux] at h; subst h; simp [encodeParamsAux]
    | [_, _], _, h => simp [decodeParamsAux] at h; subst h; simp [encodeParamsAux]
    | [_, _, _], _, h => simp [decodeParamsAux] at h; subst h; simp [encodeParamsAux]
    | t0 :: t1 :: l0 :: l1 :: r, hr, h =>
      rw [decodeParamsAux_cons] at h
      by_cases hl : l0 * 256 + l1 < 4
      · simp [hl] at h
      · simp only [hl, decide_false, Bool.and_false, Bool.false_eq_true, if_false] at h
        have hrd := isBytes_drop hr (l0 * 256 + l1 + padl (l0 * 256 + l1))
        have hvb := isBytes_slice hr 4 (l0 * 256 + l1)
        have hvl := length_slice_four_cons t0 t1 l0 l1 r (l0 * 256 + l1)
        have hdl : ((t0 :: t1 :: l0 :: l1 :: r).drop (l0 * 256 + l1 + padl (l0 * 256 + l1))).length
            = r.length + 4 - (l0 * 256 + l1 + padl (l0 * 256 + l1)) := by
          simp [List.length_drop]
        simp only [isBytes_cons] at hr
        obtain ⟨ht0, ht1, hl0, hl1, _⟩ := hr
        have hL : l0 * 256 + l1 < 65536 := u16_lt hl0 hl1
        have hT : t0 * 256 + t1 < 65536 := u16_lt ht0 ht1
        generalize hrec : decodeParamsAux true f
          ((t0 :: t1 :: l0 :: l1 :: r).drop (l0 * 256 + l1 + padl (l0 * 256 + l1))) = o at h
        cases o with
        | valueError => simp at h
        | crash k => simp at h
        | hang => simp at h
        | ok ps' =>
          simp only [Outcome.ok.injEq] at h
          subst h
          obtain ⟨h1, h2, h3⟩ := ih _ ps' hrd hrec
          refine ⟨?_, ?_, ?_⟩
          · intro p hp
            rcases List.mem_cons.mp hp with rfl | hp
            · refine ⟨hT, ?_, hvb⟩
              simp only [hvl]; omega
            · exact h1 p hp
          · intro _; simp only [List.length_cons]; omega
          · intro pad
            exact encodeParamsAux_step _ _ (r.length + 4) _ _ ps' (by omega) (by omega) hvl hdl h2 h3 pad

theorem decodeParamsG_wired {body : Bytes} {ps : List Param} (hb : IsBytes body)
    (h : decodeParamsG true body = .ok ps) :
    paramsInRange ps = true ∧ (encodeParams ps).length ≤ body.length ∧ ∀ p ∈ ps, IsBytes p.2 := by
  obtain ⟨h1, _, h3⟩ := decodeParamsAux_wired _ _ _ hb h
  refine ⟨?_, ?_, fun p hp => (h1 p hp).2.2⟩
  · simp only [paramsInRange, List.all_eq_true, Bool.and_eq_true, decide_eq_true_eq]
    exact fun p hp => ⟨(h1 p hp).1, (h1 p hp).2.1⟩
  · have := h3 []
    simpa [encodeParams] using this

/-! ### chunk constructors -/

theorem structToValue_ok {α} {fixed : Bool} {o : Outcome α} {a : α} (h : structToValue fixed o = .ok a) :
    o = .ok a := by
  cases o with
  | ok b => exact h
  | valueError => cases h
  | hang => cases h
  | crash k => simp only [structToValue] at h; split at h <;> cases h

theorem ofStruct_ok {α} {o : Option α} {a : α} (h : Outcome.ofStruct o = .ok a) : o = some a := by
  cases o with
  | none => cases h
  | some b => simp only [Outcome.ofStruct, Outcome.ok.injEq] at h; rw [h]

theorem readAllPairs_wired (r : Bytes) (l : List (Nat × Nat)) (hr : IsBytes r) (h : readAllPairs r = some l) :
    ∀ p ∈ l, p.1 < 65536 := by
  fun_induction readAllPairs r generalizing l with
  | case1 => simp at h; subst h; simp
  | case2 a b c d r hrec ih => cases h
  | case3 a b c d r l' hrec ih =>
    simp only [Option.some.injEq] at h
    subst h
    simp only [isBytes_cons] at hr
    intro p hp
    rcases List.mem_cons.mp hp with rfl | hp
    · exact u16_lt hr.1 hr.2.1
    · exact ih l' hr.2.2.2.2 hrec p hp
  | case4 => simp_all

theorem readAllU16s_wired (r : Bytes) (l : List Nat) (hr : IsBytes r) (h : readAllU16s r = some l) :
    ∀ s ∈ l, s < 65536 := by
  fun_induction readAllU16s r generalizing l with
  | case1 => simp at h; subst h; simp
  | case2 a b r hrec ih => cases h
  | case3 a b r l' hrec ih =>
    simp only [Option.some.injEq] at h
    subst h
    simp only [isBytes_cons] at hr
    intro p hp
    rcases List.mem_cons.mp hp with rfl | hp
    · exact u16_lt hr.1 hr.2.1
    · exact ih l' hr.2.2 hrec p hp
  | case4 => simp_all

theorem parseDataBody_wired {fl : Nat} {body : Bytes} {c : Chunk} (hb : IsBytes body)
    (h : parseDataBody fl body = some c) : c.Wired := by
  unfold parseDataBody at h
  split at h
  · cases h
  · rename_i tsn r h1
    obtain ⟨htsn, hr⟩ := takeU32_wired hb h1
    split at h
    · cases h
    · rename_i sid r2 h2
      obtain ⟨hsid, _⟩ := takeU16_wired hr h2
      split at h
      · cases h
      · split at h
        · cases h
        · simp only [Option.some.injEq] at h
          subst h
          exact ⟨htsn, hsid⟩

theorem parseInitHead_wired {body r : Bytes} {tag rwnd outs ins itsn : Nat} (hb : IsBytes body)
    (h : parseInitHead body = some (tag, rwnd, outs, ins, itsn, r)) : tag < 4294967296 ∧ IsBytes r := by
  unfold parseInitHead at h
  split at h
  · cases h
  · rename_i tag' r1 h1
    obtain ⟨htag, hr1⟩ := takeU32_wired hb h1
    split at h
    · cases h
    · rename_i _ r2 h2
      obtain ⟨_, hr2⟩ := takeU32_wired hr1 h2
      split at h
      · cases h
      · rename_i _ r3 h3
        obtain ⟨_, hr3⟩ := takeU16_wired hr2 h3
        split at h
        · cases h
        · rename_i _ r4 h4
          obtain ⟨_, hr4⟩ := takeU16_wired hr3 h4
          split at h
          · cases h
          · rename_i _ r5 h5
            obtain ⟨_, hr5⟩ := takeU32_wired hr4 h5
            simp only [Option.some.injEq, Prod.mk.injEq] at h
            obtain ⟨rfl, _, _, _, _, rfl⟩ := h
            exact ⟨htag, hr5⟩

theorem parseSackBody_wired {fl : Nat} {body : Bytes} {c : Chunk}
    (h : parseSackBody fl body = some c) : c.Wired := by
  unfold parseSackBody at h
  repeat' (split at h)
  all_goals first | (cases h; done) | skip
  all_goals (simp only [Option.some.injEq] at h; subst h; trivial)

theorem paramsWired_nil : ParamsWired [] := by
  simp [ParamsWired, paramsInRange, encodeParams, encodeParamsAux]

theorem parseChunkBody_wired {cls : Cls} {fl : Nat} {body : Bytes} {c : Chunk} (hb : IsBytes body)
    (hlen : body.length + 4 < 65536) (h : parseChunkBody true cls fl body = .ok c) : c.Wired := by
  cases cls with
  | plain k =>
    simp only [parseChunkBody, Outcome.ok.injEq] at h; subst h; trivial
  | params k =>
    simp only [parseChunkBody] at h
    split at h
    · simp only [Outcome.ok.injEq] at h; subst h; exact paramsWired_nil
    · split at h
      · rename_i ps hps
        simp only [Outcome.ok.injEq] at h; subst h
        obtain ⟨h1, h2, h3⟩ := decodeParamsG_wired hb hps
        exact ⟨h1, by omega, h3⟩
      · cases h
      · cases h
      · cases h
  | data =>
    simp only [parseChunkBody] at h
    split at h
    · simp only [Outcome.ok.injEq] at h; subst h; exact ⟨by decide, by decide⟩
    · exact parseDataBody_wired hb (ofStruct_ok h)
  | init k =>
    simp only [parseChunkBody] at h
    split at h
    · simp only [Outcome.ok.injEq] at h; subst h
      exact ⟨by decide, by simp [paramsInRange]⟩
    · split at h
      · cases h
      · rename_i tag rwnd outs ins itsn r hh
        obtain ⟨htag, hr⟩ := parseInitHead_wired hb hh
        split at h
        · rename_i ps hps
          simp only [Outcome.ok.injEq] at h; subst h
          exact ⟨htag, (decodeParamsG_wired hr hps).1⟩
        · cases h
        · cases h
        · cases h
  | sack =>
    simp only [parseChunkBody] at h
    split at h
    · simp only [Outcome.ok.injEq] at h; subst h; trivial
    · exact parseSackBody_wired (ofStruct_ok h)
  | shutdown =>
    simp only [parseChunkBody] at h
    split at h
    · simp only [Outcome.ok.injEq] at h; subst h; trivial
    · split at h
      · cases h
      · simp only [Outcome.ok.injEq] at h; subst h; trivial
  | forwardTsn =>
    simp only [parseChunkBody] at h
    split at h
    · simp only [Outcome.ok.injEq] at h; subst h; exact ⟨by decide, by simp⟩
    · split at h
      · cases h
      · rename_i ctsn r h1
        obtain ⟨hc, hr⟩ := takeU32_wired hb h1
        split at h
        · cases h
        · rename_i l hl
          simp only [Outcome.ok.injEq] at h; subst h
          exact ⟨hc, readAllPairs_wired r l hr hl⟩

/-! ### the chunk loop -/

theorem parseChunks_wired (fuel : Nat) (rest : Bytes) (cs : List Chunk) (hr : IsBytes rest)
    (h : parseChunks true fuel rest = .ok cs) : ∀ c ∈ cs, c.Wired := by
  induction fuel generalizing rest cs with
  | zero => simp [parseChunks] at h
  | succ f ih =>
    match rest, hr, h with
    | [], _, h => simp [parseChunks] at h; subst h; simp
    | [_], _, h => simp [parseChunks] at h; subst h; simp
    | [_, _], _, h => simp [parseChunks] at h; subst h; simp
    | [_, _, _], _, h => simp [parseChunks] at h; subst h; simp
    | ty :: fl :: l0 :: l1 :: r, hr, h =>
      rw [parseChunks_cons] at h
      split at h
      · cases h
      · have hrd := isBytes_drop hr (l0 * 256 + l1 + padl (l0 * 256 + l1))
        have hbb := isBytes_slice hr SCTP_CHUNK_HEADER_LENGTH (l0 * 256 + l1)
        have hbl : (slice (ty :: fl :: l0 :: l1 :: r) SCTP_CHUNK_HEADER_LENGTH (l0 * 256 + l1)).length + 4
            < 65536 := by
          have := length_slice_four_cons ty fl l0 l1 r (l0 * 256 + l1)
          simp only [isBytes_cons] at hr
          have hL : l0 * 256 + l1 < 65536 := u16_lt hr.2.2.1 hr.2.2.2.1
          show (slice _ 4 _).length + 4 < 65536
          rw [this]; omega
        split at h
        · exact ih _ cs hrd h
        · rename_i cls _
          split at h
          · rename_i c hc
            have hw := parseChunkBody_wired hbb hbl (structToValue_ok hc)
            split at h
            · rename_i cs' hcs
              simp only [Outcome.ok.injEq] at h; subst h
              intro c' hc'
              rcases List.mem_cons.mp hc' with rfl | hc'
              · exact hw
              · exact ih _ cs' hrd hcs c' hc'
            · rename_i e hne
              exact (hne cs h).elim
          · cases h
          · cases h
          · cases h

/-- Every chunk of a parsed datagram of bytes is `Wired`. -/
theorem parsePacket_wired {d : Bytes} (hd : IsBytes d) {sp dp vtag : Nat} {chunks : List Chunk}
    (h : parsePacket d = .ok (sp, dp, vtag, chunks)) : ∀ c ∈ chunks, c.Wired := by
  unfold parsePacket parsePacketG at h
  split at h
  · cases h
  · split at h
    · cases h
    · split at h
      · rename_i rest _ _
        have hrest : IsBytes rest := by
          simp only [isBytes_cons] at hd
          exact hd.2.2.2.2.2.2.2.2.2.2.2.2
        split at h
        · rename_i cs hcs
          simp only [Outcome.ok.injEq, Prod.mk.injEq] at h
          obtain ⟨_, _, _, rfl⟩ := h
          exact parseChunks_wired _ _ _ hrest hcs
        · cases h
        · cases h
        · cases h
      · cases h

theorem rcParse_wired {cls : RcCls} {v : Bytes} (hv : IsBytes v) {p : RcParam}
    (h : RcParam.parse cls v = .ok p) : p.Wired := by
  unfold RcParam.parse RcParam.parseG at h
  have h := ofStruct_ok (structToValue_ok h)
  cases cls with
  | resetOut =>
    simp only [] at h
    split at h
    · cases h
    · rename_i a r1 h1
      obtain ⟨ha, hr1⟩ := takeU32_wired hv h1
      split at h
      · cases h
      · rename_i b r2 h2
        obtain ⟨hb, hr2⟩ := takeU32_wired hr1 h2
        split at h
        · cases h
        · rename_i c r3 h3
          obtain ⟨hc, hr3⟩ := takeU32_wired hr2 h3
          split at h
          · cases h
          · rename_i l hl
            simp only [Option.some.injEq] at h; subst h
            exact ⟨ha, hb, hc, readAllU16s_wired r3 l hr3 hl⟩
  | addOut =>
    simp only [] at h
    split at h
    · cases h
    · rename_i a r1 h1
      obtain ⟨ha, _⟩ := takeU32_wired hv h1
      split at h
      · cases h
      · split at h
        · cases h
        · simp only [Option.some.injEq] at h; subst h
          exact ha
  | resetResp =>
    simp only [] at h
    split at h
    · cases h
    · rename_i a r1 h1
      obtain ⟨ha, _⟩ := takeU32_wired hv h1
      split at h
      · cases h
      · simp only [Option.some.injEq] at h; subst h
        exact ha

end Aiortc.Sctp.Wire
