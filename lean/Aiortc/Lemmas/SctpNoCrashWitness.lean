import Aiortc.Model.Sctp.Endpoint
/-! # Concrete runs of the endpoint automaton that end in a crash (replayed on the real code, see notes/C05a.md) -/
namespace Aiortc.Sctp.Witness
open Aiortc Aiortc.Sctp

/-- Some handler raised the exception `k`. -/
def hasCrash (k : String) (l : List Out) : Bool :=
  l.any fun o => match o with | .crash k' => k' == k | _ => false

/-- No handler raised. -/
def noCrash (l : List Out) : Bool :=
  l.all fun o => match o with | .crash _ => false | _ => true

theorem noCrash_iff {l : List Out} (h : noCrash l = true) : ∀ k, Out.crash k ∉ l := by
  intro k hk
  unfold noCrash at h
  rw [List.all_eq_true] at h
  have := h _ hk
  simp at this

theorem hasCrash_mem {k : String} {l : List Out} (h : hasCrash k l = true) : Out.crash k ∈ l := by
  unfold hasCrash at h
  rw [List.any_eq_true] at h
  obtain ⟨o, ho, hk⟩ := h
  cases o <;> simp at hk
  subst hk; exact ho

def now0 : Int := 1024000
/-- a state cookie stamped 1000 s (what the endpoint issues at `now0`) -/
def ck : Bytes := [0, 0, 3, 232] ++ List.replicate 20 0

/-- the server endpoint after `start()` -/
def e0 : Ep := (step (Ep.init true 222 5000) now0 (.start 5000)).1

/-! ## defect 1: a TSN held in a reassembly queue is accepted again after the cumulative TSN wrapped past it -/

/-- INIT (initial TSN 1000) -/
def dInit : Bytes := [19, 136, 19, 136, 0, 0, 0, 0, 100, 215, 177, 42, 1, 0, 0, 20, 0, 0, 0, 111, 0, 2, 0, 0, 0, 10, 0, 10, 0, 0, 3, 232]
/-- DATA tsn=1000 stream 7 ssn=5 B|E "abcd": complete but not deliverable (the stream expects ssn 0) -/
def dData : Bytes := [19, 136, 19, 136, 0, 0, 0, 222, 101, 111, 116, 39, 0, 3, 0, 20, 0, 0, 3, 232, 0, 7, 0, 5, 0, 0, 0, 53, 97, 98, 99, 100]
/-- FORWARD-TSN 1000 + 2^31 - 1 -/
def dFwd1 : Bytes := [19, 136, 19, 136, 0, 0, 0, 222, 50, 174, 165, 39, 192, 0, 0, 8, 128, 0, 3, 231]
/-- FORWARD-TSN 1000 + 2^31 + 5 -/
def dFwd2 : Bytes := [19, 136, 19, 136, 0, 0, 0, 222, 10, 134, 71, 76, 192, 0, 0, 8, 128, 0, 3, 237]

def rx (e : Ep) (d : Bytes) : Ep × List Out := step e now0 (.rx d ck)
def e1 : Ep := (rx e0 dInit).1
def e2 : Ep := (rx e1 dData).1
def e3 : Ep := (rx e2 dFwd1).1
def e4 : Ep := (rx e3 dFwd2).1

/-! ## defect 2: stream reset response after ABORT + replayed COOKIE-ECHO -/

def dCookieEcho : Bytes := [19, 136, 19, 136, 0, 0, 0, 222, 20, 167, 232, 144, 10, 0, 0, 28, 0, 0, 3, 232, 0, 0, 0, 0, 0, 0, 0, 0, 0, 0, 0, 0, 0, 0, 0, 0, 0, 0, 0, 0]
def dAbort : Bytes := [19, 136, 19, 136, 0, 0, 0, 222, 81, 146, 89, 224, 6, 0, 0, 4]
/-- RE-CONFIG with a reset response for request sequence 5000 -/
def dResetResp : Bytes := [19, 136, 19, 136, 0, 0, 0, 222, 92, 45, 142, 119, 130, 0, 0, 16, 0, 16, 0, 12, 0, 0, 19, 136, 0, 0, 0, 1]

def runIn (e : Ep) (is : List Input) : Ep × List Out :=
  is.foldl (fun (s : Ep × List Out) i => let r := step s.1 now0 i; (r.1, s.2 ++ r.2)) (e, [])

/-- server: start, handshake, the application creates a channel and closes it (reset request 5000 goes out),
the peer aborts, replays its COOKIE-ECHO, and answers the reset request. -/
def run2 : List Input := [
  .start 5000, .rx dInit ck, .rx dCookieEcho ck, .task,
  .create { label := [120], protocol := [], ordered := true, maxRetransmits := none, maxPacketLifeTime := none,
            negotiated := false, id := none },
  .task, .close 0, .task,
  .rx dAbort ck, .rx dCookieEcho ck, .rx dResetResp ck]

end Aiortc.Sctp.Witness
