import Aiortc.Model.Sctp.Endpoint
/-!
# A weakest-precondition calculus for the handler monad `M` of the SCTP endpoint automaton

`wp A m Q s`: started in `s = (endpoint, outputs so far)`, the action `m` either returns `a` in a state `s'`
with `Q a s'`, or throws an exception `k` with `A k` (`A` = the set of exceptions we tolerate; `NoExc` = none).
Assertions used with it only look at `s.1` (the endpoint), the output log is carried along untouched.
-/
namespace Aiortc.Sctp
open Aiortc.Gen Aiortc.Sctp.Wire
set_option linter.unusedSimpArgs false

abbrev St := Ep × List Out

def wp {α} (A : String → Prop) (m : M α) (Q : α → St → Prop) (s : St) : Prop :=
  match m.run.run s with
  | (.ok a, s') => Q a s'
  | (.error k, _) => A k

def NoExc : String → Prop := fun _ => False

theorem wp_mono {α} {A : String → Prop} {m : M α} {R Q : α → St → Prop} {s : St}
    (h : wp A m R s) (hq : ∀ a s', R a s' → Q a s') : wp A m Q s := by
  unfold wp at *
  split <;> simp_all

theorem wp_weaken {α} {A B : String → Prop} {m : M α} {Q : α → St → Prop} {s : St}
    (h : wp A m Q s) (hab : ∀ k, A k → B k) : wp B m Q s := by
  unfold wp at *
  split <;> simp_all

@[simp] theorem wp_pure {α} (A) (a : α) (Q : α → St → Prop) (s : St) : wp A (pure a) Q s ↔ Q a s := by
  simp [wp, ExceptT.run, pure, ExceptT.pure, ExceptT.mk, StateT.run, StateT.pure]

@[simp] theorem wp_bind {α β} (A) (m : M α) (f : α → M β) (Q : β → St → Prop) (s : St) :
    wp A (m >>= f) Q s ↔ wp A m (fun a s' => wp A (f a) Q s') s := by
  simp only [wp, ExceptT.run_bind]
  simp only [bind, StateT.bind, StateT.run]
  cases h : m.run s with
  | mk r s' =>
    cases r with
    | ok a => simp [h, ExceptT.run]
    | error k => simp [h, pure, StateT.pure]

@[simp] theorem wp_map {α β} (A) (g : α → β) (m : M α) (Q : β → St → Prop) (s : St) :
    wp A (g <$> m) Q s ↔ wp A m (fun a s' => Q (g a) s') s := by
  rw [map_eq_pure_bind, wp_bind]
  simp only [wp_pure]

@[simp] theorem wp_throw {α} (A) (k : String) (Q : α → St → Prop) (s : St) :
    wp A (throw k : M α) Q s ↔ A k := by
  simp [wp, ExceptT.run, throw, throwThe, MonadExceptOf.throw, ExceptT.mk, StateT.run, pure, StateT.pure]

@[simp] theorem wp_crash {α} (A) (k : String) (Q : α → St → Prop) (s : St) :
    wp A (crash k : M α) Q s ↔ A k := by
  simp [crash]

@[simp] theorem wp_get (A) (Q : St → St → Prop) (s : St) : wp A (get : M St) Q s ↔ Q s s := by
  simp [wp, ExceptT.run, get, getThe, MonadStateOf.get, liftM, monadLift, MonadLift.monadLift, ExceptT.lift,
    ExceptT.mk, StateT.run, StateT.get, Functor.map, StateT.map, pure, StateT.pure, bind, StateT.bind]

@[simp] theorem wp_modify (A) (f : St → St) (Q : Unit → St → Prop) (s : St) :
    wp A (modify f : M Unit) Q s ↔ Q () (f s) := by
  simp [wp, ExceptT.run, modify, modifyGet, MonadStateOf.modifyGet, liftM, monadLift, MonadLift.monadLift,
    ExceptT.lift, ExceptT.mk, StateT.run, StateT.modifyGet, Functor.map, StateT.map, pure, StateT.pure, bind,
    StateT.bind]

@[simp] theorem wp_getE (A) (Q : Ep → St → Prop) (s : St) : wp A getE Q s ↔ Q s.1 s := by
  simp [getE]

@[simp] theorem wp_setE (A) (e : Ep) (Q : Unit → St → Prop) (s : St) : wp A (setE e) Q s ↔ Q () (e, s.2) := by
  simp [setE]

@[simp] theorem wp_modE (A) (f : Ep → Ep) (Q : Unit → St → Prop) (s : St) :
    wp A (modE f) Q s ↔ Q () (f s.1, s.2) := by
  simp [modE]

@[simp] theorem wp_emit (A) (o : Out) (Q : Unit → St → Prop) (s : St) :
    wp A (emit o) Q s ↔ Q () (s.1, s.2 ++ [o]) := by
  simp [emit]

theorem wp_ite {α} (A) (c : Prop) [Decidable c] (a b : M α) (Q : α → St → Prop) (s : St) :
    wp A (if c then a else b) Q s ↔ (c → wp A a Q s) ∧ (¬c → wp A b Q s) := by
  split <;> simp_all

@[simp] theorem wp_liftO_ok {α} (A) (a : α) (Q : α → St → Prop) (s : St) : wp A (liftO (.ok a)) Q s ↔ Q a s := by
  simp [liftO]

/-- `for x in l do body` with a unit loop state: invariant indexed by the not yet visited suffix. -/
theorem wp_forIn {β} (A) (l : List β) (f : β → PUnit → M (ForInStep PUnit)) (Q : PUnit → St → Prop)
    (I : List β → St → Prop) (s : St)
    (h0 : I l s)
    (hstep : ∀ x rest s, I (x :: rest) s → wp A (f x ⟨⟩) (fun r s' => r = .yield ⟨⟩ ∧ I rest s') s)
    (hend : ∀ s', I [] s' → Q ⟨⟩ s') : wp A (forIn l ⟨⟩ f) Q s := by
  induction l generalizing s with
  | nil => simpa using hend s h0
  | cons x rest ih =>
    rw [List.forIn_cons]
    rw [wp_bind]
    refine wp_mono (hstep x rest s h0) ?_
    intro r s' ⟨hr, hI⟩
    subst hr
    exact ih s' hI

end Aiortc.Sctp
