import Aiortc.Lemmas.SctpWire
/-! Totality of the FIXED parsers: they return or raise `ValueError`, never `struct.error`, never hang. -/
namespace Aiortc.Sctp.Wire
open Aiortc Aiortc.Gen

/-- The outcome is a return value or a `ValueError`. -/
def Benign {α} : Outcome α → Prop
  | .ok _ => True
  | .valueError => True
  | _ => False

/-- … or a `struct.error` (what the pinned constructors may raise). -/
def BenignOrStruct {α} : Outcome α → Prop
  | .ok _ => True
  | .valueError => True
  | .crash k => k = "struct.error"
  | .hang => False

theorem benign_structToValue {α} (o : Outcome α) (h : BenignOrStruct o) : Benign (structToValue true o) := by
  cases o with
  | ok a => trivial
  | valueError => trivial
  | crash k => simp only [BenignOrStruct] at h; subst h; simp [structToValue, Benign]
  | hang => cases h

theorem benignOrStruct_ofStruct {α} (o : Option α) : BenignOrStruct (Outcome.ofStruct o) := by
  cases o <;> simp [Outcome.ofStruct, BenignOrStruct]

theorem decodeParamsAux_benign (fuel : Nat) (rest : Bytes) (h : rest.length < fuel) :
    Benign (decodeParamsAux true fuel rest) := by
  induction fuel generalizing rest with
  | zero => omega
  | succ f ih =>
    match rest, h with
    | [], _ => simp [decodeParamsAux, Benign]
    | [_], _ => simp [decodeParamsAux, Benign]
    | [_, _], _ => simp [decodeParamsAux, Benign]
    | [_, _, _], _ => simp [decodeParamsAux, Benign]
    | t0 :: t1 :: l0 :: l1 :: r, h =>
      rw [decodeParamsAux_cons]
      by_cases hl : l0 * 256 + l1 < 4
      · simp [hl, Benign]
      · have hlen : ((t0 :: t1 :: l0 :: l1 :: r).drop (l0 * 256 + l1 + padl (l0 * 256 + l1))).length < f := by
          simp only [List.length_drop, List.length_cons] at h ⊢; omega
        have := ih _ hlen
        simp only [hl, decide_false, Bool.and_false, Bool.false_eq_true, if_false]
        revert this
        cases decodeParamsAux true f ((t0 :: t1 :: l0 :: l1 :: r).drop (l0 * 256 + l1 + padl (l0 * 256 + l1))) <;>
          simp [Benign]

theorem decodeParams_benign (body : Bytes) : Benign (decodeParams body) :=
  decodeParamsAux_benign _ _ (by omega)

theorem parseChunkBody_benign (cls : Cls) (fl : Nat) (body : Bytes) :
    BenignOrStruct (parseChunkBody true cls fl body) := by
  cases cls with
  | plain k => simp [parseChunkBody, BenignOrStruct]
  | params k =>
    simp only [parseChunkBody]
    split
    · trivial
    · have := decodeParams_benign body
      unfold decodeParams at this
      revert this
      cases decodeParamsG true body <;> simp [Benign, BenignOrStruct]
  | data =>
    simp only [parseChunkBody]
    split
    · trivial
    · exact benignOrStruct_ofStruct _
  | init k =>
    simp only [parseChunkBody]
    split
    · trivial
    · split
      · simp [BenignOrStruct]
      · rename_i r _
        have := decodeParams_benign r
        unfold decodeParams at this
        revert this
        cases decodeParamsG true r <;> simp [Benign, BenignOrStruct]
  | sack =>
    simp only [parseChunkBody]
    split
    · trivial
    · exact benignOrStruct_ofStruct _
  | shutdown =>
    simp only [parseChunkBody]
    split
    · trivial
    · split <;> simp [BenignOrStruct]
  | forwardTsn =>
    simp only [parseChunkBody]
    split
    · trivial
    · split
      · simp [BenignOrStruct]
      · split <;> simp [BenignOrStruct]

theorem parseChunks_benign (fuel : Nat) (rest : Bytes) (h : rest.length < fuel) :
    Benign (parseChunks true fuel rest) := by
  induction fuel generalizing rest with
  | zero => omega
  | succ f ih =>
    match rest, h with
    | [], _ => simp [parseChunks, Benign]
    | [_], _ => simp [parseChunks, Benign]
    | [_, _], _ => simp [parseChunks, Benign]
    | [_, _, _], _ => simp [parseChunks, Benign]
    | ty :: fl :: l0 :: l1 :: r, h =>
      rw [parseChunks_cons]
      split
      · trivial
      · rename_i hc
        have hlen : ((ty :: fl :: l0 :: l1 :: r).drop (l0 * 256 + l1 + padl (l0 * 256 + l1))).length < f := by
          simp only [SCTP_CHUNK_HEADER_LENGTH] at hc
          simp only [List.length_drop, List.length_cons] at h ⊢; omega
        have hn := ih _ hlen
        cases classOf ty with
        | none => exact hn
        | some cls =>
          simp only []
          have hb := benign_structToValue _ (parseChunkBody_benign cls fl
            (slice (ty :: fl :: l0 :: l1 :: r) SCTP_CHUNK_HEADER_LENGTH (l0 * 256 + l1)))
          revert hb
          cases structToValue true (parseChunkBody true cls fl
            (slice (ty :: fl :: l0 :: l1 :: r) SCTP_CHUNK_HEADER_LENGTH (l0 * 256 + l1))) with
          | ok c =>
            intro _
            simp only []
            revert hn
            cases parseChunks true f ((ty :: fl :: l0 :: l1 :: r).drop (l0 * 256 + l1 + padl (l0 * 256 + l1))) <;>
              simp [Benign]
          | valueError => intro _; trivial
          | crash k => intro hb; cases hb
          | hang => intro hb; cases hb

theorem parsePacket_benign (d : Bytes) : Benign (parsePacket d) := by
  unfold parsePacket parsePacketG
  split
  · trivial
  · split
    · trivial
    · split
      · rename_i rest _ _
        have := parseChunks_benign (rest.length + 1) rest (by omega)
        revert this
        cases parseChunks true (rest.length + 1) rest <;> simp [Benign]
      · trivial

theorem rcParse_benign (cls : RcCls) (data : Bytes) : Benign (RcParam.parse cls data) := by
  unfold RcParam.parse RcParam.parseG
  exact benign_structToValue _ (benignOrStruct_ofStruct _)

end Aiortc.Sctp.Wire
