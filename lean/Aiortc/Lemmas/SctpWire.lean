import Aiortc.Model.Sctp.Wire
import Aiortc.Lemmas.Bytes
import Aiortc.Lemmas.Crc32c
/-! Helper lemmas for the SCTP wire round trips (C08). -/
namespace Aiortc.Sctp.Wire
open Aiortc Aiortc.Gen Aiortc.Crc32c

theorem padl_eq (n : Nat) : padl n = (4 - n % 4) % 4 := by
  unfold padl sctp_padl
  simp only []
  split <;> omega

theorem padl_add_four (n : Nat) : padl (n + 4) = padl n := by
  rw [padl_eq, padl_eq]; omega

theorem padl_lt (n : Nat) : padl n < 4 := by rw [padl_eq]; omega
theorem padl_mod (n : Nat) : (n + padl n) % 4 = 0 := by rw [padl_eq]; omega

/-! ### struct readers -/

theorem u16_recombine (n : Nat) (h : n < 65536) : n / 256 % 256 * 256 + n % 256 = n := by omega
theorem u32_recombine (n : Nat) (h : n < 4294967296) :
    ((n / 16777216 % 256 * 256 + n / 65536 % 256) * 256 + n / 256 % 256) * 256 + n % 256 = n := by omega


theorem takeU16_u16be (n : Nat) (h : n < 65536) (r : Bytes) : takeU16 (u16be n ++ r) = some (n, r) := by
  simp only [u16be, takeU16, List.cons_append, List.nil_append, Option.some.injEq, Prod.mk.injEq, and_true]
  omega

theorem takeU32_u32be (n : Nat) (h : n < 4294967296) (r : Bytes) : takeU32 (u32be n ++ r) = some (n, r) := by
  simp only [u32be, takeU32, List.cons_append, List.nil_append, Option.some.injEq, Prod.mk.injEq, and_true]
  omega

@[simp] theorem zeros_length (n : Nat) : (zeros n).length = n := by simp [zeros]
@[simp] theorem zeros_zero : zeros 0 = [] := rfl


/-! ### parameters -/

theorem slice_four_cons {α} (a b c d : α) (r : List α) (n : Nat) :
    slice (a :: b :: c :: d :: r) 4 (n + 4) = r.take n := by
  simp [slice]

theorem drop_four_cons {α} (a b c d : α) (r : List α) (n : Nat) :
    (a :: b :: c :: d :: r).drop (n + 4) = r.drop n := by
  simp

theorem decodeParamsAux_cons (fixed : Bool) (fuel t0 t1 l0 l1 : Nat) (r : Bytes) :
    decodeParamsAux fixed (fuel + 1) (t0 :: t1 :: l0 :: l1 :: r) =
      if fixed && decide (l0 * 256 + l1 < 4) then .valueError
      else match decodeParamsAux fixed fuel
          ((t0 :: t1 :: l0 :: l1 :: r).drop (l0 * 256 + l1 + padl (l0 * 256 + l1))) with
        | .ok ps => .ok ((t0 * 256 + t1, slice (t0 :: t1 :: l0 :: l1 :: r) 4 (l0 * 256 + l1)) :: ps)
        | e => e := rfl

theorem encodeParamsAux_drop_pad (k : Nat) (ps : List Param) :
    (encodeParamsAux (zeros k) ps).drop k = encodeParamsAux [] ps := by
  cases ps with
  | nil => simp [encodeParamsAux]
  | cons p ps =>
    obtain ⟨t, v⟩ := p
    simp only [encodeParamsAux, List.nil_append]
    rw [List.drop_append_of_le_length (by simp)]
    simp

/-- Decoding an encoded parameter list gives the list back (any fuel above the number of parameters). -/
theorem decodeParamsAux_encode (fixed : Bool) (ps : List Param) (h : paramsInRange ps = true) (fuel : Nat)
    (hf : ps.length < fuel) : decodeParamsAux fixed fuel (encodeParamsAux [] ps) = .ok ps := by
  induction ps generalizing fuel with
  | nil =>
    cases fuel with
    | zero => omega
    | succ f => simp [encodeParamsAux, decodeParamsAux]
  | cons p ps ih =>
    obtain ⟨t, v⟩ := p
    cases fuel with
    | zero => omega
    | succ f =>
      simp only [paramsInRange, List.all_cons, Bool.and_eq_true, decide_eq_true_eq] at h
      obtain ⟨⟨ht, hv⟩, hps⟩ := h
      have hT := u16_recombine t ht
      have hL := u16_recombine (v.length + 4) hv
      simp only [encodeParamsAux, List.nil_append, u16be, List.cons_append]
      have hdrop : ∀ (a b c d : Nat),
          (a :: b :: c :: d :: (v ++ encodeParamsAux (zeros (padl (v.length + 4))) ps)).drop
            (v.length + 4 + padl (v.length + 4)) = encodeParamsAux [] ps := by
        intro a b c d
        rw [Nat.add_right_comm v.length 4, drop_four_cons, ← List.drop_drop,
          List.drop_left, encodeParamsAux_drop_pad]
      have hslice : ∀ (a b c d : Nat) (T : Bytes), slice (a :: b :: c :: d :: (v ++ T)) 4 (v.length + 4) = v := by
        intro a b c d T
        rw [slice_four_cons, List.take_left]
      rw [decodeParamsAux_cons, hL, hdrop, hslice, hT, ih hps f (by simp at hf; omega)]
      have h4 : ¬ (v.length + 4 < 4) := by omega
      simp [h4]


theorem length_le_encodeParamsAux (pad : Bytes) (ps : List Param) :
    ps.length ≤ (encodeParamsAux pad ps).length := by
  induction ps generalizing pad with
  | nil => simp
  | cons p ps ih =>
    obtain ⟨t, v⟩ := p
    have := ih (zeros (padl (v.length + 4)))
    simp only [encodeParamsAux, List.length_append, List.length_cons, length_u16be]
    omega

theorem decodeParamsG_encode (fixed : Bool) (ps : List Param) (h : paramsInRange ps = true) :
    decodeParamsG fixed (encodeParams ps) = .ok ps := by
  unfold decodeParamsG encodeParams
  exact decodeParamsAux_encode fixed ps h _ (by have := length_le_encodeParamsAux [] ps; omega)

theorem encodeParams_eq_nil (ps : List Param) (h : encodeParams ps = []) : ps = [] := by
  cases ps with
  | nil => rfl
  | cons p ps => obtain ⟨t, v⟩ := p; simp [encodeParams, encodeParamsAux, u16be] at h

/-! ### lists of pairs / words -/

theorem pairsBytes_cons (g : Nat × Nat) (l : List (Nat × Nat)) :
    pairsBytes (g :: l) = u16be g.1 ++ (u16be g.2 ++ pairsBytes l) := by
  simp [pairsBytes]

theorem u32sBytes_cons (a : Nat) (l : List Nat) : u32sBytes (a :: l) = u32be a ++ u32sBytes l := by
  simp [u32sBytes]

theorem u16sBytes_cons (a : Nat) (l : List Nat) : u16sBytes (a :: l) = u16be a ++ u16sBytes l := by
  simp [u16sBytes]

@[simp] theorem pairsBytes_length (l : List (Nat × Nat)) : (pairsBytes l).length = 4 * l.length := by
  induction l with
  | nil => rfl
  | cons g l ih => rw [pairsBytes_cons]; simp [ih]; omega

@[simp] theorem u32sBytes_length (l : List Nat) : (u32sBytes l).length = 4 * l.length := by
  induction l with
  | nil => rfl
  | cons g l ih => rw [u32sBytes_cons]; simp [ih]; omega

theorem readPairs_pairsBytes (l : List (Nat × Nat)) (h : pairsInRange l = true) (r : Bytes) :
    readPairs l.length (pairsBytes l ++ r) = some (l, r) := by
  induction l with
  | nil => rfl
  | cons g l ih =>
    simp only [pairsInRange, List.all_cons, Bool.and_eq_true, decide_eq_true_eq] at h
    obtain ⟨⟨h1, h2⟩, hl⟩ := h
    rw [pairsBytes_cons, List.length_cons, readPairs, List.append_assoc, takeU16_u16be _ h1]
    simp only []
    rw [List.append_assoc, takeU16_u16be _ h2]
    simp only []
    rw [ih hl]

theorem readU32s_u32sBytes (l : List Nat) (h : u32sInRange l = true) (r : Bytes) :
    readU32s l.length (u32sBytes l ++ r) = some (l, r) := by
  induction l with
  | nil => rfl
  | cons g l ih =>
    simp only [u32sInRange, List.all_cons, Bool.and_eq_true, decide_eq_true_eq] at h
    obtain ⟨h1, hl⟩ := h
    rw [u32sBytes_cons, List.length_cons, readU32s, List.append_assoc, takeU32_u32be _ h1]
    simp only []
    rw [ih hl]

theorem readAllPairs_pairsBytes (l : List (Nat × Nat)) (h : pairsInRange l = true) :
    readAllPairs (pairsBytes l) = some l := by
  induction l with
  | nil => rfl
  | cons g l ih =>
    simp only [pairsInRange, List.all_cons, Bool.and_eq_true, decide_eq_true_eq] at h
    obtain ⟨⟨h1, h2⟩, hl⟩ := h
    rw [pairsBytes_cons]
    simp only [u16be, List.cons_append, List.nil_append, readAllPairs]
    rw [ih hl, u16_recombine _ h1, u16_recombine _ h2]

theorem readAllU16s_u16sBytes (l : List Nat) (h : (l.all fun s => decide (s < 65536)) = true) :
    readAllU16s (u16sBytes l) = some l := by
  induction l with
  | nil => rfl
  | cons g l ih =>
    simp only [List.all_cons, Bool.and_eq_true, decide_eq_true_eq] at h
    obtain ⟨h1, hl⟩ := h
    rw [u16sBytes_cons]
    simp only [u16be, List.cons_append, List.nil_append, readAllU16s]
    rw [ih hl, u16_recombine _ h1]


/-! ### every chunk is the generic framing of its body -/

def Chunk.flags : Chunk → Nat
  | .plain _ f _ | .params _ f _ | .data f .. | .init _ f .. | .sack f .. | .shutdown f _
  | .forwardTsn f .. => f

/-- The value part of the chunk (`chunk.body`; for DATA and SACK what their `__bytes__` puts there). -/
def Chunk.body : Chunk → Bytes
  | .plain _ _ b => b
  | .params _ _ ps => encodeParams ps
  | .data _ tsn sid sseq proto ud => u32be tsn ++ (u16be sid ++ (u16be sseq ++ (u32be proto ++ ud)))
  | .init _ _ tag rwnd outs ins itsn ps => initBody tag rwnd outs ins itsn ps
  | .sack _ ctsn rwnd gaps dups =>
    u32be ctsn ++ (u32be rwnd ++ (u16be gaps.length ++ (u16be dups.length ++ (pairsBytes gaps ++ u32sBytes dups))))
  | .shutdown _ ctsn => u32be ctsn
  | .forwardTsn _ ctsn streams => forwardTsnBody ctsn streams

theorem zeros_padl_of_mod (n : Nat) : (if n % 4 ≠ 0 then zeros (padl n) else []) = zeros (padl n) := by
  split
  · rfl
  · rename_i h
    have : padl n = 0 := by rw [padl_eq]; omega
    rw [this]; rfl

theorem Chunk.bytes_eq_generic (c : Chunk) : c.bytes = genericBytes c.cls.ty c.flags c.body := by
  cases c with
  | plain k f b => rfl
  | params k f ps => rfl
  | init k f tag rwnd outs ins itsn ps => rfl
  | shutdown f ctsn => rfl
  | forwardTsn f ctsn streams => rfl
  | data f tsn sid sseq proto ud =>
    simp only [Chunk.bytes, genericBytes, Chunk.cls, Chunk.flags, Chunk.body, Cls.ty, zeros_padl_of_mod,
      List.append_assoc, List.length_append, length_u32be, length_u16be]
    have h1 : 4 + (2 + (2 + (4 + ud.length))) + 4 = 16 + ud.length := by omega
    have h2 : padl (4 + (2 + (2 + (4 + ud.length)))) = padl (16 + ud.length) := by
      rw [padl_eq, padl_eq]; omega
    rw [h1, h2]
  | sack f ctsn rwnd gaps dups =>
    simp only [Chunk.bytes, genericBytes, Chunk.cls, Chunk.flags, Chunk.body, Cls.ty,
      List.append_assoc, List.length_append, length_u32be, length_u16be, pairsBytes_length, u32sBytes_length]
    have h1 : 4 + (4 + (2 + (2 + (4 * gaps.length + 4 * dups.length)))) + 4
        = 16 + 4 * (gaps.length + dups.length) := by omega
    have h2 : padl (4 + (4 + (2 + (2 + (4 * gaps.length + 4 * dups.length))))) = 0 := by
      rw [padl_eq]; omega
    rw [h1, h2]; simp

theorem Cls.ty_lt (c : Cls) : c.ty < 256 := by
  cases c with
  | plain k => cases k <;> decide
  | params k => cases k <;> decide
  | init k => cases k <;> decide
  | data => decide
  | sack => decide
  | shutdown => decide
  | forwardTsn => decide

theorem classOf_ty (c : Cls) : classOf c.ty = some c := by
  cases c with
  | plain k => cases k <;> decide
  | params k => cases k <;> decide
  | init k => cases k <;> decide
  | data => decide
  | sack => decide
  | shutdown => decide
  | forwardTsn => decide

/-! ### the chunk loop on one generic chunk -/

theorem parseChunks_cons (fixed : Bool) (fuel ty fl l0 l1 : Nat) (r : Bytes) :
    parseChunks fixed (fuel + 1) (ty :: fl :: l0 :: l1 :: r) =
      if l0 * 256 + l1 < SCTP_CHUNK_HEADER_LENGTH ∨ l0 * 256 + l1 > (ty :: fl :: l0 :: l1 :: r).length
      then .valueError
      else
        match classOf ty with
        | none => parseChunks fixed fuel ((ty :: fl :: l0 :: l1 :: r).drop (l0 * 256 + l1 + padl (l0 * 256 + l1)))
        | some cls =>
          match structToValue fixed (parseChunkBody fixed cls fl
              (slice (ty :: fl :: l0 :: l1 :: r) SCTP_CHUNK_HEADER_LENGTH (l0 * 256 + l1))) with
          | .ok c =>
            match parseChunks fixed fuel
                ((ty :: fl :: l0 :: l1 :: r).drop (l0 * 256 + l1 + padl (l0 * 256 + l1))) with
            | .ok cs => .ok (c :: cs)
            | e => e
          | .valueError => .valueError | .crash e => .crash e | .hang => .hang := rfl

theorem parseChunks_nil (fixed : Bool) (fuel : Nat) : parseChunks fixed (fuel + 1) [] = .ok [] := rfl

/-- One generically framed chunk followed by nothing: the loop runs the class constructor once. -/
theorem parseChunks_generic (fixed : Bool) (fuel ty fl : Nat) (body : Bytes)
    (hty : ty < 256) (hfl : fl < 256) (hb : body.length + 4 < 65536) :
    parseChunks fixed (fuel + 2) (genericBytes ty fl body) =
      match classOf ty with
      | none => .ok []
      | some cls =>
        match structToValue fixed (parseChunkBody fixed cls fl body) with
        | .ok c => .ok [c]
        | .valueError => .valueError | .crash e => .crash e | .hang => .hang := by
  have hL := u16_recombine (body.length + 4) hb
  have hdrop : ∀ (a b c d : Nat),
      (a :: b :: c :: d :: (body ++ zeros (padl body.length))).drop
        (body.length + 4 + padl (body.length + 4)) = [] := by
    intro a b c d
    rw [Nat.add_right_comm body.length 4, drop_four_cons, padl_add_four]
    apply List.drop_eq_nil_of_le; simp
  have hslice : ∀ (a b c d : Nat) (T : Bytes),
      slice (a :: b :: c :: d :: (body ++ T)) SCTP_CHUNK_HEADER_LENGTH (body.length + 4) = body := by
    intro a b c d T
    show slice _ 4 _ = _
    rw [slice_four_cons, List.take_left]
  have hcond : ¬ (body.length + 4 < SCTP_CHUNK_HEADER_LENGTH ∨
      body.length + 4 > (ty % 256 :: fl % 256 :: (body.length + 4) / 256 % 256 :: (body.length + 4) % 256 ::
        (body ++ zeros (padl body.length))).length) := by
    simp [SCTP_CHUNK_HEADER_LENGTH]
  simp only [genericBytes, u8, u16be, List.cons_append, List.nil_append]
  rw [parseChunks_cons, hL, if_neg hcond, hdrop, hslice, parseChunks_nil, Nat.mod_eq_of_lt hty, Nat.mod_eq_of_lt hfl]


/-! ### the class constructors invert `body` -/

theorem isEmpty_u32be_append (n : Nat) (r : Bytes) : (u32be n ++ r).isEmpty = false := by simp [u32be]

theorem parseChunkBody_body (fixed : Bool) (c : Chunk) (h : c.inRange = true) :
    parseChunkBody fixed c.cls c.flags c.body = .ok c := by
  cases c with
  | plain k f b => rfl
  | params k f ps =>
    simp only [Chunk.inRange, Bool.and_eq_true, decide_eq_true_eq] at h
    obtain ⟨⟨_, hps⟩, _⟩ := h
    show parseChunkBody fixed (.params k) f (encodeParams ps) = _
    simp only [parseChunkBody]
    by_cases he : (encodeParams ps).isEmpty = true
    · have := encodeParams_eq_nil ps (List.isEmpty_iff.mp he)
      subst this; rfl
    · rw [if_neg he, decodeParamsG_encode fixed ps hps]
  | data f tsn sid sseq proto ud =>
    simp only [Chunk.inRange, Bool.and_eq_true, decide_eq_true_eq] at h
    obtain ⟨⟨⟨⟨⟨_, h1⟩, h2⟩, h3⟩, h4⟩, _⟩ := h
    simp only [Chunk.cls, Chunk.flags, Chunk.body, parseChunkBody, isEmpty_u32be_append, Bool.false_eq_true,
      if_false, parseDataBody, takeU32_u32be _ h1, takeU16_u16be _ h2, takeU16_u16be _ h3, takeU32_u32be _ h4,
      Outcome.ofStruct]
  | init k f tag rwnd outs ins itsn ps =>
    simp only [Chunk.inRange, Bool.and_eq_true, decide_eq_true_eq] at h
    obtain ⟨⟨⟨⟨⟨⟨⟨_, h1⟩, h2⟩, h3⟩, h4⟩, h5⟩, hps⟩, _⟩ := h
    simp only [Chunk.cls, Chunk.flags, Chunk.body, initBody, parseChunkBody, isEmpty_u32be_append,
      Bool.false_eq_true, if_false, parseInitHead, takeU32_u32be _ h1, takeU32_u32be _ h2, takeU16_u16be _ h3,
      takeU16_u16be _ h4, takeU32_u32be _ h5, decodeParamsG_encode fixed ps hps]
  | sack f ctsn rwnd gaps dups =>
    simp only [Chunk.inRange, Bool.and_eq_true, decide_eq_true_eq] at h
    obtain ⟨⟨⟨⟨⟨_, h1⟩, h2⟩, hl⟩, hg⟩, hd⟩ := h
    have hgl : gaps.length < 65536 := by omega
    have hdl : dups.length < 65536 := by omega
    have hdd := readU32s_u32sBytes dups hd []
    rw [List.append_nil] at hdd
    simp only [Chunk.cls, Chunk.flags, Chunk.body, parseChunkBody, isEmpty_u32be_append,
      Bool.false_eq_true, if_false, parseSackBody, takeU32_u32be _ h1, takeU32_u32be _ h2, takeU16_u16be _ hgl,
      takeU16_u16be _ hdl, readPairs_pairsBytes gaps hg, hdd, Outcome.ofStruct]
  | shutdown f ctsn =>
    simp only [Chunk.inRange, Bool.and_eq_true, decide_eq_true_eq] at h
    have h1 := takeU32_u32be ctsn h.2 []
    rw [List.append_nil] at h1
    have h0 := isEmpty_u32be_append ctsn []
    rw [List.append_nil] at h0
    simp only [Chunk.cls, Chunk.flags, Chunk.body, parseChunkBody, h0, h1, Bool.false_eq_true, if_false]
  | forwardTsn f ctsn streams =>
    simp only [Chunk.inRange, Bool.and_eq_true, decide_eq_true_eq] at h
    obtain ⟨⟨⟨_, h1⟩, hs⟩, _⟩ := h
    simp only [Chunk.cls, Chunk.flags, Chunk.body, forwardTsnBody, parseChunkBody, isEmpty_u32be_append,
      Bool.false_eq_true, if_false, takeU32_u32be _ h1, readAllPairs_pairsBytes streams hs]

/-- Length of the value part in terms of what `inRange` bounds. -/
theorem Chunk.body_length_lt (c : Chunk) (h : c.inRange = true) : c.body.length + 4 < 65536 := by
  cases c with
  | plain k f b =>
    simp only [Chunk.inRange, Bool.and_eq_true, decide_eq_true_eq] at h; exact h.2
  | params k f ps =>
    simp only [Chunk.inRange, Bool.and_eq_true, decide_eq_true_eq] at h; exact h.2
  | data f tsn sid sseq proto ud =>
    simp only [Chunk.inRange, Bool.and_eq_true, decide_eq_true_eq] at h
    simp only [Chunk.body, List.length_append, length_u32be, length_u16be]; omega
  | init k f tag rwnd outs ins itsn ps =>
    simp only [Chunk.inRange, Bool.and_eq_true, decide_eq_true_eq] at h
    simp only [Chunk.body, initBody, List.length_append, length_u32be, length_u16be]; omega
  | sack f ctsn rwnd gaps dups =>
    simp only [Chunk.inRange, Bool.and_eq_true, decide_eq_true_eq] at h
    simp only [Chunk.body, List.length_append, length_u32be, length_u16be, pairsBytes_length, u32sBytes_length]
    omega
  | shutdown f ctsn => simp [Chunk.body]
  | forwardTsn f ctsn streams =>
    simp only [Chunk.inRange, Bool.and_eq_true, decide_eq_true_eq] at h
    simp only [Chunk.body, forwardTsnBody, List.length_append, length_u32be, pairsBytes_length]; omega

theorem Chunk.flags_lt (c : Chunk) (h : c.inRange = true) : c.flags < 256 := by
  cases c <;> simp only [Chunk.inRange, Bool.and_eq_true, decide_eq_true_eq] at h <;>
    simp only [Chunk.flags] <;> omega

/-- The chunk loop on the bytes of one chunk returns exactly that chunk. -/
theorem parseChunks_bytes (fixed : Bool) (fuel : Nat) (c : Chunk) (h : c.inRange = true) :
    parseChunks fixed (fuel + 2) c.bytes = .ok [c] := by
  rw [Chunk.bytes_eq_generic, parseChunks_generic fixed fuel _ _ _ (Cls.ty_lt _) (Chunk.flags_lt c h)
    (Chunk.body_length_lt c h), classOf_ty]
  simp only [parseChunkBody_body fixed c h, structToValue]


/-! ### packets -/

theorem run_lt (bits : List Bool) (s : Nat) (h : s < 2 ^ 32) : run s bits < 2 ^ 32 := by
  induction bits generalizing s with
  | nil => exact h
  | cons b bits ih => exact ih _ (step_lt s b h)

theorem crc32c_lt (d : Bytes) : crc32c d < 4294967296 := by
  unfold crc32c
  exact Nat.xor_lt_two_pow (n := 32) (run_lt _ _ (by decide)) (by decide)

theorem u32le_recombine (n : Nat) (h : n < 4294967296) :
    n % 256 + n / 256 % 256 * 256 + n / 65536 % 256 * 65536 + n / 16777216 % 256 * 16777216 = n := by omega

theorem Chunk.bytes_length_ge (c : Chunk) : 4 ≤ c.bytes.length := by
  rw [Chunk.bytes_eq_generic]; simp [genericBytes]; omega

/-- Shape of a serialised packet: 12 header bytes, then the chunk. -/
theorem serializePacketRaw_eq (sp dp tag : Nat) (c : Chunk) :
    serializePacketRaw sp dp tag c =
      let crc := crc32c (sp / 256 % 256 :: sp % 256 :: dp / 256 % 256 :: dp % 256 ::
        tag / 16777216 % 256 :: tag / 65536 % 256 :: tag / 256 % 256 :: tag % 256 :: 0 :: 0 :: 0 :: 0 :: c.bytes)
      sp / 256 % 256 :: sp % 256 :: dp / 256 % 256 :: dp % 256 ::
        tag / 16777216 % 256 :: tag / 65536 % 256 :: tag / 256 % 256 :: tag % 256 ::
        crc % 256 :: crc / 256 % 256 :: crc / 65536 % 256 :: crc / 16777216 % 256 :: c.bytes := rfl

theorem checksumOk_serialize (sp dp tag : Nat) (c : Chunk) :
    checksumOk (serializePacketRaw sp dp tag c) = true := by
  rw [serializePacketRaw_eq]
  simp only [checksumOk, beq_iff_eq]
  exact u32le_recombine _ (crc32c_lt _)

theorem parsePacketG_serialize (fixed : Bool) (sp dp tag : Nat) (c : Chunk)
    (hh : headerInRange sp dp tag = true) (hc : c.inRange = true) :
    parsePacketG fixed (serializePacketRaw sp dp tag c) = .ok (sp, dp, tag, [c]) := by
  simp only [headerInRange, Bool.and_eq_true, decide_eq_true_eq] at hh
  obtain ⟨⟨hsp, hdp⟩, htag⟩ := hh
  have hlen : ¬ (serializePacketRaw sp dp tag c).length < SCTP_PACKET_MINIMUM_LENGTH := by
    have := Chunk.bytes_length_ge c
    rw [serializePacketRaw_eq]; simp [SCTP_PACKET_MINIMUM_LENGTH]; omega
  unfold parsePacketG
  rw [if_neg hlen, checksumOk_serialize]
  simp only [Bool.not_true, Bool.false_eq_true, if_false]
  rw [serializePacketRaw_eq]
  simp only []
  obtain ⟨n, hn⟩ : ∃ n, c.bytes.length + 1 = n + 2 := ⟨c.bytes.length - 1, by have := Chunk.bytes_length_ge c; omega⟩
  rw [hn, parseChunks_bytes fixed n c hc]
  simp only [u16_recombine sp hsp, u16_recombine dp hdp, u32_recombine tag htag]

end Aiortc.Sctp.Wire
