import Aiortc.Model.Sdp.Lex
/-! C09 helper lemmas, layer L1: decimal printing/parsing round trip, and what the splitters do on
separator-free tokens (`split()`, `split(c, 1)`, `split(c)` against `join`). -/
namespace Aiortc.Model.Sdp


theorem digitChar_toNat : ∀ d, d < 10 → (digitChar d).toNat = d + 48 := by decide

def valRev : Str → Nat
  | [] => 0
  | c :: r => digitVal c + 10 * valRev r

theorem digitsRev_spec : ∀ f n, n < f →
    digitsRev f n ≠ [] ∧ (∀ c ∈ digitsRev f n, isDigit c = true) ∧ valRev (digitsRev f n) = n := by
  intro f
  induction f with
  | zero => intro n h; omega
  | succ f ih =>
    intro n h
    unfold digitsRev
    by_cases h10 : n < 10
    · simp only [h10, if_true]
      have := digitChar_toNat n h10
      refine ⟨by simp, ?_, ?_⟩
      · intro c hc
        simp only [List.mem_singleton] at hc
        subst hc
        simp only [isDigit, this]
        simp; omega
      · simp only [valRev, digitVal, this]; omega
    · simp only [h10, if_false]
      have hd : n / 10 < f := by omega
      obtain ⟨_, h2, h3⟩ := ih (n / 10) hd
      have := digitChar_toNat (n % 10) (by omega)
      refine ⟨by simp, ?_, ?_⟩
      · intro c hc
        simp only [List.mem_cons] at hc
        rcases hc with hc | hc
        · subst hc; simp only [isDigit, this]; simp; omega
        · exact h2 c hc
      · simp only [valRev, digitVal, this, h3]; omega


def stepD (a : Nat) (c : Char) : Nat := a * 10 + digitVal c

theorem parseDigits_digits : ∀ (ds : Str) (acc : Nat) (pd : Bool), ds ≠ [] → (∀ c ∈ ds, isDigit c = true) →
    parseDigits ds acc pd = some (ds.foldl stepD acc) := by
  intro ds
  induction ds with
  | nil => intro _ _ h; exact absurd rfl h
  | cons c cs ih =>
    intro acc pd _ hall
    have hc : isDigit c = true := hall c (by simp)
    unfold parseDigits
    simp only [hc, if_true]
    cases cs with
    | nil => simp [parseDigits, stepD]
    | cons d ds =>
      rw [ih _ _ (by simp) (fun x hx => hall x (by simp [hx]))]
      simp [List.foldl, stepD]

theorem foldl_rev_valRev (l : Str) : l.reverse.foldl stepD 0 = valRev l := by
  induction l with
  | nil => rfl
  | cons c r ih => simp [List.foldl_append, ih, valRev, stepD]; omega

theorem showNat_digits (n : Nat) : showNat n ≠ [] ∧ (∀ c ∈ showNat n, isDigit c = true) := by
  obtain ⟨h1, h2, _⟩ := digitsRev_spec (n + 1) n (by omega)
  unfold showNat
  exact ⟨by simpa using h1, fun c hc => h2 c (by simpa using hc)⟩

theorem parseDigits_showNat (n : Nat) : parseDigits (showNat n) 0 false = some n := by
  obtain ⟨h1, h2⟩ := showNat_digits n
  rw [parseDigits_digits _ _ _ h1 h2]
  obtain ⟨_, _, h3⟩ := digitsRev_spec (n + 1) n (by omega)
  unfold showNat
  rw [foldl_rev_valRev, h3]

theorem isDigit_not_space {c : Char} (h : isDigit c = true) : isPySpace c = false := by
  simp only [isDigit, Bool.and_eq_true, decide_eq_true_eq] at h
  simp only [isPySpace]
  simp; omega

theorem isDigit_not_intSpace {c : Char} (h : isDigit c = true) : isIntSpace c = false := by
  simp [isIntSpace, isDigit_not_space h]

theorem dropWhile_head_false {α} (p : α → Bool) (l : List α) (h : ∀ a, l.head? = some a → p a = false) :
    l.dropWhile p = l := by
  cases l with
  | nil => rfl
  | cons a r => simp [List.dropWhile, h a (by simp)]

/-- A string whose first and last characters are not blanks is unchanged by the strip of `int()`. -/
theorem stripInt_self (s : Str) (h : ∀ c ∈ s, isIntSpace c = false) : stripInt s = s := by
  unfold stripInt
  rw [dropWhile_head_false _ s (fun a ha => h a (List.mem_of_mem_head? ha))]
  rw [dropWhile_head_false _ s.reverse (fun a ha => h a (by simpa using List.mem_of_mem_head? ha))]
  simp


theorem pyInt_showNat (n : Nat) : pyInt (showNat n) = some (Int.ofNat n) := by
  obtain ⟨h1, h2⟩ := showNat_digits n
  unfold pyInt
  rw [stripInt_self _ (fun c hc => isDigit_not_intSpace (h2 c hc))]
  have hp := parseDigits_showNat n
  generalize showNat n = s at *
  match s, h1, h2 with
  | d :: rest, _, h2 =>
    have hd : isDigit d = true := h2 d (by simp)
    have hm : d ≠ '-' := by intro h; subst h; simp [isDigit] at hd
    have hpl : d ≠ '+' := by intro h; subst h; simp [isDigit] at hd
    split
    · rename_i heq; simp at heq; exact absurd heq.1 hm
    · rename_i heq; simp at heq; exact absurd heq.1 hpl
    · simp [hp]

theorem pyInt_showInt (i : Int) : pyInt (showInt i) = some i := by
  cases i with
  | ofNat n => exact pyInt_showNat n
  | negSucc n =>
    obtain ⟨_, h2⟩ := showNat_digits (n + 1)
    unfold pyInt showInt
    rw [stripInt_self]
    · simp [parseDigits_showNat, Int.negSucc_eq]
    · intro c hc
      simp only [List.mem_cons] at hc
      rcases hc with hc | hc
      · subst hc; decide
      · exact isDigit_not_intSpace (h2 c hc)


/-- A token: non-empty, no Python whitespace. -/
def Tok (t : Str) : Prop := t ≠ [] ∧ ∀ c ∈ t, isPySpace c = false

/-- `rest` is empty or starts with a blank. -/
def Brk (rest : Str) : Prop := ∀ d, rest.head? = some d → isPySpace d = true

theorem splitWs_tok_append (t : Str) (ht : Tok t) (rest : Str) (hr : Brk rest) :
    splitWs (t ++ rest) = t :: splitWs rest := by
  obtain ⟨hne, hns⟩ := ht
  induction t with
  | nil => exact absurd rfl hne
  | cons c cs ih =>
    have hc : isPySpace c = false := hns c (by simp)
    cases cs with
    | nil =>
      cases rest with
      | nil => simp [splitWs, hc]
      | cons d r =>
        have hd : isPySpace d = true := hr d (by simp)
        simp [splitWs, hc, hd]
    | cons c' cs' =>
      have hc' : isPySpace c' = false := hns c' (by simp)
      have := ih (by simp) (fun x hx => hns x (by simp [hx]))
      simp only [List.cons_append] at this ⊢
      rw [splitWs]
      simp only [hc, hc', Bool.false_eq_true, if_false, this]

theorem splitWs_space_cons (c : Char) (h : isPySpace c = true) (s : Str) : splitWs (c :: s) = splitWs s := by
  simp [splitWs, h]

theorem splitWs_unwords : ∀ toks : List Str, (∀ t ∈ toks, Tok t) → splitWs (unwords toks) = toks := by
  intro toks
  induction toks with
  | nil => intro _; rfl
  | cons a r ih =>
    intro h
    have ha := h a (by simp)
    cases r with
    | nil =>
      have := splitWs_tok_append a ha [] (by intro d hd; simp at hd)
      simpa [unwords, join, splitWs] using this
    | cons b r' =>
      have hr := ih (fun t ht => h t (by simp [ht]))
      show splitWs (a ++ [' '] ++ unwords (b :: r')) = _
      rw [List.append_assoc, splitWs_tok_append a ha _ (by intro d hd; simp at hd; subst hd; decide)]
      simp only [List.singleton_append]
      rw [splitWs_space_cons _ (by decide), hr]

theorem split1_append (sep : Char) (a b : Str) (h : sep ∉ a) : split1 sep (a ++ sep :: b) = (a, some b) := by
  induction a with
  | nil => simp [split1]
  | cons c cs ih =>
    have hc : c ≠ sep := fun e => h (by simp [e])
    have := ih (fun e => h (by simp [e]))
    simp [split1, hc, this]

theorem split1_none (sep : Char) (a : Str) (h : sep ∉ a) : split1 sep a = (a, none) := by
  induction a with
  | nil => simp [split1]
  | cons c cs ih =>
    have hc : c ≠ sep := fun e => h (by simp [e])
    have := ih (fun e => h (by simp [e]))
    simp [split1, hc, this]

theorem splitOn_single (sep : Char) (a : Str) (h : sep ∉ a) : splitOn sep a = [a] := by
  induction a with
  | nil => simp [splitOn]
  | cons c cs ih =>
    have hc : c ≠ sep := fun e => h (by simp [e])
    have := ih (fun e => h (by simp [e]))
    simp [splitOn, hc, this]

theorem splitOn_append (sep : Char) (a b : Str) (h : sep ∉ a) :
    splitOn sep (a ++ sep :: b) = a :: splitOn sep b := by
  induction a with
  | nil => simp [splitOn]
  | cons c cs ih =>
    have hc : c ≠ sep := fun e => h (by simp [e])
    have := ih (fun e => h (by simp [e]))
    simp [splitOn, hc, this]

theorem splitOn_join (sep : Char) : ∀ parts : List Str, parts ≠ [] → (∀ p ∈ parts, sep ∉ p) →
    splitOn sep (join [sep] parts) = parts := by
  intro parts
  induction parts with
  | nil => intro h; exact absurd rfl h
  | cons a r ih =>
    intro _ h
    cases r with
    | nil => simpa [join] using splitOn_single sep a (h a (by simp))
    | cons b r' =>
      show splitOn sep (a ++ [sep] ++ join [sep] (b :: r')) = _
      rw [List.append_assoc, List.singleton_append, splitOn_append sep a _ (h a (by simp)),
        ih (by simp) (fun p hp => h p (by simp [hp]))]


theorem tok_single {c : Char} (hc : ¬isPySpace c = true) : Tok [c] :=
  ⟨by simp, by intro x hx; simp at hx; subst hx; simpa using hc⟩

theorem splitWs_all_tok (s : Str) : ∀ t ∈ splitWs s, Tok t := by
  fun_induction splitWs s with
  | case1 => intro t h; simp at h
  | case2 c cs hc ih => exact ih
  | case3 c hc => intro t h; simp at h; subst h; exact tok_single hc
  | case4 c hc d r hd ih =>
    intro t h; simp at h
    rcases h with h | h
    · subst h; exact tok_single hc
    · exact ih t h
  | case5 c hc d r hd hnil ih => intro t h; rw [hnil] at h; simp at h; subst h; exact tok_single hc
  | case6 c hc d r hd h t' heq ih =>
    intro t ht; rw [heq] at ht; simp at ht
    rcases ht with ht | ht
    · subst ht
      have := ih h (by simp [heq])
      refine ⟨by simp, ?_⟩
      intro x hx; simp at hx
      rcases hx with hx | hx
      · subst hx; simpa using hc
      · exact this.2 x hx
    · exact ih t (by simp [heq, ht])

theorem split1_fst_nosep (sep : Char) (s : Str) : sep ∉ (split1 sep s).1 := by
  induction s with
  | nil => simp [split1]
  | cons c cs ih =>
    by_cases h : c = sep
    · simp [split1, h]
    · simp [split1, h]; exact ⟨fun e => h e.symm, ih⟩

theorem split1_some_eq (sep : Char) (s : Str) (k v : Str) (h : split1 sep s = (k, some v)) :
    s = k ++ sep :: v := by
  induction s generalizing k with
  | nil => simp [split1] at h
  | cons c cs ih =>
    by_cases hc : c = sep
    · simp [split1, hc] at h; obtain ⟨h1, h2⟩ := h; subst h1 h2 hc; rfl
    · simp [split1, hc] at h
      obtain ⟨h1, h2⟩ := h
      have := ih (split1 sep cs).1 (by rw [← h2])
      subst h1; simp; exact this

theorem split1_none_eq (sep : Char) (s : Str) (k : Str) (h : split1 sep s = (k, none)) :
    s = k ∧ sep ∉ s := by
  induction s generalizing k with
  | nil => simp [split1] at h; subst h; simp
  | cons c cs ih =>
    by_cases hc : c = sep
    · simp [split1, hc] at h
    · simp [split1, hc] at h
      obtain ⟨h1, h2⟩ := h
      have := ih (split1 sep cs).1 (by rw [← h2])
      subst h1; simp; exact ⟨this.1, fun e => hc e.symm, this.2⟩

theorem splitOn_nosep (sep : Char) (s : Str) : ∀ p ∈ splitOn sep s, sep ∉ p := by
  induction s with
  | nil => simp [splitOn]
  | cons c cs ih =>
    by_cases h : c = sep
    · simp [splitOn, h]; exact ih
    · simp only [splitOn, h, if_false]
      cases hs : splitOn sep cs with
      | nil => simp; exact fun e => h e.symm
      | cons a r =>
        rw [hs] at ih
        intro p hp; simp at hp
        rcases hp with hp | hp
        · subst hp; simp; exact ⟨fun e => h e.symm, ih a (by simp)⟩
        · exact ih p (by simp [hp])

theorem splitOn_ne_nil (sep : Char) (s : Str) : splitOn sep s ≠ [] := by
  cases s with
  | nil => simp [splitOn]
  | cons c cs =>
    by_cases h : c = sep
    · simp [splitOn, h]
    · simp only [splitOn, h, if_false]; cases splitOn sep cs <;> simp

end Aiortc.Model.Sdp
