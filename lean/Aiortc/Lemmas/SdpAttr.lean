import Aiortc.Model.Sdp.Session
import Aiortc.Lemmas.Sdp
/-! C09 lemmas, layer L2: well-formedness predicates and the round-trip / idempotence proofs of every
attribute codec of `sdp.py` (the headline statements are re-exported in `Props/C09.lean`). -/
namespace Aiortc.Lemmas.C09
open Aiortc Aiortc.Model.Sdp


theorem tok_showInt (i : Int) : Tok (showInt i) := by
  cases i with
  | ofNat n =>
    obtain ⟨h1, h2⟩ := showNat_digits n
    exact ⟨h1, fun c hc => isDigit_not_space (h2 c hc)⟩
  | negSucc n =>
    obtain ⟨_, h2⟩ := showNat_digits (n + 1)
    refine ⟨by simp [showInt], ?_⟩
    intro c hc
    simp only [showInt, List.mem_cons] at hc
    rcases hc with hc | hc
    · subst hc; decide
    · exact isDigit_not_space (h2 c hc)

theorem tok_lit_raddr : Tok "raddr".toList := ⟨by decide, by decide⟩
theorem tok_lit_rport : Tok "rport".toList := ⟨by decide, by decide⟩
theorem tok_lit_tcptype : Tok "tcptype".toList := ⟨by decide, by decide⟩
theorem tok_lit_typ : Tok "typ".toList := ⟨by decide, by decide⟩

/-- Well-formed candidate: every string field is a non-empty token without whitespace
(host/srflx/relay, udp/tcp, … are just tokens; raddr/rport/tcptype are optional). -/
structure WFCand (c : Candidate) : Prop where
  foundation : Tok c.foundation
  protocol : Tok c.protocol
  ip : Tok c.ip
  typ : Tok c.typ
  raddr : ∀ a, c.relatedAddress = some a → Tok a
  tcptype : ∀ t, c.tcpType = some t → Tok t

theorem candToks_tok (c : Candidate) (h : WFCand c) : ∀ t ∈ candToks c, Tok t := by
  intro t ht
  simp only [candToks, candExtToks, List.mem_append, List.mem_cons, List.not_mem_nil, or_false] at ht
  rcases ht with (ht | ht | ht | ht | ht | ht | ht | ht) | ht
  · subst ht; exact h.foundation
  · subst ht; exact tok_showInt _
  · subst ht; exact h.protocol
  · subst ht; exact tok_showInt _
  · subst ht; exact h.ip
  · subst ht; exact tok_showInt _
  · subst ht; exact tok_lit_typ
  · subst ht; exact h.typ
  · rcases ht with (ht | ht) | ht
    · cases hra : c.relatedAddress with
      | none => simp [hra] at ht
      | some a =>
        simp [hra] at ht
        rcases ht with ht | ht
        · subst ht; exact tok_lit_raddr
        · subst ht; exact h.raddr _ hra
    · cases hrp : c.relatedPort with
      | none => simp [hrp] at ht
      | some p =>
        simp [hrp] at ht
        rcases ht with ht | ht
        · subst ht; exact tok_lit_rport
        · subst ht; exact tok_showInt _
    · cases htt : c.tcpType with
      | none => simp [htt] at ht
      | some a =>
        simp [htt] at ht
        rcases ht with ht | ht
        · subst ht; exact tok_lit_tcptype
        · subst ht; exact h.tcptype _ htt

/-- Clause "ICE candidate lines round-trip exactly", direction value → line → value, for EVERY
well-formed candidate. -/
theorem candidate_roundtrip (c : Candidate) (h : WFCand c) :
    candidateFromSdp (candidateToSdp c) = .ok c := by
  unfold candidateFromSdp candidateToSdp
  rw [splitWs_unwords _ (candToks_tok c h)]
  obtain ⟨f, comp, proto, prio, ip, port, ty, ra, rp, tt⟩ := c
  simp only [candToks, List.cons_append, List.nil_append, pyInt_showInt]
  cases ra <;> cases rp <;> cases tt <;> simp [candExtToks, candExt, pyInt_showInt]



theorem candExt_wf (ext : List Str) (c0 : Candidate) : ∀ c, (∀ t ∈ ext, Tok t) → WFCand c0 →
    candExt ext c0 = .ok c → WFCand c := by
  fun_induction candExt ext c0 with
  | case1 v rest c0 ih =>
    intro c ht h0 h
    exact ih c (fun t h' => ht t (by simp [h'])) { h0 with raddr := by intro a ha; simp at ha; subst ha; exact ht _ (by simp) } h
  | case2 v rest c0 p hp _ ih =>
    intro c ht h0 h
    exact ih c (fun t h' => ht t (by simp [h'])) { h0 with } h
  | case3 v rest c0 hp _ =>
    intro c ht h0 h; simp at h
  | case4 v rest c0 _ _ ih =>
    intro c ht h0 h
    exact ih c (fun t h' => ht t (by simp [h'])) { h0 with tcptype := by intro a ha; simp at ha; subst ha; exact ht _ (by simp) } h
  | case5 k v rest c0 hk1 hk2 hk3 ih =>
    intro c ht h0 h
    exact ih c (fun t h' => ht t (by simp [h'])) h0 h
  | case6 l c0 hl =>
    intro c ht h0 h; simp at h; subst h; exact h0

/-- Whatever `candidate_from_sdp` accepts is a well-formed candidate. -/
theorem candidate_accepted_wf (l : Str) (c : Candidate) (h : candidateFromSdp l = .ok c) : WFCand c := by
  unfold candidateFromSdp at h
  have htok := splitWs_all_tok l
  generalize splitWs l = toks at *
  match toks, htok, h with
  | f :: comp :: proto :: prio :: ip :: port :: _ :: ty :: ext, htok, h =>
    simp only at h
    split at h
    · rename_i c1 p1 pr1 _ _ _
      refine candExt_wf ext _ c (fun t ht => htok t (by simp [ht])) ?_ h
      exact { foundation := htok _ (by simp), protocol := htok _ (by simp), ip := htok _ (by simp),
              typ := htok _ (by simp), raddr := by intro a ha; simp at ha, tcptype := by intro a ha; simp at ha }
    · simp at h


theorem showInt_chars (i : Int) : ∀ c ∈ showInt i, isDigit c = true ∨ c = '-' := by
  cases i with
  | ofNat n => intro c hc; exact Or.inl ((showNat_digits n).2 c hc)
  | negSucc n =>
    intro c hc
    simp only [showInt, List.mem_cons] at hc
    rcases hc with hc | hc
    · exact Or.inr hc
    · exact Or.inl ((showNat_digits (n + 1)).2 c hc)

theorem showInt_no (i : Int) (x : Char) (hx : isDigit x = false) (hm : x ≠ '-') : x ∉ showInt i := by
  intro h
  rcases showInt_chars i x h with h | h
  · simp [hx] at h
  · exact hm h

/-- Well-formed fmtp entry: the key contains neither ";" nor "="; the value is an int exactly for the
keys of `FMTP_INT_PARAMETERS` (or absent), a string without ";" otherwise. -/
structure WFEntry (kv : Str × PVal) : Prop where
  key_semi : ';' ∉ kv.1
  key_eq : '=' ∉ kv.1
  val : match kv.2 with
    | .none => True
    | .int _ => kv.1 ∈ fmtpIntParams
    | .str s => kv.1 ∉ fmtpIntParams ∧ ';' ∉ s

structure WFParams (p : Params) : Prop where
  nonempty : p ≠ []
  nodup : (p.map Prod.fst).Nodup
  entries : ∀ kv ∈ p, WFEntry kv

theorem paramToStr_nosemi (kv : Str × PVal) (h : WFEntry kv) : ';' ∉ paramToStr kv := by
  obtain ⟨k, v⟩ := kv
  have h1 := h.key_semi
  have h3 := h.val
  cases v with
  | none => simpa [paramToStr] using h1
  | int i =>
    simp only [paramToStr, List.mem_append, List.mem_cons, not_or]
    exact ⟨h1, by decide, showInt_no i ';' (by decide) (by decide)⟩
  | str s =>
    simp only [paramToStr, List.mem_append, List.mem_cons, not_or]
    exact ⟨h1, by decide, h3.2⟩

theorem dictSet_append {β} (acc : List (Str × β)) (k : Str) (v : β) (h : k ∉ acc.map Prod.fst) :
    dictSet acc k v = acc ++ [(k, v)] := by
  induction acc with
  | nil => rfl
  | cons a r ih =>
    obtain ⟨k', v'⟩ := a
    simp only [List.map_cons, List.mem_cons, not_or] at h
    have : ¬ k' = k := fun e => h.1 e.symm
    simp [dictSet, this, ih h.2]

theorem paramsFold_wf : ∀ (p acc : Params), (∀ kv ∈ p, WFEntry kv) → ((acc ++ p).map Prod.fst).Nodup →
    paramsFold (p.map paramToStr) acc = .ok (acc ++ p) := by
  intro p
  induction p with
  | nil => intro acc _ _; simp [paramsFold]
  | cons kv r ih =>
    intro acc hwf hnd
    obtain ⟨k, v⟩ := kv
    have he := hwf (k, v) (by simp)
    have hk : k ∉ acc.map Prod.fst := by
      simp only [List.map_append, List.map_cons] at hnd
      have := (List.nodup_append.mp hnd).2.2
      intro hmem
      exact this k hmem k (by simp) rfl
    have hrec : ∀ v', paramsFold (r.map paramToStr) (acc ++ [(k, v')]) = .ok (acc ++ (k, v') :: r) := by
      intro v'
      have := ih (acc ++ [(k, v')]) (fun kv h => hwf kv (by simp [h])) (by simpa using hnd)
      simpa using this
    have h3 := he.val
    cases v with
    | none =>
      simp only [List.map_cons, paramToStr, paramsFold, split1_none '=' k he.key_eq]
      rw [dictSet_append _ _ _ hk]; exact hrec _
    | int i =>
      simp only [List.map_cons, paramToStr, paramsFold, split1_append '=' k _ he.key_eq]
      have hin : k ∈ fmtpIntParams := h3
      simp only [hin, if_true, pyInt_showInt]
      rw [dictSet_append _ _ _ hk]; exact hrec _
    | str s =>
      simp only [List.map_cons, paramToStr, paramsFold, split1_append '=' k _ he.key_eq]
      have hin : k ∉ fmtpIntParams := h3.1
      simp only [hin, if_false]
      rw [dictSet_append _ _ _ hk]; exact hrec _

/-- fmtp parameters: parse ∘ print is the identity on EVERY well-formed parameter dictionary. -/
theorem params_roundtrip (p : Params) (h : WFParams p) :
    parametersFromSdp (parametersToSdp p) = .ok p := by
  unfold parametersFromSdp parametersToSdp
  rw [splitOn_join ';' _ (by simpa using h.nonempty)
    (by intro s hs; simp only [List.mem_map] at hs; obtain ⟨kv, hkv, rfl⟩ := hs; exact paramToStr_nosemi kv (h.entries kv hkv))]
  simpa using paramsFold_wf p [] h.entries (by simpa using h.nodup)



theorem dictSet_mem {β} (acc : List (Str × β)) (k : Str) (v : β) :
    ∀ kv ∈ dictSet acc k v, kv ∈ acc ∨ kv = (k, v) := by
  induction acc with
  | nil => intro kv h; simp [dictSet] at h; exact Or.inr h
  | cons a r ih =>
    obtain ⟨k', v'⟩ := a
    intro kv h
    by_cases e : k' = k
    · simp [dictSet, e] at h
      rcases h with h | h
      · exact Or.inr h
      · exact Or.inl (by simp [h])
    · simp [dictSet, e] at h
      rcases h with h | h
      · exact Or.inl (by simp [h])
      · rcases ih kv h with h' | h'
        · exact Or.inl (by simp [h'])
        · exact Or.inr h'

theorem dictSet_keys {β} (acc : List (Str × β)) (k : Str) (v : β) :
    (dictSet acc k v).map Prod.fst = if k ∈ acc.map Prod.fst then acc.map Prod.fst else acc.map Prod.fst ++ [k] := by
  induction acc with
  | nil => simp [dictSet]
  | cons a r ih =>
    obtain ⟨k', v'⟩ := a
    by_cases e : k' = k
    · simp [dictSet, e]
    · have e' : ¬ k = k' := fun h => e h.symm
      simp only [dictSet, e, if_false, List.map_cons, ih, List.mem_cons, e', false_or]
      split <;> simp

theorem dictSet_nodup {β} (acc : List (Str × β)) (k : Str) (v : β) (h : (acc.map Prod.fst).Nodup) :
    ((dictSet acc k v).map Prod.fst).Nodup := by
  rw [dictSet_keys]
  split
  · exact h
  · rename_i hk
    exact List.nodup_append.mpr ⟨h, by simp, by intro a ha b hb; simp at hb; subst hb; intro e; subst e; exact hk ha⟩

theorem dictSet_ne_nil {β} (acc : List (Str × β)) (k : Str) (v : β) : dictSet acc k v ≠ [] := by
  cases acc with
  | nil => simp [dictSet]
  | cons a r => obtain ⟨k', v'⟩ := a; simp only [dictSet]; split <;> simp

def PInv (acc : Params) : Prop := (acc.map Prod.fst).Nodup ∧ ∀ kv ∈ acc, WFEntry kv

theorem PInv_set (acc : Params) (k : Str) (v : PVal) (h : PInv acc) (he : WFEntry (k, v)) : PInv (dictSet acc k v) :=
  ⟨dictSet_nodup acc k v h.1, fun kv hkv => by
    rcases dictSet_mem acc k v kv hkv with h' | h'
    · exact h.2 kv h'
    · subst h'; exact he⟩

theorem paramsFold_inv : ∀ (parts : List Str) (acc p : Params), (∀ s ∈ parts, ';' ∉ s) → PInv acc →
    (parts ≠ [] ∨ acc ≠ []) → paramsFold parts acc = .ok p → PInv p ∧ p ≠ [] := by
  intro parts
  induction parts with
  | nil =>
    intro acc p _ hi hne h
    simp [paramsFold] at h; subst h
    exact ⟨hi, by simpa using hne⟩
  | cons s r ih =>
    intro acc p hs hi _ h
    have hsemi : ';' ∉ s := hs s (by simp)
    have hr : ∀ x ∈ r, ';' ∉ x := fun x hx => hs x (by simp [hx])
    unfold paramsFold at h
    split at h
    · rename_i k v hsp
      have heq := split1_some_eq '=' s k v hsp
      have hk_eq : '=' ∉ k := by have := split1_fst_nosep '=' s; rw [hsp] at this; exact this
      have hk_semi : ';' ∉ k := by intro hm; apply hsemi; rw [heq]; simp [hm]
      have hv_semi : ';' ∉ v := by intro hm; apply hsemi; rw [heq]; simp [hm]
      split at h
      · rename_i hin
        split at h
        · exact ih _ p hr (PInv_set acc k _ hi ⟨hk_semi, hk_eq, hin⟩) (Or.inr (dictSet_ne_nil _ _ _)) h
        · simp at h
      · rename_i hin
        exact ih _ p hr (PInv_set acc k (.str v) hi ⟨hk_semi, hk_eq, ⟨hin, hv_semi⟩⟩) (Or.inr (dictSet_ne_nil _ _ _)) h
    · rename_i k hsp
      have := split1_none_eq '=' s k hsp
      exact ih _ p hr (PInv_set acc s _ hi ⟨hsemi, this.2, trivial⟩) (Or.inr (dictSet_ne_nil _ _ _)) h

/-- Whatever `parameters_from_sdp` accepts is a well-formed dictionary. -/
theorem params_accepted_wf (s : Str) (p : Params) (h : parametersFromSdp s = .ok p) : WFParams p := by
  unfold parametersFromSdp at h
  have := paramsFold_inv (splitOn ';' s) [] p (splitOn_nosep ';' s) ⟨by simp, by simp⟩
    (Or.inl (splitOn_ne_nil ';' s)) h
  exact ⟨this.2, this.1.1, this.1.2⟩


/-! ### groups -/
theorem brk_space (r : Str) : Brk (' ' :: r) := by intro d hd; simp at hd; subst hd; decide

theorem splitWs_head_unwords (sem : Str) (items : List Str) (hs : Tok sem) (hi : ∀ t ∈ items, Tok t) :
    splitWs (sem ++ ' ' :: unwords items) = sem :: items := by
  rw [splitWs_tok_append sem hs _ (brk_space _), splitWs_space_cons _ (by decide), splitWs_unwords _ hi]

/-- `a=group:` / `a=msid-semantic:` values: parse ∘ print appends exactly the printed group. -/
theorem group_roundtrip (dest : List (Group Str)) (g : Group Str) (hs : Tok g.semantic) (hi : ∀ t ∈ g.items, Tok t) :
    parseGroupStr dest (some (groupToStr id g)) = .ok (dest ++ [g]) := by
  simp only [parseGroupStr, groupToStr, List.map_id_fun, id_eq]
  rw [splitWs_head_unwords _ _ hs hi]

theorem mapInt_showInt (l : List Int) : mapInt (l.map showInt) = .ok l := by
  induction l with
  | nil => rfl
  | cons a r ih => simp [mapInt, pyInt_showInt, ih]

/-- `a=ssrc-group:` values (integer items). -/
theorem ssrc_group_roundtrip (dest : List (Group Int)) (g : Group Int) (hs : Tok g.semantic) :
    parseGroupInt dest (some (groupToStr showInt g)) = .ok (dest ++ [g]) := by
  simp only [parseGroupInt, groupToStr]
  rw [splitWs_head_unwords _ _ hs (by intro t ht; simp only [List.mem_map] at ht; obtain ⟨i, _, rfl⟩ := ht; exact tok_showInt i)]
  simp [mapInt_showInt]

/-- Whatever `parse_group` accepts consists of tokens, hence round-trips. -/
theorem group_idempotent (v : Str) (gs : List (Group Str)) (h : parseGroupStr [] (some v) = .ok gs) :
    ∀ g ∈ gs, parseGroupStr [] (some (groupToStr id g)) = .ok [g] := by
  intro g hg
  have htok := splitWs_all_tok v
  simp only [parseGroupStr] at h
  split at h
  · simp at h; subst h; simp at hg
  · rename_i s items heq
    simp at h; subst h; simp at hg; subst hg
    rw [heq] at htok
    simpa using group_roundtrip [] ⟨s, items⟩ (htok s (by simp)) (fun t ht => htok t (by simp [ht]))

/-! ### single-line attribute values -/

theorem split1_showInt_space (i : Int) (r : Str) : split1 ' ' (showInt i ++ ' ' :: r) = (showInt i, some r) :=
  split1_append ' ' _ _ (showInt_no i ' ' (by decide) (by decide))

/-- `a=sctpmap:<port> <description>`: no side condition at all. -/
theorem sctpmap_roundtrip (k : Int) (v : Str) : parseSctpmap (some (showInt k ++ ' ' :: v)) = .ok (k, v) := by
  simp [parseSctpmap, split1_showInt_space, pyInt_showInt]

/-- `a=ssrc:<id> <attr>:<value>`. -/
theorem ssrc_line_roundtrip (id : Int) (attr v : Str) (h : ':' ∉ attr) :
    parseSsrcLine (some (showInt id ++ ' ' :: (attr ++ ':' :: v))) = .ok (id, attr, v) := by
  simp [parseSsrcLine, split1_showInt_space, pyInt_showInt, split1_append ':' attr v h]

/-- `a=fingerprint:<algorithm> <value>`. -/
theorem fingerprint_roundtrip (f : Fingerprint) (ha : Tok f.algorithm) (hv : Tok f.value) :
    parseFingerprint (some (fingerprintValue f)) = .ok f := by
  have : splitWs (f.algorithm ++ ' ' :: unwords [f.value]) = [f.algorithm, f.value] :=
    splitWs_head_unwords _ _ ha (by intro t ht; simp at ht; subst ht; exact hv)
  simp only [unwords, join] at this
  simp [parseFingerprint, fingerprintValue, this]

/-- `a=extmap:<id> <uri>`. -/
theorem extmap_roundtrip (h : HeaderExt) (hu : Tok h.uri) : parseExtmap (some (extmapValue h)) = .ok h := by
  have : splitWs (showInt h.id ++ ' ' :: unwords [h.uri]) = [showInt h.id, h.uri] :=
    splitWs_head_unwords _ _ (tok_showInt _) (by intro t ht; simp at ht; subst ht; exact hu)
  simp only [unwords, join] at this
  have hs : '/' ∉ showInt h.id := showInt_no h.id '/' (by decide) (by decide)
  simp [parseExtmap, extmapValue, this, hs, pyInt_showInt]

/-- DTLS role ↔ `a=setup:` value, over the regenerated tables. -/
theorem setup_roundtrip : ∀ p ∈ Gen.DTLS_ROLE_SETUP,
    setupOfRole p.1.toList = .ok p.2.toList ∧ parseSetup (some p.2.toList) = .ok p.1.toList := by decide

/-- `c=` / `a=rtcp:` connection data. -/
theorem ipaddress_roundtrip (a : Str) (hne : a ≠ []) (hsp : ' ' ∉ a) :
    ipaddressFromSdp (ipaddressToSdp a) = .ok a := by
  have hv : (ipVersion a).getD 4 = 4 ∨ (ipVersion a).getD 4 = 6 := by
    unfold ipVersion
    by_cases h4 : isIPv4 a = true
    · simp [h4]
    · by_cases h6 : isIPv6 a = true <;> simp [h4, h6]
  have he : a.isEmpty = false := by cases a <;> simp at hne ⊢
  rcases hv with hv | hv <;> simp [ipaddressToSdp, hv, ipaddressFromSdp, showNat, digitsRev, digitChar, hsp, he]



/-- Well-formed codec of a media section of kind `kind`: `mimeType = kind/name`, `name` without "/" and equal to
what `RTCRtpCodecParameters.name` returns (the second "/"-piece of `mimeType`; automatic when `kind` has no "/",
see `codecName_of_noslash`), audio codecs have 1 or 2 channels, other kinds none (what the parser itself produces). -/
structure WFCodec (kind name : Str) (c : Codec) : Prop where
  mime : c.mimeType = kind ++ '/' :: name
  cname : codecName c = .ok name
  name_slash : '/' ∉ name
  chan : if kind = "audio".toList then (c.channels = some 1 ∨ c.channels = some 2) else c.channels = none
  fb : c.rtcpFeedback = []
  params : c.parameters = []

theorem codecStr_wf (kind name : Str) (c : Codec) (h : WFCodec kind name c) :
    codecStr c = .ok (name ++ '/' :: showInt c.clockRate ++ (if c.channels = some 2 then "/2".toList else [])) := by
  simp [codecStr, h.cname]

/-- For a kind without "/", `RTCRtpCodecParameters.name` of `kind/name` is `name`. -/
theorem codecName_of_noslash (kind name : Str) (c : Codec) (hm : c.mimeType = kind ++ '/' :: name)
    (hk : '/' ∉ kind) (hn : '/' ∉ name) : codecName c = .ok name := by
  simp [codecName, hm, splitOn_append '/' kind name hk, splitOn_single '/' name hn]

theorem pyInt_two : pyInt ['2'] = some 2 := pyInt_showInt 2

/-- `a=rtpmap:<pt> <name>/<clock>[/2]`: the line printed for a well-formed codec parses back to it. -/
theorem rtpmap_roundtrip (kind name : Str) (c : Codec) (h : WFCodec kind name c) :
    ∃ s, codecStr c = .ok s ∧ parseRtpmap kind (some (showInt c.payloadType ++ ' ' :: s)) = .ok c := by
  refine ⟨_, codecStr_wf kind name c h, ?_⟩
  obtain ⟨mime, clock, ch, pt, fb, params⟩ := c
  have hm := h.mime; have hf := h.fb; have hp := h.params; have hc := h.chan
  simp only at hm hf hp hc
  subst hm hf hp
  have hclk : '/' ∉ showInt clock := showInt_no clock '/' (by decide) (by decide)
  simp only [parseRtpmap, split1_showInt_space]
  by_cases ha : kind = "audio".toList
  · simp only [ha, if_true] at hc ⊢
    rcases hc with hc | hc <;> subst hc
    · simp [splitOn_append '/' name _ h.name_slash, splitOn_single '/' _ hclk, pyInt_showInt]
    · simp [splitOn_append '/' name _ h.name_slash, splitOn_append '/' _ _ hclk, splitOn, pyInt_showInt, pyInt_two]
  · simp only [ha, if_false] at hc ⊢
    subst hc
    simp [splitOn_append '/' name _ h.name_slash, splitOn_single '/' _ hclk, pyInt_showInt]

/-- Well-formed feedback: the type has no space; the parameter is absent or non-empty. -/
structure WFFeedback (f : Feedback) : Prop where
  typ : ' ' ∉ f.typ
  par : ∀ p, f.parameter = some p → p ≠ []

/-- `a=rtcp-fb:<pt> <type>[ <parameter>]`: `value.split(" ", 2)` recovers the three parts. -/
theorem rtcpfb_roundtrip (pt : Int) (f : Feedback) (h : WFFeedback f) :
    splitFb (fbValue pt f) = (showInt pt, some (f.typ, f.parameter)) := by
  obtain ⟨ty, par⟩ := f
  have h1 := h.typ; have h2 := h.par
  simp only at h1 h2
  cases par with
  | none => simp [splitFb, fbValue, split1_showInt_space, split1_none ' ' ty h1]
  | some p =>
    have : p.isEmpty = false := by cases p <;> simp at h2 ⊢
    simp [splitFb, fbValue, split1_showInt_space, this, split1_append ' ' ty p h1]

/-- `parse_attr("a=" + name + ":" + value)`. -/
theorem parseAttr_value (name value : Str) (h : ':' ∉ name) :
    parseAttr ('a' :: '=' :: (name ++ ':' :: value)) = (name, some value) := by
  simp [parseAttr, split1_append ':' name value h]

theorem parseAttr_flag (name : Str) (h : ':' ∉ name) : parseAttr ('a' :: '=' :: name) = (name, none) := by
  simp [parseAttr, h]

/-- L3 tie for the clause about candidates: the line `MediaDescription.__str__` prints for a well-formed
candidate, fed to the media-level line parser, appends exactly that candidate. -/
theorem candidate_line_in_media (m : Media) (c : Candidate) (h : WFCand c) :
    mediaLine m (lit "a=candidate:" ++ candidateToSdp c) = .ok { m with candidates := m.candidates ++ [c] } := by
  have hp : parseAttr (lit "a=candidate:" ++ candidateToSdp c) = (lit "candidate", some (candidateToSdp c)) :=
    parseAttr_value (lit "candidate") _ (by decide)
  unfold mediaLine
  have h1 : startsWith (lit "c=") (lit "a=candidate:" ++ candidateToSdp c) = false := by
    simp [startsWith, lit, List.isPrefixOf]
  have h2 : startsWith (lit "a=") (lit "a=candidate:" ++ candidateToSdp c) = true := by
    simp [startsWith, lit, List.isPrefixOf]
  simp only [h1, h2, hp, if_true, Bool.false_eq_true, if_false, mediaAttr, candidate_roundtrip c h]
  rfl


/-! ### regenerated tables used above -/

theorem fmtp_int_const : fmtpIntParams =
    ["apt", "max-fr", "max-fs", "maxplaybackrate", "minptime", "stereo", "useinbandfec"].map String.toList := by decide

theorem directions_const : directions = ["inactive", "sendonly", "recvonly", "sendrecv"].map String.toList := by decide

theorem forbidden_pt_const : (Gen.FORBIDDEN_PT_LO, Gen.FORBIDDEN_PT_HI) = (72, 77) := by decide

theorem ssrc_attrs_const : ssrcInfoAttrs = ["cname", "msid", "mslabel", "label"].map String.toList := by decide


end Aiortc.Lemmas.C09
