import Aiortc.Lemmas.SdpAttr
/-! C09 lemmas, layer L3: every line `MediaDescription.__str__` prints, fed back to the media-level line
parser of `SessionDescription.parse` (first pass, DTLS fix-up, second pass), block by block, up to the
structured round trip of a whole media section (`media_roundtrip`). -/
namespace Aiortc.Lemmas.C09
open Aiortc Aiortc.Model.Sdp
/-! ## L3, stage A: every line `MediaDescription.__str__` prints, fed to the media-level line parser -/


/-! ## L3: whole media sections -/

@[simp] theorem ok_bind {α β} (a : α) (f : α → Outcome β) : (Outcome.ok a >>= f) = f a := rfl
@[simp] theorem pure_ok {α} (a : α) : (pure a : Outcome α) = .ok a := rfl

theorem mediaLine_attr (m : Media) (name value : Str) (hn : ':' ∉ name) :
    mediaLine m ('a' :: '=' :: (name ++ ':' :: value)) = mediaAttr m name (some value) := by
  simp [mediaLine, startsWith, lit, List.isPrefixOf, parseAttr_value name value hn]

theorem mediaLine_flag (m : Media) (name : Str) (hn : ':' ∉ name) :
    mediaLine m ('a' :: '=' :: name) = mediaAttr m name none := by
  simp [mediaLine, startsWith, lit, List.isPrefixOf, parseAttr_flag name hn]

theorem mediaLine2_attr (m : Media) (name value : Str) (hn : ':' ∉ name) :
    mediaLine2 m ('a' :: '=' :: (name ++ ':' :: value)) = mediaAttr2 m name (some value) := by
  simp [mediaLine2, startsWith, lit, List.isPrefixOf, parseAttr_value name value hn]

theorem mediaLine2_flag (m : Media) (name : Str) (hn : ':' ∉ name) :
    mediaLine2 m ('a' :: '=' :: name) = mediaAttr2 m name none := by
  simp [mediaLine2, startsWith, lit, List.isPrefixOf, parseAttr_flag name hn]

theorem mediaLine2_c (m : Media) (r : Str) : mediaLine2 m ('c' :: '=' :: r) = .ok m := by
  simp [mediaLine2, startsWith, lit, List.isPrefixOf]

/-- second pass ignores every attribute other than fmtp / rtcp-fb -/
theorem mediaAttr2_other (m : Media) (name : Str) (v : Option Str) (h1 : name ≠ lit "fmtp") (h2 : name ≠ lit "rtcp-fb") :
    mediaAttr2 m name v = .ok m := by
  simp [mediaAttr2, h1, h2]

theorem attr_extmap (m : Media) (h : HeaderExt) (hu : Tok h.uri) :
    mediaAttr m (lit "extmap") (some (extmapValue h)) = .ok { m with headerExtensions := m.headerExtensions ++ [h] } := by
  simp [mediaAttr, lit, extmap_roundtrip h hu]

theorem attr_mid (m : Media) (v : Str) : mediaAttr m (lit "mid") (some v) = .ok { m with muxId := some v } := by
  simp [mediaAttr, lit]

theorem attr_msid (m : Media) (v : Str) : mediaAttr m (lit "msid") (some v) = .ok { m with msid := some v } := by
  simp [mediaAttr, lit]

theorem dir_fmtp : ['f', 'm', 't', 'p'] ∉ directions := by decide
theorem dir_rtcpfb : ['r', 't', 'c', 'p', '-', 'f', 'b'] ∉ directions := by decide

theorem attr_fmtp_first (m : Media) (v : Option Str) : mediaAttr m (lit "fmtp") v = .ok m := by
  simp [mediaAttr, lit, dir_fmtp]

theorem attr_rtcpfb_first (m : Media) (v : Option Str) : mediaAttr m (lit "rtcp-fb") v = .ok m := by
  simp [mediaAttr, lit, dir_rtcpfb]



/-! ### folds over blocks of lines -/

theorem foldO_append {σ α} (f : σ → α → Outcome σ) (s s' : σ) (a b : List α) (h : foldO f s a = .ok s') :
    foldO f s (a ++ b) = foldO f s' b := by
  induction a generalizing s with
  | nil => simp [foldO] at h; subst h; rfl
  | cons x r ih =>
    simp only [List.cons_append, foldO] at h ⊢
    cases hx : f s x with
    | ok s1 => rw [hx] at h; exact ih s1 h
    | valueError => rw [hx] at h; simp at h
    | crash k => rw [hx] at h; simp at h
    | hang => rw [hx] at h; simp at h

theorem foldO_map {σ α β} (f : σ → α → Outcome σ) (g : β → α) (upd : σ → β → σ) (xs : List β)
    (h : ∀ s x, x ∈ xs → f s (g x) = .ok (upd s x)) (s : σ) :
    foldO f s (xs.map g) = .ok (xs.foldl upd s) := by
  induction xs generalizing s with
  | nil => rfl
  | cons x r ih =>
    simp only [List.map_cons, foldO, h s x (by simp), List.foldl_cons]
    exact ih (fun s y hy => h s y (by simp [hy])) _

theorem foldO_single {σ α} (f : σ → α → Outcome σ) (s s' : σ) (x : α) (h : f s x = .ok s') :
    foldO f s [x] = .ok s' := by simp [foldO, h]



theorem intOf_showInt (i : Int) : intOf (showInt i) = .ok i := by simp [intOf, pyInt_showInt]

/-- `c=` line of a media section. -/
theorem line_host (m : Media) (h : Str) (hne : h ≠ []) (hsp : ' ' ∉ h) :
    mediaLine m (lit "c=" ++ ipaddressToSdp h) = .ok { m with host := some h } := by
  have : (lit "c=" ++ ipaddressToSdp h).drop 2 = ipaddressToSdp h := by simp [lit]
  simp [mediaLine, startsWith, lit, List.isPrefixOf, ipaddress_roundtrip h hne hsp]

theorem line_direction (m : Media) (d : Str) (hd : d ∈ directions) :
    mediaLine m (lit "a=" ++ d) = .ok { m with direction := some d } := by
  rw [directions_const] at hd
  simp only [List.map_cons, List.map_nil, List.mem_cons, List.not_mem_nil, or_false] at hd
  have hmem : ∀ x, x ∈ directions ↔ x ∈ ["inactive", "sendonly", "recvonly", "sendrecv"].map String.toList := by
    intro x; rw [directions_const]
  rcases hd with hd | hd | hd | hd <;> subst hd <;>
    (rw [show lit "a=" = ['a', '='] from rfl, List.cons_append, List.cons_append, List.nil_append,
        mediaLine_flag m _ (by decide)]
     simp [mediaAttr, lit, hmem])

theorem line_mid (m : Media) (v : Str) : mediaLine m (lit "a=mid:" ++ v) = .ok { m with muxId := some v } := by
  have := mediaLine_attr m (lit "mid") v (by decide)
  simp only [lit] at this ⊢
  simpa [mediaAttr, lit] using this

theorem line_msid (m : Media) (v : Str) : mediaLine m (lit "a=msid:" ++ v) = .ok { m with msid := some v } := by
  have := mediaLine_attr m (lit "msid") v (by decide)
  simp only [lit] at this ⊢
  simpa [mediaAttr, lit] using this

theorem line_extmap (m : Media) (h : HeaderExt) (hu : Tok h.uri) :
    mediaLine m (lit "a=extmap:" ++ extmapValue h) = .ok { m with headerExtensions := m.headerExtensions ++ [h] } := by
  have := mediaLine_attr m (lit "extmap") (extmapValue h) (by decide)
  simp only [lit] at this ⊢
  simpa [mediaAttr, lit, extmap_roundtrip h hu] using this



theorem line_rtcp (m : Media) (p : Int) :
    mediaLine m (lit "a=rtcp:" ++ showInt p) = .ok { m with rtcpPort := some p } := by
  have := mediaLine_attr m (lit "rtcp") (showInt p) (by decide)
  simp only [lit] at this ⊢
  simpa [mediaAttr, lit, split1_none ' ' _ (showInt_no p ' ' (by decide) (by decide)), intOf_showInt] using this

theorem line_rtcp_host (m : Media) (p : Int) (h : Str) (hne : h ≠ []) (hsp : ' ' ∉ h) :
    mediaLine m (lit "a=rtcp:" ++ showInt p ++ ' ' :: ipaddressToSdp h) =
      .ok { m with rtcpPort := some p, rtcpHost := some h } := by
  have := mediaLine_attr m (lit "rtcp") (showInt p ++ ' ' :: ipaddressToSdp h) (by decide)
  simp only [lit, List.append_assoc] at this ⊢
  simpa [mediaAttr, lit, split1_showInt_space, intOf_showInt, ipaddress_roundtrip h hne hsp] using this

theorem line_rtcp_mux (m : Media) : mediaLine m (lit "a=rtcp-mux") = .ok { m with rtcpMux := true } := by
  have := mediaLine_flag m (lit "rtcp-mux") (by decide)
  simp only [lit] at this ⊢
  simpa [mediaAttr, lit] using this

theorem line_eoc (m : Media) : mediaLine m (lit "a=end-of-candidates") = .ok { m with candidatesComplete := true } := by
  have := mediaLine_flag m (lit "end-of-candidates") (by decide)
  simp only [lit] at this ⊢
  simpa [mediaAttr, lit] using this

theorem line_ssrc_group (m : Media) (g : Group Int) (hs : Tok g.semantic) :
    mediaLine m (lit "a=ssrc-group:" ++ groupToStr showInt g) = .ok { m with ssrcGroup := m.ssrcGroup ++ [g] } := by
  have := mediaLine_attr m (lit "ssrc-group") (groupToStr showInt g) (by decide)
  simp only [lit] at this ⊢
  simpa [mediaAttr, lit, ssrc_group_roundtrip m.ssrcGroup g hs, directions_const] using this

theorem line_sctpmap (m : Media) (k : Int) (v : Str) :
    mediaLine m (lit "a=sctpmap:" ++ showInt k ++ ' ' :: v) = .ok { m with sctpmap := dictSet m.sctpmap k v } := by
  have := mediaLine_attr m (lit "sctpmap") (showInt k ++ ' ' :: v) (by decide)
  simp only [lit, List.append_assoc] at this ⊢
  simpa [mediaAttr, lit, sctpmap_roundtrip, directions_const] using this

theorem line_sctp_port (m : Media) (p : Int) :
    mediaLine m (lit "a=sctp-port:" ++ showInt p) = .ok { m with sctpPort := some p } := by
  have := mediaLine_attr m (lit "sctp-port") (showInt p) (by decide)
  simp only [lit] at this ⊢
  simpa [mediaAttr, lit, intOfOpt, intOf_showInt, directions_const] using this

theorem line_mms (m : Media) (p : Int) :
    mediaLine m (lit "a=max-message-size:" ++ showInt p) = .ok { m with maxMessageSize := some p } := by
  have := mediaLine_attr m (lit "max-message-size") (showInt p) (by decide)
  simp only [lit] at this ⊢
  simpa [mediaAttr, lit, intOfOpt, intOf_showInt] using this

theorem line_ufrag (m : Media) (v : Str) :
    mediaLine m (lit "a=ice-ufrag:" ++ v) = .ok { m with ice := { m.ice with usernameFragment := some v } } := by
  have := mediaLine_attr m (lit "ice-ufrag") v (by decide)
  simp only [lit] at this ⊢
  simpa [mediaAttr, lit] using this

theorem line_pwd (m : Media) (v : Str) :
    mediaLine m (lit "a=ice-pwd:" ++ v) = .ok { m with ice := { m.ice with password := some v } } := by
  have := mediaLine_attr m (lit "ice-pwd") v (by decide)
  simp only [lit] at this ⊢
  simpa [mediaAttr, lit] using this

theorem line_ice_options (m : Media) (v : Str) :
    mediaLine m (lit "a=ice-options:" ++ v) = .ok { m with iceOptions := some v } := by
  have := mediaLine_attr m (lit "ice-options") v (by decide)
  simp only [lit] at this ⊢
  simpa [mediaAttr, lit] using this

theorem line_fingerprint (m : Media) (f : Fingerprint) (ha : Tok f.algorithm) (hv : Tok f.value) :
    mediaLine m (lit "a=fingerprint:" ++ fingerprintValue f) =
      .ok (m.updDtls fun d => { d with fingerprints := d.fingerprints ++ [f] }) := by
  have := mediaLine_attr m (lit "fingerprint") (fingerprintValue f) (by decide)
  simp only [lit] at this ⊢
  simpa [mediaAttr, lit, fingerprint_roundtrip f ha hv] using this

theorem line_setup (m : Media) (role su : Str) (h : parseSetup (some su) = .ok role) :
    mediaLine m (lit "a=setup:" ++ su) = .ok (m.updDtls fun d => { d with role := some role }) := by
  have := mediaLine_attr m (lit "setup") su (by decide)
  simp only [lit] at this ⊢
  simpa [mediaAttr, lit, h] using this

theorem line_candidate (m : Media) (c : Candidate) (h : WFCand c) :
    mediaLine m (lit "a=candidate:" ++ candidateToSdp c) = .ok { m with candidates := m.candidates ++ [c] } :=
  candidate_line_in_media m c h

theorem line_rtpmap (m : Media) (name : Str) (c : Codec) (h : WFCodec m.kind name c) (s : Str) (hs : codecStr c = .ok s) :
    mediaLine m (lit "a=rtpmap:" ++ showInt c.payloadType ++ ' ' :: s) =
      .ok (if m.codecs.all (·.payloadType != c.payloadType) then { m with codecs := m.codecs ++ [c] } else m) := by
  obtain ⟨s', hs', hp⟩ := rtpmap_roundtrip m.kind name c h
  rw [hs] at hs'; cases hs'
  have := mediaLine_attr m (lit "rtpmap") (showInt c.payloadType ++ ' ' :: s) (by decide)
  simp only [lit, List.append_assoc] at this ⊢
  simpa [mediaAttr, lit, hp, directions_const] using this



/-! ## L3, stage B: blocks of lines (ssrc, codecs: first and second pass) -/

theorem line_ssrc (m : Media) (id : Int) (attr v : Str) (h : ':' ∉ attr) :
    mediaLine m (lit "a=ssrc:" ++ (showInt id ++ ' ' :: (attr ++ ':' :: v))) =
      .ok { m with ssrc := ssrcUpdate m.ssrc id attr v } := by
  have := mediaLine_attr m (lit "ssrc") (showInt id ++ ' ' :: (attr ++ ':' :: v)) (by decide)
  simp only [lit] at this ⊢
  simpa [mediaAttr, lit, ssrc_line_roundtrip id attr v h, directions_const] using this

theorem ssrcUpdate_new (acc : List Ssrc) (id : Int) (a v : Str) (h : id ∉ acc.map (·.ssrc)) :
    ssrcUpdate acc id a v = acc ++ [({ ssrc := id } : Ssrc).set a v] := by
  induction acc with
  | nil => rfl
  | cons s r ih =>
    simp only [List.map_cons, List.mem_cons, not_or] at h
    have : ¬ s.ssrc = id := fun e => h.1 e.symm
    simp [ssrcUpdate, this, ih h.2]

theorem ssrcUpdate_last (acc : List Ssrc) (s' : Ssrc) (a v : Str) (h : s'.ssrc ∉ acc.map (·.ssrc)) :
    ssrcUpdate (acc ++ [s']) s'.ssrc a v = acc ++ [s'.set a v] := by
  induction acc with
  | nil => simp [ssrcUpdate]
  | cons s r ih =>
    simp only [List.map_cons, List.mem_cons, not_or] at h
    have : ¬ s.ssrc = s'.ssrc := fun e => h.1 e.symm
    simp [ssrcUpdate, this, ih h.2]

theorem set_ssrc (s : Ssrc) (a v : Str) : (s.set a v).ssrc = s.ssrc := by
  unfold Ssrc.set; repeat (split <;> try rfl)

/-- Lines of a list of (attribute, value) pairs for one ssrc id. -/
def ssrcPairLines (id : Int) (ps : List (Str × Str)) : List Str :=
  ps.map fun p => lit "a=ssrc:" ++ (showInt id ++ ' ' :: (p.1 ++ ':' :: p.2))

theorem ssrc_pairs_cont (m : Media) (acc : List Ssrc) (s' : Ssrc) (ps : List (Str × Str))
    (hm : m.ssrc = acc ++ [s']) (hid : s'.ssrc ∉ acc.map (·.ssrc)) (hc : ∀ p ∈ ps, ':' ∉ p.1) :
    foldO mediaLine m (ssrcPairLines s'.ssrc ps) =
      .ok { m with ssrc := acc ++ [ps.foldl (fun s p => s.set p.1 p.2) s'] } := by
  induction ps generalizing m s' with
  | nil => simp [ssrcPairLines, foldO, ← hm]
  | cons p r ih =>
    simp only [ssrcPairLines, List.map_cons, foldO, line_ssrc m _ _ _ (hc p (by simp)), hm,
      ssrcUpdate_last acc s' _ _ hid, List.foldl_cons]
    have := ih { m with ssrc := acc ++ [s'.set p.1 p.2] } (s'.set p.1 p.2) rfl (by rw [set_ssrc]; exact hid)
      (fun q hq => hc q (by simp [hq]))
    rw [set_ssrc] at this
    simpa [ssrcPairLines] using this

theorem ssrc_pairs_new (m : Media) (id : Int) (p : Str × Str) (ps : List (Str × Str))
    (hid : id ∉ m.ssrc.map (·.ssrc)) (hc : ∀ q ∈ p :: ps, ':' ∉ q.1) :
    foldO mediaLine m (ssrcPairLines id (p :: ps)) =
      .ok { m with ssrc := m.ssrc ++ [(p :: ps).foldl (fun s p => s.set p.1 p.2) ({ ssrc := id } : Ssrc)] } := by
  simp only [ssrcPairLines, List.map_cons, foldO, line_ssrc m _ _ _ (hc p (by simp)), ssrcUpdate_new _ _ _ _ hid,
    List.foldl_cons]
  have := ssrc_pairs_cont { m with ssrc := m.ssrc ++ [({ ssrc := id } : Ssrc).set p.1 p.2] } m.ssrc
    (({ ssrc := id } : Ssrc).set p.1 p.2) ps rfl (by rw [set_ssrc]; exact hid) (fun q hq => hc q (by simp [hq]))
  rw [set_ssrc] at this
  simpa [ssrcPairLines] using this



/-- Well-formed `SsrcDescription`: at least one of cname/msid/mslabel/label is present
(an ssrc without any known attribute prints no line at all). -/
def WFSsrc (s : Ssrc) : Prop := s.cname ≠ none ∨ s.msid ≠ none ∨ s.mslabel ≠ none ∨ s.label ≠ none

def ssrcPairs (s : Ssrc) : List (Str × Str) :=
  ssrcInfoAttrs.filterMap fun a => (s.get a).map fun v => (a, v)

theorem ssrcValues_pairs (s : Ssrc) :
    (ssrcValues s).map (lit "a=ssrc:" ++ ·) = ssrcPairLines s.ssrc (ssrcPairs s) := by
  unfold ssrcValues ssrcPairs ssrcPairLines
  generalize ssrcInfoAttrs = l
  induction l with
  | nil => rfl
  | cons a r ih =>
    simp only [List.filterMap_cons]
    cases s.get a <;> simp [← ih]

theorem ssrcPairs_colon (s : Ssrc) : ∀ q ∈ ssrcPairs s, ':' ∉ q.1 := by
  intro q hq
  simp only [ssrcPairs, List.mem_filterMap, Option.map_eq_some_iff] at hq
  obtain ⟨a, ha, v, _, rfl⟩ := hq
  have : ∀ a ∈ ssrcInfoAttrs, ':' ∉ a := by decide
  exact this a ha

theorem set_cname (s : Ssrc) (v : Str) : s.set ['c','n','a','m','e'] v = { s with cname := some v } := by
  have h : ['c','n','a','m','e'] ∈ ssrcInfoAttrs := by decide
  simp [Ssrc.set, h]
theorem set_msid (s : Ssrc) (v : Str) : s.set ['m','s','i','d'] v = { s with msid := some v } := by
  have h : ['m','s','i','d'] ∈ ssrcInfoAttrs := by decide
  simp [Ssrc.set, h]
theorem set_mslabel (s : Ssrc) (v : Str) : s.set ['m','s','l','a','b','e','l'] v = { s with mslabel := some v } := by
  have h : ['m','s','l','a','b','e','l'] ∈ ssrcInfoAttrs := by decide
  simp [Ssrc.set, h]
theorem set_label (s : Ssrc) (v : Str) : s.set ['l','a','b','e','l'] v = { s with label := some v } := by
  have h : ['l','a','b','e','l'] ∈ ssrcInfoAttrs := by decide
  simp [Ssrc.set, h]

theorem ssrc_attrs_chars : ssrcInfoAttrs =
    [['c','n','a','m','e'], ['m','s','i','d'], ['m','s','l','a','b','e','l'], ['l','a','b','e','l']] := by decide

theorem ssrcPairs_fold (s : Ssrc) :
    (ssrcPairs s).foldl (fun s p => s.set p.1 p.2) ({ ssrc := s.ssrc } : Ssrc) = s := by
  obtain ⟨id, cn, ms, ml, lb⟩ := s
  simp only [ssrcPairs, ssrc_attrs_chars, List.filterMap, Ssrc.get]
  cases cn <;> cases ms <;> cases ml <;> cases lb <;>
    simp [set_cname, set_msid, set_mslabel, set_label]

theorem ssrc_block (m : Media) (s : Ssrc) (hw : WFSsrc s) (hid : s.ssrc ∉ m.ssrc.map (·.ssrc)) :
    foldO mediaLine m ((ssrcValues s).map (lit "a=ssrc:" ++ ·)) = .ok { m with ssrc := m.ssrc ++ [s] } := by
  rw [ssrcValues_pairs]
  have hf := ssrcPairs_fold s
  have hc := ssrcPairs_colon s
  cases hp : ssrcPairs s with
  | nil =>
    exfalso
    obtain ⟨id, cn, ms, ml, lb⟩ := s
    simp only [ssrcPairs, ssrc_attrs_chars, List.filterMap, Ssrc.get] at hp
    cases cn <;> cases ms <;> cases ml <;> cases lb <;> simp [WFSsrc] at hp hw
  | cons p ps =>
    rw [hp] at hf hc
    rw [ssrc_pairs_new m s.ssrc p ps hid hc, hf]

theorem showInt_inj (a b : Int) (h : showInt a = showInt b) : a = b := by
  have := pyInt_showInt a
  rw [h, pyInt_showInt] at this
  exact (Option.some.inj this).symm

theorem showInt_ne_star (a : Int) : showInt a ≠ ['*'] := by
  intro h
  have := showInt_no a '*' (by decide) (by decide)
  rw [h] at this; simp at this

def pts (cs : List Codec) : List Int := cs.map (·.payloadType)

theorem addFeedback_other (pt : Int) (ty : Str) (par : Option Str) (cs : List Codec) (h : pt ∉ pts cs) :
    addFeedback (showInt pt, some (ty, par)) cs = .ok cs := by
  induction cs with
  | nil => rfl
  | cons c r ih =>
    simp only [pts, List.map_cons, List.mem_cons, not_or] at h
    have h1 : ¬ showInt pt = showInt c.payloadType := fun e => h.1 (showInt_inj _ _ e)
    simp [addFeedback, showInt_ne_star, h1, ih h.2]

theorem addFeedback_at (pt : Int) (ty : Str) (par : Option Str) (pre post : List Codec) (c0 : Codec)
    (hc : c0.payloadType = pt) (h1 : pt ∉ pts pre) (h2 : pt ∉ pts post) :
    addFeedback (showInt pt, some (ty, par)) (pre ++ c0 :: post) =
      .ok (pre ++ { c0 with rtcpFeedback := c0.rtcpFeedback ++ [⟨ty, par⟩] } :: post) := by
  induction pre with
  | nil => simp [addFeedback, hc, addFeedback_other pt ty par post h2]
  | cons c r ih =>
    simp only [pts, List.map_cons, List.mem_cons, not_or] at h1
    have h3 : ¬ showInt pt = showInt c.payloadType := fun e => h1.1 (showInt_inj _ _ e)
    simp [addFeedback, showInt_ne_star, h3, ih h1.2]

theorem setParams_at (pt : Int) (p : Params) (pre post : List Codec) (c0 : Codec)
    (hc : c0.payloadType = pt) (h1 : pt ∉ pts pre) :
    setParams (pre ++ c0 :: post) pt p = some (pre ++ { c0 with parameters := p } :: post) := by
  induction pre with
  | nil => simp [setParams, hc]
  | cons c r ih =>
    simp only [pts, List.map_cons, List.mem_cons, not_or] at h1
    have h3 : ¬ c.payloadType = pt := fun e => h1.1 e.symm
    simp [setParams, h3, ih h1.2]

theorem find_at (pt : Int) (pre post : List Codec) (c0 : Codec) (hc : c0.payloadType = pt) :
    ∃ c, (pre ++ c0 :: post).find? (·.payloadType = pt) = some c := by
  cases h : (pre ++ c0 :: post).find? (·.payloadType = pt) with
  | some c => exact ⟨c, rfl⟩
  | none =>
    rw [List.find?_eq_none] at h
    have := h c0 (by simp)
    simp [hc] at this

theorem line2_fb (m : Media) (pt : Int) (f : Feedback) (hf : WFFeedback f) (pre post : List Codec) (c0 : Codec)
    (hm : m.codecs = pre ++ c0 :: post) (hc : c0.payloadType = pt) (h1 : pt ∉ pts pre) (h2 : pt ∉ pts post) :
    mediaLine2 m (lit "a=rtcp-fb:" ++ fbValue pt f) =
      .ok { m with codecs := pre ++ { c0 with rtcpFeedback := c0.rtcpFeedback ++ [f] } :: post } := by
  have := mediaLine2_attr m (lit "rtcp-fb") (fbValue pt f) (by decide)
  simp only [lit] at this ⊢
  simpa [mediaAttr2, lit, rtcpfb_roundtrip pt f hf, hm, addFeedback_at pt f.typ f.parameter pre post c0 hc h1 h2] using this

theorem line2_fmtp (m : Media) (pt : Int) (p : Params) (hp : WFParams p) (pre post : List Codec) (c0 : Codec)
    (hm : m.codecs = pre ++ c0 :: post) (hc : c0.payloadType = pt) (h1 : pt ∉ pts pre) :
    mediaLine2 m (lit "a=fmtp:" ++ showInt pt ++ ' ' :: parametersToSdp p) =
      .ok { m with codecs := pre ++ { c0 with parameters := p } :: post } := by
  have := mediaLine2_attr m (lit "fmtp") (showInt pt ++ ' ' :: parametersToSdp p) (by decide)
  obtain ⟨c, hfind⟩ := find_at pt pre post c0 hc
  simp only [List.find?_append] at hfind
  simp only [lit, List.append_assoc] at this ⊢
  simpa [mediaAttr2, lit, split1_showInt_space, intOf_showInt, hm, hfind, params_roundtrip p hp,
    setParams_at pt p pre post c0 hc h1] using this


/-- A codec without its feedback and parameters: what the first pass (rtpmap) builds. -/
def strip (c : Codec) : Codec := { c with rtcpFeedback := [], parameters := [] }

/-- Well-formed codec of a media section of kind `kind`, with feedback and parameters. -/
structure WFCodecFull (kind : Str) (c : Codec) : Prop where
  base : ∃ name, WFCodec kind name (strip c)
  fb : ∀ f ∈ c.rtcpFeedback, WFFeedback f
  params : c.parameters = [] ∨ (WFParams c.parameters ∧ parametersToSdp c.parameters ≠ [])

/-- The lines `MediaDescription.__str__` prints for one codec, given its `str(codec)`. -/
def codecLinesP (c : Codec) (s : Str) : List Str :=
  [lit "a=rtpmap:" ++ showInt c.payloadType ++ ' ' :: s] ++
  c.rtcpFeedback.map (fun f => lit "a=rtcp-fb:" ++ fbValue c.payloadType f) ++
  (if (parametersToSdp c.parameters).isEmpty then [] else [lit "a=fmtp:" ++ showInt c.payloadType ++ ' ' :: parametersToSdp c.parameters])

theorem codecLines_eq (c : Codec) (s : Str) (h : codecStr c = .ok s) : codecLines c = .ok (codecLinesP c s) := by
  simp [codecLines, h, codecLinesP]

theorem codecStr_strip (c : Codec) : codecStr (strip c) = codecStr c := rfl

theorem foldO_ignore {σ α} (f : σ → α → Outcome σ) (xs : List α) (s : σ) (h : ∀ x ∈ xs, ∀ s, f s x = .ok s) :
    foldO f s xs = .ok s := by
  induction xs with
  | nil => rfl
  | cons x r ih => simp [foldO, h x (by simp) s, ih (fun y hy => h y (by simp [hy]))]

theorem line_fb_first (m : Media) (v : Str) : mediaLine m (lit "a=rtcp-fb:" ++ v) = .ok m := by
  have := mediaLine_attr m (lit "rtcp-fb") v (by decide)
  rw [attr_rtcpfb_first] at this
  simpa [lit] using this

theorem line_fmtp_first (m : Media) (v : Str) : mediaLine m (lit "a=fmtp:" ++ v) = .ok m := by
  have := mediaLine_attr m (lit "fmtp") v (by decide)
  rw [attr_fmtp_first] at this
  simpa [lit] using this

theorem all_ne_of_not_mem (cs : List Codec) (pt : Int) (h : pt ∉ pts cs) :
    cs.all (fun x => x.payloadType != pt) = true := by
  simp only [List.all_eq_true, bne_iff_ne, ne_eq]
  intro x hx e
  exact h (by simp only [pts, List.mem_map]; exact ⟨x, hx, e⟩)

/-- First pass over the lines of one codec: the rtpmap line appends the bare codec, the rest is skipped. -/
theorem codec_block1 (m : Media) (c : Codec) (s : Str) (hw : WFCodecFull m.kind c) (hs : codecStr c = .ok s)
    (hpt : c.payloadType ∉ pts m.codecs) :
    foldO mediaLine m (codecLinesP c s) = .ok { m with codecs := m.codecs ++ [strip c] } := by
  obtain ⟨name, hb⟩ := hw.base
  have h1 := line_rtpmap m name (strip c) hb s hs
  simp only [show (strip c).payloadType = c.payloadType from rfl, all_ne_of_not_mem _ _ hpt, if_true] at h1
  unfold codecLinesP
  rw [List.append_assoc, foldO_append _ _ _ _ _ (foldO_single _ _ _ _ h1)]
  rw [foldO_append _ _ _ _ _ (foldO_ignore _ _ _ (by
    intro x hx s'; simp only [List.mem_map] at hx; obtain ⟨f, _, rfl⟩ := hx; exact line_fb_first s' _))]
  split
  · rfl
  · have := line_fmtp_first { m with codecs := m.codecs ++ [strip c] } (showInt c.payloadType ++ ' ' :: parametersToSdp c.parameters)
    simp only [List.append_assoc] at this ⊢
    simp [foldO, this]


theorem line2_rtpmap (m : Media) (v : Str) : mediaLine2 m (lit "a=rtpmap:" ++ v) = .ok m := by
  have := mediaLine2_attr m (lit "rtpmap") v (by decide)
  rw [mediaAttr2_other m _ _ (by decide) (by decide)] at this
  simpa [lit] using this

theorem fb_fold (pt : Int) (pre post : List Codec) (todo : List Feedback) (hf : ∀ f ∈ todo, WFFeedback f)
    (h1 : pt ∉ pts pre) (h2 : pt ∉ pts post) (m : Media) (c0 : Codec)
    (hm : m.codecs = pre ++ c0 :: post) (hc : c0.payloadType = pt) :
    foldO mediaLine2 m (todo.map (fun f => lit "a=rtcp-fb:" ++ fbValue pt f)) =
      .ok { m with codecs := pre ++ { c0 with rtcpFeedback := c0.rtcpFeedback ++ todo } :: post } := by
  induction todo generalizing m c0 with
  | nil => simp [foldO, ← hm]
  | cons f r ih =>
    simp only [List.map_cons, foldO, line2_fb m pt f (hf f (by simp)) pre post c0 hm hc h1 h2]
    have := ih (fun g hg => hf g (by simp [hg])) { m with codecs := pre ++ { c0 with rtcpFeedback := c0.rtcpFeedback ++ [f] } :: post }
      { c0 with rtcpFeedback := c0.rtcpFeedback ++ [f] } rfl hc
    simpa using this

/-- Second pass over the lines of one codec: feedback and parameters are attached to exactly that codec. -/
theorem codec_block2 (m : Media) (kind : Str) (c : Codec) (s : Str) (hw : WFCodecFull kind c) (pre post : List Codec)
    (hm : m.codecs = pre ++ strip c :: post) (h1 : c.payloadType ∉ pts pre) (h2 : c.payloadType ∉ pts post) :
    foldO mediaLine2 m (codecLinesP c s) = .ok { m with codecs := pre ++ c :: post } := by
  unfold codecLinesP
  have hr := line2_rtpmap m (showInt c.payloadType ++ ' ' :: s)
  simp only [← List.append_assoc] at hr
  rw [List.append_assoc, foldO_append _ _ _ _ _ (foldO_single _ _ _ _ hr)]
  have hfb := fb_fold c.payloadType pre post c.rtcpFeedback hw.fb h1 h2 m (strip c) hm rfl
  rw [foldO_append _ _ _ _ _ hfb]
  obtain ⟨mime, clock, ch, pt, fb, params⟩ := c
  rcases hw.params with hp | ⟨hp, hne⟩
  · simp only at hp; subst hp
    simp [parametersToSdp, join, foldO, strip]
  · simp only at hp hne
    have hne' : (parametersToSdp params).isEmpty = false := by
      cases h : parametersToSdp params <;> simp_all
    simp only [hne', Bool.false_eq_true, if_false]
    have := line2_fmtp { m with codecs := pre ++ { strip ⟨mime, clock, ch, pt, fb, params⟩ with rtcpFeedback := [] ++ fb } :: post }
      pt params hp pre post { strip ⟨mime, clock, ch, pt, fb, params⟩ with rtcpFeedback := [] ++ fb } rfl rfl h1
    simp only [List.append_assoc] at this
    simp [foldO, strip] at this ⊢
    simp [this]

theorem pts_strip (cs : List Codec) : pts (cs.map strip) = pts cs := by
  simp [pts, strip]

/-- All codec lines, first pass. -/
theorem codecs_pass1 (kind : Str) (cs : List Codec) (ss : List Str) (m : Media) (hk : m.kind = kind)
    (hw : ∀ c ∈ cs, WFCodecFull kind c) (hs : cs.map codecStr = ss.map .ok)
    (hnd : (pts m.codecs ++ pts cs).Nodup) :
    foldO mediaLine m ((cs.zip ss).flatMap fun p => codecLinesP p.1 p.2) =
      .ok { m with codecs := m.codecs ++ cs.map strip } := by
  induction cs generalizing ss m with
  | nil => simp [foldO]
  | cons c r ih =>
    cases ss with
    | nil => simp at hs
    | cons s ss' =>
      simp only [List.map_cons, List.cons.injEq] at hs
      simp only [List.zip_cons_cons, List.flatMap_cons]
      have hpt : c.payloadType ∉ pts m.codecs := by
        intro hmem
        have := (List.nodup_append.mp hnd).2.2 _ hmem c.payloadType (by simp [pts])
        exact this rfl
      rw [foldO_append _ _ _ _ _ (codec_block1 m c s (hk ▸ hw c (by simp)) hs.1 hpt)]
      have := ih ss' { m with codecs := m.codecs ++ [strip c] } hk (fun x hx => hw x (by simp [hx])) hs.2
        (by simpa [pts, strip, List.append_assoc] using hnd)
      simpa using this


/-- All codec lines, second pass. -/
theorem codecs_pass2 (kind : Str) (todo : List Codec) (ss : List Str) (done : List Codec) (m : Media)
    (hw : ∀ c ∈ todo, WFCodecFull kind c) (hlen : todo.length = ss.length)
    (hm : m.codecs = done ++ todo.map strip) (hnd : (pts done ++ pts todo).Nodup) :
    foldO mediaLine2 m ((todo.zip ss).flatMap fun p => codecLinesP p.1 p.2) =
      .ok { m with codecs := done ++ todo } := by
  induction todo generalizing ss done m with
  | nil =>
    simp only [List.map_nil, List.append_nil] at hm
    simp [foldO, ← hm]
  | cons c r ih =>
    cases ss with
    | nil => simp at hlen
    | cons s ss' =>
      simp only [List.zip_cons_cons, List.flatMap_cons]
      have hnd' := List.nodup_append.mp hnd
      have h1 : c.payloadType ∉ pts done := by
        intro hmem; exact hnd'.2.2 _ hmem c.payloadType (by simp [pts]) rfl
      have h2 : c.payloadType ∉ pts (r.map strip) := by
        rw [pts_strip]
        have := hnd'.2.1
        simp only [pts, List.map_cons, List.nodup_cons] at this
        exact this.1
      rw [foldO_append _ _ _ _ _ (codec_block2 m kind c s (hw c (by simp)) done (r.map strip)
        (by simpa using hm) h1 h2)]
      have := ih ss' (done ++ [c]) { m with codecs := done ++ c :: r.map strip } (fun x hx => hw x (by simp [hx]))
        (by simpa using hlen) (by simp) (by simpa [pts, List.append_assoc] using hnd)
      simpa using this



/-! ## L3, stage C: generic block folds -/

theorem foldO_opt {σ} (f : σ → Str → Outcome σ) (pre : Str) (upd : σ → Str → σ)
    (h : ∀ s v, f s (pre ++ v) = .ok (upd s v)) (s : σ) (o : Option Str) :
    foldO f s (optLine pre o) = .ok (match o with | some v => upd s v | none => s) := by
  cases o <;> simp [optLine, foldO, h]

theorem foldO_list {σ β} (f : σ → Str → Outcome σ) (g : β → Str) (upd : σ → β → σ) (xs : List β)
    (h : ∀ s x, x ∈ xs → f s (g x) = .ok (upd s x)) (s : σ) :
    foldO f s (xs.map g) = .ok (xs.foldl upd s) := foldO_map f g upd xs h s

theorem foldl_ext (hs : List HeaderExt) (m : Media) :
    hs.foldl (fun m h => { m with headerExtensions := m.headerExtensions ++ [h] }) m =
      { m with headerExtensions := m.headerExtensions ++ hs } := by
  induction hs generalizing m with
  | nil => simp
  | cons h r ih => simp [ih]

theorem foldl_ssrcGroup (gs : List (Group Int)) (m : Media) :
    gs.foldl (fun m g => { m with ssrcGroup := m.ssrcGroup ++ [g] }) m =
      { m with ssrcGroup := m.ssrcGroup ++ gs } := by
  induction gs generalizing m with
  | nil => simp
  | cons h r ih => simp [ih]

theorem foldl_cands (cs : List Candidate) (m : Media) :
    cs.foldl (fun m c => { m with candidates := m.candidates ++ [c] }) m =
      { m with candidates := m.candidates ++ cs } := by
  induction cs generalizing m with
  | nil => simp
  | cons h r ih => simp [ih]

theorem foldl_fps (fs : List Fingerprint) (m : Media) (d : Dtls) (hd : m.dtls = some d) :
    fs.foldl (fun m f => m.updDtls fun d => { d with fingerprints := d.fingerprints ++ [f] }) m =
      { m with dtls := some { d with fingerprints := d.fingerprints ++ fs } } := by
  induction fs generalizing m d with
  | nil => simp [← hd]
  | cons h r ih =>
    simp only [List.foldl_cons]
    rw [ih _ { d with fingerprints := d.fingerprints ++ [h] } (by simp [Media.updDtls, hd])]
    simp [Media.updDtls]

theorem dictSet_all_new {β} (kvs : List (Int × β)) (acc : List (Int × β))
    (h : ((acc ++ kvs).map Prod.fst).Nodup) :
    kvs.foldl (fun a kv => dictSet a kv.1 kv.2) acc = acc ++ kvs := by
  induction kvs generalizing acc with
  | nil => simp
  | cons kv r ih =>
    obtain ⟨k, v⟩ := kv
    have hk : k ∉ acc.map Prod.fst := by
      simp only [List.map_append, List.map_cons] at h
      intro hm; exact (List.nodup_append.mp h).2.2 k hm k (by simp) rfl
    have hset : dictSet acc k v = acc ++ [(k, v)] := by
      clear ih h
      induction acc with
      | nil => rfl
      | cons a r' ih' =>
        obtain ⟨k', v'⟩ := a
        simp only [List.map_cons, List.mem_cons, not_or] at hk
        have : ¬ k' = k := fun e => hk.1 e.symm
        simp [dictSet, this, ih' hk.2]
    simp only [List.foldl_cons, hset]
    rw [ih (acc ++ [(k, v)]) (by simpa using h)]
    simp

theorem foldl_sctpmap (kvs : List (Int × Str)) (m : Media) :
    kvs.foldl (fun m kv => { m with sctpmap := dictSet m.sctpmap kv.1 kv.2 }) m =
      { m with sctpmap := kvs.foldl (fun a kv => dictSet a kv.1 kv.2) m.sctpmap } := by
  induction kvs generalizing m with
  | nil => simp
  | cons h r ih => simp [ih]

theorem ssrcs_block (ss : List Ssrc) (m : Media) (hw : ∀ s ∈ ss, WFSsrc s)
    (hnd : (m.ssrc.map (·.ssrc) ++ ss.map (·.ssrc)).Nodup) :
    foldO mediaLine m (ss.flatMap fun s => (ssrcValues s).map (lit "a=ssrc:" ++ ·)) =
      .ok { m with ssrc := m.ssrc ++ ss } := by
  induction ss generalizing m with
  | nil => simp [foldO]
  | cons s r ih =>
    simp only [List.flatMap_cons]
    have hid : s.ssrc ∉ m.ssrc.map (·.ssrc) := by
      intro hm; exact (List.nodup_append.mp hnd).2.2 _ hm s.ssrc (by simp) rfl
    rw [foldO_append _ _ _ _ _ (ssrc_block m s (hw s (by simp)) hid)]
    have := ih { m with ssrc := m.ssrc ++ [s] } (fun x hx => hw x (by simp [hx])) (by simpa [List.append_assoc] using hnd)
    simpa using this



/-- A host as printed in `c=` / `a=rtcp:`: non-empty, without a space. -/
def HostOk (h : Str) : Prop := h ≠ [] ∧ ' ' ∉ h

/-- Well-formedness of everything in a media section except the "m=" line and the codecs. -/
structure WFBody (m : Media) : Prop where
  host : ∀ h, m.host = some h → HostOk h
  direction : ∀ d, m.direction = some d → d ∈ directions
  ext : ∀ h ∈ m.headerExtensions, Tok h.uri
  mid : ∃ s, m.muxId = some s
  msid : ∀ s, m.msid = some s → s ≠ []
  rtcp_none : m.rtcpPort = none → m.rtcpHost = none ∧ m.rtcpMux = false
  rtcp_host : ∀ h, m.rtcpHost = some h → HostOk h
  ssrcGroup : ∀ g ∈ m.ssrcGroup, Tok g.semantic
  ssrc : ∀ s ∈ m.ssrc, WFSsrc s
  ssrc_nodup : (m.ssrc.map (·.ssrc)).Nodup
  sctpmap_nodup : (m.sctpmap.map Prod.fst).Nodup
  cands : ∀ c ∈ m.candidates, WFCand c
  dtls : ∀ d, m.dtls = some d → (∀ f ∈ d.fingerprints, Tok f.algorithm ∧ Tok f.value) ∧
    ∃ role su, d.role = some role ∧ setupOfRole role = .ok su ∧ parseSetup (some su) = .ok role

/-- Lines printed before the codec lines. -/
def preLines (m : Media) : List Str :=
  hostLine (lit "c=") m.host ++
  optLine (lit "a=") m.direction ++
  m.headerExtensions.map (fun h => lit "a=extmap:" ++ extmapValue h) ++
  optLine (lit "a=mid:") (truthy m.muxId) ++
  optLine (lit "a=msid:") (truthy m.msid) ++
  rtcpLines m ++
  m.ssrcGroup.map (fun g => lit "a=ssrc-group:" ++ groupToStr showInt g) ++
  (m.ssrc.flatMap fun s => (ssrcValues s).map (lit "a=ssrc:" ++ ·))

/-- Lines printed after the codec lines, except the DTLS lines. -/
def postLines (m : Media) : List Str :=
  m.sctpmap.map (fun kv => lit "a=sctpmap:" ++ showInt kv.1 ++ ' ' :: kv.2) ++
  optLine (lit "a=sctp-port:") (m.sctpPort.map showInt) ++
  optLine (lit "a=max-message-size:") (m.maxMessageSize.map showInt) ++
  m.candidates.map (fun c => lit "a=candidate:" ++ candidateToSdp c) ++
  (if m.candidatesComplete then [lit "a=end-of-candidates"] else []) ++
  optLine (lit "a=ice-ufrag:") m.ice.usernameFragment ++
  optLine (lit "a=ice-pwd:") m.ice.password ++
  optLine (lit "a=ice-options:") m.iceOptions

theorem rtcp_block (s m : Media) (hw : WFBody m) (h1 : s.rtcpPort = none) (h2 : s.rtcpHost = none) (h3 : s.rtcpMux = false) :
    foldO mediaLine s (rtcpLines m) =
      .ok { s with rtcpPort := m.rtcpPort, rtcpHost := m.rtcpHost, rtcpMux := m.rtcpMux } := by
  obtain ⟨kind, port, profile, fmt, host, dir, msid, rp, rh, rm, ssrc, sg, he, mux, cod, mms, smap, sport, dtls, ice, cands, cc, io⟩ := s
  simp only at h1 h2 h3
  subst h1 h2 h3
  unfold rtcpLines
  cases hp : m.rtcpPort with
  | none =>
    obtain ⟨a, b⟩ := hw.rtcp_none hp
    simp [foldO, a, b]
  | some p =>
    cases hh : m.rtcpHost with
    | none =>
      simp only [List.append_nil]
      cases hmux : m.rtcpMux <;> simp [foldO, line_rtcp, line_rtcp_mux]
    | some h =>
      obtain ⟨hne, hsp⟩ := hw.rtcp_host h hh
      have := fun s => line_rtcp_host s p h hne hsp
      simp only [List.append_assoc] at this
      cases hmux : m.rtcpMux <;> simp [foldO, this, line_rtcp_mux]

theorem host_block (s : Media) (o : Option Str) (hw : ∀ h, o = some h → HostOk h) (hs : s.host = none) :
    foldO mediaLine s (hostLine (lit "c=") o) = .ok { s with host := o } := by
  cases o with
  | none => simp [hostLine, foldO, ← hs]
  | some h =>
    obtain ⟨a, b⟩ := hw h rfl
    simp [hostLine, foldO, line_host s h a b]

theorem dir_block (s : Media) (o : Option Str) (hw : ∀ d, o = some d → d ∈ directions) (hs : s.direction = none) :
    foldO mediaLine s (optLine (lit "a=") o) = .ok { s with direction := o } := by
  cases o with
  | none => simp [optLine, foldO, ← hs]
  | some d => simp [optLine, foldO, line_direction s d (hw d rfl)]

theorem mid_block (s : Media) (mid : Str) (hs : s.muxId = some []) :
    foldO mediaLine s (optLine (lit "a=mid:") (truthy (some mid))) = .ok { s with muxId := some mid } := by
  cases mid with
  | nil => simp [truthy, optLine, foldO, ← hs]
  | cons c r => simp [truthy, optLine, foldO, line_mid]

theorem msid_block (s : Media) (o : Option Str) (hw : ∀ v, o = some v → v ≠ []) (hs : s.msid = none) :
    foldO mediaLine s (optLine (lit "a=msid:") (truthy o)) = .ok { s with msid := o } := by
  cases o with
  | none =>
    have : s = { s with msid := none } := by rw [← hs]
    simp [truthy, optLine, foldO]; exact this
  | some v =>
    have := hw v rfl
    cases v with
    | nil => exact absurd rfl this
    | cons c r => simp [truthy, optLine, foldO, line_msid]

theorem foldO_step {σ α} (f : σ → α → Outcome σ) (s s' : σ) (a b : List α) (t : Outcome σ)
    (h : foldO f s a = .ok s') (h2 : foldO f s' b = t) : foldO f s (a ++ b) = t := by
  rw [foldO_append f s s' a b h]; exact h2

/-- First pass over the lines printed before the codecs. -/
theorem pass1_pre (s m : Media) (hw : WFBody m)
    (h1 : s.rtcpPort = none) (h2 : s.rtcpHost = none) (h3 : s.rtcpMux = false)
    (h4 : s.headerExtensions = []) (h5 : s.ssrcGroup = []) (h6 : s.ssrc = []) (h7 : s.muxId = some []) (h8 : s.msid = none)
    (h9 : s.host = none) (h10 : s.direction = none) :
    foldO mediaLine s (preLines m) =
      .ok { s with host := m.host, direction := m.direction, headerExtensions := m.headerExtensions,
                   muxId := m.muxId, msid := m.msid, rtcpPort := m.rtcpPort, rtcpHost := m.rtcpHost,
                   rtcpMux := m.rtcpMux, ssrcGroup := m.ssrcGroup, ssrc := m.ssrc } := by
  obtain ⟨mid, hmid⟩ := hw.mid
  unfold preLines
  simp only [List.append_assoc, hmid]
  refine foldO_step _ _ _ _ _ _ (host_block _ _ hw.host h9) ?_
  refine foldO_step _ _ _ _ _ _ (dir_block _ _ hw.direction h10) ?_
  refine foldO_step _ _ _ _ _ _ (foldO_list mediaLine _ _ m.headerExtensions
    (fun s x hx => line_extmap s x (hw.ext x hx)) _) ?_
  rw [foldl_ext]
  refine foldO_step _ _ _ _ _ _ (mid_block _ mid h7) ?_
  refine foldO_step _ _ _ _ _ _ (msid_block _ _ hw.msid h8) ?_
  refine foldO_step _ _ _ _ _ _ (rtcp_block _ m hw h1 h2 h3) ?_
  refine foldO_step _ _ _ _ _ _ (foldO_list mediaLine _ _ m.ssrcGroup
    (fun s x hx => line_ssrc_group s x (hw.ssrcGroup x hx)) _) ?_
  rw [foldl_ssrcGroup]
  rw [ssrcs_block m.ssrc _ hw.ssrc (by simpa [h6] using hw.ssrc_nodup)]
  simp [h4, h5, h6]


theorem intopt_block (s : Media) (pre : Str) (upd : Media → Int → Media) (o : Option Int)
    (hl : ∀ s p, mediaLine s (pre ++ showInt p) = .ok (upd s p)) :
    foldO mediaLine s (optLine pre (o.map showInt)) = .ok (match o with | some p => upd s p | none => s) := by
  cases o <;> simp [optLine, foldO, hl]

theorem sctp_port_block (s : Media) (o : Option Int) (hs : s.sctpPort = none) :
    foldO mediaLine s (optLine (lit "a=sctp-port:") (o.map showInt)) = .ok { s with sctpPort := o } := by
  cases o with
  | none => have : s = { s with sctpPort := none } := by rw [← hs]
            simp [optLine, foldO]; exact this
  | some p => simp [optLine, foldO, line_sctp_port]

theorem mms_block (s : Media) (o : Option Int) (hs : s.maxMessageSize = none) :
    foldO mediaLine s (optLine (lit "a=max-message-size:") (o.map showInt)) = .ok { s with maxMessageSize := o } := by
  cases o with
  | none => have : s = { s with maxMessageSize := none } := by rw [← hs]
            simp [optLine, foldO]; exact this
  | some p => simp [optLine, foldO, line_mms]

theorem eoc_block (s : Media) (b : Bool) (hs : s.candidatesComplete = false) :
    foldO mediaLine s (if b then [lit "a=end-of-candidates"] else []) = .ok { s with candidatesComplete := b } := by
  cases b with
  | false => have : s = { s with candidatesComplete := false } := by rw [← hs]
             simp [foldO]; exact this
  | true => simp [foldO, line_eoc]

theorem ufrag_block (s : Media) (o : Option Str) (hs : s.ice.usernameFragment = none) :
    foldO mediaLine s (optLine (lit "a=ice-ufrag:") o) = .ok { s with ice := { s.ice with usernameFragment := o } } := by
  cases o with
  | none => have : s = { s with ice := { s.ice with usernameFragment := none } } := by rw [← hs]
            simp [optLine, foldO]; exact this
  | some p => simp [optLine, foldO, line_ufrag]

theorem pwd_block (s : Media) (o : Option Str) (hs : s.ice.password = none) :
    foldO mediaLine s (optLine (lit "a=ice-pwd:") o) = .ok { s with ice := { s.ice with password := o } } := by
  cases o with
  | none => have : s = { s with ice := { s.ice with password := none } } := by rw [← hs]
            simp [optLine, foldO]; exact this
  | some p => simp [optLine, foldO, line_pwd]

theorem iceopt_block (s : Media) (o : Option Str) (hs : s.iceOptions = none) :
    foldO mediaLine s (optLine (lit "a=ice-options:") o) = .ok { s with iceOptions := o } := by
  cases o with
  | none => have : s = { s with iceOptions := none } := by rw [← hs]
            simp [optLine, foldO]; exact this
  | some p => simp [optLine, foldO, line_ice_options]

/-- First pass over the lines printed after the codecs (except DTLS). -/
theorem pass1_post (s m : Media) (hw : WFBody m)
    (h1 : s.sctpmap = []) (h2 : s.sctpPort = none) (h3 : s.maxMessageSize = none) (h4 : s.candidates = [])
    (h5 : s.candidatesComplete = false) (h6 : s.ice.usernameFragment = none) (h7 : s.ice.password = none)
    (h8 : s.iceOptions = none) (h9 : s.ice.iceLite = m.ice.iceLite) :
    foldO mediaLine s (postLines m) =
      .ok { s with sctpmap := m.sctpmap, sctpPort := m.sctpPort, maxMessageSize := m.maxMessageSize,
                   candidates := m.candidates, candidatesComplete := m.candidatesComplete, ice := m.ice,
                   iceOptions := m.iceOptions } := by
  obtain ⟨kind, port, profile, fmt, host, dir, msid, rp, rh, rm, ssrc, sg, he, mux, cod, mms, smap, sport, dtls, ⟨u0, p0, l0⟩, cands, cc, io⟩ := s
  simp only at h1 h2 h3 h4 h5 h6 h7 h8 h9
  subst h1 h2 h3 h4 h5 h6 h7 h8 h9
  unfold postLines
  simp only [List.append_assoc]
  refine foldO_step _ _ _ _ _ _ (foldO_list mediaLine _ _ m.sctpmap
    (fun s x _ => by have := line_sctpmap s x.1 x.2; simpa [List.append_assoc] using this) _) ?_
  rw [foldl_sctpmap]
  dsimp only
  rw [dictSet_all_new m.sctpmap [] (by simpa using hw.sctpmap_nodup)]
  refine foldO_step _ _ _ _ _ _ (sctp_port_block _ _ rfl) ?_
  dsimp only
  refine foldO_step _ _ _ _ _ _ (mms_block _ _ rfl) ?_
  dsimp only
  refine foldO_step _ _ _ _ _ _ (foldO_list mediaLine _ _ m.candidates
    (fun s x hx => line_candidate s x (hw.cands x hx)) _) ?_
  rw [foldl_cands]
  dsimp only
  refine foldO_step _ _ _ _ _ _ (eoc_block _ _ rfl) ?_
  dsimp only
  refine foldO_step _ _ _ _ _ _ (ufrag_block _ _ rfl) ?_
  dsimp only
  refine foldO_step _ _ _ _ _ _ (pwd_block _ _ rfl) ?_
  dsimp only
  refine Eq.trans (iceopt_block _ _ rfl) ?_
  dsimp only
  simp

/-- The DTLS lines (fingerprints, then setup) of a well-formed description, first pass. -/
theorem dtls_block (s : Media) (d : Dtls) (su role : Str) (hs : s.dtls = some { fingerprints := [], role := none })
    (hf : ∀ f ∈ d.fingerprints, Tok f.algorithm ∧ Tok f.value) (hr : d.role = some role)
    (hsu : parseSetup (some su) = .ok role) :
    foldO mediaLine s (d.fingerprints.map (fun f => lit "a=fingerprint:" ++ fingerprintValue f) ++ [lit "a=setup:" ++ su]) =
      .ok { s with dtls := some d } := by
  refine foldO_step _ _ _ _ _ _ (foldO_list mediaLine _ _ d.fingerprints
    (fun s x hx => line_fingerprint s x (hf x hx).1 (hf x hx).2) _) ?_
  rw [foldl_fps d.fingerprints s _ hs]
  obtain ⟨fps, r⟩ := d
  simp only at hr; subst hr
  simp [foldO, line_setup _ role su hsu, Media.updDtls]




end Aiortc.Lemmas.C09
