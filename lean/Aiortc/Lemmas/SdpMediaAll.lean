import Aiortc.Lemmas.SdpMedia
/-! C09 lemmas, layer L3 continued: the "m=" line, the second pass, and the structured round trip of a whole
media section (`media_roundtrip`). -/
namespace Aiortc.Lemmas.C09
open Aiortc Aiortc.Model.Sdp

/-! ## L3, stage D: the "m=" line -/

theorem unwords_ne_nil (toks : List Str) (hne : toks ≠ []) (ht : ∀ t ∈ toks, Tok t) : unwords toks ≠ [] := by
  cases toks with
  | nil => exact absurd rfl hne
  | cons a r =>
    have := (ht a (by simp)).1
    cases r with
    | nil => simpa [unwords, join] using this
    | cons b r' => cases a <;> simp [unwords, join] at this ⊢

theorem unwords_no_nl (toks : List Str) (ht : ∀ t ∈ toks, Tok t) : '\n' ∉ unwords toks := by
  induction toks with
  | nil => simp [unwords, join]
  | cons a r ih =>
    have ha : '\n' ∉ a := by
      intro h; have := (ht a (by simp)).2 _ h; revert this; decide
    cases r with
    | nil => simpa [unwords, join] using ha
    | cons b r' =>
      have := ih (fun t h => ht t (by simp [h]))
      simp only [unwords, join, List.mem_append, List.mem_cons, List.not_mem_nil, or_false, not_or] at this ⊢
      exact ⟨⟨ha, by decide⟩, this⟩

def profileChar (c : Char) : Bool := ('A' ≤ c && c ≤ 'Z') || c = '/'

/-- Well-formed "m=" line fields. -/
structure WFHeader (m : Media) : Prop where
  kind : m.kind ≠ [] ∧ ' ' ∉ m.kind
  port : 0 ≤ m.port
  profile : m.profile ≠ [] ∧ ∀ c ∈ m.profile, profileChar c = true
  fmt : match m.fmt with
    | .ints l => (m.kind = lit "audio" ∨ m.kind = lit "video") ∧ l ≠ [] ∧
        ∀ pt ∈ l, (0 ≤ pt && pt < 256 && !forbiddenPt pt) = true
    | .strs l => m.kind ≠ lit "audio" ∧ m.kind ≠ lit "video" ∧ l ≠ [] ∧ ∀ t ∈ l, Tok t

def hdrLine (m : Media) : Str :=
  lit "m=" ++ m.kind ++ ' ' :: showInt m.port ++ ' ' :: m.profile ++ ' ' :: unwords (fmtToks m.fmt)

theorem fmtToks_tok (m : Media) (hw : WFHeader m) : fmtToks m.fmt ≠ [] ∧ ∀ t ∈ fmtToks m.fmt, Tok t := by
  have := hw.fmt
  cases hf : m.fmt with
  | ints l =>
    rw [hf] at this
    refine ⟨by simpa [fmtToks] using this.2.1, ?_⟩
    intro t ht; simp only [fmtToks, List.mem_map] at ht; obtain ⟨i, _, rfl⟩ := ht; exact tok_showInt i
  | strs l =>
    rw [hf] at this
    exact ⟨by simpa [fmtToks] using this.2.2.1, by simpa [fmtToks] using this.2.2.2⟩

theorem showInt_nonneg_digits (i : Int) (h : 0 ≤ i) : (showInt i).all isDigit = true := by
  cases i with
  | ofNat n => simp only [showInt, List.all_eq_true]; exact (showNat_digits n).2
  | negSucc n => omega

theorem mediaHeader_hdr (d : Defaults) (m : Media) (hw : WFHeader m) :
    mediaHeader d (hdrLine m) = .ok
      { kind := m.kind, port := m.port, profile := m.profile, fmt := m.fmt,
        dtls := some { fingerprints := d.fingerprints, role := d.role },
        ice := { iceLite := d.iceLite, usernameFragment := d.iceUfrag, password := d.icePwd },
        iceOptions := d.iceOptions } := by
  obtain ⟨hk1, hk2⟩ := hw.kind
  obtain ⟨hp1, hp2⟩ := hw.profile
  obtain ⟨ht1, ht2⟩ := fmtToks_tok m hw
  have hpsp : ' ' ∉ m.profile := by intro h; have := hp2 _ h; revert this; decide
  have hportsp : ' ' ∉ showInt m.port := showInt_no _ ' ' (by decide) (by decide)
  have hstart : startsWith (lit "m=") (hdrLine m) = true := by simp [startsWith, hdrLine, lit, List.isPrefixOf]
  have hdrop : (hdrLine m).drop 2 =
      m.kind ++ ' ' :: (showInt m.port ++ ' ' :: (m.profile ++ ' ' :: unwords (fmtToks m.fmt))) := by
    simp [hdrLine, lit]
  have hke : m.kind.isEmpty = false := by cases hk : m.kind <;> simp_all
  have hpe : m.profile.isEmpty = false := by cases hk : m.profile <;> simp_all
  have hse : (showInt m.port).isEmpty = false := by
    have := (tok_showInt m.port).1; cases hk : showInt m.port <;> simp_all
  have hue : (unwords (fmtToks m.fmt)).isEmpty = false := by
    have := unwords_ne_nil _ ht1 ht2; cases hk : unwords (fmtToks m.fmt) <;> simp_all
  have hfe : (fmtToks m.fmt).isEmpty = false := by cases hk : fmtToks m.fmt <;> simp_all
  have hnl : (unwords (fmtToks m.fmt)).contains '\n' = false := by simpa using unwords_no_nl _ ht2
  have hpall : m.profile.all (fun c => ('A' ≤ c && c ≤ 'Z') || c = '/') = true := by
    simp only [List.all_eq_true]; intro c hc; have := hp2 c hc; simpa [profileChar] using this
  unfold mediaHeader
  simp only [hstart, hdrop, split1_append ' ' _ _ hk2, split1_append ' ' _ _ hportsp, split1_append ' ' _ _ hpsp,
    hke, hpe, hse, hue, hnl, hpall, showInt_nonneg_digits _ hw.port, splitWs_unwords _ ht2, hfe, pyInt_showInt]
  have hf := hw.fmt
  cases hfm : m.fmt with
  | ints l =>
    rw [hfm] at hf
    obtain ⟨hkind, _, hall⟩ := hf
    have hall' : l.all (fun pt => 0 ≤ pt && pt < 256 && !forbiddenPt pt) = true := by
      simp only [List.all_eq_true]; exact hall
    rcases hkind with hkind | hkind <;> simp [hkind, fmtToks, mapInt_showInt, hall', lit]
  | strs l =>
    rw [hfm] at hf
    simp [hf.1, hf.2.1, fmtToks]


/-! ## L3, stage E: the second pass ignores everything but the codec lines -/

/-- A line the second pass leaves alone. -/
def Ign (l : Str) : Prop := ∀ s, mediaLine2 s l = .ok s

theorem ign_c (r : Str) : Ign (lit "c=" ++ r) := fun s => mediaLine2_c s r

theorem ign_attr (name v : Str) (hn : ':' ∉ name) (h1 : name ≠ lit "fmtp") (h2 : name ≠ lit "rtcp-fb") :
    Ign ('a' :: '=' :: (name ++ ':' :: v)) := by
  intro s; rw [mediaLine2_attr s name v hn, mediaAttr2_other s name _ h1 h2]

theorem ign_flag (name : Str) (hn : ':' ∉ name) (h1 : name ≠ lit "fmtp") (h2 : name ≠ lit "rtcp-fb") :
    Ign ('a' :: '=' :: name) := by
  intro s; rw [mediaLine2_flag s name hn, mediaAttr2_other s name _ h1 h2]

theorem dir_props : ∀ d ∈ directions, ':' ∉ d ∧ d ≠ lit "fmtp" ∧ d ≠ lit "rtcp-fb" := by decide

theorem ign_optLine (pre : Str) (o : Option Str) (h : ∀ v, Ign (pre ++ v)) : ∀ l ∈ optLine pre o, Ign l := by
  intro l hl; cases o <;> simp [optLine] at hl; subst hl; exact h _

theorem ign_pre (m : Media) (hw : WFBody m) : ∀ l ∈ preLines m, Ign l := by
  intro l hl
  simp only [preLines, List.mem_append] at hl
  rcases hl with ((((((hl | hl) | hl) | hl) | hl) | hl) | hl) | hl
  · cases hh : m.host <;> simp [hostLine, hh] at hl; subst hl; exact ign_c _
  · cases hd : m.direction with
    | none => simp [optLine, hd] at hl
    | some d =>
      simp [optLine, hd] at hl; subst hl
      obtain ⟨a, b, c⟩ := dir_props d (hw.direction d hd)
      exact ign_flag d a b c
  · simp only [List.mem_map] at hl; obtain ⟨h, _, rfl⟩ := hl
    exact ign_attr (lit "extmap") _ (by decide) (by decide) (by decide)
  · exact ign_optLine _ _ (fun v => ign_attr (lit "mid") v (by decide) (by decide) (by decide)) l hl
  · exact ign_optLine _ _ (fun v => ign_attr (lit "msid") v (by decide) (by decide) (by decide)) l hl
  · simp only [rtcpLines] at hl
    cases hp : m.rtcpPort with
    | none => simp [hp] at hl
    | some p =>
      simp only [hp, List.mem_append, List.mem_singleton] at hl
      rcases hl with hl | hl
      · subst hl
        cases m.rtcpHost with
        | none =>
          have := ign_attr (lit "rtcp") (showInt p ++ []) (by decide) (by decide) (by decide)
          simpa [lit, List.append_assoc] using this
        | some h =>
          have := ign_attr (lit "rtcp") (showInt p ++ ' ' :: ipaddressToSdp h) (by decide) (by decide) (by decide)
          simpa [lit, List.append_assoc] using this
      · cases hm : m.rtcpMux <;> simp [hm] at hl
        subst hl; exact ign_flag (lit "rtcp-mux") (by decide) (by decide) (by decide)
  · simp only [List.mem_map] at hl; obtain ⟨h, _, rfl⟩ := hl
    exact ign_attr (lit "ssrc-group") _ (by decide) (by decide) (by decide)
  · simp only [List.mem_flatMap, List.mem_map] at hl; obtain ⟨s, _, v, _, rfl⟩ := hl
    exact ign_attr (lit "ssrc") _ (by decide) (by decide) (by decide)

theorem ign_post (m : Media) : ∀ l ∈ postLines m, Ign l := by
  intro l hl
  simp only [postLines, List.mem_append] at hl
  rcases hl with ((((((hl | hl) | hl) | hl) | hl) | hl) | hl) | hl
  · simp only [List.mem_map] at hl; obtain ⟨kv, _, rfl⟩ := hl
    have := ign_attr (lit "sctpmap") (showInt kv.1 ++ ' ' :: kv.2) (by decide) (by decide) (by decide)
    simpa [lit, List.append_assoc] using this
  · exact ign_optLine _ _ (fun v => ign_attr (lit "sctp-port") v (by decide) (by decide) (by decide)) l hl
  · exact ign_optLine _ _ (fun v => ign_attr (lit "max-message-size") v (by decide) (by decide) (by decide)) l hl
  · simp only [List.mem_map] at hl; obtain ⟨c, _, rfl⟩ := hl
    exact ign_attr (lit "candidate") _ (by decide) (by decide) (by decide)
  · cases hc : m.candidatesComplete <;> simp [hc] at hl
    subst hl; exact ign_flag (lit "end-of-candidates") (by decide) (by decide) (by decide)
  · exact ign_optLine _ _ (fun v => ign_attr (lit "ice-ufrag") v (by decide) (by decide) (by decide)) l hl
  · exact ign_optLine _ _ (fun v => ign_attr (lit "ice-pwd") v (by decide) (by decide) (by decide)) l hl
  · exact ign_optLine _ _ (fun v => ign_attr (lit "ice-options") v (by decide) (by decide) (by decide)) l hl

theorem ign_dtls (fps : List Fingerprint) (su : Str) :
    ∀ l ∈ fps.map (fun f => lit "a=fingerprint:" ++ fingerprintValue f) ++ [lit "a=setup:" ++ su], Ign l := by
  intro l hl
  simp only [List.mem_append, List.mem_map, List.mem_singleton] at hl
  rcases hl with ⟨f, _, rfl⟩ | rfl
  · exact ign_attr (lit "fingerprint") _ (by decide) (by decide) (by decide)
  · exact ign_attr (lit "setup") _ (by decide) (by decide) (by decide)

theorem foldO_ign (ls : List Str) (h : ∀ l ∈ ls, Ign l) (s : Media) : foldO mediaLine2 s ls = .ok s :=
  foldO_ignore mediaLine2 ls s (fun x hx s' => h x hx s')



/-! ## L3, stage F: a whole media section -/

/-- Structurally valid media section (the "generated field values" of the property). -/
structure WFMedia (m : Media) : Prop where
  header : WFHeader m
  body : WFBody m
  codecs : ∀ c ∈ m.codecs, WFCodecFull m.kind c
  codecs_nodup : (pts m.codecs).Nodup

theorem codecStr_full (kind : Str) (c : Codec) (h : WFCodecFull kind c) : ∃ s, codecStr c = .ok s := by
  obtain ⟨name, hb⟩ := h.base
  exact ⟨_, (codecStr_strip c) ▸ codecStr_wf kind name (strip c) hb⟩

theorem allLines_codecs (kind : Str) (cs : List Codec) (hw : ∀ c ∈ cs, WFCodecFull kind c) :
    ∃ ss : List Str, cs.map codecStr = ss.map .ok ∧ cs.length = ss.length ∧
      allLines codecLines cs = .ok ((cs.zip ss).flatMap fun p => codecLinesP p.1 p.2) := by
  induction cs with
  | nil => exact ⟨[], rfl, rfl, rfl⟩
  | cons c r ih =>
    obtain ⟨ss, h1, h2, h3⟩ := ih (fun x hx => hw x (by simp [hx]))
    obtain ⟨s, hs⟩ := codecStr_full kind c (hw c (by simp))
    refine ⟨s :: ss, by simp [hs, h1], by simp [h2], ?_⟩
    simp [allLines, codecLines_eq c s hs, h3]

def dtlsL (d : Option Dtls) (su : Str) : List Str :=
  match d with
  | none => []
  | some d => d.fingerprints.map (fun f => lit "a=fingerprint:" ++ fingerprintValue f) ++ [lit "a=setup:" ++ su]

theorem dtlsLines_wf (m : Media) (hw : WFBody m) : ∃ su, dtlsLines m.dtls = .ok (dtlsL m.dtls su) := by
  cases hd : m.dtls with
  | none => exact ⟨[], rfl⟩
  | some d =>
    obtain ⟨_, role, su, hr, hsu, _⟩ := hw.dtls d hd
    exact ⟨su, by simp [dtlsLines, hr, hsu, dtlsL]⟩

theorem mediaLines_eq (m : Media) (codecL dl : List Str) (h1 : allLines codecLines m.codecs = .ok codecL)
    (h2 : dtlsLines m.dtls = .ok dl) :
    mediaLines m = .ok (hdrLine m :: (preLines m ++ (codecL ++ (postLines m ++ dl)))) := by
  simp [mediaLines, h1, h2, hdrLine, preLines, postLines, List.append_assoc]


/-- First pass, DTLS fix-up included: from the fresh `MediaDescription` to `m` with bare codecs. -/
theorem pass1_all (m : Media) (hw : WFMedia m) (ss : List Str) (su : Str)
    (hs1 : m.codecs.map codecStr = ss.map .ok) (hdl : dtlsLines m.dtls = .ok (dtlsL m.dtls su)) :
    ∃ m1 : Media,
      foldO mediaLine
        { kind := m.kind, port := m.port, profile := m.profile, fmt := m.fmt,
          dtls := some { fingerprints := [], role := none },
          ice := { iceLite := m.ice.iceLite, usernameFragment := none, password := none },
          iceOptions := none }
        (preLines m ++ (((m.codecs.zip ss).flatMap fun p => codecLinesP p.1 p.2) ++ (postLines m ++ dtlsL m.dtls su))) = .ok m1 ∧
      (match m1.dtls with
        | some dt => if dt.role.isNone then { m1 with dtls := none } else m1
        | none => m1) = { m with codecs := m.codecs.map strip } := by
  have hb := hw.body
  refine ⟨{ m with codecs := m.codecs.map strip, dtls := (match m.dtls with | some d => some d | none => some { fingerprints := [], role := none }) }, ?_, ?_⟩
  · refine foldO_step _ _ _ _ _ _ (pass1_pre _ m hb rfl rfl rfl rfl rfl rfl rfl rfl rfl rfl) ?_
    dsimp only
    refine foldO_step _ _ _ _ _ _ (codecs_pass1 m.kind m.codecs ss _ rfl hw.codecs hs1
      (by simpa [pts] using hw.codecs_nodup)) ?_
    dsimp only
    refine foldO_step _ _ _ _ _ _ (pass1_post _ m hb rfl rfl rfl rfl rfl rfl rfl rfl rfl) ?_
    dsimp only
    cases hd : m.dtls with
    | none => simp [dtlsL, foldO]
    | some d =>
      obtain ⟨hf, role, su', hr, hsu, hps⟩ := hb.dtls d hd
      have hsu2 : su' = su := by
        simp only [hd, dtlsLines, hr, Option.getD_some, hsu, dtlsL] at hdl
        simpa using hdl
      subst hsu2
      simp only [dtlsL]
      rw [dtls_block _ d su' role rfl hf hr hps]
      simp
  · cases hd : m.dtls with
    | none =>
      obtain ⟨kind, port, profile, fmt, host, dir, msid, rp, rh, rm, ssrc, sg, he, mux, cod, mms, smap, sport, dtls, ice, cands, cc, io⟩ := m
      simp only at hd; subst hd
      simp
    | some d =>
      obtain ⟨hf, role, su', hr, hsu, hps⟩ := hb.dtls d hd
      obtain ⟨kind, port, profile, fmt, host, dir, msid, rp, rh, rm, ssrc, sg, he, mux, cod, mms, smap, sport, dtls, ice, cands, cc, io⟩ := m
      simp only at hd; subst hd
      simp [hr]


/-- Second pass over all the lines of a well-formed media section. -/
theorem pass2_all (m : Media) (hw : WFMedia m) (ss : List Str) (su : Str) (hs2 : m.codecs.length = ss.length) :
    foldO mediaLine2 { m with codecs := m.codecs.map strip }
      (preLines m ++ (((m.codecs.zip ss).flatMap fun p => codecLinesP p.1 p.2) ++ (postLines m ++ dtlsL m.dtls su))) = .ok m := by
  refine foldO_step _ _ _ _ _ _ (foldO_ign _ (ign_pre m hw.body) _) ?_
  refine foldO_step _ _ _ _ _ _ (codecs_pass2 m.kind m.codecs ss [] _ hw.codecs hs2 rfl
    (by simpa [pts] using hw.codecs_nodup)) ?_
  refine foldO_step _ _ _ _ _ _ (foldO_ign _ (ign_post m) _) ?_
  rw [foldO_ign _ (by
    cases hd : m.dtls with
    | none => intro l hl; simp [dtlsL] at hl
    | some d => simpa [dtlsL] using ign_dtls d.fingerprints su)]
  simp

/-- **Structured round trip, media level.**  For EVERY structurally valid media section `m`:
`MediaDescription.__str__` succeeds, and feeding its lines to the media part of
`SessionDescription.parse` (header, first pass, DTLS fix-up, second pass) gives back exactly `m` —
every field: kind, port, profile, formats, host, direction, header extensions, mid, msid, rtcp,
SSRCs and SSRC groups, codecs with parameters and feedback, sctpmap / sctp-port / max-message-size,
candidates, end-of-candidates, ICE credentials and options, DTLS fingerprints and role. -/
theorem media_roundtrip (m : Media) (hw : WFMedia m) :
    ∃ lines, mediaLines m = .ok lines ∧ parseMedia { iceLite := m.ice.iceLite } lines = .ok m := by
  obtain ⟨ss, hs1, hs2, hs3⟩ := allLines_codecs m.kind m.codecs hw.codecs
  obtain ⟨su, hdl⟩ := dtlsLines_wf m hw.body
  refine ⟨_, mediaLines_eq m _ _ hs3 hdl, ?_⟩
  obtain ⟨m1, hp1, hfix⟩ := pass1_all m hw ss su hs1 hdl
  simp only [parseMedia, mediaHeader_hdr _ m hw.header, ok_bind, hp1]
  have h2 := pass2_all m hw ss su hs2
  rw [← hfix] at h2
  exact h2


end Aiortc.Lemmas.C09
