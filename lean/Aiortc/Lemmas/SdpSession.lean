import Aiortc.Lemmas.SdpMediaAll
/-! C09 lemmas, layer L3, session level: the session lines, `grouplines`, and the structured round trip of a whole
`SessionDescription` on lists of lines (`session_roundtrip`), plus `splitlines ∘ unlines`. -/
namespace Aiortc.Lemmas.C09
open Aiortc Aiortc.Model.Sdp

/-! ## L3, stage G: session level, on lists of lines -/

/-- `SessionDescription.parse` after `splitlines`. -/
def parseLines (ls : List Str) : Outcome Session := do
  let (sessLines, groups) := grouplinesAux ls [] []
  let (s, d) ← foldO sessionLine (({} : Session), ({} : Defaults)) sessLines
  let ms ← parseMedias d groups
  pure { s with media := ms }

theorem parse_eq (sdp : Str) : parse sdp = parseLines (splitlines sdp) := rfl

/-- The session-level lines of `SessionDescription.__str__`. -/
def sessionHdr (s : Session) : List Str :=
  [lit "v=" ++ showInt s.version, lit "o=" ++ s.origin.getD (lit "None"), lit "s=" ++ s.name] ++
  hostLine (lit "c=") s.host ++ [lit "t=" ++ s.time] ++
  (if s.media.any (·.ice.iceLite) then [lit "a=ice-lite"] else []) ++
  s.group.map (fun g => lit "a=group:" ++ groupToStr id g) ++
  s.msidSemantic.map (fun g => lit "a=msid-semantic:" ++ groupToStr id g)

theorem sessionToStr_eq (s : Session) (ml : List Str) (h : allLines mediaLines s.media = .ok ml) :
    sessionToStr s = .ok (unlines (sessionHdr s ++ ml)) := by
  simp [sessionToStr, h, sessionHdr, List.append_assoc]

/-- No trailing blank (a leading one is protected by the "x=" prefix of the line). -/
def NoTrail (v : Str) : Prop := ∀ c, v.getLast? = some c → isPySpace c = false

theorem strip_prefixed (a b : Char) (v : Str) (ha : isPySpace a = false) (hb : isPySpace b = false) (hv : NoTrail v) :
    Model.Sdp.strip (a :: b :: v) = a :: b :: v := by
  unfold Model.Sdp.strip stripLeft
  rw [dropWhile_head_false _ (a :: b :: v) (by intro x hx; simp at hx; subst hx; exact ha)]
  rw [dropWhile_head_false _ (a :: b :: v).reverse (by
    intro x hx
    rw [List.head?_reverse] at hx
    cases v with
    | nil => simp at hx; subst hx; exact hb
    | cons c r =>
      have : (a :: b :: c :: r).getLast? = (c :: r).getLast? := by simp [List.getLast?_cons_cons]
      rw [this] at hx; exact hv x hx)]
  simp

theorem sline_v (st : Session × Defaults) (v : Int) :
    sessionLine st (lit "v=" ++ showInt v) = .ok ({ st.1 with version := v }, st.2) := by
  have hs : Model.Sdp.strip ('v' :: '=' :: showInt v) = 'v' :: '=' :: showInt v :=
    strip_prefixed 'v' '=' _ (by decide) (by decide) (by
      intro c hc
      have := List.mem_of_getLast? hc
      exact (tok_showInt v).2 c this)
  obtain ⟨s, d⟩ := st
  simp [sessionLine, startsWith, lit, List.isPrefixOf, hs, intOf_showInt]

theorem sline_o (st : Session × Defaults) (o : Str) (h : NoTrail o) :
    sessionLine st (lit "o=" ++ o) = .ok ({ st.1 with origin := some o }, st.2) := by
  have hs : Model.Sdp.strip ('o' :: '=' :: o) = 'o' :: '=' :: o := strip_prefixed 'o' '=' _ (by decide) (by decide) h
  obtain ⟨s, d⟩ := st
  simp [sessionLine, startsWith, lit, List.isPrefixOf, hs]

theorem sline_s (st : Session × Defaults) (o : Str) (h : NoTrail o) :
    sessionLine st (lit "s=" ++ o) = .ok ({ st.1 with name := o }, st.2) := by
  have hs : Model.Sdp.strip ('s' :: '=' :: o) = 's' :: '=' :: o := strip_prefixed 's' '=' _ (by decide) (by decide) h
  obtain ⟨s, d⟩ := st
  simp [sessionLine, startsWith, lit, List.isPrefixOf, hs]

theorem sline_t (st : Session × Defaults) (o : Str) (h : NoTrail o) :
    sessionLine st (lit "t=" ++ o) = .ok ({ st.1 with time := o }, st.2) := by
  have hs : Model.Sdp.strip ('t' :: '=' :: o) = 't' :: '=' :: o := strip_prefixed 't' '=' _ (by decide) (by decide) h
  obtain ⟨s, d⟩ := st
  simp [sessionLine, startsWith, lit, List.isPrefixOf, hs]

theorem sline_c (st : Session × Defaults) (h : Str) (hh : HostOk h) :
    sessionLine st (lit "c=" ++ ipaddressToSdp h) = .ok ({ st.1 with host := some h }, st.2) := by
  obtain ⟨s, d⟩ := st
  simp [sessionLine, startsWith, lit, List.isPrefixOf, ipaddress_roundtrip h hh.1 hh.2]

theorem sline_icelite (st : Session × Defaults) :
    sessionLine st (lit "a=ice-lite") = .ok (st.1, { st.2 with iceLite := true }) := by
  obtain ⟨s, d⟩ := st
  have := parseAttr_flag ['i', 'c', 'e', '-', 'l', 'i', 't', 'e'] (by decide)
  simp [sessionLine, startsWith, lit, List.isPrefixOf, this]

theorem sline_group (st : Session × Defaults) (g : Group Str) (hs : Tok g.semantic) (hi : ∀ t ∈ g.items, Tok t) :
    sessionLine st (lit "a=group:" ++ groupToStr id g) = .ok ({ st.1 with group := st.1.group ++ [g] }, st.2) := by
  obtain ⟨s, d⟩ := st
  have := parseAttr_value ['g', 'r', 'o', 'u', 'p'] (groupToStr id g) (by decide)
  simp only [List.cons_append, List.nil_append] at this
  simp [sessionLine, startsWith, lit, List.isPrefixOf, this, group_roundtrip s.group g hs hi]

theorem sline_msidsem (st : Session × Defaults) (g : Group Str) (hs : Tok g.semantic) (hi : ∀ t ∈ g.items, Tok t) :
    sessionLine st (lit "a=msid-semantic:" ++ groupToStr id g) =
      .ok ({ st.1 with msidSemantic := st.1.msidSemantic ++ [g] }, st.2) := by
  obtain ⟨s, d⟩ := st
  have := parseAttr_value ['m', 's', 'i', 'd', '-', 's', 'e', 'm', 'a', 'n', 't', 'i', 'c'] (groupToStr id g) (by decide)
  simp only [List.cons_append, List.nil_append] at this
  simp [sessionLine, startsWith, lit, List.isPrefixOf, this, group_roundtrip s.msidSemantic g hs hi]


theorem foldl_groups (gs : List (Group Str)) (st : Session × Defaults) :
    gs.foldl (fun st g => ({ st.1 with group := st.1.group ++ [g] }, st.2)) st =
      ({ st.1 with group := st.1.group ++ gs }, st.2) := by
  induction gs generalizing st with
  | nil => simp
  | cons g r ih => simp [ih]

theorem foldl_msidsem (gs : List (Group Str)) (st : Session × Defaults) :
    gs.foldl (fun st g => ({ st.1 with msidSemantic := st.1.msidSemantic ++ [g] }, st.2)) st =
      ({ st.1 with msidSemantic := st.1.msidSemantic ++ gs }, st.2) := by
  induction gs generalizing st with
  | nil => simp
  | cons g r ih => simp [ih]

/-- Structurally valid session description. -/
structure WFSession (s : Session) : Prop where
  origin : ∃ o, s.origin = some o ∧ NoTrail o
  name : NoTrail s.name
  time : NoTrail s.time
  host : ∀ h, s.host = some h → HostOk h
  group : ∀ g ∈ s.group, Tok g.semantic ∧ ∀ t ∈ g.items, Tok t
  msidSemantic : ∀ g ∈ s.msidSemantic, Tok g.semantic ∧ ∀ t ∈ g.items, Tok t
  media : ∀ m ∈ s.media, WFMedia m
  lite : ∀ m ∈ s.media, m.ice.iceLite = s.media.any (·.ice.iceLite)

/-- The session-level lines parse back to the session-level fields and the `ice-lite` default. -/
theorem session_hdr (s : Session) (hw : WFSession s) :
    foldO sessionLine (({} : Session), ({} : Defaults)) (sessionHdr s) =
      .ok ({ s with media := [] }, { iceLite := s.media.any (·.ice.iceLite) }) := by
  obtain ⟨o, ho, hot⟩ := hw.origin
  unfold sessionHdr
  simp only [List.append_assoc, List.cons_append, List.nil_append, ho, Option.getD_some]
  simp only [foldO, sline_v, sline_o _ o hot, sline_s _ _ hw.name]
  have hhost : ∀ st : Session × Defaults, st.1.host = none →
      foldO sessionLine st (hostLine (lit "c=") s.host) = .ok ({ st.1 with host := s.host }, st.2) := by
    intro st hst
    cases hh : s.host with
    | none =>
      obtain ⟨⟨ver, ori, nm, tm, hs', grp, ms, med⟩, b⟩ := st
      simp only at hst; subst hst; simp [hostLine, foldO]
    | some h => simp [hostLine, foldO, sline_c st h (hw.host h hh)]
  refine foldO_step _ _ _ _ _ _ (hhost _ rfl) ?_
  dsimp only
  simp only [foldO, sline_t _ _ hw.time]
  have hlite : ∀ st : Session × Defaults, st.2.iceLite = false → ∀ b : Bool,
      foldO sessionLine st (if b then [lit "a=ice-lite"] else []) = .ok (st.1, { st.2 with iceLite := b }) := by
    intro st hst b
    cases b with
    | false =>
      obtain ⟨a, ⟨f, r, l, io, ip, iu⟩⟩ := st
      simp only at hst; subst hst; simp [foldO]
    | true => simp [foldO, sline_icelite]
  refine foldO_step _ _ _ _ _ _ (hlite _ rfl _) ?_
  dsimp only
  refine foldO_step _ _ _ _ _ _ (foldO_map sessionLine _ _ s.group
    (fun st g hg => sline_group st g (hw.group g hg).1 (hw.group g hg).2) _) ?_
  rw [foldl_groups]
  dsimp only
  rw [foldO_map sessionLine _ _ s.msidSemantic
    (fun st g hg => sline_msidsem st g (hw.msidSemantic g hg).1 (hw.msidSemantic g hg).2) _, foldl_msidsem]
  obtain ⟨ver, ori, nm, tm, hst, grp, ms, med⟩ := s
  simp only at ho
  subst ho
  simp


/-- Lines that `grouplines` keeps in the current group. -/
def NotM (l : Str) : Prop := startsWith (lit "m=") l = false

theorem notM_a (r : Str) : NotM ('a' :: r) := by simp [NotM, startsWith, lit, List.isPrefixOf]
theorem notM_c (r : Str) : NotM ('c' :: r) := by simp [NotM, startsWith, lit, List.isPrefixOf]

theorem notM_optLine (pre : Str) (o : Option Str) (h : ∀ v, NotM (pre ++ v)) : ∀ l ∈ optLine pre o, NotM l := by
  intro l hl; cases o <;> simp [optLine] at hl; subst hl; exact h _

theorem notM_pre (m : Media) : ∀ l ∈ preLines m, NotM l := by
  intro l hl
  simp only [preLines, List.mem_append] at hl
  rcases hl with ((((((hl | hl) | hl) | hl) | hl) | hl) | hl) | hl
  · cases hh : m.host <;> simp [hostLine, hh] at hl; subst hl; exact notM_c _
  · exact notM_optLine _ _ (fun v => notM_a _) l hl
  · simp only [List.mem_map] at hl; obtain ⟨h, _, rfl⟩ := hl; exact notM_a _
  · exact notM_optLine _ _ (fun v => notM_a _) l hl
  · exact notM_optLine _ _ (fun v => notM_a _) l hl
  · simp only [rtcpLines] at hl
    cases hp : m.rtcpPort with
    | none => simp [hp] at hl
    | some p =>
      simp only [hp, List.mem_append, List.mem_singleton] at hl
      rcases hl with hl | hl
      · subst hl; exact notM_a _
      · cases hm : m.rtcpMux <;> simp [hm] at hl
        subst hl; exact notM_a _
  · simp only [List.mem_map] at hl; obtain ⟨h, _, rfl⟩ := hl; exact notM_a _
  · simp only [List.mem_flatMap, List.mem_map] at hl; obtain ⟨s, _, v, _, rfl⟩ := hl; exact notM_a _

theorem notM_post (m : Media) : ∀ l ∈ postLines m, NotM l := by
  intro l hl
  simp only [postLines, List.mem_append] at hl
  rcases hl with ((((((hl | hl) | hl) | hl) | hl) | hl) | hl) | hl
  · simp only [List.mem_map] at hl; obtain ⟨kv, _, rfl⟩ := hl; exact notM_a _
  · exact notM_optLine _ _ (fun v => notM_a _) l hl
  · exact notM_optLine _ _ (fun v => notM_a _) l hl
  · simp only [List.mem_map] at hl; obtain ⟨c, _, rfl⟩ := hl; exact notM_a _
  · cases hc : m.candidatesComplete <;> simp [hc] at hl
    subst hl; exact notM_a _
  · exact notM_optLine _ _ (fun v => notM_a _) l hl
  · exact notM_optLine _ _ (fun v => notM_a _) l hl
  · exact notM_optLine _ _ (fun v => notM_a _) l hl

theorem notM_codecs (cs : List Codec) (ss : List Str) :
    ∀ l ∈ (cs.zip ss).flatMap (fun p => codecLinesP p.1 p.2), NotM l := by
  intro l hl
  simp only [List.mem_flatMap, codecLinesP, List.mem_append, List.mem_singleton, List.mem_map] at hl
  obtain ⟨p, _, (hl | ⟨f, _, rfl⟩) | hl⟩ := hl
  · subst hl; exact notM_a _
  · exact notM_a _
  · split at hl
    · simp at hl
    · simp at hl; subst hl; exact notM_a _

theorem notM_dtls (d : Option Dtls) (su : Str) : ∀ l ∈ dtlsL d su, NotM l := by
  intro l hl
  cases d with
  | none => simp [dtlsL] at hl
  | some d =>
    simp only [dtlsL, List.mem_append, List.mem_map, List.mem_singleton] at hl
    rcases hl with ⟨f, _, rfl⟩ | rfl <;> exact notM_a _

theorem isM_hdr (m : Media) : startsWith (lit "m=") (hdrLine m) = true := by
  simp [startsWith, hdrLine, lit, List.isPrefixOf]

/-! ### grouplines -/

theorem grouplines_sess (hdr rest sess : List Str) (h : ∀ l ∈ hdr, NotM l) :
    grouplinesAux (hdr ++ rest) sess [] = grouplinesAux rest (hdr.reverse ++ sess) [] := by
  induction hdr generalizing sess with
  | nil => rfl
  | cons l r ih =>
    have hl : startsWith (lit "m=") l = false := h l (by simp)
    simp only [List.cons_append, grouplinesAux, hl, Bool.false_eq_true, if_false]
    rw [ih _ (fun x hx => h x (by simp [hx]))]
    simp

theorem grouplines_body (body rest sess cur : List Str) (media : List (List Str)) (h : ∀ l ∈ body, NotM l) :
    grouplinesAux (body ++ rest) sess (cur :: media) = grouplinesAux rest sess ((body.reverse ++ cur) :: media) := by
  induction body generalizing cur with
  | nil => rfl
  | cons l r ih =>
    have hl : startsWith (lit "m=") l = false := h l (by simp)
    simp only [List.cons_append, grouplinesAux, hl, Bool.false_eq_true, if_false]
    rw [ih _ (fun x hx => h x (by simp [hx]))]
    simp

theorem grouplines_blocks (blocks : List (Str × List Str)) (sess : List Str) (media : List (List Str))
    (h : ∀ b ∈ blocks, startsWith (lit "m=") b.1 = true ∧ ∀ l ∈ b.2, NotM l) :
    grouplinesAux (blocks.flatMap fun b => b.1 :: b.2) sess media =
      (sess.reverse, (media.map List.reverse).reverse ++ blocks.map fun b => b.1 :: b.2) := by
  induction blocks generalizing media with
  | nil => simp [grouplinesAux]
  | cons b r ih =>
    obtain ⟨hb1, hb2⟩ := h b (by simp)
    simp only [List.flatMap_cons, List.cons_append, grouplinesAux, hb1, if_true]
    rw [grouplines_body _ _ _ _ _ hb2, ih _ (fun x hx => h x (by simp [hx]))]
    simp


end Aiortc.Lemmas.C09
