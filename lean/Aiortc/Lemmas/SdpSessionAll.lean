import Aiortc.Lemmas.SdpSession
/-! C09 lemmas, layer L3, session level (continued): all media sections, `session_roundtrip`,
`splitlines ∘ unlines`, `generated_fixed_point`. -/
namespace Aiortc.Lemmas.C09
open Aiortc Aiortc.Model.Sdp

theorem media_form (m : Media) (hw : WFMedia m) :
    ∃ body, mediaLines m = .ok (hdrLine m :: body) ∧
      parseMedia { iceLite := m.ice.iceLite } (hdrLine m :: body) = .ok m ∧ ∀ l ∈ body, NotM l := by
  obtain ⟨ss, hs1, hs2, hs3⟩ := allLines_codecs m.kind m.codecs hw.codecs
  obtain ⟨su, hdl⟩ := dtlsLines_wf m hw.body
  refine ⟨_, mediaLines_eq m _ _ hs3 hdl, ?_, ?_⟩
  · obtain ⟨m1, hp1, hfix⟩ := pass1_all m hw ss su hs1 hdl
    simp only [parseMedia, mediaHeader_hdr _ m hw.header, ok_bind, hp1]
    have h2 := pass2_all m hw ss su hs2
    rw [← hfix] at h2
    exact h2
  · intro l hl
    simp only [List.mem_append] at hl
    rcases hl with hl | hl | hl | hl
    · exact notM_pre m l hl
    · exact notM_codecs _ _ l hl
    · exact notM_post m l hl
    · exact notM_dtls _ _ l hl

theorem medias_form (ms : List Media) (b : Bool) (hw : ∀ m ∈ ms, WFMedia m) (hl : ∀ m ∈ ms, m.ice.iceLite = b) :
    ∃ blocks : List (Str × List Str),
      allLines mediaLines ms = .ok (blocks.flatMap fun b => b.1 :: b.2) ∧
      parseMedias { iceLite := b } (blocks.map fun b => b.1 :: b.2) = .ok ms ∧
      ∀ b ∈ blocks, startsWith (lit "m=") b.1 = true ∧ ∀ l ∈ b.2, NotM l := by
  induction ms with
  | nil => exact ⟨[], rfl, rfl, by simp⟩
  | cons m r ih =>
    obtain ⟨blocks, h1, h2, h3⟩ := ih (fun x hx => hw x (by simp [hx])) (fun x hx => hl x (by simp [hx]))
    obtain ⟨body, hb1, hb2, hb3⟩ := media_form m (hw m (by simp))
    rw [hl m (by simp)] at hb2
    refine ⟨(hdrLine m, body) :: blocks, ?_, ?_, ?_⟩
    · simp [allLines, hb1, h1]
    · simp [parseMedias, hb2, h2]
    · intro x hx
      simp only [List.mem_cons] at hx
      rcases hx with hx | hx
      · subst hx; exact ⟨isM_hdr m, hb3⟩
      · exact h3 x hx

theorem notM_hdr (s : Session) : ∀ l ∈ sessionHdr s, NotM l := by
  intro l hl
  simp only [sessionHdr, List.mem_append, List.mem_cons, List.not_mem_nil, or_false, List.mem_map] at hl
  rcases hl with (((((hl | hl | hl) | hl) | hl) | hl) | ⟨g, _, rfl⟩) | ⟨g, _, rfl⟩
  · subst hl; simp [NotM, startsWith, lit, List.isPrefixOf]
  · subst hl; simp [NotM, startsWith, lit, List.isPrefixOf]
  · subst hl; simp [NotM, startsWith, lit, List.isPrefixOf]
  · cases hh : s.host <;> simp [hostLine, hh] at hl; subst hl; exact notM_c _
  · subst hl; simp [NotM, startsWith, lit, List.isPrefixOf]
  · split at hl <;> simp at hl; subst hl; exact notM_a _
  · exact notM_a _
  · exact notM_a _

/-- **Structured round trip, session level, on lists of lines**: for EVERY structurally valid
`SessionDescription`, `__str__` succeeds with text `"\r\n".join(lines) + "\r\n"`, and parsing those lines
(`grouplines`, session lines, defaults folded into the media sections, every media section) gives back the
description, every field. -/
theorem session_roundtrip (s : Session) (hw : WFSession s) :
    ∃ ls, sessionToStr s = .ok (unlines ls) ∧ parseLines ls = .ok s := by
  obtain ⟨blocks, h1, h2, h3⟩ := medias_form s.media _ hw.media hw.lite
  refine ⟨_, sessionToStr_eq s _ h1, ?_⟩
  simp only [parseLines]
  rw [grouplines_sess _ _ _ (notM_hdr s), grouplines_blocks _ _ _ h3]
  simp only [List.append_nil, List.reverse_reverse, List.map_nil, List.reverse_nil, List.nil_append]
  rw [session_hdr s hw]
  simp only [ok_bind, h2]
  simp


/-! ### `splitlines` against `"\r\n".join(lines) + "\r\n"` -/

def NoBreak (l : Str) : Prop := ∀ c ∈ l, isLineBreak c = false

theorem splitlines_line (l rest cur : Str) (h : NoBreak l) :
    splitlinesAux (l ++ rest) cur false = splitlinesAux rest (l.reverse ++ cur) false := by
  induction l generalizing cur with
  | nil => rfl
  | cons c r ih =>
    have hc : isLineBreak c = false := h c (by simp)
    simp only [List.cons_append, splitlinesAux, Bool.false_and, Bool.false_eq_true, if_false, hc]
    rw [ih _ (fun x hx => h x (by simp [hx]))]
    simp

theorem splitlines_crlf (rest cur : Str) :
    splitlinesAux ('\r' :: '\n' :: rest) cur false = cur.reverse :: splitlinesAux rest [] false := by
  have h1 : isLineBreak '\r' = true := by decide
  simp [splitlinesAux, h1]

theorem splitlines_unlines (ls : List Str) (h : ∀ l ∈ ls, NoBreak l) : splitlines (unlines ls) = ls := by
  unfold splitlines
  induction ls with
  | nil => rfl
  | cons l r ih =>
    have : unlines (l :: r) = l ++ ('\r' :: '\n' :: unlines r) := by simp [unlines, crlf]
    rw [this, splitlines_line _ _ _ (h l (by simp)), splitlines_crlf, ih (fun x hx => h x (by simp [hx]))]
    simp

/-- **Clause 1 of C09 for structurally valid descriptions**: `str(d)` succeeds; if no field contains a line-break
character (so that no printed line does), parsing the text recovers `d` — every field — and the text is a fixed point
of parse-then-serialise. -/
theorem generated_fixed_point (s : Session) (hw : WFSession s) :
    ∃ ls, sessionToStr s = .ok (unlines ls) ∧
      ((∀ l ∈ ls, NoBreak l) → parse (unlines ls) = .ok s ∧ roundTrip (unlines ls) = .ok (unlines ls)) := by
  obtain ⟨ls, h1, h2⟩ := session_roundtrip s hw
  refine ⟨ls, h1, ?_⟩
  intro hnb
  have hp : parse (unlines ls) = .ok s := by rw [parse_eq, splitlines_unlines ls hnb]; exact h2
  exact ⟨hp, by simp [roundTrip, hp, h1]⟩


end Aiortc.Lemmas.C09
