import Aiortc.Model.Stats
/-!
# Lemmas for C18: the specification machine on *unwrapped* sequence numbers and the refinement
# `StreamStatistics` model ⊑ specification.

`Spec` is RFC 3550 A.1/A.3/A.8 written on unbounded integers: the extended sequence number of every
packet is given (ghost), nothing wraps.  `conc g` is the `StreamStatistics` state that represents `g`.
-/
namespace Aiortc.Lemmas.Stats
open Aiortc Aiortc.Gen Aiortc.Model.Stats

/-- A packet of the arrival history with its ghost unwrapped sequence number `e`
(`sequence_number = e mod 2^16` on the wire), RTP timestamp and arrival tick. -/
structure Pkt where
  e : Int
  ts : Int
  arr : Int
  deriving Repr, DecidableEq

/-- Specification state (RFC 3550 source structure on unwrapped numbers). -/
structure Spec where
  e0 : Int         -- extended sequence number of the first packet
  maxE : Int       -- extended highest sequence number received
  n : Int          -- packets received
  j : Int          -- jitter estimate, scaled by 16 (A.8)
  prevArr : Int    -- arrival tick / timestamp of the last in-order packet
  prevTs : Int
  expPrior : Int   -- A.3 expected_prior / received_prior
  recPrior : Int
  deriving Repr, DecidableEq

def Spec.first (p : Pkt) : Spec := ⟨p.e, p.e, 1, 0, p.arr, p.ts, 0, 0⟩

/-- RFC 3550 A.8 on an in-order packet that begins a new timestamp: `D` in 32-bit arithmetic. -/
def Spec.jitterNext (g : Spec) (p : Pkt) : Int :=
  if p.ts ≠ g.prevTs then jitterStep g.j (absDiff p.arr g.prevArr p.ts g.prevTs) else g.j

def Spec.add (g : Spec) (p : Pkt) : Spec :=
  if p.e > g.maxE then
    { g with maxE := p.e, n := g.n + 1, j := g.jitterNext p, prevArr := p.arr, prevTs := p.ts }
  else { g with n := g.n + 1 }

def Spec.expected (g : Spec) : Int := g.maxE - g.e0 + 1

/-- Cumulative number of packets lost as carried in the 24-bit signed field. -/
def Spec.lost (g : Spec) : Int := clamp_packets_lost (g.expected - g.n)

/-- RFC 3550 A.3. -/
def Spec.fraction (g : Spec) : Int := fractionOf (g.expected - g.expPrior) (g.n - g.recPrior)

def Spec.closeInterval (g : Spec) : Spec := { g with expPrior := g.expected, recPrior := g.n }

/-- The state of `StreamStatistics` representing `g`. -/
def conc (g : Spec) : Stats :=
  { baseSeq := some (g.e0 % 65536), maxSeq := some (g.maxE % 65536),
    cycles := 65536 * (g.maxE / 65536) - 65536 * (g.e0 / 65536),
    received := g.n, jitterQ4 := g.j, lastArrival := some g.prevArr, lastTimestamp := some g.prevTs,
    expectedPrior := g.expPrior, receivedPrior := g.recPrior }

/-- "Reordering within half the sequence space": the packet is less than 2^15 away from the running
maximum (behind: at most 32768, ahead: at most 32767). -/
def Window (maxE e : Int) : Prop := -32768 ≤ e - maxE ∧ e - maxE < 32768

instance (m e : Int) : Decidable (Window m e) := by unfold Window; infer_instance

/-! ## signed32 / jitter step -/

theorem signed32_range (x : Int) : -2147483648 ≤ signed32 x ∧ signed32 x < 2147483648 := by
  unfold signed32; omega

theorem signed32_periodic (x k : Int) : signed32 (x + 4294967296 * k) = signed32 x := by
  unfold signed32; omega

theorem signed32_id (x : Int) (h : -2147483648 ≤ x ∧ x < 2147483648) : signed32 x = x := by
  unfold signed32; omega

theorem absDiff_range (a la t lt : Int) : 0 ≤ absDiff a la t lt ∧ absDiff a la t lt ≤ 2147483648 := by
  unfold absDiff
  have h := signed32_range ((a - la) - (t - lt))
  omega

/-- `|D|` only depends on the timestamps (and arrival ticks) modulo 2^32. -/
theorem absDiff_mod (a la t lt : Int) :
    absDiff (a % 4294967296) (la % 4294967296) (t % 4294967296) (lt % 4294967296) = absDiff a la t lt := by
  unfold absDiff
  have : (a % 4294967296 - la % 4294967296 - (t % 4294967296 - lt % 4294967296))
      = (a - la - (t - lt)) + 4294967296 * (-(a / 4294967296) + la / 4294967296 + t / 4294967296 - lt / 4294967296) := by
    omega
  rw [this, signed32_periodic]

theorem jitterStep_bound (j d : Int) (hj : 0 ≤ j ∧ j ≤ 34359738375) (hd : 0 ≤ d ∧ d ≤ 2147483648) :
    0 ≤ jitterStep j d ∧ jitterStep j d ≤ 34359738375 := by
  unfold jitterStep; omega

/-! ## one step of the refinement -/

theorem add_first (p : Pkt) :
    add init (p.e % 65536) p.ts p.arr = .ok (conc (Spec.first p)) := by
  simp [add, init, inOrder, nextCycles, nextBase, conc, Spec.first]

theorem inOrder_conc (g : Spec) (p : Pkt) (hw : Window g.maxE p.e) :
    inOrder (conc g) (p.e % 65536) = decide (p.e > g.maxE) := by
  unfold Window at hw
  simp only [inOrder, conc, uint16_gt]
  rw [Bool.eq_iff_iff]
  simp only [Bool.or_eq_true, Bool.and_eq_true, decide_eq_true_eq]
  omega

theorem nextCycles_conc (g : Spec) (p : Pkt) (hw : Window g.maxE p.e) (hgt : p.e > g.maxE) :
    nextCycles (conc g) (p.e % 65536) = 65536 * (p.e / 65536) - 65536 * (g.e0 / 65536) := by
  unfold Window at hw
  simp only [nextCycles, conc]
  split <;> omega

theorem add_conc (g : Spec) (p : Pkt) (hn : 1 ≤ g.n) (hw : Window g.maxE p.e) :
    add (conc g) (p.e % 65536) p.ts p.arr = .ok (conc (g.add p)) := by
  unfold add
  rw [inOrder_conc g p hw]
  by_cases hgt : p.e > g.maxE
  · have hc := nextCycles_conc g p hw hgt
    simp only [hgt, decide_true, if_true]
    rw [hc]
    by_cases hts : p.ts = g.prevTs
    · simp [conc, Spec.add, Spec.jitterNext, hgt, hts, nextBase]
    · simp [conc, Spec.add, Spec.jitterNext, hgt, hts, nextBase]
      omega
  · simp [hgt, conc, Spec.add, nextBase]

theorem expected_conc (g : Spec) : packetsExpected (conc g) = .ok g.expected := by
  simp only [packetsExpected, conc, Spec.expected]
  congr 1; omega

theorem lost_conc (g : Spec) : packetsLost (conc g) = .ok g.lost := by
  simp only [packetsLost, expected_conc, Spec.lost]; rfl

theorem fraction_conc (g : Spec) :
    fractionLost (conc g) = .ok (g.fraction, conc g.closeInterval) := by
  simp only [fractionLost, expected_conc, Spec.fraction]; rfl

/-- cycles + max_seq is the extended highest sequence number, relative to the cycle of the first packet. -/
theorem ext_conc (g : Spec) :
    (conc g).cycles + g.maxE % 65536 = g.maxE - (g.e0 - g.e0 % 65536) := by
  simp only [conc]; omega

/-! ## well-formedness of the specification state (what makes the figures fit) -/

structure Spec.WF (g : Spec) : Prop where
  n_pos : 1 ≤ g.n
  base_le : g.e0 ≤ g.maxE
  j_lo : 0 ≤ g.j
  j_hi : g.j ≤ 34359738375            -- 2^35 + 7
  rec_le : g.recPrior ≤ g.n
  exp_le : g.expPrior ≤ g.expected
  prog : g.expPrior < g.expected → g.recPrior < g.n

theorem wf_first (p : Pkt) : (Spec.first p).WF := by
  constructor <;> simp [Spec.first, Spec.expected]

theorem wf_add (g : Spec) (p : Pkt) (h : g.WF) : (g.add p).WF := by
  obtain ⟨h1, h2, h3, h4, h5, h6, h7⟩ := h
  unfold Spec.expected at h6 h7
  unfold Spec.add
  by_cases hgt : p.e > g.maxE
  · have hj : 0 ≤ g.jitterNext p ∧ g.jitterNext p ≤ 34359738375 := by
      unfold Spec.jitterNext
      split
      · exact jitterStep_bound _ _ ⟨h3, h4⟩ (absDiff_range _ _ _ _)
      · exact ⟨h3, h4⟩
    simp only [hgt, if_true]
    constructor <;> simp only [Spec.expected] <;> omega
  · simp only [hgt, if_false]
    constructor <;> simp only [Spec.expected] <;> omega

theorem wf_close (g : Spec) (h : g.WF) : g.closeInterval.WF := by
  obtain ⟨h1, h2, h3, h4, h5, h6, h7⟩ := h
  constructor <;> simp only [Spec.closeInterval, Spec.expected] <;> omega

/-- The A.3 fraction of a well-formed state fits 8 bits. -/
theorem fraction_range (g : Spec) (h : g.WF) : 0 ≤ g.fraction ∧ g.fraction ≤ 255 := by
  obtain ⟨h1, h2, h3, h4, h5, h6, h7⟩ := h
  unfold Spec.fraction fractionOf
  simp only
  split
  · omega
  · rename_i hc
    have hpos : 0 < g.expected - g.expPrior := by omega
    rw [Int.fdiv_eq_ediv_of_nonneg _ (by omega)]
    have hlt : g.expected - g.expPrior - (g.n - g.recPrior) < g.expected - g.expPrior := by omega
    constructor
    · apply Int.ediv_nonneg <;> omega
    · have : (g.expected - g.expPrior - (g.n - g.recPrior)) * 256 < 256 * (g.expected - g.expPrior) := by omega
      have := Int.ediv_lt_of_lt_mul hpos this
      omega

/-! ## histories: packets and report instants -/

inductive Ev where
  | pkt (p : Pkt)
  | report (ssrc lsr dlsr : Int)     -- `_run_rtcp` builds a report for this stream now
  deriving Repr, DecidableEq

/-- The model run over a history: the final `StreamStatistics` state and the `RtcpReceiverInfo` of every
report instant.  The sequence number on the wire is `e mod 2^16`. -/
def run : Stats → List Ev → Outcome (Stats × List RrInfo)
  | s, [] => .ok (s, [])
  | s, .pkt p :: rest =>
    match add s (p.e % 65536) p.ts p.arr with
    | .ok s' => run s' rest
    | .valueError => .valueError
    | .crash k => .crash k
    | .hang => .hang
  | s, .report ssrc lsr dlsr :: rest =>
    match mkInfo ssrc s lsr dlsr with
    | .ok (info, s') =>
      match run s' rest with
      | .ok (s'', infos) => .ok (s'', info :: infos)
      | .valueError => .valueError
      | .crash k => .crash k
      | .hang => .hang
    | .valueError => .valueError
    | .crash k => .crash k
    | .hang => .hang

/-- The report RFC 3550 prescribes in specification state `g`. -/
def Spec.info (g : Spec) (ssrc lsr dlsr : Int) : RrInfo :=
  { ssrc := ssrc, fractionLost := g.fraction, packetsLost := g.lost,
    highestSequence := (g.maxE - (g.e0 - g.e0 % 65536)) % 4294967296,
    jitter := g.j / 16, lsr := lsr, dlsr := dlsr }

def specRun : Spec → List Ev → Spec × List RrInfo
  | g, [] => (g, [])
  | g, .pkt p :: rest => specRun (g.add p) rest
  | g, .report ssrc lsr dlsr :: rest =>
    ((specRun g.closeInterval rest).1, g.info ssrc lsr dlsr :: (specRun g.closeInterval rest).2)

/-- The property's hypothesis on a history, relative to the running maximum. -/
def Valid : Int → List Ev → Prop
  | _, [] => True
  | m, .pkt p :: rest => Window m p.e ∧ Valid (max m p.e) rest
  | m, .report _ _ _ :: rest => Valid m rest

def numPkts : List Ev → Int
  | [] => 0
  | .pkt _ :: rest => 1 + numPkts rest
  | .report _ _ _ :: rest => numPkts rest

/-- Highest unwrapped sequence number of a history, starting from `m`. -/
def maxOf : Int → List Ev → Int
  | m, [] => m
  | m, .pkt p :: rest => maxOf (max m p.e) rest
  | m, .report _ _ _ :: rest => maxOf m rest

theorem add_maxE (g : Spec) (p : Pkt) : (g.add p).maxE = max g.maxE p.e := by
  unfold Spec.add; split <;> simp only <;> omega

theorem add_n (g : Spec) (p : Pkt) : (g.add p).n = g.n + 1 := by
  unfold Spec.add; split <;> rfl

theorem add_e0 (g : Spec) (p : Pkt) : (g.add p).e0 = g.e0 := by
  unfold Spec.add; split <;> rfl

theorem mkInfo_conc (g : Spec) (ssrc lsr dlsr : Int) :
    mkInfo ssrc (conc g) lsr dlsr = .ok (g.info ssrc lsr dlsr, conc g.closeInterval) := by
  unfold mkInfo
  rw [fraction_conc]
  simp only [lost_conc]
  have h1 : (conc g.closeInterval).maxSeq = some (g.maxE % 65536) := rfl
  have h2 : g.closeInterval.lost = g.lost := rfl
  have h3 := ext_conc g.closeInterval
  rw [h1]
  simp only [Spec.info, h2, jitter]
  congr 3
  exact congrArg (fun x => x % 4294967296) h3

/-- **Refinement**: on a valid history the model run is the specification run. -/
theorem run_conc (evs : List Ev) : ∀ g : Spec, 1 ≤ g.n → Valid g.maxE evs →
    run (conc g) evs = .ok (conc (specRun g evs).1, (specRun g evs).2) := by
  induction evs with
  | nil => intro g _ _; rfl
  | cons ev rest ih =>
    intro g hn hv
    cases ev with
    | pkt p =>
      simp only [Valid] at hv
      simp only [run, specRun, add_conc g p hn hv.1]
      apply ih
      · rw [add_n]; omega
      · rw [add_maxE]; exact hv.2
    | report ssrc lsr dlsr =>
      simp only [Valid] at hv
      simp only [run, specRun, mkInfo_conc]
      rw [ih g.closeInterval hn hv]

theorem specRun_n (evs : List Ev) : ∀ g : Spec, (specRun g evs).1.n = g.n + numPkts evs := by
  induction evs with
  | nil => intro g; simp [specRun, numPkts]
  | cons ev rest ih =>
    intro g
    cases ev with
    | pkt p => simp only [specRun, numPkts, ih, add_n]; omega
    | report a b c => simp only [specRun, numPkts, ih]; rfl

theorem specRun_maxE (evs : List Ev) : ∀ g : Spec, (specRun g evs).1.maxE = maxOf g.maxE evs := by
  induction evs with
  | nil => intro g; rfl
  | cons ev rest ih =>
    intro g
    cases ev with
    | pkt p => simp only [specRun, maxOf, ih, add_maxE]
    | report a b c => simp only [specRun, maxOf, ih]; rfl

theorem specRun_e0 (evs : List Ev) : ∀ g : Spec, (specRun g evs).1.e0 = g.e0 := by
  induction evs with
  | nil => intro g; rfl
  | cons ev rest ih =>
    intro g
    cases ev with
    | pkt p => simp only [specRun, ih, add_e0]
    | report a b c => simp only [specRun, ih]; rfl

theorem specRun_wf (evs : List Ev) : ∀ g : Spec, g.WF → (specRun g evs).1.WF := by
  induction evs with
  | nil => intro g h; exact h
  | cons ev rest ih =>
    intro g h
    cases ev with
    | pkt p => exact ih _ (wf_add g p h)
    | report a b c => exact ih _ (wf_close g h)

theorem specRun_append (a b : List Ev) : ∀ g : Spec,
    specRun g (a ++ b) = ((specRun (specRun g a).1 b).1, (specRun g a).2 ++ (specRun (specRun g a).1 b).2) := by
  induction a with
  | nil => intro g; rfl
  | cons ev rest ih =>
    intro g
    cases ev with
    | pkt p => simp only [List.cons_append, specRun, ih]
    | report x y z => simp only [List.cons_append, specRun, ih]

theorem maxOf_append (a b : List Ev) : ∀ m : Int, maxOf m (a ++ b) = maxOf (maxOf m a) b := by
  induction a with
  | nil => intro m; rfl
  | cons ev rest ih =>
    intro m
    cases ev with
    | pkt p => simp only [List.cons_append, maxOf, ih]
    | report x y z => simp only [List.cons_append, maxOf, ih]

theorem numPkts_append (a b : List Ev) : numPkts (a ++ b) = numPkts a + numPkts b := by
  induction a with
  | nil => simp [numPkts]
  | cons ev rest ih =>
    cases ev with
    | pkt p => simp only [List.cons_append, numPkts, ih]; omega
    | report x y z => simp only [List.cons_append, numPkts, ih]

theorem maxOf_ge (evs : List Ev) : ∀ m : Int, m ≤ maxOf m evs := by
  induction evs with
  | nil => intro m; exact Int.le_refl m
  | cons ev rest ih =>
    intro m
    cases ev with
    | pkt p => simp only [maxOf]; have := ih (max m p.e); omega
    | report x y z => simp only [maxOf]; exact ih m

/-! ## every wire history has a valid ghost -/

/-- The unwrapped number of wire sequence number `seq` next to the running maximum `m`. -/
def unwrapE (m seq : Int) : Int := m + ((seq - m + 32768) % 65536 - 32768)

def unwrapEvs : Int → List Ev → List Ev
  | _, [] => []
  | m, .pkt p :: rest => .pkt { p with e := unwrapE m p.e } :: unwrapEvs (max m (unwrapE m p.e)) rest
  | m, .report a b c :: rest => .report a b c :: unwrapEvs m rest

theorem unwrapE_mod (m seq : Int) : unwrapE m seq % 65536 = seq % 65536 := by
  unfold unwrapE; omega

theorem unwrapE_window (m seq : Int) : Window m (unwrapE m seq) := by
  unfold Window unwrapE; omega

theorem valid_unwrap (evs : List Ev) : ∀ m : Int, Valid m (unwrapEvs m evs) := by
  induction evs with
  | nil => intro m; trivial
  | cons ev rest ih =>
    intro m
    cases ev with
    | pkt p => exact ⟨unwrapE_window m p.e, ih _⟩
    | report a b c => exact ih m

theorem run_unwrap (evs : List Ev) : ∀ (m : Int) (s : Stats), run s (unwrapEvs m evs) = run s evs := by
  induction evs with
  | nil => intro m s; rfl
  | cons ev rest ih =>
    intro m s
    cases ev with
    | pkt p =>
      simp only [unwrapEvs, run, unwrapE_mod]
      cases add s (p.e % 65536) p.ts p.arr <;> simp only [ih]
    | report a b c =>
      simp only [unwrapEvs, run]
      cases mkInfo a s b c with
      | ok r => simp only [ih]
      | valueError => rfl
      | crash k => rfl
      | hang => rfl

theorem numPkts_unwrap (evs : List Ev) : ∀ m : Int, numPkts (unwrapEvs m evs) = numPkts evs := by
  induction evs with
  | nil => intro m; rfl
  | cons ev rest ih =>
    intro m
    cases ev with
    | pkt p => simp only [unwrapEvs, numPkts, ih]
    | report a b c => simp only [unwrapEvs, numPkts, ih]

/-! ## field widths -/

def U32 (x : Int) : Prop := 0 ≤ x ∧ x < 4294967296

/-- Every field of the report fits its RTCP field (8 / 24 signed / 32 / 32 / 32 / 32 bits, 32-bit SSRC). -/
structure Fits (i : RrInfo) : Prop where
  ssrc : U32 i.ssrc
  fraction : 0 ≤ i.fractionLost ∧ i.fractionLost ≤ 255
  lost : -8388608 ≤ i.packetsLost ∧ i.packetsLost ≤ 8388607
  highest : U32 i.highestSequence
  jitter : U32 i.jitter
  lsr : U32 i.lsr
  dlsr : U32 i.dlsr

/-- All report instants of the history are given a 32-bit SSRC / LSR / DLSR. -/
def ParamsOk : List Ev → Prop
  | [] => True
  | .pkt _ :: rest => ParamsOk rest
  | .report a b c :: rest => (U32 a ∧ U32 b ∧ U32 c) ∧ ParamsOk rest

theorem lost_range (g : Spec) : -8388608 ≤ g.lost ∧ g.lost ≤ 8388607 := by
  unfold Spec.lost clamp_packets_lost; omega

theorem info_fits (g : Spec) (h : g.WF) (ssrc lsr dlsr : Int) (hs : U32 ssrc) (hl : U32 lsr) (hd : U32 dlsr) :
    Fits (g.info ssrc lsr dlsr) := by
  have hf := fraction_range g h
  have hlost := lost_range g
  obtain ⟨h1, h2, h3, h4, h5, h6, h7⟩ := h
  constructor <;> simp only [Spec.info, U32] at * <;> omega

theorem specRun_fits (evs : List Ev) : ∀ g : Spec, g.WF → ParamsOk evs → ∀ i ∈ (specRun g evs).2, Fits i := by
  induction evs with
  | nil => intro g _ _ i hi; simp [specRun] at hi
  | cons ev rest ih =>
    intro g h hp i hi
    cases ev with
    | pkt p => exact ih _ (wf_add g p h) hp i hi
    | report a b c =>
      simp only [ParamsOk] at hp
      simp only [specRun, List.mem_cons] at hi
      rcases hi with rfl | hi
      · exact info_fits g h a b c hp.1.1 hp.1.2.1 hp.1.2.2
      · exact ih _ (wf_close g h) hp.2 i hi

theorem u32be_length (n : Nat) : (u32be n).length = 4 := rfl

theorem bytes_of_fits (i : RrInfo) (h : Fits i) : ∃ b, i.bytes = .ok b ∧ b.length = 24 := by
  obtain ⟨h1, h2, h3, h4, h5, h6, h7⟩ := h
  unfold U32 at *
  unfold RrInfo.bytes packU32? packU8? packPacketsLost?
  have e1 : (0 ≤ i.ssrc ∧ i.ssrc < 4294967296) := h1
  have e3 : (-2147483648 ≤ i.packetsLost ∧ i.packetsLost < 2147483648) := by omega
  have e2 : (0 ≤ i.fractionLost ∧ i.fractionLost < 256) := by omega
  simp only [e1, e2, e3, h4, h5, h6, h7, and_self, if_true]
  exact ⟨_, rfl, rfl⟩

theorem paramsOk_unwrap (evs : List Ev) : ∀ m : Int, ParamsOk (unwrapEvs m evs) ↔ ParamsOk evs := by
  induction evs with
  | nil => intro m; exact Iff.rfl
  | cons ev rest ih =>
    intro m
    cases ev with
    | pkt p => simp only [unwrapEvs, ParamsOk, ih]
    | report a b c => simp only [unwrapEvs, ParamsOk, ih]

/-- Every history (arbitrary integers) runs like its unwrapped ghost, which the specification explains. -/
theorem run_all (p0 : Pkt) (evs : List Ev) :
    run init (.pkt p0 :: evs)
      = .ok (conc (specRun (Spec.first p0) (unwrapEvs p0.e evs)).1,
             (specRun (Spec.first p0) (unwrapEvs p0.e evs)).2) := by
  simp only [run, add_first]
  rw [← run_unwrap evs p0.e]
  exact run_conc _ (Spec.first p0) (by simp [Spec.first]) (valid_unwrap evs p0.e)

theorem run_valid (p0 : Pkt) (evs : List Ev) (hv : Valid p0.e evs) :
    run init (.pkt p0 :: evs)
      = .ok (conc (specRun (Spec.first p0) evs).1, (specRun (Spec.first p0) evs).2) := by
  simp only [run, add_first]
  exact run_conc _ (Spec.first p0) (by simp [Spec.first]) hv

/-! ## stretches of packets without a report -/

theorem specRun_pkts_infos (l : List Pkt) : ∀ g : Spec, (specRun g (l.map Ev.pkt)).2 = [] := by
  induction l with
  | nil => intro g; rfl
  | cons p r ih => intro g; simp only [List.map_cons, specRun, ih]

theorem numPkts_pkts (l : List Pkt) : numPkts (l.map Ev.pkt) = l.length := by
  induction l with
  | nil => rfl
  | cons p r ih => simp only [List.map_cons, numPkts, ih, List.length_cons]; omega

theorem specRun_pkts_priors (l : List Pkt) : ∀ g : Spec,
    (specRun g (l.map Ev.pkt)).1.expPrior = g.expPrior ∧ (specRun g (l.map Ev.pkt)).1.recPrior = g.recPrior := by
  induction l with
  | nil => intro g; exact ⟨rfl, rfl⟩
  | cons p r ih =>
    intro g
    simp only [List.map_cons, specRun]
    rw [(ih _).1, (ih _).2]
    unfold Spec.add; split <;> exact ⟨rfl, rfl⟩

end Aiortc.Lemmas.Stats
