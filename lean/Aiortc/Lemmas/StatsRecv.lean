import Aiortc.Lemmas.Stats
/-!
# Lemmas for C18, receiver level: every per-SSRC `StreamStatistics` of a reachable `RTCRtpReceiver`
# represents a well-formed specification state, so one iteration of `_run_rtcp` cannot raise.
-/
namespace Aiortc.Lemmas.Stats
open Aiortc Aiortc.Gen Aiortc.Model.Stats

def GoodStream (x : Int × Stats) : Prop := U32 x.1 ∧ ∃ g : Spec, g.WF ∧ x.2 = conc g

/-- Invariant of the receiver: SSRC keys are 32-bit, every stream is explained by the specification,
stored LSR values are 32-bit. -/
def GoodRecv (r : Receiver) : Prop := (∀ x ∈ r.streams, GoodStream x) ∧ (∀ y ∈ r.lsr, U32 y.2)

theorem lookup_mem {β} (k : Int) (v : β) : ∀ l : List (Int × β), lookup k l = some v → (k, v) ∈ l := by
  intro l
  induction l with
  | nil => intro h; simp [lookup] at h
  | cons x rest ih =>
    obtain ⟨k', v'⟩ := x
    intro h
    unfold lookup at h
    split at h
    · rename_i hk
      injection h with h
      subst h; subst hk
      exact List.mem_cons_self
    · exact List.mem_cons_of_mem _ (ih h)

theorem assign_mem {β} (k : Int) (v : β) : ∀ (l : List (Int × β)) (x : Int × β),
    x ∈ assign k v l → x = (k, v) ∨ x ∈ l := by
  intro l
  induction l with
  | nil => intro x h; simp [assign] at h; exact Or.inl h
  | cons y rest ih =>
    obtain ⟨k', v'⟩ := y
    intro x h
    unfold assign at h
    split at h
    · rcases List.mem_cons.1 h with h | h
      · exact Or.inl h
      · exact Or.inr (List.mem_cons_of_mem _ h)
    · rcases List.mem_cons.1 h with h | h
      · exact Or.inr (h ▸ List.mem_cons_self)
      · rcases ih x h with h | h
        · exact Or.inl h
        · exact Or.inr (List.mem_cons_of_mem _ h)

theorem assign_length_le {β} (k : Int) (v : β) : ∀ l : List (Int × β), (assign k v l).length ≤ l.length + 1 := by
  intro l
  induction l with
  | nil => simp [assign]
  | cons y rest ih =>
    obtain ⟨k', v'⟩ := y
    unfold assign
    split <;> simp only [List.length_cons] <;> omega

/-- Feeding an RTP packet with a 16-bit sequence number and a 32-bit SSRC keeps the invariant and never raises. -/
theorem rtp_good (r : Receiver) (h : GoodRecv r) (ssrc seq ts arr : Int) (hs : U32 ssrc)
    (hq : 0 ≤ seq ∧ seq < 65536) :
    ∃ r', r.rtp ssrc seq ts arr = .ok r' ∧ GoodRecv r' ∧ r'.streams.length ≤ r.streams.length + 1 := by
  simp only [Receiver.rtp]
  have key : ∃ g : Spec, g.WF ∧
      add (r.streamOf ssrc) seq ts arr = .ok (conc g) := by
    unfold Receiver.streamOf
    cases hl : lookup ssrc r.streams with
    | none =>
      refine ⟨Spec.first ⟨seq, ts, arr⟩, wf_first _, ?_⟩
      have := add_first ⟨seq, ts, arr⟩
      simp only at this
      rw [show seq % 65536 = seq by omega] at this
      exact this
    | some s =>
      obtain ⟨_, g, hg, hc⟩ := h.1 _ (lookup_mem ssrc s _ hl)
      simp only at hc
      subst hc
      refine ⟨g.add ⟨unwrapE g.maxE seq, ts, arr⟩, wf_add _ _ hg, ?_⟩
      have := add_conc g ⟨unwrapE g.maxE seq, ts, arr⟩ hg.n_pos (unwrapE_window _ _)
      simp only [unwrapE_mod] at this
      rw [show seq % 65536 = seq by omega] at this
      exact this
  obtain ⟨g, hg, hadd⟩ := key
  rw [hadd]
  refine ⟨_, rfl, ⟨?_, h.2⟩, assign_length_le _ _ _⟩
  intro x hx
  rcases assign_mem _ _ _ x hx with hx | hx
  · subst hx; exact ⟨hs, g, hg, rfl⟩
  · exact h.1 x hx

theorem lsrOf_u32 (ntp : Int) : U32 (lsrOf ntp) := by unfold U32 lsrOf; omega

theorem dlsrOf_u32 (num den : Int) (hden : 0 < den) : U32 (dlsrOf num den) := by
  unfold U32 dlsrOf
  split
  · constructor
    · apply Int.ediv_nonneg <;> omega
    · apply Int.ediv_lt_of_lt_mul hden
      omega
  · omega

theorem sr_good (r : Receiver) (h : GoodRecv r) (ssrc ntp : Int) : GoodRecv (r.sr ssrc ntp) := by
  refine ⟨h.1, ?_⟩
  intro y hy
  rcases assign_mem _ _ _ y hy with hy | hy
  · subst hy; exact lsrOf_u32 ntp
  · exact h.2 y hy

/-- The loop of `_run_rtcp` over good streams: all reports are built, each fits, the streams stay good. -/
theorem buildReports_good (lsrs : List (Int × Int)) (hl : ∀ y ∈ lsrs, U32 y.2) :
    ∀ (streams : List (Int × Stats)) (delays : List (Int × Int)),
      (∀ x ∈ streams, GoodStream x) → (∀ d ∈ delays, 0 < d.2) →
      ∃ infos streams', buildReports streams lsrs delays = .ok (infos, streams') ∧
        (∀ i ∈ infos, Fits i) ∧ infos.length = streams.length ∧ streams'.length = streams.length ∧
        (∀ x ∈ streams', GoodStream x) := by
  intro streams
  induction streams with
  | nil => intro d _ _; exact ⟨[], [], rfl, by simp, rfl, rfl, by simp⟩
  | cons x rest ih =>
    obtain ⟨ssrc, s⟩ := x
    intro delays hg hd
    obtain ⟨hs, g, hwf, hc⟩ := hg (ssrc, s) List.mem_cons_self
    simp only at hs hc
    subst hc
    have hrest : ∀ x ∈ rest, GoodStream x := fun x hx => hg x (List.mem_cons_of_mem _ hx)
    -- the (lsr, dlsr, remaining delays) triple chosen for this stream
    have key : ∃ l dl ds, U32 l ∧ U32 dl ∧ (∀ d ∈ ds, 0 < d.2) ∧ pickLsr ssrc lsrs delays = (l, dl, ds) := by
      unfold pickLsr
      cases hlk : lookup ssrc lsrs with
      | none => exact ⟨0, 0, delays, by unfold U32; omega, by unfold U32; omega, hd, rfl⟩
      | some l =>
        have hl' : U32 l := hl _ (lookup_mem ssrc l _ hlk)
        cases delays with
        | nil => exact ⟨l, 0, [], hl', by unfold U32; omega, by simp, rfl⟩
        | cons nd ds =>
          obtain ⟨n, d⟩ := nd
          exact ⟨l, dlsrOf n d, ds, hl', dlsrOf_u32 n d (hd (n, d) List.mem_cons_self),
            fun x hx => hd x (List.mem_cons_of_mem _ hx), rfl⟩
    obtain ⟨l, dl, ds, hl1, hdl, hds, heq⟩ := key
    obtain ⟨infos, streams', hb, hf, hlen, hlen', hgood⟩ := ih ds hrest hds
    simp only [buildReports, heq, mkInfo_conc, hb]
    refine ⟨_, _, rfl, ?_, by simp [hlen], by simp [hlen'], ?_⟩
    · intro i hi
      rcases List.mem_cons.1 hi with hi | hi
      · subst hi; exact info_fits g hwf ssrc l dl hs hl1 hdl
      · exact hf i hi
    · intro x hx
      rcases List.mem_cons.1 hx with hx | hx
      · subst hx; exact ⟨hs, g.closeInterval, wf_close g hwf, rfl⟩
      · exact hgood x hx

theorem concatBytes_fits : ∀ infos : List RrInfo, (∀ i ∈ infos, Fits i) →
    ∃ b, concatBytes infos = .ok b ∧ b.length = 24 * infos.length := by
  intro infos
  induction infos with
  | nil => intro _; exact ⟨[], rfl, rfl⟩
  | cons i rest ih =>
    intro h
    obtain ⟨b, hb, hbl⟩ := bytes_of_fits i (h i List.mem_cons_self)
    obtain ⟨bs, hbs, hbsl⟩ := ih (fun x hx => h x (List.mem_cons_of_mem _ hx))
    unfold concatBytes
    simp only [hb, hbs]
    exact ⟨_, rfl, by simp only [List.length_append, List.length_cons, hbl, hbsl]; omega⟩

theorem packU8_ok (n : Int) (h : 0 ≤ n ∧ n < 256) : packU8? n = some (u8 n.toNat) := by
  unfold packU8?; simp only [h, and_self, if_true]

theorem packU16_ok (n : Int) (h : 0 ≤ n ∧ n < 65536) : packU16? n = some (u16be n.toNat) := by
  unfold packU16?; simp only [h, and_self, if_true]

theorem packU32_ok (n : Int) (h : 0 ≤ n ∧ n < 4294967296) : packU32? n = some (u32be n.toNat) := by
  unfold packU32?; simp only [h, and_self, if_true]

/-- `bytes(RtcpRrPacket)` for fitting reports: 8 + 24·count bytes, as long as `(2 << 6) | count` is a byte. -/
theorem rrPacketBytes_ok (ssrc : Int) (hs : U32 ssrc) (infos : List RrInfo) (hf : ∀ i ∈ infos, Fits i)
    (hc : infos.length < 256) :
    ∃ b, rrPacketBytes ssrc infos = .ok b ∧ b.length = 8 + 24 * infos.length := by
  obtain ⟨body, hbody, hlen⟩ := concatBytes_fits infos hf
  unfold rrPacketBytes
  rw [packU32_ok ssrc hs]
  simp only [hbody]
  have hpl : (u32be ssrc.toNat ++ body).length = 4 + 24 * infos.length := by
    simp only [List.length_append, hlen]; rfl
  have h4 : ¬ ((u32be ssrc.toNat ++ body).length % 4 ≠ 0) := by rw [hpl]; omega
  simp only [h4, if_false]
  have hor : (128 ||| infos.length) < 256 := Nat.or_lt_two_pow (n := 8) (by omega) (by omega)
  rw [packU8_ok _ (by omega), packU8_ok _ (by decide), packU16_ok _ (by rw [hpl]; omega)]
  refine ⟨_, rfl, ?_⟩
  simp only [List.length_append, hlen, u8, u16be, u32be, List.length_cons, List.length_nil]
  omega

/-- One iteration of `_run_rtcp` on a good receiver with fewer than 256 streams never raises; what is
sent (if anything) has 8 + 24·streams bytes; the invariant is kept. -/
theorem runRtcp_good (r : Receiver) (h : GoodRecv r) (rtcp : Option Int) (hr : ∀ s, rtcp = some s → U32 s)
    (delays : List (Int × Int)) (hd : ∀ d ∈ delays, 0 < d.2) (hc : r.streams.length < 256) :
    ∃ out r', r.runRtcp rtcp delays = .ok (out, r') ∧ GoodRecv r' ∧ r'.streams.length = r.streams.length ∧
      (∀ b, out = some b → b.length = 8 + 24 * r.streams.length) := by
  obtain ⟨infos, streams', hb, hf, hlen, hlen', hgood⟩ := buildReports_good r.lsr h.2 r.streams delays h.1 hd
  unfold Receiver.runRtcp
  simp only [hb]
  cases rtcp with
  | none => exact ⟨none, _, rfl, ⟨hgood, h.2⟩, hlen', by simp⟩
  | some ssrc =>
    simp only
    by_cases he : infos.isEmpty = true
    · simp only [he, if_true]
      exact ⟨none, _, rfl, ⟨hgood, h.2⟩, hlen', by simp⟩
    · obtain ⟨b, hbb, hbl⟩ := rrPacketBytes_ok ssrc (hr ssrc rfl) infos hf (by omega)
      simp only [he, hbb]
      refine ⟨some b, _, rfl, ⟨hgood, h.2⟩, hlen', ?_⟩
      intro b' hb'
      injection hb' with hb'
      subst hb'
      rw [hbl, hlen]

theorem statsLoop_good : ∀ (streams : List (Int × Stats)) (acc : Option (Int × Int × Int)),
    (∀ x ∈ streams, GoodStream x) → ∃ o, statsLoop streams acc = .ok o := by
  intro streams
  induction streams with
  | nil => intro acc _; exact ⟨acc, rfl⟩
  | cons x rest ih =>
    obtain ⟨k, s⟩ := x
    intro acc h
    obtain ⟨_, g, _, hc⟩ := h (k, s) List.mem_cons_self
    simp only at hc
    subst hc
    unfold statsLoop
    simp only [lost_conc]
    exact ih _ (fun x hx => h x (List.mem_cons_of_mem _ hx))

theorem or128 (n : Nat) (h : n < 128) : 128 ||| n = 128 + n := by
  have : ∀ k : Fin 128, 128 ||| k.val = 128 + k.val := by decide
  exact this ⟨n, h⟩

/-- The RR datagram for up to 31 fitting reports, explicitly: `0x80 | count`, 201, length in words − 1,
sender SSRC, report blocks. -/
theorem rrPacketBytes_header (ssrc : Int) (hs : U32 ssrc) (infos : List RrInfo) (hf : ∀ i ∈ infos, Fits i)
    (hc : infos.length ≤ 31) :
    ∃ body, concatBytes infos = .ok body ∧ body.length = 24 * infos.length ∧
      rrPacketBytes ssrc infos
        = .ok ((128 + infos.length) :: 201 :: (u16be (1 + 6 * infos.length) ++ (u32be ssrc.toNat ++ body))) := by
  obtain ⟨body, hbody, hlen⟩ := concatBytes_fits infos hf
  refine ⟨body, hbody, hlen, ?_⟩
  unfold rrPacketBytes
  rw [packU32_ok ssrc hs]
  simp only [hbody]
  have hpl : (u32be ssrc.toNat ++ body).length = 4 + 24 * infos.length := by
    simp only [List.length_append, hlen]; rfl
  have h4 : ¬ ((u32be ssrc.toNat ++ body).length % 4 ≠ 0) := by rw [hpl]; omega
  simp only [h4, if_false]
  have hor : 128 ||| infos.length = 128 + infos.length := or128 _ (by omega)
  rw [packU8_ok _ (by rw [hor]; omega), packU8_ok _ (by decide), packU16_ok _ (by rw [hpl]; omega)]
  simp only [Int.toNat_natCast, hor, hpl, u8]
  have e1 : (128 + infos.length) % 256 = 128 + infos.length := Nat.mod_eq_of_lt (by omega)
  have e2 : (4 + 24 * infos.length) / 4 = 1 + 6 * infos.length := by omega
  have e3 : RTCP_RR % 256 = 201 := by decide
  rw [e1, e2, e3]
  rfl

/-- Receiver states reachable by RTP packets (16-bit sequence number, 32-bit SSRC), sender reports and
iterations of `_run_rtcp` (any delays with positive denominators, fewer than 256 streams). -/
inductive RReach (rtcp : Option Int) : Receiver → Prop
  | init : RReach rtcp Receiver.init
  | rtp {r r' : Receiver} (ssrc seq ts arr : Int) : RReach rtcp r → U32 ssrc → (0 ≤ seq ∧ seq < 65536) →
      r.rtp ssrc seq ts arr = .ok r' → RReach rtcp r'
  | sr {r : Receiver} (ssrc ntp : Int) : RReach rtcp r → RReach rtcp (r.sr ssrc ntp)
  | rr {r r' : Receiver} {out : Option Bytes} (delays : List (Int × Int)) : RReach rtcp r →
      (∀ d ∈ delays, 0 < d.2) → r.streams.length < 256 →
      r.runRtcp rtcp delays = .ok (out, r') → RReach rtcp r'

theorem reach_good (rtcp : Option Int) (hr : ∀ s, rtcp = some s → U32 s) (r : Receiver) (h : RReach rtcp r) :
    GoodRecv r := by
  induction h with
  | init => exact ⟨by simp [Receiver.init], by simp [Receiver.init]⟩
  | rtp ssrc seq ts arr _ hs hq heq ih =>
    obtain ⟨r'', h1, h2, _⟩ := rtp_good _ ih ssrc seq ts arr hs hq
    rw [h1] at heq
    injection heq with heq
    subst heq
    exact h2
  | sr ssrc ntp _ ih => exact sr_good _ ih ssrc ntp
  | rr delays _ hd hc heq ih =>
    obtain ⟨out', r'', h1, h2, _⟩ := runRtcp_good _ ih rtcp hr delays hd hc
    rw [h1] at heq
    injection heq with heq
    injection heq with _ heq
    subst heq
    exact h2

end Aiortc.Lemmas.Stats
