import Aiortc.Lemmas.Video.Stream
/-!
# A run of equal timestamps that ends at a timestamp change is (a tail of) ONE sender frame

`frames` are the sender's frames as lists of jitter-buffer packets: non-empty, one timestamp per frame,
adjacent frames with different timestamps.  The sender's stream is `frames.flatten`.
-/
namespace Aiortc.Lemmas.Video
open Aiortc Aiortc.Model.Jitter

set_option linter.unusedVariables false

structure FramesOK (frames : List (List Packet)) : Prop where
  nonempty : ∀ fr ∈ frames, fr ≠ []
  onets : ∀ fr ∈ frames, ∀ a ∈ fr, ∀ b ∈ fr, a.ts = b.ts
  adj : ∀ k fr1 fr2, frames[k]? = some fr1 → frames[k + 1]? = some fr2 → ∀ a ∈ fr1, ∀ b ∈ fr2, a.ts ≠ b.ts

theorem FramesOK.tail {fr : List Packet} {rest : List (List Packet)} (h : FramesOK (fr :: rest)) : FramesOK rest :=
  ⟨fun f hf => h.nonempty f (List.mem_cons_of_mem _ hf), fun f hf => h.onets f (List.mem_cons_of_mem _ hf),
   fun k f1 f2 h1 h2 => h.adj (k + 1) f1 f2 (by simpa using h1) (by simpa using h2)⟩

/-- List form: `frames.flatten = L ++ used ++ q' :: R`, `used` non-empty with one timestamp `t`, `q'.ts ≠ t`. -/
theorem run_is_frame_list : ∀ (frames : List (List Packet)), FramesOK frames →
    ∀ (L used R : List Packet) (q' : Packet) (t : Int),
      frames.flatten = L ++ (used ++ q' :: R) → used ≠ [] → (∀ q ∈ used, q.ts = t) → q'.ts ≠ t →
      ∃ (k : Nat) (fr pre : List Packet), frames[k]? = some fr ∧ fr = pre ++ used ∧
        ((L = [] ∨ ∃ l0, L.getLast? = some l0 ∧ l0.ts ≠ t) → pre = []) := by
  intro frames
  induction frames with
  | nil => intro _ L used R q' t h hne; simp at h
  | cons fr rest ih =>
    intro hF L used R q' t h hne hts hq
    have hfr : fr ≠ [] := hF.nonempty fr List.mem_cons_self
    rw [List.flatten_cons] at h
    -- the shared sub-case: `rest.flatten = L' ++ used ++ …` with `L = fr ++ L'`
    have caseRest : ∀ L', L = fr ++ L' → rest.flatten = L' ++ (used ++ q' :: R) →
        ∃ (k : Nat) (fr' pre : List Packet), (fr :: rest)[k]? = some fr' ∧ fr' = pre ++ used ∧
          ((L = [] ∨ ∃ l0, L.getLast? = some l0 ∧ l0.ts ≠ t) → pre = []) := by
      intro L' hL hrest
      obtain ⟨k, fr', pre, h1, h2, h3⟩ := ih hF.tail L' used R q' t hrest hne hts hq
      refine ⟨k + 1, fr', pre, by simpa using h1, h2, ?_⟩
      intro hc
      apply h3
      rcases hc with hc | ⟨l0, hl0, hl0t⟩
      · rw [hL] at hc; simp at hc; exact absurd hc.1 hfr
      · by_cases hL' : L' = []
        · exact Or.inl hL'
        · right
          rw [hL, List.getLast?_append] at hl0
          cases hl : L'.getLast? with
          | none => exact absurd (List.getLast?_eq_none_iff.1 hl) hL'
          | some x =>
            rw [hl] at hl0; simp at hl0
            exact ⟨l0, by rw [hl0], hl0t⟩
    rcases List.append_eq_append_iff.1 h with ⟨a', hL, hrest⟩ | ⟨M, hfrM, hM⟩
    · exact caseRest a' hL hrest
    · by_cases hMe : M = []
      · subst hMe
        simp at hfrM hM
        exact caseRest [] (by simp [hfrM]) (by simpa using hM.symm)
      · -- `used` starts inside `fr`
        obtain ⟨u0, us, hu⟩ : ∃ u0 us, used = u0 :: us := by
          cases used with
          | nil => exact absurd rfl hne
          | cons a b => exact ⟨a, b, rfl⟩
        obtain ⟨m0, ms, hm⟩ : ∃ m0 ms, M = m0 :: ms := by
          cases M with
          | nil => exact absurd rfl hMe
          | cons a b => exact ⟨a, b, rfl⟩
        have hhead : m0 = u0 := by
          rw [hu, hm] at hM; simp at hM; exact hM.1.symm
        have hfrt : ∀ a ∈ fr, a.ts = t := by
          intro a ha
          have hm0 : m0 ∈ fr := by rw [hfrM, hm]; simp
          rw [hF.onets fr List.mem_cons_self a ha m0 hm0, hhead]
          exact hts u0 (by rw [hu]; simp)
        have hMfr : ∀ a ∈ M, a ∈ fr := by intro a ha; rw [hfrM]; exact List.mem_append_right _ ha
        have hMused : M = used := by
          rcases List.append_eq_append_iff.1 hM with ⟨a', hua, hra⟩ | ⟨c', hMc, hqc⟩
          · -- used = M ++ a' ... wait: hM : used ++ q' :: R = M ++ rest.flatten
            -- here: M = used ++ a', q' :: R = a' ++ rest.flatten
            cases a' with
            | nil => simpa using hua
            | cons x xs =>
              exfalso
              simp at hra
              have : q' ∈ M := by rw [hua, ← hra.1]; simp
              exact hq (hfrt q' (hMfr q' this))
          · -- used = M ++ c', rest.flatten = c' ++ q' :: R
            cases c' with
            | nil => simpa using hMc.symm
            | cons x xs =>
              exfalso
              have hx : x.ts = t := hts x (by rw [hMc]; simp)
              cases rest with
              | nil => simp at hqc
              | cons fr2 rest' =>
                have hfr2 : fr2 ≠ [] := hF.nonempty fr2 (by simp)
                obtain ⟨y, ys, hy⟩ : ∃ y ys, fr2 = y :: ys := by
                  cases fr2 with
                  | nil => exact absurd rfl hfr2
                  | cons a b => exact ⟨a, b, rfl⟩
                rw [List.flatten_cons, hy] at hqc
                simp at hqc
                have hxy : y = x := hqc.1
                have hm0 : m0 ∈ fr := hMfr m0 (by rw [hm]; simp)
                have := hF.adj 0 fr fr2 (by simp) (by simp) m0 hm0 y (by rw [hy]; simp)
                rw [hfrt m0 hm0, hxy, hx] at this
                exact this rfl
        refine ⟨0, fr, L, by simp, by rw [hfrM, hMused], ?_⟩
        rintro (hc | ⟨l0, hl0, hl0t⟩)
        · exact hc
        · exfalso
          have : l0 ∈ fr := by
            rw [hfrM]; exact List.mem_append_left _ (List.mem_of_getLast? hl0)
          exact hl0t (hfrt l0 this)

theorem drop_of_run (stream used : List Packet) (a : Nat) (q' : Packet)
    (hrun : ∀ k q, used[k]? = some q → stream[a + k]? = some q) (hq : stream[a + used.length]? = some q') :
    stream.drop a = used ++ q' :: stream.drop (a + used.length + 1) := by
  apply List.ext_getElem?
  intro i
  rw [List.getElem?_drop]
  rcases Nat.lt_trichotomy i used.length with h | h | h
  · rw [List.getElem?_append_left h]
    have : used[i]? = some used[i] := List.getElem?_eq_getElem h
    rw [this]; exact hrun i _ this
  · subst h
    rw [List.getElem?_append_right (Nat.le_refl _)]; simp; exact hq
  · rw [List.getElem?_append_right (by omega)]
    obtain ⟨d, hd⟩ : ∃ d, i - used.length = d + 1 := ⟨i - used.length - 1, by omega⟩
    rw [hd, List.getElem?_cons_succ, List.getElem?_drop]
    congr 1; omega

/-- The origin index `a` is at a frame boundary of the stream. -/
def FrameStartIdx (stream : List Packet) (a : Nat) : Prop :=
  a = 0 ∨ ∃ q0 q1, stream[a - 1]? = some q0 ∧ stream[a]? = some q1 ∧ q0.ts ≠ q1.ts

/-- Index form: a run released by the jitter buffer is a tail of one sender frame, and the whole frame when it
starts at a frame boundary. -/
theorem run_is_frame {frames : List (List Packet)} (hF : FramesOK frames) {a : Nat} {f : Frame} {used : List Packet}
    (hR : RunAt frames.flatten a f used) :
    ∃ (k : Nat) (fr pre : List Packet), frames[k]? = some fr ∧ fr = pre ++ used ∧
      (FrameStartIdx frames.flatten a → pre = []) := by
  obtain ⟨hne, hrun, hdata, hts, q', hq', hqts⟩ := hR
  have hdrop := drop_of_run frames.flatten used a q' hrun hq'
  have hsplit : frames.flatten = frames.flatten.take a ++ (used ++ q' :: frames.flatten.drop (a + used.length + 1)) := by
    rw [← hdrop, List.take_append_drop]
  obtain ⟨k, fr, pre, h1, h2, h3⟩ := run_is_frame_list frames hF _ used _ q' f.ts hsplit hne hts hqts
  refine ⟨k, fr, pre, h1, h2, ?_⟩
  intro hs
  apply h3
  rcases hs with hs | ⟨q0, q1, h0, h1', hne'⟩
  · left; rw [hs]; simp
  · by_cases ha : a = 0
    · left; rw [ha]; simp
    · right
      obtain ⟨u0, us, hu⟩ : ∃ u0 us, used = u0 :: us := by
        cases used with
        | nil => exact absurd rfl hne
        | cons x y => exact ⟨x, y, rfl⟩
      have hu0 : frames.flatten[a]? = some u0 := by
        have := hrun 0 u0 (by rw [hu]; rfl)
        simpa using this
      rw [h1'] at hu0; injection hu0 with hu0
      refine ⟨q0, ?_, ?_⟩
      · rw [List.getLast?_take, if_neg ha, h0]; rfl
      · rw [← hts u0 (by rw [hu]; simp), ← hu0]; exact hne'

end Aiortc.Lemmas.Video
