import Aiortc.Lemmas.JitterAddSpec
/-!
# `JitterBuffer.add`, second specification: which branch ran and where the origin went

`Lemmas/JitterAdd*.lean` (C10) hides the branch taken inside `Mid`.  C11 needs to know, per call, whether the
buffer was restarted at the arriving packet (first packet / reset after a ≥100-late arrival / overflow that
emptied the buffer), advanced by `k` slots (overflow), or left alone — and what `pli_flag` is in each case.
-/
namespace Aiortc.Lemmas.Jitter
open Aiortc Aiortc.Gen Aiortc.Model.Jitter

set_option linter.unusedVariables false

/-- `misorder < delta` of `add` for origin `o`. -/
def LateC (o : Int) (p : Packet) : Prop := uint16_add o (-p.seq) < dist o p

/-- The state `jb2` (origin `o2`, flag `pli`) in which `add jb p` places the packet. -/
def Branch (jb : JB) (p : Packet) (jb2 : JB) (o2 : Int) (pli : Bool) : Prop :=
  -- first packet
  (jb.origin = none ∧ o2 = p.seq ∧ (∀ s q, ¬ Held jb2 s q) ∧ pli = false) ∨
  -- reset: 100 or more positions late
  (∃ o, jb.origin = some o ∧ LateC o p ∧ (MAX_MISORDER : Int) ≤ uint16_add o (-p.seq) ∧ o2 = p.seq ∧
      (∀ s q, ¬ Held jb2 s q) ∧ pli = jb.isVideo) ∨
  -- the packet fits
  (∃ o, jb.origin = some o ∧ ¬ LateC o p ∧ dist o p < jb.capacity ∧ o2 = o ∧
      (∀ s q, Held jb2 s q ↔ Held jb s q) ∧ pli = false) ∨
  -- overflow, buffer emptied
  (∃ o, jb.origin = some o ∧ ¬ LateC o p ∧ (jb.capacity : Int) ≤ dist o p ∧ o2 = p.seq ∧
      (∀ s q, ¬ Held jb2 s q) ∧ pli = jb.isVideo) ∨
  -- overflow, origin advanced by k
  (∃ o, ∃ k : Nat, jb.origin = some o ∧ ¬ LateC o p ∧ (jb.capacity : Int) ≤ dist o p ∧ k < jb.capacity ∧
      o2 = (o + (k : Int)) % 65536 ∧ (∀ s q, Held jb2 s q ↔ (Held jb s q ∧ (k : Int) ≤ dist o q)) ∧ pli = jb.isVideo)

def AddPost2 (jb : JB) (p : Packet) (out : AddOut) : Prop :=
  (∃ o, jb.origin = some o ∧ LateC o p ∧ uint16_add o (-p.seq) < (MAX_MISORDER : Int) ∧
      out.jb = jb ∧ out.pli = false ∧ out.frame = none ∧ out.used = []) ∨
  (∃ jb2 o2 jb3, Same jb jb2 ∧ Inv jb2 ∧ jb2.origin = some o2 ∧ dist o2 p < jb.capacity ∧
      Branch jb p jb2 o2 out.pli ∧ Placed jb2 p jb3 ∧ RFPost jb3 o2 out.jb out.frame out.used)

theorem add_finish2 {jb jb2 : JB} {p : Packet} {o2 : Int} {pli : Bool} (hp : R16 p.seq)
    (hS : Same jb jb2) (hI2 : Inv jb2) (ho2 : jb2.origin = some o2) (hn : dist o2 p < jb.capacity)
    (hB : Branch jb p jb2 o2 pli) : ∃ out, addPlace jb2 p pli = .ok out ∧ AddPost2 jb p out := by
  obtain ⟨out, jb3, e, hpli, hPl, hRF⟩ := addPlace_spec hI2 ho2 p hp (by rw [← hS.1]; exact hn) pli
  exact ⟨out, e, Or.inr ⟨jb2, o2, jb3, hS, hI2, ho2, hn, by rw [hpli]; exact hB, hPl, hRF⟩⟩

theorem add_spec2 {jb : JB} (hI : Inv jb) (p : Packet) (hp : R16 p.seq) :
    ∃ out, add jb p = .ok out ∧ AddPost2 jb p out := by
  have hcap : ¬ ((0 : Int) ≥ (jb.capacity : Int)) := by have := hI.cap_pos; omega
  cases ho : jb.origin with
  | none =>
    have hE : ∀ s q, ¬ Held ({ jb with origin := some p.seq } : JB) s q := fun s q h => hI.empty ho s q h
    have hI2 : Inv ({ jb with origin := some p.seq } : JB) :=
      inv_of_empty hI.cap_pos hI.cap_dvd hI.len p.seq rfl hp hE
    obtain ⟨out, e, hA⟩ := add_finish2 (jb := jb) (jb2 := { jb with origin := some p.seq }) hp ⟨rfl, rfl, rfl⟩ hI2 rfl
      (by rw [dist_self]; have := hI.cap_pos; omega) (Or.inl ⟨ho, rfl, hE, rfl⟩)
    refine ⟨out, ?_, hA⟩
    simp only [add, addDist, ho, addMisorder, Int.lt_irrefl, if_false, addOverflow, hcap]
    exact e
  | some o =>
    have hO := hI.orig o ho
    have hdr := dist_range o p
    by_cases hlate : uint16_add o (-p.seq) < dist o p
    · by_cases hmax : uint16_add o (-p.seq) ≥ (MAX_MISORDER : Int)
      · obtain ⟨jb1, e1, hS1, ho1, hI1, hl1, hH1⟩ := remove_spec hI ho jb.capacity (Nat.le_refl _)
        have hE := no_held_of_shift_cap hI ho rfl hH1
        have hE' : ∀ s q, ¬ Held ({ jb1 with origin := some p.seq } : JB) s q := fun s q h => hE s q h
        have hI2 : Inv ({ jb1 with origin := some p.seq } : JB) :=
          inv_of_empty hI1.cap_pos hI1.cap_dvd hI1.len p.seq rfl hp hE
        obtain ⟨out, e, hA⟩ := add_finish2 (jb := jb) (jb2 := { jb1 with origin := some p.seq }) (pli := jb1.isVideo) hp hS1 hI2 rfl
          (by rw [dist_self]; have := hI.cap_pos; omega)
          (Or.inr (Or.inl ⟨o, ho, hlate, hmax, rfl, hE', hS1.2.2.symm⟩))
        refine ⟨out, ?_, hA⟩
        have hcap1 : ¬ ((0 : Int) ≥ (jb1.capacity : Int)) := by rw [← hS1.1]; exact hcap
        simp only [add, addDist, ho, addMisorder, uint16_sub_eq_dist, hlate, hmax, if_true, e1, addOverflow, hcap1,
          if_false]
        exact e
      · refine ⟨⟨jb, false, none, []⟩, ?_, Or.inl ⟨o, ho, hlate, by omega, rfl, rfl, rfl, rfl⟩⟩
        simp only [add, addDist, ho, addMisorder, uint16_sub_eq_dist, hlate, hmax, if_true, if_false]
    · by_cases hov : dist o p ≥ (jb.capacity : Int)
      · obtain ⟨jb1, b, k, e1, hS1, hk1, ho1, hI1, hl1, hH1, hb1, hb2, hb3⟩ :=
          smartRemove_spec hI ho (dist o p - (jb.capacity : Int) + 1)
        cases b with
        | true =>
          obtain ⟨hkc, _⟩ := hb1 rfl
          have hE := no_held_of_shift_cap hI ho hkc hH1
          have hE' : ∀ s q, ¬ Held ({ jb1 with origin := some p.seq } : JB) s q := fun s q h => hE s q h
          have hI2 : Inv ({ jb1 with origin := some p.seq } : JB) :=
            inv_of_empty hI1.cap_pos hI1.cap_dvd hI1.len p.seq rfl hp hE
          obtain ⟨out, e, hA⟩ := add_finish2 (jb := jb) (jb2 := { jb1 with origin := some p.seq }) (pli := false || jb1.isVideo) hp hS1 hI2 rfl
            (by rw [dist_self]; have := hI.cap_pos; omega)
            (Or.inr (Or.inr (Or.inr (Or.inl ⟨o, ho, hlate, hov, rfl, hE', by rw [← hS1.2.2]; rfl⟩))))
          refine ⟨out, ?_, hA⟩
          simp only [add, addDist, ho, addMisorder, uint16_sub_eq_dist, hlate, if_false, addOverflow, hov, if_true, e1]
          exact e
        | false =>
          have hkn := hb3 rfl hI.cap_pos
          have hcnt := hb2 rfl hkn
          have hnear : dist ((o + (k : Int)) % 65536) p < jb.capacity := by
            unfold dist R16 at *; simp at hcnt; omega
          obtain ⟨out, e, hA⟩ := add_finish2 (jb := jb) (pli := false || jb1.isVideo) hp hS1 hI1 ho1 hnear
            (Or.inr (Or.inr (Or.inr (Or.inr ⟨o, k, ho, hlate, hov, hkn, rfl, hH1, by rw [← hS1.2.2]; rfl⟩))))
          refine ⟨out, ?_, hA⟩
          simp only [add, addDist, ho, addMisorder, uint16_sub_eq_dist, hlate, if_false, addOverflow, hov, if_true, e1]
          exact e
      · obtain ⟨out, e, hA⟩ := add_finish2 (jb := jb) (pli := false) hp (Same.rfl' jb) hI ho (by omega)
          (Or.inr (Or.inr (Or.inl ⟨o, ho, hlate, by omega, rfl, fun s q => Iff.rfl, rfl⟩)))
        refine ⟨out, ?_, hA⟩
        simp only [add, addDist, ho, addMisorder, uint16_sub_eq_dist, hlate, if_false, addOverflow, hov]
        exact e

end Aiortc.Lemmas.Jitter
