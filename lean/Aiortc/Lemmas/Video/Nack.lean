import Aiortc.Model.Video.Nack
import Aiortc.Lemmas.Video.Sender
import Aiortc.Lemmas.Jitter
/-!
# `NackGenerator`: invariants (helper lemmas for Props/C11)

* `NInv` — unconditional: `missing` is duplicate-free and every member is 1 … 128 behind `max_seq`.
* `NSpec` — with unwrapped stream indices (`seqAt s0 j` is the sequence number of index `j`), for arrivals
  within 32 768 positions of the highest index seen: `missing` is EXACTLY the set of indices after the first
  arrival, in the window `[hi-128, hi)`, that have not been received.
-/
namespace Aiortc.Lemmas.Video
open Aiortc Aiortc.Gen Aiortc.Model.Video Aiortc.Lemmas.Jitter

set_option linter.unusedVariables false

theorem gt_iff (a b : Int) (ha : R16 a) (hb : R16 b) :
    uint16_gt a b = true ↔ 0 < (a - b) % 65536 ∧ (a - b) % 65536 < 32768 := by
  unfold R16 at *; unfold uint16_gt
  simp only [Bool.or_eq_true, Bool.and_eq_true, decide_eq_true_eq]
  omega

theorem seqAt_r16 (s0 : Int) (j : Nat) : R16 (seqAt s0 j) := by unfold R16 seqAt; omega

theorem setAdd_mem (l : List Int) (x y : Int) : y ∈ setAdd l x ↔ y ∈ l ∨ y = x := by
  unfold setAdd; split
  · constructor
    · intro h; exact Or.inl h
    · rintro (h | h)
      · exact h
      · subst h; assumption
  · simp

theorem setAdd_nodup (l : List Int) (x : Int) (h : l.Nodup) : (setAdd l x).Nodup := by
  unfold setAdd; split
  · exact h
  · rename_i hx
    rw [List.nodup_append]
    refine ⟨h, by simp, ?_⟩
    intro a ha b hb
    simp at hb; subst hb
    intro e; subst e; exact hx ha

/-- The numbers the `while` loop adds: indices `j, j+1, …, j+d-1`. -/
def addRange (s0 : Int) : Nat → Nat → List Int → List Int
  | _, 0, m => m
  | j, d + 1, m => addRange s0 (j + 1) d (setAdd m (seqAt s0 j))

theorem addRange_mem (s0 : Int) : ∀ (d j : Nat) (m : List Int) (x : Int),
    x ∈ addRange s0 j d m ↔ x ∈ m ∨ ∃ t, j ≤ t ∧ t < j + d ∧ x = seqAt s0 t := by
  intro d
  induction d with
  | zero =>
    intro j m x; simp only [addRange]
    constructor
    · intro h; exact Or.inl h
    · rintro (h | ⟨t, h1, h2, _⟩)
      · exact h
      · omega
  | succ d ih =>
    intro j m x
    simp only [addRange]
    rw [ih, setAdd_mem]
    constructor
    · rintro ((h | h) | ⟨t, h1, h2, h3⟩)
      · exact Or.inl h
      · exact Or.inr ⟨j, Nat.le_refl _, by omega, h⟩
      · exact Or.inr ⟨t, by omega, by omega, h3⟩
    · rintro (h | ⟨t, h1, h2, h3⟩)
      · exact Or.inl (Or.inl h)
      · rcases Nat.eq_or_lt_of_le h1 with e | e
        · subst e; exact Or.inl (Or.inr h3)
        · exact Or.inr ⟨t, by omega, by omega, h3⟩

theorem addRange_nodup (s0 : Int) : ∀ (d j : Nat) (m : List Int), m.Nodup → (addRange s0 j d m).Nodup := by
  intro d
  induction d with
  | zero => intro j m h; exact h
  | succ d ih => intro j m h; simp only [addRange]; exact ih _ _ (setAdd_nodup _ _ h)

/-- The `while` loop from index `j` up to (excluding) `j + d`, `d < 32768`. -/
theorem markLoop_spec (s0 : Int) (hs : R16 s0) : ∀ (d j fuel : Nat) (m : List Int) (b : Bool), d < fuel → d < 32768 →
    markLoop (seqAt s0 (j + d)) fuel (seqAt s0 j) m b = .ok (addRange s0 j d m, b || decide (0 < d)) := by
  intro d
  induction d with
  | zero =>
    intro j fuel m b hf _
    obtain ⟨f, rfl⟩ : ∃ f, fuel = f + 1 := ⟨fuel - 1, by omega⟩
    have : uint16_gt (seqAt s0 (j + 0)) (seqAt s0 j) = false := by
      cases h : uint16_gt (seqAt s0 (j + 0)) (seqAt s0 j) with
      | false => rfl
      | true => rw [gt_iff _ _ (seqAt_r16 _ _) (seqAt_r16 _ _)] at h; simp at h
    rw [Nat.add_zero] at this ⊢
    simp only [markLoop, this, addRange]
    simp
  | succ d ih =>
    intro j fuel m b hf hd
    obtain ⟨f, rfl⟩ : ∃ f, fuel = f + 1 := ⟨fuel - 1, by omega⟩
    have hg : uint16_gt (seqAt s0 (j + (d + 1))) (seqAt s0 j) = true := by
      rw [gt_iff _ _ (seqAt_r16 _ _) (seqAt_r16 _ _)]; unfold seqAt; push_cast; omega
    have hn : uint16_add (seqAt s0 j) 1 = seqAt s0 (j + 1) := by unfold uint16_add seqAt; push_cast; omega
    have hj : j + (d + 1) = (j + 1) + d := by omega
    simp only [markLoop, hg, if_true, hn]
    rw [hj, ih (j + 1) f _ true (by omega) (by omega)]
    simp [addRange]

/-! ## the unconditional window invariant -/

structure NInv (g : NackGen) : Prop where
  nodup : g.missing.Nodup
  noneEmpty : g.maxSeq = none → g.missing = []
  win : ∀ m, g.maxSeq = some m → R16 m ∧ ∀ x ∈ g.missing, R16 x ∧ 1 ≤ (m - x) % 65536 ∧ (m - x) % 65536 ≤ 128

theorem ninv_init : NInv NackGen.init := ⟨by simp [NackGen.init], fun _ => rfl, fun m h => by simp [NackGen.init] at h⟩

theorem hist_const : (RTP_HISTORY_SIZE : Int) = 128 := by decide

theorem truncate_mem (m : Int) (l : List Int) (x : Int) :
    x ∈ (NackGen.truncate ⟨some m, l⟩).missing ↔ x ∈ l ∧ uint16_gt (uint16_add m (-128)) x = false := by
  simp only [NackGen.truncate, hist_const, List.mem_filter, Bool.not_eq_true']

theorem truncate_max (m : Int) (l : List Int) : (NackGen.truncate ⟨some m, l⟩).maxSeq = some m := rfl

theorem truncate_nodup (m : Int) (l : List Int) (h : l.Nodup) : (NackGen.truncate ⟨some m, l⟩).missing.Nodup := by
  simp only [NackGen.truncate]
  exact h.sublist List.filter_sublist

theorem setDiscard_mem (l : List Int) (x y : Int) : y ∈ setDiscard l x ↔ y ∈ l ∧ y ≠ x := by
  simp [setDiscard]

/-- `add` never raises on a 16-bit sequence number and keeps the window invariant. -/
theorem ninv_add {g : NackGen} (hI : NInv g) (sn : Int) (hsn : R16 sn) :
    ∃ g' b, g.add sn = .ok (g', b) ∧ NInv g' ∧ g'.maxSeq ≠ none ∧ sn ∉ g'.missing := by
  cases hm : g.maxSeq with
  | none =>
    refine ⟨{ g with maxSeq := some sn }, false, by simp [NackGen.add, hm], ⟨hI.nodup, fun h => by simp at h, ?_⟩, by simp,
      by rw [hI.noneEmpty hm]; simp⟩
    intro m h; simp at h; subst h
    refine ⟨hsn, ?_⟩
    rw [hI.noneEmpty hm]; simp
  | some m =>
    obtain ⟨hmr, hwin⟩ := hI.win m hm
    by_cases hg : uint16_gt sn m = true
    · have hD := (gt_iff sn m hsn hmr).1 hg
      -- the loop runs over offsets 1 … D-1 from `m`
      have hD0 : (sn - m) % 65536 = (((sn - m) % 65536).toNat : Int) := by omega
      let D := ((sn - m) % 65536).toNat
      have hDpos : 1 ≤ D := by omega
      have htarget : sn = seqAt m (1 + (D - 1)) := by unfold seqAt R16 at *; omega
      have hstart : uint16_add m 1 = seqAt m 1 := by unfold uint16_add seqAt; omega
      have hloop := markLoop_spec m hmr (D - 1) 1 markFuel g.missing false (by unfold markFuel; omega) (by omega)
      rw [← htarget, ← hstart] at hloop
      have hwin' : ∀ m', (NackGen.truncate ⟨some sn, addRange m 1 (D - 1) g.missing⟩).maxSeq = some m' → R16 m' ∧
          ∀ x ∈ (NackGen.truncate ⟨some sn, addRange m 1 (D - 1) g.missing⟩).missing,
            R16 x ∧ 1 ≤ (m' - x) % 65536 ∧ (m' - x) % 65536 ≤ 128 := ?_
      refine ⟨_, _, by simp only [NackGen.add, hm, hg, if_true, hloop]; rfl, ⟨?_, fun h => by simp [truncate_max] at h, hwin'⟩,
        by simp [truncate_max], ?_⟩
      · exact truncate_nodup _ _ (addRange_nodup _ _ _ _ hI.nodup)
      · intro hx
        have := ((hwin' sn (truncate_max _ _)).2 sn hx).2.1
        simp at this
      · intro m' hm'
        rw [truncate_max] at hm'; injection hm' with hm'; subst hm'
        refine ⟨hsn, ?_⟩
        intro x hx
        rw [truncate_mem, addRange_mem] at hx
        obtain ⟨hx1, hx2⟩ := hx
        have hmin : R16 (uint16_add sn (-128)) := by unfold R16 uint16_add; omega
        rcases hx1 with hx1 | ⟨t, ht1, ht2, rfl⟩
        · obtain ⟨hxr, h1, h2⟩ := hwin x hx1
          have := gt_iff (uint16_add sn (-128)) x hmin hxr
          rw [hx2] at this; simp at this
          unfold uint16_add R16 at *; omega
        · have hxr := seqAt_r16 m t
          have := gt_iff (uint16_add sn (-128)) (seqAt m t) hmin hxr
          rw [hx2] at this; simp at this
          refine ⟨hxr, ?_⟩
          unfold uint16_add seqAt R16 at *; omega
    · have hg' : uint16_gt sn m = false := by cases h : uint16_gt sn m <;> simp_all
      refine ⟨_, false, by simp only [NackGen.add, hm, hg']; rfl, ⟨?_, fun h => by simp [truncate_max] at h, ?_⟩, ?_, ?_⟩
      · exact truncate_nodup _ _ (hI.nodup.sublist List.filter_sublist)
      · intro m' hm'
        rw [truncate_max] at hm'; injection hm' with hm'; subst hm'
        refine ⟨hmr, ?_⟩
        intro x hx
        rw [truncate_mem, setDiscard_mem] at hx
        exact hwin x hx.1.1
      · rw [truncate_max]; simp
      · intro hx
        rw [truncate_mem, setDiscard_mem] at hx
        exact hx.1.2 rfl

/-- The 128 sequence numbers before `m`. -/
def windowList (m : Int) : List Int := (List.range 128).map (fun (k : Nat) => (m - ((k : Int) + 1)) % 65536)

theorem ninv_subset {g : NackGen} (hI : NInv g) {m : Int} (hm : g.maxSeq = some m) : g.missing ⊆ windowList m := by
  intro x hx
  obtain ⟨hmr, hw⟩ := hI.win m hm
  obtain ⟨hxr, h1, h2⟩ := hw x hx
  unfold windowList
  rw [List.mem_map]
  refine ⟨((m - x) % 65536 - 1).toNat, by rw [List.mem_range]; omega, ?_⟩
  unfold R16 at *; omega

theorem ninv_length {g : NackGen} (hI : NInv g) : g.missing.length ≤ 128 := by
  cases hm : g.maxSeq with
  | none => rw [hI.noneEmpty hm]; simp
  | some m =>
    have := hI.nodup.length_le_of_subset (ninv_subset hI hm)
    simpa [windowList] using this

end Aiortc.Lemmas.Video
