import Aiortc.Lemmas.Video.Nack
/-!
# `NackGenerator`: exact content of `missing` for arrivals near the highest index (`NSpec`)
-/
namespace Aiortc.Lemmas.Video
open Aiortc Aiortc.Gen Aiortc.Model.Video Aiortc.Lemmas.Jitter

set_option linter.unusedVariables false

/-- `missing` is exactly: the indices after the first arrival, in the window `[hi-128, hi)`, not received. -/
structure NSpec (g : NackGen) (s0 : Int) (first hi : Nat) (recv : Nat → Prop) : Prop where
  s0r : R16 s0
  max : g.maxSeq = some (seqAt s0 hi)
  nodup : g.missing.Nodup
  mem : ∀ x, x ∈ g.missing ↔ ∃ j, first < j ∧ j < hi ∧ hi ≤ j + 128 ∧ ¬ recv j ∧ x = seqAt s0 j
  recvLe : ∀ j, recv j → j ≤ hi
  recvHi : recv hi
  firstLe : first ≤ hi

/-- The first `add` only records `max_seq`. -/
theorem nspec_first (s0 : Int) (hs : R16 s0) (i : Nat) :
    NackGen.init.add (seqAt s0 i) = .ok (⟨some (seqAt s0 i), []⟩, false) ∧
    NSpec ⟨some (seqAt s0 i), []⟩ s0 i i (fun j => j = i) := by
  refine ⟨rfl, ⟨hs, rfl, by simp, ?_, fun j h => by omega, rfl, Nat.le_refl _⟩⟩
  intro x; simp; intro j h1 h2; omega

/-- A later arrival at index `i`, within 32 768 positions of the highest index `hi`. -/
theorem nspec_step {g : NackGen} {s0 : Int} {first hi : Nat} {recv : Nat → Prop} (h : NSpec g s0 first hi recv)
    (i : Nat) (hnear : (i : Int) < hi + 32768 ∧ (hi : Int) ≤ i + 32768) :
    ∃ g' b, g.add (seqAt s0 i) = .ok (g', b) ∧ NSpec g' s0 first (max hi i) (fun j => recv j ∨ j = i) ∧
      (b = true ↔ hi + 1 < i) := by
  have hs := h.s0r
  have hmr := seqAt_r16 s0 hi
  have hir := seqAt_r16 s0 i
  by_cases hgt : hi < i
  · -- the maximum moves to `i`
    have hg : uint16_gt (seqAt s0 i) (seqAt s0 hi) = true := by
      rw [gt_iff _ _ hir hmr]; unfold seqAt; omega
    have hstart : uint16_add (seqAt s0 hi) 1 = seqAt s0 (hi + 1) := by unfold uint16_add seqAt; push_cast; omega
    have htarget : i = (hi + 1) + (i - hi - 1) := by omega
    have hloop := markLoop_spec s0 hs (i - hi - 1) (hi + 1) markFuel g.missing false (by unfold markFuel; omega) (by omega)
    rw [← htarget, ← hstart] at hloop
    have hmax : max hi i = i := by omega
    rw [hmax]
    have hminr : R16 (uint16_add (seqAt s0 i) (-128)) := by unfold R16 uint16_add; omega
    refine ⟨_, _, by simp only [NackGen.add, h.max, hg, if_true, hloop]; rfl, ⟨hs, truncate_max _ _, ?_, ?_, ?_, Or.inr rfl, by have := h.firstLe; omega⟩, ?_⟩
    · exact truncate_nodup _ _ (addRange_nodup _ _ _ _ h.nodup)
    · intro x
      rw [truncate_mem, addRange_mem, h.mem]
      constructor
      · rintro ⟨hx1, hx2⟩
        rcases hx1 with ⟨j, h1, h2, h3, h4, rfl⟩ | ⟨t, ht1, ht2, rfl⟩
        · have := gt_iff _ _ hminr (seqAt_r16 s0 j)
          rw [hx2] at this; simp at this
          refine ⟨j, h1, by omega, ?_, ?_, rfl⟩
          · unfold uint16_add seqAt R16 at *; omega
          · rintro (hr | hr)
            · exact h4 hr
            · omega
        · have := gt_iff _ _ hminr (seqAt_r16 s0 t)
          rw [hx2] at this; simp at this
          refine ⟨t, by have := h.firstLe; omega, by omega, ?_, ?_, rfl⟩
          · unfold uint16_add seqAt R16 at *; omega
          · rintro (hr | hr)
            · have := h.recvLe t hr; omega
            · omega
      · rintro ⟨j, h1, h2, h3, h4, rfl⟩
        refine ⟨?_, ?_⟩
        · rcases Nat.lt_or_ge j hi with hj | hj
          · exact Or.inl ⟨j, h1, hj, by omega, fun hr => h4 (Or.inl hr), rfl⟩
          · rcases Nat.eq_or_lt_of_le hj with e | e
            · exfalso; subst e; exact h4 (Or.inl h.recvHi)
            · exact Or.inr ⟨j, by omega, by omega, rfl⟩
        · cases hc : uint16_gt (uint16_add (seqAt s0 i) (-128)) (seqAt s0 j) with
          | false => rfl
          | true =>
            exfalso
            rw [gt_iff _ _ hminr (seqAt_r16 s0 j)] at hc
            unfold uint16_add seqAt R16 at *; omega
    · intro j hj
      rcases hj with hj | hj
      · have := h.recvLe j hj; omega
      · omega
    · simp; omega
  · -- an old or duplicate packet: discard
    have hle : i ≤ hi := by omega
    have hg : uint16_gt (seqAt s0 i) (seqAt s0 hi) = false := by
      cases hc : uint16_gt (seqAt s0 i) (seqAt s0 hi) with
      | false => rfl
      | true =>
        exfalso
        rw [gt_iff _ _ hir hmr] at hc; unfold seqAt at hc; omega
    have hmax : max hi i = hi := by omega
    rw [hmax]
    have hminr : R16 (uint16_add (seqAt s0 hi) (-128)) := by unfold R16 uint16_add; omega
    refine ⟨_, false, by simp only [NackGen.add, h.max, hg]; rfl, ?_, by simp; omega⟩
    refine ⟨hs, truncate_max _ _, truncate_nodup _ _ (h.nodup.sublist List.filter_sublist), ?_,
      fun j hj => by rcases hj with hj | hj; exact h.recvLe j hj; omega, Or.inl h.recvHi, h.firstLe⟩
    intro x
    rw [truncate_mem, setDiscard_mem, h.mem]
    constructor
    · rintro ⟨⟨⟨j, h1, h2, h3, h4, rfl⟩, hne⟩, _⟩
      refine ⟨j, h1, h2, h3, ?_, rfl⟩
      rintro (hr | hr)
      · exact h4 hr
      · subst hr; exact hne rfl
    · rintro ⟨j, h1, h2, h3, h4, rfl⟩
      refine ⟨⟨⟨j, h1, h2, h3, fun hr => h4 (Or.inl hr), rfl⟩, ?_⟩, ?_⟩
      · intro e'
        have : j ≠ i := fun e'' => h4 (Or.inr e'')
        unfold seqAt at e'; omega
      · cases hc : uint16_gt (uint16_add (seqAt s0 hi) (-128)) (seqAt s0 j) with
        | false => rfl
        | true =>
          exfalso
          rw [gt_iff _ _ hminr (seqAt_r16 s0 j)] at hc
          unfold uint16_add seqAt R16 at *; omega

/-- `NSpec` implies the unconditional window facts for the same state (consistency of the two invariants). -/
theorem nspec_window {g : NackGen} {s0 : Int} {first hi : Nat} {recv : Nat → Prop} (h : NSpec g s0 first hi recv) :
    ∀ x ∈ g.missing, 1 ≤ (seqAt s0 hi - x) % 65536 ∧ (seqAt s0 hi - x) % 65536 ≤ 128 := by
  intro x hx
  obtain ⟨j, h1, h2, h3, h4, rfl⟩ := (h.mem x).1 hx
  unfold seqAt; omega

end Aiortc.Lemmas.Video
