import Aiortc.Model.Video.Receiver
/-!
# The receive path: what reaches the jitter buffer and what reaches the decoder queue
-/
namespace Aiortc.Lemmas.Video
open Aiortc Aiortc.Gen Aiortc.Rtp Aiortc.Model.Video
open Aiortc.Model.Jitter (JB Packet Frame AddOut)

set_option linter.unusedVariables false

/-- `packet._data` as the receive path computes it. -/
def dataOf (c : Codec) (p : RtpPacket) : Outcome Bytes :=
  if p.payload.isEmpty then .ok [] else depayloadFor c p.payload

/-- The jitter-buffer view of a wire packet whose payload depayloads to `data`. -/
def jbPacket (p : RtpPacket) (data : Bytes) : Packet := ⟨(p.sequenceNumber : Int), (p.timestamp : Int), data⟩

/-- Lines 516-543: either the call stops before the jitter buffer (payload rejected) or it hands the buffer
exactly one packet, forwards `pli_flag`, and queues exactly the frame the buffer returned. -/
theorem feed_spec (cfg : RecvCfg) (r : Receiver) (p : RtpPacket) (pt : Nat) (c : Codec) (o : RecvOut)
    (e : feedStage cfg r p pt c = .ok o) :
    (dataOf c p = .valueError ∧ o.fed = none ∧ o.r.jb = r.jb ∧ o.item = none ∧ o.pli = false) ∨
    (∃ data out, dataOf c p = .ok data ∧ o.fed = some (jbPacket p data) ∧
      Aiortc.Model.Jitter.add r.jb (jbPacket p data) = .ok out ∧ o.r.jb = out.jb ∧ o.pli = out.pli ∧
      (∀ q, o.item = some q → ∃ f, out.frame = some f ∧ q.data = f.data ∧ q.pt = pt ∧ o.used = out.used) ∧
      (cfg.decoder = true → ∀ f, out.frame = some f → ∃ q, o.item = some q)) := by
  unfold feedStage at e
  cases hn : r.nack.add (p.sequenceNumber : Int) with
  | valueError => rw [hn] at e; cases e
  | crash k => rw [hn] at e; cases e
  | hang => rw [hn] at e; cases e
  | ok v =>
    obtain ⟨ng, missed⟩ := v
    rw [hn] at e
    simp only [] at e
    cases hd : dataOf c p with
    | valueError =>
      unfold dataOf at hd; rw [hd] at e; simp only [] at e
      injection e with e; subst e
      exact Or.inl ⟨rfl, rfl, rfl, rfl, rfl⟩
    | crash k => unfold dataOf at hd; rw [hd] at e; cases e
    | hang => unfold dataOf at hd; rw [hd] at e; cases e
    | ok data =>
      right
      have hd' := hd
      unfold dataOf at hd; rw [hd] at e; simp only [] at e
      cases ha : Aiortc.Model.Jitter.add r.jb ⟨(p.sequenceNumber : Int), (p.timestamp : Int), data⟩ with
      | valueError => rw [ha] at e; cases e
      | crash k => rw [ha] at e; cases e
      | hang => rw [ha] at e; cases e
      | ok out =>
        rw [ha] at e; simp only [] at e
        refine ⟨data, out, rfl, ?_⟩
        cases hf : out.frame with
        | none =>
          rw [hf] at e; simp only [] at e
          injection e with e; subst e
          exact ⟨rfl, ha, rfl, rfl, (fun q h => by cases h), (fun _ f h => by cases h)⟩
        | some f =>
          rw [hf] at e; simp only [] at e
          by_cases hdec : cfg.decoder = true
          · rw [if_pos hdec] at e
            cases hm : TsMap.map r.tm f.ts with
            | valueError => rw [hm] at e; cases e
            | crash k => rw [hm] at e; cases e
            | hang => rw [hm] at e; cases e
            | ok v =>
              obtain ⟨tm', ts'⟩ := v
              rw [hm] at e; simp only [] at e
              injection e with e; subst e
              refine ⟨rfl, ha, rfl, rfl, ?_, fun _ f' h => ⟨_, rfl⟩⟩
              intro q hq; injection hq with hq; subst hq
              exact ⟨f, rfl, rfl, rfl, rfl⟩
          · rw [if_neg hdec] at e
            injection e with e; subst e
            exact ⟨rfl, ha, rfl, rfl, (fun q h => by cases h), (fun h => absurd h hdec)⟩

end Aiortc.Lemmas.Video
