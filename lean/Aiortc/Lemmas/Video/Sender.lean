import Aiortc.Model.Video.Sender
/-!
# Sender: the history invariant (helper lemmas for Props/C11)

`SInv s q0 sent`: `sent` is the (ghost) list of all first transmissions so far, in order; their sequence
numbers are consecutive from `q0` modulo 2^16; the history dict holds, under key `k`, exactly the packet of
the last 128 whose sequence number is `k` modulo 128.
-/
namespace Aiortc.Lemmas.Video
open Aiortc Aiortc.Gen Aiortc.Rtp Aiortc.Model.Video

set_option linter.unusedVariables false

/-- Sequence number of the `j`-th packet of a stream that starts at `q0`. -/
def seqAt (q0 : Int) (j : Nat) : Int := (q0 + (j : Int)) % 65536

theorem find_filter_ne (h : History) (k k' : Nat) (hk : k' ≠ k) :
    (h.filter (fun e => e.1 ≠ k)).find? (fun e => e.1 = k') = h.find? (fun e => e.1 = k') := by
  rw [List.find?_filter]
  congr 1
  funext a
  by_cases ha : a.1 = k'
  · have : a.1 ≠ k := by rw [ha]; exact hk
    simp [ha, hk]
  · simp [ha]

theorem histGet_set (h : History) (k k' : Nat) (p : RtpPacket) :
    histGet (histSet h k p) k' = if k' = k then some p else histGet h k' := by
  unfold histGet histSet
  by_cases hk : k' = k
  · subst hk; simp
  · have hk' : ¬ k = k' := fun e => hk e.symm
    rw [List.find?_cons]
    simp only [hk, hk', decide_false, if_false]
    rw [find_filter_ne h k k' hk]

theorem slot_const : RTP_HISTORY_SIZE = 128 := by decide

theorem slotOfSeq_eq (x : Int) : slotOfSeq x = (x % 128).toNat := by
  unfold slotOfSeq; rw [slot_const]; rfl

structure SInv (s : Sender) (q0 : Int) (sent : List RtpPacket) : Prop where
  q0r : 0 ≤ q0 ∧ q0 < 65536
  seq : s.seq = seqAt q0 sent.length
  seqs : ∀ j p, sent[j]? = some p → (p.sequenceNumber : Int) = seqAt q0 j
  hist : ∀ k p, histGet s.history k = some p ↔
    ∃ j, j < sent.length ∧ sent.length ≤ j + 128 ∧ sent[j]? = some p ∧ slotOfSeq (seqAt q0 j) = k

theorem sinv_init (q0 rtx : Int) (h : 0 ≤ q0 ∧ q0 < 65536) : SInv ⟨q0, rtx, []⟩ q0 [] := by
  refine ⟨h, by unfold seqAt; simp; omega, fun j p hj => by simp at hj, fun k p => ?_⟩
  simp [histGet]

/-- One round of the packetisation loop keeps the invariant, with the new packet appended to `sent`. -/
theorem sinv_step {s : Sender} {q0 : Int} {sent : List RtpPacket} (hI : SInv s q0 sent) (cfg : SenderCfg) (ts : Int)
    (pl : Bytes) (i n : Nat) :
    SInv { s with history := histSet s.history (slotOfSeq ((mkPacket cfg s.seq ts pl i n).sequenceNumber : Int))
                    (mkPacket cfg s.seq ts pl i n), seq := uint16_add s.seq 1 } q0
      (sent ++ [mkPacket cfg s.seq ts pl i n]) := by
  have hseqn : ((mkPacket cfg s.seq ts pl i n).sequenceNumber : Int) = seqAt q0 sent.length := by
    simp only [mkPacket]; rw [hI.seq]; unfold seqAt; omega
  refine ⟨hI.q0r, ?_, ?_, ?_⟩
  · simp only [List.length_append, List.length_singleton]
    rw [hI.seq]; unfold seqAt uint16_add; omega
  · intro j p hj
    rcases Nat.lt_or_ge j sent.length with h | h
    · rw [List.getElem?_append_left h] at hj; exact hI.seqs j p hj
    · rw [List.getElem?_append_right h] at hj
      have hj0 : j - sent.length = 0 := by
        rcases Nat.eq_zero_or_pos (j - sent.length) with h0 | h0
        · exact h0
        · rw [List.getElem?_eq_none (by simp; omega)] at hj; cases hj
      rw [hj0] at hj; simp at hj; subst hj
      have : j = sent.length := by omega
      rw [this]; exact hseqn
  · intro k p
    rw [histGet_set, hseqn]
    simp only [List.length_append, List.length_singleton]
    by_cases hk : k = slotOfSeq (seqAt q0 sent.length)
    · simp only [hk, if_true]
      constructor
      · intro e; injection e with e; subst e
        exact ⟨sent.length, by omega, by omega, by simp, rfl⟩
      · rintro ⟨j, hj1, hj2, hj3, hj4⟩
        have : j = sent.length := by
          rw [slotOfSeq_eq, slotOfSeq_eq] at hj4; unfold seqAt at hj4; omega
        subst this; simp at hj3; rw [hj3]
    · simp only [hk, if_false]
      rw [hI.hist]
      constructor
      · rintro ⟨j, hj1, hj2, hj3, hj4⟩
        refine ⟨j, by omega, ?_, by rw [List.getElem?_append_left hj1]; exact hj3, hj4⟩
        rcases Nat.lt_or_ge sent.length (j + 128) with h | h
        · omega
        · exfalso; apply hk; rw [← hj4]
          rw [slotOfSeq_eq, slotOfSeq_eq]; unfold seqAt
          have : sent.length = j + 128 := by omega
          rw [this]; push_cast; omega
      · rintro ⟨j, hj1, hj2, hj3, hj4⟩
        have hne : j ≠ sent.length := by
          intro e; apply hk; rw [← hj4, e]
        have hlt : j < sent.length := by omega
        rw [List.getElem?_append_left hlt] at hj3
        exact ⟨j, hlt, by omega, hj3, hj4⟩

/-- The whole `for i, payload in enumerate(payloads)` loop. -/
theorem sendLoop_spec (cfg : SenderCfg) (ts : Int) (n : Nat) (pls : List Bytes) :
    ∀ (i : Nat) (s : Sender) (q0 : Int) (sent : List RtpPacket), SInv s q0 sent →
      SInv (sendLoop cfg ts n i pls s).1 q0 (sent ++ (sendLoop cfg ts n i pls s).2) ∧
      (sendLoop cfg ts n i pls s).1.rtxSeq = s.rtxSeq ∧
      (sendLoop cfg ts n i pls s).2.length = pls.length ∧
      ∀ k pl, pls[k]? = some pl →
        (sendLoop cfg ts n i pls s).2[k]? = some (mkPacket cfg (seqAt q0 (sent.length + k)) ts pl (i + k) n) := by
  induction pls with
  | nil => intro i s q0 sent hI; simp [sendLoop]; exact hI
  | cons pl rest ih =>
    intro i s q0 sent hI
    have hstep := sinv_step hI cfg ts pl i n
    obtain ⟨h1, h2, h3, h4⟩ := ih (i + 1) _ q0 _ hstep
    simp only [sendLoop]
    refine ⟨by rw [List.append_assoc] at h1; exact h1, h2, by simp [h3], ?_⟩
    intro k pl' hk
    cases k with
    | zero =>
      simp at hk; subst hk
      simp [hI.seq]
    | succ k =>
      simp at hk
      have := h4 k pl' hk
      simp only [List.length_append, List.length_singleton] at this
      simp only [List.getElem?_cons_succ]
      rw [this]
      have e1 : sent.length + 1 + k = sent.length + (k + 1) := by omega
      have e2 : i + 1 + k = i + (k + 1) := by omega
      rw [e1, e2]

/-- `_retransmit` does not touch the history or the running sequence number. -/
theorem retransmit_keeps (cfg : SenderCfg) (s : Sender) (sn : Int) :
    (retransmit cfg s sn).1.seq = s.seq ∧ (retransmit cfg s sn).1.history = s.history := by
  unfold retransmit
  split
  · split
    · split <;> simp
    · simp
  · simp

theorem retransmit_sinv {s : Sender} {q0 : Int} {sent : List RtpPacket} (hI : SInv s q0 sent) (cfg : SenderCfg)
    (sn : Int) : SInv (retransmit cfg s sn).1 q0 sent := by
  obtain ⟨h1, h2⟩ := retransmit_keeps cfg s sn
  exact ⟨hI.q0r, by rw [h1]; exact hI.seq, hI.seqs, by rw [h2]; exact hI.hist⟩

theorem handleNack_sinv (cfg : SenderCfg) (lost : List Int) : ∀ {s : Sender} {q0 : Int} {sent : List RtpPacket},
    SInv s q0 sent → SInv (handleNack cfg s lost).1 q0 sent := by
  induction lost with
  | nil => intro s q0 sent hI; exact hI
  | cons x xs ih => intro s q0 sent hI; simp only [handleNack]; exact ih (retransmit_sinv hI cfg x)

/-- `sn` is the sequence number of one of the last 128 packets sent. -/
def InHistory (q0 : Int) (sent : List RtpPacket) (sn : Int) : Prop :=
  ∃ j, j < sent.length ∧ sent.length ≤ j + 128 ∧ seqAt q0 j = sn

/-- What `history.get(sn % 128)` finds, and whether its sequence number is `sn`. -/
theorem lookup_spec {s : Sender} {q0 : Int} {sent : List RtpPacket} (hI : SInv s q0 sent) (sn : Int) :
    (∃ p, histGet s.history (slotOfSeq sn) = some p ∧ (p.sequenceNumber : Int) = sn) ↔ InHistory q0 sent sn := by
  constructor
  · rintro ⟨p, hp, hs⟩
    obtain ⟨j, h1, h2, h3, h4⟩ := (hI.hist _ p).1 hp
    exact ⟨j, h1, h2, by rw [← hI.seqs j p h3]; exact hs⟩
  · rintro ⟨j, h1, h2, h3⟩
    obtain ⟨p, hp⟩ : ∃ p, sent[j]? = some p := ⟨sent[j], List.getElem?_eq_getElem h1⟩
    exact ⟨p, (hI.hist _ p).2 ⟨j, h1, h2, hp, by rw [h3]⟩, by rw [hI.seqs j p hp]; exact h3⟩

end Aiortc.Lemmas.Video
