import Aiortc.Lemmas.Video.JitterStep
import Aiortc.Lemmas.Video.Sender
/-!
# The jitter buffer fed with copies of a sender's packets: the unwrapped-origin invariant

`stream` is the sender's packet sequence as the jitter buffer sees it (sequence number, timestamp,
depayloaded data); index `j` carries sequence number `seqAt s0 j`.  `GInv jb oi`: the origin is the sequence
number of stream index `oi` and every held packet is the stream packet at an index in `[oi, oi + 65536)`.
`gstep` describes one `add` of a copy of `stream[j]` arriving within 32 768 positions of `oi`.
-/
namespace Aiortc.Lemmas.Video
open Aiortc Aiortc.Gen Aiortc.Model.Jitter Aiortc.Lemmas.Jitter

set_option linter.unusedVariables false

structure StreamOK (s0 : Int) (stream : List Packet) : Prop where
  s0r : R16 s0
  seqs : ∀ j p, stream[j]? = some p → p.seq = seqAt s0 j

structure GInv (s0 : Int) (stream : List Packet) (jb : JB) (oi : Nat) : Prop where
  inv : Inv jb
  cap : jb.capacity ≤ 32768
  orig : ∀ o, jb.origin = some o → o = seqAt s0 oi
  held : ∀ s q, Held jb s q → ∃ j, stream[j]? = some q ∧ oi ≤ j ∧ j < oi + 65536

/-- Arrival index `j` is within 32 768 positions of the origin index `oi`. -/
def Near (oi j : Nat) : Prop := (j : Int) < oi + 32768 ∧ (oi : Int) < j + 32768

/-- `used` is the run `stream[a], …, stream[a+n-1]`, all with the frame's timestamp, followed in the stream by
a packet of another timestamp. -/
def RunAt (stream : List Packet) (a : Nat) (f : Frame) (used : List Packet) : Prop :=
  used ≠ [] ∧ (∀ k q, used[k]? = some q → stream[a + k]? = some q) ∧ f.data = joinData used ∧
  (∀ q ∈ used, q.ts = f.ts) ∧ ∃ q', stream[a + used.length]? = some q' ∧ q'.ts ≠ f.ts

def fwd (a b : Int) : Nat := ((b - a) % 65536).toNat

/-- The unwrapped origin index after the call, computed from the observable origins. -/
def oiNext (jb : JB) (oi j : Nat) (p : Packet) (out : AddOut) : Nat :=
  match jb.origin, out.jb.origin with
  | some o, some o' =>
    if uint16_add o (-p.seq) < uint16_add p.seq (-o) ∧ (MAX_MISORDER : Int) ≤ uint16_add o (-p.seq) then j + fwd p.seq o'
    else oi + fwd o o'
  | none, some o' => j + fwd p.seq o'
  | _, none => oi

theorem dist_stream {s0 : Int} {stream : List Packet} (hS : StreamOK s0 stream) {oi j : Nat} {q : Packet}
    (hq : stream[j]? = some q) (h1 : oi ≤ j) (h2 : j < oi + 65536) : dist (seqAt s0 oi) q = (j : Int) - oi := by
  have := hS.seqs j q hq
  unfold dist; rw [this]; unfold seqAt; omega

/-- Where the branch analysis of `add` leaves the origin, as a stream index. -/
theorem branch_index {s0 : Int} {stream : List Packet} (hS : StreamOK s0 stream) {jb jb2 : JB} {oi j : Nat}
    {p : Packet} {o2 : Int} {pli : Bool} (hG : GInv s0 stream jb oi) (hj : stream[j]? = some p)
    (hn : jb.origin ≠ none → Near oi j) (hB : Branch jb p jb2 o2 pli) :
    ∃ oi2 : Nat, o2 = seqAt s0 oi2 ∧ oi2 ≤ j ∧ j < oi2 + 32768 ∧
      (∀ s q, Held jb2 s q → ∃ jq, stream[jq]? = some q ∧ oi2 ≤ jq ∧ jq < oi2 + 65536) ∧
      (jb.origin = none → oi2 = j) ∧
      (pli = false → jb.isVideo = true → jb.origin ≠ none → oi2 = oi) ∧
      (¬ Late jb p 100 → jb.origin ≠ none → oi ≤ oi2) ∧
      -- for `oiNext`: a restart at the packet, or an advance of the old origin by `oi2 - oi`
      ((oi2 = j ∧ o2 = p.seq ∧ (jb.origin = none ∨ ∃ o, jb.origin = some o ∧
            uint16_add o (-p.seq) < uint16_add p.seq (-o) ∧ (MAX_MISORDER : Int) ≤ uint16_add o (-p.seq))) ∨
       (∃ o, jb.origin = some o ∧ ¬ (uint16_add o (-p.seq) < uint16_add p.seq (-o)) ∧ oi ≤ oi2 ∧
            o2 = (o + ((oi2 : Int) - oi)) % 65536)) := by
  have hps := hS.seqs j p hj
  have hmm : (MAX_MISORDER : Int) = 100 := by decide
  rcases hB with ⟨ho, h2, hE, hpl⟩ | ⟨o, ho, hl, hm, h2, hE, hpl⟩ | ⟨o, ho, hl, hd, h2, hH, hpl⟩ |
      ⟨o, ho, hl, hd, h2, hE, hpl⟩ | ⟨o, k, ho, hl, hd, hk, h2, hH, hpl⟩
  · exact ⟨j, by rw [h2, hps], Nat.le_refl _, by omega, fun s q h => absurd h (hE s q), fun _ => rfl,
      fun _ _ h => absurd ho h, fun _ h => absurd ho h, Or.inl ⟨rfl, h2, Or.inl ho⟩⟩
  · refine ⟨j, by rw [h2, hps], Nat.le_refl _, by omega, fun s q h => absurd h (hE s q),
      (fun h => by simp [ho] at h), ?_, ?_, Or.inl ⟨rfl, h2, Or.inr ⟨o, ho, ?_, hm⟩⟩⟩
    · intro h1 h3 _; have hc : false = true := by rw [← h1, hpl, h3]
      cases hc
    · intro h1 _; exfalso; apply h1
      exact ⟨o, ho, by rw [uint16_sub_eq_dist]; exact hl, by rw [← hmm]; exact hm⟩
    · rw [uint16_sub_eq_dist]; exact hl
  · have hoe := hG.orig o ho
    have hnear := hn (by rw [ho]; simp)
    have hge : oi ≤ j := by
      rcases Nat.lt_or_ge j oi with h | h
      · exfalso; apply hl
        unfold LateC dist uint16_add; rw [hps, hoe]; unfold seqAt Near at *; omega
      · exact h
    refine ⟨oi, by rw [h2, hoe], hge, by unfold Near at hnear; omega, fun s q h => hG.held s q ((hH s q).1 h),
      (fun h => by simp [ho] at h), fun _ _ _ => rfl, fun _ _ => Nat.le_refl _,
      Or.inr ⟨o, ho, by rw [uint16_sub_eq_dist]; exact hl, Nat.le_refl _, ?_⟩⟩
    rw [h2]; have := hG.inv.orig o ho; unfold R16 at this; omega
  · have hoe := hG.orig o ho
    have hnear := hn (by rw [ho]; simp)
    have hge : oi ≤ j := by
      rcases Nat.lt_or_ge j oi with h | h
      · exfalso; apply hl
        unfold LateC dist uint16_add; rw [hps, hoe]; unfold seqAt Near at *; omega
      · exact h
    refine ⟨j, by rw [h2, hps], Nat.le_refl _, by omega, fun s q h => absurd h (hE s q),
      (fun h => by simp [ho] at h), ?_, fun _ _ => hge,
      Or.inr ⟨o, ho, by rw [uint16_sub_eq_dist]; exact hl, hge, ?_⟩⟩
    · intro h1 h3 _; have hc : false = true := by rw [← h1, hpl, h3]
      cases hc
    · rw [h2, hps, hoe]; unfold seqAt Near at *; omega
  · have hoe := hG.orig o ho
    have hnear := hn (by rw [ho]; simp)
    have hge : oi ≤ j := by
      rcases Nat.lt_or_ge j oi with h | h
      · exfalso; apply hl
        unfold LateC dist uint16_add; rw [hps, hoe]; unfold seqAt Near at *; omega
      · exact h
    have hdp : dist o p = (j : Int) - oi := by
      rw [hoe]; exact dist_stream hS hj hge (by unfold Near at hnear; omega)
    refine ⟨oi + k, by rw [h2, hoe]; unfold seqAt; push_cast; omega, by omega, by unfold Near at hnear; omega, ?_,
      (fun h => by simp [ho] at h), ?_, fun _ _ => by omega,
      Or.inr ⟨o, ho, by rw [uint16_sub_eq_dist]; exact hl, by omega, by rw [h2]; push_cast; congr 1; omega⟩⟩
    · intro s q h
      obtain ⟨h1, h3⟩ := (hH s q).1 h
      obtain ⟨jq, hq1, hq2, hq3⟩ := hG.held s q h1
      have := dist_stream hS hq1 hq2 hq3
      rw [← hoe] at this
      exact ⟨jq, hq1, by omega, by omega⟩
    · intro h1 h3 _; have hc : false = true := by rw [← h1, hpl, h3]
      cases hc

end Aiortc.Lemmas.Video
