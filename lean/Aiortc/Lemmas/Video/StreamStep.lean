import Aiortc.Lemmas.Video.Stream
/-! # One `add` of a copy of `stream[j]`: `gstep` -/
namespace Aiortc.Lemmas.Video
open Aiortc Aiortc.Gen Aiortc.Model.Jitter Aiortc.Lemmas.Jitter

set_option linter.unusedVariables false

theorem oiNext_eq {jb : JB} {oi j oi2 : Nat} {p : Packet} {out : AddOut} {o2 : Int} (len : Nat)
    (hlen : len < 32768) (ho' : out.jb.origin = some ((o2 + (len : Int)) % 65536))
    (hbound : jb.origin ≠ none → oi2 < oi + 32768)
    (hshape : (oi2 = j ∧ o2 = p.seq ∧ (jb.origin = none ∨ ∃ o, jb.origin = some o ∧
            uint16_add o (-p.seq) < uint16_add p.seq (-o) ∧ (MAX_MISORDER : Int) ≤ uint16_add o (-p.seq))) ∨
       (∃ o, jb.origin = some o ∧ ¬ (uint16_add o (-p.seq) < uint16_add p.seq (-o)) ∧ oi ≤ oi2 ∧
            o2 = (o + ((oi2 : Int) - oi)) % 65536)) :
    oiNext jb oi j p out = oi2 + len := by
  unfold oiNext
  rcases hshape with ⟨h1, h2, h3⟩ | ⟨o, ho, hl, hle, h2⟩
  · have hf : fwd p.seq ((o2 + (len : Int)) % 65536) = len := by rw [h2]; unfold fwd; omega
    rcases h3 with h3 | ⟨o, ho, hl, hm⟩
    · rw [h3, ho']; simp only []; rw [hf, h1]
    · rw [ho, ho']; simp only []; rw [if_pos ⟨hl, hm⟩, hf, h1]
  · have hb := hbound (by rw [ho]; simp)
    rw [ho, ho']; simp only []
    rw [if_neg (fun h => hl h.1)]
    have : fwd o ((o2 + (len : Int)) % 65536) = (oi2 - oi) + len := by rw [h2]; unfold fwd; omega
    rw [this]; omega

theorem gstep {s0 : Int} {stream : List Packet} (hS : StreamOK s0 stream) {jb : JB} {oi j : Nat} {p : Packet}
    (hG : GInv s0 stream jb oi) (hj : stream[j]? = some p) (hn : jb.origin ≠ none → Near oi j) {out : AddOut}
    (e : add jb p = .ok out) :
    ∃ oi2 : Nat,
      GInv s0 stream out.jb (oi2 + out.used.length) ∧ Same jb out.jb ∧
      oiNext jb oi j p out = oi2 + out.used.length ∧
      (out.frame = none → out.used = []) ∧
      (∀ f, out.frame = some f → RunAt stream oi2 f out.used) ∧
      (jb.origin = none → oi2 = j) ∧
      (out.pli = false → jb.isVideo = true → jb.origin ≠ none → oi2 = oi) ∧
      (¬ Late jb p 100 → jb.origin ≠ none → oi ≤ oi2) ∧
      out.jb.origin ≠ none ∧
      (oi2 + out.used.length = oi ∨ oi2 + out.used.length < stream.length) := by
  have hp : R16 p.seq := by rw [hS.seqs j p hj]; unfold R16 seqAt; omega
  obtain ⟨out', e', hA⟩ := add_spec2 hG.inv p hp
  rw [e] at e'; injection e' with e'; subst e'
  rcases hA with ⟨o, ho, hl, hm, hjb, hpli, hf, hu⟩ | ⟨jb2, o2, jb3, hS2, hI2, ho2, hnear, hB, hPl, hRF⟩
  · refine ⟨oi, by rw [hjb, hu]; exact hG, by rw [hjb]; exact Same.rfl' jb, ?_, fun _ => hu,
      (fun f h => by simp [hf] at h), (fun h => by simp [ho] at h), fun _ _ _ => rfl, fun _ _ => Nat.le_refl _,
      by rw [hjb, ho]; simp, Or.inl (by rw [hu]; rfl)⟩
    unfold oiNext
    rw [hjb, ho, hu]; simp only []
    rw [if_neg (fun h => by omega)]
    unfold fwd; simp
  · obtain ⟨oi2, hoe, hle, hlt, hheld, hnone, hpli, hnl, hshape⟩ := branch_index hS hG hj hn hB
    obtain ⟨hS3, ho3, hI3, hH3⟩ := hPl
    have ho3' : jb3.origin = some o2 := by rw [ho3, ho2]
    have hcap3 : jb3.capacity ≤ 32768 := by rw [← hS3.1, ← hS2.1]; exact hG.cap
    have held3 : ∀ s q, Held jb3 s q → ∃ jq, stream[jq]? = some q ∧ oi2 ≤ jq ∧ jq < oi2 + 65536 := by
      intro s q h
      have := (hH3 s q).1 h
      split at this
      · subst this; exact ⟨j, hj, hle, by omega⟩
      · exact hheld s q this
    have hbound : jb.origin ≠ none → oi2 < oi + 32768 := by
      intro h; have := hn h; unfold Near at this; omega
    rcases hRF with ⟨hf, hu, hjb, _⟩ | ⟨f, st, hf, hF, hSh, _⟩
    · refine ⟨oi2, ?_, by rw [hjb]; exact hS2.trans hS3, ?_, fun _ => hu, (fun f h => by simp [hf] at h), hnone,
        hpli, hnl, by rw [hjb, ho3']; simp, Or.inr ?_⟩
      · rw [hjb, hu]
        exact ⟨hI3, hcap3, fun o h => by rw [ho3'] at h; injection h with h; rw [← h, hoe]; simp, by simpa using held3⟩
      · rw [hu]
        exact oiNext_eq 0 (by omega) (by rw [hjb, ho3']; simp; have := hI3.orig o2 ho3'; unfold R16 at this; omega)
          hbound hshape
      · rw [hu]
        have hjl : j < stream.length := by
          rcases Nat.lt_or_ge j stream.length with h | h
          · exact h
          · rw [List.getElem?_eq_none h] at hj; cases hj
        simp; omega
    · obtain ⟨hne, hlen, hdata, hrun, q', hq', hqts⟩ := hF
      have hlen' : out.used.length < 32768 := by omega
      have hidx : ∀ (k : Nat) q, k < jb3.capacity → Held jb3 (pos jb3 (o2 + (k : Int))) q → stream[oi2 + k]? = some q := by
        intro k q hk h
        have hd := dist_of_held hI3 ho3' (Int.natCast_nonneg k) (by omega) h
        obtain ⟨jq, h1, h2, h3⟩ := held3 _ q h
        have := dist_stream hS h1 h2 h3
        rw [← hoe, hd] at this
        have : jq = oi2 + k := by omega
        rw [← this]; exact h1
      refine ⟨oi2, ?_, (hS2.trans hS3).trans hSh.1, ?_, (fun h => by simp [hf] at h), ?_, hnone, hpli, hnl,
        by rw [hSh.2.1]; simp, Or.inr ?_⟩
      · refine ⟨hSh.2.2.1, by rw [← hSh.1.1]; exact hcap3, ?_, ?_⟩
        · intro o h; rw [hSh.2.1] at h; injection h with h; rw [← h, hoe]; unfold seqAt; push_cast; omega
        · intro s q h
          obtain ⟨h1, h2⟩ := (hSh.2.2.2.2 s q).1 h
          obtain ⟨jq, h3, h4, h5⟩ := held3 s q h1
          have := dist_stream hS h3 h4 h5
          rw [← hoe] at this
          exact ⟨jq, h3, by omega, by omega⟩
      · exact oiNext_eq out.used.length hlen' hSh.2.1 hbound hshape
      · intro f' hf'
        rw [hf] at hf'; injection hf' with hf'; subst hf'
        refine ⟨hne, ?_, hdata, ?_, q', hidx _ q' hlen hq', hqts⟩
        · intro k q hk
          have hk' : k < out.used.length := by
            rcases Nat.lt_or_ge k out.used.length with h | h
            · exact h
            · rw [List.getElem?_eq_none h] at hk; cases hk
          exact hidx k q (by omega) (hrun k q hk).1
        · intro q hq
          obtain ⟨k, hk⟩ := List.getElem?_of_mem hq
          exact (hrun k q hk).2
      · have := hidx _ q' hlen hq'
        rcases Nat.lt_or_ge (oi2 + out.used.length) stream.length with h | h
        · exact h
        · rw [List.getElem?_eq_none h] at this; cases this

end Aiortc.Lemmas.Video
