import Aiortc.Model.Vp8
import Aiortc.Lemmas.Bytes
/-! Helper lemmas for C16 (VP8 part). -/
namespace Aiortc.Lemmas.Vp8
open Aiortc Aiortc.Gen Aiortc.Model.Vp8

/-- The descriptor `Vp8Encoder._packetize` uses: S bit, partition 0, 15-bit picture id, no extensions. -/
def D (s pic : Nat) : Descr := { partition_start := s, partition_id := 0, picture_id := some pic }

/-- Its wire form: `X|S<<4`, `I`, then the picture id in 7 or 15 bits (M bit set). -/
def hdr (s pic : Nat) : Bytes :=
  [0x80 ||| (s <<< 4), 0x80] ++ (if pic < 128 then [pic] else u16be (0x8000 ||| pic))

theorem packB_ok (n : Nat) (h : n < 256) : packB n = .ok [n] := by
  unfold packB packU8?
  split
  · simp [Outcome.ofStruct, u8, Nat.mod_eq_of_lt h]
  · omega

theorem packH_ok (n : Nat) (h : n < 65536) : packH n = .ok (u16be n) := by
  unfold packH packU16?
  split
  · simp [Outcome.ofStruct]
  · omega

theorem or_8000 (pic : Nat) (h : pic < 32768) : 0x8000 ||| pic = 32768 + pic := by
  have := Nat.two_pow_add_eq_or_of_lt (i := 15) (b := pic) (by simpa using h) 1
  simpa using this.symm

theorem hdr_length (s pic : Nat) : (hdr s pic).length = if pic < 128 then 3 else 4 := by
  unfold hdr; split <;> simp

theorem ok_bind {α β} (a : α) (f : α → Outcome β) : (Outcome.ok a >>= f) = f a := rfl
theorem pure_eq {α} (a : α) : (pure a : Outcome α) = Outcome.ok a := rfl
/-- wire form of the picture id -/
def picB : Option Nat → Bytes
  | none => []
  | some p => if p < 128 then [p] else u16be (0x8000 ||| p)

/-- wire form of TL0PICIDX -/
def tl0B : Option Nat → Bytes
  | none => []
  | some t => [t]

theorem picBytes_some (p : Nat) : picBytes (some p) = if p < 128 then packB p else packH ((1 <<< 15) ||| p) := rfl
theorem tl0Bytes_some (t : Nat) : tl0Bytes (some t) = packB t := rfl

theorem picBytes_ok (o : Option Nat) (h : ∀ p ∈ o, p < 32768) : picBytes o = .ok (picB o) := by
  cases o with
  | none => rfl
  | some p =>
    have hp := h p rfl
    rw [picBytes_some]
    by_cases hlt : p < 128
    · rw [if_pos hlt, packB_ok p (by omega)]; simp only [picB, hlt, if_true]
    · rw [if_neg hlt, packH_ok _ (by rw [show (1 <<< 15 : Nat) = 0x8000 from rfl, or_8000 p hp]; omega)]
      simp only [picB, hlt, if_false]; rfl

theorem tl0Bytes_ok (o : Option Nat) (h : ∀ t ∈ o, t < 256) : tl0Bytes o = .ok (tl0B o) := by
  cases o with
  | none => rfl
  | some t => rw [tl0Bytes_some, packB_ok t (h t rfl)]; rfl

set_option maxRecDepth 100000 in
theorem tk_bits : ∀ t0 < 4, ∀ t1 < 2, ∀ k < 32,
    (0 ||| (t0 <<< 6 ||| t1 <<< 5)) ||| k < 256 ∧
    (((0 ||| (t0 <<< 6 ||| t1 <<< 5)) ||| k) >>> 6) &&& 3 = t0 ∧
    (((0 ||| (t0 <<< 6 ||| t1 <<< 5)) ||| k) >>> 5) &&& 1 = t1 ∧
    ((0 ||| (t0 <<< 6 ||| t1 <<< 5)) ||| k) &&& 0x1F = k := by decide

theorem tkVal_lt (tid : Option (Nat × Nat)) (k : Option Nat) (ht : ∀ t ∈ tid, t.1 < 4 ∧ t.2 < 2)
    (hk : ∀ x ∈ k, x < 32) : tkVal tid k < 256 := by
  cases tid with
  | none =>
    cases k with
    | none => simp [tkVal]
    | some x => have := hk x rfl; simp [tkVal]; omega
  | some t =>
    obtain ⟨t0, t1⟩ := t
    obtain ⟨h0, h1⟩ := ht (t0, t1) rfl
    cases k with
    | none => have := (tk_bits t0 h0 t1 h1 0 (by omega)).1; simpa [tkVal] using this
    | some x => exact (tk_bits t0 h0 t1 h1 x (hk x rfl)).1

theorem tkBytes_ok (tid : Option (Nat × Nat)) (k : Option Nat) (ht : ∀ t ∈ tid, t.1 < 4 ∧ t.2 < 2)
    (hk : ∀ x ∈ k, x < 32) :
    tkBytes tid k = .ok (if tid.isSome ∨ k.isSome then [tkVal tid k] else []) := by
  unfold tkBytes
  split
  · rw [packB_ok _ (tkVal_lt tid k ht hk)]
  · rfl

set_option maxRecDepth 100000 in
theorem octet_bits : ∀ s < 2, ∀ pid < 16,
    (1 <<< 7) ||| ((s <<< 4) ||| pid) < 256 ∧ ((1 <<< 7) ||| ((s <<< 4) ||| pid)) >>> 7 = 1 ∧
    (((1 <<< 7) ||| ((s <<< 4) ||| pid)) >>> 4) &&& 1 = s ∧ ((1 <<< 7) ||| ((s <<< 4) ||| pid)) &&& 0xF = pid ∧
    (s <<< 4) ||| pid < 256 ∧ ((s <<< 4) ||| pid) >>> 7 = 0 ∧
    (((s <<< 4) ||| pid) >>> 4) &&& 1 = s ∧ ((s <<< 4) ||| pid) &&& 0xF = pid := by decide

theorem extOctet_lt (d : Descr) : extOctet d < 256 := by
  obtain ⟨s, pid, pic, tl0, tid, k⟩ := d
  unfold extOctet
  cases pic <;> cases tl0 <;> cases tid <;> cases k <;> simp

/-- A descriptor whose fields fit their wire widths. -/
def InRange (d : Descr) : Prop :=
  d.partition_start < 2 ∧ d.partition_id < 16 ∧ (∀ p ∈ d.picture_id, p < 32768) ∧
  (∀ t ∈ d.tl0picidx, t < 256) ∧ (∀ t ∈ d.tid, t.1 < 4 ∧ t.2 < 2) ∧ (∀ k ∈ d.keyidx, k < 32)

/-- first octet with the X bit -/
def xOctet (s pid : Nat) : Nat := (1 <<< 7) ||| ((s <<< 4) ||| pid)
/-- first octet without extension -/
def plainOctet (s pid : Nat) : Nat := (s <<< 4) ||| pid

/-- Closed form of `__bytes__` for in-range fields. -/
def wire (d : Descr) : Bytes :=
  if extOctet d ≠ 0 then
    [xOctet d.partition_start d.partition_id, extOctet d] ++
      picB d.picture_id ++ tl0B d.tl0picidx ++
      (if d.tid.isSome ∨ d.keyidx.isSome then [tkVal d.tid d.keyidx] else [])
  else [plainOctet d.partition_start d.partition_id]

theorem toBytes_wire (d : Descr) (h : InRange d) : d.toBytes = .ok (wire d) := by
  obtain ⟨hs, hpid, hpic, htl0, htid, hk⟩ := h
  have ho := octet_bits d.partition_start hs d.partition_id hpid
  unfold Descr.toBytes wire
  by_cases hext : extOctet d ≠ 0
  · rw [if_pos hext, if_pos hext]
    rw [packB_ok _ ho.1, ok_bind, packB_ok _ (extOctet_lt d), ok_bind, picBytes_ok _ hpic, ok_bind,
      tl0Bytes_ok _ htl0, ok_bind, tkBytes_ok _ _ htid hk, ok_bind]
    rfl
  · rw [if_neg hext, if_neg hext]
    exact packB_ok _ ho.2.2.2.2.1

theorem inRange_D (s pic : Nat) (hs : s < 2) (hp : pic < 32768) : InRange (D s pic) := by
  refine ⟨hs, by simp [D], ?_, ?_, ?_, ?_⟩
  · intro p h; simp [D] at h; omega
  · intro t h; simp [D] at h
  · intro t h; simp [D] at h
  · intro t h; simp [D] at h

theorem toBytes_D (s pic : Nat) (hs : s < 2) (hp : pic < 32768) : (D s pic).toBytes = .ok (hdr s pic) := by
  rw [toBytes_wire (D s pic) (inRange_D s pic hs hp)]
  have : s = 0 ∨ s = 1 := by omega
  rcases this with rfl | rfl <;> simp [wire, D, hdr, extOctet, picB, tl0B, xOctet]

set_option maxRecDepth 100000 in
theorem hi_bit_set : ∀ h < 256, 128 ≤ h → h &&& 0x80 ≠ 0 := by decide
set_option maxRecDepth 100000 in
theorem hi_bit_clear : ∀ h < 128, h &&& 0x80 = 0 := by decide

theorem and_7fff (pic : Nat) (h : pic < 32768) : (32768 + pic) &&& 0x7FFF = pic := by
  have := Nat.and_two_pow_sub_one_eq_mod (32768 + pic) 15
  rw [show (2 ^ 15 - 1 : Nat) = 0x7FFF from rfl] at this
  rw [this]; omega

theorem parse_hdr (s pic : Nat) (c : Bytes) (hs : s < 2) (hp : pic < 32768) :
    parse (hdr s pic ++ c) = .ok (D s pic, c) := by
  have hs' : s = 0 ∨ s = 1 := by omega
  by_cases hlt : pic < 128
  · have hb := hi_bit_clear pic hlt
    rcases hs' with rfl | rfl <;> simp [hdr, hlt, parse, hb, D]
  · have h8 := or_8000 pic hp
    have hhi : ((32768 + pic) / 256 % 256) &&& 0x80 ≠ 0 := hi_bit_set _ (by omega) (by omega)
    have hv : ((32768 + pic) / 256 % 256) * 256 + (32768 + pic) % 256 = 32768 + pic := by omega
    have h7 := and_7fff pic hp
    have hl : ¬ (c.length + 1 + 1 + 1 + 1 < 4) := by omega
    rcases hs' with rfl | rfl <;>
      simp [hdr, hlt, parse, D, h8, u16be, hhi, slice, unpackU16?, hv, h7, hl]

/-! ## the packetiser loop as a pure function -/

/-- Cut `rest` into pieces of `m` bytes (the last one may be shorter). -/
def chunksOf (m : Nat) : Nat → Bytes → List Bytes
  | 0, _ => []
  | f + 1, rest =>
    if 0 < rest.length then
      rest.take (min rest.length m) :: chunksOf m f (rest.drop (min rest.length m))
    else []

/-- First chunk behind header `h0`, all later chunks behind header `h`. -/
def attach (h0 h : Bytes) : List Bytes → List Bytes
  | [] => []
  | c :: cs => (h0 ++ c) :: cs.map (h ++ ·)

theorem attach_same (h : Bytes) (cs : List Bytes) : attach h h cs = cs.map (h ++ ·) := by
  cases cs <;> simp [attach]

theorem slice_eq {α} (d : List α) (i n : Nat) : slice d i (i + n) = (d.drop i).take n := by
  unfold slice
  rw [List.drop_take, Nat.add_sub_cancel_left]

theorem D_set_zero (s pic : Nat) : { D s pic with partition_start := 0 } = D 0 pic := rfl

theorem packetizeLoop_eq (buffer : Bytes) (pic : Nat) (hp : pic < 32768) :
    ∀ (fuel pos s : Nat), s < 2 → buffer.length - pos < fuel →
      packetizeLoop buffer fuel (D s pic) pos =
        .ok (attach (hdr s pic) (hdr 0 pic)
          (chunksOf (1300 - (hdr 0 pic).length) fuel (buffer.drop pos))) := by
  intro fuel
  induction fuel with
  | zero => intro _ _ _ h; omega
  | succ f ih =>
    intro pos s hs hf
    rw [packetizeLoop, chunksOf]
    by_cases hpos : pos < buffer.length
    · have hl : (hdr s pic).length = (hdr 0 pic).length := by rw [hdr_length, hdr_length]
      have hl3 : (hdr 0 pic).length ≤ 4 := by rw [hdr_length]; split <;> omega
      have hdl : (buffer.drop pos).length = buffer.length - pos := List.length_drop
      rw [if_pos hpos, toBytes_D s pic hs hp, if_pos (by rw [hdl]; omega)]
      simp only [D_set_zero, VPX_PACKET_MAX, hl, hdl]
      rw [ih (pos + min (buffer.length - pos) (1300 - (hdr 0 pic).length)) 0 (by omega) (by omega)]
      rw [attach_same]
      simp only [attach, slice_eq, List.drop_drop]
    · rw [if_neg hpos, if_neg (by simp; omega)]
      rfl

theorem chunksOf_flatten (m : Nat) (hm : 1 ≤ m) : ∀ (fuel : Nat) (rest : Bytes), rest.length < fuel →
    (chunksOf m fuel rest).flatten = rest := by
  intro fuel
  induction fuel with
  | zero => intro _ h; omega
  | succ f ih =>
    intro rest hf
    rw [chunksOf]
    by_cases h0 : 0 < rest.length
    · rw [if_pos h0, List.flatten_cons, ih _ (by simp only [List.length_drop]; omega), List.take_append_drop]
    · rw [if_neg h0]
      have : rest = [] := List.eq_nil_of_length_eq_zero (by omega)
      simp [this]

theorem chunksOf_size (m : Nat) (hm : 1 ≤ m) : ∀ (fuel : Nat) (rest : Bytes),
    ∀ c ∈ chunksOf m fuel rest, 1 ≤ c.length ∧ c.length ≤ m := by
  intro fuel
  induction fuel with
  | zero => intro _ c hc; simp [chunksOf] at hc
  | succ f ih =>
    intro rest c hc
    rw [chunksOf] at hc
    by_cases h0 : 0 < rest.length
    · rw [if_pos h0] at hc
      rcases List.mem_cons.mp hc with h | h
      · subst h; simp only [List.length_take]; omega
      · exact ih _ c h
    · rw [if_neg h0] at hc; simp at hc

/-- number of chunks = ⌈len / m⌉ -/
theorem chunksOf_length (m : Nat) (hm : 1 ≤ m) : ∀ (fuel : Nat) (rest : Bytes), rest.length < fuel →
    (chunksOf m fuel rest).length = (rest.length + m - 1) / m := by
  intro fuel
  induction fuel with
  | zero => intro _ h; omega
  | succ f ih =>
    intro rest hf
    rw [chunksOf]
    by_cases h0 : 0 < rest.length
    · rw [if_pos h0, List.length_cons, ih _ (by simp only [List.length_drop]; omega)]
      simp only [List.length_drop]
      by_cases hle : rest.length ≤ m
      · rw [Nat.min_eq_left hle, Nat.sub_self]
        have h1 : (0 + m - 1) / m = 0 := by
          rw [Nat.zero_add]; exact Nat.div_eq_of_lt (by omega)
        have h2 : (rest.length + m - 1) / m = 1 := by
          have : rest.length + m - 1 = (rest.length - 1) + 1 * m := by omega
          rw [this, Nat.add_mul_div_right _ _ (by omega), Nat.div_eq_of_lt (by omega)]
        rw [h1, h2]
      · rw [Nat.min_eq_right (by omega)]
        have : rest.length + m - 1 = (rest.length - m + m - 1) + 1 * m := by omega
        rw [this, Nat.add_mul_div_right _ _ (by omega)]
    · rw [if_neg h0]
      have : rest.length = 0 := by omega
      rw [this, Nat.zero_add, List.length_nil, Nat.div_eq_of_lt (by omega)]

/-- `Vp8Encoder._packetize` for a 15-bit picture id: the frame cut into chunks of at most
`1300 - len(descriptor)` bytes, the first behind the S=1 descriptor, the others behind the S=0 one. -/
theorem packetize_eq (buffer : Bytes) (pic : Nat) (hp : pic < 32768) :
    ∃ chunks, packetize buffer pic = .ok (attach (hdr 1 pic) (hdr 0 pic) chunks) ∧
      chunks.flatten = buffer ∧ (∀ c ∈ chunks, 1 ≤ c.length ∧ c.length + (hdr 0 pic).length ≤ 1300) ∧
      chunks.length = (buffer.length + (1300 - (hdr 0 pic).length) - 1) / (1300 - (hdr 0 pic).length) := by
  have hl3 : (hdr 0 pic).length ≤ 4 := by rw [hdr_length]; split <;> omega
  have h := packetizeLoop_eq buffer pic hp (buffer.length + 1) 0 1 (by omega) (by omega)
  refine ⟨_, h, ?_, ?_, ?_⟩
  · exact chunksOf_flatten _ (by omega) _ _ (by simp)
  · intro c hc
    have := chunksOf_size _ (by omega) _ _ c hc
    omega
  · exact chunksOf_length _ (by omega) _ _ (by simp)

theorem depayload_hdr (s pic : Nat) (c : Bytes) (hs : s < 2) (hp : pic < 32768) :
    depayload (hdr s pic ++ c) = .ok c := by
  unfold depayload; rw [parse_hdr s pic c hs hp]

theorem depayloadAll_map (pic : Nat) (hp : pic < 32768) (cs : List Bytes) :
    depayloadAll (cs.map (hdr 0 pic ++ ·)) = .ok cs.flatten := by
  induction cs with
  | nil => rfl
  | cons c cs ih =>
    simp only [List.map_cons, depayloadAll, depayload_hdr 0 pic c (by omega) hp, ih, List.flatten_cons]

theorem depayloadAll_attach (pic : Nat) (hp : pic < 32768) (cs : List Bytes) :
    depayloadAll (attach (hdr 1 pic) (hdr 0 pic) cs) = .ok cs.flatten := by
  cases cs with
  | nil => rfl
  | cons c cs =>
    simp only [attach, depayloadAll, depayload_hdr 1 pic c (by omega) hp, depayloadAll_map pic hp cs,
      List.flatten_cons]

/-! ## general descriptor round trip -/

set_option maxRecDepth 100000 in
theorem tid_bits : ∀ t0 < 4, ∀ t1 < 2,
    ((0 ||| (t0 <<< 6 ||| t1 <<< 5)) >>> 6) &&& 3 = t0 ∧ ((0 ||| (t0 <<< 6 ||| t1 <<< 5)) >>> 5) &&& 1 = t1 := by decide
set_option maxRecDepth 100000 in
theorem key_bits : ∀ k < 32, (0 ||| k) &&& 0x1F = k := by decide

theorem tkVal_tid (t0 t1 : Nat) (k : Option Nat) (h0 : t0 < 4) (h1 : t1 < 2) (hk : ∀ x ∈ k, x < 32) :
    (tkVal (some (t0, t1)) k >>> 6) &&& 3 = t0 ∧ (tkVal (some (t0, t1)) k >>> 5) % 2 = t1 := by
  rw [← Nat.and_one_is_mod]
  cases k with
  | none => exact tid_bits t0 h0 t1 h1
  | some x => have := tk_bits t0 h0 t1 h1 x (hk x rfl); exact ⟨this.2.1, this.2.2.1⟩

theorem tkVal_key (tid : Option (Nat × Nat)) (x : Nat) (ht : ∀ t ∈ tid, t.1 < 4 ∧ t.2 < 2) (hx : x < 32) :
    tkVal tid (some x) &&& 0x1F = x := by
  cases tid with
  | none => exact key_bits x hx
  | some t =>
    obtain ⟨t0, t1⟩ := t
    obtain ⟨h0, h1⟩ := ht (t0, t1) rfl
    exact (tk_bits t0 h0 t1 h1 x hx).2.2.2

theorem xOctet_bits (s pid : Nat) (hs : s < 2) (hp : pid < 16) :
    xOctet s pid >>> 7 = 1 ∧ (xOctet s pid >>> 4) % 2 = s ∧ xOctet s pid &&& 0xF = pid := by
  rw [← Nat.and_one_is_mod]
  have := octet_bits s hs pid hp
  exact ⟨this.2.1, this.2.2.1, this.2.2.2.1⟩

theorem plainOctet_bits (s pid : Nat) (hs : s < 2) (hp : pid < 16) :
    plainOctet s pid >>> 7 = 0 ∧ (plainOctet s pid >>> 4) % 2 = s ∧ plainOctet s pid &&& 0xF = pid := by
  rw [← Nat.and_one_is_mod]
  have := octet_bits s hs pid hp
  exact ⟨this.2.2.2.2.2.1, this.2.2.2.2.2.2.1, this.2.2.2.2.2.2.2⟩

set_option linter.unusedSimpArgs false in
/-- `parse` inverts the wire form, whatever follows it. -/
theorem parse_wire (d : Descr) (rest : Bytes) (h : InRange d) : parse (wire d ++ rest) = .ok (d, rest) := by
  obtain ⟨s, pid, pic, tl0, tid, k⟩ := d
  obtain ⟨hs, hpid, hpic, htl0, htid, hk⟩ := h
  simp only at hs hpid hpic htl0 htid hk
  obtain ⟨x7, x4, x0⟩ := xOctet_bits s pid hs hpid
  obtain ⟨p7, p4, p0⟩ := plainOctet_bits s pid hs hpid
  rcases pic with _ | p
  · -- no picture id
    rcases tid with _ | ⟨t0, t1⟩ <;> rcases k with _ | kk
    · rcases tl0 with _ | t <;> simp [wire, extOctet, picB, tl0B, parse, x7, x4, x0, p7, p4, p0]
    · have hkk := tkVal_key none kk (by simp) (hk kk rfl)
      rcases tl0 with _ | t <;> simp [wire, extOctet, picB, tl0B, parse, x7, x4, x0, p7, p4, p0, hkk]
    · obtain ⟨ht0, ht1⟩ := htid (t0, t1) rfl
      obtain ⟨hb6, hb5⟩ := tkVal_tid t0 t1 none ht0 ht1 (by simp)
      rcases tl0 with _ | t <;> simp [wire, extOctet, picB, tl0B, parse, x7, x4, x0, p7, p4, p0, hb6, hb5]
    · obtain ⟨ht0, ht1⟩ := htid (t0, t1) rfl
      obtain ⟨hb6, hb5⟩ := tkVal_tid t0 t1 (some kk) ht0 ht1 hk
      have hkk := tkVal_key (some (t0, t1)) kk htid (hk kk rfl)
      rcases tl0 with _ | t <;> simp [wire, extOctet, picB, tl0B, parse, x7, x4, x0, p7, p4, p0, hb6, hb5, hkk]
  · have hp := hpic p rfl
    by_cases hlt : p < 128
    · -- 7-bit picture id
      have hb := hi_bit_clear p hlt
      rcases tid with _ | ⟨t0, t1⟩ <;> rcases k with _ | kk
      · rcases tl0 with _ | t <;> simp [wire, extOctet, picB, tl0B, parse, x7, x4, x0, p7, p4, p0, hlt, hb]
      · have hkk := tkVal_key none kk (by simp) (hk kk rfl)
        rcases tl0 with _ | t <;> simp [wire, extOctet, picB, tl0B, parse, x7, x4, x0, p7, p4, p0, hlt, hb, hkk]
      · obtain ⟨ht0, ht1⟩ := htid (t0, t1) rfl
        obtain ⟨hb6, hb5⟩ := tkVal_tid t0 t1 none ht0 ht1 (by simp)
        rcases tl0 with _ | t <;> simp [wire, extOctet, picB, tl0B, parse, x7, x4, x0, p7, p4, p0, hlt, hb, hb6, hb5]
      · obtain ⟨ht0, ht1⟩ := htid (t0, t1) rfl
        obtain ⟨hb6, hb5⟩ := tkVal_tid t0 t1 (some kk) ht0 ht1 hk
        have hkk := tkVal_key (some (t0, t1)) kk htid (hk kk rfl)
        rcases tl0 with _ | t <;> simp [wire, extOctet, picB, tl0B, parse, x7, x4, x0, p7, p4, p0, hlt, hb, hb6, hb5, hkk]
    · -- 15-bit picture id
      have h8 := or_8000 p hp
      have hhi : ((32768 + p) / 256 % 256) &&& 0x80 ≠ 0 := hi_bit_set _ (by omega) (by omega)
      have hv : ((32768 + p) / 256 % 256) * 256 + (32768 + p) % 256 = 32768 + p := by omega
      have h7 := and_7fff p hp
      have hl4 : ∀ n : Nat, ¬ (n + 1 + 1 + 1 + 1 < 4) := fun n => by omega
      rcases tid with _ | ⟨t0, t1⟩ <;> rcases k with _ | kk
      · rcases tl0 with _ | t <;> simp [wire, extOctet, picB, tl0B, parse, x7, x4, x0, p7, p4, p0, hlt, h8, u16be, hhi, slice, unpackU16?, hv, h7, hl4]
      · have hkk := tkVal_key none kk (by simp) (hk kk rfl)
        rcases tl0 with _ | t <;> simp [wire, extOctet, picB, tl0B, parse, x7, x4, x0, p7, p4, p0, hlt, h8, u16be, hhi, slice, unpackU16?, hv, h7, hl4, hkk]
      · obtain ⟨ht0, ht1⟩ := htid (t0, t1) rfl
        obtain ⟨hb6, hb5⟩ := tkVal_tid t0 t1 none ht0 ht1 (by simp)
        rcases tl0 with _ | t <;> simp [wire, extOctet, picB, tl0B, parse, x7, x4, x0, p7, p4, p0, hlt, h8, u16be, hhi, slice, unpackU16?, hv, h7, hl4, hb6, hb5]
      · obtain ⟨ht0, ht1⟩ := htid (t0, t1) rfl
        obtain ⟨hb6, hb5⟩ := tkVal_tid t0 t1 (some kk) ht0 ht1 hk
        have hkk := tkVal_key (some (t0, t1)) kk htid (hk kk rfl)
        rcases tl0 with _ | t <;> simp [wire, extOctet, picB, tl0B, parse, x7, x4, x0, p7, p4, p0, hlt, h8, u16be, hhi, slice, unpackU16?, hv, h7, hl4, hb6, hb5, hkk]
