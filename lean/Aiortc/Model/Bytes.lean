/-!
# Bytes — big-endian packing helpers shared by the wire models (no Mathlib)

A byte string is a `List Nat` whose elements are `< 256` (`IsBytes`).  `struct.pack("!H", n)` etc.
raise `struct.error` outside the field's range: the `pack*?` variants return `none` there, the plain
variants are only used under a proved / checked range guard.
-/
namespace Aiortc

abbrev Bytes := List Nat

def IsBytes (l : Bytes) : Prop := ∀ b ∈ l, b < 256

instance (l : Bytes) : Decidable (IsBytes l) := by unfold IsBytes; infer_instance

/-- Big-endian value of a byte string (`int.from_bytes(b, "big")`). -/
def beVal : Bytes → Nat
  | l => l.foldl (fun acc b => acc * 256 + b) 0

def u8 (n : Nat) : Bytes := [n % 256]
def u16be (n : Nat) : Bytes := [n / 256 % 256, n % 256]
def u24be (n : Nat) : Bytes := [n / 65536 % 256, n / 256 % 256, n % 256]
def u32be (n : Nat) : Bytes := [n / 16777216 % 256, n / 65536 % 256, n / 256 % 256, n % 256]
def u64be (n : Nat) : Bytes := u32be (n / 4294967296 % 4294967296) ++ u32be (n % 4294967296)

/-- `struct.pack("!B"/"!H"/"!L"/"!Q", n)`: `none` models `struct.error` (out of range). -/
def packU8? (n : Int) : Option Bytes := if 0 ≤ n ∧ n < 256 then some (u8 n.toNat) else none
def packU16? (n : Int) : Option Bytes := if 0 ≤ n ∧ n < 65536 then some (u16be n.toNat) else none
def packU32? (n : Int) : Option Bytes := if 0 ≤ n ∧ n < 4294967296 then some (u32be n.toNat) else none
def packU64? (n : Int) : Option Bytes :=
  if 0 ≤ n ∧ n < 18446744073709551616 then some (u64be n.toNat) else none

/-- `struct.unpack("!H", d)` on exactly 2 bytes etc.; `none` models `struct.error` (wrong length). -/
def unpackU8? : Bytes → Option Nat
  | [a] => some a
  | _ => none
def unpackU16? : Bytes → Option Nat
  | [a, b] => some (a * 256 + b)
  | _ => none
def unpackU24? : Bytes → Option Nat
  | [a, b, c] => some ((a * 256 + b) * 256 + c)
  | _ => none
def unpackU32? : Bytes → Option Nat
  | [a, b, c, d] => some (((a * 256 + b) * 256 + c) * 256 + d)
  | _ => none

/-- Python slice `d[i:j]` for `0 ≤ i`. -/
def slice (d : List α) (i j : Nat) : List α := (d.take j).drop i

/-- `d[i:]`. -/
def from_ (d : List α) (i : Nat) : List α := d.drop i

def zeros (n : Nat) : Bytes := List.replicate n 0

/-- Outcome of a modelled entry point: what the real code returns, or which kind of exception
escapes.  `valueError` is the only exception wire parsers are allowed to raise. -/
inductive Outcome (α : Type) where
  | ok : α → Outcome α
  | valueError : Outcome α
  | crash : String → Outcome α      -- struct.error / AssertionError / IndexError / … (escapes callers)
  | hang : Outcome α                -- fuel exhausted: the real loop does not terminate
  deriving Repr, DecidableEq

namespace Outcome
def isOk {α} : Outcome α → Bool
  | ok _ => true
  | _ => false
def bind {α β} (x : Outcome α) (f : α → Outcome β) : Outcome β :=
  match x with
  | ok a => f a
  | valueError => valueError
  | crash k => crash k
  | hang => hang
instance : Monad Outcome where
  pure := ok
  bind := bind
/-- An `Option` from a `struct` helper: `none` is a `struct.error`. -/
def ofStruct {α} : Option α → Outcome α
  | some a => ok a
  | none => crash "struct.error"
def tag {α} (f : α → String) : Outcome α → String
  | ok a => "ok " ++ f a
  | valueError => "ValueError"
  | crash k => "crash " ++ k
  | hang => "hang"
end Outcome

end Aiortc
