/-! # C19 — the shutdown protocol of `RTCPeerConnection.close()` as an abstract task system

One peer connection.  Mirrors (with fixes/C19-*.patch applied)
  * `RTCPeerConnection.close` (rtcpeerconnection.py): the `__isClosed` latch, cancelling and awaiting the `__connect`
    tasks, the ordered teardown `for transceiver: receiver.stop(); sender.stop()` → `sctp.stop()` →
    `for transceiver: dtls.stop(); ice.stop()` → the same for the SCTP transport → state updates →
    `remove_all_listeners()` → `__isClosed.set_result`;
  * `RTCRtpSender.stop` / `RTCRtpReceiver.stop` (wait for `started`, cancel, wait for `exited`), the bodies of
    `_run_rtp` / `_run_rtcp` as program counters (`queued → loop → exited`; a task cancelled before its first step
    never runs its body: `dead`, its `exited` event is never set);
  * `RTCDtlsTransport.stop` (cancel the pump, do not wait), `RTCIceTransport.stop` (close the aioice connection,
    await the monitor task), `RTCSctpTransport.stop` (abort, state CLOSED ⇒ every channel closed);
  * the decoder thread (joined inside `receiver.stop()`), the `__connect` tasks queued by
    setLocalDescription / setRemoteDescription, the automatic close of `__updateConnectionState`.

The scheduler is adversarial: `step s a` is defined for every action whose guard holds; nothing says which enabled
action comes next.  Actions are exactly the lifecycle events the harness records on real connections, so a recorded
trace is accepted iff `run` is defined on it. -/
namespace Aiortc.Model.Close

/-! ## tasks with a started/exited handshake (`_run_rtp`, `_run_rtcp`) -/

inductive RPc | none | queued | loop | exited | dead
  deriving DecidableEq, Repr

/-- a `_run_*` task: program counter + "cancel() was called and the CancelledError is not delivered yet" -/
structure Run where
  pc : RPc := .none
  cancelReq : Bool := false
  deriving DecidableEq, Repr

namespace Run
/-- the `started` event is set (the first statement of the body ran) -/
def started (r : Run) : Bool := r.pc = .loop || r.pc = .exited
/-- first step of the task: a task cancelled before it ever ran does not execute its body at all -/
def first (r : Run) : Option Run :=
  if r.pc = .queued then some (if r.cancelReq then { r with pc := .dead } else { r with pc := .loop }) else none
/-- the body leaves its loop (CancelledError, ConnectionError, MediaStreamError, any other exception — logged) and sets
`exited` -/
def exit (r : Run) : Option Run := if r.pc = .loop then some { pc := .exited, cancelReq := false } else none
/-- `task.cancel()`: no effect on a finished task -/
def cancel (r : Run) : Run := if r.pc = .queued || r.pc = .loop then { r with cancelReq := true } else r
def rank (r : Run) : Nat := match r.pc with | .queued => 2 | .loop => 1 | _ => 0
/-- not running any more, or never created -/
def quiet (r : Run) : Bool := r.pc = .none || r.pc = .exited
/-- `stop()` may wait for `exited`: the task is finished, or running with the cancellation on its way -/
def doomed (r : Run) : Bool := r.quiet || (r.pc = .loop && r.cancelReq)
end Run

inductive Which | rtp | srtcp | rrtcp
  deriving DecidableEq, Repr

inductive Thr | none | running | exited
  deriving DecidableEq, Repr

def Thr.rank : Thr → Nat
  | .running => 1 | _ => 0

/-- one transceiver: sender, receiver, decoder thread, remote track -/
structure Trx where
  tpt : Nat
  sndStarted : Bool := false
  rtp : Run := {}
  srtcp : Run := {}
  rcvStarted : Bool := false
  rrtcp : Run := {}
  decoder : Thr := .none
  hasTrack : Bool := false
  trackEnd : Bool := false
  rcvStop : Nat := 0     -- position inside `RTCRtpReceiver.stop()` (0 = not running)
  sndStop : Nat := 0     -- position inside `RTCRtpSender.stop()`
  deriving DecidableEq, Repr

namespace Trx
def get (t : Trx) : Which → Run
  | .rtp => t.rtp | .srtcp => t.srtcp | .rrtcp => t.rrtcp
def set (t : Trx) (w : Which) (r : Run) : Trx :=
  match w with
  | .rtp => { t with rtp := r } | .srtcp => { t with srtcp := r } | .rrtcp => { t with rrtcp := r }
def rank (t : Trx) : Nat := t.rtp.rank + t.srtcp.rank + t.rrtcp.rank + t.decoder.rank
def sndQuiet (t : Trx) : Bool := t.rtp.quiet && t.srtcp.quiet
def rcvQuiet (t : Trx) : Bool := t.rrtcp.quiet && t.decoder != .running
end Trx

inductive TrxAct
  | sndStart            -- RTCRtpSender.send(): spawns _run_rtp and _run_rtcp
  | rcvStart            -- RTCRtpReceiver.receive(): starts the decoder thread, spawns _run_rtcp
  | first (w : Which)
  | exit (w : Which)
  | decoderStop         -- _handle_disconnect / RTCP BYE: the decoder thread gets its sentinel
  | mkTrack             -- setRemoteDescription created the RemoteStreamTrack
  | assign (k : Nat)    -- BUNDLE: receiver/sender.setTransport
  | cancel (w : Which)  -- a stop() called by the application (RTCRtpTransceiver.stop()) cancelled the task: it, too, has
                        -- waited for `started` first
  deriving DecidableEq, Repr

/-- `live`: a `__connect` task is running and has not been cancelled (only such a task starts anything) -/
def trxStep (live : Bool) (t : Trx) : TrxAct → Option Trx
  | .sndStart =>
    if live && !t.sndStarted && t.rtp.pc = .none && t.srtcp.pc = .none then
      some { t with sndStarted := true, rtp := { pc := .queued }, srtcp := { pc := .queued } } else none
  | .rcvStart =>
    if live && !t.rcvStarted && t.hasTrack && t.rrtcp.pc = .none && t.decoder = .none then
      some { t with rcvStarted := true, rrtcp := { pc := .queued }, decoder := .running } else none
  | .first w => (t.get w).first.map (t.set w)
  | .exit w => (t.get w).exit.map (t.set w)
  | .decoderStop => if t.decoder = .running then some { t with decoder := .exited, trackEnd := true } else none
  | .mkTrack => some { t with hasTrack := true }
  | .assign k => if t.rtp.pc = .none && t.srtcp.pc = .none && t.rrtcp.pc = .none then some { t with tpt := k } else none
  | .cancel w => if (t.get w).started then some (t.set w (t.get w).cancel) else none

/-! ## transports -/

inductive Dtls | new | connecting | connected | closed | failed
  deriving DecidableEq, Repr
inductive Ice | new | checking | completed | failed | closed
  deriving DecidableEq, Repr
inductive MPc | none | queued | waiting | exited
  deriving DecidableEq, Repr
inductive PPc | none | live | exited
  deriving DecidableEq, Repr

def MPc.rank : MPc → Nat
  | .queued => 2 | .waiting => 1 | _ => 0
def PPc.rank : PPc → Nat
  | .live => 1 | _ => 0

structure Tpt where
  dtls : Dtls := .new
  pump : PPc := .none
  pumpCancel : Bool := false
  pumpHandle : Bool := false      -- `RTCDtlsTransport._task is not None`
  ice : Ice := .new
  monitor : MPc := .none
  connClosed : Bool := false      -- the aioice connection emitted ConnectionClosed
  inSet : Bool := true            -- member of `__dtlsTransports` (false once discarded by BUNDLE)
  dtlsStop : Nat := 0             -- position inside `RTCDtlsTransport.stop()`
  iceStop : Nat := 0              -- position inside `RTCIceTransport.stop()`
  nstop : Nat := 0                -- position of the BUNDLE clean-up a setRemoteDescription() call runs on this transport:
                                  -- 0 none, 1 `await dtls.stop()`, 2 `await ice.stop()` (state closed, sockets closing),
                                  -- 3 aioice closed, 4 discarded from the connection's transport sets
  deriving DecidableEq, Repr

namespace Tpt
def rank (t : Tpt) : Nat := t.pump.rank + t.monitor.rank
def monQuiet (t : Tpt) : Bool := t.monitor = .none || t.monitor = .exited
def unstarted (t : Tpt) : Bool := t.pump = .none && t.monitor = .none && t.dtls = .new
end Tpt

inductive TptAct
  | iceStart | iceDone (ok : Bool) | dtlsStart | dtlsUp | dtlsFail
  | pumpExit            -- cancelled, or the peer closed DTLS / the ICE connection was lost
  | monFirst | monExit
  | nstep               -- next step of the BUNDLE clean-up of a setRemoteDescription() call: the transport (never started,
                        -- no longer used by any m-section) is stopped and then discarded from the connection's sets
  deriving DecidableEq, Repr

def tptStep (live : Bool) (t : Tpt) : TptAct → Option Tpt
  | .iceStart => if live && t.ice = .new && t.monitor = .none then some { t with ice := .checking, monitor := .queued } else none
  | .iceDone ok => if live && t.ice = .checking then some { t with ice := if ok then .completed else .failed } else none
  | .dtlsStart => if live && t.dtls = .new then some { t with dtls := .connecting } else none
  | .dtlsUp =>
    if live && t.dtls = .connecting && t.pump = .none then
      some { t with dtls := .connected, pump := .live, pumpHandle := true, pumpCancel := false } else none
  | .dtlsFail => if live && t.dtls = .connecting then some { t with dtls := .failed } else none
  | .pumpExit => if t.pump = .live then some { t with pump := .exited, pumpCancel := false, dtls := .closed } else none
  | .monFirst => if t.monitor = .queued then some { t with monitor := .waiting } else none
  | .monExit => if t.monitor = .waiting && t.connClosed then some { t with monitor := .exited } else none
  | .nstep =>
    if t.unstarted then
      if t.nstop = 0 then some { t with nstop := 1 }
      else if t.nstop = 1 then some { t with ice := .closed, nstop := 2 }
      else if t.nstop = 2 then some { t with connClosed := true, nstop := 3 }
      else if t.nstop = 3 then some { t with inSet := false, nstop := 4 }
      else none
    else none

/-! ## SCTP transport and data channels -/

inductive Chan | connecting | opened | closing | closed
  deriving DecidableEq, Repr

def Chan.rank : Chan → Nat
  | .connecting => 3 | .opened => 2 | .closing => 1 | .closed => 0

structure Sctp where
  tpt : Nat
  started : Bool := false
  closed : Bool := false
  chans : List Chan := []
  stop : Nat := 0               -- position inside `RTCSctpTransport.stop()`
  deriving DecidableEq, Repr

/-! ## `__connect` tasks -/

inductive CPc | queued | running | done
  deriving DecidableEq, Repr

structure Conn where
  pc : CPc := .queued
  cancelReq : Bool := false
  deriving DecidableEq, Repr

def Conn.live (c : Conn) : Bool := c.pc = .running && !c.cancelReq
def Conn.rank (c : Conn) : Nat := if c.pc = .done then 0 else 1
def Conn.cancel (c : Conn) : Conn := if c.pc = .done then c else { c with cancelReq := true }

/-! ## the close coroutine -/

inductive Instr
  | stopRcv (i : Nat) | stopSnd (i : Nat) | stopSctp | stopDtls (k : Nat) | stopIce (k : Nat)
  deriving DecidableEq, Repr

/-- what the harness sees of the primary `close()` between its own awaits -/
inductive CLabel
  | enterRcv (i : Nat) | cancelRrtcp (i : Nat) | leaveRcv (i : Nat)
  | enterSnd (i : Nat) | cancelRtp (i : Nat) | cancelSrtcp (i : Nat) | leaveSnd (i : Nat)
  | enterSctp | leaveSctp
  | enterDtls (k : Nat) | cancelPump (k : Nat) | leaveDtls (k : Nat)
  | enterIce (k : Nat) | connClosed (k : Nat) | leaveIce (k : Nat)
  | leaveClose
  deriving DecidableEq, Repr

inductive APc | none | queued | ran
  deriving DecidableEq, Repr

structure State where
  trxs : List Trx := []
  tpts : List Tpt := []
  tset : List Nat := []         -- `__dtlsTransports` / `__iceTransports` (they always change together), as a list of indices
  sctp : Option Sctp := none
  conns : List Conn := []
  inflight : Nat := 0           -- setLocalDescription / setRemoteDescription calls past their closed-check
  closed : Bool := false        -- `__isClosed is not None`
  prog : List Instr := []       -- the stop() calls the primary close() still has to make (the head one is running)
  closeDone : Bool := false     -- `__isClosed` resolved
  waiters : Nat := 0            -- further close() calls awaiting `__isClosed`
  auto : APc := .none           -- `__closeTask`
  sigClosed : Bool := false     -- signalingState == "closed"
  iceClosed : Bool := false     -- iceConnectionState == "closed"
  connClosed : Bool := false    -- connectionState == "closed"
  listeners : Bool := true      -- the connection still has its event listeners
  deriving DecidableEq, Repr

inductive Action
  -- application / negotiation / remote inputs
  | closeCall (byAuto : Bool)
  | negBegin | negSpawn | negEnd
  | addTpt | addTrx (k : Nat) | addSctp (k : Nat) | assignSctp (k : Nat)
  | chanNew | chanEv (j : Nat) (c : Chan)
  -- tasks
  | trx (i : Nat) (a : TrxAct)
  | tpt (k : Nat) (a : TptAct)
  | connFirst (c : Nat) | connExit (c : Nat)
  | sctpStart
  | close (l : CLabel)
  | waiterReturn
  -- observations (never change the state; their guard is what is checked)
  | emit                          -- a connection-level event reached a listener
  | obsCancelConn (c : Nat)       -- close() called cancel() on connect task c
  | obsAutoSpawn                  -- the auto-close task exists
  deriving DecidableEq, Repr

namespace State

def liveConn (s : State) : Bool := s.conns.any Conn.live
def connsDone (s : State) : Bool := s.conns.all (·.pc = .done)

/-- the teardown order of `close()`, from the transceiver list at the time of the call -/
def program (s : State) : List Instr :=
  ((List.range s.trxs.length).flatMap fun i => [Instr.stopRcv i, .stopSnd i])
  ++ (match s.sctp with | some _ => [Instr.stopSctp] | none => [])
  ++ (s.trxs.flatMap fun t => [Instr.stopDtls t.tpt, .stopIce t.tpt])
  ++ (match s.sctp with | some sc => [Instr.stopDtls sc.tpt, .stopIce sc.tpt] | none => [])

/-- transport `k` carries a transceiver or the SCTP transport -/
def refd (s : State) (k : Nat) : Bool :=
  s.trxs.any (·.tpt = k) || (match s.sctp with | some sc => sc.tpt = k | none => false)

def allDtlsClosed (s : State) : Bool :=
  let l := s.tpts.filter (·.inSet)
  !l.isEmpty && l.all (·.dtls = .closed)

/-- `__updateConnectionState`: once every DTLS transport is closed the connection closes itself -/
def autoTrigger (s : State) : State :=
  if !s.closed && s.auto = .none && s.allDtlsClosed then { s with auto := .queued } else s

/-- transport `k` exists and no clean-up is running on it (only such a transport can be given to an m-section) -/
def free (s : State) (k : Nat) : Bool :=
  match s.tpts[k]? with | some t => t.nstop = 0 | none => false

/-- `self.__dtlsTransports.discard(t); self.__iceTransports.discard(t.transport)` once the record says so -/
def syncSet (s : State) (k : Nat) (t : Tpt) : State := if t.inSet then s else { s with tset := s.tset.erase k }

def setTrx (s : State) (i : Nat) (t : Trx) : State := { s with trxs := s.trxs.set i t }
def setTpt (s : State) (k : Nat) (t : Tpt) : State := { s with tpts := s.tpts.set k t }

def pop (s : State) : State := { s with prog := s.prog.tail }

/-- the next move of the primary `close()`: its label and the resulting state, if its guard holds.  Every `stop()` keeps
its own position (`rcvStop`, …) in the object it belongs to; it is 0 again when the call returns. -/
def closeNext (s : State) : Option (CLabel × State) :=
  if !s.connsDone then none else       -- still in `await asyncio.gather(*connectTasks)`
  match s.prog with
  | [] =>
    -- state updates, remove_all_listeners(), __isClosed.set_result(True)
    if s.closed && !s.closeDone then
      some (.leaveClose, { s with iceClosed := true, connClosed := true, listeners := false, closeDone := true })
    else none
  | .stopRcv i :: _ =>
    match s.trxs[i]? with
    | none => none
    | some t =>
      if t.rcvStop = 0 then
        if t.rcvStarted then
          -- unregister, __stop_decoder() (joins the thread), then wait for `started`
          some (.enterRcv i, s.setTrx i { t with decoder := if t.decoder = .running then .exited else t.decoder,
                                                   trackEnd := t.trackEnd || t.decoder = .running, rcvStop := 1 })
        else
          -- never started: end the track ourselves (fixes/C19-receiver-stop-ends-track.patch)
          some (.enterRcv i, s.setTrx i { t with trackEnd := t.trackEnd || t.hasTrack, rcvStop := 2 })
      else if t.rcvStop = 1 then
        if t.rrtcp.started then some (.cancelRrtcp i, s.setTrx i { t with rrtcp := t.rrtcp.cancel, rcvStop := 2 }) else none
      else if t.rrtcp.quiet then some (.leaveRcv i, (s.setTrx i { t with rcvStop := 0 }).pop) else none
  | .stopSnd i :: _ =>
    match s.trxs[i]? with
    | none => none
    | some t =>
      if t.sndStop = 0 then some (.enterSnd i, s.setTrx i { t with sndStop := if t.sndStarted then 1 else 3 })
      else if t.sndStop = 1 then
        if t.rtp.started && t.srtcp.started then some (.cancelRtp i, s.setTrx i { t with rtp := t.rtp.cancel, sndStop := 2 })
        else none
      else if t.sndStop = 2 then some (.cancelSrtcp i, s.setTrx i { t with srtcp := t.srtcp.cancel, sndStop := 3 })
      else if t.sndQuiet then some (.leaveSnd i, (s.setTrx i { t with sndStop := 0 }).pop) else none
  | .stopSctp :: _ =>
    match s.sctp with
    | none => none
    | some sc =>
      if sc.stop = 0 then some (.enterSctp, { s with sctp := some { sc with stop := 1 } })
      else some (.leaveSctp, { s with sctp := some { sc with closed := true, chans := sc.chans.map fun _ => .closed,
                                                               stop := 0 } }.pop)
  | .stopDtls k :: _ =>
    match s.tpts[k]? with
    | none => none
    | some t =>
      if t.dtlsStop = 0 then some (.enterDtls k, s.setTpt k { t with dtlsStop := if t.pumpHandle then 1 else 2 })
      else if t.dtlsStop = 1 then
        some (.cancelPump k, s.setTpt k { t with pumpCancel := t.pump = .live, pumpHandle := false, dtlsStop := 2 })
      else some (.leaveDtls k, (s.setTpt k { t with dtlsStop := 0 }).pop)
  | .stopIce k :: _ =>
    match s.tpts[k]? with
    | none => none
    | some t =>
      if t.iceStop = 0 then
        if t.ice = .closed then some (.enterIce k, s.setTpt k { t with iceStop := 2 })
        else some (.enterIce k, s.setTpt k { t with ice := .closed, iceStop := 1 })
      else if t.iceStop = 1 then
        -- `await self._connection.close()` ends by emitting ConnectionClosed; the monitor task, queued before, has had its
        -- first step by then (FIFO ready queue; see ASSUMPTIONS)
        if t.monitor ≠ .queued then some (.connClosed k, s.setTpt k { t with connClosed := true, iceStop := 2 }) else none
      else if t.monQuiet then some (.leaveIce k, (s.setTpt k { t with iceStop := 0 }).pop) else none

def step (s : State) : Action → Option State
  | .closeCall byAuto =>
    if byAuto && s.auto ≠ .queued then none else
    let s := if byAuto then { s with auto := .ran } else s
    if s.closed then some { s with waiters := s.waiters + 1 }
    else some { s with closed := true, sigClosed := true, conns := s.conns.map Conn.cancel, prog := s.program }
  | .negBegin => if s.closed then none else some { s with inflight := s.inflight + 1 }
  | .negSpawn => if !s.closed && 0 < s.inflight then some { s with conns := s.conns ++ [{}] } else none
  | .negEnd => if 0 < s.inflight then some { s with inflight := s.inflight - 1 } else none
  | .addTpt => if s.closed then none else some { s with tpts := s.tpts ++ [{}], tset := s.tset ++ [s.tpts.length] }
  | .addTrx k => if !s.closed && s.free k then some { s with trxs := s.trxs ++ [{ tpt := k }] } else none
  | .addSctp k => if !s.closed && s.sctp.isNone && s.free k then some { s with sctp := some { tpt := k } } else none
  | .assignSctp k =>
    match s.sctp with
    | some sc =>
      match s.tpts[sc.tpt]? with
      | some old =>
        if !s.closed && !sc.started && s.free k && old.unstarted then some { s with sctp := some { sc with tpt := k } }
        else none
      | none => none
    | none => none
  | .chanNew =>
    match s.sctp with
    | some sc => if !sc.closed then some { s with sctp := some { sc with chans := sc.chans ++ [.connecting] } } else none
    | none => none
  | .chanEv j c =>
    match s.sctp with
    | some sc =>
      match sc.chans[j]? with
      | some c0 => if !sc.closed && c.rank < c0.rank then some { s with sctp := some { sc with chans := sc.chans.set j c } } else none
      | none => none
    | none => none
  | .trx i a =>
    match s.trxs[i]? with
    | some t =>
      match a with
      | .assign k =>
        -- BUNDLE moves a transceiver off a transport that was never started
        match s.tpts[t.tpt]? with
        | some old =>
          if !s.closed && s.free k && old.unstarted then (trxStep s.liveConn t a).map (s.setTrx i) else none
        | none => none
      | .mkTrack => if s.closed then none else (trxStep s.liveConn t a).map (s.setTrx i)
      | _ => (trxStep s.liveConn t a).map (s.setTrx i)
    | none => none
  | .tpt k a =>
    match s.tpts[k]? with
    | some t =>
      match a with
      | .pumpExit => (tptStep s.liveConn t a).map fun t' => (s.setTpt k t').autoTrigger
      -- (the BUNDLE clean-up of a setRemoteDescription() in flight goes on while close() is suspended, and after it)
      | .nstep => if !s.refd k then (tptStep s.liveConn t a).map fun t' => (s.setTpt k t').syncSet k t' else none
      | .iceStart | .dtlsStart => if s.refd k then (tptStep s.liveConn t a).map (s.setTpt k) else none
      | _ => (tptStep s.liveConn t a).map (s.setTpt k)
    | none => none
  | .connFirst c =>
    match s.conns[c]? with
    | some cn => if cn.pc = .queued && !cn.cancelReq then some { s with conns := s.conns.set c { cn with pc := .running } } else none
    | none => none
  | .connExit c =>
    match s.conns[c]? with
    | some cn => if cn.pc ≠ .done then some { s with conns := s.conns.set c { pc := .done, cancelReq := false } } else none
    | none => none
  | .sctpStart =>
    match s.sctp with
    | some sc => if s.liveConn && !sc.started && !sc.closed then some { s with sctp := some { sc with started := true } } else none
    | none => none
  | .close l =>
    match s.closeNext with
    | some (l', s') => if l = l' then some s' else none
    | none => none
  | .waiterReturn => if s.closeDone && 0 < s.waiters then some { s with waiters := s.waiters - 1 } else none
  | .emit => if s.listeners then some s else none
  | .obsCancelConn c =>
    match s.conns[c]? with
    | some cn => if s.closed && (cn.cancelReq || cn.pc = .done) then some s else none
    | none => none
  | .obsAutoSpawn => if s.auto = .queued then some s else none

def run (s : State) : List Action → Option State
  | [] => some s
  | a :: rest => match s.step a with | some s' => run s' rest | none => none

/-- index of the first action that is not enabled (for the driver's diagnostics) -/
def runIdx (s : State) : List Action → Nat → State × Option Nat
  | [], _ => (s, none)
  | a :: rest, n => match s.step a with | some s' => runIdx s' rest (n + 1) | none => (s, some n)

def init : State := {}

end State

/-! ## classification of actions -/

inductive Kind | input | task | observe
  deriving DecidableEq, Repr

/-- `input`: calls of the application and messages of the remote peer (they may come at any time, any number of times);
`task`: a step of a task / thread / coroutine started by the connection; `observe`: pure observation. -/
def Action.kind : Action → Kind
  | .closeCall false | .negBegin | .negSpawn | .negEnd | .addTpt | .addTrx _ | .addSctp _ | .assignSctp _ | .chanNew | .chanEv _ _ => .input
  | .trx _ .mkTrack | .trx _ (.assign _) | .trx _ (.cancel _) => .input
  | .emit | .obsCancelConn _ | .obsAutoSpawn => .observe
  | _ => .task

end Aiortc.Model.Close
