import Aiortc.Model.Close
/-! # C19 — why `close()` must iterate over a snapshot

The variant of the shutdown protocol in which the "stop transports" step of `close()` walks the connection's transport sets
themselves (`for t in self.__dtlsTransports: await t.stop()` … `for t in self.__iceTransports: await t.stop()`) instead of
the transports reachable from the transceivers and the SCTP transport.  A Python set iterator remembers the size of the set
when the loop starts and raises `RuntimeError: Set changed size during iteration` when it is asked for the next element of a
set whose size has changed; `setRemoteDescription()` discards a bundled-away transport from these sets after awaiting its
`stop()`.  Everything else is `State.step`. -/
namespace Aiortc.Model.Close

structure LiveIter where
  s : State := {}
  iter : Option Nat := none     -- size remembered by the iterator of the running `for … in set` loop
  crashed : Bool := false       -- the RuntimeError escaped close(): `__isClosed` will never be resolved
  deriving DecidableEq, Repr

namespace LiveIter

/-- the teardown order of the variant: the transceivers and SCTP as before, then every DTLS transport *of the set*, then every
ICE transport of the set -/
def program (s : State) : List Instr :=
  ((List.range s.trxs.length).flatMap fun i => [Instr.stopRcv i, .stopSnd i])
  ++ (match s.sctp with | some _ => [Instr.stopSctp] | none => [])
  ++ s.tset.map Instr.stopDtls ++ s.tset.map Instr.stopIce

def sameLoop : Instr → Option Instr → Bool
  | .stopDtls _, some (.stopDtls _) => true
  | .stopIce _, some (.stopIce _) => true
  | _, _ => false

def step (v : LiveIter) : Action → Option LiveIter
  | .closeCall b =>
    (v.s.step (.closeCall b)).map fun s' =>
      if v.s.closed then { v with s := s' } else { v with s := { s' with prog := program v.s } }
  | .close l =>
    if v.crashed then none else
    match v.s.step (.close l), v.s.prog.head? with
    | some s', some ins =>
      match l with
      | .enterDtls _ | .enterIce _ =>
        -- (first element of the loop: the iterator is created and remembers the size of the set)
        some { v with s := s', iter := match v.iter with | none => some v.s.tset.length | some n => some n }
      | .leaveDtls _ | .leaveIce _ =>
        -- back at the `for`: the iterator is asked for the next element and compares the size of the set
        if v.iter ≠ some v.s.tset.length then some { v with crashed := true, iter := none }
        else some { v with s := s', iter := if sameLoop ins s'.prog.head? then v.iter else none }
      | _ => some { v with s := s' }
    | some s', none => some { v with s := s' }
    | none, _ => none
  | a => (v.s.step a).map fun s' => { v with s := s' }

def run (v : LiveIter) : List Action → Option LiveIter
  | [] => some v
  | a :: rest => match v.step a with | some v' => run v' rest | none => none

def init : LiveIter := {}

end LiveIter

/-! The interleaving of seeded change C19-r2: offerer with one transport per kind, the answer accepts BUNDLE;
`setRemoteDescription(answer)` has re-assigned the video section and is stopping the unused transport 1 when `close()` starts. -/

def bundleRaceSetup : List Action :=
  [.addTpt, .addTrx 0, .addTpt, .addTrx 1,                                   -- addTrack(audio), addTrack(video)
   .negBegin, .negSpawn, .negEnd, .connFirst 0, .connExit 0,                    -- setLocalDescription(offer)
   .negBegin, .trx 1 (.assign 0), .tpt 1 .nstep, .tpt 1 .nstep]                 -- setRemoteDescription(answer) … await ice.stop()

/-- close() of the variant: reaches `await iceTransport.stop()` of transport 0 (sockets closing) … -/
def bundleRaceCloseA : List Action :=
  [.closeCall false,
   .close (.enterRcv 0), .close (.leaveRcv 0), .close (.enterSnd 0), .close (.leaveSnd 0),
   .close (.enterRcv 1), .close (.leaveRcv 1), .close (.enterSnd 1), .close (.leaveSnd 1),
   .close (.enterDtls 0), .close (.leaveDtls 0), .close (.enterDtls 1), .close (.leaveDtls 1),
   .close (.enterIce 0)]

/-- … meanwhile setRemoteDescription() finishes its clean-up and discards transport 1 from the sets … -/
def bundleRaceDiscard : List Action := [.tpt 1 .nstep, .tpt 1 .nstep]

/-- … and close() comes back to its `for` loop -/
def bundleRaceCloseB : List Action := [.close (.connClosed 0), .close (.leaveIce 0)]

/-- the same schedule for the real close(), which walks the transceivers: transport 0 twice (audio, video), never transport 1 -/
def snapshotClose : List Action :=
  [.closeCall false,
   .close (.enterRcv 0), .close (.leaveRcv 0), .close (.enterSnd 0), .close (.leaveSnd 0),
   .close (.enterRcv 1), .close (.leaveRcv 1), .close (.enterSnd 1), .close (.leaveSnd 1),
   .close (.enterDtls 0), .close (.leaveDtls 0), .close (.enterIce 0),
   .tpt 1 .nstep, .tpt 1 .nstep,
   .close (.connClosed 0), .close (.leaveIce 0),
   .close (.enterDtls 0), .close (.leaveDtls 0), .close (.enterIce 0), .close (.leaveIce 0), .close .leaveClose]

end Aiortc.Model.Close
