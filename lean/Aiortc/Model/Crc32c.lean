import Aiortc.Model.Bytes
/-!
# CRC-32C (Castagnoli), bitwise, reflected — the function `google_crc32c.value`

`google_crc32c.value(data)` is the standard CRC-32C of RFC 3309 / RFC 4960 App. B: register preset to
`0xFFFFFFFF`, every byte fed least-significant bit first, reflected polynomial `0x82F63B78`, final
complement.  The model works on the bit sequence of the message (`bitsOf`, LSB of each byte first — the
CRC / transmission bit order) so that the burst theorem can be stated on bit positions.
No Mathlib (linked into the driver).
-/
namespace Aiortc.Crc32c

/-- Reflected CRC-32C polynomial. -/
def POLY : Nat := 0x82F63B78

/-- One register step for one message bit `b` (register `s < 2^32`). -/
def step (s : Nat) (b : Bool) : Nat :=
  if (s.testBit 0 ^^ b) then (s / 2) ^^^ POLY else s / 2

/-- The 8 bits of a byte, least-significant first. -/
def byteBits (x : Nat) : List Bool :=
  [x.testBit 0, x.testBit 1, x.testBit 2, x.testBit 3, x.testBit 4, x.testBit 5, x.testBit 6, x.testBit 7]

/-- Bit sequence of a byte string in CRC order. Bit `8*i + k` is bit `k` (LSB = 0) of byte `i`. -/
def bitsOf : Bytes → List Bool
  | [] => []
  | x :: xs => byteBits x ++ bitsOf xs

/-- Run the register over a bit sequence. -/
def run (s : Nat) (bits : List Bool) : Nat := bits.foldl step s

/-- `google_crc32c.value(d)`. -/
def crc32c (d : Bytes) : Nat := run 0xFFFFFFFF (bitsOf d) ^^^ 0xFFFFFFFF

end Aiortc.Crc32c
