import Aiortc.Model.Bytes
import Aiortc.Gen.Dtls
/-!
# Dtls — decision logic of `RTCDtlsTransport` (src/aiortc/rtcdtlstransport.py), no Mathlib

What is modelled (mirrors the code line by line where it matters):

* `certificate_digest` formatting (`colonHex`), `_validate_peer_identity` (`validateCounts`, `accepted`)
  with the two case-folding functions (`lower` on the algorithm name, `fold` on both the signalled value
  and the digest), the set of supported algorithms and the digest function as PARAMETERS (instantiated
  with ASCII folding / the regenerated table in `acceptedReal`);
* `SRTPProtectionProfile.get_key_and_salt` (`getKeyAndSalt`), the profile lookup loop and the
  client/server switch of `_setup_srtp` (`setupSrtp`) over the regenerated profile table;
* the control flow of `start()` / `_do_handshake` / `__run` / `_recv_next` / `_send_data` / `_send_rtp`
  as an event automaton (`step`).  Every answer of OpenSSL (do_handshake outcome, `recv` outcome, peer
  certificate digests, selected profile, exported keying material) and of libsrtp (unprotect outcome) is
  an INPUT carried by the event: the model contains the decisions the Python code takes on those answers.

* `_write_ssl` as a function on the outgoing memory BIO (a byte stream of whole records): one `bio_read` of at most
  `chunk` bytes = one datagram (`writeSsl`, `sendRecords`; `sendReads` takes the observed `bio_read` sizes as inputs).

The model is of the FIXED code (fixes/C04-*.patch): `_recv_next` hands application data to the data
receiver only in state CONNECTED, `start()` no longer asserts on an empty fingerprint list (the
identity check then fails the transport), and fingerprint values are compared lower-cased (so that only
ASCII case is ignored; `str.upper()` maps U+FB00 to "FF").
-/
namespace Aiortc.Model.Dtls
open Aiortc

/-! ## strings as code-point lists, ASCII case folding -/

abbrev Str := List Nat

def upperC (c : Nat) : Nat := if 97 ≤ c ∧ c ≤ 122 then c - 32 else c
def lowerC (c : Nat) : Nat := if 65 ≤ c ∧ c ≤ 90 then c + 32 else c
def asciiUpper (s : Str) : Str := s.map upperC
def asciiLower (s : Str) : Str := s.map lowerC

def strOf (s : String) : Str := s.toList.map Char.toNat

/-! ## certificate_digest -/

def hexUp (n : Nat) : Nat := if n < 10 then 48 + n else 55 + n
def byteHex (b : Nat) : Str := [hexUp (b / 16 % 16), hexUp (b % 16)]

/-- `":".join(hexstring[x:x+2] …)` of `fingerprint.hex().upper()`. -/
def colonHex : Bytes → Str
  | [] => []
  | [b] => byteHex b
  | b :: c :: rest => byteHex b ++ 58 :: colonHex (c :: rest)

/-! ## `_validate_peer_identity` -/

structure Fingerprint where
  algorithm : Str
  value : Str
  deriving DecidableEq, Repr

structure Counts where
  supported : Nat
  valid : Nat
  deriving DecidableEq, Repr

/-- One iteration of `for f in remoteParameters.fingerprints`. -/
def validateStep (lower fold : Str → Str) (algs : List Str) (digest : Str → Str)
    (c : Counts) (f : Fingerprint) : Counts :=
  let algorithm := lower f.algorithm
  if algorithm ∈ algs then
    if fold f.value = fold (digest algorithm) then ⟨c.supported + 1, c.valid + 1⟩
    else ⟨c.supported + 1, c.valid⟩
  else c

def validateCounts (lower fold : Str → Str) (algs : List Str) (digest : Str → Str)
    (fps : List Fingerprint) : Counts :=
  fps.foldl (validateStep lower fold algs digest) ⟨0, 0⟩

/-- `true` iff `_validate_peer_identity` does NOT set FAILED
(`if not fingerprint_supported or fingerprint_valid != fingerprint_supported: FAILED`). -/
def accepted (lower fold : Str → Str) (algs : List Str) (digest : Str → Str)
    (fps : List Fingerprint) : Bool :=
  let c := validateCounts lower fold algs digest fps
  !(c.supported == 0 || c.valid != c.supported)

/-- Supported algorithm names, regenerated from `X509_DIGEST_ALGORITHMS`. -/
def ALGS : List Str := Gen.X509_DIGEST_ALGORITHMS.map strOf

/-- Raw certificate digests per algorithm name (`certificate.fingerprint(...)`), as an association list. -/
abbrev Digests := List (Str × Bytes)

def digestOf (dg : Digests) (alg : Str) : Str :=
  match dg.lookup alg with
  | some b => colonHex b
  | none => []

/-- The instantiation that the driver runs against the real method. -/
def acceptedReal (dg : Digests) (fps : List Fingerprint) : Bool :=
  accepted asciiLower asciiLower ALGS (digestOf dg) fps

/-- `RTCCertificate.getFingerprints`: one fingerprint per supported algorithm, `certificate_digest` each. -/
def localFingerprints (dg : Digests) : List Fingerprint := ALGS.map fun a => ⟨a, digestOf dg a⟩

/-! ## SRTP keys -/

/-- `SRTPProtectionProfile.get_key_and_salt(src, idx)` (Python slices truncate silently). -/
def getKeyAndSalt (keyLen saltLen : Nat) (src : Bytes) (idx : Nat) : Bytes :=
  let keyStart := idx * keyLen
  let saltStart := 2 * keyLen + idx * saltLen
  slice src keyStart (keyStart + keyLen) ++ slice src saltStart (saltStart + saltLen)

structure Profile where
  name : String
  keyLen : Nat
  saltLen : Nat
  deriving DecidableEq, Repr

def TABLE : List Profile := Gen.SRTP_PROFILES.map fun p => ⟨p.1, p.2.1, p.2.2⟩

inductive Role | auto | client | server
  deriving DecidableEq, Repr

structure Keys where
  profile : Profile
  tx : Bytes
  rx : Bytes
  deriving DecidableEq, Repr

/-- The `for … break … else` lookup of `_setup_srtp`: first local profile whose OpenSSL name is the
selected one. -/
def findProfile (profiles : List Profile) (selected : String) : Option Profile :=
  profiles.find? (fun p => p.name == selected)

/-- Number of exporter bytes `_setup_srtp` asks for. -/
def exportLen (p : Profile) : Nat := 2 * (p.keyLen + p.saltLen)

/-- The role switch of `_setup_srtp` (`if self._role == "server"` … `else`). -/
def deriveKeys (role : Role) (p : Profile) (view : Bytes) : Keys :=
  if role = .server then
    ⟨p, getKeyAndSalt p.keyLen p.saltLen view 1, getKeyAndSalt p.keyLen p.saltLen view 0⟩
  else
    ⟨p, getKeyAndSalt p.keyLen p.saltLen view 0, getKeyAndSalt p.keyLen p.saltLen view 1⟩

/-- `_setup_srtp`: `none` = "no SRTP profile negotiated" (FAILED). `material` maps the requested length
to what `export_keying_material` returned. -/
def setupSrtp (role : Role) (profiles : List Profile) (selected : String) (material : Bytes) :
    Option Keys :=
  match findProfile profiles selected with
  | none => none
  | some p => some (deriveKeys role p material)

/-! ## the transport automaton -/

inductive State | new | connecting | connected | closed | failed
  deriving DecidableEq, Repr

structure T where
  state : State := .new
  encrypted : Bool := false
  role : Role := .auto
  profiles : List Profile := []
  hasDataReceiver : Bool := false
  /-- `_rx_srtp` / `_tx_srtp` (assigned together, only by `_setup_srtp`). -/
  srtp : Option Keys := none
  /-- `remoteParameters` of the running `start()`. -/
  fps : List Fingerprint := []
  /-- `start()` is inside `_do_handshake`. -/
  handshaking : Bool := false
  /-- the `__run` task is alive. -/
  pumping : Bool := false
  deriving DecidableEq, Repr

/-- Outcome of `self._ssl.recv(1500)`. -/
inductive SslRecv | notAsked | zeroReturn | error | data (d : Bytes)
  deriving DecidableEq, Repr
/-- Outcome of `self._rx_srtp.unprotect[_rtcp](data)`. -/
inductive Unprotect | notAsked | fail | ok (d : Bytes)
  deriving DecidableEq, Repr

/-- What one `_recv_next` call meets. -/
inductive RecvIn
  | timeout                                           -- `wait_for` timed out (only before `encrypted`)
  | connError                                         -- `transport._recv` / `_send` raised ConnectionError
  | pkt (data : Bytes) (ssl : SslRecv) (srtp : Unprotect)
  deriving DecidableEq, Repr

inductive Eff
  | state (s : State) | role (r : Role) | exportLen (n : Nat)
  | keys (name : String) (tx rx : Bytes)
  | deliverData (d : Bytes) | deliverRtp (d : Bytes) | deliverRtcp (d : Bytes)
  | sentData (d : Bytes) | sentRtp (d : Bytes) | sentRtcp (d : Bytes)
  | refused                      -- ConnectionError("Cannot send …, not connected")
  | raised (kind : String)       -- an exception escapes the entry point
  | invalid                      -- the event cannot happen in this state (trace rejected)
  | oracleMissing                -- the model needed an OpenSSL / libsrtp answer the trace does not carry
  deriving DecidableEq, Repr

/-- `aiortc.rtp.is_rtcp`. -/
def isRtcp (msg : Bytes) : Bool :=
  match msg with
  | _ :: b :: _ => 192 ≤ b && b ≤ 208
  | _ => false

inductive RecvOut
  | ok (effs : List Eff)
  | connError
  | crash (kind : String)
  | oracleMissing
  deriving DecidableEq, Repr

/-- `_recv_next` (fixed code): demultiplex on the first byte; DTLS application data goes to the data
receiver only in CONNECTED; SRTP is looked at only once `_rx_srtp` exists; authentication failures
(`SSL.Error`, `pylibsrtp.Error`) drop the packet. It never changes the transport state by itself. -/
def recvNext (t : T) : RecvIn → RecvOut
  | .timeout => .ok []
  | .connError => .connError
  | .pkt [] _ _ => .crash "IndexError"
  | .pkt (b :: rest) ssl srtp =>
    if 19 < b ∧ b < 64 then
      match ssl with
      | .notAsked => .oracleMissing
      | .zeroReturn => .connError
      | .error => .ok []
      | .data d =>
        if d ≠ [] ∧ t.hasDataReceiver = true ∧ t.state = .connected then .ok [.deliverData d] else .ok []
    else if 127 < b ∧ b < 192 ∧ t.srtp.isSome = true then
      match srtp with
      | .notAsked => .oracleMissing
      | .fail => .ok []
      | .ok d => if isRtcp (b :: rest) then .ok [.deliverRtcp d] else .ok [.deliverRtp d]
    else .ok []

/-- The three classes `_recv_next` demultiplexes a datagram into by its first byte (RFC 7983 §7). -/
inductive Demux | dtls | srtp | drop
  deriving DecidableEq, Repr

/-- The two comparisons of `_recv_next` (`first_byte > 19 and first_byte < 64`, `first_byte > 127 and first_byte < 192`). -/
def demuxClass (b : Nat) : Demux :=
  if 19 < b ∧ b < 64 then .dtls else if 127 < b ∧ b < 192 then .srtp else .drop

inductive Ev
  | start (fps : List Fingerprint) (iceControlling : Bool)
  | hsWant (d : RecvIn)          -- do_handshake raised WantReadError; `_write_ssl`; `_recv_next`
  | hsError                      -- do_handshake raised SSL.Error
  | hsOk (dg : Digests) (selected : String) (material : Bytes)
                                 -- do_handshake returned; then identity check and SRTP setup (synchronous)
  | pump (d : RecvIn)            -- one iteration of `__run`
  | sendData (d : Bytes) (sslErr : Option String)
                                 -- `sslErr = some k`: `self._ssl.send(data)` raised exception `k` (OpenSSL refuses an
                                 -- empty message and one of more than 2^14 bytes)
  | sendRtp (d : Bytes) (protectOk : Bool)
                                 -- `protectOk = false`: `_tx_srtp.protect[_rtcp]` raised pylibsrtp.Error
                                 -- (libsrtp refuses an index that is behind its own replay window)
  | stop
  deriving DecidableEq, Repr

def setState (t : T) (s : State) : T × List Eff :=
  if s ≠ t.state then ({ t with state := s }, [.state s]) else (t, [])

def step (t : T) : Ev → T × List Eff
  | .start fps ice =>
    if t.state ≠ .new then (t, [.raised "AssertionError"])
    else
      let role := if t.role = .auto then (if ice then Role.server else Role.client) else t.role
      ({ t with role := role, fps := fps, state := .connecting, handshaking := true },
        [.role role, .state .connecting])
  | .hsWant d =>
    if t.handshaking = true ∧ t.encrypted = false then
      match recvNext t d with
      | .ok effs => (t, effs)
      | .connError => ({ t with state := .failed, handshaking := false }, [.state .failed])
      | .crash k => ({ t with handshaking := false }, [.raised k])
      | .oracleMissing => (t, [.oracleMissing])
    else (t, [.invalid])
  | .hsError =>
    if t.handshaking = true ∧ t.encrypted = false then
      ({ t with state := .failed, handshaking := false }, [.state .failed])
    else (t, [.invalid])
  | .hsOk dg selected material =>
    if t.handshaking = true ∧ t.encrypted = false then
      if acceptedReal dg t.fps = false then
        ({ t with encrypted := true, state := .failed, handshaking := false }, [.state .failed])
      else
        match findProfile t.profiles selected with
        | none =>
          ({ t with encrypted := true, state := .failed, handshaking := false }, [.state .failed])
        | some p =>
          let k := deriveKeys t.role p material
          ({ t with encrypted := true, state := .connected, handshaking := false, pumping := true,
                    srtp := some k },
            [.exportLen (exportLen p), .keys p.name k.tx k.rx, .state .connected])
    else (t, [.invalid])
  | .pump d =>
    if t.pumping = true then
      match recvNext t d with
      | .ok effs => (t, effs)
      | .connError => ({ t with state := .closed, pumping := false }, [.state .closed])
      | .crash k => ({ t with state := .closed, pumping := false }, [.raised k, .state .closed])
      | .oracleMissing => (t, [.oracleMissing])
    else (t, [.invalid])
  | .sendData d sslErr =>
    -- `sentData d` = the plaintext was handed to `_ssl.send`; when OpenSSL refuses it the exception escapes
    -- `_send_data` (visible to the caller) and nothing reaches the wire
    if t.state ≠ .connected then (t, [.refused])
    else match sslErr with
      | none => (t, [.sentData d])
      | some k => (t, [.sentData d, .raised k])
  | .sendRtp d protectOk =>
    -- `sentRtp d` = the plaintext was handed to `protect`; when libsrtp refuses it the exception escapes
    -- `_send_rtp` and nothing reaches the wire
    if t.state ≠ .connected then (t, [.refused])
    else if isRtcp d then (t, if protectOk then [.sentRtcp d] else [.sentRtcp d, .raised "Error"])
    else (t, if protectOk then [.sentRtp d] else [.sentRtp d, .raised "Error"])
  | .stop =>
    if t.handshaking = true then (t, [.invalid])
    else if t.pumping = true then ({ t with state := .closed, pumping := false }, [.state .closed])
    else (t, [])

/-- Run a list of events, collecting the effects. -/
def run (t : T) : List Ev → T × List Eff
  | [] => (t, [])
  | e :: es =>
    let r := step t e
    let r' := run r.1 es
    (r'.1, r.2 ++ r'.2)

/-- A freshly constructed transport. -/
def init (profiles : List Profile) (hasDataReceiver : Bool) (role : Role) : T :=
  { profiles := profiles, hasDataReceiver := hasDataReceiver, role := role }

/-! ## `_write_ssl`: from OpenSSL's outgoing memory BIO to datagrams

The outgoing BIO is a BYTE STREAM: OpenSSL appends whole DTLS records to it (a handshake flight, one record per
`_ssl.send(data)`, an alert), `_write_ssl` takes at most `chunk` bytes out of it with ONE `bio_read(chunk)` and hands
them to the ICE transport as ONE datagram; an empty BIO (`SSL.Error`) sends nothing. DTLS never re-assembles a record
from two datagrams, so a data message survives iff its record leaves in one piece and at the start of a datagram.
`chunk` is what the harness sees the real method pass to `bio_read`. -/

/-- One `_write_ssl` call on a BIO holding `bio`: (the datagram sent, if any; what stays in the BIO). -/
def writeSsl (chunk : Nat) (bio : Bytes) : Option Bytes × Bytes :=
  if bio.take chunk = [] then (none, bio) else (some (bio.take chunk), bio.drop chunk)

/-- `_send_data` on a connected transport whose BIO still holds `pending`: OpenSSL appends the record, then
`_write_ssl`. -/
def sendRecord (chunk : Nat) (pending record : Bytes) : Option Bytes × Bytes :=
  writeSsl chunk (pending ++ record)

/-- A run of `_send_data` calls (`some record`) and bare `_write_ssl` calls (`none`, e.g. the one at the end of
`_recv_next`): the datagrams in order, and what is left in the BIO. -/
def sendRecords (chunk : Nat) : Bytes → List (Option Bytes) → List (Option Bytes) × Bytes
  | pending, [] => ([], pending)
  | pending, r :: rs =>
    let x := sendRecord chunk pending (r.getD [])
    let y := sendRecords chunk x.2 rs
    (x.1 :: y.1, y.2)

/-- The same with the `bio_read` sizes of one step given one by one (what the harness sees the method ask for: the
pinned code reads once per call; a variant that drains the BIO reads until it is empty): every non-empty read is one
datagram. -/
def writeReads : List Nat → Bytes → List Bytes × Bytes
  | [], bio => ([], bio)
  | n :: ns, bio =>
    match writeSsl n bio with
    | (none, b) => writeReads ns b
    | (some d, b) => let r := writeReads ns b; (d :: r.1, r.2)

/-- Steps `(record appended or none, bio_read sizes of the step)`. -/
def sendReads : Bytes → List (Option Bytes × List Nat) → List (List Bytes) × Bytes
  | pending, [] => ([], pending)
  | pending, (r, reads) :: rs =>
    let x := writeReads reads (pending ++ r.getD [])
    let y := sendReads x.2 rs
    (x.1 :: y.1, y.2)

/-! ## the SRTP replay windows of the two sessions that `_setup_srtp` creates

libsrtp keeps, per SSRC, a replay database over EXTENDED packet indexes (ROC·2¹⁶ + sequence number):
`srtp_rdbx_check` answers `ok` (index ahead of the highest one, or inside the window and not yet seen),
`replay_fail` (inside the window, already seen) or `replay_old` (`window` or more behind the highest one).
The SENDING session runs the same check in `srtp_protect` (a too-old index makes `protect` fail; a repeated
one is let through iff `allow_repeat_tx`), the RECEIVING session runs it in `srtp_unprotect` before the
authentication. The two window sizes are what `_setup_srtp` puts into `tx_policy` / `rx_policy`
(`window_size`, 0 = libsrtp's default 128). The harness observes both sizes on the real `Policy`
objects and replays every generated packet sequence on the real sessions against `Link.run`. -/

structure Rdb where
  hi : Nat := 0
  seen : List Nat := []
  deriving DecidableEq, Repr

inductive WinRes | fresh | replay | old
  deriving DecidableEq, Repr

/-- `srtp_rdbx_check` for a window of `w` packets. -/
def Rdb.check (w : Nat) (r : Rdb) (i : Nat) : WinRes :=
  if r.hi < i then .fresh
  else if w ≤ r.hi - i then .old
  else if i ∈ r.seen then .replay else .fresh

/-- `srtp_rdbx_add_index`. -/
def Rdb.add (r : Rdb) (i : Nat) : Rdb := { hi := max r.hi i, seen := i :: r.seen }

/-- Sending and receiving replay databases of one SSRC. -/
structure Link where
  tx : Rdb := {}
  rx : Rdb := {}
  deriving DecidableEq, Repr

inductive PktOut
  | txRefused   -- `protect` raised: the sender's own window rejects the index
  | rxOld       -- sent, dropped by the receiver as "index too old"
  | rxReplay    -- sent, dropped by the receiver as a replay of an index it has delivered
  | authFail    -- sent, altered in transit, dropped
  | delivered
  deriving DecidableEq, Repr

def Link.recv (wrx : Nat) (l : Link) (i : Nat) (altered : Bool) : Link × PktOut :=
  match l.rx.check wrx i with
  | .old => (l, .rxOld)
  | .replay => (l, .rxReplay)
  | .fresh => if altered then (l, .authFail) else ({ l with rx := l.rx.add i }, .delivered)

/-- One packet with extended index `i` handed to the sending session and, if it gets through, over the
(in-order) link to the receiving one. -/
def Link.send (wtx wrx : Nat) (repeatTx : Bool) (l : Link) (i : Nat) (altered : Bool) : Link × PktOut :=
  match l.tx.check wtx i with
  | .old => (l, .txRefused)
  | .replay => if repeatTx then l.recv wrx i altered else (l, .txRefused)
  | .fresh => Link.recv wrx { l with tx := l.tx.add i } i altered

def Link.run (wtx wrx : Nat) (repeatTx : Bool) (l : Link) : List (Nat × Bool) → Link × List PktOut
  | [] => (l, [])
  | (i, a) :: ps =>
    let r := l.send wtx wrx repeatTx i a
    let r' := Link.run wtx wrx repeatTx r.1 ps
    (r'.1, r.2 :: r'.2)

/-- libsrtp's effective window for a `Policy.window_size` value. -/
def effWindow (w : Nat) : Nat := if w = 0 then 128 else w

end Aiortc.Model.Dtls
