import Aiortc.Model.Bytes
import Aiortc.Gen.Codec
/-!
# H.264 RTP payload format — executable model of `src/aiortc/codecs/h264.py` (no Mathlib)

Mirrors, statement by statement:
* `H264PayloadDescriptor.parse`  (single NAL / FU-A / STAP-A)            → `parse`
* `H264Encoder._packetize_fu_a`                                          → `packetizeFuA`
* `H264Encoder._packetize_stap_a` (iterator with one element look-ahead) → `packetizeStapA`
* `H264Encoder._packetize`                                               → `packetize`
* `H264Encoder._split_bitstream`                                         → `splitBitstream`
* `h264_depayload`                                                       → `depayload`

Python `bytes` is `Bytes = List Nat` (elements < 256); an iterator over NAL units is the list of the
elements not yet consumed.  Loops are fuelled (`Outcome.hang` when the fuel runs out); every
exception the code can raise is an `Outcome`.  All sizes come from `Aiortc.Gen` (regenerated from the
repo on every run).
-/
namespace Aiortc.Model.H264
open Aiortc Aiortc.Gen

/-- `data[i]` (IndexError when out of range). -/
def getB (data : Bytes) (i : Nat) : Outcome Nat :=
  match data[i]? with
  | some b => .ok b
  | none => .crash "IndexError"

def startCode : Bytes := [0, 0, 0, 1]

/-! ## H264PayloadDescriptor.parse -/

/-- The `while pos < len(data)` loop of the STAP-A branch; returns the `offsets` appended from `pos` on. -/
def stapOffsets (data : Bytes) : Nat → Nat → Outcome (List Nat)
  | 0, _ => .hang
  | fuel + 1, pos =>
    if pos < data.length then
      if data.length < pos + H264_LENGTH_FIELD_SIZE then .valueError
      else do
        let nalu_size ← Outcome.ofStruct (unpackU16? (slice data pos (pos + 2)))
        let pos := pos + H264_LENGTH_FIELD_SIZE
        let start := pos
        let pos := pos + nalu_size
        if data.length < pos then .valueError
        else do
          let rest ← stapOffsets data fuel pos
          pure (start :: rest)
    else .ok []

/-- `pairwise(offsets)`. -/
def pairwise (l : List Nat) : List (Nat × Nat) := l.zip l.tail

/-- The `for start, end in pairwise(offsets)` loop. -/
def stapOutput (data : Bytes) (offsets : List Nat) : Bytes :=
  ((pairwise offsets).map fun (se : Nat × Nat) =>
      startCode ++ slice data se.1 (se.2 - H264_LENGTH_FIELD_SIZE)).flatten

/-- `H264PayloadDescriptor.parse(data)`: `(first_fragment, output)`. -/
def parse (data : Bytes) : Outcome (Bool × Bytes) :=
  if data.length < 2 then .valueError
  else do
    let b0 ← getB data 0
    let nal_type := b0 &&& 0x1F
    let f_nri := b0 &&& (0x80 ||| 0x60)
    let pos := H264_NAL_HEADER_SIZE
    if 1 ≤ nal_type ∧ nal_type < 24 then
      pure (true, startCode ++ data)
    else if nal_type = H264_NAL_TYPE_FU_A then do
      let b1 ← getB data pos
      let original_nal_type := b1 &&& 0x1F
      let first_fragment := (b1 &&& 0x80) != 0
      let pos := pos + 1
      let output := if first_fragment then startCode ++ [f_nri ||| original_nal_type] else []
      pure (first_fragment, output ++ data.drop pos)
    else if nal_type = H264_NAL_TYPE_STAP_A then do
      let offsets ← stapOffsets data (data.length + 1) pos
      let offsets := offsets ++ [data.length + H264_LENGTH_FIELD_SIZE]
      pure (true, stapOutput data offsets)
    else .valueError

/-- `h264_depayload`. -/
def depayload (payload : Bytes) : Outcome Bytes := do
  let r ← parse payload
  pure r.2

/-! ## H264Encoder._packetize_fu_a -/

/-- `math.ceil(p / a)` for non-negative `p`, positive `a` (float division is exact enough below 2^40). -/
def ceilDiv (p a : Nat) : Nat := (p + a - 1) / a

/-- The `while offset < len(data)` loop.  `first` ⇔ `fu_header is fu_header_start`. -/
def fuLoop (data : Bytes) (fu_indicator nal package_size : Nat) :
    Nat → Nat → Nat → Bool → Outcome (List Bytes)
  | 0, _, _, _ => .hang
  | fuel + 1, offset, num_larger_packets, first =>
    if offset < data.length then
      let sz := if num_larger_packets > 0 then package_size + 1 else package_size
      let num_larger_packets := if num_larger_packets > 0 then num_larger_packets - 1 else num_larger_packets
      let payload := slice data offset (offset + sz)
      let offset := offset + sz
      let fu_header : Bytes :=
        if offset = data.length then [fu_indicator, nal ||| 0x40]
        else if first then [fu_indicator, nal ||| 0x80]
        else [fu_indicator, nal]
      do
        let rest ← fuLoop data fu_indicator nal package_size fuel offset num_larger_packets false
        pure ((fu_header ++ payload) :: rest)
    else if offset = data.length then .ok []
    else .crash "AssertionError"

/-- `H264Encoder._packetize_fu_a(data)`. -/
def packetizeFuA (data : Bytes) : Outcome (List Bytes) :=
  let available_size := H264_PACKET_MAX - H264_FU_A_HEADER_SIZE
  let payload_size := data.length - H264_NAL_HEADER_SIZE
  let num_packets := ceilDiv payload_size available_size
  if num_packets = 0 then .crash "ZeroDivisionError"
  else do
    let num_larger_packets := payload_size % num_packets
    let package_size := payload_size / num_packets
    let b0 ← getB data 0
    let f_nri := b0 &&& (0x80 ||| 0x60)
    let nal := b0 &&& 0x1F
    let fu_indicator := f_nri ||| H264_NAL_TYPE_FU_A
    fuLoop data fu_indicator nal package_size (data.length + 1) H264_NAL_HEADER_SIZE num_larger_packets true

/-! ## H264Encoder._packetize_stap_a -/

/-- State after the `while len(nalu) <= available_size and counter < 9` loop (or after StopIteration). -/
structure StapSt where
  counter : Nat
  stap_header : Nat
  payload : Bytes
  /-- `nalu` after the loop: `none` after StopIteration. -/
  nalu : Option Bytes
  /-- elements left in `packages_iterator`. -/
  rest : List Bytes
  deriving Repr, DecidableEq

/-- Body of the aggregation loop up to (not including) `nalu = next(packages_iterator)`:
new `(available_size, counter, stap_header, payload)`. -/
def stapBody (nalu : Bytes) (available_size : Int) (counter stap_header : Nat) (payload : Bytes) :
    Outcome (Int × Nat × Nat × Bytes) := do
  let n0 ← getB nalu 0
  let stap_header := stap_header ||| (n0 &&& 0x80)
  let nri := n0 &&& 0x60
  let stap_header := if stap_header &&& 0x60 < nri then stap_header &&& 0x9F ||| nri else stap_header
  let available_size := available_size - ((H264_LENGTH_FIELD_SIZE + nalu.length : Nat) : Int)
  let counter := counter + 1
  let lenField ← Outcome.ofStruct (packU16? nalu.length)
  let payload := payload ++ lenField ++ nalu
  pure (available_size, counter, stap_header, payload)

/-- The aggregation loop `while len(nalu) <= available_size and counter < 9`; recursion on the
iterator's remaining elements (`next()` on an exhausted iterator = StopIteration = leave with `None`). -/
def stapLoop : List Bytes → Bytes → Int → Nat → Nat → Bytes → Outcome StapSt
  | [], nalu, available_size, counter, stap_header, payload =>
    if (nalu.length : Int) ≤ available_size ∧ counter < 9 then
      match stapBody nalu available_size counter stap_header payload with
      | .ok (_, counter, stap_header, payload) => .ok ⟨counter, stap_header, payload, none, []⟩
      | .valueError => .valueError
      | .crash k => .crash k
      | .hang => .hang
    else .ok ⟨counter, stap_header, payload, some nalu, []⟩
  | next :: rest, nalu, available_size, counter, stap_header, payload =>
    if (nalu.length : Int) ≤ available_size ∧ counter < 9 then
      match stapBody nalu available_size counter stap_header payload with
      | .ok (available_size, counter, stap_header, payload) =>
        stapLoop rest next available_size counter stap_header payload
      | .valueError => .valueError
      | .crash k => .crash k
      | .hang => .hang
    else .ok ⟨counter, stap_header, payload, some nalu, next :: rest⟩

/-- `_packetize_stap_a(data, packages_iterator)`: `(packet, next nalu or None, iterator afterwards)`. -/
def packetizeStapA (data : Bytes) (it : List Bytes) : Outcome (Bytes × Option Bytes × List Bytes) := do
  let available_size : Int := ((H264_PACKET_MAX : Nat) : Int) - ((H264_STAP_A_HEADER_SIZE : Nat) : Int)
  let d0 ← getB data 0
  let stap_header := H264_NAL_TYPE_STAP_A ||| (d0 &&& 0xE0)
  let st ← stapLoop it data available_size 0 stap_header []
  -- `if counter == 0: nalu = next(packages_iterator)`
  let (nalu, rest) : Option Bytes × List Bytes :=
    if st.counter = 0 then
      match st.rest with
      | [] => (none, [])
      | n :: r => (some n, r)
    else (st.nalu, st.rest)
  if st.counter ≤ 1 then pure (data, nalu, rest)
  else pure ([st.stap_header] ++ st.payload, nalu, rest)

/-! ## H264Encoder._packetize -/

/-- `next(packages_iterator, None)`: the element (or `None`) and the iterator afterwards. -/
def iterNext (it : List Bytes) : Option Bytes × List Bytes :=
  match it with
  | [] => (none, [])
  | n :: r => (some n, r)

/-- The `while package is not None` loop. -/
def packetizeLoop : Nat → Option Bytes → List Bytes → Outcome (List Bytes)
  | 0, _, _ => .hang
  | _ + 1, none, _ => .ok []
  | fuel + 1, some package, it =>
    if package.length > H264_PACKET_MAX then do
      let frags ← packetizeFuA package
      let nx := iterNext it
      let rest ← packetizeLoop fuel nx.1 nx.2
      pure (frags ++ rest)
    else do
      let (packetized, next, it') ← packetizeStapA package it
      let rest ← packetizeLoop fuel next it'
      pure (packetized :: rest)

/-- `H264Encoder._packetize(packages)`. -/
def packetize (packages : List Bytes) : Outcome (List Bytes) :=
  match packages with
  | [] => packetizeLoop 1 none []
  | p :: it => packetizeLoop (packages.length + 1) (some p) it

/-! ## H264Encoder._split_bitstream -/

/-- `buf.find(b"\x00\x00\x01", …)` on the suffix `l` that starts at index `base`. -/
def findFrom : Bytes → Nat → Option Nat
  | [], _ => none
  | b :: t, base => if (b :: t).take 3 = [0, 0, 1] then some base else findFrom t (base + 1)

/-- `buf.find(b"\x00\x00\x01", i)` for `0 ≤ i`. -/
def find (buf : Bytes) (i : Nat) : Option Nat := findFrom (buf.drop i) i

/-- The `while True` loop of the generator; the list of yielded NAL units. -/
def splitLoop (buf : Bytes) : Nat → Nat → Outcome (List Bytes)
  | 0, _ => .hang
  | fuel + 1, i =>
    match find buf i with
    | none => .ok []
    | some i =>
      let i := i + 3
      let nal_start := i
      match find buf i with
      | none => .ok [slice buf nal_start buf.length]
      | some i => do
        let prev ← getB buf (i - 1)
        let nal := if prev = 0 then slice buf nal_start (i - 1) else slice buf nal_start i
        let rest ← splitLoop buf fuel i
        pure (nal :: rest)

/-- `list(H264Encoder._split_bitstream(buf))`. -/
def splitBitstream (buf : Bytes) : Outcome (List Bytes) := splitLoop buf (buf.length + 1) 0

/-- `H264Encoder.pack` without the timestamp: split, then packetise. -/
def pack (buf : Bytes) : Outcome (List Bytes) := do
  let nals ← splitBitstream buf
  packetize nals

end Aiortc.Model.H264

namespace Aiortc.Model.H264
open Aiortc

/-- Receiver side of the property: depayload every RTP payload in order and concatenate the results
(any error aborts). -/
def depayloadAll : List Bytes → Outcome Bytes
  | [] => .ok []
  | p :: ps => do
    let a ← depayload p
    let b ← depayloadAll ps
    pure (a ++ b)

end Aiortc.Model.H264
