import Aiortc.Model.Bytes
import Aiortc.Gen.Serial
import Aiortc.Gen.Jitter
/-!
# Jitter buffer — executable model of the whole of `src/aiortc/jitterbuffer.py` (no Mathlib)

Mirrors the Python line by line:

* a packet is `(sequence_number, timestamp, _data)`; `JitterFrame` is `(data, timestamp)`;
* `_packets` is a `List (Option Packet)`; every subscript goes through `getSlot`/`setSlot`, which
  return `crash "IndexError"` instead of totalising, and every `% self._capacity` through `slotOf`
  (`crash "ZeroDivisionError"` for capacity 0);
* both `assert`s are modelled (`crash "AssertionError"`); an `_origin` that is still `None` where the
  code does arithmetic on it is `crash "TypeError"`;
* the three `for … in range(…)` loops do not mutate what they iterate over, so they are structural
  recursions on the number of remaining iterations (`removeLoop`, `smartLoop`, `rfLoop`), with the loop
  body as a separate step function that says `cont` / `brk` / `ret`;
* sequence arithmetic is `Aiortc.Gen.uint16_add` (regenerated from utils.py), the misorder bound is
  `Aiortc.Gen.MAX_MISORDER` (regenerated from jitterbuffer.py).

Ghost output: `used` (the packets whose payloads were joined into the returned frame).  It is not
observable on the implementation; it only lets the theorems talk about *which* packets make up a frame.
-/
namespace Aiortc.Model.Jitter
open Aiortc Aiortc.Gen

structure Packet where
  seq : Int        -- RtpPacket.sequence_number
  ts : Int         -- RtpPacket.timestamp
  data : Bytes     -- RtpPacket._data (depayloaded)
  deriving DecidableEq, Repr

/-- `JitterFrame`. -/
structure Frame where
  data : Bytes
  ts : Int
  deriving DecidableEq, Repr

structure JB where
  capacity : Nat
  prefetch : Int
  isVideo : Bool
  origin : Option Int
  packets : List (Option Packet)
  deriving DecidableEq, Repr

/-- `JitterBuffer.__init__` (line 19: `assert capacity & (capacity - 1) == 0`). -/
def mk (capacity : Nat) (prefetch : Int) (isVideo : Bool) : Outcome JB :=
  if capacity &&& (capacity - 1) = 0 then
    .ok { capacity := capacity, prefetch := prefetch, isVideo := isVideo, origin := none,
          packets := List.replicate capacity none }
  else .crash "AssertionError"

/-- `x % self._capacity` as a list index. -/
def slotOf (jb : JB) (x : Int) : Outcome Nat :=
  if jb.capacity = 0 then .crash "ZeroDivisionError"
  else .ok (x % (jb.capacity : Int)).toNat

/-- `self._packets[pos]` (read). -/
def getSlot (jb : JB) (pos : Nat) : Outcome (Option Packet) :=
  match jb.packets[pos]? with
  | some v => .ok v
  | none => .crash "IndexError"

/-- `self._packets[pos] = v`. -/
def setSlot (jb : JB) (pos : Nat) (v : Option Packet) : Outcome JB :=
  if pos < jb.packets.length then .ok { jb with packets := jb.packets.set pos v }
  else .crash "IndexError"

/-! ## `remove` (lines 100-105) -/

/-- Body of the loop of `remove`. -/
def removeOne (jb : JB) : Outcome JB :=
  match jb.origin with
  | none => .crash "TypeError"
  | some o =>
    match slotOf jb o with
    | .ok pos =>
      match setSlot jb pos none with
      | .ok jb1 => .ok { jb1 with origin := some (uint16_add o 1) }
      | .valueError => .valueError | .crash k => .crash k | .hang => .hang
    | .valueError => .valueError | .crash k => .crash k | .hang => .hang

def removeLoop : Nat → JB → Outcome JB
  | 0, jb => .ok jb
  | n + 1, jb =>
    match removeOne jb with
    | .ok jb1 => removeLoop n jb1
    | .valueError => .valueError | .crash k => .crash k | .hang => .hang

def remove (jb : JB) (count : Nat) : Outcome JB :=
  if count ≤ jb.capacity then removeLoop count jb else .crash "AssertionError"

/-! ## `smart_remove` (lines 107-124) -/

inductive SRStep where
  | cont (jb : JB) (ts : Option Int)
  | brk (jb : JB)
  | retTrue (jb : JB)

/-- Iteration `i` of the loop of `smart_remove(count)`; `ts` is the local `timestamp`. -/
def smartStep (jb : JB) (count : Int) (i : Nat) (ts : Option Int) : Outcome SRStep :=
  match jb.origin with
  | none => .crash "TypeError"
  | some o =>
    match slotOf jb o with
    | .ok pos =>
      match getSlot jb pos with
      | .ok pkt =>
        -- `none` = break; `some ts'` = fall through with the (possibly updated) timestamp
        let chk : Option (Option Int) :=
          match pkt with
          | some p => if (i : Int) ≥ count ∧ ts ≠ some p.ts then none else some (some p.ts)
          | none => some ts
        match chk with
        | none => .ok (.brk jb)
        | some ts' =>
          match setSlot jb pos none with
          | .ok jb1 =>
            let jb2 := { jb1 with origin := some (uint16_add o 1) }
            if (i : Int) = (jb.capacity : Int) - 1 then .ok (.retTrue jb2) else .ok (.cont jb2 ts')
          | .valueError => .valueError | .crash k => .crash k | .hang => .hang
      | .valueError => .valueError | .crash k => .crash k | .hang => .hang
    | .valueError => .valueError | .crash k => .crash k | .hang => .hang

/-- `n` remaining iterations, next loop index `i`. -/
def smartLoop (count : Int) : Nat → Nat → JB → Option Int → Outcome (JB × Bool)
  | 0, _, jb, _ => .ok (jb, false)
  | n + 1, i, jb, ts =>
    match smartStep jb count i ts with
    | .ok (.cont jb1 ts1) => smartLoop count n (i + 1) jb1 ts1
    | .ok (.brk jb1) => .ok (jb1, false)
    | .ok (.retTrue jb1) => .ok (jb1, true)
    | .valueError => .valueError | .crash k => .crash k | .hang => .hang

def smartRemove (jb : JB) (count : Int) : Outcome (JB × Bool) :=
  smartLoop count jb.capacity 0 jb none

/-! ## `_remove_frame` (lines 63-98) -/

/-- Locals of `_remove_frame`. `used` is ghost: the `packets` list at the moment `frame` was built. -/
structure RF where
  frame : Option Frame
  frames : Int
  pkts : List Packet
  remove : Nat
  ts : Option Int
  used : List Packet
  deriving Repr

def RF.init : RF := ⟨none, 0, [], 0, none, []⟩

inductive RFStep where
  | cont (st : RF)
  | brk
  | ret (st : RF)

/-- `b"".join([x._data for x in packets])`. -/
def joinData (l : List Packet) : Bytes := (l.map (·.data)).flatten

/-- Lines 75-96: the loop body of `_remove_frame` after `packet` was found to be not `None`. -/
def rfBody (prefetch : Int) (st : RF) (count : Nat) (p : Packet) : RFStep :=
  match st.ts with
  | none => .cont { st with ts := some p.ts, pkts := st.pkts ++ [p] }
  | some t =>
    if p.ts ≠ t then
      -- we now have a complete frame, only store the first one
      let st1 : RF :=
        match st.frame with
        | none => { st with frame := some ⟨joinData st.pkts, t⟩, remove := count, used := st.pkts }
        | some _ => st
      -- check we have prefetched enough
      let st2 : RF := { st1 with frames := st1.frames + 1 }
      if st2.frames ≥ prefetch then .ret st2
      -- start a new frame
      else .cont { st2 with pkts := [p], ts := some p.ts }
    else .cont { st with pkts := st.pkts ++ [p] }

/-- Iteration `count` of the loop of `_remove_frame`, origin `o` (lines 71-74, then `rfBody`). -/
def rfStep (jb : JB) (o : Int) (st : RF) (count : Nat) : Outcome RFStep :=
  match slotOf jb (o + (count : Int)) with
  | .ok pos =>
    match getSlot jb pos with
    | .ok none => .ok .brk
    | .ok (some p) => .ok (rfBody jb.prefetch st count p)
    | .valueError => .valueError | .crash k => .crash k | .hang => .hang
  | .valueError => .valueError | .crash k => .crash k | .hang => .hang

/-- `n` remaining iterations, next loop index `count`. `none` = fell out of / broke the loop. -/
def rfLoop (jb : JB) (o : Int) : Nat → Nat → RF → Outcome (Option RF)
  | 0, _, _ => .ok none
  | n + 1, count, st =>
    match rfStep jb o st count with
    | .ok (.cont st1) => rfLoop jb o n (count + 1) st1
    | .ok .brk => .ok none
    | .ok (.ret st1) => .ok (some st1)
    | .valueError => .valueError | .crash k => .crash k | .hang => .hang

structure RFOut where
  jb : JB
  frame : Option Frame
  used : List Packet

/-- `_remove_frame(sequence_number)` (the argument is unused by the code). -/
def removeFrame (jb : JB) (_sequence_number : Int) : Outcome RFOut :=
  if jb.capacity = 0 then .ok ⟨jb, none, []⟩ else
  match jb.origin with
  | none => .crash "TypeError"
  | some o =>
    match rfLoop jb o jb.capacity 0 RF.init with
    | .ok none => .ok ⟨jb, none, []⟩
    | .ok (some st) =>
      match remove jb st.remove with
      | .ok jb1 => .ok ⟨jb1, st.frame, st.used⟩
      | .valueError => .valueError | .crash k => .crash k | .hang => .hang
    | .valueError => .valueError | .crash k => .crash k | .hang => .hang

/-! ## `add` (lines 30-61) -/

structure AddOut where
  jb : JB
  pli : Bool
  frame : Option Frame
  used : List Packet

/-- Lines 32-38: first packet fixes the origin; otherwise forward and backward distance. -/
def addDist (jb : JB) (p : Packet) : JB × Int × Int :=
  match jb.origin with
  | none => ({ jb with origin := some p.seq }, 0, 0)
  | some o => (jb, uint16_add p.seq (-o), uint16_add o (-p.seq))

/-- Lines 40-48.  `none` = the early `return pli_flag, None`; else `(jb, delta, pli_flag)`. -/
def addMisorder (jb : JB) (p : Packet) (delta misorder : Int) : Outcome (Option (JB × Int × Bool)) :=
  if misorder < delta then
    if misorder ≥ (MAX_MISORDER : Int) then
      match remove jb jb.capacity with
      | .ok jb1 => .ok (some ({ jb1 with origin := some p.seq }, 0, jb1.isVideo))
      | .valueError => .valueError | .crash k => .crash k | .hang => .hang
    else .ok none
  else .ok (some (jb, delta, false))

/-- Lines 50-56. -/
def addOverflow (jb : JB) (p : Packet) (delta : Int) (pli : Bool) : Outcome (JB × Bool) :=
  if delta ≥ (jb.capacity : Int) then
    let excess := delta - (jb.capacity : Int) + 1
    match smartRemove jb excess with
    | .ok (jb1, full) =>
      let jb2 := if full then { jb1 with origin := some p.seq } else jb1
      .ok (jb2, pli || jb2.isVideo)
    | .valueError => .valueError | .crash k => .crash k | .hang => .hang
  else .ok (jb, pli)

/-- Lines 58-61. -/
def addPlace (jb : JB) (p : Packet) (pli : Bool) : Outcome AddOut :=
  match slotOf jb p.seq with
  | .ok pos =>
    match setSlot jb pos (some p) with
    | .ok jb1 =>
      match removeFrame jb1 p.seq with
      | .ok r => .ok ⟨r.jb, pli, r.frame, r.used⟩
      | .valueError => .valueError | .crash k => .crash k | .hang => .hang
    | .valueError => .valueError | .crash k => .crash k | .hang => .hang
  | .valueError => .valueError | .crash k => .crash k | .hang => .hang

def add (jb : JB) (p : Packet) : Outcome AddOut :=
  let (jb0, delta, misorder) := addDist jb p
  match addMisorder jb0 p delta misorder with
  | .ok none => .ok ⟨jb0, false, none, []⟩
  | .ok (some (jb1, delta1, pli1)) =>
    match addOverflow jb1 p delta1 pli1 with
    | .ok (jb2, pli2) => addPlace jb2 p pli2
    | .valueError => .valueError | .crash k => .crash k | .hang => .hang
  | .valueError => .valueError | .crash k => .crash k | .hang => .hang

/-! ## Running a whole arrival list -/

/-- Observable result of one `add`: `(pli_flag, frame)`. -/
abbrev Obs := Bool × Option Frame

def run : JB → List Packet → Outcome (JB × List Obs)
  | jb, [] => .ok (jb, [])
  | jb, p :: rest =>
    match add jb p with
    | .ok o =>
      match run o.jb rest with
      | .ok (jb', obs) => .ok (jb', (o.pli, o.frame) :: obs)
      | .valueError => .valueError | .crash k => .crash k | .hang => .hang
    | .valueError => .valueError | .crash k => .crash k | .hang => .hang

end Aiortc.Model.Jitter
