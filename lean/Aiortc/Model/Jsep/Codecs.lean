import Aiortc.Model.Bytes
import Aiortc.Gen.Pc
import Aiortc.Gen.Sdp
import Aiortc.Gen.Negotiate
/-!
# Pure cores of the offer/answer code (C03), part 1: codecs, header extensions, directions, mids

Executable mirror of the module-level helpers of `src/aiortc/rtcpeerconnection.py`:

* `filter_preferred_codecs`        (52-79)    → `filterPreferred`
* `find_common_codecs`             (82-110)   → `findCommon`
* `find_common_header_extensions`  (113-122)  → `findCommonExt`
* `is_codec_compatible`            (125-147)  → `isCodecCompatible`
* `allocate_mid`                   (183-193)  → `allocateMid`
* `and_direction` / `or_direction` / `reverse_direction` (259-272) → `andDir` / `orDir` / `revDir`
* `codecs.is_rtx`                  (codecs/__init__.py:186)        → `isRtxMime`

A codec is `RTCRtpCodecParameters` with `parameters` as an association list sorted by key (so that list
equality is `dict` equality); values are `int` (`apt` and the other `FMTP_INT_PARAMETERS`) or `str`.
`None`-valued fmtp parameters do not occur in descriptions produced by aiortc and are outside the model.
The tables (`CODECS`, `HEADER_EXTENSIONS`, capabilities, dynamic payload type range, graph of
`parse_h264_profile_level_id`) are regenerated into `Gen/Negotiate.lean` on every run.
-/
namespace Aiortc.Model.Negotiate
open Aiortc (Outcome)

/-! ## Directions -/

/-- `sdp.DIRECTIONS`, in index order. -/
inductive Dir where
  | inactive | sendonly | recvonly | sendrecv
  deriving DecidableEq, Repr, Inhabited

def Dir.idx : Dir → Nat
  | .inactive => 0 | .sendonly => 1 | .recvonly => 2 | .sendrecv => 3

def Dir.ofIdx : Nat → Dir
  | 0 => .inactive | 1 => .sendonly | 2 => .recvonly | _ => .sendrecv

def Dir.str : Dir → String
  | .inactive => "inactive" | .sendonly => "sendonly" | .recvonly => "recvonly" | .sendrecv => "sendrecv"

def Dir.ofStr? : String → Option Dir
  | "inactive" => some .inactive | "sendonly" => some .sendonly | "recvonly" => some .recvonly
  | "sendrecv" => some .sendrecv | _ => none

def Dir.all : List Dir := [.inactive, .sendonly, .recvonly, .sendrecv]

/-- `DIRECTIONS[DIRECTIONS.index(a) & DIRECTIONS.index(b)]` -/
def andDir (a b : Dir) : Dir := Dir.ofIdx (a.idx &&& b.idx)
/-- `DIRECTIONS[DIRECTIONS.index(a) | DIRECTIONS.index(b)]` -/
def orDir (a b : Dir) : Dir := Dir.ofIdx (a.idx ||| b.idx)
def revDir : Dir → Dir
  | .sendonly => .recvonly | .recvonly => .sendonly | d => d

/-! ## Codecs -/

abbrev PVal := Int ⊕ String

structure Codec where
  mime : String
  clockRate : Nat
  channels : Option Nat
  pt : Nat
  fb : List (String × Option String)
  params : List (String × PVal)
  deriving DecidableEq, Repr, Inhabited

/-- `RTCRtpCodecCapability` (what `setCodecPreferences` stores). -/
structure Cap where
  mime : String
  clockRate : Nat
  channels : Option Nat
  params : List (String × PVal)
  deriving DecidableEq, Repr, Inhabited

/-- `RTCRtpHeaderExtensionParameters` -/
structure Ext where
  id : Nat
  uri : String
  deriving DecidableEq, Repr, Inhabited

def Codec.ofGen (g : String × Nat × Option Nat × Nat × List (String × Option String) × List (String × PVal)) : Codec :=
  ⟨g.1, g.2.1, g.2.2.1, g.2.2.2.1, g.2.2.2.2.1, g.2.2.2.2.2⟩
def Cap.ofGen (g : String × Nat × Option Nat × List (String × PVal)) : Cap := ⟨g.1, g.2.1, g.2.2.1, g.2.2.2⟩
def Ext.ofGen (g : Nat × String) : Ext := ⟨g.1, g.2⟩

/-- Media kinds (`MEDIA_KINDS`) plus the data channel section. -/
inductive Kind where
  | audio | video | application
  deriving DecidableEq, Repr, Inhabited

def Kind.str : Kind → String
  | .audio => "audio" | .video => "video" | .application => "application"

def Kind.isMedia : Kind → Bool
  | .application => false | _ => true

/-- `CODECS[kind]` (empty for `application`, which never reaches the callers). -/
def codecsOf : Kind → List Codec
  | .audio => Gen.NEG_CODECS_AUDIO.map Codec.ofGen
  | .video => Gen.NEG_CODECS_VIDEO.map Codec.ofGen
  | .application => []
/-- `HEADER_EXTENSIONS[kind]` -/
def extsOf : Kind → List Ext
  | .audio => Gen.NEG_HEADER_EXTENSIONS_AUDIO.map Ext.ofGen
  | .video => Gen.NEG_HEADER_EXTENSIONS_VIDEO.map Ext.ofGen
  | .application => []
/-- `get_capabilities(kind).codecs` -/
def capsOf : Kind → List Cap
  | .audio => Gen.NEG_CAPS_AUDIO.map Cap.ofGen
  | .video => Gen.NEG_CAPS_VIDEO.map Cap.ofGen
  | .application => []

/-- `mimeType.split("/")[1].lower() == "rtx"`: the text between the first and the second `/` of the lower-cased
mime type (lower-casing first is the same thing, `/` has no case, and makes "equal up to case ⇒ same answer"
evident).  A mime type without `/` would be an `IndexError` in the real code; `sdp.py` always builds `kind/name` and
the tables contain `/`, so that case is mapped to `false` here. -/
def isRtxMime (mime : String) : Bool :=
  match mime.toLower.toList.dropWhile (· != '/') with
  | [] => false
  | _ :: rest => rest.takeWhile (· != '/') == "rtx".toList

def Codec.isRtx (c : Codec) : Bool := isRtxMime c.mime
def Cap.isRtx (c : Cap) : Bool := isRtxMime c.mime

def plookup (k : String) : List (String × PVal) → Option PVal
  | [] => none
  | (k', v) :: r => if k' == k then some v else plookup k r

/-- `c.payloadType in rtp.DYNAMIC_PAYLOAD_TYPES` -/
def isDynamicPt (pt : Nat) : Bool := Gen.NEG_DYNAMIC_PT_LO ≤ pt && pt < Gen.NEG_DYNAMIC_PT_HI

/-- decimal digits to a number (`none`: empty or a non-digit) -/
def parseDec (cs : List Char) : Option Nat :=
  if cs.isEmpty then none
  else cs.foldl (fun acc c => acc.bind (fun n => if c.isDigit then some (n * 10 + (c.toNat - '0'.toNat)) else none)) (some 0)

/-- `int(s)` for plain decimal strings with an optional sign (what fmtp values look like; Python additionally accepts
surrounding white space and `_` separators) -/
def parseInt (s : String) : Option Int :=
  match s.toList with
  | '-' :: r => (parseDec r).map (fun n => -(n : Int))
  | '+' :: r => (parseDec r).map (fun n => (n : Int))
  | cs => (parseDec cs).map (fun n => (n : Int))

/-- `int(c.parameters.get("packetization-mode", "0"))`; `none` = `ValueError`. -/
def packetization (c : Codec) : Option Int :=
  match plookup "packetization-mode" c.params with
  | none => some 0
  | some (.inl i) => some i
  | some (.inr s) => parseInt s

/-- `sdp.parse_h264_profile_level_id(str(...get("profile-level-id", "42E01F")))[0]` through the regenerated
graph; `none` = `ValueError` (also for strings outside the graph's domain: see ASSUMPTIONS). -/
def h264Profile (c : Codec) : Option String :=
  let s := match plookup "profile-level-id" c.params with
    | none => "42E01F"
    | some (.inl i) => toString i
    | some (.inr s) => s
  match Gen.NEG_H264_PROFILE.find? (fun r => r.1 == s) with
  | some (_, p) => p
  | none => none

/-- `is_codec_compatible(a, b)` -/
def isCodecCompatible (a b : Codec) : Bool :=
  if a.mime.toLower != b.mime.toLower || a.clockRate != b.clockRate then false
  else if a.mime.toLower == "video/h264" then
    match packetization a, packetization b, h264Profile a, h264Profile b with
    | some pa, some pb, some fa, some fb => pa == pb && fa == fb
    | _, _, _, _ => false
  else true

/-- Inner loop of `filter_preferred_codecs`: the first RTX codec whose `apt` equals `pt`
(`rtx.parameters["apt"]` raises `KeyError` when the parameter is missing). -/
def rtxFor : List Codec → Nat → Outcome (Option Codec)
  | [], _ => .ok none
  | r :: rs, pt =>
    match plookup "apt" r.params with
    | none => .crash "KeyError"
    | some v => if v = .inl (pt : Int) then .ok (some r) else rtxFor rs pt

/-- `for codec in codecs: if mime/parameters match: …; break` -/
def pickCodec (codecs : List Codec) (pref : Cap) : Option Codec :=
  codecs.find? (fun c => c.mime.toLower == pref.mime.toLower && decide (c.params = pref.params))

def filterGo (codecs rtxCodecs : List Codec) (rtxEnabled : Bool) : List Cap → Outcome (List Codec)
  | [] => .ok []
  | p :: ps =>
    match pickCodec codecs p with
    | none => filterGo codecs rtxCodecs rtxEnabled ps
    | some c =>
      if rtxEnabled then
        match rtxFor rtxCodecs c.pt with
        | .ok r =>
          match filterGo codecs rtxCodecs rtxEnabled ps with
          | .ok rest => .ok (c :: (r.toList ++ rest))
          | e => e
        | .valueError => .valueError
        | .crash k => .crash k
        | .hang => .hang
      else
        match filterGo codecs rtxCodecs rtxEnabled ps with
        | .ok rest => .ok (c :: rest)
        | e => e

/-- `filter_preferred_codecs(codecs, preferred)` -/
def filterPreferred (codecs : List Codec) (preferred : List Cap) : Outcome (List Codec) :=
  if preferred.isEmpty then .ok codecs
  else filterGo codecs (codecs.filter Codec.isRtx) (preferred.any Cap.isRtx) (preferred.filter (fun p => !p.isRtx))

/-- `common_base` lookup: the dict maps a payload type to the LAST codec stored under it; new entries are
consed in front. -/
def baseLookup (pt : Int) : List (Nat × Codec) → Option Codec
  | [] => none
  | (k, c) :: r => if (k : Int) == pt then some c else baseLookup pt r

/-- The codec `find_common_codecs` appends for a local codec `l` compatible with the remote codec `c`. -/
def adapt (l c : Codec) : Codec :=
  { l with pt := if isDynamicPt c.pt then c.pt else l.pt,
           fb := l.fb.filter (fun x => c.fb.contains x) }

def findCommonGo (loc : List Codec) : List Codec → List (Nat × Codec) → List Codec
  | [], _ => []
  | c :: rs, base =>
    if c.isRtx then
      match plookup "apt" c.params with
      | some (.inl apt) =>
        match baseLookup apt base with
        | some b => if c.clockRate == b.clockRate then c :: findCommonGo loc rs base else findCommonGo loc rs base
        | none => findCommonGo loc rs base
      | _ => findCommonGo loc rs base
    else
      match loc.find? (fun l => isCodecCompatible l c) with
      | some l => adapt l c :: findCommonGo loc rs (((adapt l c).pt, adapt l c) :: base)
      | none => findCommonGo loc rs base

/-- `find_common_codecs(local_codecs, remote_codecs)` -/
def findCommon (loc remote : List Codec) : List Codec := findCommonGo loc remote []

/-- `find_common_header_extensions(local, remote)`: one copy of the REMOTE entry per local entry of that uri. -/
def findCommonExt (loc remote : List Ext) : List Ext :=
  remote.flatMap (fun rx => (loc.filter (fun lx => lx.uri == rx.uri)).map (fun _ => rx))

/-! ## mids -/

def allocateMidGo (mids : List String) : Nat → Nat → Option String
  | 0, _ => none
  | fuel + 1, i => if mids.contains (toString i) then allocateMidGo mids fuel (i + 1) else some (toString i)

/-- `allocate_mid(mids)`: the first decimal string not in `mids`, which is added to the set.
`|mids| + 1` iterations always suffice; running out of fuel is reported as `hang`. -/
def allocateMid (mids : List String) : Outcome (String × List String) :=
  match allocateMidGo mids (mids.length + 1) 0 with
  | some m => .ok (m, mids ++ [m])
  | none => .hang

end Aiortc.Model.Negotiate
