import Aiortc.Model.Jsep.Signaling
/-!
# Session-level and media-level ICE / DTLS attributes of a description (C14)

`__validate_description` looks at `media.ice.usernameFragment`, `media.ice.password` and
`media.dtls` of every m-section.  Those are filled in by `sdp.SessionDescription.parse`
(src/aiortc/sdp.py:383-560):

* the session part may carry `a=ice-ufrag`, `a=ice-pwd`, `a=setup`; they end up in the function-level
  variables `ice_usernameFragment`, `ice_password`, `dtls_role`;
* every m-section gets a FRESH `RTCIceParameters(usernameFragment=ice_usernameFragment,
  password=ice_password)` / `RTCDtlsParameters(role=dtls_role)` built from those session-level
  defaults, and its own `a=ice-ufrag` / `a=ice-pwd` / `a=setup` lines then overwrite the fields of
  that object only;
* `media.dtls = None` when no role came from either level;
* `a=rtcp-mux` and `a=mid` exist at media level only.

So the value in force for a section is its own line if it has one, else the session-level line, and
what one section says never reaches another one.  `RawDesc` is the description as the text has it
(one `Level` per part), `RawDesc.resolve` is what the parser hands to the validator.
-/
namespace Aiortc.Model.Jsep

/-- What one part of the text (the session part or one m-section) says.  `none` = no such line;
`some false` = a line with an empty value (`a=ice-ufrag:`), which is falsy for the validator;
`setup` is `some .auto` for `actpass`, `some .definite` for `active` / `passive`. -/
structure Level where
  ufrag : Option Bool := none
  pwd : Option Bool := none
  setup : Option Role := none
  deriving DecidableEq, Repr, Inhabited

structure RawMedia where
  kind : Kind
  mid : String
  own : Level       -- the section's own `a=ice-ufrag` / `a=ice-pwd` / `a=setup` lines
  mux : Bool        -- `a=rtcp-mux` in the section
  deriving DecidableEq, Repr, Inhabited

structure RawDesc where
  id : Nat
  type : DType
  sess : Level      -- session-level lines
  media : List RawMedia
  deriving DecidableEq, Repr, Inhabited

/-- `RTCIceParameters(usernameFragment=<session default>)`, then `… = value` for an own line; the
validator tests truthiness (`None` and `""` are falsy). -/
def inForce (sess own : Option Bool) : Bool :=
  match own with
  | some b => b
  | none =>
    match sess with
    | some b => b
    | none => false

/-- `RTCDtlsParameters(role=dtls_role)`, own `a=setup` overwrites; no role at all ⇒ `media.dtls = None`. -/
def roleInForce (sess own : Option Role) : Role :=
  match own with
  | some r => r
  | none =>
    match sess with
    | some r => r
    | none => .missing

/-- One m-section as the parser hands it to the validator: depends on the session part and on the
section itself, on nothing else. -/
def resolveMedia (sess : Level) (m : RawMedia) : Media :=
  { kind := m.kind, mid := m.mid,
    ufrag := inForce sess.ufrag m.own.ufrag,
    pwd := inForce sess.pwd m.own.pwd,
    role := roleInForce sess.setup m.own.setup,
    mux := m.mux }

/-- The "parse media" loop: the session-level defaults are the same for every section. -/
def resolveAll (sess : Level) : List RawMedia → List Media
  | [] => []
  | m :: ms => resolveMedia sess m :: resolveAll sess ms

def RawDesc.resolve (r : RawDesc) : Desc :=
  { id := r.id, type := r.type, media := resolveAll r.sess r.media }

/-- A section lacks ICE credentials: neither its own lines nor the session part give both a user
fragment and a password. -/
def RawMedia.lacksCredentials (sess : Level) (m : RawMedia) : Bool :=
  !(inForce sess.ufrag m.own.ufrag && inForce sess.pwd m.own.pwd)

/-- A section has no DTLS role the description type allows. -/
def RawMedia.lacksRole (sess : Level) (t : DType) (m : RawMedia) : Bool :=
  roleInForce sess.setup m.own.setup == .missing ||
    (t.answerLike && roleInForce sess.setup m.own.setup != .definite)

/-- An RTP section without `a=rtcp-mux` (a session-level `a=rtcp-mux` does not exist for the parser). -/
def RawMedia.lacksMux (m : RawMedia) : Bool := m.kind.isRtp && !m.mux

end Aiortc.Model.Jsep
