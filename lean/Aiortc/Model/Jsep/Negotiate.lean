import Aiortc.Model.Jsep.Codecs
import Aiortc.Model.Jsep.Signaling
/-!
# Pure cores of the offer/answer code (C03), part 2: the peer connection

Abstract state of `RTCPeerConnection` (`src/aiortc/rtcpeerconnection.py`) as far as offer/answer touches it, and
the pure cores of

* `__createDtlsTransport` / `__createTransceiver` / `__createSctpTransport` (1121-1209): bundle policy
* `addTrack` / `addTransceiver` / `createDataChannel` / `setCodecPreferences` / `direction` setter
* `createOffer`           (636-745)
* `createAnswer`          (548-602)
* `setLocalDescription`   (782-878)
* `setRemoteDescription`  (880-1073), including matching of transceivers, codec / extension intersection,
  ICE and DTLS role assignment and the removal of bundled transports
* `__validate_description` (1350-1419): state table, definite role in answers, answer mirrors offer
  (ICE credentials / `a=setup` presence / rtcp-mux are always present in descriptions created by the model; those
  checks are C14's)

Descriptions are abstract values: per media section kind, mid, direction, codecs, header extensions, the DTLS
role (`a=setup`) and the identity of the local transport whose candidates the section advertises.

The model is of the tree WITH `fixes/C03-bundle-by-transport-identity.patch`: when BUNDLE is applied a
transceiver / the SCTP transport moves to the primary transport iff it is not already on it (the unpatched code
looked at the `_bundled` flag instead and (a) stopped the primary transport when an unflagged section shared it,
(b) left flagged sections on a transport that it stopped).  `bundleStepOrig` keeps the unpatched rule for the
witness theorems.

Not modelled: `alwaysNegotiateDataChannels`, legacy `DTLS/SCTP` sections, stopped transceivers, ICE candidates,
certificates/fingerprints, ssrc/msid lines, everything asynchronous (`__gather`, `__connect`).
-/
namespace Aiortc.Model.Negotiate
open Aiortc (Outcome)
open Aiortc.Model.Jsep (Sig)

inductive Role where
  | auto | client | server
  deriving DecidableEq, Repr, Inhabited

/-- `sdp.DTLS_ROLE_SETUP` -/
def Role.setup : Role → String
  | .auto => "actpass" | .client => "active" | .server => "passive"
def Role.str : Role → String
  | .auto => "auto" | .client => "client" | .server => "server"

inductive Policy where
  | balanced | maxCompat | maxBundle
  deriving DecidableEq, Repr, Inhabited

inductive DType where
  | offer | answer
  deriving DecidableEq, Repr, Inhabited

/-- One media section of a description. `direction`, `codecs`, `exts` are meaningless for `application`. -/
structure MSec where
  kind : Kind
  mid : String
  direction : Dir
  codecs : List Codec
  exts : List Ext
  setup : Role
  transport : Nat
  deriving DecidableEq, Repr, Inhabited

structure Desc where
  type : DType
  media : List MSec
  bundle : List String
  deriving DecidableEq, Repr, Inhabited

/-- An `RTCDtlsTransport` with its `RTCIceTransport`: DTLS role, ICE role (`none` = `_role_set` false,
`some b` = `ice_controlling = b`), membership in `__dtlsTransports` / `__iceTransports`. -/
structure Transport where
  id : Nat
  role : Role
  ice : Option Bool
  live : Bool
  deriving DecidableEq, Repr, Inhabited

structure Transceiver where
  kind : Kind
  direction : Dir
  currentDirection : Option Dir
  offerDirection : Option Dir
  mid : Option String
  mline : Option Nat
  preferred : List Cap
  codecs : List Codec
  exts : List Ext
  bundled : Bool
  transport : Nat
  hasTrack : Bool
  remoteSet : Bool          -- `transceiver in self.__remoteIce`
  deriving DecidableEq, Repr, Inhabited

structure SctpT where
  mid : Option String
  bundled : Bool
  transport : Nat
  remoteSet : Bool
  deriving DecidableEq, Repr, Inhabited

structure Pc where
  policy : Policy
  transceivers : List Transceiver
  sctp : Option SctpT
  sctpMline : Option Nat
  seenMids : List String
  transports : List Transport
  nextId : Nat
  sig : Sig
  pendingLocal : Option Desc
  currentLocal : Option Desc
  pendingRemote : Option Desc
  currentRemote : Option Desc
  deriving DecidableEq, Repr, Inhabited

def Pc.new (policy : Policy) : Pc :=
  { policy, transceivers := [], sctp := none, sctpMline := none, seenMids := [], transports := [], nextId := 0,
    sig := .stable, pendingLocal := none, currentLocal := none, pendingRemote := none, currentRemote := none }

/-- `self.__pendingLocalDescription or self.__currentLocalDescription` -/
def Pc.localDesc (pc : Pc) : Option Desc := pc.pendingLocal <|> pc.currentLocal
def Pc.remoteDesc (pc : Pc) : Option Desc := pc.pendingRemote <|> pc.currentRemote

/-! ## helpers -/

/-- Apply `f` to the first element satisfying `p` (`next(filter(p, xs), None)` followed by a mutation). -/
def updFirst {α} (p : α → Bool) (f : α → α) : List α → Option (List α)
  | [] => none
  | x :: xs => if p x then some (f x :: xs) else (updFirst p f xs).map (x :: ·)

def setAdd (s : List String) (m : String) : List String := if s.contains m then s else s ++ [m]

def Pc.roleOf (pc : Pc) (id : Nat) : Role :=
  match pc.transports.find? (fun t => t.id == id) with
  | some t => t.role
  | none => .auto     -- unreachable: every transport id in use was allocated by `newTransport`

def Pc.modTransport (pc : Pc) (id : Nat) (f : Transport → Transport) : Pc :=
  { pc with transports := pc.transports.map (fun t => if t.id == id then f t else t) }

/-- `__getTransceiverByMid` -/
def Pc.byMid (pc : Pc) (mid : String) : Option Transceiver := pc.transceivers.find? (fun t => t.mid == some mid)
/-- `__getTransceiverByMLineIndex` -/
def Pc.byMline (pc : Pc) (i : Nat) : Option Transceiver := pc.transceivers.find? (fun t => t.mline == some i)

/-! ## creating transports, transceivers, the SCTP transport -/

/-- `__createDtlsTransport` -/
def Pc.newTransport (pc : Pc) : Pc × Nat :=
  ({ pc with transports := pc.transports ++ [{ id := pc.nextId, role := .auto, ice := none, live := true }],
             nextId := pc.nextId + 1 }, pc.nextId)

/-- the transport an additional transceiver shares under the connection's bundle policy (1181-1194) -/
def Pc.sharedTransport (pc : Pc) (kind : Kind) : Option Nat :=
  match pc.policy with
  | .maxBundle =>
    match pc.transceivers with
    | t :: _ => some t.transport
    | [] => pc.sctp.map (·.transport)
  | .balanced => (pc.transceivers.find? (fun t => t.kind == kind)).map (·.transport)
  | .maxCompat => none

def newTransceiver (kind : Kind) (direction : Dir) (hasTrack : Bool) (tid : Nat) (bundled : Bool) : Transceiver :=
  { kind, direction, currentDirection := none, offerDirection := none, mid := none, mline := none,
    preferred := [], codecs := [], exts := [], bundled, transport := tid, hasTrack, remoteSet := false }

/-- `__createTransceiver(direction, kind, sender_track)` -/
def Pc.createTransceiver (pc : Pc) (direction : Dir) (kind : Kind) (hasTrack : Bool) : Pc :=
  match pc.sharedTransport kind with
  | some tid => { pc with transceivers := pc.transceivers ++ [newTransceiver kind direction hasTrack tid true] }
  | none =>
    { pc.newTransport.1 with
      transceivers := pc.transceivers ++ [newTransceiver kind direction hasTrack pc.newTransport.2 false] }

/-- `__createSctpTransport` -/
def Pc.createSctp (pc : Pc) : Pc :=
  match pc.policy, pc.transceivers with
  | .maxBundle, t :: _ => { pc with sctp := some { mid := none, bundled := true, transport := t.transport, remoteSet := false } }
  | _, _ =>
    let (pc', tid) := pc.newTransport
    { pc' with sctp := some { mid := none, bundled := false, transport := tid, remoteSet := false } }

/-- `addTransceiver(kind | track, direction)` (kind and direction are valid by construction) -/
def Pc.addTransceiver (pc : Pc) (kind : Kind) (direction : Dir) (hasTrack : Bool) : Pc :=
  pc.createTransceiver direction kind hasTrack

/-- `addTrack(track)`: reuse the first transceiver of that kind whose sender has no track. -/
def Pc.addTrack (pc : Pc) (kind : Kind) : Pc :=
  match updFirst (fun t => t.kind == kind && !t.hasTrack)
      (fun t => { t with hasTrack := true, direction := orDir t.direction .sendonly }) pc.transceivers with
  | some ts => { pc with transceivers := ts }
  | none => pc.createTransceiver .sendrecv kind true

/-- `createDataChannel(...)` as far as the connection is concerned -/
def Pc.createDataChannel (pc : Pc) : Pc := if pc.sctp.isSome then pc else pc.createSctp

/-- `unique` of `setCodecPreferences`: the LAST occurrence of every capability survives, order kept. -/
def dedupKeepLast : List Cap → List Cap
  | [] => []
  | c :: cs => if cs.contains c then dedupKeepLast cs else c :: dedupKeepLast cs

/-- `transceiver.setCodecPreferences(codecs)` on the `idx`-th transceiver -/
def Pc.setCodecPreferences (pc : Pc) (idx : Nat) (caps : List Cap) : Outcome Pc :=
  match pc.transceivers[idx]? with
  | none => .crash "IndexError"
  | some t =>
    if caps.all (fun c => (capsOf t.kind).contains c) then
      .ok { pc with transceivers := pc.transceivers.set idx { t with preferred := dedupKeepLast caps } }
    else .valueError

/-- `transceiver.direction = d` on the `idx`-th transceiver -/
def Pc.setDirection (pc : Pc) (idx : Nat) (d : Dir) : Outcome Pc :=
  match pc.transceivers[idx]? with
  | none => .crash "IndexError"
  | some t => .ok { pc with transceivers := pc.transceivers.set idx { t with direction := d } }

/-! ## createOffer -/

/-- `create_media_description_for_transceiver` (+ `add_transport_description`: `media.dtls` is
`dtlsTransport.getLocalParameters()`, whose role is always the default `auto`, i.e. `a=setup:actpass`) -/
def Pc.secForTransceiver (_pc : Pc) (t : Transceiver) (direction : Dir) (mid : String) : MSec :=
  { kind := t.kind, mid, direction, codecs := t.codecs, exts := t.exts, setup := .auto,
    transport := t.transport }

/-- `create_media_description_for_sctp` -/
def Pc.secForSctp (_pc : Pc) (s : SctpT) (mid : String) : MSec :=
  { kind := .application, mid, direction := .sendrecv, codecs := [], exts := [], setup := .auto,
    transport := s.transport }

/-- "offer codecs": `_codecs = filter_preferred_codecs(CODECS[kind][:], _preferred_codecs)`, `_headerExtensions = …` -/
def offerCodecs : List Transceiver → Outcome (List Transceiver)
  | [] => .ok []
  | t :: ts =>
    match filterPreferred (codecsOf t.kind) t.preferred with
    | .ok cs =>
      match offerCodecs ts with
      | .ok ts' => .ok ({ t with codecs := cs, exts := extsOf t.kind } :: ts')
      | e => e
    | .valueError => .valueError
    | .crash k => .crash k
    | .hang => .hang

/-- `local_m or remote_m` for `i in range(max(len(local), len(remote)))` -/
def mergeMedia : List MSec → List MSec → List MSec
  | [], r => r
  | l, [] => l
  | l :: ls, _ :: rs => l :: mergeMedia ls rs

/-- "handle existing transceivers / sctp" -/
def offerExisting : Pc → List MSec → Nat → Outcome (Pc × List MSec)
  | pc, [], _ => .ok (pc, [])
  | pc, m :: ms, i =>
    if m.kind.isMedia then
      match pc.byMid m.mid with
      | none => .crash "AttributeError"
      | some t =>
        match updFirst (fun t => t.mid == some m.mid) (fun t => { t with mline := some i }) pc.transceivers with
        | none => .crash "AttributeError"
        | some ts =>
          let pc1 := { pc with transceivers := ts }
          match offerExisting pc1 ms (i + 1) with
          | .ok (pc2, secs) => .ok (pc2, pc.secForTransceiver t t.direction m.mid :: secs)
          | e => e
    else
      match pc.sctp with
      | none => .crash "AttributeError"
      | some s =>
        match offerExisting { pc with sctpMline := some i } ms (i + 1) with
        | .ok (pc2, secs) => .ok (pc2, pc.secForSctp s m.mid :: secs)
        | e => e

/-- "handle new transceivers": those with `mid is None`, in order -/
def offerNew (pc : Pc) : List Transceiver → Nat → List String → Outcome (List Transceiver × List MSec × List String)
  | [], _, mids => .ok ([], [], mids)
  | t :: ts, n, mids =>
    if t.mid.isNone then
      match allocateMid mids with
      | .ok (m, mids1) =>
        match offerNew pc ts (n + 1) mids1 with
        | .ok (ts', secs, mids2) =>
          .ok ({ t with mline := some n } :: ts', pc.secForTransceiver t t.direction m :: secs, mids2)
        | e => e
      | .valueError => .valueError
      | .crash k => .crash k
      | .hang => .hang
    else
      match offerNew pc ts n mids with
      | .ok (ts', secs, mids2) => .ok (t :: ts', secs, mids2)
      | e => e

/-- the data channel section of a new SCTP transport (733-738) and the BUNDLE group (740-743) -/
def Pc.offerFinish (pc2 : Pc) (media : List MSec) (mids2 : List String) : Outcome (Pc × Desc) :=
  match pc2.sctp with
  | some s =>
    if s.mid.isNone then
      match allocateMid mids2 with
      | .ok (m, _) =>
        .ok ({ pc2 with sctpMline := some media.length },
             { type := .offer, media := media ++ [pc2.secForSctp s m], bundle := (media ++ [pc2.secForSctp s m]).map (·.mid) })
      | .valueError => .valueError
      | .crash k => .crash k
      | .hang => .hang
    else .ok (pc2, { type := .offer, media, bundle := media.map (·.mid) })
  | none => .ok (pc2, { type := .offer, media, bundle := media.map (·.mid) })

/-- existing sections of `pc` in m-line order: `local_m or remote_m` -/
def Pc.existingMedia (pc : Pc) : List MSec :=
  mergeMedia ((pc.localDesc.map (·.media)).getD []) ((pc.remoteDesc.map (·.media)).getD [])

def Pc.createOffer (pc : Pc) : Outcome (Pc × Desc) :=
  if pc.sig == .closed then .crash "InvalidStateError" else
  match offerCodecs pc.transceivers with
  | .ok ts0 =>
    match offerExisting { pc with transceivers := ts0 } pc.existingMedia 0 with
    | .ok (pc1, secs1) =>
      match offerNew pc1 pc1.transceivers secs1.length pc1.seenMids with
      | .ok (ts2, secs2, mids2) => Pc.offerFinish { pc1 with transceivers := ts2 } (secs1 ++ secs2) mids2
      | .valueError => .valueError
      | .crash k => .crash k
      | .hang => .hang
    | .valueError => .valueError
    | .crash k => .crash k
    | .hang => .hang
  | .valueError => .valueError
  | .crash k => .crash k
  | .hang => .hang

/-! ## __validate_description -/

def keysOf (d : Desc) : List (Kind × String) := d.media.map (fun m => (m.kind, m.mid))

def stateAllows (sig : Sig) (isLocal : Bool) (t : DType) : Bool :=
  match isLocal, t with
  | true, .offer => sig == .stable || sig == .haveLocalOffer
  | true, .answer => sig == .haveRemoteOffer || sig == .haveLocalPranswer
  | false, .offer => sig == .stable || sig == .haveRemoteOffer
  | false, .answer => sig == .haveLocalOffer || sig == .haveRemotePranswer

def Pc.validate (pc : Pc) (d : Desc) (isLocal : Bool) : Outcome Unit :=
  if !stateAllows pc.sig isLocal d.type then .crash "InvalidStateError"
  else if d.type == .answer && d.media.any (fun m => m.setup == .auto) then .valueError
  else if d.type == .answer then
    match (if isLocal then pc.remoteDesc else pc.localDesc) with
    | none => .crash "AttributeError"
    | some offer => if keysOf d != keysOf offer then .valueError else .ok ()
  else .ok ()

/-! ## setLocalDescription -/

/-- "assign MID" -/
def assignMids : Pc → List MSec → Nat → Outcome Pc
  | pc, [], _ => .ok pc
  | pc, m :: ms, i =>
    let pc := { pc with seenMids := setAdd pc.seenMids m.mid }
    if m.kind.isMedia then
      match updFirst (fun t => t.mline == some i) (fun t => { t with mid := some m.mid }) pc.transceivers with
      | none => .crash "AttributeError"
      | some ts => assignMids { pc with transceivers := ts } ms (i + 1)
    else
      match pc.sctp with
      | none => .crash "AttributeError"
      | some s => assignMids { pc with sctp := some { s with mid := some m.mid } } ms (i + 1)

/-- "set DTLS role" of `setLocalDescription(answer)` -/
def localRoles : Pc → List MSec → Nat → Outcome Pc
  | pc, [], _ => .ok pc
  | pc, m :: ms, i =>
    if m.kind.isMedia then
      match pc.byMline i with
      | none => .crash "AttributeError"
      | some t => localRoles (pc.modTransport t.transport (fun x => { x with role := m.setup })) ms (i + 1)
    else
      match pc.sctp with
      | none => .crash "AttributeError"
      | some s => localRoles (pc.modTransport s.transport (fun x => { x with role := m.setup })) ms (i + 1)

/-- after `__gather`: `add_transport_description(media, <transport of the section>)` -/
def refreshTransports : Pc → List MSec → Nat → Outcome (List MSec)
  | _, [], _ => .ok []
  | pc, m :: ms, i =>
    if m.kind.isMedia then
      match pc.byMline i with
      | none => .crash "AttributeError"
      | some t =>
        match refreshTransports pc ms (i + 1) with
        | .ok r => .ok ({ m with transport := t.transport } :: r)
        | e => e
    else
      match pc.sctp with
      | none => .crash "AttributeError"
      | some s =>
        match refreshTransports pc ms (i + 1) with
        | .ok r => .ok ({ m with transport := s.transport } :: r)
        | e => e

/-- "configure direction" of `setLocalDescription(answer)` (patched by C14's fix: only when `_offerDirection` is set) -/
def localDirections (ts : List Transceiver) : List Transceiver :=
  ts.map (fun t => match t.offerDirection with
    | some od => { t with currentDirection := some (andDir t.direction od) }
    | none => t)

def Pc.setLocal (pc : Pc) (d : Desc) : Outcome Pc :=
  if pc.sig == .closed then .crash "InvalidStateError" else
  match pc.validate d true with
  | .ok () =>
    let pc1 := { pc with sig := if d.type == .offer then .haveLocalOffer else .stable }
    match assignMids pc1 d.media 0 with
    | .ok pc2 =>
      let pc3 : Pc := if d.type == .offer then
          { pc2 with transports := pc2.transports.map (fun t =>
              if t.live && t.ice.isNone then { t with ice := some true } else t) }
        else pc2
      match (if d.type == .answer then localRoles pc3 d.media 0 else .ok pc3) with
      | .ok pc4 =>
        let pc5 := if d.type == .answer then { pc4 with transceivers := localDirections pc4.transceivers } else pc4
        match refreshTransports pc5 d.media 0 with
        | .ok media =>
          let d' := { d with media }
          if d.type == .answer then .ok { pc5 with currentLocal := some d', pendingLocal := none }
          else .ok { pc5 with pendingLocal := some d' }
        | .valueError => .valueError
        | .crash k => .crash k
        | .hang => .hang
      | e => e
    | e => e
  | .valueError => .valueError
  | .crash k => .crash k
  | .hang => .hang

/-! ## setRemoteDescription -/

/-- ICE and DTLS role of the transport of one remote section (993-1004) -/
def remoteRoles (typ : DType) (setup : Role) (x : Transport) : Transport :=
  let x := if typ == .offer && x.ice.isNone then { x with ice := some false } else x
  match typ with
  | .offer => if setup == .client then { x with role := .server } else x
  | .answer => { x with role := if setup == .client then .server else .client }

/-- The codecs / extensions / direction part for a matched transceiver (921-944, 962-965) -/
def negotiateTransceiver (typ : DType) (t : Transceiver) (m : MSec) (i : Nat) : Outcome Transceiver :=
  match filterPreferred (findCommon (codecsOf m.kind) m.codecs) t.preferred with
  | .ok common =>
    if common.isEmpty then .crash "OperationError" else
    let d := revDir m.direction
    .ok { t with
      mid := some (t.mid.getD m.mid),
      mline := if t.mid.isNone then some i else t.mline,
      codecs := common,
      exts := findCommonExt (extsOf m.kind) m.exts,
      currentDirection := if typ == .answer then some d else t.currentDirection,
      offerDirection := if typ == .answer then t.offerDirection else some d,
      remoteSet := true }
  | .valueError => .valueError
  | .crash k => .crash k
  | .hang => .hang

def matchesSec (m : MSec) (t : Transceiver) : Bool := t.kind == m.kind && (t.mid.isNone || t.mid == some m.mid)

/-- `self.__seenMids.add(media.rtp.muxId)` -/
def Pc.seeMid (pc : Pc) (mid : String) : Pc := { pc with seenMids := setAdd pc.seenMids mid }

/-- "find transceiver … if transceiver is None: transceiver = self.__createTransceiver(recvonly, kind)" (907-916) -/
def Pc.ensureTransceiver (pc : Pc) (m : MSec) : Pc :=
  if pc.transceivers.any (matchesSec m) then pc else pc.createTransceiver .recvonly m.kind false

/-- "if not self.__sctp: self.__createSctpTransport()" (968-969) -/
def Pc.ensureSctp (pc : Pc) : Pc := if pc.sctp.isSome then pc else pc.createSctp

/-- the audio / video branch of one iteration of "apply description" (917-965, 988-1004), on a connection that has a
matching transceiver -/
def applyRemoteMedia (typ : DType) (pc : Pc) (i : Nat) (m : MSec) : Outcome Pc :=
  match pc.transceivers.find? (matchesSec m) with
  | none => .crash "AttributeError"   -- unreachable: a matching transceiver was just created
  | some t =>
    match negotiateTransceiver typ t m i with
    | .ok t' =>
      match updFirst (matchesSec m) (fun _ => t') pc.transceivers with
      | none => .crash "AttributeError"
      | some ts => .ok ({ pc with transceivers := ts }.modTransport t.transport (remoteRoles typ m.setup))
    | .valueError => .valueError
    | .crash k => .crash k
    | .hang => .hang

/-- the application branch (970-986, 988-1004), on a connection that has an SCTP transport -/
def applyRemoteApp (typ : DType) (pc : Pc) (i : Nat) (m : MSec) : Outcome Pc :=
  match pc.sctp with
  | none => .crash "AttributeError"     -- unreachable
  | some s =>
    .ok ({ pc with sctp := some { s with mid := some (s.mid.getD m.mid), remoteSet := true },
                   sctpMline := if s.mid.isNone then some i else pc.sctpMline }.modTransport s.transport (remoteRoles typ m.setup))

/-- one iteration of "apply description" (903-1004) -/
def applyRemoteSec (typ : DType) (pc : Pc) (i : Nat) (m : MSec) : Outcome Pc :=
  if m.kind.isMedia then applyRemoteMedia typ ((pc.seeMid m.mid).ensureTransceiver m) i m
  else applyRemoteApp typ (pc.seeMid m.mid).ensureSctp i m

def applyRemote (typ : DType) : Pc → List MSec → Nat → Outcome Pc
  | pc, [], _ => .ok pc
  | pc, m :: ms, i =>
    match applyRemoteSec typ pc i m with
    | .ok pc' => applyRemote typ pc' ms (i + 1)
    | e => e

/-- `primaryTransport` (1010-1017) -/
def Pc.primaryTransport (pc : Pc) (primaryMid : String) : Option Nat :=
  match pc.sctp with
  | some s => if s.mid == some primaryMid then some s.transport else (pc.byMid primaryMid).map (·.transport)
  | none => (pc.byMid primaryMid).map (·.transport)

def inSlaves (slaves : List String) : Option String → Bool
  | some m => slaves.contains m
  | none => false

/-- `oldTransports` of the PATCHED rule: transports of bundled sections that are not the primary transport -/
def bundleOld (pc : Pc) (primary : Nat) (slaves : List String) : List Nat :=
  (pc.transceivers.filter (fun t => inSlaves slaves t.mid && t.transport != primary)).map (·.transport)
    ++ (match pc.sctp with
        | some s => if inSlaves slaves s.mid && s.transport != primary then [s.transport] else []
        | none => [])

/-- "replace transport for bundled media" + "stop and discard old ICE transports" — PATCHED rule. -/
def bundleStep (pc : Pc) (primary : Nat) (slaves : List String) : Pc :=
  { pc with
    transceivers := pc.transceivers.map (fun t =>
      if inSlaves slaves t.mid then { t with transport := primary, bundled := true } else t),
    sctp := pc.sctp.map (fun s => if inSlaves slaves s.mid then { s with transport := primary, bundled := true } else s),
    transports := pc.transports.map (fun x => if (bundleOld pc primary slaves).contains x.id then { x with live := false } else x) }

/-- The same step as in the UNPATCHED code (decides on the `_bundled` flag). -/
def bundleStepOrig (pc : Pc) (primary : Nat) (slaves : List String) : Pc :=
  let moved (mid : Option String) (b : Bool) : Bool := inSlaves slaves mid && !b
  let old : List Nat := (pc.transceivers.filter (fun t => moved t.mid t.bundled)).map (·.transport)
    ++ (match pc.sctp with | some s => if moved s.mid s.bundled then [s.transport] else [] | none => [])
  { pc with
    transceivers := pc.transceivers.map (fun t =>
      if moved t.mid t.bundled then { t with transport := primary, bundled := true } else t),
    sctp := pc.sctp.map (fun s => if moved s.mid s.bundled then { s with transport := primary, bundled := true } else s),
    transports := pc.transports.map (fun x => if old.contains x.id then { x with live := false } else x) }

/-- some transceiver / the SCTP transport is listed behind the primary mid of the BUNDLE group -/
def Pc.hasSlaves (pc : Pc) (slaves : List String) : Bool :=
  pc.transceivers.any (fun t => inSlaves slaves t.mid) || (match pc.sctp with | some s => inSlaves slaves s.mid | none => false)

/-- "remove bundled transports" (1006-1046) with a selectable bundling rule -/
def Pc.applyBundleWith (step : Pc → Nat → List String → Pc) (pc : Pc) (bundle : List String) : Outcome Pc :=
  match bundle with
  | [] => .ok pc
  | primaryMid :: slaves =>
    match pc.primaryTransport primaryMid with
    | some p => .ok (step pc p slaves)
    | none =>
      -- `primaryTransport = None`: harmless if nothing is to be moved, otherwise sections end up without transport
      if pc.hasSlaves slaves then .crash "NoPrimaryTransport" else .ok pc

def Pc.setRemoteWith (step : Pc → Nat → List String → Pc) (pc : Pc) (d : Desc) : Outcome Pc :=
  match pc.validate d false with
  | .ok () =>
    match applyRemote d.type pc d.media 0 with
    | .ok pc1 =>
      match pc1.applyBundleWith step d.bundle with
      | .ok pc2 =>
        if d.type == .answer then .ok { pc2 with sig := .stable, currentRemote := some d, pendingRemote := none }
        else .ok { pc2 with sig := .haveRemoteOffer, pendingRemote := some d }
      | e => e
    | e => e
  | .valueError => .valueError
  | .crash k => .crash k
  | .hang => .hang

def Pc.setRemote (pc : Pc) (d : Desc) : Outcome Pc := pc.setRemoteWith bundleStep d

/-! ## createAnswer -/

/-- "determine DTLS role, or preserve the currently configured role" -/
def answerRole : Role → Role
  | .auto => .client
  | r => r

def answerSecs (pc : Pc) : List MSec → Outcome (List MSec)
  | [] => .ok []
  | m :: ms =>
    if m.kind.isMedia then
      match pc.byMid m.mid with
      | none => .crash "AttributeError"
      | some t =>
        match t.offerDirection, t.mid with
        | some od, some mid =>
          match answerSecs pc ms with
          | .ok r => .ok ({ pc.secForTransceiver t (andDir t.direction od) mid with setup := answerRole (pc.roleOf t.transport) } :: r)
          | e => e
        | _, _ => .valueError     -- `DIRECTIONS.index(None)`
    else
      match pc.sctp with
      | none => .crash "AttributeError"
      | some s =>
        match s.mid with
        | none => .crash "NoMid"   -- unreachable: setRemoteDescription gave the SCTP transport a mid
        | some mid =>
          match answerSecs pc ms with
          | .ok r => .ok ({ pc.secForSctp s mid with setup := answerRole (pc.roleOf s.transport) } :: r)
          | e => e

def Pc.createAnswer (pc : Pc) : Outcome Desc :=
  if pc.sig != .haveRemoteOffer && pc.sig != .haveLocalPranswer then .crash "InvalidStateError" else
  match pc.remoteDesc with
  | none => .crash "AttributeError"
  | some rd =>
    match answerSecs pc rd.media with
    | .ok media => .ok { type := .answer, media, bundle := media.map (·.mid) }
    | .valueError => .valueError
    | .crash k => .crash k
    | .hang => .hang

/-! ## a complete exchange -/

structure Exchange where
  offerer : Pc
  answerer : Pc
  offer : Desc       -- offerer.localDescription == answerer.remoteDescription
  answer : Desc      -- answerer.localDescription == offerer.remoteDescription
  offererMid : Pc    -- the offerer after setLocalDescription(offer)
  answererMid : Pc   -- the answerer after setRemoteDescription(offer)
  deriving Repr

/-- Which of the six calls failed (for the driver's error string). -/
def stepTag {α} (name : String) : Outcome α → String
  | .ok _ => name ++ ":ok"
  | .valueError => name ++ ":ValueError"
  | .crash k => name ++ ":" ++ k
  | .hang => name ++ ":hang"

/-- createOffer → setLocalDescription → setRemoteDescription → createAnswer → setLocalDescription →
setRemoteDescription; the descriptions handed over are `localDescription` of the side that created them. -/
def negotiateWith (step : Pc → Nat → List String → Pc) (o a : Pc) : Outcome Exchange :=
  match o.createOffer with
  | .ok (o1, offer0) =>
    match o1.setLocal offer0 with
    | .ok o2 =>
      match o2.localDesc with
      | none => .crash "AttributeError"
      | some offer =>
        match a.setRemoteWith step offer with
        | .ok a1 =>
          match a1.createAnswer with
          | .ok answer0 =>
            match a1.setLocal answer0 with
            | .ok a2 =>
              match a2.localDesc with
              | none => .crash "AttributeError"
              | some answer =>
                match o2.setRemoteWith step answer with
                | .ok o3 => .ok { offerer := o3, answerer := a2, offer, answer, offererMid := o2, answererMid := a1 }
                | .valueError => .valueError
                | .crash k => .crash k
                | .hang => .hang
            | .valueError => .valueError
            | .crash k => .crash k
            | .hang => .hang
          | .valueError => .valueError
          | .crash k => .crash k
          | .hang => .hang
        | .valueError => .valueError
        | .crash k => .crash k
        | .hang => .hang
    | .valueError => .valueError
    | .crash k => .crash k
    | .hang => .hang
  | .valueError => .valueError
  | .crash k => .crash k
  | .hang => .hang

def negotiate (o a : Pc) : Outcome Exchange := negotiateWith bundleStep o a

/-- What `__connect` needs for a section's transport (1076-1106): the section was negotiated (`__remoteIce` /
`__remoteDtls` recorded) and its transport is still one of the connection's live transports. -/
def Pc.connectReady (pc : Pc) : Bool :=
  let liveT (id : Nat) : Bool := pc.transports.any (fun x => x.id == id && x.live)
  pc.transceivers.all (fun t => t.mid.isNone || (t.remoteSet && liveT t.transport))
  && (match pc.sctp with | some s => s.mid.isNone || (s.remoteSet && liveT s.transport) | none => true)

/-- Live transports that carry no negotiated section: their DTLS state stays `new`, which keeps
`connectionState` at `connecting` (known finding C03-unmatched-transport). -/
def Pc.idleTransports (pc : Pc) : List Nat :=
  (pc.transports.filter (fun x => x.live &&
    !(pc.transceivers.any (fun t => t.transport == x.id && t.remoteSet)
      || (match pc.sctp with | some s => s.transport == x.id && s.remoteSet | none => false)))).map (·.id)

end Aiortc.Model.Negotiate
