import Aiortc.Model.Jsep.Signaling
/-!
# Calls in flight: the atomic segments of the negotiation calls (C14, `closed` is absorbing)

`RTCPeerConnection`'s methods are coroutines: a call runs atomically from one `await` that really
suspends to the next, and other calls (in particular `close()`) can run in between.  As far as
`signalingState`, the closed latch and the description slots are concerned every call has at most
TWO segments (the awaits inside one segment-pair do not read or write any of them):

* `createOffer`, `createAnswer`: one segment (no `await`).
* `close()`: latch + `__setSignalingState("closed")` in its first segment; the rest (stopping
  transports) touches nothing modelled here ⇒ one segment.
* `setLocalDescription`: segment 1 = `__assertNotClosed`, (implicit `createOffer/Answer`, which do
  not suspend), parse, `__validate_description`, `__setSignalingState(...)`, mids / roles /
  directions; `await self.__gather()`; segment 2 = `__assertNotClosed()`, transport descriptions,
  `__startConnect`, replace the description  (rtcpeerconnection.py:789-886, the `await` at :869).
* `setRemoteDescription`: segment 1 = parse, `__validate_description`, apply the media sections,
  bundle handling (its `await …stop()`s are inside this segment-pair and read nothing modelled);
  `await asyncio.gather(*coros)` (remote candidates); segment 2 = `__assertNotClosed()`, track
  events, `__startConnect`, `__setSignalingState(...)`, replace the description  (:888-1080, the `await` at :1059).

`start` runs the first segment, `resume` the second; `step` of Signaling.lean is `start` followed at
once by `resume` (`Props/C14Flight.lean: seqStep_eq_step`).  `runMany` runs any number of calls in flight
on one connection under an arbitrary schedule.
-/
namespace Aiortc.Model.Jsep

/-- What a suspended call still has to do when it is resumed. -/
inductive Pending where
  | localStore (d : Desc)     -- `setLocalDescription` after `await self.__gather()`
  | remoteApply (d : Desc)    -- `setRemoteDescription` after `await asyncio.gather(*coros)`
  deriving DecidableEq, Repr, Inhabited

inductive Started where
  | done (r : Res)            -- the call returned / raised within its first segment
  | suspended (k : Pending)
  deriving DecidableEq, Repr, Inhabited

/-- `setLocalDescription` from "parse and validate description" to `await self.__gather()`. -/
def startApplyLocal (pc : Pc) (d : Desc) : Started × Pc :=
  match validate pc d true with
  | some e => (.done e, pc)
  | none =>
    let pc1 := match d.type with
      | .offer => pc.setSig .haveLocalOffer
      | .answer => pc.setSig .stable
      | _ => pc
    (.suspended (.localStore d), pc1)

/-- First segment of a call. -/
def start (pc : Pc) : Call → Started × Pc
  | .createOffer km => (.done (createOffer pc km), pc)
  | .createAnswer => (.done (createAnswer pc), pc)
  | .setLocal d =>
    if d.type == .invalid then (.done .valueError, pc)
    else if pc.isClosed then (.done .invalidState, pc)
    else startApplyLocal pc d
  | .setLocalImplicit km =>
    if pc.isClosed then (.done .invalidState, pc)
    else
      match (if pc.sig == .haveRemoteOffer then createAnswer pc else createOffer pc km) with
      | .created d => startApplyLocal pc d
      | e => (.done e, pc)
  | .setRemote d =>
    if d.type == .invalid then (.done .valueError, pc)
    else match validate pc d false with
    | some e => (.done e, pc)
    | none => (.suspended (.remoteApply d), pc)
  | .close => (.done (close pc).1, (close pc).2)

/-- Second segment: the `__assertNotClosed()` after the `await`, then the rest of the method. -/
def resume (pc : Pc) : Pending → Res × Pc
  | .localStore d =>
    if pc.isClosed then (.invalidState, pc)
    else if d.type == .answer then (.ok, { pc with curLocal := some d, pendLocal := none })
    else (.ok, { pc with pendLocal := some d })
  | .remoteApply d =>
    if pc.isClosed then (.invalidState, pc) else
    let pc1 := match d.type with
      | .offer => pc.setSig .haveRemoteOffer
      | .answer => pc.setSig .stable
      | _ => pc
    if d.type == .answer then (.ok, { pc1 with curRemote := some d, pendRemote := none })
    else (.ok, { pc1 with pendRemote := some d })

/-- A call awaited on its own: first segment, then (nothing else running) the second one. -/
def seqStep (pc : Pc) (c : Call) : Res × Pc :=
  match start pc c with
  | (.done r, pc1) => (r, pc1)
  | (.suspended k, pc1) => resume pc1 k

/-- A call in flight. -/
inductive Flight where
  | fresh (c : Call)          -- issued, its first segment has not run yet
  | waiting (k : Pending)     -- suspended at its `await`
  | finished (r : Res)
  deriving DecidableEq, Repr, Inhabited

/-- Run the next segment of a call in flight (a finished call has none). -/
def Flight.advance (pc : Pc) : Flight → Flight × Pc
  | .fresh c =>
    match start pc c with
    | (.done r, pc1) => (.finished r, pc1)
    | (.suspended k, pc1) => (.waiting k, pc1)
  | .waiting k => let r := resume pc k; (.finished r.1, r.2)
  | .finished r => (.finished r, pc)

/-- Advance the `i`-th flight of the list (an index beyond the list does nothing). -/
def advanceAt (pc : Pc) : List Flight → Nat → List Flight × Pc
  | [], _ => ([], pc)
  | f :: fs, 0 => let r := f.advance pc; (r.1 :: fs, r.2)
  | f :: fs, i + 1 => let r := advanceAt pc fs i; (f :: r.1, r.2)

/-- Any number of calls in flight on one connection; the schedule says whose segment runs next. -/
def runMany (pc : Pc) (fl : List Flight) : List Nat → List Flight × Pc
  | [] => (fl, pc)
  | i :: sched => let r := advanceAt pc fl i; runMany r.2 r.1 sched

/-- Two calls in flight, scheduled by `sched` (0 = first call, 1 = second); whatever is still
pending at the end of the schedule then runs to completion (first call, then second). -/
def race (pc : Pc) (a b : Call) (sched : List Nat) : List Flight × Pc :=
  runMany pc [.fresh a, .fresh b] (sched ++ [0, 0, 1, 1])

end Aiortc.Model.Jsep
