/-!
# JSEP signalling of `RTCPeerConnection` (C14)

Executable model of the part of `src/aiortc/rtcpeerconnection.py` that decides whether a
`createOffer / createAnswer / setLocalDescription / setRemoteDescription / close` call is accepted and
what it does to `signalingState` and to the four description slots:

* `RTCSessionDescription.__post_init__`            (rtcsessiondescription.py:14-19)  → `DType.invalid`
* `__assertNotClosed`                              (rtcpeerconnection.py:1109-1111)
* `__validate_description`, order of checks kept   (rtcpeerconnection.py:1347-1412)
* `createAnswer` / `createOffer` guards            (548-560, 636-644)
* `setLocalDescription` explicit and implicit      (782-826, 870-875)
* `setRemoteDescription`                           (892-895, 1059-1070)
* `close`                                          (513-521)
* `__localDescription` / `__remoteDescription`     (`pending or current`)

A description is abstracted to what these guards inspect: its type, and per media section the kind,
the mid, presence of ICE user fragment / password, the class of the DTLS role (`a=setup` missing /
`actpass` / definite) and `a=rtcp-mux`; `id` is the identity of the description object (the harness
writes it into the `s=` line).  Everything the guards do **not** inspect (transceivers, codecs,
transports, candidates, the body of created offers) is outside the model; what `createOffer`
produces is an input (`Call.setLocalImplicit` carries the media list of the implicit offer).

The model is of the tree **with** `fixes/C14-dtls-params-missing.patch` (a media section without
`a=setup` ⇒ `ValueError` in `__validate_description`) and
`fixes/C14-answer-unmatched-transceiver.patch` (no exception between the state update and the
replacement of the description in `setLocalDescription(answer)`).  `checkMediaOrig` keeps the
unpatched check for the witness of defect #14.
-/
namespace Aiortc.Model.Jsep

/-- `signalingState`.  The two `pranswer` states occur in the guards of the real code although
nothing ever sets them. -/
inductive Sig where
  | stable | haveLocalOffer | haveRemoteOffer | haveLocalPranswer | haveRemotePranswer | closed
  deriving DecidableEq, Repr, Inhabited

/-- `RTCSessionDescription.type`; `invalid` = any string outside the four legal ones
(`__post_init__` raises `ValueError` before the connection is involved at all). -/
inductive DType where
  | offer | pranswer | answer | rollback | invalid
  deriving DecidableEq, Repr, Inhabited

/-- The `type` string of an `RTCSessionDescription` (`__post_init__`: anything outside the four legal
strings raises `ValueError`). -/
def DType.ofString : String → DType
  | "offer" => .offer | "pranswer" => .pranswer | "answer" => .answer | "rollback" => .rollback
  | _ => .invalid

inductive Kind where
  | audio | video | application
  deriving DecidableEq, Repr, Inhabited

/-- Class of `media.dtls`: `missing` = no `a=setup` (parser sets `media.dtls = None`),
`auto` = `actpass`, `definite` = `active`/`passive` (role `client`/`server`). -/
inductive Role where
  | missing | auto | definite
  deriving DecidableEq, Repr, Inhabited

structure Media where
  kind : Kind
  mid : String
  ufrag : Bool      -- `media.ice.usernameFragment` truthy
  pwd : Bool        -- `media.ice.password` truthy
  role : Role
  mux : Bool        -- `media.rtcp_mux`
  deriving DecidableEq, Repr, Inhabited

structure Desc where
  id : Nat
  type : DType
  media : List Media
  deriving DecidableEq, Repr, Inhabited

/-- What a call does as seen by the caller. -/
inductive Res where
  | ok                      -- returned normally (no description returned)
  | created (d : Desc)      -- `createOffer` / `createAnswer` returned `d`
  | invalidState            -- `InvalidStateError`
  | valueError              -- `ValueError`
  | crash (kind : String)   -- any other exception class
  deriving DecidableEq, Repr, Inhabited

structure Pc where
  sig : Sig := .stable                    -- `__signalingState`
  isClosed : Bool := false                -- `__isClosed` is not None
  curLocal : Option Desc := none          -- `__currentLocalDescription`
  pendLocal : Option Desc := none         -- `__pendingLocalDescription`
  curRemote : Option Desc := none         -- `__currentRemoteDescription`
  pendRemote : Option Desc := none        -- `__pendingRemoteDescription`
  events : Nat := 0                       -- number of `signalingstatechange` emissions so far
  deriving DecidableEq, Repr, Inhabited

def Pc.init : Pc := {}

/-- `__localDescription()`: `pending or current`. -/
def Pc.localDescription (pc : Pc) : Option Desc :=
  match pc.pendLocal with
  | some d => some d
  | none => pc.curLocal

/-- `__remoteDescription()`. -/
def Pc.remoteDescription (pc : Pc) : Option Desc :=
  match pc.pendRemote with
  | some d => some d
  | none => pc.curRemote

/-- `__setSignalingState`: assign and emit (also when the value does not change). -/
def Pc.setSig (pc : Pc) (s : Sig) : Pc := { pc with sig := s, events := pc.events + 1 }

/-- The state/type table at the head of `__validate_description` (true = no exception).
Types other than offer/answer are not checked at all. -/
def stateCheck (sig : Sig) (isLocal : Bool) (t : DType) : Bool :=
  match isLocal, t with
  | true, .offer => sig == .stable || sig == .haveLocalOffer
  | true, .answer => sig == .haveRemoteOffer || sig == .haveLocalPranswer
  | false, .offer => sig == .stable || sig == .haveRemoteOffer
  | false, .answer => sig == .haveLocalOffer || sig == .haveRemotePranswer
  | _, _ => true

/-- `description.type in ["answer", "pranswer"]`. -/
def DType.answerLike (t : DType) : Bool := t == .answer || t == .pranswer

def Kind.isRtp (k : Kind) : Bool := k == .audio || k == .video

/-- Body of the `for media in description.media` loop (patched tree): `none` = passes. -/
def checkMedia (t : DType) (m : Media) : Option Res :=
  if !m.ufrag || !m.pwd then some .valueError            -- ICE credentials
  else if m.role == .missing then some .valueError       -- fix C14-dtls-params-missing
  else if t.answerLike && m.role != .definite then some .valueError
  else if m.kind.isRtp && !m.mux then some .valueError   -- RTCP mux
  else none

/-- The same loop body on the unpatched tree: `media.dtls.role` with `media.dtls = None`. -/
def checkMediaOrig (t : DType) (m : Media) : Option Res :=
  if !m.ufrag || !m.pwd then some .valueError
  else if t.answerLike && m.role == .missing then some (.crash "AttributeError")
  else if t.answerLike && m.role != .definite then some .valueError
  else if m.kind.isRtp && !m.mux then some .valueError
  else none

/-- First failing media section, in order. -/
def checkAll (chk : Media → Option Res) : List Media → Option Res
  | [] => none
  | m :: ms => match chk m with
    | some e => some e
    | none => checkAll chk ms

/-- `[(media.kind, media.rtp.muxId) for media in d.media]`. -/
def mediaKeys (ms : List Media) : List (Kind × String) := ms.map fun m => (m.kind, m.mid)

/-- `__validate_description` (`none` = returns normally). -/
def validateWith (chk : DType → Media → Option Res) (pc : Pc) (d : Desc) (isLocal : Bool) : Option Res :=
  if !stateCheck pc.sig isLocal d.type then some .invalidState
  else match checkAll (chk d.type) d.media with
    | some e => some e
    | none =>
      if d.type.answerLike then
        match (if isLocal then pc.remoteDescription else pc.localDescription) with
        | none => some (.crash "AttributeError")      -- `offer.media` with `offer = None`
        | some offer =>
          if mediaKeys d.media != mediaKeys offer.media then some .valueError else none
      else none

def validate := validateWith checkMedia

/-- The media section `createAnswer` builds for a remote section: same kind and mid (the mid of the
transceiver / SCTP transport that `setRemoteDescription` matched to it), own ICE parameters, role
`client` or the already configured one (never `auto`), `a=rtcp-mux` on RTP sections only. -/
def answerMedia (m : Media) : Media :=
  { kind := m.kind, mid := m.mid, ufrag := true, pwd := true, role := .definite, mux := m.kind.isRtp }

/-- A media section as `createOffer` builds it. -/
def offerMedia (km : Kind × String) : Media :=
  { kind := km.1, mid := km.2, ufrag := true, pwd := true, role := .auto, mux := km.1.isRtp }

/-- The answer `createAnswer` builds for the remote description `r`; `id` 0 = not tagged by the harness. -/
def answerTo (r : Desc) : Desc := { id := 0, type := .answer, media := r.media.map answerMedia }

/-- The offer `createOffer` builds when the unmodelled part of the function comes up with sections `km`. -/
def offerOf (km : List (Kind × String)) : Desc := { id := 0, type := .offer, media := km.map offerMedia }

/-- `createAnswer`. -/
def createAnswer (pc : Pc) : Res :=
  if pc.isClosed then .invalidState
  else if !(pc.sig == .haveRemoteOffer || pc.sig == .haveLocalPranswer) then .invalidState
  else match pc.remoteDescription with
    | none => .crash "AttributeError"      -- `self.__remoteDescription().media` on `None`
    | some r => .created (answerTo r)

/-- `createOffer`. -/
def createOffer (pc : Pc) (km : List (Kind × String)) : Res :=
  if pc.isClosed then .invalidState
  else .created (offerOf km)

/-- `setLocalDescription` from "parse and validate description" on. -/
def applyLocal (pc : Pc) (d : Desc) : Res × Pc :=
  match validate pc d true with
  | some e => (e, pc)
  | none =>
    let pc1 := match d.type with
      | .offer => pc.setSig .haveLocalOffer
      | .answer => pc.setSig .stable
      | _ => pc
    -- (assign MIDs, roles, directions, gather: outside the model, no exception on the patched tree)
    if d.type == .answer then (.ok, { pc1 with curLocal := some d, pendLocal := none })
    else (.ok, { pc1 with pendLocal := some d })

/-- `setLocalDescription(sessionDescription)`. -/
def setLocal (pc : Pc) (d : Desc) : Res × Pc :=
  if d.type == .invalid then (.valueError, pc)     -- constructing the RTCSessionDescription fails
  else if pc.isClosed then (.invalidState, pc)
  else applyLocal pc d

/-- `setLocalDescription()` without argument. -/
def setLocalImplicit (pc : Pc) (km : List (Kind × String)) : Res × Pc :=
  if pc.isClosed then (.invalidState, pc)
  else
    match (if pc.sig == .haveRemoteOffer then createAnswer pc else createOffer pc km) with
    | .created d => applyLocal pc d
    | e => (e, pc)

/-- `setRemoteDescription(sessionDescription)`: the closed state is rejected by the state table for
offers and answers, and by the `__assertNotClosed()` that follows the application of the media
sections (before any signalling state or description is touched) for every other type. -/
def setRemote (pc : Pc) (d : Desc) : Res × Pc :=
  if d.type == .invalid then (.valueError, pc)
  else match validate pc d false with
  | some e => (e, pc)
  | none =>
    -- (apply media sections, bundle, candidates: outside the model)
    if pc.isClosed then (.invalidState, pc) else
    let pc1 := match d.type with
      | .offer => pc.setSig .haveRemoteOffer
      | .answer => pc.setSig .stable
      | _ => pc
    if d.type == .answer then (.ok, { pc1 with curRemote := some d, pendRemote := none })
    else (.ok, { pc1 with pendRemote := some d })

/-- `close()`. -/
def close (pc : Pc) : Res × Pc :=
  if pc.isClosed then (.ok, pc)
  else (.ok, { (pc.setSig .closed) with isClosed := true })

inductive Call where
  | createOffer (km : List (Kind × String))
  | createAnswer
  | setLocal (d : Desc)
  | setLocalImplicit (km : List (Kind × String))
  | setRemote (d : Desc)
  | close
  deriving DecidableEq, Repr, Inhabited

def step (pc : Pc) : Call → Res × Pc
  | .createOffer km => (createOffer pc km, pc)
  | .createAnswer => (createAnswer pc, pc)
  | .setLocal d => setLocal pc d
  | .setLocalImplicit km => setLocalImplicit pc km
  | .setRemote d => setRemote pc d
  | .close => close pc

/-- Run a call sequence; results in call order. -/
def run (pc : Pc) : List Call → List Res × Pc
  | [] => ([], pc)
  | c :: cs =>
    let r := step pc c
    let rest := run r.2 cs
    (r.1 :: rest.1, rest.2)

end Aiortc.Model.Jsep
