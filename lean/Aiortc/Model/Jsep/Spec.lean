import Aiortc.Model.Jsep.Signaling
/-!
# The JSEP signalling machine that C14 refers to (specification side)

RFC 8829 §3.2 / W3C webrtc-pc §4.3.1, without provisional answers and rollback (aiortc implements
neither): the state table `next`, what makes a description acceptable (`wellFormed`: ICE credentials,
rtcp-mux on RTP sections, a DTLS role, a definite one in an answer; `matchesOffer`: an answer has the
media sections of the offer it answers), and the effect of a call on the public state
`(signalingState, localDescription, remoteDescription)`.
-/
namespace Aiortc.Model.Jsep.Spec

inductive Verdict where
  | ok | invalidState | valueError
  deriving DecidableEq, Repr

/-- Public state of a connection. -/
structure St where
  sig : Sig
  loc : Option Desc
  rem : Option Desc
  deriving DecidableEq, Repr

/-- The JSEP state table: next state when a description of type `t` is applied locally / remotely. -/
def next : Sig → (isLocal : Bool) → DType → Option Sig
  | .stable, true, .offer => some .haveLocalOffer
  | .haveLocalOffer, true, .offer => some .haveLocalOffer
  | .haveRemoteOffer, true, .answer => some .stable
  | .stable, false, .offer => some .haveRemoteOffer
  | .haveRemoteOffer, false, .offer => some .haveRemoteOffer
  | .haveLocalOffer, false, .answer => some .stable
  | _, _, _ => none

def mediaOk (t : DType) (m : Media) : Bool :=
  m.ufrag && m.pwd && m.role != .missing && (!t.answerLike || m.role == .definite) && (!m.kind.isRtp || m.mux)

def wellFormed (d : Desc) : Bool := d.media.all (mediaOk d.type)

def matchesOffer (d : Desc) : Option Desc → Bool
  | some o => mediaKeys d.media == mediaKeys o.media
  | none => false

/-- `counterpart` = the description of the other side that an answer answers. -/
def acceptable (d : Desc) (counterpart : Option Desc) : Bool :=
  wellFormed d && (d.type != .answer || matchesOffer d counterpart)

def setDesc (s : St) (isLocal : Bool) (d : Desc) : Verdict × St :=
  if d.type = .invalid then (.valueError, s)
  else match next s.sig isLocal d.type with
    | none => (.invalidState, s)
    | some sig' =>
      if !acceptable d (if isLocal then s.rem else s.loc) then (.valueError, s)
      else if isLocal then (.ok, { s with sig := sig', loc := some d })
      else (.ok, { s with sig := sig', rem := some d })

def step (s : St) : Call → Verdict × St
  | .close => (.ok, { s with sig := .closed })
  | .createOffer _ => (if s.sig = .closed then .invalidState else .ok, s)
  | .createAnswer => (if s.sig = .haveRemoteOffer then .ok else .invalidState, s)
  | .setLocal d => setDesc s true d
  | .setRemote d => setDesc s false d
  | .setLocalImplicit km =>       -- "createAnswer if a remote offer is pending, else createOffer; then apply"
    if s.sig = .closed then (.invalidState, s)
    else match s.sig, s.rem with
      | .haveRemoteOffer, some r => (.ok, { s with sig := .stable, loc := some (answerTo r) })
      | .haveRemoteOffer, none => (.invalidState, s)
      | _, _ => (.ok, { s with sig := .haveLocalOffer, loc := some (offerOf km) })

def run (s : St) : List Call → List Verdict × St
  | [] => ([], s)
  | c :: cs =>
    let r := step s c
    let rest := run r.2 cs
    (r.1 :: rest.1, rest.2)

end Aiortc.Model.Jsep.Spec

namespace Aiortc.Model.Jsep

/-- The public state of a modelled connection: `signalingState`, `localDescription`, `remoteDescription`. -/
def Pc.obs (pc : Pc) : Spec.St := ⟨pc.sig, pc.localDescription, pc.remoteDescription⟩

/-- Result class of a call; an exception other than InvalidStateError / ValueError has none. -/
def Res.verdict : Res → Option Spec.Verdict
  | .ok => some .ok
  | .created _ => some .ok
  | .invalidState => some .invalidState
  | .valueError => some .valueError
  | .crash _ => none

def Res.failed : Res → Bool
  | .ok => false
  | .created _ => false
  | _ => true

/-- Types of the property's alphabet: offers and answers (and strings that are no type at all). -/
def DType.inAlphabet (t : DType) : Bool := t == .offer || t == .answer || t == .invalid

/-- Calls of the property's alphabet (no pranswer / rollback descriptions). -/
def Call.inAlphabet : Call → Bool
  | .setLocal d => d.type.inAlphabet
  | .setRemote d => d.type.inAlphabet
  | _ => true

/-- Invariant of every reachable state. -/
structure Inv (pc : Pc) : Prop where
  closed_iff : pc.isClosed = true ↔ pc.sig = .closed
  no_local_pranswer : pc.sig ≠ .haveLocalPranswer
  no_remote_pranswer : pc.sig ≠ .haveRemotePranswer
  remote_offer_present : pc.sig = .haveRemoteOffer → pc.remoteDescription ≠ none
  local_offer_present : pc.sig = .haveLocalOffer → pc.localDescription ≠ none

end Aiortc.Model.Jsep
