import Aiortc.Model.Jsep.Signaling
/-!
# Several connections in one process (C14, round 3)

Descriptions are VALUES in this model: a `Desc` stored in a slot of one connection is not an object that a later
call, another connection, or the application could change behind its back.  The real code owes that to
`sdp.SessionDescription.parse` building a fresh object per call and to the getters wrapping what is stored into a new
`RTCSessionDescription`; the harness checks it by handing texts that the connections already store back to them (under
every type, to the same peer, to the other peer, to a second pair living in the same process) and by overwriting
description objects after use.  `stepAt` / `runSys` say what "independent connections" means: a call is applied to the
connection it names, nothing else moves.
-/
namespace Aiortc.Model.Jsep

/-- A call on the `i`-th connection of the process (`none`: there is no such connection). -/
def stepAt (pcs : List Pc) (i : Nat) (c : Call) : Option (Res × List Pc) :=
  match pcs[i]? with
  | none => none
  | some pc => let r := step pc c; some (r.1, pcs.set i r.2)

/-- A sequence of calls, each naming its connection; calls naming a connection that does not exist are skipped. -/
def runSys (pcs : List Pc) : List (Nat × Call) → List Pc
  | [] => pcs
  | (i, c) :: cs =>
    match stepAt pcs i c with
    | none => runSys pcs cs
    | some r => runSys r.2 cs

/-- The calls of a trace that name connection `j`. -/
def callsOf (j : Nat) (cs : List (Nat × Call)) : List Call :=
  cs.filterMap fun ic => if ic.1 = j then some ic.2 else none

/-- The description `d` under another type (the same text labelled differently). -/
def Desc.relabel (d : Desc) (t : DType) : Desc := { d with type := t }

end Aiortc.Model.Jsep
