/-!
# `clock.py` — NTP timestamp conversions (integer core)

`datetime_to_ntp(dt)` works on `delta = dt - NTP_EPOCH`, a `timedelta` that Python keeps normalised as
`(days, seconds, microseconds)` with `0 ≤ seconds < 86400`, `0 ≤ microseconds < 10^6`.  Modelled for
`dt ≥ 1900-01-01` (`days ≥ 0`): `high = int(delta.total_seconds())` is `days·86400 + seconds` (the float
`total_seconds()` is exact enough for that below 2^32 s — checked by the correspondence, not proved),
`low = (microseconds · 2^32) // 10^6`, result `(high << 32) | low`.

`datetime_from_ntp(ntp)`: `seconds = ntp >> 32`, `microseconds = ((ntp & 0xFFFFFFFF) · 10^6) / 2^32` — a
float, but an exact one (the numerator is below 2^52 and the divisor a power of two) — which
`timedelta(...)` rounds to the nearest integer, ties to even, and normalises.
-/
namespace Aiortc.Model.Ntp

def high (days secs : Nat) : Nat := days * 86400 + secs

def low (micros : Nat) : Nat := (micros * 4294967296) / 1000000

/-- `datetime_to_ntp` on the normalised delta since the NTP epoch. -/
def toNtp (days secs micros : Nat) : Nat := (high days secs <<< 32) ||| low micros

/-- Round `n / d` to the nearest integer, ties to even (Python's `round` on the exact quotient). -/
def roundHalfEven (n d : Nat) : Nat :=
  if 2 * (n % d) < d then n / d else if d < 2 * (n % d) then n / d + 1 else if (n / d) % 2 = 0 then n / d else n / d + 1

/-- microseconds argument of the `timedelta` after rounding (may be 10^6) -/
def fromUs (ntp : Nat) : Nat := roundHalfEven ((ntp &&& 0xFFFFFFFF) * 1000000) 4294967296

/-- whole seconds since the epoch after normalisation -/
def fromTotal (ntp : Nat) : Nat := (ntp >>> 32) + fromUs ntp / 1000000

/-- `datetime_from_ntp`: the normalised `(days, seconds, microseconds)` of the result minus the NTP epoch. -/
def fromNtp (ntp : Nat) : Nat × Nat × Nat :=
  (fromTotal ntp / 86400, fromTotal ntp % 86400, fromUs ntp % 1000000)

/-- `(clock.current_ntp_time() >> 14) & 0x00FFFFFF` — the abs-send-time header extension set by `RTCRtpSender._run_rtp`
(6.18 fixed point seconds). -/
def absSendTime (ntp : Nat) : Nat := (ntp >>> 14) &&& 0x00FFFFFF

end Aiortc.Model.Ntp
