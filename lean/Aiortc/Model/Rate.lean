import Aiortc.Model.RateCounter
import Aiortc.Model.RateAimd
import Aiortc.Model.RateDelay
/-!
# RemoteBitrateEstimator.add (rate.py:509-579) and the REMB mantissa/exponent split (rtp.py:174-191)
-/
namespace Aiortc.Model.Rate
open Aiortc.Gen

structure Rbe where
  counter : RateCounter          -- incoming_bitrate
  counterInit : Bool             -- incoming_bitrate_initialized
  ia : InterArrival
  est : Estimator
  det : Detector
  aimd : Aimd
  lastUpdate : Option Int
  ssrcs : List (Int × Int)       -- dict ssrc -> arrival, insertion order

/-- `d[k] = v` on an insertion-ordered dict. -/
def dictSet (d : List (Int × Int)) (k v : Int) : List (Int × Int) :=
  match d with
  | [] => [(k, v)]
  | (k', v') :: rest => if k' = k then (k, v) :: rest else (k', v') :: dictSet rest k v

/-- `TIMESTAMP_TO_MS = 1000.0 / (1 << INTER_ARRIVAL_SHIFT)` -/
def timestampToMs : Float := 1000.0 / F.ofInt ((2 : Int) ^ RATE_INTER_ARRIVAL_SHIFT)

namespace Rbe

def new : Rbe :=
  { counter := RateCounter.new RATE_WINDOW_MS RATE_SCALE, counterInit := true,
    ia := { groupLength := ((RATE_TIMESTAMP_GROUP_LENGTH_MS : Int) * 2 ^ RATE_INTER_ARRIVAL_SHIFT) / 1000,
            timestampToMs := timestampToMs, current := none, previous := none },
    est := Estimator.new, det := Detector.new, aimd := Aimd.new, lastUpdate := none, ssrcs := [] }

/-- rate.py:531-537 — "update incoming bitrate". -/
def countStep (c : RateCounter) (init : Bool) (size now : Int) : Outcome (RateCounter × Bool) :=
  match c.rate now with
  | .ok (c1, r) =>
    let (c2, init2) :=
      if r.isSome then (c1, true)
      else if init then (c1.reset, false)
      else (c1, init)
    match c2.add size now with
    | .ok c3 => .ok (c3, init2)
    | .valueError => .valueError
    | .crash k => .crash k
    | .hang => .hang
  | .valueError => .valueError
  | .crash k => .crash k
  | .hang => .hang

/-- rate.py:539-557 — inter-arrival deltas, Kalman filter, detector. -/
def delayStep (ia : InterArrival) (est : Estimator) (det : Detector) (ts now size : Int) :
    Outcome (InterArrival × Estimator × Detector) :=
  match ia.computeDeltas ts now size with
  | .ok (ia1, none) => .ok (ia1, est, det)
  | .ok (ia1, some d) =>
    let tsDeltaMs := F.ofInt d.timestamp * timestampToMs
    match est.update d.arrival tsDeltaMs d.size det.hypothesis with
    | .ok est1 => .ok (ia1, est1, det.detect est1.offset tsDeltaMs est1.numDeltas now)
    | .valueError => .valueError
    | .crash k => .crash k
    | .hang => .hang
  | .valueError => .valueError
  | .crash k => .crash k
  | .hang => .hang

/-- rate.py:559-567 — is the rate controller consulted for this packet? -/
def wantsUpdate (lastUpdate : Option Int) (now : Int) (hyp : Usage) : Bool :=
  match lastUpdate with
  | none => true
  | some l => decide (now - l > (RATE_FEEDBACK_INTERVAL_MS : Int)) || decide (hyp = .overusing)

/-- `add(arrival_time_ms, abs_send_time, payload_size, ssrc)` -/
def add (s : Rbe) (now absSend size ssrc : Int) : Outcome (Rbe × Option (Int × List Int)) :=
  let ts := absSend * 256
  let ssrcs := dictSet s.ssrcs ssrc now
  match countStep s.counter s.counterInit size now with
  | .ok (c, cinit) =>
    match delayStep s.ia s.est s.det ts now size with
    | .ok (ia, est, det) =>
      let s1 : Rbe := { s with counter := c, counterInit := cinit, ia := ia, est := est, det := det,
                               ssrcs := ssrcs }
      if wantsUpdate s.lastUpdate now det.hypothesis then
        match c.rate now with
        | .ok (c', m) =>
          match s.aimd.update det.hypothesis m now with
          | .ok (aimd, some target) =>
            .ok ({ s1 with counter := c', aimd := aimd, lastUpdate := some now },
                 some (target, ssrcs.map Prod.fst))
          | .ok (aimd, none) => .ok ({ s1 with counter := c', aimd := aimd }, none)
          | .valueError => .valueError
          | .crash k => .crash k
          | .hang => .hang
        | .valueError => .valueError
        | .crash k => .crash k
        | .hang => .hang
      else .ok (s1, none)
    | .valueError => .valueError
    | .crash k => .crash k
    | .hang => .hang
  | .valueError => .valueError
  | .crash k => .crash k
  | .hang => .hang

end Rbe

/-! ## REMB mantissa / exponent (rtp.py:181-185), integers only -/

/-- `while mantissa > 0x3FFFF: mantissa >>= 1; exponent += 1` — fuelled; `none` = fuel exhausted. -/
def rembLoop : Nat → Int → Int → Option (Int × Int)
  | 0, _, _ => none
  | fuel + 1, mantissa, exponent =>
    if mantissa > 0x3FFFF then rembLoop fuel (mantissa / 2) (exponent + 1) else some (mantissa, exponent)

end Aiortc.Model.Rate
