import Aiortc.Model.RateFloat
import Aiortc.Gen.RateLit
/-!
# AimdRateControl (rate.py:35-182), with fixes/C15-near-max-zero-division.patch applied

The integer control flow (initialisation, HOLD/INCREASE/DECREASE machine, `_clamp_bitrate`) is written in
plain `Int`/`Bool` terms; every float-derived quantity is produced by a named helper
(`int15`, `round85`, `kbpsOf`, `multInc`, `framePackets`, `nearMaxTail`, `scale1000`, `increaseClear`,
`decreaseMax`).  The control flow (`updateWith`) takes these helpers as a parameter `fl : AimdFloats`; the
executable model is `update = updateWith realFloats`.  The theorems of Props/C15 hold for EVERY `fl`, so no
float operation is ever unfolded, and their hypotheses about float-derived integers are explicit.
All helpers return `Outcome` because Python raises on `int(inf)`, `int(nan)`, `x / 0`, `sqrt(<0)`.
-/
namespace Aiortc.Model.Rate

inductive Usage where
  | normal | underusing | overusing
  deriving DecidableEq, Repr, Inhabited

inductive RcState where
  | hold | increase | decrease
  deriving DecidableEq, Repr, Inhabited

structure Aimd where
  avgMax : Option Float        -- avg_max_bitrate_kbps
  varMax : Float               -- var_max_bitrate_kbps
  current : Int                -- current_bitrate
  initialized : Bool           -- current_bitrate_initialized
  firstTime : Option Int       -- first_estimated_throughput_time
  lastChange : Option Int      -- last_change_ms
  nearMax : Bool
  latest : Int                 -- latest_estimated_throughput
  rtt : Int
  state : RcState

namespace Aimd

def new : Aimd :=
  { avgMax := none, varMax := 0.4, current := Gen.RATE_INITIAL_BITRATE, initialized := false,
    firstTime := none, lastChange := none, nearMax := false, latest := Gen.RATE_INITIAL_THROUGHPUT,
    rtt := Gen.RATE_RTT_MS, state := .hold }

/-! ## float-derived quantities (opaque to the theorems) -/

/-- `int(1.5 * estimated_throughput)` -/
def int15 (m : Int) : Outcome Int := F.trunc? (1.5 * F.ofInt m)

/-- `round(0.85 * estimated_throughput)` -/
def round85 (m : Int) : Outcome Int := F.round? (0.85 * F.ofInt m)

/-- `estimated_throughput / 1000` -/
def kbpsOf (m : Int) : Outcome Float := F.intDiv m 1000

/-- `_multiplicative_rate_increase(new_bitrate, last_ms, now_ms)` -/
def multInc (newBitrate : Int) (last : Option Int) (now : Int) : Outcome Int :=
  let alpha : Outcome Float :=
    match last with
    | none => .ok 1.08
    | some l =>
      match F.intDiv (min (now - l) 1000) 1000 with
      | .ok e => F.pow? 1.08 e
      | .valueError => .valueError
      | .crash k => .crash k
      | .hang => .hang
  match alpha with
  | .ok alpha => F.trunc? (F.pyMax ((alpha - 1) * F.ofInt newBitrate) 1000)
  | .valueError => .valueError
  | .crash k => .crash k
  | .hang => .hang

/-- `math.ceil(bits_per_frame / (8 * 1200))` of `_near_max_rate_increase`, with `bits_per_frame`. -/
def framePackets (cur : Int) : Outcome (Float × Int) :=
  match F.intDiv cur 30 with
  | .ok bpf =>
    match F.ceil? (bpf / 9600) with
    | .ok p => .ok (bpf, p)
    | .valueError => .valueError
    | .crash k => .crash k
    | .hang => .hang
  | .valueError => .valueError
  | .crash k => .crash k
  | .hang => .hang

/-- `int((avg_packet_size_bits * 1000) / response_time)` with `avg_packet_size_bits = bits_per_frame / packets_per_frame` -/
def nearMaxTail (bpf : Float) (packets : Int) (resp : Int) : Outcome Int :=
  F.trunc? ((bpf / F.ofInt packets * 1000) / F.ofInt resp)

/-- `int(x / 1000)` for the int `x = (now_ms - last_ms) * near_max_rate_increase`. -/
def scale1000 (x : Int) : Outcome Int :=
  match F.intDiv x 1000 with
  | .ok f => F.trunc? f
  | .valueError => .valueError
  | .crash k => .crash k
  | .hang => .hang

/-- INCREASE branch, "clear estimated max throughput": new `(near_max, avg_max_bitrate_kbps)`. -/
def increaseClear (nearMax : Bool) (avgMax : Option Float) (varMax kbps : Float) :
    Outcome (Bool × Option Float) :=
  match avgMax with
  | none => .ok (nearMax, none)
  | some avg =>
    match F.sqrt? (varMax * avg) with
    | .ok sigma => if kbps ≥ avg + 3 * sigma then .ok (false, none) else .ok (nearMax, some avg)
    | .valueError => .valueError
    | .crash k => .crash k
    | .hang => .hang

/-- `_update_max_throughput_estimate(kbps)` on `(avg, var)`. -/
def updateMax (avgMax : Option Float) (varMax kbps : Float) : Outcome (Float × Float) :=
  let alpha : Float := 0.05
  let avg1 : Float :=
    match avgMax with
    | none => kbps
    | some avg => (1 - alpha) * avg + alpha * kbps
  let norm := F.pyMax 1 avg1
  match F.pow? (avg1 - kbps) 2 with
  | .ok sq =>
    match F.div? (alpha * sq) norm with
    | .ok t =>
      let var1 := (1 - alpha) * varMax + t
      .ok (avg1, F.pyMax 0.4 (F.pyMin var1 2.5))
    | .valueError => .valueError
    | .crash k => .crash k
    | .hang => .hang
  | .valueError => .valueError
  | .crash k => .crash k
  | .hang => .hang

/-- DECREASE branch float part: new `(avg_max_bitrate_kbps, var_max_bitrate_kbps)`. -/
def decreaseMax (avgMax : Option Float) (varMax kbps : Float) : Outcome (Float × Float) :=
  match avgMax with
  | none => updateMax none varMax kbps
  | some avg =>
    match F.sqrt? (varMax * avg) with
    | .ok sigma =>
      if kbps < avg - 3 * sigma then updateMax none varMax kbps else updateMax (some avg) varMax kbps
    | .valueError => .valueError
    | .crash k => .crash k
    | .hang => .hang

/-- The float-derived helpers, as a parameter of the integer control flow. -/
structure AimdFloats where
  int15 : Int → Outcome Int
  round85 : Int → Outcome Int
  kbpsOf : Int → Outcome Float
  multInc : Int → Option Int → Int → Outcome Int
  framePackets : Int → Outcome (Float × Int)
  nearMaxTail : Float → Int → Int → Outcome Int
  scale1000 : Int → Outcome Int
  increaseClear : Bool → Option Float → Float → Float → Outcome (Bool × Option Float)
  decreaseMax : Option Float → Float → Float → Outcome (Float × Float)

/-- The helpers the code really uses (IEEE-754 binary64). -/
def realFloats : AimdFloats :=
  ⟨int15, round85, kbpsOf, multInc, framePackets, nearMaxTail, scale1000, increaseClear, decreaseMax⟩

/-! ## integer control flow -/

/-- `_near_max_rate_increase()` — FIXED: `packets_per_frame = max(1, math.ceil(…))`.
The two divisions by an `int` raise `ZeroDivisionError` when the divisor is 0 (kept explicit). -/
def nearMaxInc (fl : AimdFloats) (cur rtt : Int) : Outcome Int :=
  match fl.framePackets cur with
  | .ok (bpf, p) =>
    let packets := max 1 p
    if packets = 0 then .crash "ZeroDivisionError"
    else if rtt + 100 = 0 then .crash "ZeroDivisionError"
    else
      match fl.nearMaxTail bpf packets (rtt + 100) with
      | .ok q => .ok (max 4000 q)
      | .valueError => .valueError
      | .crash k => .crash k
      | .hang => .hang
  | .valueError => .valueError
  | .crash k => .crash k
  | .hang => .hang

/-- `_near_max_rate_increase()` as it is on the pinned tree (no `max(1, …)`): only used by the theorem
`nearMaxInc_unfixed_zero_division` that documents the defect. -/
def nearMaxIncUnfixed (fl : AimdFloats) (cur rtt : Int) : Outcome Int :=
  match fl.framePackets cur with
  | .ok (bpf, p) =>
    if p = 0 then .crash "ZeroDivisionError"
    else if rtt + 100 = 0 then .crash "ZeroDivisionError"
    else
      match fl.nearMaxTail bpf p (rtt + 100) with
      | .ok q => .ok (max 4000 q)
      | .valueError => .valueError
      | .crash k => .crash k
      | .hang => .hang
  | .valueError => .valueError
  | .crash k => .crash k
  | .hang => .hang

/-- `_additive_rate_increase(last_ms, now_ms)`; `None - int` is a `TypeError`. -/
def additiveInc (fl : AimdFloats) (last : Option Int) (now cur rtt : Int) : Outcome Int :=
  match last with
  | none => .crash "TypeError"
  | some l =>
    match nearMaxInc fl cur rtt with
    | .ok r => fl.scale1000 ((now - l) * r)
    | .valueError => .valueError
    | .crash k => .crash k
    | .hang => .hang

/-- rate.py:65-70 — delayed initialisation from the first measured throughputs. -/
def initStep (a : Aimd) (est : Option Int) (now : Int) : Aimd :=
  if !a.initialized then
    match est with
    | some m =>
      match a.firstTime with
      | none => { a with firstTime := some now }
      | some t => if now - t > 3000 then { a with current := m, initialized := true } else a
    | none => a
  else a

/-- rate.py:80-89 — state machine. -/
def stateStep (a : Aimd) (u : Usage) (now : Int) : Aimd :=
  if u = .normal ∧ a.state = .hold then { a with lastChange := some now, state := .increase }
  else if u = .overusing then { a with state := .decrease }
  else if u = .underusing then { a with state := .hold }
  else a

/-- rate.py:93-96 — the throughput used for this update and the stored latest one. -/
def effective (a : Aimd) (est : Option Int) : Aimd × Int :=
  match est with
  | some m => ({ a with latest := m }, m)
  | none => (a, a.latest)

/-- `_clamp_bitrate(new_bitrate, estimated_throughput)` given `f15 = int(1.5 * estimated_throughput)`. -/
def clamp (cur newBitrate f15 : Int) : Int := min newBitrate (max (f15 + (Gen.RATE_CLAMP_OFFSET : Int)) cur)

/-- rate.py:99-140 — the state-dependent new bitrate. -/
def bitrateStep (fl : AimdFloats) (a : Aimd) (m : Int) (now : Int) : Outcome (Aimd × Int) :=
  match fl.kbpsOf m with
  | .ok kbps =>
    match a.state with
    | .increase =>
      match fl.increaseClear a.nearMax a.avgMax a.varMax kbps with
      | .ok (nm, avg) =>
        let inc := if nm then additiveInc fl a.lastChange now a.current a.rtt
                   else fl.multInc a.current a.lastChange now
        match inc with
        | .ok inc => .ok ({ a with nearMax := nm, avgMax := avg, lastChange := some now }, a.current + inc)
        | .valueError => .valueError
        | .crash k => .crash k
        | .hang => .hang
      | .valueError => .valueError
      | .crash k => .crash k
      | .hang => .hang
    | .decrease =>
      match fl.decreaseMax a.avgMax a.varMax kbps with
      | .ok (avg, var) =>
        match fl.round85 m with
        | .ok r =>
          .ok ({ a with avgMax := some avg, varMax := var, nearMax := true, lastChange := some now,
                        state := .hold }, r)
        | .valueError => .valueError
        | .crash k => .crash k
        | .hang => .hang
      | .valueError => .valueError
      | .crash k => .crash k
      | .hang => .hang
    | .hold => .ok (a, a.current)
  | .valueError => .valueError
  | .crash k => .crash k
  | .hang => .hang

/-- `update(bandwidth_usage, estimated_throughput, now_ms)`: new state and the returned value. -/
def updateWith (fl : AimdFloats) (a : Aimd) (u : Usage) (est : Option Int) (now : Int) :
    Outcome (Aimd × Option Int) :=
  let a1 := initStep a est now
  if !a1.initialized ∧ u ≠ .overusing then .ok (a1, none)
  else
    let a2 := stateStep a1 u now
    let (a3, m) := effective a2 est
    match bitrateStep fl a3 m now with
    | .ok (a4, nb) =>
      match fl.int15 m with
      | .ok f15 =>
        let cur := clamp a4.current nb f15
        .ok ({ a4 with current := cur }, some cur)
      | .valueError => .valueError
      | .crash k => .crash k
      | .hang => .hang
    | .valueError => .valueError
    | .crash k => .crash k
    | .hang => .hang

/-- `update(bandwidth_usage, estimated_throughput, now_ms)` with the real float helpers. -/
def update (a : Aimd) (u : Usage) (est : Option Int) (now : Int) : Outcome (Aimd × Option Int) :=
  updateWith realFloats a u est now

end Aimd
end Aiortc.Model.Rate
