import Aiortc.Model.Bytes
/-!
# RateCounter (rate.py:449-506) — integers only

`_buckets` is an `Array` of `window_size` buckets used as a ring buffer, `_total` the running sum.
Every Python operation that could raise is explicit (`IndexError` on a bucket access out of range,
`ZeroDivisionError` for `% 0`, `TypeError` for `None < int`); `Props/C15.lean` proves they are unreachable.

`_erase_old`'s loop `while self._origin_ms < new_origin_ms: …; self._origin_ms += 1` runs exactly
`max(0, new_origin_ms - origin_ms)` times (each iteration adds 1 to the only variable of the guard), so it
is modelled by iterating the loop body (`eraseStep`) that many times; `eraseOld_core` (Lemmas) proves the
new origin is `max(origin, now - W + 1)`, i.e. the guard is false afterwards.

`rate()` computes `round(scale * total.value / active_window_size)`: int·int, true division to a float,
`round` half-to-even.  The model rounds the exact rational half-to-even (`roundDivHalfEven`).  The two agree
whenever the quotient is below 2^40 and the divisor at most 1000 (a non-tie is at least 1/2000 away from a
tie, the float quotient is off by less than 2^-13, exact ties are representable); checked by correspondence.
-/
namespace Aiortc.Model.Rate

structure Bucket where
  count : Int
  value : Int
  deriving DecidableEq, Repr, Inhabited

namespace Bucket
def zero : Bucket := ⟨0, 0⟩
def add (a b : Bucket) : Bucket := ⟨a.count + b.count, a.value + b.value⟩
def sub (a b : Bucket) : Bucket := ⟨a.count - b.count, a.value - b.value⟩
end Bucket

structure RateCounter where
  originIndex : Nat
  originMs : Option Int
  scale : Int
  window : Nat
  buckets : Array Bucket
  total : Bucket
  deriving Repr

/-- Half-to-even rounding of the rational `a / b`, `b > 0` (what Python's `round(a / b)` yields). -/
def roundDivHalfEven (a b : Int) : Int :=
  let q := a / b          -- floor (b > 0)
  let r := a % b          -- 0 ≤ r < b
  if 2 * r < b then q
  else if 2 * r > b then q + 1
  else if q % 2 = 0 then q else q + 1

namespace RateCounter

/-- `RateCounter(window_size, scale)` (constructor + `reset()`). -/
def new (window : Nat) (scale : Int) : RateCounter :=
  { originIndex := 0, originMs := none, scale := scale, window := window,
    buckets := Array.replicate window Bucket.zero, total := Bucket.zero }

/-- `reset()`. -/
def reset (rc : RateCounter) : RateCounter :=
  { rc with buckets := Array.replicate rc.window Bucket.zero, originIndex := 0, originMs := none,
            total := Bucket.zero }

/-- One iteration of the body of `_erase_old`'s loop. -/
def eraseStep (rc : RateCounter) : Outcome RateCounter :=
  match rc.originMs with
  | none => .crash "TypeError"
  | some o =>
    match rc.buckets[rc.originIndex]? with
    | none => .crash "IndexError"
    | some b =>
      if rc.window = 0 then .crash "ZeroDivisionError" else
      .ok { rc with total := rc.total.sub b,
                    buckets := rc.buckets.setIfInBounds rc.originIndex Bucket.zero,
                    originIndex := (rc.originIndex + 1) % rc.window,
                    originMs := some (o + 1) }

def eraseN : Nat → RateCounter → Outcome RateCounter
  | 0, rc => .ok rc
  | n + 1, rc =>
    match eraseStep rc with
    | .ok rc' => eraseN n rc'
    | .valueError => .valueError
    | .crash k => .crash k
    | .hang => .hang

/-- `_erase_old(now_ms)`. -/
def eraseOld (rc : RateCounter) (now : Int) : Outcome RateCounter :=
  match rc.originMs with
  | none => .crash "TypeError"
  | some o => eraseN ((now - rc.window + 1) - o).toNat rc

/-- `add(value, now_ms)`. -/
def add (rc : RateCounter) (value now : Int) : Outcome RateCounter :=
  let rc1 : Outcome RateCounter :=
    match rc.originMs with
    | none => .ok { rc with originMs := some now }
    | some _ => eraseOld rc now
  match rc1 with
  | .ok rc1 =>
    match rc1.originMs with
    | none => .crash "TypeError"
    | some o =>
      if rc1.window = 0 then .crash "ZeroDivisionError" else
      let index := (((rc1.originIndex : Int) + now - o) % (rc1.window : Int)).toNat
      match rc1.buckets[index]? with
      | none => .crash "IndexError"
      | some b =>
        .ok { rc1 with buckets := rc1.buckets.setIfInBounds index ⟨b.count + 1, b.value + value⟩,
                       total := ⟨rc1.total.count + 1, rc1.total.value + value⟩ }
  | .valueError => .valueError
  | .crash k => .crash k
  | .hang => .hang

/-- `rate(now_ms)`: the (mutated) counter and the returned value. -/
def rate (rc : RateCounter) (now : Int) : Outcome (RateCounter × Option Int) :=
  match rc.originMs with
  | none => .ok (rc, none)
  | some _ =>
    match eraseOld rc now with
    | .ok rc1 =>
      match rc1.originMs with
      | none => .crash "TypeError"
      | some o =>
        let active := now - o + 1
        if rc1.total.count > 0 ∧ active > 1 then
          .ok (rc1, some (roundDivHalfEven (rc1.scale * rc1.total.value) active))
        else .ok (rc1, none)
    | .valueError => .valueError
    | .crash k => .crash k
    | .hang => .hang

end RateCounter
end Aiortc.Model.Rate
