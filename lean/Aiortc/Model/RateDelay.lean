import Aiortc.Model.RateFloat
import Aiortc.Model.RateAimd
import Aiortc.Gen.Rate
import Aiortc.Gen.Serial
/-!
# InterArrival, OveruseEstimator, OveruseDetector (rate.py:185-447)

Float recurrences, executed with Lean `Float` in exactly the association order of the Python source.
They are tied to the implementation by correspondence only (bit patterns of every float of the state
after every packet); no theorem unfolds them.
-/
namespace Aiortc.Model.Rate
open Aiortc.Gen

/-! ## InterArrival -/

structure Group where
  arrival : Option Int
  first : Int
  last : Int
  size : Int
  deriving Repr

structure Delta where
  timestamp : Int
  arrival : Int
  size : Int
  deriving Repr

structure InterArrival where
  groupLength : Int
  timestampToMs : Float
  current : Option Group
  previous : Option Group

namespace InterArrival

/-- `belongs_to_burst` -/
def belongsToBurst (ia : InterArrival) (g : Group) (ts arrival : Int) : Outcome Bool :=
  let tsDelta := uint32_add ts (-g.last)
  match F.round? (ia.timestampToMs * F.ofInt tsDelta) with
  | .ok tsDeltaMs =>
    match g.arrival with
    | none => .crash "TypeError"
    | some ga =>
      let arrDelta := arrival - ga
      .ok (tsDeltaMs = 0 ∨ (arrDelta - tsDeltaMs < 0 ∧ arrDelta ≤ (RATE_BURST_DELTA_THRESHOLD_MS : Int)))
  | .valueError => .valueError
  | .crash k => .crash k
  | .hang => .hang

/-- `new_timestamp_group` -/
def newTimestampGroup (ia : InterArrival) (g : Group) (ts arrival : Int) : Outcome Bool :=
  match belongsToBurst ia g ts arrival with
  | .ok true => .ok false
  | .ok false => .ok (uint32_add ts (-g.first) > ia.groupLength)
  | .valueError => .valueError
  | .crash k => .crash k
  | .hang => .hang

/-- `packet_out_of_order` -/
def outOfOrder (g : Group) (ts : Int) : Bool := uint32_add ts (-g.first) ≥ 0x80000000

/-- the tail of `compute_deltas`: `current_group.size += packet_size; current_group.arrival_time = …` -/
def account (ia : InterArrival) (g : Group) (arrival size : Int) : InterArrival :=
  { ia with current := some { g with size := g.size + size, arrival := some arrival } }

/-- `compute_deltas(timestamp, arrival_time, packet_size)` -/
def computeDeltas (ia : InterArrival) (ts arrival size : Int) : Outcome (InterArrival × Option Delta) :=
  match ia.current with
  | none => .ok (account ia ⟨none, ts, ts, 0⟩ arrival size, none)
  | some g =>
    if outOfOrder g ts then .ok (ia, none)
    else
      match newTimestampGroup ia g ts arrival with
      | .ok true =>
        let deltas : Outcome (Option Delta) :=
          match ia.previous with
          | none => .ok none
          | some p =>
            match g.arrival, p.arrival with
            | some ga, some pa =>
              .ok (some ⟨uint32_add g.last (-p.last), ga - pa, g.size - p.size⟩)
            | _, _ => .crash "TypeError"
        match deltas with
        | .ok d => .ok (account { ia with previous := some g } ⟨none, ts, ts, 0⟩ arrival size, d)
        | .valueError => .valueError
        | .crash k => .crash k
        | .hang => .hang
      | .ok false =>
        let g' := if uint32_gt ts g.last then { g with last := ts } else g
        .ok (account ia g' arrival size, none)
      | .valueError => .valueError
      | .crash k => .crash k
      | .hang => .hang

end InterArrival

/-! ## OveruseEstimator -/

structure Estimator where
  e00 : Float
  e01 : Float
  e10 : Float
  e11 : Float
  numDeltas : Int
  offset : Float
  prevOffset : Float
  slope : Float
  hist : List Float
  avgNoise : Float
  varNoise : Float
  pn0 : Float
  pn1 : Float

namespace Estimator

def new : Estimator :=
  { e00 := 100.0, e01 := 0.0, e10 := 0.0, e11 := 0.1, numDeltas := 0, offset := 0.0, prevOffset := 0.0,
    slope := 1.0 / 64.0, hist := [], avgNoise := 0.0, varNoise := 50.0, pn0 := 1e-13, pn1 := 1e-3 }

/-- `update_min_frame_period(ts_delta)`: new history and the minimum. -/
def updateMinFramePeriod (hist : List Float) (tsDelta : Float) : List Float × Float :=
  let hist1 := if hist.length ≥ RATE_MIN_FRAME_PERIOD_HISTORY_LENGTH then hist.drop 1 else hist
  let m := hist1.foldl (fun acc old => F.pyMin old acc) tsDelta
  (hist1 ++ [tsDelta], m)

/-- `update_noise_estimate(residual, ts_delta)`: new `(avg_noise, var_noise)`. -/
def updateNoise (numDeltas : Int) (avgNoise varNoise residual tsDelta : Float) : Outcome (Float × Float) :=
  let alpha : Float := if numDeltas > 10 * 30 then 0.002 else 0.01
  match F.pow? (1 - alpha) (tsDelta * 30.0 / 1000.0) with
  | .ok beta =>
    let avg := beta * avgNoise + (1 - beta) * residual
    match F.pow? (avg - residual) 2 with
    | .ok sq =>
      let var := beta * varNoise + (1 - beta) * sq
      .ok (avg, if var < 1 then 1 else var)
    | .valueError => .valueError
    | .crash k => .crash k
    | .hang => .hang
  | .valueError => .valueError
  | .crash k => .crash k
  | .hang => .hang

/-- the Kalman update proper (rate.py:406-421), after the noise estimate. -/
def kalman (s : Estimator) (h0 eh0 eh1 residual : Float) : Outcome Estimator :=
  let denom := s.varNoise + h0 * eh0 + 1.0 * eh1
  match F.div? eh0 denom, F.div? eh1 denom with
  | .ok k0, .ok k1 =>
    let i00 := 1.0 - k0 * h0
    let i01 := (-k0) * 1.0
    let i10 := (-k1) * h0
    let i11 := 1.0 - k1 * 1.0
    let e00 := s.e00
    let e01 := s.e01
    .ok { s with e00 := e00 * i00 + s.e10 * i01,
                 e01 := e01 * i00 + s.e11 * i01,
                 e10 := e00 * i10 + s.e10 * i11,
                 e11 := e01 * i10 + s.e11 * i11,
                 prevOffset := s.offset,
                 slope := s.slope + k0 * residual,
                 offset := s.offset + k1 * residual }
  | .crash k, _ => .crash k
  | _, .crash k => .crash k
  | _, _ => .valueError

/-- `update(time_delta_ms, timestamp_delta_ms, size_delta, current_hypothesis, now_ms)` -/
def update (s : Estimator) (timeDelta : Int) (tsDeltaMs : Float) (sizeDelta : Int) (hyp : Usage) :
    Outcome Estimator :=
  let (hist, minFramePeriod) := updateMinFramePeriod s.hist tsDeltaMs
  let tTsDelta := F.ofInt timeDelta - tsDeltaMs
  let h0 := F.ofInt sizeDelta
  let num := min (s.numDeltas + 1) (RATE_DELTA_COUNTER_MAX : Int)
  let e00 := s.e00 + s.pn0
  let e11a := s.e11 + s.pn1
  let e11 :=
    if (hyp = .overusing ∧ s.offset < s.prevOffset) ∨ (hyp = .underusing ∧ s.offset > s.prevOffset)
    then e11a + 10 * s.pn1 else e11a
  let eh0 := e00 * h0 + s.e01 * 1.0
  let eh1 := s.e10 * h0 + e11 * 1.0
  let residual := tTsDelta - s.slope * h0 - s.offset
  let s1 : Estimator := { s with hist := hist, numDeltas := num, e00 := e00, e11 := e11 }
  let s2 : Outcome Estimator :=
    if hyp = .normal then
      match F.sqrt? s1.varNoise with
      | .ok sq =>
        let maxResidual := 3.0 * sq
        let r := if residual.abs < maxResidual then residual
                 else if residual < 0 then -maxResidual else maxResidual
        match updateNoise num s1.avgNoise s1.varNoise r minFramePeriod with
        | .ok (avg, var) => .ok { s1 with avgNoise := avg, varNoise := var }
        | .valueError => .valueError
        | .crash k => .crash k
        | .hang => .hang
      | .valueError => .valueError
      | .crash k => .crash k
      | .hang => .hang
    else .ok s1
  match s2 with
  | .ok s2 => kalman s2 h0 eh0 eh1 residual
  | .valueError => .valueError
  | .crash k => .crash k
  | .hang => .hang

end Estimator

/-! ## OveruseDetector -/

structure Detector where
  hypothesis : Usage
  lastUpdate : Option Int
  kUp : Float
  kDown : Float
  overuseCounter : Int
  overuseTime : Option Float
  overuseTimeThreshold : Float
  prevOffset : Float
  threshold : Float

namespace Detector

def new : Detector :=
  { hypothesis := .normal, lastUpdate := none, kUp := 0.0087, kDown := 0.039, overuseCounter := 0,
    overuseTime := none, overuseTimeThreshold := 10, prevOffset := 0.0, threshold := 12.5 }

/-- `update_threshold(modified_offset, now_ms)` -/
def updateThreshold (d : Detector) (t : Float) (now : Int) : Detector :=
  let last := match d.lastUpdate with | none => now | some l => l
  if t.abs > d.threshold + F.ofInt (RATE_MAX_ADAPT_OFFSET_MS : Int) then { d with lastUpdate := some now }
  else
    let k := if t.abs < d.threshold then d.kDown else d.kUp
    let timeDelta := min (now - last) 100
    let thr := d.threshold + k * (t.abs - d.threshold) * F.ofInt timeDelta
    { d with threshold := F.pyMax 6 (F.pyMin thr 600), lastUpdate := some now }

/-- `detect(offset, timestamp_delta_ms, num_of_deltas, now_ms)` (the return value is ignored by the caller). -/
def detect (d : Detector) (offset tsDeltaMs : Float) (num : Int) (now : Int) : Detector :=
  if num < 2 then d
  else
    let t := F.ofInt (min num (RATE_MIN_NUM_DELTAS : Int)) * offset
    let d1 : Detector :=
      if t > d.threshold then
        let ot : Float := match d.overuseTime with
          | none => tsDeltaMs / 2
          | some x => x + tsDeltaMs
        let c := d.overuseCounter + 1
        if ot > d.overuseTimeThreshold ∧ c > 1 ∧ offset ≥ d.prevOffset then
          { d with overuseCounter := 0, overuseTime := some 0, hypothesis := .overusing }
        else { d with overuseCounter := c, overuseTime := some ot }
      else if t < -d.threshold then
        { d with overuseCounter := 0, overuseTime := none, hypothesis := .underusing }
      else
        { d with overuseCounter := 0, overuseTime := none, hypothesis := .normal }
    updateThreshold { d1 with prevOffset := offset } t now

end Detector
end Aiortc.Model.Rate
