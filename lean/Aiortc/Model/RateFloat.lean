import Aiortc.Model.Bytes
/-!
# Float helpers for the C15 model (rate.py) — executable only

Python `float` is IEEE-754 binary64, as is Lean's `Float`.  These helpers give the *Python* semantics of
the handful of float operations rate.py uses where it differs from Lean's defaults:

* `int(x)`, `round(x)` (half-to-even), `math.ceil(x)` return exact Python `int`s and raise on inf / NaN;
* `a / b` raises `ZeroDivisionError` for `b == 0`; `math.sqrt` raises `ValueError` for negatives;
* `max` / `min` follow Python's "keep the first unless the other is strictly better" rule (matters for NaN).

Nothing in `Props/C15.lean` unfolds any definition of this file: float-derived quantities appear in the
theorems as opaque terms constrained by explicit hypotheses.
-/
namespace Aiortc.Model.Rate.F

/-- Decode a finite float into `(negative, mantissa, exponent)` with `|x| = mantissa · 2^exponent`;
`none` for ±inf / NaN. Exact (bit-level). -/
def decode (x : Float) : Option (Bool × Nat × Int) :=
  let bits : Nat := x.toBits.toNat
  let neg := bits / 2 ^ 63 % 2 == 1
  let e : Nat := bits / 2 ^ 52 % 2048
  let frac : Nat := bits % 2 ^ 52
  if e == 2047 then none
  else if e == 0 then some (neg, frac, -1074)
  else some (neg, frac + 2 ^ 52, (e : Int) - 1075)

/-- Python `int(x)` for a float: truncation toward zero, `OverflowError` on ±inf, `ValueError` on NaN. -/
def trunc? (x : Float) : Outcome Int :=
  match decode x with
  | none => if x.isNaN then .valueError else .crash "OverflowError"
  | some (neg, m, e) =>
    let mag : Nat := if e ≥ 0 then m * 2 ^ e.toNat else m / 2 ^ (-e).toNat
    .ok (if neg then -(mag : Int) else (mag : Int))

/-- Python `math.ceil(x)`. -/
def ceil? (x : Float) : Outcome Int := trunc? x.ceil

/-- Python `round(x)` (one argument): round half to even, exact. `x - floor x` is exact in binary64. -/
def round? (x : Float) : Outcome Int :=
  match trunc? x.floor with
  | .ok f =>
    let d := x - x.floor
    if d < 0.5 then .ok f
    else if d > 0.5 then .ok (f + 1)
    else .ok (if f % 2 = 0 then f else f + 1)
  | e => e

/-- Python `float(n)` for an `int` (exact for |n| < 2^53, correctly rounded below 2^64). -/
def ofInt (n : Int) : Float := Float.ofInt n

/-- Python `a / b` for two `int`s (true division). Equals the float quotient when both are < 2^53. -/
def intDiv (a b : Int) : Outcome Float :=
  if b = 0 then .crash "ZeroDivisionError" else .ok (ofInt a / ofInt b)

/-- Python `a / b` for floats. -/
def div? (a b : Float) : Outcome Float :=
  if b == 0 then .crash "ZeroDivisionError" else .ok (a / b)

/-- Python `math.sqrt`. -/
def sqrt? (a : Float) : Outcome Float :=
  if a < 0 then .valueError else .ok a.sqrt

/-- Python `pow(a, b)` / `a ** b` on floats with a positive base (libm `pow` + overflow check). -/
def pow? (a b : Float) : Outcome Float :=
  let r := Float.pow a b
  if r.isInf && a.isFinite && b.isFinite then .crash "OverflowError" else .ok r

/-- Python `max(a, b)`: `b` only if `b > a`. -/
def pyMax (a b : Float) : Float := if b > a then b else a
/-- Python `min(a, b)`: `b` only if `b < a`. -/
def pyMin (a b : Float) : Float := if b < a then b else a

/-- Canonical 64-bit pattern of a float (all NaNs collapse to one value). -/
def bits (x : Float) : Nat := if x.isNaN then 0x7ff8000000000000 else x.toBits.toNat

end Aiortc.Model.Rate.F
