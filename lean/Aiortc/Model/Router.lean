import Aiortc.Model.Bytes
import Aiortc.Gen.Rtp
/-!
# Model of `RtpRouter` (src/aiortc/rtcdtlstransport.py) and of `rtp.unpack_remb_fci`

Receivers and senders are opaque identities (`Nat`); the router only ever compares them with `==`
/ hashes them.  A Python object that is registered both as a receiver and as a sender is outside
the model (receiver ids and sender ids live in disjoint name spaces, see `Recipient`).

* `dict`  → association list with unique keys; `dset` replaces in place or appends (Python
  insertion order), `dget` is `dict.get`, `ddiscard` is `RtpRouter.__discard`.
* `set`   → duplicate-free list; `sadd` appends if absent, `sdiscard` removes.  The code observes
  the order of a set only through `list(pt_receivers)[0]` when `len(pt_receivers) == 1`.
* SSRCs / payload types / report counts are `Nat` (wire values; `dict` keys compared with `==`).
* RTCP packets carry exactly the fields `route_rtcp` reads (`isinstance` tests become constructors).
-/
namespace Aiortc.Model.Router
open Aiortc

/-! ## Python `dict` / `set` -/

/-- `d.get(k)` -/
def dget {κ β} [DecidableEq κ] (k : κ) : List (κ × β) → Option β
  | [] => none
  | (k', v) :: t => if k' = k then some v else dget k t

/-- `d[k] = v` (existing key keeps its position, new key is appended). -/
def dset {κ β} [DecidableEq κ] (k : κ) (v : β) : List (κ × β) → List (κ × β)
  | [] => [(k, v)]
  | (k', v') :: t => if k' = k then (k, v) :: t else (k', v') :: dset k v t

/-- `RtpRouter.__discard(d, value)`: pop every key whose value `== value`. -/
def ddiscard {κ} (value : Nat) (d : List (κ × Nat)) : List (κ × Nat) :=
  d.filter (fun e => e.2 ≠ value)

/-- `s.add(x)` -/
def sadd (x : Nat) (s : List Nat) : List Nat := if x ∈ s then s else s ++ [x]

/-- `s.discard(x)` -/
def sdiscard (x : Nat) (s : List Nat) : List Nat := s.filter (· ≠ x)

/-! ## State -/

structure Router where
  receivers : List Nat                    -- set[RtpReceiver]
  senders : List (Nat × Nat)              -- dict[int, RtpSender]           ssrc ↦ sender
  midTable : List (String × Nat)          -- dict[str, RtpReceiver]
  ssrcTable : List (Nat × Nat)            -- dict[int, RtpReceiver]         ssrc ↦ receiver
  ptTable : List (Nat × List Nat)         -- dict[int, set[RtpReceiver]]    payload type ↦ receivers
  deriving Repr, DecidableEq

/-- `RtpRouter.__init__` -/
def Router.empty : Router := ⟨[], [], [], [], []⟩

/-- `self.payload_type_table.get(pt, set())` -/
def ptSet (tbl : List (Nat × List Nat)) (pt : Nat) : List Nat := (dget pt tbl).getD []

/-- One iteration of the `for payload_type in payload_types` loop of `register_receiver`. -/
def ptAdd (r pt : Nat) : List (Nat × List Nat) → List (Nat × List Nat)
  | [] => [(pt, sadd r [])]
  | (k, s) :: t => if k = pt then (k, sadd r s) :: t else (k, s) :: ptAdd r pt t

/-- `register_receiver(receiver, ssrcs, payload_types, mid)` -/
def registerReceiver (st : Router) (r : Nat) (ssrcs pts : List Nat) (mid : Option String) : Router :=
  { st with
    receivers := sadd r st.receivers
    midTable := match mid with
      | some m => dset m r st.midTable
      | none => st.midTable
    ssrcTable := ssrcs.foldl (fun t ssrc => dset ssrc r t) st.ssrcTable
    ptTable := pts.foldl (fun t pt => ptAdd r pt t) st.ptTable }

/-- `register_sender(sender, ssrc)` -/
def registerSender (st : Router) (s ssrc : Nat) : Router :=
  { st with senders := dset ssrc s st.senders }

/-- `unregister_receiver(receiver)` -/
def unregisterReceiver (st : Router) (r : Nat) : Router :=
  { st with
    receivers := sdiscard r st.receivers
    midTable := ddiscard r st.midTable
    ssrcTable := ddiscard r st.ssrcTable
    ptTable := st.ptTable.map (fun e => (e.1, sdiscard r e.2)) }

/-- `unregister_sender(sender)` -/
def unregisterSender (st : Router) (s : Nat) : Router :=
  { st with senders := ddiscard s st.senders }

/-- `route_rtp(packet)`; only `packet.ssrc` and `packet.payload_type` are read. -/
def routeRtp (st : Router) (ssrc pt : Nat) : Router × Option Nat :=
  let ptReceivers := ptSet st.ptTable pt
  match dget ssrc st.ssrcTable with
  | some r =>
    -- the SSRC and payload type are known and match / otherwise discard
    if r ∈ ptReceivers then (st, some r) else (st, none)
  | none =>
    -- the SSRC is unknown but the payload type matches, update the SSRC table
    match ptReceivers with
    | [r] => ({ st with ssrcTable := dset ssrc r st.ssrcTable }, some r)
    | _ => (st, none)

/-! ## RTCP -/

/-- The fields of the RTCP packet classes that `route_rtcp` reads. `reports` are the
`RtcpReceiverInfo.ssrc` values. -/
inductive Rtcp where
  | sr (ssrc : Nat) (reports : List Nat)
  | rr (ssrc : Nat) (reports : List Nat)
  | sdes (chunks : List Nat)
  | bye (sources : List Nat)
  | rtpfb (fmt ssrc mediaSsrc : Nat)
  | psfb (fmt ssrc mediaSsrc : Nat) (fci : Bytes)
  deriving Repr, DecidableEq

inductive Recipient where
  | receiver (r : Nat)
  | sender (s : Nat)
  deriving Repr, DecidableEq

/-- `recipients.add(x)` -/
def radd (x : Recipient) (s : List Recipient) : List Recipient := if x ∈ s then s else s ++ [x]

/-- `add_recipient(table.get(k))` -/
def addOpt (f : Nat → Recipient) (o : Option Nat) (acc : List Recipient) : List Recipient :=
  match o with
  | some x => radd (f x) acc
  | none => acc

/-- `for r in range(n): ssrcs.append(unpack_from("!L", data, pos)[0]); pos += 4` on `data[pos:]`. -/
def rembSsrcs : Nat → Bytes → Outcome (List Nat)
  | 0, _ => .ok []
  | n + 1, d =>
    match unpackU32? (d.take 4) with
    | none => .crash "struct.error"
    | some v =>
      match rembSsrcs n (d.drop 4) with
      | .ok l => .ok (v :: l)
      | e => e

/-- `rtp.unpack_remb_fci(data)` **with fixes/C12-remb-truncated-fci.patch**: a count that exceeds the
data is a `ValueError` (the unpatched code lets `struct.error` escape from `unpack_from`). -/
def unpackRembFci (data : Bytes) : Outcome (Nat × List Nat) :=
  match data with
  | a :: b :: c :: d :: n :: b5 :: b6 :: b7 :: rest =>
    if [a, b, c, d] ≠ [82, 69, 77, 66] then .valueError      -- data[0:4] != b"REMB"
    else if rest.length < 4 * n then .valueError             -- (patch) len(data) < 8 + 4 * data[4]
    else
      let exponent := (b5 &&& 0xFC) >>> 2
      let mantissa := ((b5 &&& 0x03) <<< 16) ||| (b6 <<< 8) ||| b7
      let bitrate := mantissa <<< exponent
      match rembSsrcs n rest with
      | .ok l => .ok (bitrate, l)
      | .valueError => .valueError
      | .crash k => .crash k
      | .hang => .hang
  | _ => .valueError                                         -- len(data) < 8

/-- The `try: for ssrc in unpack_remb_fci(fci)[1]: … except ValueError: pass` block: the SSRCs that
are looked up (`ok []` when a `ValueError` is swallowed); other exceptions escape. -/
def rembTargets (fci : Bytes) : Outcome (List Nat) :=
  match unpackRembFci fci with
  | .ok (_, l) => .ok l
  | .valueError => .ok []
  | .crash k => .crash k
  | .hang => .hang

/-- "route to RTP receiver" half of `route_rtcp`. -/
def rtcpReceiverPart (st : Router) (p : Rtcp) (acc : List Recipient) : List Recipient :=
  match p with
  | .sr ssrc _ => addOpt .receiver (dget ssrc st.ssrcTable) acc
  | .bye sources => sources.foldl (fun a s => addOpt .receiver (dget s st.ssrcTable) a) acc
  | _ => acc

/-- `for x in xs: add_recipient(self.senders.get(x))` -/
def addSenders (st : Router) (xs : List Nat) (acc : List Recipient) : List Recipient :=
  xs.foldl (fun a x => addOpt .sender (dget x st.senders) a) acc

/-- `route_rtcp(packet)`.  The router state is not modified. -/
def routeRtcp (st : Router) (p : Rtcp) : Outcome (List Recipient) :=
  let acc := rtcpReceiverPart st p []
  match p with
  | .rr _ reports => .ok (addSenders st reports acc)
  | .sr _ reports => .ok (addSenders st reports acc)
  | .rtpfb _ _ media => .ok (addSenders st [media] acc)
  | .psfb fmt _ media fci =>
    let acc := addSenders st [media] acc
    if fmt = Aiortc.Gen.RTCP_PSFB_APP then
      match rembTargets fci with
      | .ok l => .ok (addSenders st l acc)
      | .valueError => .valueError
      | .crash k => .crash k
      | .hang => .hang
    else .ok acc
  | _ => .ok acc

/-! ## Histories -/

inductive Op where
  | regReceiver (r : Nat) (ssrcs pts : List Nat) (mid : Option String)
  | regSender (s ssrc : Nat)
  | unregReceiver (r : Nat)
  | unregSender (s : Nat)
  | rtp (ssrc pt : Nat)
  | rtcp (p : Rtcp)
  deriving Repr, DecidableEq

/-- What the caller of one router method observes. -/
inductive Out where
  | unit
  | rtp (res : Option Nat)
  | rtcp (res : Outcome (List Recipient))
  deriving Repr, DecidableEq

def step (st : Router) : Op → Router × Out
  | .regReceiver r ssrcs pts mid => (registerReceiver st r ssrcs pts mid, .unit)
  | .regSender s ssrc => (registerSender st s ssrc, .unit)
  | .unregReceiver r => (unregisterReceiver st r, .unit)
  | .unregSender s => (unregisterSender st s, .unit)
  | .rtp ssrc pt => let (st', res) := routeRtp st ssrc pt; (st', .rtp res)
  | .rtcp p => (st, .rtcp (routeRtcp st p))

/-- Run a history; outputs in order. -/
def run (st : Router) : List Op → Router × List Out
  | [] => (st, [])
  | op :: ops =>
    let (st1, o) := step st op
    let (st2, os) := run st1 ops
    (st2, o :: os)

end Aiortc.Model.Router
