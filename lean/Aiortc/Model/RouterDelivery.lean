import Aiortc.Model.Router
/-!
# Model of the delivery loops of `RTCDtlsTransport` (src/aiortc/rtcdtlstransport.py)

```python
async def _handle_rtcp_data(self, data):
    packets = RtcpPacket.parse(data)                      # a compound datagram = a list of packets
    for packet in packets:
        for recipient in self._rtp_router.route_rtcp(packet):
            await recipient._handle_rtcp_packet(packet)

async def _handle_rtp_data(self, data, arrival_time_ms):
    packet = RtpPacket.parse(data, ...)
    receiver = self._rtp_router.route_rtp(packet)
    if receiver is not None:
        await receiver._handle_rtp_packet(packet, arrival_time_ms=arrival_time_ms)
```

Every `await` hands control to the handler of a receiver / sender — and, while that handler is suspended, to
any other task.  Either may change the routing tables (`RTCRtpReceiver.stop()` → `_unregister_rtp_receiver`,
`RTCRtpSender.stop()`, `addTrack` → `_register_rtp_*`).  What happens to the tables during a delivery is an
*input* of the model: a `Script` says which table operations are performed while endpoint `who` handles the
`nth` packet handed to it (by the handler itself or by another task while the handler awaits — the router
cannot tell the difference).

The iteration order of the `set` returned by `route_rtcp` is an input as well (`order`).

Parsing (`RtcpPacket.parse`, `RtpPacket.parse`), SRTP and the RTP/RTCP demultiplexer are not modelled here.
-/
namespace Aiortc.Model.Router
open Aiortc

/-- A change of the routing tables: the four `_register_rtp_*` / `_unregister_rtp_*` entry points. -/
inductive TableOp where
  | regReceiver (r : Nat) (ssrcs pts : List Nat) (mid : Option String)
  | regSender (s ssrc : Nat)
  | unregReceiver (r : Nat)
  | unregSender (s : Nat)
  deriving Repr, DecidableEq

def TableOp.toOp : TableOp → Op
  | .regReceiver r ssrcs pts mid => .regReceiver r ssrcs pts mid
  | .regSender s ssrc => .regSender s ssrc
  | .unregReceiver r => .unregReceiver r
  | .unregSender s => .unregSender s

/-- Perform one table operation on the router. -/
def applyTable (st : Router) (t : TableOp) : Router := (step st t.toOp).1

/-- While endpoint `who` handles the `nth` (1-based) packet handed to it, `ops` are performed on the
routing tables. -/
structure Script where
  who : Recipient
  nth : Nat
  ops : List TableOp
  deriving Repr, DecidableEq

/-- Transport state: the router plus how many packets each endpoint has been handed so far. -/
structure TState where
  router : Router
  seen : List (Recipient × Nat)
  deriving Repr, DecidableEq

def TState.fresh : TState := ⟨Router.empty, []⟩

def seenCount (seen : List (Recipient × Nat)) (who : Recipient) : Nat :=
  match dget who seen with
  | some n => n
  | none => 0

/-- The table operations performed while `who` handles its `n`-th packet. -/
def fire (scripts : List Script) (who : Recipient) (n : Nat) : List TableOp :=
  (scripts.filter (fun s => decide (s.who = who ∧ s.nth = n))).flatMap (·.ops)

/-- `await recipient._handle_*_packet(packet)`: the endpoint has seen one more packet, and the tables are
what they are when the `await` returns. -/
def deliver (scripts : List Script) (ts : TState) (who : Recipient) : TState :=
  let n := seenCount ts.seen who + 1
  { router := (fire scripts who n).foldl applyTable ts.router, seen := dset who n ts.seen }

/-- One iteration of `for packet in packets:` in `_handle_rtcp_data`: the packet is routed against the
tables as they are *now*, then handed to every recipient (in set iteration order `order`).  The second
component lists the deliveries made, in order; an exception escaping `route_rtcp` escapes the loop. -/
def rtcpPacket (scripts : List Script) (order : List Recipient → List Recipient) (ts : TState) (p : Rtcp) :
    TState × Outcome (List Recipient) :=
  match routeRtcp ts.router p with
  | .ok l => ((order l).foldl (deliver scripts) ts, .ok (order l))
  | .valueError => (ts, .valueError)
  | .crash k => (ts, .crash k)
  | .hang => (ts, .hang)

/-- `_handle_rtcp_data` after parsing: a fold over the packets of the datagram with the transport state
threaded through.  One output per packet processed; the loop ends at the first escaping exception. -/
def handleRtcpData (scripts : List Script) (order : List Recipient → List Recipient) (ts : TState) :
    List Rtcp → TState × List (Outcome (List Recipient))
  | [] => (ts, [])
  | p :: ps =>
    match rtcpPacket scripts order ts p with
    | (ts1, .ok l) =>
      let (ts2, os) := handleRtcpData scripts order ts1 ps
      (ts2, .ok l :: os)
    | (ts1, e) => (ts1, [e])

/-- `_handle_rtp_data` after parsing. -/
def handleRtpData (scripts : List Script) (ts : TState) (ssrc pt : Nat) : TState × Option Nat :=
  match routeRtp ts.router ssrc pt with
  | (st', some r) => (deliver scripts { ts with router := st' } (.receiver r), some r)
  | (st', none) => ({ ts with router := st' }, none)

/-! ## Histories at transport level -/

inductive TOp where
  | table (t : TableOp)                -- a table operation outside of any delivery
  | rtpData (ssrc pt : Nat)            -- one RTP datagram
  | rtcpData (pkts : List Rtcp)        -- one (compound) RTCP datagram
  deriving Repr, DecidableEq

inductive TOut where
  | unit
  | rtp (res : Option Nat)
  | rtcp (res : List (Outcome (List Recipient)))
  deriving Repr, DecidableEq

def tstep (scripts : List Script) (order : List Recipient → List Recipient) (ts : TState) : TOp → TState × TOut
  | .table t => ({ ts with router := applyTable ts.router t }, .unit)
  | .rtpData ssrc pt => let (ts', res) := handleRtpData scripts ts ssrc pt; (ts', .rtp res)
  | .rtcpData pkts => let (ts', res) := handleRtcpData scripts order ts pkts; (ts', .rtcp res)

def trun (scripts : List Script) (order : List Recipient → List Recipient) (ts : TState) :
    List TOp → TState × List TOut
  | [] => (ts, [])
  | op :: ops =>
    let (ts1, o) := tstep scripts order ts op
    let (ts2, os) := trun scripts order ts1 ops
    (ts2, o :: os)

end Aiortc.Model.Router
