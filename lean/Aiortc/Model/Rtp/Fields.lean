import Aiortc.Model.Bytes
import Aiortc.Gen.Rtp
/-!
# RTP/RTCP field codecs of `src/aiortc/rtp.py` (C07; reused by C05)

`pack/unpack_packets_lost`, `pack/unpack_remb_fci`, the generic-NACK FCI loops of
`RtcpRtpfbPacket.__bytes__/parse`, and the byte-level validity of `bytes.decode("utf8"/"ascii")`.

Conventions.  Parsers take ANY byte string and return `Outcome` (the exception kind that escapes).
Serialisers are plain functions, meaningful on the decidable well-formedness domain stated next to
them (`struct.pack` raises `struct.error` outside of it); the driver checks that domain before it
calls them.  Bit masks of single bytes are written arithmetically (`b & 0x80` ↦ `b / 128 % 2`).

The model is of the tree WITH fixes/C07-*.patch applied (see notes/C07.md).
-/
namespace Aiortc.Rtp
open Aiortc Aiortc.Outcome

/-! ## cumulative packets lost (24-bit signed) -/

/-- `pack("!l", count)[1:]`: `struct.error` outside the signed 32-bit range, else the low 3 bytes of
the two's complement. -/
def packLost (count : Int) : Outcome Bytes :=
  if -2147483648 ≤ count ∧ count < 2147483648 then ok (u24be (count % 16777216).toNat)
  else crash "struct.error"

/-- Sign extension of a 24-bit big-endian field. -/
def s24 (a b c : Nat) : Int :=
  if a / 128 % 2 = 1 then ((a * 256 + b) * 256 + c : Nat) - 16777216 else ((a * 256 + b) * 256 + c : Nat)

/-- `unpack_packets_lost(d)`: `d[0]` raises IndexError on empty input, `unpack("!l", x + d)` raises
struct.error unless `len(d) == 3`. -/
def unpackLost : Bytes → Outcome Int
  | [] => crash "IndexError"
  | [a, b, c] => ok (s24 a b c)
  | _ => crash "struct.error"

/-! ## REMB -/

/-- The normalisation loop `while mantissa > 0x3FFFF: mantissa >>= 1; exponent += 1`. -/
def rembNorm (m e : Nat) : Nat × Nat :=
  if h : m > 0x3FFFF then rembNorm (m / 2) (e + 1) else (m, e)
termination_by m
decreasing_by omega

/-- Domain on which `pack_remb_fci` does not raise `struct.error`. -/
def RembWF (bitrate : Nat) (ssrcs : List Nat) : Prop :=
  (rembNorm bitrate 0).2 < 64 ∧ ssrcs.length < 256 ∧ ∀ s ∈ ssrcs, s < 4294967296
instance fldDec1 (b : Nat) (s : List Nat) : Decidable (RembWF b s) := by unfold RembWF; infer_instance

/-- `pack_remb_fci(bitrate, ssrcs)`. -/
def packRemb (bitrate : Nat) (ssrcs : List Nat) : Bytes :=
  let me := rembNorm bitrate 0
  [82, 69, 77, 66] ++ [ssrcs.length, (me.2 <<< 2) ||| (me.1 >>> 16)] ++ u16be (me.1 % 65536)
    ++ ssrcs.flatMap u32be

/-- `count` consecutive big-endian 32-bit words (`unpack_from("!L", data, pos)` in a loop); the
callers have checked that `4 * count` bytes are there. -/
def readU32s : Nat → Bytes → List Nat
  | 0, _ => []
  | n + 1, d => beVal (d.take 4) :: readU32s n (d.drop 4)

/-- `unpack_remb_fci(data)` (with fixes/C07-remb-count.patch: a count that exceeds the data is a
ValueError instead of struct.error). -/
def unpackRemb (data : Bytes) : Outcome (Nat × List Nat) :=
  match data with
  | 82 :: 69 :: 77 :: 66 :: n :: b5 :: b6 :: b7 :: rest =>
    let exponent := b5 / 4 % 64
    let mantissa := (b5 % 4) * 65536 + b6 * 256 + b7
    if rest.length < 4 * n then valueError
    else ok (mantissa <<< exponent, readU32s n rest)
  | _ => valueError

/-! ## generic NACK FCI -/

/-- `(p - pid - 1) & 0xFFFF` (fixes/C07-nack-wrap.patch). -/
def nackDist (p pid : Nat) : Nat := (((p : Int) - pid - 1) % 65536).toNat

/-- The loop of `RtcpRtpfbPacket.__bytes__` over `self.lost[1:]` with state `(pid, blp)`, including the
final `pack("!HH", pid, blp)`. -/
def nackPack (pid blp : Nat) : List Nat → Bytes
  | [] => u16be pid ++ u16be blp
  | p :: ps =>
    if nackDist p pid < 16 then nackPack pid (blp ||| (1 <<< nackDist p pid)) ps
    else u16be pid ++ u16be blp ++ nackPack p 0 ps

/-- FCI bytes for `lost` (`if self.lost:`). Domain: every entry `< 65536`. -/
def serLost : List Nat → Bytes
  | [] => []
  | p :: ps => nackPack p 0 ps

/-- Bits of one `(pid, blp)` pair: `for d in range(16): if (blp >> d) & 1: (pid + d + 1) & 0xFFFF`. -/
def nackBits (pid blp : Nat) : List Nat :=
  (List.range 16).filterMap fun d => if blp.testBit d then some ((pid + d + 1) % 65536) else none

/-- `for pos in range(8, len(data), 4)` over the FCI (length is a multiple of 4, checked by caller). -/
def nackEntries : Bytes → List Nat
  | a :: b :: c :: d :: rest => (a * 256 + b) :: nackBits (a * 256 + b) (c * 256 + d) ++ nackEntries rest
  | _ => []

/-! ## `bytes.decode` validity -/

def isCont (c : Nat) : Bool := 0x80 ≤ c && c ≤ 0xBF

/-- `b.decode("utf8")` succeeds (strict: no overlong forms, no surrogates, ≤ U+10FFFF). -/
def validUtf8 : Bytes → Bool
  | [] => true
  | b :: rest =>
    if b < 0x80 then validUtf8 rest
    else if 0xC2 ≤ b ∧ b ≤ 0xDF then
      match rest with
      | c :: r => isCont c && validUtf8 r
      | _ => false
    else if 0xE0 ≤ b ∧ b ≤ 0xEF then
      match rest with
      | c1 :: c2 :: r =>
        (if b = 0xE0 then decide (0xA0 ≤ c1 ∧ c1 ≤ 0xBF)
         else if b = 0xED then decide (0x80 ≤ c1 ∧ c1 ≤ 0x9F) else isCont c1)
        && isCont c2 && validUtf8 r
      | _ => false
    else if 0xF0 ≤ b ∧ b ≤ 0xF4 then
      match rest with
      | c1 :: c2 :: c3 :: r =>
        (if b = 0xF0 then decide (0x90 ≤ c1 ∧ c1 ≤ 0xBF)
         else if b = 0xF4 then decide (0x80 ≤ c1 ∧ c1 ≤ 0x8F) else isCont c1)
        && isCont c2 && isCont c3 && validUtf8 r
      | _ => false
    else false

/-- `b.decode("ascii")` succeeds. -/
def validAscii (l : Bytes) : Bool := l.all (· < 128)

end Aiortc.Rtp
