import Aiortc.Model.Rtp.Rtcp
import Aiortc.Model.Rtp.Packet
/-!
# Histories of live RTP / RTCP objects (C07, round 3)

`Model/Rtp/*.lean` are pure functions of *values*.  The library works on mutable *objects*:

* a `HeaderExtensionsMap` is created once per DTLS transport and `configure()`d again every time another
  sender / receiver registers on the (bundled) transport, between uses of `get` / `set`;
* `RtpPacket` and the RTCP packet classes are plain mutable objects (a sender re-stamps and re-serialises a
  packet, the owner of a parsed packet appends to its lists).

This file is the reference semantics of such histories: a pool of maps, object slots and byte registers and
the operations the harness performs on live Python objects.  The state of a map after `k` calls of
`configure` is a function of the configure history alone (`configure`): every entry whose URI is known
overwrites the id of THAT extension, entries are processed in order (the last one wins), URIs without a
mapping are ignored, ids of extensions that are not mentioned stay (nothing is ever removed).
-/
namespace Aiortc.Rtp.Ops
open Aiortc Aiortc.Rtp Aiortc.Outcome

/-- The URIs `HeaderExtensionsMap.configure` knows, and "any other URI" (e.g. video-orientation). -/
inductive Uri where
  | absSendTime | audioLevel | mid | repairedRtpStreamId | rtpStreamId | transmissionOffset
  | transportSequenceNumber | other
  deriving DecidableEq, Repr

/-- One iteration of the `for ext in parameters.headerExtensions` loop (`if / elif` chain on `ext.uri`). -/
def configure1 (ids : ExtIds) (e : Uri × Nat) : ExtIds :=
  match e.1 with
  | .mid => { ids with mid := some e.2 }
  | .repairedRtpStreamId => { ids with repairedRtpStreamId := some e.2 }
  | .rtpStreamId => { ids with rtpStreamId := some e.2 }
  | .absSendTime => { ids with absSendTime := some e.2 }
  | .transmissionOffset => { ids with transmissionOffset := some e.2 }
  | .audioLevel => { ids with audioLevel := some e.2 }
  | .transportSequenceNumber => { ids with transportSequenceNumber := some e.2 }
  | .other => ids

/-- `HeaderExtensionsMap.configure(parameters)` on the id record. -/
def configure (ids : ExtIds) (l : List (Uri × Nat)) : ExtIds := l.foldl configure1 ids

/-- A live object: an `RtpPacket` (with the bytes `os.urandom` will deliver for its padding) or a list of
RTCP packets (a compound). -/
inductive Val where
  | rtp (p : RtpPacket) (pad : Bytes)
  | rtcp (ps : List RtcpPacket)
  deriving DecidableEq, Repr

structure Pool where
  maps : Nat → ExtIds := fun _ => {}
  objs : Nat → Option Val := fun _ => none
  regs : Nat → Bytes := fun _ => []

def upd {α} (f : Nat → α) (i : Nat) (a : α) : Nat → α := fun j => if j = i then a else f j

def Pool.empty : Pool := {}

inductive Op where
  /-- `HeaderExtensionsMap()` into map slot `m` -/
  | mnew (m : Nat)
  /-- `maps[m].configure(RTCRtpParameters(headerExtensions=l))` -/
  | cfg (m : Nat) (l : List (Uri × Nat))
  /-- the live object in slot `o` now has exactly these field values (a new object, every field of the
  existing object overwritten, or the owner of a parsed object modified it) -/
  | put (o : Nat) (v : Val)
  /-- `regs[b] = objs[o].serialize(maps[m])` resp. `b"".join(bytes(p) for p in objs[o])` -/
  | ser (o m b : Nat)
  /-- literal bytes into a register -/
  | raw (b : Nat) (d : Bytes)
  /-- `objs[o] = RtpPacket.parse(regs[b], maps[m])` -/
  | parseRtp (b m o : Nat)
  /-- `objs[o] = RtcpPacket.parse(regs[b])` -/
  | parseRtcp (b o : Nat)
  /-- `maps[m].set(values)` -/
  | mset (m : Nat) (e : HeaderExtensions)
  /-- `maps[m].get(profile, value)` -/
  | mget (m : Nat) (profile : Nat) (d : Bytes)
  deriving Repr

inductive Obs where
  | done
  /-- serialised bytes; `none`: the values are outside the domain of the serialiser / empty slot -/
  | bytes (r : Option Bytes)
  | rtp (r : Outcome RtpPacket)
  | rtcp (r : Outcome (List RtcpPacket))
  | ext (r : Outcome HeaderExtensions)
  | block (r : Option (Nat × Bytes))
  deriving DecidableEq, Repr

/-- `serialize` does not raise: packet in range, every configured id `< 256` (0 = not sent). -/
def rtpSerOk (ids : ExtIds) (p : RtpPacket) (pad : Bytes) : Prop :=
  p.WF ∧ (∀ i ∈ ids.toList.filterMap id, i < 256) ∧ pad.length = p.paddingSize - 1
instance (ids : ExtIds) (p : RtpPacket) (pad : Bytes) : Decidable (rtpSerOk ids p pad) := by
  unfold rtpSerOk; infer_instance

/-- What serialising a live object gives — a function of its CURRENT field values and of the CURRENT id
record of the map, nothing else. -/
def serVal (ids : ExtIds) : Val → Option Bytes
  | .rtp p pad => if rtpSerOk ids p pad then some (serialize ids p pad) else none
  | .rtcp ps => if ps.all (fun p => decide p.WF) then some (serCompound ps) else none

/-- The `padding_size - 1` bytes before the trailing count byte of a parsed packet. -/
def padOf (data : Bytes) (p : RtpPacket) : Bytes :=
  (data.drop (data.length - p.paddingSize)).take (p.paddingSize - 1)

def extSetOk (ids : ExtIds) (e : HeaderExtensions) : Prop :=
  e.WF ∧ ∀ i ∈ ids.toList.filterMap id, i < 256
instance (ids : ExtIds) (e : HeaderExtensions) : Decidable (extSetOk ids e) := by
  unfold extSetOk; infer_instance

def step (pool : Pool) : Op → Pool × Obs
  | .mnew m => ({ pool with maps := upd pool.maps m {} }, .done)
  | .cfg m l => ({ pool with maps := upd pool.maps m (configure (pool.maps m) l) }, .done)
  | .put o v => ({ pool with objs := upd pool.objs o (some v) }, .done)
  | .ser o m b =>
    let r := (pool.objs o).bind (serVal (pool.maps m))
    (match r with
     | some bs => { pool with regs := upd pool.regs b bs }
     | none => pool, .bytes r)
  | .raw b d => ({ pool with regs := upd pool.regs b d }, .done)
  | .parseRtp b m o =>
    let d := pool.regs b
    let r := parse (pool.maps m) d
    (match r with
     | .ok p => { pool with objs := upd pool.objs o (some (.rtp p (padOf d p))) }
     | _ => pool, .rtp r)
  | .parseRtcp b o =>
    let r := parseCompound (pool.regs b)
    (match r with
     | .ok ps => { pool with objs := upd pool.objs o (some (.rtcp ps)) }
     | _ => pool, .rtcp r)
  | .mset m e =>
    (pool, .block (if extSetOk (pool.maps m) e then some (extSet (pool.maps m) e) else none))
  | .mget m profile d => (pool, .ext (extGet (pool.maps m) profile d))

def exec (pool : Pool) : List Op → Pool
  | [] => pool
  | o :: os => exec (step pool o).1 os

def run (pool : Pool) : List Op → List Obs
  | [] => []
  | o :: os => (step pool o).2 :: run (step pool o).1 os

end Aiortc.Rtp.Ops
