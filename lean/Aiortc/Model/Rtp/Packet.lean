import Aiortc.Model.Rtp.Fields
/-!
# `RtpPacket`, header extensions and RTX of `src/aiortc/rtp.py` (C07; reused by C05)

`str` values (`mid`, `rid`, `rrid`) are represented by their UTF-8 / ASCII encodings (a `Bytes` that
satisfies `validUtf8` / `validAscii`): `encode` is the identity on that representation and `decode` is
the validity check (`UnicodeDecodeError` is a `ValueError`).  `version` is always 2 (set by the
constructor).  `os.urandom(padding_size - 1)` is the parameter `pad`.

The model is of the tree WITH fixes/C07-hdrext-length.patch and fixes/C07-toffset-width.patch.
-/
namespace Aiortc.Rtp
open Aiortc Aiortc.Outcome

structure HeaderExtensions where
  absSendTime : Option Nat := none
  audioLevel : Option (Bool × Nat) := none
  mid : Option Bytes := none
  repairedRtpStreamId : Option Bytes := none
  rtpStreamId : Option Bytes := none
  transmissionOffset : Option Int := none
  transportSequenceNumber : Option Nat := none
  deriving DecidableEq, Repr

/-- The private `__ids` of `HeaderExtensionsMap` (what `configure` stored). -/
structure ExtIds where
  absSendTime : Option Nat := none
  audioLevel : Option Nat := none
  mid : Option Nat := none
  repairedRtpStreamId : Option Nat := none
  rtpStreamId : Option Nat := none
  transmissionOffset : Option Nat := none
  transportSequenceNumber : Option Nat := none
  deriving DecidableEq, Repr

structure RtpPacket where
  marker : Nat := 0
  payloadType : Nat := 0
  sequenceNumber : Nat := 0
  timestamp : Nat := 0
  ssrc : Nat := 0
  csrc : List Nat := []
  extensions : HeaderExtensions := {}
  payload : Bytes := []
  paddingSize : Nat := 0
  deriving DecidableEq, Repr

/-! ## RFC 5285 containers -/

/-- One-byte-header loop of `unpack_header_extensions` on the remaining bytes. -/
def unpackOneByte (d : Bytes) : Outcome (List (Nat × Bytes)) :=
  match d with
  | [] => ok []
  | b :: rest =>
    if b = 0 then unpackOneByte rest
    else if rest.length < b % 16 + 1 then valueError
    else (unpackOneByte (rest.drop (b % 16 + 1))).bind fun xs =>
      ok ((b / 16 % 16, rest.take (b % 16 + 1)) :: xs)
termination_by d.length
decreasing_by all_goals (simp only [List.length_drop, List.length_cons]; omega)

/-- Two-byte-header loop. -/
def unpackTwoByte (d : Bytes) : Outcome (List (Nat × Bytes)) :=
  match d with
  | [] => ok []
  | b :: rest =>
    if b = 0 then unpackTwoByte rest
    else match rest with
      | [] => valueError
      | l :: rest' =>
        if rest'.length < l then valueError
        else (unpackTwoByte (rest'.drop l)).bind fun xs => ok ((b, rest'.take l) :: xs)
termination_by d.length
decreasing_by all_goals (simp only [List.length_drop, List.length_cons]; omega)

/-- `unpack_header_extensions(extension_profile, extension_value)`. Errors surface in the order the
code meets them (front to back), and every error is a ValueError, so evaluating the tail first is
unobservable. -/
def unpackHeaderExtensions (profile : Nat) (value : Bytes) : Outcome (List (Nat × Bytes)) :=
  if profile = 0xBEDE then unpackOneByte value
  else if profile = 0x1000 then unpackTwoByte value
  else ok []

/-- The form decision of `pack_header_extensions`. -/
def needsTwoByte (x : Nat × Bytes) : Bool := x.1 > 14 || x.2.length == 0 || x.2.length > 16

def padl (n : Nat) : Nat := 4 * ((n + 3) / 4) - n

def serOneByte (x : Nat × Bytes) : Bytes := [(x.1 <<< 4) ||| (x.2.length - 1)] ++ x.2
def serTwoByte (x : Nat × Bytes) : Bytes := [x.1, x.2.length] ++ x.2

/-- `pack_header_extensions(extensions)`; domain (asserted by the code): `0 < id < 256`, `len < 256`. -/
def packHeaderExtensions (exts : List (Nat × Bytes)) : Nat × Bytes :=
  if exts.isEmpty then (0, [])
  else if exts.any needsTwoByte then
    let v := exts.flatMap serTwoByte
    (0x1000, v ++ zeros (padl v.length))
  else
    let v := exts.flatMap serOneByte
    (0xBEDE, v ++ zeros (padl v.length))

/-! ## `HeaderExtensionsMap.get / set` -/

/-- One iteration of the `for x_id, x_value in …` loop of `get` (first matching `elif` wins). -/
def getStep (ids : ExtIds) (vals : HeaderExtensions) (x : Nat × Bytes) : Outcome HeaderExtensions :=
  if ids.mid = some x.1 then
    if validUtf8 x.2 then ok { vals with mid := some x.2 } else valueError
  else if ids.repairedRtpStreamId = some x.1 then
    if validAscii x.2 then ok { vals with repairedRtpStreamId := some x.2 } else valueError
  else if ids.rtpStreamId = some x.1 then
    if validAscii x.2 then ok { vals with rtpStreamId := some x.2 } else valueError
  else if ids.absSendTime = some x.1 then
    match x.2 with
    | [a, b, c] => ok { vals with absSendTime := some ((a * 256 + b) * 256 + c) }
    | _ => valueError
  else if ids.transmissionOffset = some x.1 then
    match x.2 with
    | [a, b, c] => ok { vals with transmissionOffset := some (s24 a b c) }
    | _ => valueError
  else if ids.audioLevel = some x.1 then
    match x.2 with
    | [v] => ok { vals with audioLevel := some (v / 128 % 2 == 1, v % 128) }
    | _ => valueError
  else if ids.transportSequenceNumber = some x.1 then
    match x.2 with
    | [a, b] => ok { vals with transportSequenceNumber := some (a * 256 + b) }
    | _ => valueError
  else ok vals

def getFold (ids : ExtIds) : HeaderExtensions → List (Nat × Bytes) → Outcome HeaderExtensions
  | vals, [] => ok vals
  | vals, x :: xs => (getStep ids vals x).bind fun v => getFold ids v xs

/-- `HeaderExtensionsMap.get(extension_profile, extension_value)`. -/
def extGet (ids : ExtIds) (profile : Nat) (value : Bytes) : Outcome HeaderExtensions :=
  (unpackHeaderExtensions profile value).bind fun xs => getFold ids {} xs

/-- `value is not None and self.__ids.x` (an id of 0 is falsy). -/
def emit {α} (id : Option Nat) (v : Option α) (enc : α → Bytes) : List (Nat × Bytes) :=
  match v, id with
  | some a, some i => if i = 0 then [] else [(i, enc a)]
  | _, _ => []

def encAudio (a : Bool × Nat) : Bytes := [(if a.1 then 0x80 else 0) ||| (a.2 % 128)]
def encOffset (v : Int) : Bytes := u24be (v % 16777216).toNat

/-- The list `HeaderExtensionsMap.set` hands to `pack_header_extensions`. -/
def extList (ids : ExtIds) (v : HeaderExtensions) : List (Nat × Bytes) :=
  emit ids.mid v.mid id ++ emit ids.repairedRtpStreamId v.repairedRtpStreamId id
    ++ emit ids.rtpStreamId v.rtpStreamId id ++ emit ids.absSendTime v.absSendTime u24be
    ++ emit ids.transmissionOffset v.transmissionOffset encOffset ++ emit ids.audioLevel v.audioLevel encAudio
    ++ emit ids.transportSequenceNumber v.transportSequenceNumber u16be

def extSet (ids : ExtIds) (v : HeaderExtensions) : Nat × Bytes := packHeaderExtensions (extList ids v)

/-! ## `RtpPacket.serialize / parse` -/

def b2n (b : Bool) : Nat := if b then 1 else 0

/-- `RtpPacket.serialize(extensions_map)`, `pad = os.urandom(padding_size - 1)`. -/
def serialize (ids : ExtIds) (p : RtpPacket) (pad : Bytes) : Bytes :=
  let ext := extSet ids p.extensions
  let hasExt := !ext.2.isEmpty
  let padding := decide (p.paddingSize > 0)
  [(2 <<< 6) ||| (b2n padding <<< 5) ||| (b2n hasExt <<< 4) ||| p.csrc.length, (p.marker <<< 7) ||| p.payloadType]
    ++ u16be p.sequenceNumber ++ u32be p.timestamp ++ u32be p.ssrc
    ++ p.csrc.flatMap u32be
    ++ (if hasExt then u16be ext.1 ++ u16be (ext.2.length >>> 2) ++ ext.2 else [])
    ++ p.payload
    ++ (if padding then pad ++ [p.paddingSize] else [])

/-- The `if extension:` block of `parse` on the bytes after the CSRC list: the extension values and
the bytes that follow the block. -/
def parseExtBlock (ids : ExtIds) (hasExt : Bool) (rest1 : Bytes) : Outcome (HeaderExtensions × Bytes) :=
  if hasExt then
    match rest1 with
    | p0 :: p1 :: l0 :: l1 :: rest2 =>
      let extLen := (l0 * 256 + l1) * 4
      if rest2.length < extLen then valueError
      else (extGet ids (p0 * 256 + p1) (rest2.take extLen)).bind fun e => ok (e, rest2.drop extLen)
    | _ => valueError
  else ok ({}, rest1)

/-- The `if padding:` block: `last = data[-1]`, `body = data[pos:]`; returns `(payload, padding_size)`. -/
def splitPadding (hasPad : Bool) (last : Nat) (body : Bytes) : Outcome (Bytes × Nat) :=
  if hasPad then
    if last = 0 ∨ last > body.length then valueError
    else ok (body.take (body.length - last), last)
  else ok (body, 0)

/-- `RtpPacket.parse(data, extensions_map)`. -/
def parse (ids : ExtIds) (data : Bytes) : Outcome RtpPacket :=
  match data with
  | b0 :: b1 :: s0 :: s1 :: t0 :: t1 :: t2 :: t3 :: r0 :: r1 :: r2 :: r3 :: rest =>
    let cc := b0 % 16
    if b0 / 64 ≠ 2 then valueError
    else if rest.length < 4 * cc then valueError
    else
      (parseExtBlock ids (b0 / 16 % 2 == 1) (rest.drop (4 * cc))).bind fun er =>
      -- data[-1]; data is not empty here
      (splitPadding (b0 / 32 % 2 == 1) (data.getLast?.getD 0) er.2).bind fun pp =>
      ok { marker := b1 / 128, payloadType := b1 % 128, sequenceNumber := s0 * 256 + s1,
           timestamp := ((t0 * 256 + t1) * 256 + t2) * 256 + t3,
           ssrc := ((r0 * 256 + r1) * 256 + r2) * 256 + r3,
           csrc := readU32s cc rest, extensions := er.1, payload := pp.1, paddingSize := pp.2 }
  | _ => valueError

/-! ## RTX (RFC 4588) -/

/-- `wrap_rtx(packet, payload_type, sequence_number, ssrc)`; domain `packet.sequence_number < 65536`. -/
def wrapRtx (p : RtpPacket) (payloadType sequenceNumber ssrc : Nat) : RtpPacket :=
  { marker := p.marker, payloadType := payloadType, sequenceNumber := sequenceNumber,
    timestamp := p.timestamp, ssrc := ssrc, csrc := p.csrc, extensions := p.extensions,
    payload := u16be p.sequenceNumber ++ p.payload, paddingSize := 0 }

/-- `unwrap_rtx(rtx, payload_type, ssrc)`: `unpack("!H", rtx.payload[0:2])` raises struct.error on a
payload shorter than 2 bytes (the receiver checks `len(packet.payload) < 2` before calling). -/
def unwrapRtx (rtx : RtpPacket) (payloadType ssrc : Nat) : Outcome RtpPacket :=
  match unpackU16? (rtx.payload.take 2) with
  | none => crash "struct.error"
  | some s => ok { marker := rtx.marker, payloadType := payloadType, sequenceNumber := s,
                   timestamp := rtx.timestamp, ssrc := ssrc, csrc := rtx.csrc,
                   extensions := rtx.extensions, payload := rtx.payload.drop 2, paddingSize := 0 }

/-! ## well-formedness = the domain on which `serialize` neither raises nor loses information -/

def HeaderExtensions.WF (v : HeaderExtensions) : Prop :=
  (∀ a ∈ v.absSendTime, a < 16777216) ∧ (∀ a ∈ v.audioLevel, a.2 < 128)
  ∧ (∀ m ∈ v.mid, IsBytes m ∧ validUtf8 m = true ∧ m.length < 256)
  ∧ (∀ m ∈ v.repairedRtpStreamId, IsBytes m ∧ validAscii m = true ∧ m.length < 256)
  ∧ (∀ m ∈ v.rtpStreamId, IsBytes m ∧ validAscii m = true ∧ m.length < 256)
  ∧ (∀ o ∈ v.transmissionOffset, -8388608 ≤ o ∧ o < 8388608)
  ∧ (∀ n ∈ v.transportSequenceNumber, n < 65536)
instance rtpDec1 (v : HeaderExtensions) : Decidable v.WF := by unfold HeaderExtensions.WF; infer_instance

/-- The ids in the order `get` tests them. -/
def ExtIds.toList (ids : ExtIds) : List (Option Nat) :=
  [ids.mid, ids.repairedRtpStreamId, ids.rtpStreamId, ids.absSendTime, ids.transmissionOffset,
   ids.audioLevel, ids.transportSequenceNumber]

/-- Two entries of the id record do not name the same id. -/
def OptNe (a b : Option Nat) : Prop := a = none ∨ b = none ∨ a ≠ b
instance rtpDecNe (a b : Option Nat) : Decidable (OptNe a b) := by unfold OptNe; infer_instance

/-- Configured ids are in 1..255 and pairwise distinct. -/
def ExtIds.WF (ids : ExtIds) : Prop :=
  (∀ o ∈ ids.toList, ∀ i ∈ o, 0 < i ∧ i < 256) ∧ ids.toList.Pairwise OptNe
instance rtpDecIds (ids : ExtIds) : Decidable ids.WF := by unfold ExtIds.WF; infer_instance

def RtpPacket.WF (p : RtpPacket) : Prop :=
  p.marker < 2 ∧ p.payloadType < 128 ∧ p.sequenceNumber < 65536 ∧ p.timestamp < 4294967296
  ∧ p.ssrc < 4294967296 ∧ p.csrc.length < 16 ∧ (∀ c ∈ p.csrc, c < 4294967296) ∧ p.extensions.WF
  ∧ IsBytes p.payload ∧ p.paddingSize < 256
instance rtpDec3 (p : RtpPacket) : Decidable p.WF := by unfold RtpPacket.WF; infer_instance

/-- What survives a round trip: values of extensions that have no (non-zero) id in the map are not sent. -/
def keep {α} (id : Option Nat) (v : Option α) : Option α :=
  match id with
  | some i => if i = 0 then none else v
  | none => none

def restrict (ids : ExtIds) (v : HeaderExtensions) : HeaderExtensions :=
  { absSendTime := keep ids.absSendTime v.absSendTime, audioLevel := keep ids.audioLevel v.audioLevel,
    mid := keep ids.mid v.mid, repairedRtpStreamId := keep ids.repairedRtpStreamId v.repairedRtpStreamId,
    rtpStreamId := keep ids.rtpStreamId v.rtpStreamId,
    transmissionOffset := keep ids.transmissionOffset v.transmissionOffset,
    transportSequenceNumber := keep ids.transportSequenceNumber v.transportSequenceNumber }

end Aiortc.Rtp
