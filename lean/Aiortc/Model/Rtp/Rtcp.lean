import Aiortc.Model.Rtp.Fields
/-!
# RTCP packet classes and `RtcpPacket.parse` of `src/aiortc/rtp.py` (C07; reused by C05)

Parsers that walk a buffer with an absolute `pos` only ever look at `data[pos:]`; they are modelled on
that remaining suffix (`len(data) < pos + k` ⇔ `rest.length < k`).
-/
namespace Aiortc.Rtp
open Aiortc Aiortc.Outcome

structure ReceiverInfo where
  ssrc : Nat
  fractionLost : Nat
  packetsLost : Int
  highestSequence : Nat
  jitter : Nat
  lsr : Nat
  dlsr : Nat
  deriving DecidableEq, Repr

structure SenderInfo where
  ntpTimestamp : Nat
  rtpTimestamp : Nat
  packetCount : Nat
  octetCount : Nat
  deriving DecidableEq, Repr

structure SourceInfo where
  ssrc : Nat
  items : List (Nat × Bytes)
  deriving DecidableEq, Repr

inductive RtcpPacket where
  | bye (sources : List Nat)
  | psfb (fmt ssrc mediaSsrc : Nat) (fci : Bytes)
  | rr (ssrc : Nat) (reports : List ReceiverInfo)
  | rtpfb (fmt ssrc mediaSsrc : Nat) (lost : List Nat)
  | sdes (chunks : List SourceInfo)
  | sr (ssrc : Nat) (info : SenderInfo) (reports : List ReceiverInfo)
  deriving DecidableEq, Repr

/-! ## serialisers (`__bytes__`) -/

/-- `pack_rtcp_packet(packet_type, count, payload)`; domain `count < 32`, `len(payload) % 4 == 0`
(asserted by the code), `len(payload) / 4 < 65536`. -/
def packRtcp (packetType count : Nat) (payload : Bytes) : Bytes :=
  [(2 <<< 6) ||| count, packetType] ++ u16be (payload.length / 4) ++ payload

/-- `pack_packets_lost` on its domain (signed 32 bit). -/
def lostBytes (count : Int) : Bytes := u24be (count % 16777216).toNat

def serReceiverInfo (r : ReceiverInfo) : Bytes :=
  u32be r.ssrc ++ [r.fractionLost] ++ lostBytes r.packetsLost
    ++ u32be r.highestSequence ++ u32be r.jitter ++ u32be r.lsr ++ u32be r.dlsr

def serSenderInfo (s : SenderInfo) : Bytes :=
  u64be s.ntpTimestamp ++ u32be s.rtpTimestamp ++ u32be s.packetCount ++ u32be s.octetCount

def serItem (it : Nat × Bytes) : Bytes := [it.1, it.2.length] ++ it.2

def serChunk (c : SourceInfo) : Bytes := u32be c.ssrc ++ c.items.flatMap serItem ++ [0, 0]

/-- `while len(payload) % 4: payload += b"\x00"`. -/
def pad4 (payload : Bytes) : Bytes := payload ++ zeros ((4 - payload.length % 4) % 4)

def serRtcp : RtcpPacket → Bytes
  | .bye sources => packRtcp Gen.RTCP_BYE sources.length (sources.flatMap u32be)
  | .psfb fmt ssrc media fci => packRtcp Gen.RTCP_PSFB fmt (u32be ssrc ++ u32be media ++ fci)
  | .rr ssrc reports => packRtcp Gen.RTCP_RR reports.length (u32be ssrc ++ reports.flatMap serReceiverInfo)
  | .rtpfb fmt ssrc media lost => packRtcp Gen.RTCP_RTPFB fmt (u32be ssrc ++ u32be media ++ serLost lost)
  | .sdes chunks => packRtcp Gen.RTCP_SDES chunks.length (pad4 (chunks.flatMap serChunk))
  | .sr ssrc info reports =>
    packRtcp Gen.RTCP_SR reports.length (u32be ssrc ++ serSenderInfo info ++ reports.flatMap serReceiverInfo)

def serCompound (ps : List RtcpPacket) : Bytes := ps.flatMap serRtcp

/-! ### well-formedness = the domain on which `__bytes__` neither raises nor loses information -/

def U32 (n : Nat) : Prop := n < 4294967296

def ReceiverInfo.WF (r : ReceiverInfo) : Prop :=
  U32 r.ssrc ∧ r.fractionLost < 256 ∧ (-8388608 ≤ r.packetsLost ∧ r.packetsLost < 8388608)
    ∧ U32 r.highestSequence ∧ U32 r.jitter ∧ U32 r.lsr ∧ U32 r.dlsr

def SenderInfo.WF (s : SenderInfo) : Prop :=
  s.ntpTimestamp < 18446744073709551616 ∧ U32 s.rtpTimestamp ∧ U32 s.packetCount ∧ U32 s.octetCount

def ItemWF (it : Nat × Bytes) : Prop := 0 < it.1 ∧ it.1 < 256 ∧ it.2.length < 256 ∧ IsBytes it.2

def SourceInfo.WF (c : SourceInfo) : Prop := U32 c.ssrc ∧ ∀ it ∈ c.items, ItemWF it

/-- Strictly ascending (what `sorted(set)` of the NACK generator produces). -/
def Ascending : List Nat → Prop
  | a :: b :: l => a < b ∧ Ascending (b :: l)
  | _ => True

def RtcpPacket.WF : RtcpPacket → Prop
  | .bye sources => sources.length < 32 ∧ ∀ s ∈ sources, U32 s
  | .psfb fmt ssrc media fci =>
    fmt < 32 ∧ U32 ssrc ∧ U32 media ∧ IsBytes fci ∧ fci.length % 4 = 0 ∧ (8 + fci.length) / 4 < 65536
  | .rr ssrc reports => U32 ssrc ∧ reports.length < 32 ∧ ∀ r ∈ reports, r.WF
  | .rtpfb fmt ssrc media lost =>
    fmt < 32 ∧ U32 ssrc ∧ U32 media ∧ (∀ p ∈ lost, p < 65536) ∧ (8 + (serLost lost).length) / 4 < 65536
  | .sdes chunks =>
    chunks.length < 32 ∧ (∀ c ∈ chunks, c.WF) ∧ (pad4 (chunks.flatMap serChunk)).length / 4 < 65536
  | .sr ssrc info reports => U32 ssrc ∧ info.WF ∧ reports.length < 32 ∧ ∀ r ∈ reports, r.WF

/-! ## parsers -/

/-- `RtcpReceiverInfo.parse(data)`; callers pass 24 bytes. -/
def parseReceiverInfo (d : Bytes) : Outcome ReceiverInfo :=
  if (d.take 5).length ≠ 5 then crash "struct.error"            -- unpack("!LB", data[0:5])
  else (unpackLost (slice d 5 8)).bind fun lost =>
    if (d.drop 8).length ≠ 16 then crash "struct.error"          -- unpack("!LLLL", data[8:])
    else ok {
      ssrc := beVal (slice d 0 4), fractionLost := beVal (slice d 4 5), packetsLost := lost,
      highestSequence := beVal (slice d 8 12), jitter := beVal (slice d 12 16),
      lsr := beVal (slice d 16 20), dlsr := beVal (slice d 20 24) }

/-- `for r in range(count): reports.append(RtcpReceiverInfo.parse(data[pos:pos+24])); pos += 24`. -/
def parseReports : Nat → Bytes → Outcome (List ReceiverInfo)
  | 0, _ => ok []
  | n + 1, d => (parseReceiverInfo (d.take 24)).bind fun r =>
      (parseReports n (d.drop 24)).bind fun rs => ok (r :: rs)

/-- `RtcpSenderInfo.parse(data[4:24])` (always 20 bytes: the caller checked the length). -/
def parseSenderInfo (d : Bytes) : Outcome SenderInfo :=
  if d.length ≠ 20 then crash "struct.error"
  else ok { ntpTimestamp := beVal (slice d 0 8), rtpTimestamp := beVal (slice d 8 12),
            packetCount := beVal (slice d 12 16), octetCount := beVal (slice d 16 20) }

/-- The inner `while pos < len(data) - 1` item loop of `RtcpSdesPacket.parse` on the remaining
bytes; returns the items and what is left after the chunk. -/
def parseItems (d : Bytes) (acc : List (Nat × Bytes)) : Outcome (List (Nat × Bytes) × Bytes) :=
  match d with
  | t :: l :: rest =>
    if rest.length < l then valueError
    else if t = 0 then ok (acc, rest.drop l)
    else parseItems (rest.drop l) (acc ++ [(t, rest.take l)])
  | _ => ok (acc, d)
termination_by d.length
decreasing_by simp only [List.length_drop, List.length_cons]; omega

def parseChunks : Nat → Bytes → Outcome (List SourceInfo)
  | 0, _ => ok []
  | n + 1, d =>
    if d.length < 4 then valueError
    else (parseItems (d.drop 4) []).bind fun ir =>
      (parseChunks n ir.2).bind fun cs => ok ({ ssrc := beVal (d.take 4), items := ir.1 } :: cs)

/-- Dispatch on the packet type after padding removal; unknown types are skipped (`none`). -/
def parseBody (packetType count : Nat) (payload : Bytes) : Outcome (Option RtcpPacket) :=
  if packetType = Gen.RTCP_BYE then
    if payload.length < 4 * count then valueError else ok (some (.bye (readU32s count payload)))
  else if packetType = Gen.RTCP_SDES then
    (parseChunks count payload).bind fun cs => ok (some (.sdes cs))
  else if packetType = Gen.RTCP_SR then
    if payload.length ≠ 24 + 24 * count then valueError
    else (parseSenderInfo (slice payload 4 24)).bind fun si =>
      (parseReports count (payload.drop 24)).bind fun rs =>
        ok (some (.sr (beVal (payload.take 4)) si rs))
  else if packetType = Gen.RTCP_RR then
    if payload.length ≠ 4 + 24 * count then valueError
    else (parseReports count (payload.drop 4)).bind fun rs => ok (some (.rr (beVal (payload.take 4)) rs))
  else if packetType = Gen.RTCP_RTPFB then
    if payload.length < 8 ∨ payload.length % 4 ≠ 0 then valueError
    else ok (some (.rtpfb count (beVal (payload.take 4)) (beVal (slice payload 4 8)) (nackEntries (payload.drop 8))))
  else if packetType = Gen.RTCP_PSFB then
    if payload.length < 8 then valueError
    else ok (some (.psfb count (beVal (payload.take 4)) (beVal (slice payload 4 8)) (payload.drop 8)))
  else ok none

/-- Padding removal: `if not payload or not payload[-1] or payload[-1] > len(payload)`. -/
def stripPadding (payload : Bytes) : Outcome Bytes :=
  match payload.getLast? with
  | none => valueError
  | some n => if n = 0 ∨ n > payload.length then valueError else ok (payload.take (payload.length - n))

/-- `RtcpPacket.parse(data)` on the remaining bytes `data[pos:]`. -/
def parseCompound (d : Bytes) : Outcome (List RtcpPacket) :=
  match d with
  | [] => ok []
  | b0 :: pt :: l1 :: l2 :: rest =>
    let length := l1 * 256 + l2
    if b0 / 64 ≠ 2 then valueError
    else if rest.length < length * 4 then valueError
    else
      ((if b0 / 32 % 2 = 1 then stripPadding (rest.take (length * 4)) else ok (rest.take (length * 4))).bind
        fun payload => parseBody pt (b0 % 32) payload).bind fun p =>
      (parseCompound (rest.drop (length * 4))).bind fun ps => ok (p.toList ++ ps)
  | _ => valueError
termination_by d.length
decreasing_by simp only [List.length_drop, List.length_cons]; omega

instance rtcpDec1 (r : ReceiverInfo) : Decidable r.WF := by unfold ReceiverInfo.WF U32; infer_instance
instance rtcpDec2 (s : SenderInfo) : Decidable s.WF := by unfold SenderInfo.WF U32; infer_instance
instance rtcpDec3 (it : Nat × Bytes) : Decidable (ItemWF it) := by unfold ItemWF; infer_instance
instance rtcpDec4 (c : SourceInfo) : Decidable c.WF := by unfold SourceInfo.WF U32; infer_instance
instance rtcpDec5 (p : RtcpPacket) : Decidable p.WF := by
  cases p <;> (unfold RtcpPacket.WF U32; infer_instance)

end Aiortc.Rtp
