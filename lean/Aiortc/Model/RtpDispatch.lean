import Aiortc.Model.Rtp.Packet
import Aiortc.Model.Rtp.Rtcp
import Aiortc.Model.Router
import Aiortc.Model.H264
import Aiortc.Model.Vp8
import Aiortc.Model.Jitter
import Aiortc.Model.Stats
import Aiortc.Gen.Serial
/-!
# The media receive path around the wire parsers (C05, RTP/RTCP/codec part) — no Mathlib

```
RTCDtlsTransport._recv_next            → recvNext        (demultiplexing on the first two bytes, SRTP unprotect)
RTCDtlsTransport._handle_rtp_data      → handleRtpData   (RtpPacket.parse, `except ValueError`, RtpRouter.route_rtp)
RTCDtlsTransport._handle_rtcp_data     → handleRtcpData  (RtcpPacket.parse, `except ValueError`, RtpRouter.route_rtcp)
RTCRtpReceiver._handle_rtp_packet      → Receiver.handleRtp
RTCRtpReceiver._handle_rtcp_packet     → Receiver.handleRtcp
RTCRtpSender._handle_rtcp_packet       → Sender.handleRtcp   (+ `_retransmit`, `_send_keyframe`)
NackGenerator.add / truncate           → Nack.add
TimestampMapper.map                    → TsMap.map
codecs.depayload                       → depayloadFor
```

The model is of the tree WITH fixes/C05b-empty-datagram.patch (an empty datagram is ignored instead of raising
`IndexError` out of `_recv_next`) and fixes/C05b-nack-generator-jump.patch (the NACK generator starts marking
at most `RTP_HISTORY_SIZE` packets back); `recvNextUnfixed` / `Nack.addUnfixed` keep the pinned behaviour for
the witness theorems.

Re-used component models: `Rtp.parse`, `Rtp.parseCompound`, `Rtp.unpackRemb` (C07), `Router.routeRtp/routeRtcp`
(C12), `H264.depayload`, `Vp8.depayload` (C16), `Jitter.add` (C10), `Stats.Receiver.rtp/sr` (C18).

Inputs of the model (not computed here): the result of `RemoteBitrateEstimator.add` + `pack_remb_fci` for
this packet (`rbeOut`: C15 covers the estimator; floats are outside), the value of `time.time() * clockrate`
(`clock`), SRTP authentication (`unprotect`).  DTLS records (first byte 20..63) go to OpenSSL and from there
to the SCTP part of C05; here they are a no-op.

Everything a handler does to the outside world is an `Effect`, in program order.
-/
namespace Aiortc.Model.RtpDispatch
open Aiortc Aiortc.Gen Aiortc.Rtp
open Aiortc.Model

/-! ## Codecs -/

/-- What `_handle_rtp_packet` and `depayload` look at in an `RTCRtpCodecParameters`: the name, and for RTX the
`apt` parameter when it is an `int` (`isinstance(apt, int)`). -/
inductive CodecKind where
  | vp8
  | h264
  | rtx (apt : Option Nat)
  | other
  deriving DecidableEq, Repr

structure Codec where
  kind : CodecKind
  clockRate : Nat
  deriving DecidableEq, Repr

def CodecKind.isRtx : CodecKind → Bool
  | .rtx _ => true
  | _ => false

/-- `codecs.depayload(codec, payload)`. -/
def depayloadFor (k : CodecKind) (payload : Bytes) : Outcome Bytes :=
  match k with
  | .vp8 => Vp8.depayload payload
  | .h264 => H264.depayload payload
  | _ => .ok payload

/-! ## NackGenerator -/

structure Nack where
  maxSeq : Option Int := none
  missing : List Int := []          -- a Python set: only observed through `sorted(...)`
  deriving DecidableEq, Repr

def setAdd (x : Int) (s : List Int) : List Int := if x ∈ s then s else s ++ [x]

/-- `while uint16_gt(packet.sequence_number, seq): missing.add(seq); missed = True; seq = uint16_add(seq, 1)`;
returns the set and the number of iterations. -/
def nackLoop (p : Int) : Nat → Int → List Int → Nat → Outcome (List Int × Nat)
  | 0, _, _, _ => .hang
  | fuel + 1, seq, missing, n =>
    if uint16_gt p seq then nackLoop p fuel (uint16_add seq 1) (setAdd seq missing) (n + 1)
    else .ok (missing, n)

/-- `NackGenerator.truncate()`. -/
def nackTruncate (maxSeq : Int) (missing : List Int) : List Int :=
  let minSeq := uint16_add maxSeq (-(RTP_HISTORY_SIZE : Int))
  missing.filter fun s => !uint16_gt minSeq s

/-- First sequence number the marking loop starts from (fixes/C05b-nack-generator-jump.patch). -/
def nackStart (p maxSeq : Int) : Int :=
  let seq := uint16_add maxSeq 1
  let oldest := uint16_add p (-(RTP_HISTORY_SIZE : Int))
  if uint16_gt oldest seq then oldest else seq

/-- `NackGenerator.add(packet)` → `(generator, missed, loop iterations)`.  `fuel` bounds the `while` loop. -/
def Nack.addWith (fuel : Nat) (start : Int → Int → Int) (g : Nack) (p : Int) : Outcome (Nack × Bool × Nat) :=
  match g.maxSeq with
  | none => .ok ({ g with maxSeq := some p }, false, 0)
  | some m =>
    if uint16_gt p m then
      match nackLoop p fuel (start p m) g.missing 0 with
      | .ok (missing, n) => .ok ({ maxSeq := some p, missing := nackTruncate p missing }, decide (0 < n), n)
      | .valueError => .valueError | .crash k => .crash k | .hang => .hang
    else
      .ok ({ g with missing := nackTruncate m (g.missing.filter (· ≠ p)) }, false, 0)

/-- The fixed generator: at most `RTP_HISTORY_SIZE` iterations are ever needed. -/
def Nack.add (g : Nack) (p : Int) : Outcome (Nack × Bool × Nat) :=
  g.addWith (RTP_HISTORY_SIZE + 1) nackStart p

/-- The pinned generator walks from `max_seq + 1`: up to 32767 iterations for one packet. -/
def Nack.addUnfixed (g : Nack) (p : Int) : Outcome (Nack × Bool × Nat) :=
  g.addWith 65536 (fun _ m => uint16_add m 1) p

/-! ## TimestampMapper -/

structure TsMap where
  last : Option Int := none
  origin : Option Int := none
  deriving DecidableEq, Repr

/-- `TimestampMapper.map(timestamp)`; `timestamp < self._last` with `_last is None` would be a `TypeError`. -/
def TsMap.map (m : TsMap) (ts : Int) : Outcome (TsMap × Int) :=
  match m.origin with
  | none => .ok ({ last := some ts, origin := some ts }, 0)
  | some o =>
    match m.last with
    | none => .crash "TypeError"
    | some l =>
      let o' := if ts < l then o - 4294967296 else o
      .ok ({ last := some ts, origin := some o' }, ts - o')

/-! ## Effects -/

inductive Effect where
  | remb (receiver : Nat)                                        -- REMB feedback sent (value: C15)
  | nack (receiver mediaSsrc : Nat) (lost : List Int)            -- `_send_rtcp_nack`
  | pli (receiver mediaSsrc : Nat)                               -- `_send_rtcp_pli`
  | decode (receiver : Nat) (codec : CodecKind) (ts : Int) (data : Bytes)   -- decoder queue `put`
  | lsr (receiver ssrc : Nat)                                    -- SR noted
  | stopDecoder (receiver : Nat)                                 -- BYE
  | retransmit (sender : Nat) (p : RtpPacket)                    -- `_retransmit` → `_send_rtp`
  | keyframe (sender : Nat)
  | bitrate (sender : Nat) (v : Nat)                             -- `encoder.target_bitrate = bitrate`
  | rrStats (sender : Nat) (packetsLost : Int) (jitter fractionLost : Nat)
  deriving DecidableEq, Repr

/-! ## RTCRtpReceiver -/

structure Receiver where
  id : Nat
  enabled : Bool := true
  isVideo : Bool                       -- video: NACK generator and bitrate estimator exist
  codecs : List (Nat × Codec)          -- __codecs
  rtxSsrc : List (Nat × Nat)           -- __rtx_ssrc
  rtcpSsrc : Option Nat                -- __rtcp_ssrc
  nack : Nack := {}
  stats : Stats.Receiver := Stats.Receiver.init     -- __remote_streams, __lsr
  jb : Jitter.JB
  tsMap : TsMap := {}
  decoderRunning : Bool := true        -- __decoder_thread is not None
  activeSsrc : List Nat := []          -- keys of __active_ssrc
  deriving Repr

/-- "feed bitrate estimator" block. -/
def Receiver.stageRbe (r : Receiver) (p : RtpPacket) (rbeOut : Outcome Bool) : Outcome (List Effect) :=
  if r.isVideo ∧ p.extensions.absSendTime.isSome then
    match rbeOut with
    | .ok remb => .ok (if r.rtcpSsrc.isSome ∧ remb then [.remb r.id] else [])
    | .valueError => .valueError | .crash k => .crash k | .hang => .hang
  else .ok []

/-- "unwrap retransmission packet" block: `none` is one of its early `return`s. -/
def Receiver.stageRtx (r : Receiver) (codec : Codec) (p : RtpPacket) : Outcome (Option (RtpPacket × Codec)) :=
  match codec.kind with
  | .rtx apt =>
    match Router.dget p.ssrc r.rtxSsrc with
    | none => .ok none                                   -- RTX packet from unknown SSRC
    | some original =>
      if p.payload.length < 2 then .ok none
      else match apt with
        | none => .ok none                               -- `not isinstance(apt, int)`
        | some a =>
          match Router.dget a r.codecs with
          | none => .ok none                             -- `apt not in self.__codecs`
          | some c =>
            match unwrapRtx p a original with
            | .ok q => .ok (some (q, c))
            | .valueError => .valueError | .crash k => .crash k | .hang => .hang
  | _ => .ok (some (p, codec))

def sortInts (l : List Int) : List Int := l.mergeSort fun a b => decide (a ≤ b)

/-- "send NACKs for any missing packets" block. -/
def Receiver.stageNack (r : Receiver) (p : RtpPacket) : Outcome (Receiver × List Effect × Nat) :=
  if r.isVideo then
    match r.nack.add p.sequenceNumber with
    | .ok (g, missed, n) =>
      .ok ({ r with nack := g },
           (if missed ∧ r.rtcpSsrc.isSome then [.nack r.id p.ssrc (sortInts g.missing)] else []), n)
    | .valueError => .valueError | .crash k => .crash k | .hang => .hang
  else .ok (r, [], 0)

/-- Jitter buffer, PLI, decoder queue. -/
def Receiver.stageJitter (r : Receiver) (codec : Codec) (p : RtpPacket) (data : Bytes) :
    Outcome (Receiver × List Effect) :=
  match Jitter.add r.jb ⟨p.sequenceNumber, p.timestamp, data⟩ with
  | .ok out =>
    let e1 : List Effect := if out.pli ∧ r.rtcpSsrc.isSome then [.pli r.id p.ssrc] else []
    match out.frame with
    | some f =>
      if r.decoderRunning then
        match r.tsMap.map f.ts with
        | .ok (m, ts) => .ok ({ r with jb := out.jb, tsMap := m }, e1 ++ [.decode r.id codec.kind ts f.data])
        | .valueError => .valueError | .crash k => .crash k | .hang => .hang
      else .ok ({ r with jb := out.jb }, e1)
    | none => .ok ({ r with jb := out.jb }, e1)
  | .valueError => .valueError | .crash k => .crash k | .hang => .hang

def addKey (x : Nat) (s : List Nat) : List Nat := if x ∈ s then s else s ++ [x]

/-- `_handle_rtp_packet` from "unwrap retransmission packet" to the end (`e0`: effects so far). -/
def Receiver.handleRtpCodec (r : Receiver) (e0 : List Effect) (codec : Codec) (p : RtpPacket) :
    Outcome (Receiver × List Effect × Nat) :=
  match r.stageRtx codec p with
  | .ok none => .ok (r, e0, 0)
  | .ok (some (p, codec)) =>
    match r.stageNack p with
    | .ok (r, e1, n) =>
      match (if p.payload.isEmpty then Outcome.ok [] else depayloadFor codec.kind p.payload) with
      | .ok data =>
        match r.stageJitter codec p data with
        | .ok (r, e2) => .ok (r, e0 ++ e1 ++ e2, n)
        | .valueError => .valueError | .crash k => .crash k | .hang => .hang
      | .valueError => .ok (r, e0 ++ e1, n)              -- `except ValueError`: payload parsing failed
      | .crash k => .crash k | .hang => .hang
    | .valueError => .valueError | .crash k => .crash k | .hang => .hang
  | .valueError => .valueError | .crash k => .crash k | .hang => .hang

/-- `RTCRtpReceiver._handle_rtp_packet(packet, arrival_time_ms)` → new state, effects, loop iterations.
`clock` is `int(time.time() * clockrate)`, `rbeOut` what the bitrate estimator + `pack_remb_fci` do. -/
def Receiver.handleRtp (r : Receiver) (p : RtpPacket) (clock : Int) (rbeOut : Outcome Bool) :
    Outcome (Receiver × List Effect × Nat) :=
  if !r.enabled then .ok (r, [], 0)
  else
    match r.stageRbe p rbeOut with
    | .ok e0 =>
      let r := { r with activeSsrc := addKey p.ssrc r.activeSsrc }
      match Router.dget p.payloadType r.codecs with
      | none => .ok (r, e0, 0)                                   -- unknown payload type
      | some codec =>
        match r.stats.rtp p.ssrc p.sequenceNumber p.timestamp clock with
        | .ok st => ({ r with stats := st }).handleRtpCodec e0 codec p
        | .valueError => .valueError | .crash k => .crash k | .hang => .hang
    | .valueError => .valueError | .crash k => .crash k | .hang => .hang

/-- `RTCRtpReceiver._handle_rtcp_packet(packet)`: SR → note LSR; BYE → stop the decoder. -/
def Receiver.handleRtcp (r : Receiver) (p : RtcpPacket) : Receiver × List Effect :=
  match p with
  | .sr ssrc info _ => ({ r with stats := r.stats.sr ssrc info.ntpTimestamp }, [.lsr r.id ssrc])
  | .bye _ => ({ r with decoderRunning := false }, if r.decoderRunning then [.stopDecoder r.id] else [])
  | _ => (r, [])

/-! ## RTCRtpSender -/

structure Sender where
  id : Nat
  ssrc : Nat
  rtxSsrc : Nat
  rtxPayloadType : Option Nat
  rtxSequenceNumber : Int
  history : List (Nat × RtpPacket)     -- __rtp_history: sequence_number % RTP_HISTORY_SIZE ↦ packet
  forceKeyframe : Bool := false
  hasEncoder : Bool                    -- `self.__encoder and hasattr(self.__encoder, "target_bitrate")`
  deriving Repr

/-- The 16-bit sequence number field of `RtpPacket.serialize` (`pack("!BBHLL", …)`): `struct.error` outside 0..65535. -/
def seqPackable (n : Int) : Bool := decide (0 ≤ n ∧ n < 65536)

/-- `_retransmit(sequence_number)` with the way the RTX sequence number is advanced as a parameter:
`wrap_rtx(packet, sequence_number=self.__rtx_sequence_number)`, `self.__rtx_sequence_number = bump(…)`, then
`packet.serialize(…)` — which raises `struct.error` when the counter has left the 16-bit range (nothing between
`_retransmit` and `RTCDtlsTransport.__run` catches it: the transport closes) — and `_send_rtp`.  The packets of the
history have been serialised by `_run_rtp` before: their own fields are in range. -/
def Sender.retransmitWith (bump : Int → Int) (s : Sender) (seq : Nat) : Outcome (Sender × List Effect) :=
  match Router.dget (seq % RTP_HISTORY_SIZE) s.history with
  | none => .ok (s, [])
  | some pkt =>
    if pkt.sequenceNumber = seq then
      match s.rtxPayloadType with
      | some pt =>
        if seqPackable s.rtxSequenceNumber then
          .ok ({ s with rtxSequenceNumber := bump s.rtxSequenceNumber },
               [.retransmit s.id (wrapRtx pkt pt s.rtxSequenceNumber.toNat s.rtxSsrc)])
        else .crash "struct.error"
      | none => .ok (s, [.retransmit s.id pkt])
    else .ok (s, [])

/-- `for seq in packet.lost: await self._retransmit(seq)`. -/
def Sender.retransmitAllWith (bump : Int → Int) (s : Sender) : List Nat → Outcome (Sender × List Effect)
  | [] => .ok (s, [])
  | seq :: rest =>
    match s.retransmitWith bump seq with
    | .ok (s1, e1) =>
      match s1.retransmitAllWith bump rest with
      | .ok (s2, e2) => .ok (s2, e1 ++ e2)
      | .valueError => .valueError | .crash k => .crash k | .hang => .hang
    | .valueError => .valueError | .crash k => .crash k | .hang => .hang

/-- The code as it is: `uint16_add(self.__rtx_sequence_number, 1)`. -/
def Sender.retransmit (s : Sender) (seq : Nat) : Outcome (Sender × List Effect) :=
  s.retransmitWith (fun n => uint16_add n 1) seq

def Sender.retransmitAll (s : Sender) (lost : List Nat) : Outcome (Sender × List Effect) :=
  s.retransmitAllWith (fun n => uint16_add n 1) lost

def reportEffects (s : Sender) (reports : List ReceiverInfo) : List Effect :=
  (reports.filter (·.ssrc = s.ssrc)).map fun rep => .rrStats s.id rep.packetsLost rep.jitter rep.fractionLost

/-- `RTCRtpSender._handle_rtcp_packet(packet)`. -/
def Sender.handleRtcp (s : Sender) (p : RtcpPacket) : Outcome (Sender × List Effect) :=
  match p with
  | .rr _ reports => .ok (s, reportEffects s reports)
  | .sr _ _ reports => .ok (s, reportEffects s reports)
  | .rtpfb fmt _ _ lost =>
    if fmt = RTCP_RTPFB_NACK then s.retransmitAll lost else .ok (s, [])
  | .psfb fmt _ _ fci =>
    if fmt = RTCP_PSFB_FIR ∨ fmt = RTCP_PSFB_PLI then .ok ({ s with forceKeyframe := true }, [.keyframe s.id])
    else if fmt = RTCP_PSFB_APP then
      match unpackRemb fci with
      | .ok (bitrate, ssrcs) =>
        .ok (s, if s.ssrc ∈ ssrcs ∧ s.hasEncoder then [.bitrate s.id bitrate] else [])
      | .valueError => .ok (s, [])                        -- `except ValueError: pass`
      | .crash k => .crash k | .hang => .hang
    else .ok (s, [])
  | _ => .ok (s, [])

/-! ## RTCDtlsTransport -/

structure Transport where
  ids : ExtIds
  router : Router.Router
  receivers : Nat → Receiver           -- objects by identity
  senders : Nat → Sender
  hasSrtp : Bool := true               -- `self._rx_srtp` is set
  rxPackets : Nat := 0
  rxBytes : Nat := 0

/-- The non-statistics part of the transport state (what "unchanged" is about). -/
def Transport.setReceiver (t : Transport) (i : Nat) (r : Receiver) : Transport :=
  { t with receivers := fun j => if j = i then r else t.receivers j }

def Transport.setSender (t : Transport) (i : Nat) (s : Sender) : Transport :=
  { t with senders := fun j => if j = i then s else t.senders j }

/-- The view of an RTCP packet that `route_rtcp` takes. -/
def toRouterRtcp : RtcpPacket → Router.Rtcp
  | .sr ssrc _ reports => .sr ssrc (reports.map (·.ssrc))
  | .rr ssrc reports => .rr ssrc (reports.map (·.ssrc))
  | .sdes chunks => .sdes (chunks.map (·.ssrc))
  | .bye sources => .bye sources
  | .rtpfb fmt ssrc media _ => .rtpfb fmt ssrc media
  | .psfb fmt ssrc media fci => .psfb fmt ssrc media fci

/-- Inputs that the model does not compute. -/
structure Env where
  clock : Int := 0
  rbeOut : Outcome Bool := .ok false
  unprotect : Bytes → Option Bytes := some        -- `None`: pylibsrtp.Error (caught by `_recv_next`)

/-- `for recipient in route_rtcp(packet): await recipient._handle_rtcp_packet(packet)`. -/
def deliverRtcp (t : Transport) (p : RtcpPacket) : List Router.Recipient → Outcome (Transport × List Effect)
  | [] => .ok (t, [])
  | .receiver i :: rest =>
    let (r, e1) := (t.receivers i).handleRtcp p
    match deliverRtcp (t.setReceiver i r) p rest with
    | .ok (t2, e2) => .ok (t2, e1 ++ e2)
    | .valueError => .valueError | .crash k => .crash k | .hang => .hang
  | .sender i :: rest =>
    match (t.senders i).handleRtcp p with
    | .ok (s, e1) =>
      match deliverRtcp (t.setSender i s) p rest with
      | .ok (t2, e2) => .ok (t2, e1 ++ e2)
      | .valueError => .valueError | .crash k => .crash k | .hang => .hang
    | .valueError => .valueError | .crash k => .crash k | .hang => .hang

/-- `for packet in packets:` of `_handle_rtcp_data`. -/
def rtcpLoop (t : Transport) : List RtcpPacket → Outcome (Transport × List Effect)
  | [] => .ok (t, [])
  | p :: rest =>
    match Router.routeRtcp t.router (toRouterRtcp p) with
    | .ok recipients =>
      match deliverRtcp t p recipients with
      | .ok (t1, e1) =>
        match rtcpLoop t1 rest with
        | .ok (t2, e2) => .ok (t2, e1 ++ e2)
        | .valueError => .valueError | .crash k => .crash k | .hang => .hang
      | .valueError => .valueError | .crash k => .crash k | .hang => .hang
    | .valueError => .valueError | .crash k => .crash k | .hang => .hang

/-- `_handle_rtcp_data(data)`: `try: RtcpPacket.parse(data) except ValueError: return`. -/
def handleRtcpData (t : Transport) (data : Bytes) : Outcome (Transport × List Effect) :=
  match parseCompound data with
  | .ok packets => rtcpLoop t packets
  | .valueError => .ok (t, [])
  | .crash k => .crash k
  | .hang => .hang

/-- `_handle_rtp_data(data, arrival_time_ms)`: `try: RtpPacket.parse(...) except ValueError: return`. -/
def handleRtpData (env : Env) (t : Transport) (data : Bytes) : Outcome (Transport × List Effect × Nat) :=
  match Rtp.parse t.ids data with
  | .ok p =>
    match Router.routeRtp t.router p.ssrc p.payloadType with
    | (router, some i) =>
      match (t.receivers i).handleRtp p env.clock env.rbeOut with
      | .ok (r, e, n) => .ok (({ t with router := router }).setReceiver i r, e, n)
      | .valueError => .valueError | .crash k => .crash k | .hang => .hang
    | (router, none) => .ok ({ t with router := router }, [], 0)
  | .valueError => .ok (t, [], 0)
  | .crash k => .crash k
  | .hang => .hang

/-- `is_rtcp(msg)`. -/
def isRtcp (msg : Bytes) : Bool :=
  match msg with
  | _ :: b :: _ => decide (192 ≤ b ∧ b ≤ 208)
  | _ => false

inductive Demux where
  | empty | dtls | rtcp | rtp | ignored
  deriving DecidableEq, Repr

/-- The branch `_recv_next` takes for a datagram. -/
def demux (hasSrtp : Bool) (data : Bytes) : Demux :=
  match data with
  | [] => .empty
  | first :: _ =>
    if first > 19 ∧ first < 64 then .dtls
    else if first > 127 ∧ first < 192 ∧ hasSrtp then (if isRtcp data then .rtcp else .rtp)
    else .ignored

def Transport.count (t : Transport) (data : Bytes) : Transport :=
  { t with rxBytes := t.rxBytes + data.length, rxPackets := t.rxPackets + 1 }

/-- `_recv_next` after the datagram has been received (tree with fixes/C05b-empty-datagram.patch). -/
def recvNext (env : Env) (t : Transport) (data : Bytes) : Outcome (Transport × List Effect × Nat) :=
  let t := t.count data
  match demux t.hasSrtp data with
  | .empty => .ok (t, [], 0)
  | .dtls => .ok (t, [], 0)                        -- OpenSSL → SCTP part
  | .ignored => .ok (t, [], 0)
  | .rtcp =>
    match env.unprotect data with
    | none => .ok (t, [], 0)                       -- `except pylibsrtp.Error`
    | some plain =>
      match handleRtcpData t plain with
      | .ok (t, e) => .ok (t, e, 0)
      | .valueError => .valueError | .crash k => .crash k | .hang => .hang
  | .rtp =>
    match env.unprotect data with
    | none => .ok (t, [], 0)
    | some plain => handleRtpData env t plain

/-- The pinned `_recv_next`: `first_byte = data[0]` on an empty datagram. -/
def recvNextUnfixed (env : Env) (t : Transport) (data : Bytes) : Outcome (Transport × List Effect × Nat) :=
  match data with
  | [] => .crash "IndexError"
  | _ => recvNext env t data

end Aiortc.Model.RtpDispatch
