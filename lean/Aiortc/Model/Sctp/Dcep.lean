import Aiortc.Model.Sctp.Endpoint
/-!
# DCEP `DATA_CHANNEL_OPEN`: the parser inside `dcReceive` (`_data_channel_receive`), restated as a pure function

`decodeOpen` is tied to the automaton by `Aiortc.Sctp.dcReceive_open` (Lemmas/SctpOpen.lean) and to the real
code by the `dcep` component of `./check C13`.
-/
namespace Aiortc.Sctp
open Aiortc.Gen Aiortc.Sctp.Wire

/-- the id-independent parameters carried by a DATA_CHANNEL_OPEN message -/
structure OpenParams where
  label : Bytes
  protocol : Bytes
  ordered : Bool
  maxRetransmits : Option Nat
  maxPacketLifeTime : Option Nat
  deriving Repr, DecidableEq

def Chan.openParams (c : Chan) : OpenParams :=
  ⟨c.label, c.protocol, c.ordered, c.maxRetransmits, c.maxPacketLifeTime⟩

/-- the OPEN branch of `dcReceive` (`_data_channel_receive`), without the state -/
def decodeOpen (data : Bytes) : Option OpenParams :=
  if data.headD 0 = DATA_CHANNEL_OPEN && data.length ≥ 12 then
    let channelType := data.getD 1 0
    let reliability := beVal ((data.drop 4).take 4)
    let ll := beVal ((data.drop 8).take 2)
    let pl := beVal ((data.drop 10).take 2)
    let label := (data.drop 12).take ll
    let protocol := (data.drop (12 + ll)).take pl
    if !utf8Valid label || !utf8Valid protocol then none
    else some {
      label := label, protocol := protocol
      ordered := channelType / 128 % 2 = 0
      maxRetransmits := if channelType % 4 = 1 then some reliability else none
      maxPacketLifeTime := if channelType % 4 = 2 then some reliability else none }
  else none

/-! ## UTF-8 encoding of a code point (Unicode Table 3-6), the specification side of `utf8Valid` -/

def Scalar (n : Nat) : Prop := n < 0xD800 ∨ (0xE000 ≤ n ∧ n < 0x110000)

def encodeCp (n : Nat) : Bytes :=
  if n < 0x80 then [n]
  else if n < 0x800 then [0xC0 + n / 64, 0x80 + n % 64]
  else if n < 0x10000 then [0xE0 + n / 4096, 0x80 + n / 64 % 64, 0x80 + n % 64]
  else [0xF0 + n / 262144, 0x80 + n / 4096 % 64, 0x80 + n / 64 % 64, 0x80 + n % 64]

end Aiortc.Sctp
