import Aiortc.Model.Sctp.Outbound
import Aiortc.Model.Sctp.Wire
/-!
# One SCTP endpoint (`RTCSctpTransport` + its `RTCDataChannel`s) as a deterministic I/O automaton

`step : Ep → Input → Ep × List Out`, every input handled atomically (the real handlers never suspend
under the harness' DTLS stub).  Datagrams are raw bytes on both sides: `rx` goes through the wire model's
`parsePacket`, transmissions through `serializePacket` (C08's model).  Inputs that the model cannot
compute are parameters: verification tag, initial TSN, role, the clock (`now`, ticks of 1/1024 s) and
the state cookie the real endpoint issued (HMAC-SHA1 is not modelled: a COOKIE-ECHO is valid iff its
body is a cookie this endpoint issued).
-/
namespace Aiortc.Sctp
open Aiortc.Gen Aiortc.Sctp.Wire

inductive AState where
  | closed | cookieWait | cookieEchoed | established | shutdownPending | shutdownSent
  | shutdownReceived | shutdownAckSent
  deriving Repr, DecidableEq, Inhabited

/-- readyState: 0 connecting, 1 open, 2 closing, 3 closed. -/
structure Chan where
  id : Option Nat
  label : Bytes            -- UTF-8 encoding of the label
  protocol : Bytes
  ordered : Bool := true
  maxRetransmits : Option Nat := none
  maxPacketLifeTime : Option Nat := none
  negotiated : Bool := false
  ready : Nat := 0
  buffered : Int := 0
  threshold : Nat := 0
  /-- created by a DATA_CHANNEL_OPEN from the peer and not yet announced: nobody can listen yet -/
  silent : Bool := false
  deriving Repr, DecidableEq, Inhabited

inductive Task where
  | flush | transmit | reconfig
  | resend (c : Chunk)                     -- `_send_chunk(t1/t2 chunk)` queued by a timer
  | resendReconfig (p : Int × Int × Int × List Nat)  -- `_send_reconfig_param(request)` queued by the timer
  deriving Repr, Inhabited

inductive Out where
  | tx (d : Bytes)
  | timerStart (t : String) | timerCancel (t : String)
  | task (name : String)
  | evOpen (ch : Nat) | evClose (ch : Nat) | evLow (ch : Nat)
  | evMessage (ch : Nat) (isStr : Bool) (data : Bytes)
  | evChannel (ch : Nat)
  | rexc (ch : Nat) (kind : String)         -- exception raised by `send()` inside an application event handler
  | exc (kind : String)                     -- exception returned to the application caller
  | crash (kind : String)                   -- exception escaping a handler
  deriving Repr, Inhabited

structure Ep where
  isServer : Bool
  localPort : Nat := 5000
  remotePort : Option Nat := none
  localTag : Nat
  remoteTag : Nat := 0
  assoc : AState := .closed
  started : Bool := false
  state : String := "new"
  registered : Bool := false
  remotePR : Bool := false
  remoteExt : Bytes := []
  rwnd : Int := 1048576
  inStreams : List (Nat × InStream) := []
  inboundCount : Nat := 0
  inboundMax : Nat := MAX_STREAMS
  outboundCount : Nat := MAX_STREAMS
  rx : Option Rx := none
  sackNeeded : Bool := false
  hasSsthresh : Bool := false
  tx : Tx
  reconfigQueue : List Nat := []
  reconfigRequest : Option (Int × Int × Int × List Nat) := none
  reconfigRequestSeq : Int
  reconfigResponseSeq : Int := 0
  rcTimer : Bool := false                  -- `_reconfig_handle`
  t1Chunk : Option Chunk := none
  t1Failures : Nat := 0
  t1 : Bool := false
  t2Chunk : Option Chunk := none
  t2Failures : Nat := 0
  t2 : Bool := false
  dcId : Option Nat := none
  dcQueue : List (Nat × Nat × Bytes) := []
  dataChannels : List (Nat × Nat) := []
  chans : List Chan := []
  tasks : List Task := []
  cookies : List Bytes := []
  now : Int := 1024000
  listeners : Bool := true                 -- transport-level listeners (removed on CLOSED)
  /-- one-shot application event handlers that call `channel.send(data)` from INSIDE the event (re-entrant API use):
  `(kind, channel index, isStr, data)`, kind 0 `open`, 1 `close`, 2 `bufferedamountlow`, 3 `message` of that channel,
  4 the transport's `datachannel` event (any channel; the send goes to the announced channel) -/
  reactions : List (Nat × Nat × Bool × Bytes) := []
  deriving Repr, Inhabited

def Ep.init (isServer : Bool) (tag tsn : Nat) : Ep :=
  { isServer := isServer, localTag := tag, reconfigRequestSeq := tsn,
    tx := { cwnd := 3 * USERDATA_MAX, ssthresh := 0, localTsn := tsn,
            lastSacked := tsn_minus_one tsn, advAck := tsn_minus_one tsn } }

/-- The handler monad: state + output log, with crash. -/
abbrev M := ExceptT String (StateM (Ep × List Out))

def emit (o : Out) : M Unit := modify fun (e, l) => (e, l ++ [o])
def getE : M Ep := do return (← get).1
def setE (e : Ep) : M Unit := modify fun (_, l) => (e, l)
def modE (f : Ep → Ep) : M Unit := modify fun (e, l) => (f e, l)
def crash {α} (k : String) : M α := throw k

def liftO {α} : Outcome α → M α
  | .ok a => pure a
  | .valueError => throw "ValueError"
  | .crash k => throw k
  | .hang => throw "hang"

def now1000 : M Int := do return 1000 * (← getE).now

/-! ## data channel objects -/

def chanGet (i : Nat) : M Chan := do
  match (← getE).chans[i]? with
  | some c => pure c
  | none => crash "IndexError"

def chanSet (i : Nat) (c : Chan) : M Unit := modE fun e => { e with chans := e.chans.set i c }

def queueTask (t : Task) (name : String) : M Unit := do
  modE fun e => { e with tasks := e.tasks ++ [t] }
  emit (.task name)

/-- `channel._addBufferedAmount(amount)` without application handlers; returns whether `bufferedamountlow` fired. -/
def addBufferedCore (i : Nat) (amount : Int) : M Bool := do
  let c ← chanGet i
  let crosses := decide (c.buffered > c.threshold) && decide (c.buffered + amount ≤ c.threshold)
  chanSet i { c with buffered := c.buffered + amount }
  if crosses && !c.silent && c.ready ≠ 3 then
    emit (.evLow i)
    pure true
  else pure false

/-- `_addBufferedAmount` as called by `send()`: the amount is positive, a downward crossing cannot happen (were the
event emitted all the same, it would be seen in the outputs; an application handler is not modelled there). -/
def addBuffered0 (i : Nat) (amount : Int) : M Unit := do
  let _ ← addBufferedCore i amount

/-- The PPID and the bytes `_data_channel_send` queues for `data`. -/
def userData (isStr : Bool) (data : Bytes) : Nat × Bytes :=
  if data.isEmpty then (if isStr then WEBRTC_STRING_EMPTY else WEBRTC_BINARY_EMPTY, [0])
  else (if isStr then WEBRTC_STRING else WEBRTC_BINARY, data)

/-- `channel.send(data)` after its state check: `_data_channel_send`. -/
def dcSend (i : Nat) (isStr : Bool) (data : Bytes) : M Unit := do
  let (ppid, ud) := userData isStr data
  addBuffered0 i ud.length
  modE fun e => { e with dcQueue := e.dcQueue ++ [(i, ppid, ud)] }
  queueTask .flush "data_channel_flush"

/-- An application event handler of kind `k` for channel `i` runs (right after the event was emitted): the first
armed reaction is consumed and calls `channel.send(data)`; `InvalidStateError` stays inside the handler. -/
def react (k i : Nat) : M Unit := do
  let e ← getE
  match e.reactions.find? (fun r => r.1 == k && (k == 4 || r.2.1 == i)) with
  | none => pure ()
  | some r =>
    setE { e with reactions := e.reactions.erase r }
    let c ← chanGet i
    if c.ready ≠ 1 then emit (.rexc i "InvalidStateError")
    else dcSend i r.2.2.1 r.2.2.2

/-- `channel._setReadyState(state)`. -/
def setReady (i : Nat) (st : Nat) : M Unit := do
  let c ← chanGet i
  if c.ready ≠ st then
    chanSet i { c with ready := st }
    if !c.silent then
      if st = 1 then
        emit (.evOpen i)
        react 0 i
      else if st = 3 then
        emit (.evClose i)
        react 1 i

/-- `channel._addBufferedAmount(amount)` (with the application's `bufferedamountlow` handler). -/
def addBuffered (i : Nat) (amount : Int) : M Unit := do
  if (← addBufferedCore i amount) then react 2 i

/-! ## sending chunks -/

/-- `_send_chunk(chunk)`. -/
def packetFor (e : Ep) (c : Chunk) : Outcome Bytes :=
  match e.remotePort with
  | none => .crash "struct.error"
  | some rp => serializePacket e.localPort rp e.remoteTag c

def sendChunk (c : Chunk) : M Unit := do
  let d ← liftO (packetFor (← getE) c)
  emit (.tx d)

def dataChunkOf (c : RChunk) : Chunk :=
  .data c.flags c.tsn.toNat c.sid c.ssn.toNat c.ppid c.data

def playTx (evs : List TxEv) : M Unit := do
  for ev in evs do
    match ev with
    | .data c => sendChunk (dataChunkOf c)
    | .fwd cum streams => sendChunk (.forwardTsn 0 cum.toNat (streams.map fun s => (s.1, s.2.toNat)))
    | .t3start => emit (.timerStart "t3")
    | .t3cancel => emit (.timerCancel "t3")

/-- `_transmit()`. -/
def transmit : M Unit := do
  let e ← getE
  let (tx, evs) := e.tx.transmit
  -- chunks are sent one after the other; a serialisation failure leaves the state where it was,
  -- which we do not model (no such failure is reachable with in-range TSNs)
  setE { e with tx := tx }
  playTx evs

/-- `_send(...)`. -/
def sendData (sid ppid : Nat) (data : Bytes) (expiry maxRtx : Option Int) (ordered : Bool) : M Unit := do
  modE fun e => { e with tx := e.tx.enqueue sid ppid data expiry maxRtx ordered }
  transmit

/-! ## timers -/

def t1Cancel : M Unit := do
  if (← getE).t1 then
    emit (.timerCancel "t1")
    modE fun e => { e with t1 := false, t1Chunk := none }
def t2Cancel : M Unit := do
  if (← getE).t2 then
    emit (.timerCancel "t2")
    modE fun e => { e with t2 := false, t2Chunk := none }
def t3Cancel : M Unit := do
  if (← getE).tx.t3 then
    emit (.timerCancel "t3")
    modE fun e => { e with tx := { e.tx with t3 := false } }
def rcCancel : M Unit := do
  if (← getE).rcTimer then
    emit (.timerCancel "reconfig")
    modE fun e => { e with rcTimer := false }
def rcStart : M Unit := do
  rcCancel
  modE fun e => { e with rcTimer := true }
  emit (.timerStart "reconfig")
def t1Start (c : Chunk) : M Unit := do
  if (← getE).t1 then crash "AssertionError"
  modE fun e => { e with t1Chunk := some c, t1Failures := 0, t1 := true }
  emit (.timerStart "t1")
def t2Start (c : Chunk) : M Unit := do
  if (← getE).t2 then crash "AssertionError"
  modE fun e => { e with t2Chunk := some c, t2Failures := 0, t2 := true }
  emit (.timerStart "t2")

/-! ## data channels (transport side) -/

/-- `_data_channel_closed(stream_id)`. -/
def dcClosed (sid : Nat) : M Unit := do
  match dictGet (← getE).dataChannels sid with
  | none => pure ()                       -- `self._data_channels.pop(stream_id, None)` (fix C05a)
  | some i =>
    modE fun e => { e with dataChannels := dictDel e.dataChannels sid }
    setReady i 3

/-- `_transmit_reconfig()`. A stream is only reset once nothing is queued for it in `_data_channel_queue`
(`queued` holds `channel.id` of every queue entry, `None` for a channel without id; the queue holds
channel objects, here indices into `chans` - an index outside `chans` cannot occur and counts as `None`). -/
def transmitReconfig : M Unit := do
  let e ← getE
  if e.assoc = .established && !e.reconfigQueue.isEmpty && e.reconfigRequest.isNone then
    let queued : List (Option Nat) := e.dcQueue.map fun q => (e.chans[q.1]?).bind (·.id)
    let streams := (e.reconfigQueue.filter fun x => !queued.contains (some x)).take RECONFIG_MAX_STREAMS
    if streams.isEmpty then pure ()
    else
      let param := (e.reconfigRequestSeq, e.reconfigResponseSeq, tsn_minus_one e.tx.localTsn, streams)
      setE { e with reconfigQueue := e.reconfigQueue.filter fun x => !streams.contains x
                    reconfigRequest := some param
                    reconfigRequestSeq := tsn_plus_one e.reconfigRequestSeq }
      let p := RcParam.resetOut param.1.toNat param.2.1.toNat param.2.2.1.toNat streams
      let b ← liftO p.serialize
      sendChunk (.params .reconfig 0 [(SCTP_STR_RESET_OUT_REQUEST, b)])
      rcStart

/-- `_data_channel_flush()`: the `while self._data_channel_queue and not self._outbound_queue` loop
(each iteration pops one queue entry and only a one-shot application handler can add one, so
`len(queue) + len(reactions) + 1` iterations of fuel are never exhausted). -/
def flushLoop : Nat → M Unit
  | 0 => pure ()
  | fuel + 1 => do
  let e ← getE
  match e.dcQueue with
  | [] => pure ()
  | (i, ppid, data) :: rest =>
    if !e.tx.outQ.isEmpty then pure ()
    else
      setE { e with dcQueue := rest }
      let c ← chanGet i
      -- `none`: every stream id of the local parity is in use, the channel is closed (`continue`)
      let sid? : Option Nat ← match c.id with
        | some s => pure (some s)
        | none =>
          let start ← match e.dcId with
            | some s => pure s
            | none => crash "TypeError"
          let rec pick (fuel s : Nat) : Nat :=
            match fuel with
            | 0 => s
            | f + 1 => if (dictGet e.dataChannels s).isSome then pick f (s + 2) else s
          let s := pick (e.dataChannels.length + 1) start
          if s > 65535 then
            setReady i 3
            pure none
          else
            modE fun e => { e with dataChannels := e.dataChannels ++ [(s, i)] }
            chanSet i { c with id := some s }
            pure (some s)
      match sid? with
      | none => pure ()
      | some sid =>
        if ppid = WEBRTC_DCEP then
          sendData sid ppid data none none true
        else
          let e ← getE
          let expiry : Option Int := match c.maxPacketLifeTime with
            | some l => if l ≠ 0 then some (1000 * e.now + 1024 * (l : Int)) else none
            | none => none
          sendData sid ppid data expiry (c.maxRetransmits.map fun m => (m : Int)) c.ordered
          addBuffered i (-(data.length : Int))
      flushLoop fuel

def flush : M Unit := do
  let e ← getE
  if e.assoc ≠ .established then pure ()
  else
    -- an application handler running inside the loop (`bufferedamountlow`) can append one more entry per armed reaction
    flushLoop (e.dcQueue.length + e.reactions.length + 1)
    -- stream resets which were waiting for queued data can go out now
    if !(← getE).reconfigQueue.isEmpty then transmitReconfig

/-- `_data_channel_close(channel)`. -/
def dcClose (i : Nat) : M Unit := do
  let c ← chanGet i
  if c.ready ≠ 2 && c.ready ≠ 3 then
    setReady i 2
    let e ← getE
    match (if e.assoc = .established then c.id else none) with
    | some sid =>
      setE { e with reconfigQueue := e.reconfigQueue ++ [sid] }
      if e.reconfigQueue.length + 1 = 1 then queueTask .reconfig "transmit_reconfig"
    | none =>
      setE { e with dcQueue := e.dcQueue.filter fun q => q.1 != i }
      match c.id with
      | some sid =>
        if (dictGet e.dataChannels sid).isNone then crash "KeyError"
        modE fun e => { e with dataChannels := dictDel e.dataChannels sid }
      | none => pure ()
      setReady i 3

/-- `_set_state(state)`. -/
def setState (st : AState) : M Unit := do
  modE fun e => { e with assoc := st }
  if st = .established then
    modE fun e => { e with state := "connected" }
    let e ← getE
    for (_, i) in e.dataChannels do
      let c ← chanGet i
      if c.negotiated && c.ready = 0 then setReady i 1
    queueTask .flush "data_channel_flush"
  else if st = .closed then
    t1Cancel; t2Cancel; t3Cancel; rcCancel
    -- a stream reset request does not outlive its association (fix C05a)
    modE fun e => { e with state := "closed", reconfigQueue := [], reconfigRequest := none }
    let e ← getE
    for (sid, _) in e.dataChannels do dcClosed sid
    let e ← getE
    for (i, _, _) in e.dcQueue do setReady i 3
    modE fun e => { e with dcQueue := [], listeners := false }

/-! ## UTF-8 validity (what `bytes.decode("utf8")` accepts) -/

def utf8Valid : Bytes → Bool
  | [] => true
  | b0 :: r =>
    if b0 < 0x80 then utf8Valid r
    else if 0xC2 ≤ b0 ∧ b0 ≤ 0xDF then
      match r with
      | b1 :: r => (0x80 ≤ b1 && b1 ≤ 0xBF) && utf8Valid r
      | _ => false
    else if 0xE0 ≤ b0 ∧ b0 ≤ 0xEF then
      match r with
      | b1 :: b2 :: r =>
        let lo := if b0 = 0xE0 then 0xA0 else 0x80
        let hi := if b0 = 0xED then 0x9F else 0xBF
        (lo ≤ b1 && b1 ≤ hi) && (0x80 ≤ b2 && b2 ≤ 0xBF) && utf8Valid r
      | _ => false
    else if 0xF0 ≤ b0 ∧ b0 ≤ 0xF4 then
      match r with
      | b1 :: b2 :: b3 :: r =>
        let lo := if b0 = 0xF0 then 0x90 else 0x80
        let hi := if b0 = 0xF4 then 0x8F else 0xBF
        (lo ≤ b1 && b1 ≤ hi) && (0x80 ≤ b2 && b2 ≤ 0xBF) && (0x80 ≤ b3 && b3 ≤ 0xBF) && utf8Valid r
      | _ => false
    else false

/-! ## `_data_channel_receive` -/

def dcReceive (sid ppid : Nat) (data : Bytes) : M Unit := do
  let e ← getE
  if ppid = WEBRTC_DCEP && !data.isEmpty then
    let msgType := data.headD 0
    if msgType = DATA_CHANNEL_OPEN && data.length ≥ 12 then
      if (dictGet e.dataChannels sid).isSome then return
      let channelType := data.getD 1 0
      let reliability := beVal ((data.drop 4).take 4)
      let ll := beVal ((data.drop 8).take 2)
      let pl := beVal ((data.drop 10).take 2)
      let label := (data.drop 12).take ll
      let protocol := (data.drop (12 + ll)).take pl
      if !utf8Valid label || !utf8Valid protocol then return
      let c : Chan := {
        id := some sid, label := label, protocol := protocol
        ordered := channelType / 128 % 2 = 0
        maxRetransmits := if channelType % 4 = 1 then some reliability else none
        maxPacketLifeTime := if channelType % 4 = 2 then some reliability else none
        ready := 1, silent := true }
      let i := e.chans.length
      setE { e with chans := e.chans ++ [c], dataChannels := e.dataChannels ++ [(sid, i)]
                    dcQueue := e.dcQueue ++ [(i, WEBRTC_DCEP, [DATA_CHANNEL_ACK])] }
      flush
      -- without transport listeners (association closed) nobody ever learns about this channel
      if (← getE).listeners then
        -- the application's `datachannel` handler: it attaches its handlers to the channel (`silent := false`), the
        -- event is recorded, then an armed reaction sends on the new channel
        let c ← chanGet i
        chanSet i { c with silent := false }
        emit (.evChannel i)
        react 4 i
    else if msgType = DATA_CHANNEL_ACK then
      match dictGet e.dataChannels sid with
      | none => pure ()
      | some i =>
        let c ← chanGet i
        if c.ready = 0 then setReady i 1
  else
    match dictGet e.dataChannels sid with
    | none => pure ()
    | some i =>
      let c ← chanGet i
      let live := !c.silent && c.ready ≠ 3
      let fire (isStr : Bool) (d : Bytes) : M Unit := do
        if live then
          emit (.evMessage i isStr d)
          react 3 i
      if ppid = WEBRTC_STRING then
        if !utf8Valid data then return
        fire true data
      else if ppid = WEBRTC_STRING_EMPTY then fire true []
      else if ppid = WEBRTC_BINARY then fire false data
      else if ppid = WEBRTC_BINARY_EMPTY then fire false []

/-! ## receive path -/

def getInStream (sid : Nat) : M InStream := do
  match dictGet (← getE).inStreams sid with
  | some s => pure s
  | none =>
    modE fun e => { e with inStreams := e.inStreams ++ [(sid, {})] }
    pure {}

def setInStream (sid : Nat) (s : InStream) : M Unit :=
  modE fun e => { e with inStreams := dictSet e.inStreams sid s }

/-- deliver the messages popped from a stream (`await self._receive(*message)`); the generator
has already updated the stream state up to each yield, which we approximate by updating it first. -/
def deliver (msgs : List Msg) : M Unit := do
  for m in msgs do
    modE fun e => { e with rwnd := e.rwnd + m.data.length }
    dcReceive m.sid m.ppid m.data

/-- `_receive_data_chunk`. -/
def receiveData (c : RChunk) : M Unit := do
  modE fun e => { e with sackNeeded := true }
  let e ← getE
  let rx ← match e.rx with
    | some r => pure r
    | none => crash "TypeError"
  let (dup, rx') := markReceived rx c.tsn
  setE { e with rx := some rx' }
  if dup then return
  let s ← getInStream c.sid
  -- still waiting in the reassembly queue: a duplicate, whatever `_mark_received` says (fix C05a)
  if s.reasm.any (fun r => r.tsn == c.tsn) then return
  let s ← liftO (s.addChunk c)
  modE fun e => { e with rwnd := e.rwnd - c.data.length }
  let (msgs, s') ← liftO s.popMessages
  setInStream c.sid s'
  deliver msgs

/-- `_receive_forward_tsn_chunk`. -/
def receiveForwardTsn (cum : Int) (streams : List (Nat × Nat)) : M Unit := do
  modE fun e => { e with sackNeeded := true }
  let e ← getE
  let rx ← match e.rx with
    | some r => pure r
    | none => crash "TypeError"
  if uint32_gte rx.last cum then return
  -- `is_obsolete` reads `self._last_received_tsn` when called, i.e. the NEW cumulative TSN
  let mis0 := rx.mis.filter fun x => uint32_gt x cum
  let last := consolidate cum (sortByKey cum mis0)
  let rx' : Rx := { last := last
                    dups := rx.dups.filter fun x => uint32_gt x last
                    mis := mis0.filter fun x => uint32_gt x last }
  setE { e with rx := some rx' }
  -- prune fragments of skipped messages
  let e ← getE
  for (sid, s) in e.inStreams do
    let (s', size) := s.pruneChunks cum
    setInStream sid s'
    modE fun e => { e with rwnd := e.rwnd + size }
  -- update reassembly
  for (sid, sseq) in streams do
    let s ← getInStream sid
    let next := uint16_add sseq 1
    let s := if uint16_gt next s.seq then { s with seq := next } else s
    let (msgs, s') ← liftO s.popMessages
    setInStream sid s'
    deliver msgs

/-- `_send_reconfig_param(StreamResetResponseParam(...))`. -/
def sendReconfigResponse (respSeq : Nat) : M Unit := do
  let b ← liftO (RcParam.resetResp respSeq 1).serialize
  sendChunk (.params .reconfig 0 [(SCTP_STR_RESET_RESPONSE, b)])

/-- `_receive_reconfig_param`. -/
def receiveReconfigParam : RcParam → M Unit
  | .resetOut reqSeq _ lastTsn streams => do
    if (reqSeq : Int) = (← getE).reconfigResponseSeq then
      -- retransmitted request: repeat the response only
      sendReconfigResponse reqSeq
      return
    -- data sent before the reset is still missing: not yet (the peer retransmits the request)
    match (← getE).rx with
    | none => return
    | some rx => if uint32_gt lastTsn rx.last then return
    for sid in streams do
      modE fun e => { e with inStreams := dictDel e.inStreams sid }
      match dictGet (← getE).dataChannels sid with
      | some i => dcClose i
      | none => pure ()
    modE fun e => { e with reconfigResponseSeq := reqSeq }
    sendReconfigResponse reqSeq
  | .addOut reqSeq n => do
    modE fun e => { e with inboundCount := e.inboundCount + n, reconfigResponseSeq := reqSeq }
    sendReconfigResponse reqSeq
  | .resetResp respSeq _ => do
    let e ← getE
    match e.reconfigRequest with
    | some (reqSeq, _, _, streams) =>
      if (respSeq : Int) = reqSeq then
        for sid in streams do
          modE fun e => { e with tx := { e.tx with streamSeq := dictDel e.tx.streamSeq sid } }
          dcClosed sid
        modE fun e => { e with reconfigRequest := none }
        rcCancel
        transmitReconfig
    | none => pure ()

/-- `_get_extensions`. -/
def getExtensions (ps : List Param) : M Unit := do
  for (k, v) in ps do
    if k = SCTP_PRSCTP_SUPPORTED then modE fun e => { e with remotePR := true }
    else if k = SCTP_SUPPORTED_CHUNK_EXT then modE fun e => { e with remoteExt := v }

/-- `_set_extensions`: the parameters appended for the local party. -/
def localExtensions : List Param :=
  [(SCTP_PRSCTP_SUPPORTED, []), (SCTP_SUPPORTED_CHUNK_EXT, [CT_ForwardTsnChunk, CT_ReconfigChunk])]

def timestamp (e : Ep) : Int := e.now / 1024

/-- `_receive_sack_chunk`. -/
def receiveSack (cum : Nat) (gaps : List (Nat × Nat)) : M Unit := do
  let e ← getE
  if uint32_gt e.tx.lastSacked cum then return
  if !e.hasSsthresh && e.tx.fastRecoveryExit.isNone then
    -- `self._ssthresh` does not exist before INIT / INIT-ACK
    -- (only read when `done and cwnd_fully_utilized` or `loss`; conservatively always)
    pure ()
  let r ← liftO (e.tx.receiveSack cum gaps (1000 * e.now))
  match r with
  | none => pure ()
  | some (tx, evs) =>
    setE { e with tx := tx }
    playTx evs
    flush
    transmit

/-- `_receive_chunk`. -/
def receiveChunk (cookie : Bytes) (c : Chunk) : M Unit := do
  let e ← getE
  match c with
  | .data flags tsn sid sseq proto ud =>
    if e.rx.isSome then
      receiveData { tsn := tsn, sid := sid, ssn := sseq, ppid := proto, flags := flags, data := ud }
  | .sack _ ctsn _ gaps _ => receiveSack ctsn gaps
  | .forwardTsn _ ctsn streams => if e.rx.isSome then receiveForwardTsn ctsn streams
  | .params .heartbeat _ ps => sendChunk (.params .heartbeatAck 0 ps)
  | .params .abort _ _ => setState .closed
  | .shutdown _ _ =>
    t2Cancel
    setState .shutdownReceived
    let ack : Chunk := .plain .shutdownAck 0 []
    sendChunk ack
    t2Start ack
    setState .shutdownAckSent
  | .plain .shutdownComplete _ _ =>
    if e.assoc = .shutdownAckSent then
      t2Cancel
      setState .closed
  | .params .reconfig _ ps =>
    if e.assoc = .established then
      for (t, v) in ps do
        match rcClassOf t with
        | some cls =>
          match RcParam.parse cls v with
          | .ok p => receiveReconfigParam p
          | .valueError => pure ()
          | .crash k => crash k
          | .hang => crash "hang"
        | none => pure ()
  | .init .init _ tag rwnd outs ins itsn ps =>
    if e.isServer && e.assoc = .closed then
      modE fun e => { e with
        rx := some { last := tsn_minus_one itsn, mis := (e.rx.map (·.mis)).getD [], dups := (e.rx.map (·.dups)).getD [] }
        reconfigResponseSeq := tsn_minus_one itsn
        remoteTag := tag
        hasSsthresh := true
        tx := { e.tx with ssthresh := rwnd } }
      getExtensions ps
      modE fun e => { e with inboundCount := min outs e.inboundMax
                             outboundCount := min e.outboundCount ins }
      let e ← getE
      modE fun e => { e with cookies := e.cookies ++ [cookie] }
      sendChunk (.init .initAck 0 e.localTag e.rwnd.toNat e.outboundCount e.inboundMax e.tx.localTsn.toNat
        (localExtensions ++ [(SCTP_STATE_COOKIE, cookie)]))
  | .plain .cookieEcho _ body =>
    if e.isServer then
      if body.length ≠ COOKIE_LENGTH || !e.cookies.contains body then return
      let stamp : Int := beVal (body.take 4)
      let nowS := timestamp e
      if stamp < nowS - COOKIE_LIFETIME || stamp > nowS then
        sendChunk (.params .error 0 [(SCTP_CAUSE_STALE_COOKIE, zeros 8)])
        return
      sendChunk (.plain .cookieAck 0 [])
      setState .established
  | .init .initAck _ tag rwnd outs ins itsn ps =>
    if e.assoc = .cookieWait then
      t1Cancel
      modE fun e => { e with
        rx := some { last := tsn_minus_one itsn, mis := (e.rx.map (·.mis)).getD [], dups := (e.rx.map (·.dups)).getD [] }
        reconfigResponseSeq := tsn_minus_one itsn
        remoteTag := tag
        hasSsthresh := true
        tx := { e.tx with ssthresh := rwnd } }
      getExtensions ps
      modE fun e => { e with inboundCount := min outs e.inboundMax
                             outboundCount := min e.outboundCount ins }
      let body := ((ps.find? fun p => p.1 == SCTP_STATE_COOKIE).map (·.2)).getD []
      let echo : Chunk := .plain .cookieEcho 0 body
      sendChunk echo
      t1Start echo
      setState .cookieEchoed
  | .plain .cookieAck _ _ =>
    if e.assoc = .cookieEchoed then
      t1Cancel
      setState .established
  | .params .error _ _ =>
    if e.assoc = .cookieWait || e.assoc = .cookieEchoed then
      t1Cancel
      setState .closed
  | _ => pure ()

/-- `_send_sack()`. -/
def sendSack : M Unit := do
  let e ← getE
  let rx ← match e.rx with
    | some r => pure r
    | none => crash "TypeError"
  let sorted := sortByKey rx.last rx.mis
  let rec build (gapNext : Option Int) (acc : List (Nat × Nat)) : List Int → List (Nat × Nat)
    | [] => acc
    | t :: ts =>
      let pos := ((t - rx.last) % 4294967296).toNat
      if pos > 65535 then acc                                  -- 16-bit offsets: stop
      else if gapNext = some t then
        let acc := match acc.reverse with
          | (a, _) :: r => (r.reverse ++ [(a, pos)])
          | [] => [(pos, pos)]
        build (some (tsn_plus_one t)) acc ts
      else if acc.length = SACK_MAX_ENTRIES then acc
      else build (some (tsn_plus_one t)) (acc ++ [(pos, pos)]) ts
  let gaps := build none [] sorted
  sendChunk (.sack 0 rx.last.toNat (max 0 e.rwnd).toNat gaps
    ((rx.dups.take (SACK_MAX_ENTRIES - gaps.length)).map (·.toNat)))
  modE fun e => { e with rx := some { rx with dups := [] }, sackNeeded := false }

/-- `_handle_data(data)`; `cookie` is the state cookie the real endpoint put into its INIT-ACK
(only used if this datagram is an INIT). -/
def handleData (data cookie : Bytes) : M Unit := do
  match parsePacket data with
  | .valueError => return
  | .crash k => crash k
  | .hang => crash "hang"
  | .ok (_, _, vtag, chunks) =>
    let e ← getE
    let nInit := (chunks.filter fun c => match c with | .init .init .. => true | _ => false).length
    -- an INIT chunk must not be bundled with other chunks
    if nInit > 0 && chunks.length ≠ 1 then return
    let expected := if nInit > 0 then 0 else e.localTag
    if vtag ≠ expected then return
    for c in chunks do receiveChunk cookie c
    if (← getE).sackNeeded then sendSack

/-! ## inputs -/

structure CreateParams where
  label : Bytes
  protocol : Bytes
  ordered : Bool
  maxRetransmits : Option Nat
  maxPacketLifeTime : Option Nat
  negotiated : Bool
  id : Option Int
  deriving Repr, Inhabited

inductive Input where
  | start (remotePort : Nat)
  | stop
  | rx (data cookie : Bytes)
  | fire (t : String)
  | task
  | create (p : CreateParams)
  | send (ch : Nat) (isStr : Bool) (data : Bytes)
  | close (ch : Nat)
  | threshold (ch : Nat) (v : Int)
  /-- the application registers a one-shot handler for event `kind` of channel `ch` that calls `send(data)` -/
  | react (kind ch : Nat) (isStr : Bool) (data : Bytes)
  deriving Repr, Inhabited

def encodeOpen (c : Chan) : Outcome Bytes :=
  let ct0 := DATA_CHANNEL_RELIABLE
  let ct1 := if !c.ordered then ct0 + 128 else ct0
  let (ct, rel) := match c.maxRetransmits, c.maxPacketLifeTime with
    | some r, _ => (ct1 + 1, r)
    | none, some l => (ct1 + 2, l)
    | none, none => (ct1, 0)
  if rel ≥ 4294967296 || c.label.length ≥ 65536 || c.protocol.length ≥ 65536 then .crash "struct.error"
  else .ok ([DATA_CHANNEL_OPEN, ct] ++ u16be 0 ++ u32be rel ++ u16be c.label.length
            ++ u16be c.protocol.length ++ c.label ++ c.protocol)

/-- `RTCDataChannel(transport, parameters)` called by the application. -/
def createChannel (p : CreateParams) : M Unit := do
  let e ← getE
  if p.negotiated && (match p.id with | none => true | some v => v < 0 || v > 65534) then
    emit (.exc "ValueError"); return
  let id : Option Nat := p.id.map (·.toNat)
  let c : Chan := { id := id, label := p.label, protocol := p.protocol, ordered := p.ordered
                    maxRetransmits := p.maxRetransmits, maxPacketLifeTime := p.maxPacketLifeTime
                    negotiated := p.negotiated }
  let i := e.chans.length
  if !p.negotiated then
    -- `_data_channel_open`
    match id with
    | some sid =>
      if (dictGet e.dataChannels sid).isSome then emit (.exc "ValueError"); return
    | none => pure ()
    match encodeOpen c with
    | .ok d =>
      setE { e with chans := e.chans ++ [c]
                    dataChannels := match id with | some sid => e.dataChannels ++ [(sid, i)] | none => e.dataChannels
                    dcQueue := e.dcQueue ++ [(i, WEBRTC_DCEP, d)] }
      queueTask .flush "data_channel_flush"
    | _ =>
      -- struct.error after the id was registered
      setE { e with dataChannels := match id with | some sid => e.dataChannels ++ [(sid, i)] | none => e.dataChannels }
      emit (.exc "error")
  else
    -- `_data_channel_add_negotiated`
    match id with
    | some sid =>
      if (dictGet e.dataChannels sid).isSome then emit (.exc "ValueError"); return
      -- `_setReadyState("open")` inside the constructor: nobody can be listening yet
      let c := if e.assoc = .established then { c with ready := 1 } else c
      setE { e with chans := e.chans ++ [c], dataChannels := e.dataChannels ++ [(sid, i)] }
    | none => pure ()

def runTask : M Unit := do
  let e ← getE
  match e.tasks with
  | [] => pure ()
  | t :: rest =>
    setE { e with tasks := rest }
    match t with
    | .flush => flush
    | .transmit => transmit
    | .reconfig => transmitReconfig
    | .resend c => sendChunk c
    | .resendReconfig param => do
      let b ← liftO (RcParam.resetOut param.1.toNat param.2.1.toNat param.2.2.1.toNat param.2.2.2).serialize
      sendChunk (.params .reconfig 0 [(SCTP_STR_RESET_OUT_REQUEST, b)])

def handle : Input → M Unit
  | .start rp => do
    let e ← getE
    if !e.started then
      setE { e with started := true, state := "connecting", remotePort := some rp
                    dcId := some (if e.isServer then 0 else 1), registered := true }
      if !e.isServer then
        let e ← getE
        let c : Chunk := .init .init 0 e.localTag e.rwnd.toNat e.outboundCount e.inboundMax
                          e.tx.localTsn.toNat localExtensions
        sendChunk c
        t1Start c
        setState .cookieWait
  | .stop => do
    if (← getE).assoc ≠ .closed then sendChunk (.params .abort 0 [])
    modE fun e => { e with registered := false }
    setState .closed
  | .rx d cookie => handleData d cookie
  | .fire "t1" => do
    modE fun e => { e with t1Failures := e.t1Failures + 1, t1 := false }
    let e ← getE
    if e.t1Failures > SCTP_MAX_INIT_RETRANS then setState .closed
    else
      match e.t1Chunk with
      | some c =>
        queueTask (.resend c) "resend"
        modE fun e => { e with t1 := true }
        emit (.timerStart "t1")
      | none => crash "AttributeError"
  | .fire "t2" => do
    modE fun e => { e with t2Failures := e.t2Failures + 1, t2 := false }
    let e ← getE
    if e.t2Failures > SCTP_MAX_ASSOCIATION_RETRANS then setState .closed
    else
      match e.t2Chunk with
      | some c =>
        queueTask (.resend c) "resend"
        modE fun e => { e with t2 := true }
        emit (.timerStart "t2")
      | none => crash "AttributeError"
  | .fire "reconfig" => do
    modE fun e => { e with rcTimer := false }
    let e ← getE
    match e.reconfigRequest with
    | some param =>
      if e.assoc = .established then
        queueTask (.resendReconfig param) "send_reconfig_param"
        rcStart
    | none => pure ()
  | .fire _ => do
    let e ← getE
    setE { e with tx := e.tx.t3Expired (1000 * e.now) }
    queueTask .transmit "transmit"
  | .task => runTask
  | .create p => createChannel p
  | .send i isStr data => do
    let c ← chanGet i
    if c.ready ≠ 1 then emit (.exc "InvalidStateError"); return
    dcSend i isStr data
  | .close i => dcClose i
  | .threshold i v => do
    if v < 0 || v > 4294967295 then emit (.exc "ValueError")
    else
      let c ← chanGet i
      chanSet i { c with threshold := v.toNat }
  | .react k i isStr data => modE fun e => { e with reactions := e.reactions ++ [(k, i, isStr, data)] }

/-- One atomic step at clock value `now`. After a crash the state is the one reached when the exception was raised. -/
def step (e : Ep) (now : Int) (inp : Input) : Ep × List Out :=
  let e := { e with now := now }
  match (handle inp).run.run (e, []) with
  | (.ok _, (e', outs)) => (e', outs)
  | (.error k, (e', outs)) => (e', outs ++ [.crash k])

end Aiortc.Sctp
