import Aiortc.Model.Sctp.Outbound
/-!
# `_receive_forward_tsn_chunk`, stream part, as a pure function (C06)

`Endpoint.receiveForwardTsn` is the handler inside the endpoint automaton (monadic, interleaved with the
delivery of the popped messages to the data-channel layer).  This file restates what the handler does to
`_inbound_streams` — after the duplicate test and the cumulative-TSN update — as a pure function, so
that non-interference between streams can be stated and proved.  It is tied to the real
`_receive_forward_tsn_chunk` by the `fwd` component of `harness/props/C06.py` (function-level
correspondence through `Drv/SctpPr.lean`).  No Mathlib.
-/
namespace Aiortc.Sctp
open Aiortc.Gen

/-- `for stream_id, inbound_stream in self._inbound_streams.items(): rwnd += inbound_stream.prune_chunks(cum)` -/
def fwdPrune (cum : Int) (ins : List (Nat × InStream)) : List (Nat × InStream) × Nat :=
  (ins.map fun p => (p.1, (p.2.pruneChunks cum).1), (ins.map fun p => (p.2.pruneChunks cum).2).sum)

/-- the sequence-number guard: `if uint16_gt(next_seq, inbound_stream.sequence_number): … = next_seq`. -/
def fwdGuard (s : InStream) (sseq : Int) : InStream :=
  let next := uint16_add sseq 1
  if uint16_gt next s.seq then { s with seq := next } else s

/-- one iteration of `for stream_id, stream_seq in chunk.streams`. -/
def fwdAdvanceOne (ins : List (Nat × InStream)) (sid : Nat) (sseq : Int) :
    Outcome (List (Nat × InStream) × List Msg) :=
  -- `_get_inbound_stream` creates the stream when it does not exist
  let ins := if (dictGet ins sid).isSome then ins else ins ++ [(sid, {})]
  let s := (dictGet ins sid).getD {}
  match (fwdGuard s sseq).popMessages with
  | .ok (msgs, s') => .ok (dictSet ins sid s', msgs)
  | .valueError => .valueError
  | .crash k => .crash k
  | .hang => .hang

def fwdAdvance : List (Nat × InStream) → List (Nat × Int) → Outcome (List (Nat × InStream) × List Msg)
  | ins, [] => .ok (ins, [])
  | ins, (sid, sseq) :: rest =>
    match fwdAdvanceOne ins sid sseq with
    | .ok (ins', msgs) =>
      match fwdAdvance ins' rest with
      | .ok (ins'', msgs') => .ok (ins'', msgs ++ msgs')
      | .valueError => .valueError
      | .crash k => .crash k
      | .hang => .hang
    | .valueError => .valueError
    | .crash k => .crash k
    | .hang => .hang

/-- The handler on the inbound streams: `(streams afterwards, bytes given back to a_rwnd by pruning,
messages delivered)`. -/
def fwdStreams (cum : Int) (streams : List (Nat × Int)) (ins : List (Nat × InStream)) :
    Outcome (List (Nat × InStream) × Nat × List Msg) :=
  let (ins1, freed) := fwdPrune cum ins
  match fwdAdvance ins1 streams with
  | .ok (ins2, msgs) => .ok (ins2, freed, msgs)
  | .valueError => .valueError
  | .crash k => .crash k
  | .hang => .hang

/-- the cumulative-TSN part of `_receive_forward_tsn_chunk` (after the duplicate test). -/
def fwdRx (rx : Rx) (cum : Int) : Rx :=
  -- `is_obsolete` reads `self._last_received_tsn` when called, i.e. the NEW cumulative TSN
  let mis0 := rx.mis.filter fun x => uint32_gt x cum
  let last := consolidate cum (sortByKey cum mis0)
  { last := last
    dups := rx.dups.filter fun x => uint32_gt x last
    mis := mis0.filter fun x => uint32_gt x last }

/-- `_receive_forward_tsn_chunk` on `(_last_received_tsn, _sack_misordered, _sack_duplicates,
_inbound_streams)`; returns also the bytes pruned and the messages handed to `_receive`. -/
def rxFwd (rx : Rx) (ins : List (Nat × InStream)) (cum : Int) (streams : List (Nat × Int)) :
    Outcome (Rx × List (Nat × InStream) × Nat × List Msg) :=
  if uint32_gte rx.last cum then .ok (rx, ins, 0, [])
  else
    match fwdStreams cum streams ins with
    | .ok (ins', freed, msgs) => .ok (fwdRx rx cum, ins', freed, msgs)
    | .valueError => .valueError
    | .crash k => .crash k
    | .hang => .hang

/-- `_receive_data_chunk` on `(_last_received_tsn …, _inbound_streams)`; returns the messages handed to
`_receive`. -/
def rxData (rx : Rx) (ins : List (Nat × InStream)) (c : RChunk) :
    Outcome (Rx × List (Nat × InStream) × List Msg) :=
  let (dup, rx') := markReceived rx c.tsn
  if dup then .ok (rx', ins, [])
  else
    let ins := if (dictGet ins c.sid).isSome then ins else ins ++ [(c.sid, {})]
    let s := (dictGet ins c.sid).getD {}
    -- still waiting in the reassembly queue: dropped as a duplicate before `add_chunk`
    if s.reasm.any (fun x => x.tsn == c.tsn) then .ok (rx', ins, [])
    else
    match s.addChunk c with
    | .ok s1 =>
      match s1.popMessages with
      | .ok (msgs, s2) => .ok (rx', dictSet ins c.sid s2, msgs)
      | .valueError => .valueError
      | .crash k => .crash k
      | .hang => .hang
    | .valueError => .valueError
    | .crash k => .crash k
    | .hang => .hang

/-- what the network hands to the receiver. -/
inductive Arrival where
  | data (c : RChunk)
  | fwd (cum : Int) (streams : List (Nat × Int))
  deriving Repr

abbrev RxSt := Rx × List (Nat × InStream)

def rxStep (st : RxSt) : Arrival → Outcome (RxSt × List Msg)
  | .data c =>
    match rxData st.1 st.2 c with
    | .ok (rx, ins, msgs) => .ok ((rx, ins), msgs)
    | .valueError => .valueError
    | .crash k => .crash k
    | .hang => .hang
  | .fwd cum streams =>
    match rxFwd st.1 st.2 cum streams with
    | .ok (rx, ins, _, msgs) => .ok ((rx, ins), msgs)
    | .valueError => .valueError
    | .crash k => .crash k
    | .hang => .hang

/-- run an arrival list, collecting everything delivered. -/
def rxRun : RxSt → List Arrival → Outcome (RxSt × List Msg)
  | st, [] => .ok (st, [])
  | st, a :: as =>
    match rxStep st a with
    | .ok (st', out) =>
      match rxRun st' as with
      | .ok (st'', out') => .ok (st'', out ++ out')
      | .valueError => .valueError
      | .crash k => .crash k
      | .hang => .hang
    | .valueError => .valueError
    | .crash k => .crash k
    | .hang => .hang

end Aiortc.Sctp
