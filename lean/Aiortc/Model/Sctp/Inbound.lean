import Aiortc.Gen.Serial
import Aiortc.Gen.Sctp
import Aiortc.Model.Bytes
/-!
# SCTP receive side: `_mark_received`, `InboundStream` (add_chunk / pop_messages / prune_chunks)

Line-by-line model of `src/aiortc/rtcsctptransport.py` (receive path).  Sequence arithmetic goes
through the regenerated `Aiortc.Gen.uint32_gt / uint32_gte / uint16_gt / uint16_add / tsn_plus_one /
tsn_minus_one`.  No Mathlib.
-/
namespace Aiortc.Sctp
open Aiortc.Gen

/-- A received DATA chunk (fields of `DataChunk` that the receive path reads). -/
structure RChunk where
  tsn : Int
  sid : Nat
  ssn : Int
  ppid : Nat
  flags : Nat
  data : Bytes
  deriving Repr, DecidableEq, Inhabited

/-- `flags & SCTP_DATA_LAST_FRAG` (mask 1), `& SCTP_DATA_FIRST_FRAG` (mask 2), `& SCTP_DATA_UNORDERED`
(mask 4) as arithmetic bit tests; `Props` check the masks against `Gen`. -/
def flagE (f : Nat) : Bool := f % 2 == 1
def flagB (f : Nat) : Bool := f / 2 % 2 == 1
def flagU (f : Nat) : Bool := f / 4 % 2 == 1

/-! ## `_mark_received` -/

structure Rx where
  last : Int                -- `_last_received_tsn` (set by INIT / INIT-ACK)
  mis : List Int            -- `_sack_misordered` (a set: duplicate-free, order irrelevant)
  dups : List Int           -- `_sack_duplicates`
  deriving Repr, DecidableEq, Inhabited

/-- Sort key of `_sack_misordered_sorted`: distance from the cumulative TSN. -/
def serialKey (base t : Int) : Int := (t - base) % 4294967296

def insertByKey (base : Int) (t : Int) : List Int → List Int
  | [] => [t]
  | x :: xs => if serialKey base t < serialKey base x then t :: x :: xs else x :: insertByKey base t xs

/-- `sorted(self._sack_misordered, key=…)` (insertion sort; keys of distinct TSNs are distinct). -/
def sortByKey (base : Int) (l : List Int) : List Int := l.foldr (insertByKey base) []

/-- `for tsn in sorted: if tsn == tsn_plus_one(last): last = tsn else: break`. -/
def consolidate (last : Int) : List Int → Int
  | [] => last
  | t :: ts => if t = tsn_plus_one last then consolidate t ts else last

/-- `_mark_received(tsn)`: returns `(is_duplicate, new state)`. -/
def markReceived (r : Rx) (tsn : Int) : Bool × Rx :=
  if uint32_gte r.last tsn || r.mis.contains tsn then
    (true, { r with dups := r.dups ++ [tsn] })
  else
    let mis := r.mis ++ [tsn]
    let last := consolidate r.last (sortByKey r.last mis)
    (false, { last := last
              mis := mis.filter (fun x => uint32_gt x last)
              dups := r.dups.filter (fun x => uint32_gt x last) })

/-! ## `InboundStream` -/

structure InStream where
  reasm : List RChunk := []
  seq : Int := 0
  deriving Repr, DecidableEq, Inhabited

/-- The `for i, rchunk in enumerate(self.reassembly)` loop of `add_chunk`: `none` = AssertionError. -/
def insertLoop (c : RChunk) : List RChunk → Option (List RChunk)
  | [] => some []                                  -- loop ends without inserting: chunk is dropped
  | r :: rs =>
    if r.tsn = c.tsn then none
    else if uint32_gt r.tsn c.tsn then some (c :: r :: rs)
    else (insertLoop c rs).map (r :: ·)

/-- `add_chunk`. -/
def InStream.addChunk (s : InStream) (c : RChunk) : Outcome InStream :=
  match s.reasm.getLast? with
  | none => .ok { s with reasm := [c] }
  | some l =>
    if uint32_gt c.tsn l.tsn then .ok { s with reasm := s.reasm ++ [c] }
    else match insertLoop c s.reasm with
      | none => .crash "AssertionError"
      | some r => .ok { s with reasm := r }

/-- A delivered message `(stream_id, protocol, user_data)`. -/
structure Msg where
  sid : Nat
  ppid : Nat
  data : Bytes
  deriving Repr, DecidableEq, Inhabited

/-- Loop variables of `pop_messages`. -/
structure PopSt where
  reasm : List RChunk
  seq : Int
  pos : Nat
  start : Option Nat
  expected : Int
  ordered : Bool
  out : List Msg
  deriving Repr, Inhabited

/-- Second half of the loop body (the chunk at `pos` continues the run that started at `sp`). -/
def popTail (st : PopSt) (chunk : RChunk) (sp : Nat) : PopSt :=
  if flagE chunk.flags then
    let run := (st.reasm.take (st.pos + 1)).drop sp
    let data := run.flatMap (·.data)
    let reasm := st.reasm.take sp ++ st.reasm.drop (st.pos + 1)
    let seq := if st.ordered && chunk.ssn = st.seq then uint16_add st.seq 1 else st.seq
    { st with reasm := reasm, seq := seq, pos := sp, start := none,
              out := st.out ++ [{ sid := chunk.sid, ppid := chunk.ppid, data := data }] }
  else
    { st with pos := st.pos + 1, expected := tsn_plus_one st.expected }

/-- One iteration of the `while pos < len(self.reassembly)` loop; `none` = loop exit (`break` or
condition false). -/
def popIter (st : PopSt) : Option PopSt :=
  match st.reasm[st.pos]? with
  | none => none
  | some chunk =>
    match st.start with
    | none =>
      let ordered := !flagU chunk.flags
      if !flagB chunk.flags then
        if ordered then none                                              -- break
        else some { st with ordered := ordered, pos := st.pos + 1 }       -- continue
      else if ordered && uint16_gt chunk.ssn st.seq then none             -- break
      else
        some (popTail { st with ordered := ordered, expected := chunk.tsn, start := some st.pos }
                chunk st.pos)
    | some sp =>
      if chunk.tsn ≠ st.expected then
        if st.ordered then none                                           -- break
        else some { st with start := none, pos := st.pos + 1 }            -- continue
      else some (popTail st chunk sp)

def popRun : Nat → PopSt → Option PopSt
  | 0, _ => none                     -- fuel exhausted (never happens with fuel = 2·len + 2, see Props)
  | fuel + 1, st =>
    match popIter st with
    | none => some st
    | some st' => popRun fuel st'

/-- `list(self.pop_messages())`: the messages yielded and the stream afterwards. -/
def InStream.popMessages (s : InStream) : Outcome (List Msg × InStream) :=
  let st0 : PopSt := { reasm := s.reasm, seq := s.seq, pos := 0, start := none, expected := 0,
                       ordered := true, out := [] }
  match popRun (2 * s.reasm.length + 2) st0 with
  | none => .hang
  | some st => .ok (st.out, { reasm := st.reasm, seq := st.seq })

/-! ### `prune_chunks` (fragments of messages that can no longer be completed) -/

/-- The inner `while` of `prune_chunks`: fragments following `prev` that belong to the same run. -/
def takeRun (prev : RChunk) : List RChunk → List RChunk × List RChunk
  | [] => ([], [])
  | c :: cs =>
    if !flagE prev.flags && !flagB c.flags && c.tsn = tsn_plus_one prev.tsn then
      let (r, rest) := takeRun c cs
      (c :: r, rest)
    else ([], c :: cs)

theorem takeRun_length (prev : RChunk) (l : List RChunk) :
    (takeRun prev l).2.length ≤ l.length := by
  induction l generalizing prev with
  | nil => simp [takeRun]
  | cons c cs ih =>
    unfold takeRun
    split
    · have := ih c; simp only [List.length_cons]; omega
    · simp

def pruneGo (tsn : Int) : Nat → List RChunk → List RChunk × Nat
  | 0, l => (l, 0)
  | _ + 1, [] => ([], 0)
  | fuel + 1, first :: cs =>
    let (run, rest) := takeRun first cs
    let group := first :: run
    let last := group.getLast?.getD first
    let dead := (!flagB first.flags && uint32_gte tsn (tsn_minus_one first.tsn))
             || (!flagE last.flags && uint32_gte tsn (tsn_plus_one last.tsn))
    let (kept, size) := pruneGo tsn fuel rest
    if dead then (kept, size + (group.map (·.data.length)).sum) else (group ++ kept, size)

/-- `prune_chunks(tsn)`: returns `(stream, bytes freed)`. -/
def InStream.pruneChunks (s : InStream) (tsn : Int) : InStream × Nat :=
  let (kept, size) := pruneGo tsn (s.reasm.length + 1) s.reasm
  ({ s with reasm := kept }, size)

end Aiortc.Sctp
