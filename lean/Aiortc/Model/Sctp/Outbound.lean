import Aiortc.Model.Sctp.Inbound
/-!
# SCTP send side: `_send`, `_transmit`, `_receive_sack_chunk`, `_t3_expired`, `_maybe_abandon`,
`_update_advanced_peer_ack_point`, flight-size bookkeeping

Line-by-line model of `src/aiortc/rtcsctptransport.py` (send path).  Time is an input: `now` is the
value of `time.time()` in ticks of 1/1024 s, an expiry is kept as the exact rational
`1000·now + 1024·lifetime_ms` (units of 1/1 024 000 s), so `expiry < time.time()` is an integer
comparison (exact as long as the lifetime is not a multiple of 125 ms, see harness).  RTO values are
not modelled (`_update_rto` is float arithmetic on measured round trips; no output depends on it).
-/
namespace Aiortc.Sctp
open Aiortc.Gen

/-- An outbound DATA chunk with the bookkeeping attributes `_send` attaches to it. -/
structure SChunk where
  tsn : Int
  sid : Nat
  ssn : Int
  ppid : Nat
  flags : Nat
  data : Bytes
  abandoned : Bool := false
  acked : Bool := false
  bookSize : Nat := 0
  expiry : Option Int := none          -- 1000·now + 1024·lifetime
  maxRetransmits : Option Int := none
  misses : Nat := 0
  retransmit : Bool := false
  sentCount : Nat := 0
  inFlight : Bool := false
  deriving Repr, DecidableEq, Inhabited

def SChunk.toR (c : SChunk) : RChunk :=
  { tsn := c.tsn, sid := c.sid, ssn := c.ssn, ppid := c.ppid, flags := c.flags, data := c.data }

/-- Things the send path does that are visible outside (in program order). -/
inductive TxEv where
  | data (c : RChunk)                                   -- `_send_chunk(DataChunk)`
  | fwd (cum : Int) (streams : List (Nat × Int))        -- `_send_chunk(ForwardTsnChunk)`
  | t3start | t3cancel
  deriving Repr, DecidableEq, Inhabited

/-- The sender-side fields of `RTCSctpTransport`. -/
structure Tx where
  cwnd : Nat
  ssthresh : Nat
  fastRecoveryExit : Option Int := none
  fastRecoveryTransmit : Bool := false
  forwardTsn : Option (Int × List (Nat × Int)) := none   -- `_forward_tsn_chunk`
  forwardNeeded : Bool := false
  forwardStreams : List (Nat × Int) := []                 -- dict, insertion ordered
  flight : Nat := 0
  localTsn : Int
  lastSacked : Int
  advAck : Int
  outQ : List SChunk := []
  streamSeq : List (Nat × Int) := []                      -- `_outbound_stream_seq` dict
  partialBytesAcked : Nat := 0
  sentQ : List SChunk := []
  t3 : Bool := false
  deriving Repr, DecidableEq, Inhabited

def USERDATA_MAX : Nat := USERDATA_MAX_LENGTH

/-- dict get / set on an insertion-ordered association list. -/
def dictGet {β} (d : List (Nat × β)) (k : Nat) : Option β := (d.find? (·.1 == k)).map (·.2)
def dictSet {β} (d : List (Nat × β)) (k : Nat) (v : β) : List (Nat × β) :=
  if d.any (·.1 == k) then d.map (fun e => if e.1 == k then (k, v) else e) else d ++ [(k, v)]
def dictDel {β} (d : List (Nat × β)) (k : Nat) : List (Nat × β) := d.filter (·.1 != k)

/-! ## `_send`: fragmentation -/

/-- The fragments `_send` appends to `_outbound_queue` for one message. `i` = fragment index. -/
def fragments (tsn : Int) (sid : Nat) (ssn : Int) (ppid : Nat) (ordered : Bool)
    (expiry maxRtx : Option Int) (n : Nat) (data : Bytes) : Nat → List SChunk
  | 0 => []
  | k + 1 =>
    let i := n - (k + 1)
    let ud := (data.drop (i * USERDATA_MAX)).take USERDATA_MAX
    let f0 := if ordered then 0 else SCTP_DATA_UNORDERED
    let f1 := if i = 0 then f0 + SCTP_DATA_FIRST_FRAG else f0
    let f2 := if i = n - 1 then f1 + SCTP_DATA_LAST_FRAG else f1
    { tsn := (tsn + i) % 4294967296, sid := sid, ssn := ssn, ppid := ppid, flags := f2, data := ud,
      bookSize := ud.length, expiry := expiry, maxRetransmits := maxRtx }
      :: fragments tsn sid ssn ppid ordered expiry maxRtx n data k

/-- Number of fragments: `math.ceil(len(user_data) / USERDATA_MAX_LENGTH)`. -/
def fragCount (len : Nat) : Nat := (len + USERDATA_MAX - 1) / USERDATA_MAX

/-- `_send` up to (not including) the final `await self._transmit()`. -/
def Tx.enqueue (t : Tx) (sid ppid : Nat) (data : Bytes) (expiry maxRtx : Option Int) (ordered : Bool) : Tx :=
  let ssn : Int := if ordered then (dictGet t.streamSeq sid).getD 0 else 0
  let n := fragCount data.length
  let chunks := fragments t.localTsn sid ssn ppid ordered expiry maxRtx n data n
  { t with
    localTsn := (t.localTsn + n) % 4294967296
    outQ := t.outQ ++ chunks
    streamSeq := if ordered then dictSet t.streamSeq sid (uint16_add ssn 1) else t.streamSeq }

/-! ## flight size -/

def decFlight (flight : Nat) (c : SChunk) : Nat × SChunk :=
  if c.inFlight then (flight - c.bookSize, { c with inFlight := false }) else (flight, c)

def incFlight (flight : Nat) (c : SChunk) : Nat × SChunk :=
  if !c.inFlight then (flight + c.bookSize, { c with inFlight := true }) else (flight, c)

/-! ## `_maybe_abandon` -/

/-- `abandon = (max_retransmits is not None and sent_count > max_retransmits) or
(expiry is not None and expiry < time.time())`; `now1000 = 1000·now`. -/
def shouldAbandon (c : SChunk) (now1000 : Int) : Bool :=
  (match c.maxRetransmits with | some m => decide ((c.sentCount : Int) > m) | none => false)
  || (match c.expiry with | some e => decide (e < now1000) | none => false)

def markAb (flight : Nat) (c : SChunk) : Nat × SChunk :=
  let c := { c with abandoned := true, retransmit := false }
  decFlight flight c

/-- Backward loop `for pos in range(chunk_pos, -1, -1)` over the reversed prefix (nearest first). -/
def abandonBack (flight : Nat) : List SChunk → Nat × List SChunk
  | [] => (flight, [])
  | c :: cs =>
    let (fl, c') := markAb flight c
    if flagB c.flags then (fl, c' :: cs)
    else let (fl', cs') := abandonBack fl cs; (fl', c' :: cs')

/-- Forward loop `for pos in range(chunk_pos, len)`; returns whether a LAST fragment was met. -/
def abandonFwd (flight : Nat) : List SChunk → Nat × List SChunk × Bool
  | [] => (flight, [], false)
  | c :: cs =>
    let (fl, c') := markAb flight c
    if flagE c.flags then (fl, c' :: cs, true)
    else let (fl', cs', e) := abandonFwd fl cs; (fl', c' :: cs', e)

/-- The `else:` of the forward loop: move the unsent rest of the message to the sent queue. -/
def abandonUnsent : List SChunk → List SChunk × List SChunk
  | [] => ([], [])
  | c :: cs =>
    let c' := { c with abandoned := true }
    if flagE c.flags then ([c'], cs)
    else let (m, rest) := abandonUnsent cs; (c' :: m, rest)

/-- `_maybe_abandon(self._sent_queue[pos])`. Returns `(abandoned?, state)`. -/
def Tx.maybeAbandon (t : Tx) (pos : Nat) (now1000 : Int) : Bool × Tx :=
  match t.sentQ[pos]? with
  | none => (false, t)
  | some chunk =>
    if chunk.abandoned then (true, t)
    else if !shouldAbandon chunk now1000 then (false, t)
    else
      -- backward from pos down to the FIRST fragment (inclusive of pos)
      let pre := t.sentQ.take (pos + 1)
      let post := t.sentQ.drop (pos + 1)
      let (fl1, preRev) := abandonBack t.flight pre.reverse
      let pre' := preRev.reverse
      -- forward from pos (again inclusive: chunk at pos is marked twice, idempotent)
      let cur := pre'.getLast?.getD chunk
      let (fl2, fwd, sawLast) := abandonFwd fl1 (cur :: post)
      let sent' := pre'.dropLast ++ fwd
      if sawLast then (true, { t with flight := fl2, sentQ := sent' })
      else
        let (moved, rest) := abandonUnsent t.outQ
        (true, { t with flight := fl2, sentQ := sent' ++ moved, outQ := rest })

/-! ## `_update_advanced_peer_ack_point` -/

def popAbandoned (adv : Int) (streams : List (Nat × Int)) (needed : Bool) :
    List SChunk → Int × List (Nat × Int) × Bool × List SChunk
  | [] => (adv, streams, needed, [])
  | c :: cs =>
    if c.abandoned then
      popAbandoned c.tsn (if !flagU c.flags then dictSet streams c.sid c.ssn else streams) true cs
    else (adv, streams, needed, c :: cs)

def Tx.updateAdvAck (t : Tx) : Tx :=
  let t := if uint32_gte t.lastSacked t.advAck then
      { t with advAck := t.lastSacked, forwardNeeded := false, forwardStreams := [] } else t
  let (adv, streams, needed, sent) := popAbandoned t.advAck t.forwardStreams t.forwardNeeded t.sentQ
  let t := { t with advAck := adv, forwardStreams := streams, forwardNeeded := needed, sentQ := sent }
  if t.forwardNeeded then { t with forwardTsn := some (t.advAck, t.forwardStreams) } else t

/-! ## `_transmit` -/

/-- Loop state of the retransmission `for chunk in self._sent_queue`. `ret = true`: the function
returned from inside the loop. -/
structure RtxSt where
  flight : Nat
  frt : Bool                -- `_fast_recovery_transmit`
  t3 : Bool
  earliest : Bool           -- `retransmit_earliest`
  done : List SChunk        -- processed prefix (reversed)
  evs : List TxEv           -- reversed
  ret : Bool := false
  deriving Repr, Inhabited

def t3Restart (t3 : Bool) : List TxEv := if t3 then [TxEv.t3cancel, TxEv.t3start] else [TxEv.t3start]

def rtxLoop (cwnd : Nat) : RtxSt → List SChunk → RtxSt × List SChunk
  | st, [] => (st, [])
  | st, c :: cs =>
    if c.retransmit then
      -- `if fast_recovery_transmit: … elif flight >= cwnd: return`
      if !st.frt && decide (st.flight ≥ cwnd) then
        ({ st with ret := true }, c :: cs)
      else
        let (fl, c1) := incFlight st.flight c
        let c2 := { c1 with misses := 0, retransmit := false, sentCount := c1.sentCount + 1 }
        let evs := TxEv.data c2.toR :: st.evs
        let (evs, t3) := if st.earliest then ((t3Restart st.t3).reverse ++ evs, true) else (evs, st.t3)
        rtxLoop cwnd { st with flight := fl, frt := false, t3 := t3, earliest := false,
                               done := c2 :: st.done, evs := evs } cs
    else
      rtxLoop cwnd { st with earliest := false, done := c :: st.done } cs

/-- `while self._outbound_queue and self._flight_size < cwnd`. -/
def newLoop (cwnd : Nat) : Nat → Nat → Bool → List SChunk → List SChunk → List TxEv →
    Nat × Bool × List SChunk × List SChunk × List TxEv
  | 0, fl, t3, outQ, sent, evs => (fl, t3, outQ, sent, evs)
  | _ + 1, fl, t3, [], sent, evs => (fl, t3, [], sent, evs)
  | fuel + 1, fl, t3, c :: outQ, sent, evs =>
    if fl < cwnd then
      let (fl', c1) := incFlight fl c
      let c2 := { c1 with sentCount := c1.sentCount + 1 }
      let evs := evs ++ [TxEv.data c2.toR] ++ (if t3 then [] else [TxEv.t3start])
      newLoop cwnd fuel fl' true outQ (sent ++ [c2]) evs
    else (fl, t3, c :: outQ, sent, evs)

/-- `_transmit()`. -/
def Tx.transmit (t : Tx) : Tx × List TxEv :=
  -- FORWARD TSN
  let (t, evs0) := match t.forwardTsn with
    | some (cum, streams) =>
      ({ t with forwardTsn := none, t3 := true },
       [TxEv.fwd cum streams] ++ (if t.t3 then [] else [TxEv.t3start]))
    | none => (t, [])
  let burst := if t.fastRecoveryExit.isSome then 2 * USERDATA_MAX else 4 * USERDATA_MAX
  let cwnd := min (t.flight + burst) t.cwnd
  let (st, rest) := rtxLoop cwnd { flight := t.flight, frt := t.fastRecoveryTransmit, t3 := t.t3,
                                   earliest := true, done := [], evs := [] } t.sentQ
  let sent := st.done.reverse ++ rest
  let t := { t with flight := st.flight, fastRecoveryTransmit := st.frt, t3 := st.t3, sentQ := sent }
  let evs1 := evs0 ++ st.evs.reverse
  if st.ret then (t, evs1)
  else
    let (fl, t3, outQ, sent', evs2) := newLoop cwnd (t.outQ.length + 1) t.flight t.t3 t.outQ t.sentQ evs1
    ({ t with flight := fl, t3 := t3, outQ := outQ, sentQ := sent' }, evs2)

/-! ## `_t3_expired` (up to `ensure_future(self._transmit())`) -/

def t3Mark (now1000 : Int) : Nat → Nat → Tx → Tx
  | 0, _, t => t
  | fuel + 1, pos, t =>
    -- `for chunk in list(self._sent_queue)`: the snapshot has the ORIGINAL length; chunks moved in
    -- by `_maybe_abandon` are appended behind it and are not visited
    let (ab, t) := t.maybeAbandon pos now1000
    let sent := t.sentQ.modify pos fun c =>
      let c := if !ab then { c with retransmit := true } else c
      { c with acked := false, inFlight := false }
    t3Mark now1000 fuel (pos + 1) { t with sentQ := sent }

def Tx.t3Expired (t : Tx) (now1000 : Int) : Tx :=
  let t := { t with t3 := false }
  let t := t3Mark now1000 t.sentQ.length 0 t
  let t := t.updateAdvAck
  { t with fastRecoveryExit := none, flight := 0, partialBytesAcked := 0,
           ssthresh := max (t.cwnd / 2) (4 * USERDATA_MAX), cwnd := USERDATA_MAX }

/-! ## `_receive_sack_chunk` (up to `_data_channel_flush` / `_transmit`) -/

/-- `while sent_queue and uint32_gte(last_sacked, sent_queue[0].tsn): popleft …`. -/
def ackLoop (lastSacked : Int) : Nat → Nat → Nat → List SChunk → Nat × Nat × Nat × List SChunk
  | flight, done, doneBytes, [] => (flight, done, doneBytes, [])
  | flight, done, doneBytes, c :: cs =>
    if uint32_gte lastSacked c.tsn then
      let doneBytes := if !c.acked then doneBytes + c.bookSize else doneBytes
      let (fl, _) := decFlight flight c
      ackLoop lastSacked fl (done + 1) doneBytes cs
    else (flight, done, doneBytes, c :: cs)

/-- `seen`: the TSNs covered by the gap blocks (each block clipped to `limit`, the offset of the highest
outstanding TSN), and `highest_seen_tsn` (the last one computed, initially the cumulative TSN). -/
def gapSeen (cum : Int) (limit : Nat) (gaps : List (Nat × Nat)) : List Int × Int :=
  let all := gaps.flatMap fun g =>
    (List.range (min g.2 limit + 1 - g.1)).map fun i => (cum + ((g.1 + i : Nat) : Int)) % 4294967296
  (all, all.getLast?.getD cum)

/-- HTNA loop. -/
def htnaLoop (seen : List Int) (highestSeen : Int) :
    Nat → Nat → Int → List SChunk → List SChunk → Nat × Nat × Int × List SChunk
  | flight, doneBytes, hna, acc, [] => (flight, doneBytes, hna, acc.reverse)
  | flight, doneBytes, hna, acc, c :: cs =>
    if uint32_gt c.tsn highestSeen then (flight, doneBytes, hna, acc.reverse ++ c :: cs)
    else if seen.contains c.tsn && !c.acked then
      let c1 := { c with acked := true }
      let (fl, c2) := decFlight flight c1
      htnaLoop seen highestSeen fl (doneBytes + c.bookSize) c.tsn (c2 :: acc) cs
    else htnaLoop seen highestSeen flight doneBytes hna (c :: acc) cs

/-- Strike loop over the snapshot `list(self._sent_queue)`. -/
def strikeLoop (seen : List Int) (hna : Int) (now1000 : Int) : Nat → Nat → Tx → Bool → Tx × Bool
  | 0, _, t, loss => (t, loss)
  | fuel + 1, pos, t, loss =>
    match t.sentQ[pos]? with
    | none => (t, loss)
    | some c =>
      if uint32_gt c.tsn hna then (t, loss)
      else if !seen.contains c.tsn then
        let misses := c.misses + 1
        if misses = 3 then
          let t := { t with sentQ := t.sentQ.modify pos fun c => { c with misses := 0 } }
          let (ab, t) := t.maybeAbandon pos now1000
          let cur := t.sentQ[pos]?.getD c
          let cur := if !ab then { cur with retransmit := true } else cur
          let cur := { cur with acked := false }
          let (fl, cur) := decFlight t.flight cur
          strikeLoop seen hna now1000 fuel (pos + 1)
            { t with flight := fl, sentQ := t.sentQ.modify pos fun _ => cur } true
        else
          strikeLoop seen hna now1000 fuel (pos + 1)
            { t with sentQ := t.sentQ.modify pos fun c => { c with misses := misses } } loss
      else strikeLoop seen hna now1000 fuel (pos + 1) t loss

/-- A SACK is ignored when it is stale or acknowledges data which was never sent: its cumulative TSN must lie
between the last one acknowledged and the last TSN assigned (serial order). -/
def Tx.sackStale (t : Tx) (cum : Int) : Bool :=
  !uint32_gte cum t.lastSacked || uint32_gt cum (tsn_minus_one t.localTsn)

/-- `_receive_sack_chunk` without the trailing flush/transmit. `none` = ignored (stale SACK). -/
def Tx.receiveSack (t : Tx) (cum : Int) (gaps : List (Nat × Nat)) (now1000 : Int) :
    Outcome (Option (Tx × List TxEv)) :=
  if t.sackStale cum then .ok none
  else
    let t := { t with lastSacked := cum }
    let fully := decide (t.flight ≥ t.cwnd)
    let (fl, done, doneBytes, sent) := ackLoop cum t.flight 0 0 t.sentQ
    let t := { t with flight := fl, sentQ := sent }
    let r : Outcome (Tx × Nat × Bool) :=
      if gaps.isEmpty then .ok (t, doneBytes, false)
      else
        let limit : Nat := match t.sentQ.getLast? with
          | some l => if uint32_gt l.tsn cum then ((l.tsn - cum) % 4294967296).toNat else 0
          | none => 0
        let (seen, highestSeen) := gapSeen cum limit gaps
        let (fl, db, hna, sent) := htnaLoop seen highestSeen t.flight doneBytes cum [] t.sentQ
        let t := { t with flight := fl, sentQ := sent }
        let (t, loss) := strikeLoop seen hna now1000 t.sentQ.length 0 t false
        .ok (t, db, loss)
    match r with
    | .ok (t, doneBytes, loss) =>
      -- congestion window
      let r2 : Outcome Tx :=
        match t.fastRecoveryExit with
        | none =>
          let t := if done > 0 && fully then
              if t.cwnd ≤ t.ssthresh then { t with cwnd := t.cwnd + min doneBytes USERDATA_MAX }
              else
                let pba := t.partialBytesAcked + doneBytes
                if pba ≥ t.cwnd then { t with partialBytesAcked := pba - t.cwnd, cwnd := t.cwnd + USERDATA_MAX }
                else { t with partialBytesAcked := pba }
            else t
          if loss then
            match t.sentQ.getLast? with
            | none => .crash "IndexError"
            | some l =>
              let ss := max (t.cwnd / 2) (4 * USERDATA_MAX)
              .ok { t with ssthresh := ss, cwnd := ss, partialBytesAcked := 0,
                           fastRecoveryExit := some l.tsn, fastRecoveryTransmit := true }
          else .ok t
        | some ex => if uint32_gte cum ex then .ok { t with fastRecoveryExit := none } else .ok t
      match r2 with
      | .ok t =>
        let (t, evs) :=
          if t.sentQ.isEmpty then ({ t with t3 := false }, if t.t3 then [TxEv.t3cancel] else [])
          else if done > 0 then ({ t with t3 := true }, t3Restart t.t3)
          else (t, [])
        .ok (some (t.updateAdvAck, evs))
      | .valueError => .valueError
      | .crash k => .crash k
      | .hang => .hang
    | .valueError => .valueError
    | .crash k => .crash k
    | .hang => .hang

end Aiortc.Sctp
