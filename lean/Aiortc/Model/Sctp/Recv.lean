import Aiortc.Model.Sctp.Endpoint
/-!
# C01: pure re-statements of the data path (no new behaviour)

* `Tx.sendAll`   — a sequence of `_send()` calls (only the part that creates chunks: `Tx.enqueue`).
* `Recv.step`    — `_receive_data_chunk` as a pure function: `markReceived` + stream lookup +
  `InStream.addChunk` + `InStream.popMessages`, mirroring the monadic `receiveData` of `Endpoint.lean`
  (same calls in the same order; the side effects that are not part of C01 — `sackNeeded`, `rwnd`,
  the application callback — are left out).  Tied to the REAL `_receive_data_chunk` by the
  function-level correspondence component `recv` of `harness/props/C01.py`.
* `encodeUser` / `decodeUser` — the PPID mapping of `_data_channel_send` / `_data_channel_receive`
  (same case split as `handle (.send …)` / `dcReceive` in `Endpoint.lean`).

No Mathlib (linked into the driver).
-/
namespace Aiortc.Sctp
open Aiortc.Gen

/-- One `_send(stream_id, pp_id, user_data, ordered=…)` call of a reliable channel
(`expiry = max_retransmits = None`). -/
structure SMsg where
  sid : Nat
  ppid : Nat
  data : Bytes
  ordered : Bool
  deriving Repr, DecidableEq, Inhabited

/-- The `(stream_id, pp_id, user_data)` tuple the receiver hands to `_receive`. -/
def SMsg.toMsg (m : SMsg) : Msg := { sid := m.sid, ppid := m.ppid, data := m.data }

def Tx.send (t : Tx) (m : SMsg) : Tx := t.enqueue m.sid m.ppid m.data none none m.ordered

/-- A sequence of `_send` calls (chunk creation only; `_transmit` does not create or alter DATA chunks'
wire fields). -/
def Tx.sendAll (t : Tx) (ms : List SMsg) : Tx := ms.foldl Tx.send t

/-! ## receiver -/

/-- The receive-side fields of `RTCSctpTransport` that `_receive_data_chunk` reads or writes. -/
structure Recv where
  rx : Rx
  streams : List (Nat × InStream) := []
  deriving Repr, DecidableEq, Inhabited

/-- `_receive_data_chunk(chunk)`: new state and the messages passed to `_receive`, in order. -/
def Recv.step (r : Recv) (c : RChunk) : Outcome (Recv × List Msg) :=
  let (dup, rx') := markReceived r.rx c.tsn
  if dup then .ok ({ r with rx := rx' }, [])
  else
    -- `_get_inbound_stream`: creates an empty `InboundStream` when absent
    let s := (dictGet r.streams c.sid).getD {}
    -- still waiting in the reassembly queue: dropped as a duplicate before `add_chunk`
    if s.reasm.any (fun x => x.tsn == c.tsn) then .ok ({ r with rx := rx' }, [])
    else
    match s.addChunk c with
    | .ok s1 =>
      match s1.popMessages with
      | .ok (msgs, s2) => .ok ({ rx := rx', streams := dictSet r.streams c.sid s2 }, msgs)
      | .valueError => .valueError
      | .crash k => .crash k
      | .hang => .hang
    | .valueError => .valueError
    | .crash k => .crash k
    | .hang => .hang

/-- Feed an arrival list; the messages delivered so far are accumulated in order. -/
def Recv.run : Recv → List RChunk → Outcome (Recv × List Msg)
  | r, [] => .ok (r, [])
  | r, c :: cs =>
    match r.step c with
    | .ok (r1, out1) =>
      match Recv.run r1 cs with
      | .ok (r2, out2) => .ok (r2, out1 ++ out2)
      | .valueError => .valueError
      | .crash k => .crash k
      | .hang => .hang
    | .valueError => .valueError
    | .crash k => .crash k
    | .hang => .hang

/-- Receiver state after the handshake: `_last_received_tsn = tsn_minus_one(initial_tsn)`. -/
def Recv.init (initialTsn : Int) : Recv :=
  { rx := { last := tsn_minus_one initialTsn, mis := [], dups := [] } }

/-! ## PPID mapping of the data-channel layer -/

/-- `_data_channel_send`: `(pp_id, user_data)` for `send(str)` (`isStr`, `data` = its UTF-8 encoding)
or `send(bytes)`. -/
def encodeUser (isStr : Bool) (data : Bytes) : Nat × Bytes :=
  if data.isEmpty then (if isStr then WEBRTC_STRING_EMPTY else WEBRTC_BINARY_EMPTY, [0])
  else (if isStr then WEBRTC_STRING else WEBRTC_BINARY, data)

/-- `_data_channel_receive`, user-message branches: the `(is str, payload)` emitted as a `message`
event, `none` when nothing is emitted (DCEP, unknown PPID, undecodable string). -/
def decodeUser (ppid : Nat) (data : Bytes) : Option (Bool × Bytes) :=
  if ppid = WEBRTC_DCEP && !data.isEmpty then none
  else if ppid = WEBRTC_STRING then (if utf8Valid data then some (true, data) else none)
  else if ppid = WEBRTC_STRING_EMPTY then some (true, [])
  else if ppid = WEBRTC_BINARY then some (false, data)
  else if ppid = WEBRTC_BINARY_EMPTY then some (false, [])
  else none

end Aiortc.Sctp
