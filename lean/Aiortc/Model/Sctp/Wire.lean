import Aiortc.Model.Bytes
import Aiortc.Model.Crc32c
import Aiortc.Gen.Sctp
/-!
# SCTP wire format — model of the top of `src/aiortc/rtcsctptransport.py`

`padl`, `encode_params` / `decode_params`, the 15 chunk classes (`__init__`, `body`, `__bytes__`),
`parse_packet`, `serialize_packet`, and the three RE-CONFIG parameter classes.  No Mathlib.

Conventions
* a Python `bytes` is a `Bytes` (`List Nat`, every element `< 256`: `IsBytes`);
* every parser returns an `Outcome`: `ok`, `valueError`, `crash "struct.error"`, `hang`;
* every function that exists in two versions takes `fixed : Bool`:
  `fixed = false` is the pinned code (zero parameter length ⇒ `decode_params` never returns = `hang`;
  short chunk bodies ⇒ `struct.error` escapes `parse_packet`; short RE-CONFIG parameters ⇒ `struct.error`),
  `fixed = true` is the code after `fixes/C08-*.patch` (all three are `ValueError`).
  The un-suffixed names (`parsePacket`, `decodeParams`, …) are the FIXED behaviour.
* Python loops over `pos` are modelled on the remaining bytes `rest = data[pos:]`
  (`data[pos+a : pos+b] = slice rest a b`, `pos += n` ⇒ `rest.drop n`, `pos <= len - 4` ⇔ `4 ≤ rest.length`),
  with fuel = length + 1, which is exhausted only by a loop that really does not advance.
-/
namespace Aiortc.Sctp.Wire
open Aiortc Aiortc.Gen Aiortc.Crc32c

/-- `(type, value)` of a chunk parameter. -/
abbrev Param := Nat × Bytes

/-- `padl(length)` — the regenerated function, on `Nat`. -/
def padl (n : Nat) : Nat := (sctp_padl (n : Int)).toNat

def u32le (n : Nat) : Bytes := [n % 256, n / 256 % 256, n / 65536 % 256, n / 16777216 % 256]

/-! ## struct readers (consume from the front; `none` = not enough bytes = `struct.error`) -/

def takeU16 : Bytes → Option (Nat × Bytes)
  | a :: b :: r => some (a * 256 + b, r)
  | _ => none
def takeU32 : Bytes → Option (Nat × Bytes)
  | a :: b :: c :: d :: r => some (((a * 256 + b) * 256 + c) * 256 + d, r)
  | _ => none

/-- After the fix a `struct.error` raised while parsing is reported as `ValueError`. -/
def structToValue {α} (fixed : Bool) : Outcome α → Outcome α
  | .crash k => if fixed && k == "struct.error" then .valueError else .crash k
  | o => o

/-! ## parameters -/

/-- `decode_params`: loop on `rest = body[pos:]`. -/
def decodeParamsAux (fixed : Bool) : Nat → Bytes → Outcome (List Param)
  | 0, _ => .hang
  | fuel + 1, rest =>
    match rest with
    | t0 :: t1 :: l0 :: l1 :: _ =>
      let len := l0 * 256 + l1
      -- fix: `if param_length < 4: raise ValueError`
      if fixed && len < 4 then .valueError
      else
        match decodeParamsAux fixed fuel (rest.drop (len + padl len)) with
        | .ok ps => .ok ((t0 * 256 + t1, slice rest 4 len) :: ps)
        | e => e
    | _ => .ok []

def decodeParamsG (fixed : Bool) (body : Bytes) : Outcome (List Param) :=
  decodeParamsAux fixed (body.length + 1) body

/-- `encode_params`: the loop variable `padding` is the first argument. -/
def encodeParamsAux : Bytes → List Param → Bytes
  | _, [] => []
  | pad, (t, v) :: rest =>
    pad ++ (u16be t ++ (u16be (v.length + 4) ++ (v ++ encodeParamsAux (zeros (padl (v.length + 4))) rest)))

def encodeParams (ps : List Param) : Bytes := encodeParamsAux [] ps

/-- `pack("!HH", param_type, param_length)` succeeds for every parameter. -/
def paramsInRange (ps : List Param) : Bool :=
  ps.all fun p => decide (p.1 < 65536) && decide (p.2.length + 4 < 65536)

/-! ## chunk classes -/

inductive PlainKind where
  | cookieEcho | cookieAck | shutdownAck | shutdownComplete
  deriving DecidableEq, Repr
inductive ParamsKind where
  | heartbeat | heartbeatAck | abort | error | reconfig
  deriving DecidableEq, Repr
inductive InitKind where
  | init | initAck
  deriving DecidableEq, Repr

/-- The chunk classes of `CHUNK_CLASSES`. -/
inductive Cls where
  | plain (k : PlainKind) | params (k : ParamsKind) | data | init (k : InitKind)
  | sack | shutdown | forwardTsn
  deriving DecidableEq, Repr

def PlainKind.ty : PlainKind → Nat
  | .cookieEcho => CT_CookieEchoChunk | .cookieAck => CT_CookieAckChunk
  | .shutdownAck => CT_ShutdownAckChunk | .shutdownComplete => CT_ShutdownCompleteChunk
def ParamsKind.ty : ParamsKind → Nat
  | .heartbeat => CT_HeartbeatChunk | .heartbeatAck => CT_HeartbeatAckChunk
  | .abort => CT_AbortChunk | .error => CT_ErrorChunk | .reconfig => CT_ReconfigChunk
def InitKind.ty : InitKind → Nat
  | .init => CT_InitChunk | .initAck => CT_InitAckChunk

/-- `cls.type`. -/
def Cls.ty : Cls → Nat
  | .plain k => k.ty | .params k => k.ty | .data => CT_DataChunk | .init k => k.ty
  | .sack => CT_SackChunk | .shutdown => CT_ShutdownChunk | .forwardTsn => CT_ForwardTsnChunk

/-- `cls.__name__`. -/
def Cls.name : Cls → String
  | .plain .cookieEcho => "CookieEchoChunk" | .plain .cookieAck => "CookieAckChunk"
  | .plain .shutdownAck => "ShutdownAckChunk" | .plain .shutdownComplete => "ShutdownCompleteChunk"
  | .params .heartbeat => "HeartbeatChunk" | .params .heartbeatAck => "HeartbeatAckChunk"
  | .params .abort => "AbortChunk" | .params .error => "ErrorChunk" | .params .reconfig => "ReconfigChunk"
  | .data => "DataChunk" | .init .init => "InitChunk" | .init .initAck => "InitAckChunk"
  | .sack => "SackChunk" | .shutdown => "ShutdownChunk" | .forwardTsn => "ForwardTsnChunk"

/-- `CHUNK_CLASSES`, in the order of the source. -/
def chunkClasses : List Cls :=
  [.data, .init .init, .init .initAck, .sack, .params .heartbeat, .params .heartbeatAck, .params .abort,
   .shutdown, .plain .shutdownAck, .params .error, .plain .cookieEcho, .plain .cookieAck,
   .plain .shutdownComplete, .params .reconfig, .forwardTsn]

/-- `CHUNK_TYPES.get(chunk_type)`; the dict is built from the list, so the last entry of a type wins. -/
def classOf (ty : Nat) : Option Cls := chunkClasses.reverse.find? fun c => c.ty == ty

/-- A chunk object: class + the attributes the class defines. -/
inductive Chunk where
  | plain (k : PlainKind) (flags : Nat) (body : Bytes)
  | params (k : ParamsKind) (flags : Nat) (ps : List Param)
  | data (flags tsn sid sseq proto : Nat) (ud : Bytes)
  | init (k : InitKind) (flags tag rwnd outs ins itsn : Nat) (ps : List Param)
  | sack (flags ctsn rwnd : Nat) (gaps : List (Nat × Nat)) (dups : List Nat)
  | shutdown (flags ctsn : Nat)
  | forwardTsn (flags ctsn : Nat) (streams : List (Nat × Nat))
  deriving DecidableEq, Repr

def Chunk.cls : Chunk → Cls
  | .plain k .. => .plain k | .params k .. => .params k | .data .. => .data | .init k .. => .init k
  | .sack .. => .sack | .shutdown .. => .shutdown | .forwardTsn .. => .forwardTsn

/-! ## serialisation -/

/-- `Chunk.__bytes__` (used by every class except DATA and SACK). -/
def genericBytes (ty flags : Nat) (body : Bytes) : Bytes :=
  u8 ty ++ (u8 flags ++ (u16be (body.length + 4) ++ (body ++ zeros (padl body.length))))

def pairsBytes (l : List (Nat × Nat)) : Bytes := l.flatMap fun g => u16be g.1 ++ u16be g.2
def u32sBytes (l : List Nat) : Bytes := l.flatMap u32be

/-- The `body` property of the classes that have one. -/
def initBody (tag rwnd outs ins itsn : Nat) (ps : List Param) : Bytes :=
  u32be tag ++ (u32be rwnd ++ (u16be outs ++ (u16be ins ++ (u32be itsn ++ encodeParams ps))))
def forwardTsnBody (ctsn : Nat) (streams : List (Nat × Nat)) : Bytes := u32be ctsn ++ pairsBytes streams

/-- `bytes(chunk)`, valid under `Chunk.inRange`. -/
def Chunk.bytes : Chunk → Bytes
  | .plain k f b => genericBytes k.ty f b
  | .params k f ps => genericBytes k.ty f (encodeParams ps)
  | .data f tsn sid sseq proto ud =>
    let length := 16 + ud.length
    u8 CT_DataChunk ++ (u8 f ++ (u16be length ++ (u32be tsn ++ (u16be sid ++ (u16be sseq ++ (u32be proto ++
      (ud ++ (if length % 4 ≠ 0 then zeros (padl length) else []))))))))
  | .init k f tag rwnd outs ins itsn ps => genericBytes k.ty f (initBody tag rwnd outs ins itsn ps)
  | .sack f ctsn rwnd gaps dups =>
    let length := 16 + 4 * (gaps.length + dups.length)
    u8 CT_SackChunk ++ (u8 f ++ (u16be length ++ (u32be ctsn ++ (u32be rwnd ++ (u16be gaps.length ++
      (u16be dups.length ++ (pairsBytes gaps ++ u32sBytes dups)))))))
  | .shutdown f ctsn => genericBytes CT_ShutdownChunk f (u32be ctsn)
  | .forwardTsn f ctsn streams => genericBytes CT_ForwardTsnChunk f (forwardTsnBody ctsn streams)

def pairsInRange (l : List (Nat × Nat)) : Bool := l.all fun g => decide (g.1 < 65536) && decide (g.2 < 65536)
def u32sInRange (l : List Nat) : Bool := l.all fun t => decide (t < 4294967296)

/-- Every `struct.pack` inside `bytes(chunk)` succeeds (fields in wire range, length field fits 16 bits). -/
def Chunk.inRange : Chunk → Bool
  | .plain _ f b => decide (f < 256) && decide (b.length + 4 < 65536)
  | .params _ f ps => decide (f < 256) && paramsInRange ps && decide ((encodeParams ps).length + 4 < 65536)
  | .data f tsn sid sseq proto ud =>
    decide (f < 256) && decide (tsn < 4294967296) && decide (sid < 65536) && decide (sseq < 65536) &&
    decide (proto < 4294967296) && decide (16 + ud.length < 65536)
  | .init _ f tag rwnd outs ins itsn ps =>
    decide (f < 256) && decide (tag < 4294967296) && decide (rwnd < 4294967296) && decide (outs < 65536) &&
    decide (ins < 65536) && decide (itsn < 4294967296) && paramsInRange ps &&
    decide (16 + (encodeParams ps).length + 4 < 65536)
  | .sack f ctsn rwnd gaps dups =>
    decide (f < 256) && decide (ctsn < 4294967296) && decide (rwnd < 4294967296) &&
    decide (16 + 4 * (gaps.length + dups.length) < 65536) && pairsInRange gaps && u32sInRange dups
  | .shutdown f ctsn => decide (f < 256) && decide (ctsn < 4294967296)
  | .forwardTsn f ctsn streams =>
    decide (f < 256) && decide (ctsn < 4294967296) && pairsInRange streams &&
    decide (4 + 4 * streams.length + 4 < 65536)

/-- `serialize_packet` when every `pack` succeeds. -/
def serializePacketRaw (sp dp tag : Nat) (c : Chunk) : Bytes :=
  let data := c.bytes
  let checksum := crc32c (u16be sp ++ (u16be dp ++ (u32be tag ++ ([0, 0, 0, 0] ++ data))))
  u16be sp ++ (u16be dp ++ (u32be tag ++ (u32le checksum ++ data)))

def headerInRange (sp dp tag : Nat) : Bool :=
  decide (sp < 65536) && decide (dp < 65536) && decide (tag < 4294967296)

/-- `serialize_packet(source_port, destination_port, verification_tag, chunk)`. -/
def serializePacket (sp dp tag : Nat) (c : Chunk) : Outcome Bytes :=
  if headerInRange sp dp tag && c.inRange then .ok (serializePacketRaw sp dp tag c)
  else .crash "struct.error"

/-! ## chunk constructors (`cls(flags=…, body=…)`) -/

def readPairs : Nat → Bytes → Option (List (Nat × Nat) × Bytes)
  | 0, r => some ([], r)
  | n + 1, r =>
    match takeU16 r with
    | none => none
    | some (a, r) => match takeU16 r with
      | none => none
      | some (b, r) => match readPairs n r with
        | none => none
        | some (l, r) => some ((a, b) :: l, r)

def readU32s : Nat → Bytes → Option (List Nat × Bytes)
  | 0, r => some ([], r)
  | n + 1, r =>
    match takeU32 r with
    | none => none
    | some (a, r) => match readU32s n r with
      | none => none
      | some (l, r) => some (a :: l, r)

/-- FORWARD-TSN: `while pos < len(body): unpack_from("!HH", body, pos); pos += 4`. -/
def readAllPairs : Bytes → Option (List (Nat × Nat))
  | [] => some []
  | a :: b :: c :: d :: r => match readAllPairs r with
    | none => none
    | some l => some ((a * 256 + b, c * 256 + d) :: l)
  | _ => none

def parseDataBody (flags : Nat) (body : Bytes) : Option Chunk :=
  match takeU32 body with
  | none => none
  | some (tsn, r) => match takeU16 r with
    | none => none
    | some (sid, r) => match takeU16 r with
      | none => none
      | some (sseq, r) => match takeU32 r with
        | none => none
        | some (proto, r) => some (.data flags tsn sid sseq proto r)

/-- The fixed part of INIT / INIT-ACK: `unpack_from("!LLHHL", body)` and `body[16:]`. -/
def parseInitHead (body : Bytes) : Option (Nat × Nat × Nat × Nat × Nat × Bytes) :=
  match takeU32 body with
  | none => none
  | some (tag, r) => match takeU32 r with
    | none => none
    | some (rwnd, r) => match takeU16 r with
      | none => none
      | some (outs, r) => match takeU16 r with
        | none => none
        | some (ins, r) => match takeU32 r with
          | none => none
          | some (itsn, r) => some (tag, rwnd, outs, ins, itsn, r)

def parseSackBody (flags : Nat) (body : Bytes) : Option Chunk :=
  match takeU32 body with
  | none => none
  | some (ctsn, r) => match takeU32 r with
    | none => none
    | some (rwnd, r) => match takeU16 r with
      | none => none
      | some (ng, r) => match takeU16 r with
        | none => none
        | some (nd, r) => match readPairs ng r with
          | none => none
          | some (gaps, r) => match readU32s nd r with
            | none => none
            | some (dups, _) => some (.sack flags ctsn rwnd gaps dups)

/-- `chunk_cls(flags=chunk_flags, body=chunk_body)`; `fixed` only reaches `decode_params`. -/
def parseChunkBody (fixed : Bool) (cls : Cls) (flags : Nat) (body : Bytes) : Outcome Chunk :=
  match cls with
  | .plain k => .ok (.plain k flags body)
  | .params k =>
    if body.isEmpty then .ok (.params k flags [])
    else match decodeParamsG fixed body with
      | .ok ps => .ok (.params k flags ps)
      | .valueError => .valueError | .crash e => .crash e | .hang => .hang
  | .data =>
    if body.isEmpty then .ok (.data flags 0 0 0 0 [])
    else Outcome.ofStruct (parseDataBody flags body)
  | .init k =>
    if body.isEmpty then .ok (.init k flags 0 0 0 0 0 [])
    else match parseInitHead body with
      | none => .crash "struct.error"
      | some (tag, rwnd, outs, ins, itsn, r) =>
        match decodeParamsG fixed r with
        | .ok ps => .ok (.init k flags tag rwnd outs ins itsn ps)
        | .valueError => .valueError | .crash e => .crash e | .hang => .hang
  | .sack =>
    if body.isEmpty then .ok (.sack flags 0 0 [] [])
    else Outcome.ofStruct (parseSackBody flags body)
  | .shutdown =>
    if body.isEmpty then .ok (.shutdown flags 0)
    else match takeU32 body with
      | none => .crash "struct.error"
      | some (ctsn, _) => .ok (.shutdown flags ctsn)
  | .forwardTsn =>
    if body.isEmpty then .ok (.forwardTsn flags 0 [])
    else match takeU32 body with
      | none => .crash "struct.error"
      | some (ctsn, r) => match readAllPairs r with
        | none => .crash "struct.error"
        | some l => .ok (.forwardTsn flags ctsn l)

/-! ## parse_packet -/

/-- The chunk loop of `parse_packet` on `rest = data[pos:]`. -/
def parseChunks (fixed : Bool) : Nat → Bytes → Outcome (List Chunk)
  | 0, _ => .hang
  | fuel + 1, rest =>
    match rest with
    | ty :: fl :: l0 :: l1 :: _ =>
      let clen := l0 * 256 + l1
      if clen < SCTP_CHUNK_HEADER_LENGTH ∨ clen > rest.length then .valueError
      else
        let body := slice rest SCTP_CHUNK_HEADER_LENGTH clen
        let next := rest.drop (clen + padl clen)
        match classOf ty with
        | none => parseChunks fixed fuel next
        | some cls =>
          -- fix: `except struct.error: raise ValueError`
          match structToValue fixed (parseChunkBody fixed cls fl body) with
          | .ok c => match parseChunks fixed fuel next with
            | .ok cs => .ok (c :: cs)
            | e => e
          | .valueError => .valueError | .crash e => .crash e | .hang => .hang
    | _ => .ok []

/-- `checksum != crc32c(data[0:8] + b"\0\0\0\0" + data[12:])` is false. -/
def checksumOk (d : Bytes) : Bool :=
  match d with
  | s0 :: s1 :: d0 :: d1 :: t0 :: t1 :: t2 :: t3 :: c0 :: c1 :: c2 :: c3 :: rest =>
    c0 + c1 * 256 + c2 * 65536 + c3 * 16777216 ==
      crc32c (s0 :: s1 :: d0 :: d1 :: t0 :: t1 :: t2 :: t3 :: 0 :: 0 :: 0 :: 0 :: rest)
  | _ => false

/-- `parse_packet(data)` → `(source_port, destination_port, verification_tag, chunks)`. -/
def parsePacketG (fixed : Bool) (d : Bytes) : Outcome (Nat × Nat × Nat × List Chunk) :=
  if d.length < SCTP_PACKET_MINIMUM_LENGTH then .valueError
  else if !checksumOk d then .valueError
  else
    match d with
    | s0 :: s1 :: d0 :: d1 :: t0 :: t1 :: t2 :: t3 :: _ :: _ :: _ :: _ :: rest =>
      match parseChunks fixed (rest.length + 1) rest with
      | .ok cs => .ok (s0 * 256 + s1, d0 * 256 + d1, ((t0 * 256 + t1) * 256 + t2) * 256 + t3, cs)
      | .valueError => .valueError | .crash e => .crash e | .hang => .hang
    | _ => .valueError

/-- Fixed behaviour (what the property is stated about). -/
def parsePacket (d : Bytes) := parsePacketG true d
def decodeParams (body : Bytes) := decodeParamsG true body
/-- Pinned behaviour. -/
def parsePacketOrig (d : Bytes) := parsePacketG false d
def decodeParamsOrig (body : Bytes) := decodeParamsG false body

/-! ## RE-CONFIG parameters (RFC 6525) -/

inductive RcParam where
  | resetOut (reqSeq respSeq lastTsn : Nat) (streams : List Nat)   -- StreamResetOutgoingParam (13)
  | addOut (reqSeq newStreams : Nat)                               -- StreamAddOutgoingParam (17)
  | resetResp (respSeq result : Nat)                               -- StreamResetResponseParam (16)
  deriving DecidableEq, Repr

inductive RcCls where
  | resetOut | addOut | resetResp
  deriving DecidableEq, Repr

def RcCls.ty : RcCls → Nat
  | .resetOut => SCTP_STR_RESET_OUT_REQUEST | .addOut => SCTP_STR_RESET_ADD_OUT_STREAMS
  | .resetResp => SCTP_STR_RESET_RESPONSE

def RcParam.cls : RcParam → RcCls
  | .resetOut .. => .resetOut | .addOut .. => .addOut | .resetResp .. => .resetResp

def u16sBytes (l : List Nat) : Bytes := l.flatMap u16be

/-- `bytes(param)`. -/
def RcParam.bytes : RcParam → Bytes
  | .resetOut a b c streams => u32be a ++ (u32be b ++ (u32be c ++ u16sBytes streams))
  | .addOut a n => u32be a ++ (u16be n ++ u16be 0)
  | .resetResp a r => u32be a ++ u32be r

def RcParam.inRange : RcParam → Bool
  | .resetOut a b c streams =>
    decide (a < 4294967296) && decide (b < 4294967296) && decide (c < 4294967296) &&
    streams.all fun s => decide (s < 65536)
  | .addOut a n => decide (a < 4294967296) && decide (n < 65536)
  | .resetResp a r => decide (a < 4294967296) && decide (r < 4294967296)

def RcParam.serialize (p : RcParam) : Outcome Bytes :=
  if p.inRange then .ok p.bytes else .crash "struct.error"

/-- `for pos in range(12, len(data), 2): unpack_from("!H", data, pos)` on `rest = data[pos:]`. -/
def readAllU16s : Bytes → Option (List Nat)
  | [] => some []
  | a :: b :: r => match readAllU16s r with
    | none => none
    | some l => some ((a * 256 + b) :: l)
  | _ => none

/-- `cls.parse(data)`; the pinned code raises `struct.error` on short data, the fixed one `ValueError`. -/
def RcParam.parseG (fixed : Bool) (cls : RcCls) (data : Bytes) : Outcome RcParam :=
  structToValue fixed <| Outcome.ofStruct <|
    match cls with
    | .resetOut =>
      match takeU32 data with
      | none => none
      | some (a, r) => match takeU32 r with
        | none => none
        | some (b, r) => match takeU32 r with
          | none => none
          | some (c, r) => match readAllU16s r with
            | none => none
            | some l => some (.resetOut a b c l)
    | .addOut =>
      match takeU32 data with
      | none => none
      | some (a, r) => match takeU16 r with
        | none => none
        | some (n, r) => match takeU16 r with
          | none => none
          | some (_, _) => some (.addOut a n)
    | .resetResp =>
      match takeU32 data with
      | none => none
      | some (a, r) => match takeU32 r with
        | none => none
        | some (b, _) => some (.resetResp a b)

def RcParam.parse (cls : RcCls) (data : Bytes) := RcParam.parseG true cls data
def RcParam.parseOrig (cls : RcCls) (data : Bytes) := RcParam.parseG false cls data

/-- `RECONFIG_PARAM_TYPES.get(t)`. -/
def rcClassOf (t : Nat) : Option RcCls :=
  if t = SCTP_STR_RESET_OUT_REQUEST then some .resetOut
  else if t = SCTP_STR_RESET_RESPONSE then some .resetResp
  else if t = SCTP_STR_RESET_ADD_OUT_STREAMS then some .addOut
  else none

end Aiortc.Sctp.Wire
