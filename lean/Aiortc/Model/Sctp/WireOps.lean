import Aiortc.Model.Sctp.Wire
/-!
# Operation sequences on a pool of live codec objects (C08, round 2)

The codec of `Wire.lean` is a set of pure functions.  The Python classes it models are mutable objects:
a chunk can be serialised, have its public fields overwritten and be serialised again; the list a parser
returned can be appended to by its owner and the same bytes can be parsed again.  The property only holds
if none of this history is observable: `bytes(chunk)` / `serialize_packet` depend on the *current* field
values only, `parse_packet` / `decode_params` / `Param.parse` on the *bytes* only.

This file is the reference semantics of such a history: a pool of slots holding values, and operations
that create, overwrite, mutate ("hostile owner"), serialise and parse.  The harness runs the same
sequence on real objects (one Python object per slot, overwritten / mutated in place) and compares every
step.  Any divergence is hidden state (a cache that is not invalidated, a shared mutable default, a list
aliased between parse results …).
-/
namespace Aiortc.Sctp.WireOps
open Aiortc Aiortc.Sctp.Wire

/-- What a slot of the pool holds. -/
inductive Val where
  | chunk (c : Chunk)          -- an instance of one of the 15 chunk classes
  | rc (p : RcParam)           -- an instance of one of the three RE-CONFIG parameter classes
  | plist (ps : List Param)    -- a list returned by `decode_params` / passed to `encode_params`
  deriving DecidableEq, Repr

abbrev Pool := Nat → Option Val

def Pool.empty : Pool := fun _ => none
def Pool.set (p : Pool) (s : Nat) (v : Val) : Pool := fun i => if i = s then some v else p i

/-- Store the chunks of a parsed packet in consecutive slots. -/
def Pool.storeChunks (p : Pool) : Nat → List Chunk → Pool
  | _, [] => p
  | base, c :: cs => (p.set base (.chunk c)).storeChunks (base + 1) cs

/-! ## the hostile owner: change every mutable part of an object, as a function of `k` -/

/-- Lists: `k % 3 = 0` clear, `1` append `x`, `2` overwrite the first element (append if there is none). -/
def hostileList {α} (k : Nat) (x : α) (l : List α) : List α :=
  if k % 3 = 0 then [] else if k % 3 = 1 then l ++ [x]
  else match l with
    | [] => [x]
    | _ :: t => x :: t

def hostileParam (k : Nat) : Param := (k % 65536, List.replicate (k % 5) (k % 256))
def hostileParams (k : Nat) (ps : List Param) : List Param := hostileList k (hostileParam k) ps
def hostilePairs (k : Nat) (l : List (Nat × Nat)) : List (Nat × Nat) :=
  hostileList k (k % 65536, (k + 1) % 65536) l
/-- bytes are immutable in Python: the attribute is replaced by a longer value. -/
def hostileBytes (k : Nat) (b : Bytes) : Bytes := b ++ [k % 256]
def h8 (k x : Nat) : Nat := (x + k) % 256
def h16 (k x : Nat) : Nat := (x + k) % 65536
def h32 (k x : Nat) : Nat := (x + k) % 4294967296

def hostileChunk (k : Nat) : Chunk → Chunk
  | .plain kd f b => .plain kd (h8 k f) (hostileBytes k b)
  | .params kd f ps => .params kd (h8 k f) (hostileParams k ps)
  | .data f tsn sid sseq proto ud =>
    .data (h8 k f) (h32 k tsn) (h16 k sid) (h16 k sseq) (h32 k proto) (hostileBytes k ud)
  | .init kd f tag rwnd outs ins itsn ps =>
    .init kd (h8 k f) (h32 k tag) (h32 k rwnd) (h16 k outs) (h16 k ins) (h32 k itsn) (hostileParams k ps)
  | .sack f ctsn rwnd gaps dups =>
    .sack (h8 k f) (h32 k ctsn) (h32 k rwnd) (hostilePairs k gaps) (hostileList k (k % 4294967296) dups)
  | .shutdown f ctsn => .shutdown (h8 k f) (h32 k ctsn)
  | .forwardTsn f ctsn streams => .forwardTsn (h8 k f) (h32 k ctsn) (hostilePairs k streams)

def hostileRc (k : Nat) : RcParam → RcParam
  | .resetOut a b c l => .resetOut (h32 k a) (h32 k b) (h32 k c) (hostileList k (k % 65536) l)
  | .addOut a n => .addOut (h32 k a) (h16 k n)
  | .resetResp a r => .resetResp (h32 k a) (h32 k r)

def Val.hostile (k : Nat) : Val → Val
  | .chunk c => .chunk (hostileChunk k c)
  | .rc p => .rc (hostileRc k p)
  | .plist ps => .plist (hostileParams k ps)

/-- `bytes(obj)` / `encode_params(list)`: `struct.error` exactly when a field is out of wire range. -/
def Val.bytes : Val → Outcome Bytes
  | .chunk c => if c.inRange then .ok c.bytes else .crash "struct.error"
  | .rc p => p.serialize
  | .plist ps => if paramsInRange ps then .ok (encodeParams ps) else .crash "struct.error"

/-! ## operations -/

inductive Op where
  | new (s : Nat) (v : Val)              -- a fresh object
  | set (s : Nat) (v : Val)              -- every public field of the LIVE object in slot `s` is overwritten
  | hostile (s k : Nat)                  -- the owner modifies every mutable part of the object in slot `s`
  | ser (s sp dp tag : Nat)              -- `serialize_packet(sp, dp, tag, pool[s])`
  | bytes (s : Nat)                      -- `bytes(pool[s])` / `encode_params(pool[s])`
  | parse (d : Bytes) (base : Nat)       -- `parse_packet(d)`; the chunks go to slots `base, base+1, …`
  | decparams (d : Bytes) (s : Nat)      -- `decode_params(d)`; the list goes to slot `s`
  | rcparse (t : Nat) (d : Bytes) (s : Nat)  -- `RECONFIG_PARAM_TYPES[t].parse(d)`; the object goes to slot `s`
  deriving Repr

/-- What one step lets the caller observe. -/
inductive Obs where
  | done | skip
  | bytes (o : Outcome Bytes)
  | parsed (o : Outcome (Nat × Nat × Nat × List Chunk))
  | params (o : Outcome (List Param))
  | rc (o : Option (Outcome RcParam))    -- `none`: no class registered for the type
  deriving DecidableEq, Repr

def step (pool : Pool) : Op → Pool × Obs
  | .new s v => (pool.set s v, .done)
  | .set s v => (pool.set s v, .done)
  | .hostile s k =>
    match pool s with
    | some v => (pool.set s (v.hostile k), .done)
    | none => (pool, .skip)
  | .ser s sp dp tag =>
    match pool s with
    | some (.chunk c) => (pool, .bytes (serializePacket sp dp tag c))
    | _ => (pool, .skip)
  | .bytes s =>
    match pool s with
    | some v => (pool, .bytes v.bytes)
    | none => (pool, .skip)
  | .parse d base =>
    let r := parsePacket d
    (match r with
      | .ok (_, _, _, cs) => pool.storeChunks base cs
      | _ => pool, .parsed r)
  | .decparams d s =>
    let r := decodeParams d
    (match r with
      | .ok ps => pool.set s (.plist ps)
      | _ => pool, .params r)
  | .rcparse t d s =>
    match rcClassOf t with
    | none => (pool, .rc none)
    | some cls =>
      let r := RcParam.parse cls d
      (match r with
        | .ok p => pool.set s (.rc p)
        | _ => pool, .rc (some r))

/-- Run a sequence; the observations, in order. -/
def run (pool : Pool) : List Op → List Obs
  | [] => []
  | op :: ops => (step pool op).2 :: run (step pool op).1 ops

/-- The pool after a sequence. -/
def exec (pool : Pool) : List Op → Pool
  | [] => pool
  | op :: ops => exec (step pool op).1 ops

end Aiortc.Sctp.WireOps
