import Aiortc.Model.Sdp.Lex
import Aiortc.Gen.Sdp
/-! C09 layer L2: the per-attribute codecs of `src/aiortc/sdp.py` (value part of an `a=name:value` line),
each as a parser `…FromSdp`/`parse…` and a printer, mirroring the code line by line.
Tables come from `Aiortc.Gen.Sdp` (regenerated from the repo on every run). -/
namespace Aiortc.Model.Sdp
open Aiortc

/-! ### ICE candidates: `candidate_from_sdp` / `candidate_to_sdp` (sdp.py:98-135) -/

structure Candidate where
  foundation : Str
  component : Int
  protocol : Str
  priority : Int
  ip : Str
  port : Int
  typ : Str
  relatedAddress : Option Str := none
  relatedPort : Option Int := none
  tcpType : Option Str := none
  deriving Repr, DecidableEq

/-- `for i in range(8, len(bits) - 1, 2)`: whole (key, value) pairs only; later pairs overwrite. -/
def candExt : List Str → Candidate → Outcome Candidate
  | k :: v :: rest, c =>
    if k = "raddr".toList then candExt rest { c with relatedAddress := some v }
    else if k = "rport".toList then
      match pyInt v with
      | some p => candExt rest { c with relatedPort := some p }
      | none => .valueError
    else if k = "tcptype".toList then candExt rest { c with tcpType := some v }
    else candExt rest c
  | _, c => .ok c

def candidateFromSdp (sdp : Str) : Outcome Candidate :=
  match splitWs sdp with
  | f :: comp :: proto :: prio :: ip :: port :: _typ :: ty :: ext =>
    match pyInt comp, pyInt port, pyInt prio with
    | some comp, some port, some prio =>
      candExt ext { foundation := f, component := comp, protocol := proto, priority := prio,
                    ip := ip, port := port, typ := ty }
    | _, _, _ => .valueError
  | _ => .crash "AssertionError"

def candExtToks (c : Candidate) : List Str :=
  (match c.relatedAddress with | some a => ["raddr".toList, a] | none => []) ++
  (match c.relatedPort with | some p => ["rport".toList, showInt p] | none => []) ++
  (match c.tcpType with | some t => ["tcptype".toList, t] | none => [])

def candToks (c : Candidate) : List Str :=
  [c.foundation, showInt c.component, c.protocol, showInt c.priority, c.ip, showInt c.port,
   "typ".toList, c.typ] ++ candExtToks c

def candidateToSdp (c : Candidate) : Str := unwords (candToks c)

/-! ### fmtp parameters: `parameters_from_sdp` / `parameters_to_sdp` (sdp.py:162-183) -/

inductive PVal where
  | none
  | int (i : Int)
  | str (s : Str)
  deriving Repr, DecidableEq

/-- A Python `dict` in insertion order. -/
abbrev Params := List (Str × PVal)

/-- `d[k] = v`: overwrite in place, else append. -/
def dictSet {α β} [DecidableEq α] : List (α × β) → α → β → List (α × β)
  | [], k, v => [(k, v)]
  | (k', v') :: r, k, v => if k' = k then (k', v) :: r else (k', v') :: dictSet r k v

def fmtpIntParams : List Str := Gen.FMTP_INT_PARAMETERS.map String.toList

def paramsFold : List Str → Params → Outcome Params
  | [], acc => .ok acc
  | p :: ps, acc =>
    match split1 '=' p with
    | (k, some v) =>
      if k ∈ fmtpIntParams then
        match pyInt v with
        | some i => paramsFold ps (dictSet acc k (.int i))
        | none => .valueError
      else paramsFold ps (dictSet acc k (.str v))
    | (_, none) => paramsFold ps (dictSet acc p .none)

def parametersFromSdp (sdp : Str) : Outcome Params := paramsFold (splitOn ';' sdp) []

def paramToStr : Str × PVal → Str
  | (k, .none) => k
  | (k, .int i) => k ++ '=' :: showInt i
  | (k, .str s) => k ++ '=' :: s

def parametersToSdp (p : Params) : Str := join [';'] (p.map paramToStr)

/-! ### groups: `parse_group` / `GroupDescription.__str__` (sdp.py:219-233) -/

structure Group (α : Type) where
  semantic : Str
  items : List α
  deriving Repr, DecidableEq

def mapInt : List Str → Outcome (List Int)
  | [] => .ok []
  | s :: r =>
    match pyInt s with
    | some i => match mapInt r with
      | .ok l => .ok (i :: l)
      | e => e
    | none => .valueError

/-- `parse_group(dest, value)` with `type=str`; `None.split()` is an `AttributeError`. -/
def parseGroupStr (dest : List (Group Str)) : Option Str → Outcome (List (Group Str))
  | none => .crash "AttributeError"
  | some v =>
    match splitWs v with
    | [] => .ok dest
    | s :: items => .ok (dest ++ [⟨s, items⟩])

/-- `parse_group(dest, value, type=int)`. -/
def parseGroupInt (dest : List (Group Int)) : Option Str → Outcome (List (Group Int))
  | none => .crash "AttributeError"
  | some v =>
    match splitWs v with
    | [] => .ok dest
    | s :: items =>
      match mapInt items with
      | .ok l => .ok (dest ++ [⟨s, l⟩])
      | .valueError => .valueError
      | .crash k => .crash k
      | .hang => .hang

def groupToStr {α} (sh : α → Str) (g : Group α) : Str := g.semantic ++ ' ' :: unwords (g.items.map sh)

/-! ### connection addresses: `ipaddress_from_sdp` / `ipaddress_to_sdp` (sdp.py:151-159) -/

/-- `re.match("^IN (IP4|IP6) ([^ ]+)$", sdp)`; a failed `assert m` is an `AssertionError`. -/
def ipaddressFromSdp (s : Str) : Outcome Str :=
  if "IN IP4 ".toList.isPrefixOf s || "IN IP6 ".toList.isPrefixOf s then
    let a := s.drop 7
    if !a.isEmpty && !a.contains ' ' then .ok a else .crash "AssertionError"
  else .crash "AssertionError"

/-- `IPv4Address._parse_octet`. -/
def ip4OctetOk (o : Str) : Bool :=
  !o.isEmpty && o.all isDigit && o.length ≤ 3 && (o = ['0'] || o.head? != some '0') &&
  (o.foldl (fun a c => a * 10 + digitVal c) 0) ≤ 255

/-- `IPv4Address(s)` succeeds. -/
def isIPv4 (s : Str) : Bool :=
  !s.contains '/' && (splitOn '.' s).length = 4 && (splitOn '.' s).all ip4OctetOk

def isHexDigit (c : Char) : Bool :=
  isDigit c || ('a' ≤ c && c ≤ 'f') || ('A' ≤ c && c ≤ 'F')

/-- `IPv6Address._parse_hextet` succeeds. -/
def hextetOk (h : Str) : Bool := !h.isEmpty && h.all isHexDigit && h.length ≤ 4

/-- `IPv6Address._ip_int_from_string(ip_str)` succeeds (CPython 3.12 `ipaddress`). -/
def isIPv6Body (ip : Str) : Bool :=
  if ip.isEmpty then false else
  let parts0 := splitOn ':' ip
  if parts0.length < 3 then false else
  -- an IPv4-style suffix is replaced by two hextets
  let last := parts0.getLast?.getD []
  let partsOpt : Option (List Str) :=
    if last.contains '.' then
      if isIPv4 last then some (parts0.dropLast ++ [['0'], ['0']]) else none
    else some parts0
  match partsOpt with
  | none => false
  | some parts =>
    let n := parts.length
    if n > 9 then false else
    -- indices 1 … n-2 holding an empty part
    let inner := (List.range n).filter fun i => 1 ≤ i && i + 1 < n && (parts.getD i []).isEmpty
    let first := parts.head?.getD []
    let lastp := parts.getLast?.getD []
    match inner with
    | [] =>
      n = 8 && !first.isEmpty && !lastp.isEmpty && parts.all hextetOk
    | [skip] =>
      let hi0 := skip
      let lo0 := n - skip - 1
      -- `^:` requires `^::`, `:$` requires `::$`
      if first.isEmpty && hi0 - 1 ≠ 0 then false
      else if lastp.isEmpty && lo0 - 1 ≠ 0 then false
      else
        let hi := if first.isEmpty then hi0 - 1 else hi0
        let lo := if lastp.isEmpty then lo0 - 1 else lo0
        if 8 < hi + lo + 1 then false
        else ((parts.take hi).all hextetOk) && ((parts.drop (n - lo)).all hextetOk)
    | _ => false

/-- `IPv6Address(s)` succeeds: no "/", optional non-empty `%scope` without a second "%". -/
def isIPv6 (s : Str) : Bool :=
  !s.contains '/' &&
  match split1 '%' s with
  | (a, none) => isIPv6Body a
  | (a, some scope) => !scope.isEmpty && !scope.contains '%' && isIPv6Body a

/-- `ipaddress.ip_address(addr).version`; `none` is the `ValueError`. -/
def ipVersion (s : Str) : Option Nat :=
  if isIPv4 s then some 4 else if isIPv6 s then some 6 else none

/-- `ipaddress_to_sdp` (with fixes/C09-fqdn-connection-address.patch: a host that is not an address
literal is written as `IN IP4 <host>` instead of raising `ValueError`). -/
def ipaddressToSdp (addr : Str) : Str :=
  "IN IP".toList ++ showNat ((ipVersion addr).getD 4) ++ ' ' :: addr

/-! ### rtpmap / rtcp-fb / extmap / fingerprint / ssrc / sctpmap values -/

structure Feedback where
  typ : Str
  parameter : Option Str
  deriving Repr, DecidableEq

structure Codec where
  mimeType : Str
  clockRate : Int
  channels : Option Int
  payloadType : Int
  rtcpFeedback : List Feedback := []
  parameters : Params := []
  deriving Repr, DecidableEq

/-- `RTCRtpCodecParameters.name`: `mimeType.split("/")[1]` (`IndexError` if there is no "/"). -/
def codecName (c : Codec) : Outcome Str :=
  match splitOn '/' c.mimeType with
  | _ :: n :: _ => .ok n
  | _ => .crash "IndexError"

/-- `RTCRtpCodecParameters.__str__`. -/
def codecStr (c : Codec) : Outcome Str :=
  match codecName c with
  | .ok n => .ok (n ++ '/' :: showInt c.clockRate ++ (if c.channels = some 2 then "/2".toList else []))
  | e => e

/-- The `rtpmap` branch of `SessionDescription.parse` (sdp.py:503-519). -/
def parseRtpmap (kind : Str) : Option Str → Outcome Codec
  | none => .crash "AttributeError"
  | some value =>
    match split1 ' ' value with
    | (_, none) => .valueError
    | (formatId, some desc) =>
      let bits := splitOn '/' desc
      let chan : Outcome (Option Int) :=
        if kind = "audio".toList then
          match bits with
          | _ :: _ :: ch :: _ => match pyInt ch with
            | some i => .ok (some i)
            | none => .valueError
          | _ => .ok (some 1)
        else .ok none
      match chan with
      | .ok channels =>
        match bits with
        | name :: clock :: _ =>
          match pyInt clock, pyInt formatId with
          | some cr, some pt =>
            .ok { mimeType := kind ++ '/' :: name, clockRate := cr, channels := channels, payloadType := pt }
          | _, _ => .valueError
        | _ => .crash "IndexError"
      | .valueError => .valueError
      | .crash k => .crash k
      | .hang => .hang

/-- `value.split(" ", 2)` of an `rtcp-fb` line. -/
def splitFb (value : Str) : Str × Option (Str × Option Str) :=
  match split1 ' ' value with
  | (b0, none) => (b0, none)
  | (b0, some r) => (b0, some (split1 ' ' r))

/-- Value of the `a=rtcp-fb:` line printed for one feedback of codec `pt`. -/
def fbValue (pt : Int) (f : Feedback) : Str :=
  showInt pt ++ ' ' :: f.typ ++
    (match f.parameter with
     | some p => if p.isEmpty then [] else ' ' :: p
     | none => [])

structure HeaderExt where
  id : Int
  uri : Str
  deriving Repr, DecidableEq

/-- The `extmap` branch (sdp.py:465-472). -/
def parseExtmap : Option Str → Outcome HeaderExt
  | none => .crash "AttributeError"
  | some value =>
    match splitWs value with
    | [extId, uri] =>
      let idStr : Outcome Str :=
        if extId.contains '/' then
          match splitOn '/' extId with
          | [a, _] => .ok a
          | _ => .valueError
        else .ok extId
      match idStr with
      | .ok a => match pyInt a with
        | some i => .ok ⟨i, uri⟩
        | none => .valueError
      | .valueError => .valueError
      | .crash k => .crash k
      | .hang => .hang
    | _ => .valueError

def extmapValue (h : HeaderExt) : Str := showInt h.id ++ ' ' :: h.uri

structure Fingerprint where
  algorithm : Str
  value : Str
  deriving Repr, DecidableEq

/-- `algorithm, fingerprint = value.split()`. -/
def parseFingerprint : Option Str → Outcome Fingerprint
  | none => .crash "AttributeError"
  | some value =>
    match splitWs value with
    | [a, v] => .ok ⟨a, v⟩
    | _ => .valueError

def fingerprintValue (f : Fingerprint) : Str := f.algorithm ++ ' ' :: f.value

def lookupS (tbl : List (String × String)) (k : Str) : Option Str :=
  match tbl.find? (fun p => p.1.toList = k) with
  | some p => some p.2.toList
  | none => none

/-- `DTLS_SETUP_ROLE[value]` (`KeyError` if absent, also for `None`). -/
def parseSetup : Option Str → Outcome Str
  | none => .crash "KeyError"
  | some v => match lookupS Gen.DTLS_SETUP_ROLE v with
    | some r => .ok r
    | none => .crash "KeyError"

/-- `DTLS_ROLE_SETUP[role]`. -/
def setupOfRole (role : Str) : Outcome Str :=
  match lookupS Gen.DTLS_ROLE_SETUP role with
  | some r => .ok r
  | none => .crash "KeyError"

structure Ssrc where
  ssrc : Int
  cname : Option Str := none
  msid : Option Str := none
  mslabel : Option Str := none
  label : Option Str := none
  deriving Repr, DecidableEq

def ssrcInfoAttrs : List Str := Gen.SSRC_INFO_ATTRS.map String.toList

def Ssrc.get (s : Ssrc) (attr : Str) : Option Str :=
  if attr = "cname".toList then s.cname
  else if attr = "msid".toList then s.msid
  else if attr = "mslabel".toList then s.mslabel
  else if attr = "label".toList then s.label
  else none

/-- `setattr(ssrc_info, attr, value)` for `attr in SSRC_INFO_ATTRS`. -/
def Ssrc.set (s : Ssrc) (attr : Str) (v : Str) : Ssrc :=
  if !(ssrcInfoAttrs.contains attr) then s
  else if attr = "cname".toList then { s with cname := some v }
  else if attr = "msid".toList then { s with msid := some v }
  else if attr = "mslabel".toList then { s with mslabel := some v }
  else if attr = "label".toList then { s with label := some v }
  else s

/-- Find-or-append then set (sdp.py:527-540); the list plays the role of `current_media.ssrc`. -/
def ssrcUpdate : List Ssrc → Int → Str → Str → List Ssrc
  | [], id, attr, v => [({ ssrc := id } : Ssrc).set attr v]
  | s :: r, id, attr, v => if s.ssrc = id then s.set attr v :: r else s :: ssrcUpdate r id attr v

/-- The `ssrc` branch: `(ssrc, attr, value)` of the line. -/
def parseSsrcLine : Option Str → Outcome (Int × Str × Str)
  | none => .crash "AttributeError"
  | some value =>
    match split1 ' ' value with
    | (_, none) => .valueError
    | (idStr, some desc) =>
      match pyInt idStr with
      | none => .valueError
      | some id =>
        match split1 ':' desc with
        | (_, none) => .valueError
        | (attr, some v) => .ok (id, attr, v)

/-- Lines printed for one `SsrcDescription`: known attributes in table order, `None` skipped. -/
def ssrcValues (s : Ssrc) : List Str :=
  ssrcInfoAttrs.filterMap fun a =>
    match s.get a with
    | some v => some (showInt s.ssrc ++ ' ' :: a ++ ':' :: v)
    | none => none

/-- The `sctpmap` branch: `(int(format_id), format_desc)`. -/
def parseSctpmap : Option Str → Outcome (Int × Str)
  | none => .crash "AttributeError"
  | some value =>
    match split1 ' ' value with
    | (_, none) => .valueError
    | (idStr, some desc) =>
      match pyInt idStr with
      | some i => .ok (i, desc)
      | none => .valueError

/-- `parse_attr(line)` for a line starting with "a=" (sdp.py:186-191). -/
def parseAttr (line : Str) : Str × Option Str :=
  if line.contains ':' then split1 ':' (line.drop 2) else (line.drop 2, none)

end Aiortc.Model.Sdp
