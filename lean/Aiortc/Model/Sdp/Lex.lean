import Aiortc.Model.Bytes
/-! C09 layer L1: the string primitives `sdp.py` is built from, over `List Char`
(a Python `str` is a sequence of code points; `Char` = Unicode scalar value).

Mirrored built-ins: `str.split(sep)`, `str.split(sep, 1)`, `str.split()` (whitespace), `str.splitlines()`,
`str.strip()`, `sep.join`, `int(str)` (ASCII digits, optional sign, `_` separators, surrounding whitespace;
non-ASCII decimal digits and the 4300-digit limit are NOT modelled), `str(int)`. -/
namespace Aiortc.Model.Sdp

abbrev Str := List Char

/-- `str.isspace()` for one code point (what `split()`, `strip()` and `int()` treat as blank). -/
def isPySpace (c : Char) : Bool :=
  let n := c.toNat
  (9 ≤ n && n ≤ 13) || (28 ≤ n && n ≤ 32) || n = 0x85 || n = 0xa0 || n = 0x1680 ||
  (0x2000 ≤ n && n ≤ 0x200a) || n = 0x2028 || n = 0x2029 || n = 0x202f || n = 0x205f || n = 0x3000

/-- Line boundaries of `str.splitlines()` other than the pair "\r\n". -/
def isLineBreak (c : Char) : Bool :=
  let n := c.toNat
  (10 ≤ n && n ≤ 13) || (28 ≤ n && n ≤ 30) || n = 0x85 || n = 0x2028 || n = 0x2029

/-- `s.split(sep)` for a one-character separator: never empty. -/
def splitOn (sep : Char) : Str → List Str
  | [] => [[]]
  | c :: cs =>
    if c = sep then [] :: splitOn sep cs
    else match splitOn sep cs with
      | [] => [[c]]
      | h :: t => (c :: h) :: t

/-- `s.split(sep, 1)`: the part before the first `sep`, and the rest if there is a `sep`. -/
def split1 (sep : Char) : Str → Str × Option Str
  | [] => ([], none)
  | c :: cs =>
    if c = sep then ([], some cs)
    else ((c :: (split1 sep cs).1), (split1 sep cs).2)

/-- `s.split()`: maximal runs of non-blank characters. -/
def splitWs : Str → List Str
  | [] => []
  | c :: cs =>
    if isPySpace c then splitWs cs
    else match cs with
      | [] => [[c]]
      | d :: _ =>
        if isPySpace d then [c] :: splitWs cs
        else match splitWs cs with
          | [] => [[c]]
          | h :: t => (c :: h) :: t

/-- `s.splitlines()`; `cur` is the current line, reversed; `afterCR` = the previous character was a
"\r" that ended a line (a directly following "\n" belongs to the same boundary). -/
def splitlinesAux : Str → Str → Bool → List Str
  | [], cur, _ => if cur.isEmpty then [] else [cur.reverse]
  | c :: cs, cur, afterCR =>
    if afterCR && c = '\n' then splitlinesAux cs cur false
    else if isLineBreak c then cur.reverse :: splitlinesAux cs [] (c = '\r')
    else splitlinesAux cs (c :: cur) false

def splitlines (s : Str) : List Str := splitlinesAux s [] false

def stripLeft (s : Str) : Str := s.dropWhile isPySpace
def strip (s : Str) : Str := (stripLeft (stripLeft s).reverse).reverse

/-- Blanks that `int()` skips around the number: `str.isspace()` except U+001C…U+001F
(CPython maps non-ASCII spaces to " " and then applies the C-locale `isspace`). -/
def isIntSpace (c : Char) : Bool := isPySpace c && !(28 ≤ c.toNat && c.toNat ≤ 31)
def stripInt (s : Str) : Str := ((s.dropWhile isIntSpace).reverse.dropWhile isIntSpace).reverse

/-- `sep.join(parts)`. -/
def join (sep : Str) : List Str → Str
  | [] => []
  | [a] => a
  | a :: b :: rest => a ++ sep ++ join sep (b :: rest)

def unwords (l : List Str) : Str := join [' '] l

def isDigit (c : Char) : Bool := 48 ≤ c.toNat && c.toNat ≤ 57
def digitVal (c : Char) : Nat := c.toNat - 48
def digitChar (n : Nat) : Char := Char.ofNat (n + 48)

/-- Decimal digits of `n`, least significant first (`fuel > n` is always enough). -/
def digitsRev : Nat → Nat → Str
  | 0, _ => []
  | fuel + 1, n =>
    if n < 10 then [digitChar n]
    else digitChar (n % 10) :: digitsRev fuel (n / 10)

/-- `str(n)` for `n ≥ 0`. -/
def showNat (n : Nat) : Str := (digitsRev (n + 1) n).reverse

/-- `str(i)`. -/
def showInt : Int → Str
  | .ofNat n => showNat n
  | .negSucc n => '-' :: showNat (n + 1)

/-- Digits with single `_` between digits (PEP 515), value accumulated in `acc`.
`prevDigit` says whether the previous character was a digit. -/
def parseDigits : Str → Nat → Bool → Option Nat
  | [], acc, prevDigit => if prevDigit then some acc else none
  | c :: cs, acc, prevDigit =>
    if isDigit c then parseDigits cs (acc * 10 + digitVal c) true
    else if c = '_' && prevDigit then
      match cs with
      | d :: _ => if isDigit d then parseDigits cs acc false else none
      | [] => none
    else none

/-- `int(s)` on ASCII input: `none` is `ValueError`. -/
def pyInt (s : Str) : Option Int :=
  match stripInt s with
  | '-' :: ds => (parseDigits ds 0 false).map fun n => - (Int.ofNat n)
  | '+' :: ds => (parseDigits ds 0 false).map Int.ofNat
  | ds => (parseDigits ds 0 false).map Int.ofNat

/-- `int(s)` as an entry point. -/
def intOf (s : Str) : Outcome Int :=
  match pyInt s with
  | some i => .ok i
  | none => .valueError

/-- `int(v)` where `v` may be `None` (`TypeError`). -/
def intOfOpt : Option Str → Outcome Int
  | some s => intOf s
  | none => .crash "TypeError"

/-- `s.startswith(p)`. -/
def startsWith (p s : Str) : Bool := p.isPrefixOf s

end Aiortc.Model.Sdp
