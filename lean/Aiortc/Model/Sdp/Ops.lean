import Aiortc.Model.Sdp.Session
/-! # C09 — reference semantics of a PROCESS that uses the SDP codec

`SessionDescription.parse`, `candidate_from_sdp`, `object_from_string` return graphs of mutable objects; the model
functions of `Session.lean` / `Attr.lean` return values.  This file says what that difference must NOT mean: a pool of
slots holds what the application currently owns; a parse step looks at its text only (whatever was parsed before and
whatever the owner did to earlier results), a serialise step looks at the current value of its slot only.

The `ops` component of harness/props/C09.py runs the same step sequences on live objects (hostile owner, fields
overwritten in place, the same candidate line decoded for several m-sections) and compares observation by observation.
Any difference is hidden state or aliasing in the implementation. -/
namespace Aiortc.Model.Sdp.Ops
open Aiortc Aiortc.Model.Sdp

/-- What a slot holds. `unknown`: the owner modified the object in ways the sequence does not describe. -/
inductive Val where
  | none
  | unknown
  | sess (s : Session)
  | cand (c : Candidate) (mid : Option (Str × Int))

inductive Op where
  /-- `slot := SessionDescription.parse(t)` -/
  | parse (slot : Nat) (t : Str)
  /-- `slot := candidate_from_sdp(l)` -/
  | cparse (slot : Nat) (l : Str)
  /-- `slot := object_from_string({"candidate": "candidate:" + l, "id": mid, "label": idx, …})` -/
  | trickle (slot : Nat) (l : Str) (mid : Str) (idx : Int)
  /-- the owner of the slot modifies every mutable part of it -/
  | hostile (slot : Nat)
  /-- the owner stores a value of its own choice (any edit at all; `assign` is the instance the harness drives) -/
  | own (slot : Nat) (v : Val)
  /-- the owner overwrites every field of the description in the slot with the fields of `parse t` -/
  | assign (slot : Nat) (t : Str)
  /-- `str(slot)` / `candidate_to_sdp(slot)` (and the mid / index the candidate carries) -/
  | str (slot : Nat)

inductive Obs where
  | quiet
  | undefined
  | both (a : Outcome Session) (b : Outcome Str)
  | cboth (a : Outcome Candidate) (mid : Option (Str × Int))
  | text (t : Outcome Str) (mid : Option (Str × Int))

abbrev Pool := List Val

def valOfParse : Outcome Session → Val
  | .ok s => .sess s
  | _ => .none

def valOfCand (mid : Option (Str × Int)) : Outcome Candidate → Val
  | .ok c => .cand c mid
  | _ => .none

def strOf : Val → Obs
  | .none => .quiet
  | .unknown => .undefined
  | .sess s => .text (sessionToStr s) none
  | .cand c mid => .text (.ok (candidateToSdp c)) mid

def hostileVal : Val → Val
  | .none => .none
  | _ => .unknown

def assignVal (t : Str) : Val → Val
  | .sess s => match parse t with
    | .ok s2 => .sess s2
    | _ => .sess s
  | v => v

def step (p : Pool) : Op → Pool × Obs
  | .parse i t => (p.set i (valOfParse (parse t)), .both (parse t) (roundTrip t))
  | .cparse i l => (p.set i (valOfCand none (candidateFromSdp l)), .cboth (candidateFromSdp l) none)
  | .trickle i l mid idx =>
      (p.set i (valOfCand (some (mid, idx)) (candidateFromSdp l)), .cboth (candidateFromSdp l) (some (mid, idx)))
  | .hostile i => (p.set i (hostileVal (p.getD i .none)), .quiet)
  | .own i v => (p.set i v, .quiet)
  | .assign i t => (p.set i (assignVal t (p.getD i .none)), .quiet)
  | .str i => (p, strOf (p.getD i .none))

/-- Run a sequence; the pool after it. -/
def exec (p : Pool) : List Op → Pool
  | [] => p
  | op :: ops => exec (step p op).1 ops

/-- Run a sequence; the observations, in order. -/
def run (p : Pool) : List Op → List Obs
  | [] => []
  | op :: ops => (step p op).2 :: run (step p op).1 ops

end Aiortc.Model.Sdp.Ops
