import Aiortc.Model.Sdp.Attr
import Aiortc.Gen.SdpExtra
/-! C09 layer L3: `MediaDescription.__str__` (sdp.py:285-362), `SessionDescription.parse` (378-564) and
`SessionDescription.__str__` (577-588), `grouplines` (138-148), mirrored statement by statement.
Every place where the real code can raise is an explicit `Outcome` (exception class as in Python). -/
namespace Aiortc.Model.Sdp
open Aiortc

structure Dtls where
  fingerprints : List Fingerprint
  role : Option Str
  deriving Repr, DecidableEq

structure Ice where
  usernameFragment : Option Str := none
  password : Option Str := none
  iceLite : Bool := false
  deriving Repr, DecidableEq

/-- `fmt`: a list of ints for audio/video, of strings otherwise. -/
inductive Fmt where
  | ints (l : List Int)
  | strs (l : List Str)
  deriving Repr, DecidableEq

structure Media where
  kind : Str
  port : Int
  profile : Str
  fmt : Fmt
  host : Option Str := none
  direction : Option Str := none
  msid : Option Str := none
  rtcpPort : Option Int := none
  rtcpHost : Option Str := none
  rtcpMux : Bool := false
  ssrc : List Ssrc := []
  ssrcGroup : List (Group Int) := []
  headerExtensions : List HeaderExt := []
  muxId : Option Str := some []
  codecs : List Codec := []
  maxMessageSize : Option Int := none
  sctpmap : List (Int × Str) := []
  sctpPort : Option Int := none
  dtls : Option Dtls := none
  ice : Ice := {}
  candidates : List Candidate := []
  candidatesComplete : Bool := false
  iceOptions : Option Str := none
  deriving Repr, DecidableEq

structure Session where
  version : Int := 0
  origin : Option Str := none
  name : Str := ['-']
  time : Str := ['0', ' ', '0']
  host : Option Str := none
  group : List (Group Str) := []
  msidSemantic : List (Group Str) := []
  media : List Media := []
  deriving Repr, DecidableEq

/-! ### printing -/

def crlf : Str := ['\r', '\n']
def lit (s : String) : Str := s.toList

def fmtToks : Fmt → List Str
  | .ints l => l.map showInt
  | .strs l => l

def optLine (pre : Str) : Option Str → List Str
  | some v => [pre ++ v]
  | none => []

/-- `if x:` on an `Optional[str]`. -/
def truthy : Option Str → Option Str
  | some v => if v.isEmpty then none else some v
  | none => none

/-- Lines of one codec: rtpmap, its rtcp-fb lines, its fmtp line (sdp.py:320-333). -/
def codecLines (c : Codec) : Outcome (List Str) :=
  match codecStr c with
  | .ok cs =>
    let pt := showInt c.payloadType
    let params := parametersToSdp c.parameters
    .ok ([lit "a=rtpmap:" ++ pt ++ ' ' :: cs] ++
         c.rtcpFeedback.map (fun f => lit "a=rtcp-fb:" ++ fbValue c.payloadType f) ++
         (if params.isEmpty then [] else [lit "a=fmtp:" ++ pt ++ ' ' :: params]))
  | .valueError => .valueError
  | .crash k => .crash k
  | .hang => .hang

def allLines {α} (f : α → Outcome (List Str)) : List α → Outcome (List Str)
  | [] => .ok []
  | a :: r =>
    match f a with
    | .ok l => match allLines f r with
      | .ok l' => .ok (l ++ l')
      | e => e
    | e => e

/-- `c=` line: `ipaddress_to_sdp(host)`. -/
def hostLine (pre : Str) : Option Str → List Str
  | none => []
  | some h => [pre ++ ipaddressToSdp h]

def rtcpLines (m : Media) : List Str :=
  match m.rtcpPort with
  | none => []
  | some p =>
    [lit "a=rtcp:" ++ showInt p ++ (match m.rtcpHost with | some h => ' ' :: ipaddressToSdp h | none => [])] ++
    (if m.rtcpMux then [lit "a=rtcp-mux"] else [])

def dtlsLines : Option Dtls → Outcome (List Str)
  | none => .ok []
  | some d =>
    match setupOfRole (d.role.getD (lit "None")) with
    | .ok su => .ok (d.fingerprints.map (fun f => lit "a=fingerprint:" ++ fingerprintValue f) ++ [lit "a=setup:" ++ su])
    | .valueError => .valueError
    | .crash k => .crash k
    | .hang => .hang

/-- `MediaDescription.__str__` as the list of its lines. -/
def mediaLines (m : Media) : Outcome (List Str) := do
  let host := hostLine (lit "c=") m.host
  let rtcp := rtcpLines m
  let codecs ← allLines codecLines m.codecs
  let dtls ← dtlsLines m.dtls
  pure (
    [lit "m=" ++ m.kind ++ ' ' :: showInt m.port ++ ' ' :: m.profile ++ ' ' :: unwords (fmtToks m.fmt)] ++
    host ++
    optLine (lit "a=") m.direction ++
    m.headerExtensions.map (fun h => lit "a=extmap:" ++ extmapValue h) ++
    optLine (lit "a=mid:") (truthy m.muxId) ++
    optLine (lit "a=msid:") (truthy m.msid) ++
    rtcp ++
    m.ssrcGroup.map (fun g => lit "a=ssrc-group:" ++ groupToStr showInt g) ++
    (m.ssrc.flatMap fun s => (ssrcValues s).map (lit "a=ssrc:" ++ ·)) ++
    codecs ++
    m.sctpmap.map (fun kv => lit "a=sctpmap:" ++ showInt kv.1 ++ ' ' :: kv.2) ++
    optLine (lit "a=sctp-port:") (m.sctpPort.map showInt) ++
    optLine (lit "a=max-message-size:") (m.maxMessageSize.map showInt) ++
    m.candidates.map (fun c => lit "a=candidate:" ++ candidateToSdp c) ++
    (if m.candidatesComplete then [lit "a=end-of-candidates"] else []) ++
    optLine (lit "a=ice-ufrag:") m.ice.usernameFragment ++
    optLine (lit "a=ice-pwd:") m.ice.password ++
    optLine (lit "a=ice-options:") m.iceOptions ++
    dtls)

def unlines (l : List Str) : Str := l.flatMap (· ++ crlf)

/-- `SessionDescription.__str__`. -/
def sessionToStr (s : Session) : Outcome Str := do
  let host := hostLine (lit "c=") s.host
  let media ← allLines mediaLines s.media
  pure (unlines (
    [lit "v=" ++ showInt s.version, lit "o=" ++ s.origin.getD (lit "None"), lit "s=" ++ s.name] ++
    host ++ [lit "t=" ++ s.time] ++
    (if s.media.any (·.ice.iceLite) then [lit "a=ice-lite"] else []) ++
    s.group.map (fun g => lit "a=group:" ++ groupToStr id g) ++
    s.msidSemantic.map (fun g => lit "a=msid-semantic:" ++ groupToStr id g) ++
    media))

/-! ### parsing -/

/-- `grouplines`: session lines, then one non-empty group per "m=" line. -/
def grouplinesAux : List Str → List Str → List (List Str) → List Str × List (List Str)
  | [], sess, media => (sess.reverse, (media.map List.reverse).reverse)
  | l :: r, sess, media =>
    if startsWith (lit "m=") l then grouplinesAux r sess ([l] :: media)
    else match media with
      | cur :: rest => grouplinesAux r sess ((l :: cur) :: rest)
      | [] => grouplinesAux r (l :: sess) []

def grouplines (sdp : Str) : List Str × List (List Str) := grouplinesAux (splitlines sdp) [] []

/-- Session-level values that are folded into every media section. -/
structure Defaults where
  fingerprints : List Fingerprint := []
  role : Option Str := none
  iceLite : Bool := false
  iceOptions : Option Str := none
  icePwd : Option Str := none
  iceUfrag : Option Str := none
  deriving Repr, DecidableEq

/-- One session-level line (sdp.py:394-425). -/
def sessionLine (st : Session × Defaults) (line : Str) : Outcome (Session × Defaults) :=
  let (s, d) := st
  if startsWith (lit "v=") line then do
    let v ← intOf ((strip line).drop 2)
    pure ({ s with version := v }, d)
  else if startsWith (lit "o=") line then .ok ({ s with origin := some ((strip line).drop 2) }, d)
  else if startsWith (lit "s=") line then .ok ({ s with name := (strip line).drop 2 }, d)
  else if startsWith (lit "c=") line then do
    let h ← ipaddressFromSdp (line.drop 2)
    pure ({ s with host := some h }, d)
  else if startsWith (lit "t=") line then .ok ({ s with time := (strip line).drop 2 }, d)
  else if startsWith (lit "a=") line then
    let (attr, value) := parseAttr line
    if attr = lit "fingerprint" then do
      let f ← parseFingerprint value
      pure (s, { d with fingerprints := d.fingerprints ++ [f] })
    else if attr = lit "ice-lite" then .ok (s, { d with iceLite := true })
    else if attr = lit "ice-options" then .ok (s, { d with iceOptions := value })
    else if attr = lit "ice-pwd" then .ok (s, { d with icePwd := value })
    else if attr = lit "ice-ufrag" then .ok (s, { d with iceUfrag := value })
    else if attr = lit "group" then do
      let g ← parseGroupStr s.group value
      pure ({ s with group := g }, d)
    else if attr = lit "msid-semantic" then do
      let g ← parseGroupStr s.msidSemantic value
      pure ({ s with msidSemantic := g }, d)
    else if attr = lit "setup" then do
      let r ← parseSetup value
      pure (s, { d with role := some r })
    else .ok st
  else .ok st

def foldO {σ α} (f : σ → α → Outcome σ) : σ → List α → Outcome σ
  | s, [] => .ok s
  | s, a :: r => match f s a with
    | .ok s' => foldO f s' r
    | e => e

/-- `pt in rtp.FORBIDDEN_PAYLOAD_TYPES` (regenerated range). -/
def forbiddenPt (pt : Int) : Bool := Gen.FORBIDDEN_PT_LO ≤ pt && pt < Gen.FORBIDDEN_PT_HI

/-- The "m=" line: `re.match("^m=([^ ]+) ([0-9]+) ([A-Z/]+) (.+)$", line)`, payload type checks and
the fresh `MediaDescription` with the session-level defaults (sdp.py:429-453). -/
def mediaHeader (d : Defaults) (line : Str) : Outcome Media :=
  if !startsWith (lit "m=") line then .crash "AssertionError" else
  match split1 ' ' (line.drop 2) with
  | (kind, some r1) =>
    match split1 ' ' r1 with
    | (port, some r2) =>
      match split1 ' ' r2 with
      | (profile, some fmtStr) =>
        if kind.isEmpty || port.isEmpty || !port.all isDigit || profile.isEmpty ||
           !profile.all (fun c => ('A' ≤ c && c ≤ 'Z') || c = '/') || fmtStr.isEmpty || fmtStr.contains '\n' then
          .crash "AssertionError"
        else
          let fmt := splitWs fmtStr
          -- `assert fmt` (fixes/C09-empty-fmt.patch)
          if fmt.isEmpty then .crash "AssertionError" else
          let fmtO : Outcome Fmt :=
            if kind = lit "audio" || kind = lit "video" then
              match mapInt fmt with
              | .ok l => if l.all (fun pt => 0 ≤ pt && pt < 256 && !forbiddenPt pt) then .ok (.ints l)
                         else .crash "AssertionError"
              | .valueError => .valueError
              | .crash k => .crash k
              | .hang => .hang
            else .ok (.strs fmt)
          match fmtO, pyInt port with
          | .ok f, some p =>
            .ok { kind := kind, port := p, profile := profile, fmt := f,
                  dtls := some { fingerprints := d.fingerprints, role := d.role },
                  ice := { iceLite := d.iceLite, usernameFragment := d.iceUfrag, password := d.icePwd },
                  iceOptions := d.iceOptions }
          | .ok _, none => .valueError
          | .valueError, _ => .valueError
          | .crash k, _ => .crash k
          | .hang, _ => .hang
      | _ => .crash "AssertionError"
    | _ => .crash "AssertionError"
  | _ => .crash "AssertionError"

def directions : List Str := Gen.DIRECTIONS.map String.toList

def Media.updDtls (m : Media) (f : Dtls → Dtls) : Media :=
  { m with dtls := m.dtls.map f }

/-- The attribute dispatch of the first pass over a media section (sdp.py:460-540). -/
def mediaAttr (m : Media) (attr : Str) (value : Option Str) : Outcome Media :=
  if attr = lit "candidate" then
    match value with
    | none => .crash "AttributeError"
    | some v => do
      let c ← candidateFromSdp v
      pure { m with candidates := m.candidates ++ [c] }
  else if attr = lit "end-of-candidates" then .ok { m with candidatesComplete := true }
  else if attr = lit "extmap" then do
    let h ← parseExtmap value
    pure { m with headerExtensions := m.headerExtensions ++ [h] }
  else if attr = lit "fingerprint" then do
    let f ← parseFingerprint value
    pure (m.updDtls fun d => { d with fingerprints := d.fingerprints ++ [f] })
  else if attr = lit "ice-options" then .ok { m with iceOptions := value }
  else if attr = lit "ice-pwd" then .ok { m with ice := { m.ice with password := value } }
  else if attr = lit "ice-ufrag" then .ok { m with ice := { m.ice with usernameFragment := value } }
  else if attr = lit "max-message-size" then do
    let i ← intOfOpt value
    pure { m with maxMessageSize := some i }
  else if attr = lit "mid" then .ok { m with muxId := value }
  else if attr = lit "msid" then .ok { m with msid := value }
  else if attr = lit "rtcp" then
    match value with
    | none => .crash "AttributeError"
    | some v =>
      match split1 ' ' v with
      | (p, none) => do
        let i ← intOf p
        pure { m with rtcpPort := some i }
      | (p, some h) => do
        let i ← intOf p
        let a ← ipaddressFromSdp h
        pure { m with rtcpPort := some i, rtcpHost := some a }
  else if attr = lit "rtcp-mux" then .ok { m with rtcpMux := true }
  else if attr = lit "setup" then do
    let r ← parseSetup value
    pure (m.updDtls fun d => { d with role := some r })
  else if directions.contains attr then .ok { m with direction := some attr }
  else if attr = lit "rtpmap" then do
    let c ← parseRtpmap m.kind value
    -- a payload type is mapped at most once, the first mapping wins (fixes/C09-duplicate-rtpmap.patch)
    pure (if m.codecs.all (·.payloadType != c.payloadType) then { m with codecs := m.codecs ++ [c] } else m)
  else if attr = lit "sctpmap" then do
    let kv ← parseSctpmap value
    pure { m with sctpmap := dictSet m.sctpmap kv.1 kv.2 }
  else if attr = lit "sctp-port" then do
    let i ← intOfOpt value
    pure { m with sctpPort := some i }
  else if attr = lit "ssrc-group" then do
    let g ← parseGroupInt m.ssrcGroup value
    pure { m with ssrcGroup := g }
  else if attr = lit "ssrc" then do
    let t ← parseSsrcLine value
    pure { m with ssrc := ssrcUpdate m.ssrc t.1 t.2.1 t.2.2 }
  else .ok m

/-- One media-level line, first pass (sdp.py:456-540). -/
def mediaLine (m : Media) (line : Str) : Outcome Media :=
  if startsWith (lit "c=") line then do
    let h ← ipaddressFromSdp (line.drop 2)
    pure { m with host := some h }
  else if startsWith (lit "a=") line then mediaAttr m (parseAttr line).1 (parseAttr line).2
  else .ok m

/-- `find_codec(pt)` followed by `codec.parameters = …`: first codec with that payload type. -/
def setParams : List Codec → Int → Params → Option (List Codec)
  | [], _, _ => none
  | c :: r, pt, p =>
    if c.payloadType = pt then some ({ c with parameters := p } :: r)
    else (setParams r pt p).map (c :: ·)

/-- The `rtcp-fb` loop over the codecs (sdp.py:553-562). -/
def addFeedback (bits : Str × Option (Str × Option Str)) : List Codec → Outcome (List Codec)
  | [] => .ok []
  | c :: r =>
    if bits.1 = ['*'] || bits.1 = showInt c.payloadType then
      match bits.2 with
      | none => .crash "IndexError"
      | some (ty, par) =>
        match addFeedback bits r with
        | .ok r' => .ok ({ c with rtcpFeedback := c.rtcpFeedback ++ [⟨ty, par⟩] } :: r')
        | e => e
    else
      match addFeedback bits r with
      | .ok r' => .ok (c :: r')
      | e => e

/-- The attribute dispatch of the second pass: fmtp and rtcp-fb (sdp.py:546-562). -/
def mediaAttr2 (m : Media) (attr : Str) (value : Option Str) : Outcome Media :=
  if attr = lit "fmtp" then
    match value with
    | none => .crash "AttributeError"
    | some v =>
      match split1 ' ' v with
      | (_, none) => .valueError
      | (idStr, some desc) => do
        let pt ← intOf idStr
        match m.codecs.find? (·.payloadType = pt) with
        | none => .crash "StopIteration"
        | some _ =>
          let p ← parametersFromSdp desc
          match setParams m.codecs pt p with
          | some cs => pure { m with codecs := cs }
          | none => .crash "StopIteration"
  else if attr = lit "rtcp-fb" then
    match value with
    | none => .crash "AttributeError"
    | some v => do
      let cs ← addFeedback (splitFb v) m.codecs
      pure { m with codecs := cs }
  else .ok m

/-- One media-level line, second pass. -/
def mediaLine2 (m : Media) (line : Str) : Outcome Media :=
  if startsWith (lit "a=") line then mediaAttr2 m (parseAttr line).1 (parseAttr line).2
  else .ok m

/-- One media group: header, first pass, `dtls = None` if no role, second pass. -/
def parseMedia (d : Defaults) : List Str → Outcome Media
  | [] => .crash "AssertionError"
  | hd :: lines => do
    let m0 ← mediaHeader d hd
    let m1 ← foldO mediaLine m0 lines
    let m2 : Media := match m1.dtls with
      | some dt => if dt.role.isNone then { m1 with dtls := none } else m1
      | none => m1
    foldO mediaLine2 m2 lines

def parseMedias (d : Defaults) : List (List Str) → Outcome (List Media)
  | [] => .ok []
  | g :: r =>
    match parseMedia d g with
    | .ok m => match parseMedias d r with
      | .ok ms => .ok (m :: ms)
      | e => e
    | .valueError => .valueError
    | .crash k => .crash k
    | .hang => .hang

/-- `SessionDescription.parse(sdp)`. -/
def parse (sdp : Str) : Outcome Session := do
  let (sessLines, groups) := grouplines sdp
  let (s, d) ← foldO sessionLine (({} : Session), ({} : Defaults)) sessLines
  let ms ← parseMedias d groups
  pure { s with media := ms }

/-- parse then serialise: what `str(SessionDescription.parse(t))` does. -/
def roundTrip (t : Str) : Outcome Str := do
  let s ← parse t
  sessionToStr s

end Aiortc.Model.Sdp
