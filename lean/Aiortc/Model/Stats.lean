import Aiortc.Gen.Serial
import Aiortc.Gen.Rtp
import Aiortc.Model.Bytes
/-!
# Stats — `StreamStatistics`, the receiver-report construction of `RTCRtpReceiver._run_rtcp`,
# and `RtcpReceiverInfo.__bytes__` / `RtcpRrPacket.__bytes__`   (property C18; no Mathlib)

Mirrors `src/aiortc/rtcrtpreceiver.py` (class `StreamStatistics`, `_handle_rtcp_packet` (SR branch),
`_run_rtcp`, `getStats`) and `src/aiortc/rtp.py` (`pack_packets_lost`, `RtcpReceiverInfo.__bytes__`,
`RtcpRrPacket.__bytes__`, `pack_rtcp_packet`) **with the two C18 fix patches applied**
(`fixes/C18-jitter-32bit-arithmetic.patch`, `fixes/C18-highest-sequence-cycles.patch`).

Inputs that the real code takes from the environment are inputs of the model:
* `arrival` = `int(time.time() * self._clockrate)` of `StreamStatistics.add` (an arbitrary `Int`);
* the delay since the last sender report, `time.time() - self.__lsr_time[ssrc]`, as the exact
  rational value `num / den` of the Python float (`den > 0`).
Python `int` is `Int`; `x >> 4` is floor division by 16, `x & 0xFFFFFFFF` is `x % 2^32`,
`a // b` is `Int.fdiv`.  `None` is `Option.none`; arithmetic on `None` is `crash "TypeError"`.
-/
namespace Aiortc.Model.Stats
open Aiortc Aiortc.Gen

/-! ## StreamStatistics -/

structure Stats where
  baseSeq : Option Int          -- base_seq
  maxSeq : Option Int           -- max_seq
  cycles : Int                  -- cycles
  received : Int                -- packets_received
  jitterQ4 : Int                -- _jitter_q4
  lastArrival : Option Int      -- _last_arrival
  lastTimestamp : Option Int    -- _last_timestamp
  expectedPrior : Int           -- _expected_prior
  receivedPrior : Int           -- _received_prior
  deriving Repr, DecidableEq

/-- `StreamStatistics.__init__` -/
def init : Stats := ⟨none, none, 0, 0, 0, none, none, 0, 0⟩

/-- `((x + (1 << 31)) & 0xFFFFFFFF) - (1 << 31)`: a 32-bit difference read as a signed number. -/
def signed32 (x : Int) : Int := (x + 2147483648) % 4294967296 - 2147483648

/-- `abs(signed32(diff))` as a Python int. -/
def absDiff (arrival lastArrival ts lastTs : Int) : Int :=
  ((signed32 ((arrival - lastArrival) - (ts - lastTs))).natAbs : Int)

/-- One step of the jitter estimator: `J += d - ((J + 8) >> 4)`. -/
def jitterStep (j d : Int) : Int := j + (d - (j + 8) / 16)

/-- `packet.sequence_number < self.max_seq` ⇒ `self.cycles += 1 << 16` (only when `max_seq` is set). -/
def nextCycles (s : Stats) (seq : Int) : Int :=
  match s.maxSeq with
  | some m => if seq < m then s.cycles + 65536 else s.cycles
  | none => s.cycles

def inOrder (s : Stats) (seq : Int) : Bool :=
  match s.maxSeq with
  | none => true
  | some m => uint16_gt seq m

def nextBase (s : Stats) (seq : Int) : Option Int :=
  match s.baseSeq with
  | none => some seq
  | some b => some b

/-- `StreamStatistics.add(packet)` with `arrival = int(time.time() * clockrate)`.
`arrival` is only looked at for an in-order packet (the code reads the clock only then). -/
def add (s : Stats) (seq ts arrival : Int) : Outcome Stats :=
  let received := s.received + 1
  if inOrder s seq then
    let cycles := nextCycles s seq
    if (some ts != s.lastTimestamp) && decide (received > 1) then
      match s.lastArrival, s.lastTimestamp with
      | some la, some lt =>
        .ok { s with received := received, baseSeq := nextBase s seq, cycles := cycles,
                     maxSeq := some seq,
                     jitterQ4 := jitterStep s.jitterQ4 (absDiff arrival la ts lt),
                     lastArrival := some arrival, lastTimestamp := some ts }
      | _, _ => .crash "TypeError"
    else
      .ok { s with received := received, baseSeq := nextBase s seq, cycles := cycles,
                   maxSeq := some seq, lastArrival := some arrival, lastTimestamp := some ts }
  else
    .ok { s with received := received, baseSeq := nextBase s seq }

/-- property `packets_expected` -/
def packetsExpected (s : Stats) : Outcome Int :=
  match s.maxSeq, s.baseSeq with
  | some m, some b => .ok (s.cycles + m - b + 1)
  | _, _ => .crash "TypeError"

/-- property `packets_lost` -/
def packetsLost (s : Stats) : Outcome Int :=
  match packetsExpected s with
  | .ok e => .ok (clamp_packets_lost (e - s.received))
  | .valueError => .valueError
  | .crash k => .crash k
  | .hang => .hang

/-- property `jitter` -/
def jitter (s : Stats) : Int := s.jitterQ4 / 16

/-- The value computed by property `fraction_lost` from the two intervals. -/
def fractionOf (expectedInterval receivedInterval : Int) : Int :=
  let lostInterval := expectedInterval - receivedInterval
  if expectedInterval = 0 ∨ lostInterval ≤ 0 then 0
  else Int.fdiv (lostInterval * 256) expectedInterval

/-- property `fraction_lost` (it updates the `_prior` fields: value and new state). -/
def fractionLost (s : Stats) : Outcome (Int × Stats) :=
  match packetsExpected s with
  | .ok e =>
    .ok (fractionOf (e - s.expectedPrior) (s.received - s.receivedPrior),
         { s with expectedPrior := e, receivedPrior := s.received })
  | .valueError => .valueError
  | .crash k => .crash k
  | .hang => .hang

/-! ## RtcpReceiverInfo and its serialisation -/

structure RrInfo where
  ssrc : Int
  fractionLost : Int
  packetsLost : Int
  highestSequence : Int
  jitter : Int
  lsr : Int
  dlsr : Int
  deriving Repr, DecidableEq

/-- `pack("!l", count)[1:]`: `struct.error` outside the signed 32-bit range, otherwise the low three
bytes of the two's complement (values outside 24 bits are silently truncated). -/
def packPacketsLost? (count : Int) : Option Bytes :=
  if -2147483648 ≤ count ∧ count < 2147483648 then
    some ((u32be (count % 4294967296).toNat).drop 1)
  else none

/-- `unpack_packets_lost` on three bytes (used to state that the field round-trips). -/
def unpackPacketsLost : Bytes → Option Int
  | [a, b, c] =>
    let v : Int := ((a * 256 + b) * 256 + c : Nat)
    some (if a % 256 ≥ 128 then v - 16777216 else v)   -- `d[0] & 0x80`
  | _ => none

/-- `RtcpReceiverInfo.__bytes__` -/
def RrInfo.bytes (r : RrInfo) : Outcome Bytes :=
  match packU32? r.ssrc, packU8? r.fractionLost with
  | some a, some b =>
    match packPacketsLost? r.packetsLost with
    | some c =>
      match packU32? r.highestSequence, packU32? r.jitter, packU32? r.lsr, packU32? r.dlsr with
      | some d, some e, some f, some g => .ok (a ++ b ++ c ++ (d ++ e ++ f ++ g))
      | _, _, _, _ => .crash "struct.error"
    | none => .crash "struct.error"
  | _, _ => .crash "struct.error"

/-- `int(delay * 65536)` when `0 < delay < 65536`, else 0; `delay = num / den` exactly (`den > 0`). -/
def dlsrOf (num den : Int) : Int :=
  if 0 < num ∧ num < 65536 * den then (num * 65536) / den else 0

/-- `(ntp_timestamp >> 16) & 0xFFFFFFFF` -/
def lsrOf (ntp : Int) : Int := (ntp / 65536) % 4294967296

/-- The `RtcpReceiverInfo(...)` built for one stream by `_run_rtcp` (keyword arguments are evaluated
in source order: `fraction_lost` first — it mutates —, then `packets_lost`, `highest_sequence`,
`jitter`). -/
def mkInfo (ssrc : Int) (s : Stats) (lsr dlsr : Int) : Outcome (RrInfo × Stats) :=
  match fractionLost s with
  | .ok (fl, s') =>
    match packetsLost s', s'.maxSeq with
    | .ok pl, some m =>
      .ok ({ ssrc := ssrc, fractionLost := fl, packetsLost := pl,
             highestSequence := (s'.cycles + m) % 4294967296,
             jitter := jitter s', lsr := lsr, dlsr := dlsr }, s')
    | .ok _, none => .crash "TypeError"
    | .valueError, _ => .valueError
    | .crash k, _ => .crash k
    | .hang, _ => .hang
  | .valueError => .valueError
  | .crash k => .crash k
  | .hang => .hang

/-! ## The receiver: per-SSRC statistics, last-SR bookkeeping, one iteration of `_run_rtcp` -/

structure Receiver where
  streams : List (Int × Stats)     -- __remote_streams, in insertion order
  lsr : List (Int × Int)           -- __lsr (the matching __lsr_time is the harness' scripted clock)
  deriving Repr, DecidableEq

def Receiver.init : Receiver := ⟨[], []⟩

def lookup {β} (k : Int) : List (Int × β) → Option β
  | [] => none
  | (k', v) :: rest => if k' = k then some v else lookup k rest

/-- dict assignment `d[k] = v` (position of an existing key is kept). -/
def assign {β} (k : Int) (v : β) : List (Int × β) → List (Int × β)
  | [] => [(k, v)]
  | (k', v') :: rest => if k' = k then (k, v) :: rest else (k', v') :: assign k v rest

/-- `_handle_rtp_packet`, the "feed RTCP statistics" step. -/
def Receiver.streamOf (r : Receiver) (ssrc : Int) : Stats :=
  match lookup ssrc r.streams with
  | some s => s
  | none => Stats.init     -- `StreamStatistics(codec.clockRate)` on first sight of the SSRC

def Receiver.rtp (r : Receiver) (ssrc seq ts arrival : Int) : Outcome Receiver :=
  match add (r.streamOf ssrc) seq ts arrival with
  | .ok s' => .ok { r with streams := assign ssrc s' r.streams }
  | .valueError => .valueError
  | .crash k => .crash k
  | .hang => .hang

/-- `_handle_rtcp_packet` for an `RtcpSrPacket`. -/
def Receiver.sr (r : Receiver) (ssrc ntp : Int) : Receiver :=
  { r with lsr := assign ssrc (lsrOf ntp) r.lsr }

/-- The loop over `__remote_streams.items()` of `_run_rtcp`.  `delays` holds, for every stream that has
an `__lsr` entry (in stream order), the float `time.time() - self.__lsr_time[ssrc]` as `(num, den)`;
a missing entry is a harness error and reads as delay 0.  `pickLsr` = (lsr, dlsr, remaining delays). -/
def pickLsr (ssrc : Int) (lsrs delays : List (Int × Int)) : Int × Int × List (Int × Int) :=
  match lookup ssrc lsrs with
  | some l =>
    match delays with
    | (n, d) :: ds => (l, dlsrOf n d, ds)
    | [] => (l, 0, [])
  | none => (0, 0, delays)

def buildReports : List (Int × Stats) → List (Int × Int) → List (Int × Int) →
    Outcome (List RrInfo × List (Int × Stats))
  | [], _, _ => .ok ([], [])
  | (ssrc, s) :: rest, lsrs, delays =>
    match mkInfo ssrc s (pickLsr ssrc lsrs delays).1 (pickLsr ssrc lsrs delays).2.1 with
    | .ok (info, s') =>
      match buildReports rest lsrs (pickLsr ssrc lsrs delays).2.2 with
      | .ok (infos, rest') => .ok (info :: infos, (ssrc, s') :: rest')
      | .valueError => .valueError
      | .crash k => .crash k
      | .hang => .hang
    | .valueError => .valueError
    | .crash k => .crash k
    | .hang => .hang

def concatBytes : List RrInfo → Outcome Bytes
  | [] => .ok []
  | r :: rest =>
    match r.bytes with
    | .ok b =>
      match concatBytes rest with
      | .ok bs => .ok (b ++ bs)
      | .valueError => .valueError
      | .crash k => .crash k
      | .hang => .hang
    | .valueError => .valueError
    | .crash k => .crash k
    | .hang => .hang

/-- `bytes(RtcpRrPacket(ssrc, reports))`: `pack("!L", ssrc)`, the reports, then
`pack_rtcp_packet(RTCP_RR, len(reports), payload)` = `pack("!BBH", (2 << 6) | count, 201, len // 4)`.
`(2 << 6) | count` is `128 + count` for `count < 128` and exceeds a byte from 256 on. -/
def rrPacketBytes (rtcpSsrc : Int) (reports : List RrInfo) : Outcome Bytes :=
  match packU32? rtcpSsrc with
  | none => .crash "struct.error"
  | some hd =>
    match concatBytes reports with
    | .ok body =>
      let payload := hd ++ body
      let count := reports.length
      if payload.length % 4 ≠ 0 then .crash "AssertionError"
      else
        match packU8? ((128 ||| count : Nat) : Int), packU8? (RTCP_RR : Int),
              packU16? ((payload.length / 4 : Nat) : Int) with
        | some a, some b, some c => .ok (a ++ b ++ c ++ payload)
        | _, _, _ => .crash "struct.error"
    | .valueError => .valueError
    | .crash k => .crash k
    | .hang => .hang

/-- One iteration of the `_run_rtcp` loop body after the sleep: `none` = nothing sent
(`__rtcp_ssrc is None` or no streams), `some bytes` = the datagram handed to the transport. -/
def Receiver.runRtcp (r : Receiver) (rtcpSsrc : Option Int) (delays : List (Int × Int)) :
    Outcome (Option Bytes × Receiver) :=
  match buildReports r.streams r.lsr delays with
  | .ok (infos, streams') =>
    let r' := { r with streams := streams' }
    match rtcpSsrc with
    | some ssrc =>
      if infos.isEmpty then .ok (none, r')
      else
        match rrPacketBytes ssrc infos with
        | .ok b => .ok (some b, r')
        | .valueError => .valueError
        | .crash k => .crash k
        | .hang => .hang
    | none => .ok (none, r')
  | .valueError => .valueError
  | .crash k => .crash k
  | .hang => .hang

/-- `getStats()`: every stream is evaluated in order and writes the same report key
(`"inbound-rtp_" + str(id(self))`), so the entry that remains is the last stream's
`(packetsReceived, packetsLost, jitter)`. -/
def statsLoop : List (Int × Stats) → Option (Int × Int × Int) → Outcome (Option (Int × Int × Int))
  | [], acc => .ok acc
  | (_, s) :: rest, _ =>
    match packetsLost s with
    | .ok pl => statsLoop rest (some (s.received, pl, jitter s))
    | .valueError => .valueError
    | .crash k => .crash k
    | .hang => .hang

def Receiver.getStats (r : Receiver) : Outcome (Option (Int × Int × Int)) :=
  statsLoop r.streams none

end Aiortc.Model.Stats
