import Aiortc.Model.Bytes
import Aiortc.Gen.Serial
import Aiortc.Gen.Rtp
/-!
# `NackGenerator` of `src/aiortc/rtcrtpreceiver.py` (lines 79-120) — executable model, no Mathlib

* `missing` (a Python `set`) is a duplicate-free list in insertion order; the only place the set leaves the
  object is `sorted(self.__nack_generator.missing)`, so the order is unobservable.
* the `while uint16_gt(packet.sequence_number, seq)` loop is a fuelled runner (`Outcome.hang` when the fuel
  of 65 537 rounds is used up: for 16-bit operands the loop runs fewer than 32 768 rounds).
* sequence arithmetic is `Aiortc.Gen.uint16_add / uint16_gt` (regenerated from utils.py); the history size is
  `Aiortc.Gen.RTP_HISTORY_SIZE` (regenerated from rtp.py).
-/
namespace Aiortc.Model.Video
open Aiortc Aiortc.Gen

structure NackGen where
  maxSeq : Option Int
  missing : List Int
  deriving DecidableEq, Repr

def NackGen.init : NackGen := ⟨none, []⟩

/-- `set.add`. -/
def setAdd (l : List Int) (x : Int) : List Int := if x ∈ l then l else l ++ [x]

/-- `set.discard`. -/
def setDiscard (l : List Int) (x : Int) : List Int := l.filter (· ≠ x)

/-- Lines 97-100: `while uint16_gt(target, seq): missing.add(seq); missed = True; seq = uint16_add(seq, 1)`. -/
def markLoop (target : Int) : Nat → Int → List Int → Bool → Outcome (List Int × Bool)
  | 0, _, _, _ => .hang
  | fuel + 1, seq, missing, missed =>
    if uint16_gt target seq then markLoop target fuel (uint16_add seq 1) (setAdd missing seq) true
    else .ok (missing, missed)

/-- `truncate` (lines 110-120). -/
def NackGen.truncate (g : NackGen) : NackGen :=
  match g.maxSeq with
  | none => g
  | some m =>
    let minSeq := uint16_add m (-(RTP_HISTORY_SIZE : Int))
    { g with missing := g.missing.filter (fun s => !uint16_gt minSeq s) }

def markFuel : Nat := 65537

/-- `add(packet)` (lines 84-108); the argument is `packet.sequence_number`; returns `missed`. -/
def NackGen.add (g : NackGen) (sn : Int) : Outcome (NackGen × Bool) :=
  match g.maxSeq with
  | none => .ok ({ g with maxSeq := some sn }, false)
  | some m =>
    if uint16_gt sn m then
      match markLoop sn markFuel (uint16_add m 1) g.missing false with
      | .ok (miss, missed) => .ok (NackGen.truncate { maxSeq := some sn, missing := miss }, missed)
      | .valueError => .valueError | .crash k => .crash k | .hang => .hang
    else .ok (NackGen.truncate { g with missing := setDiscard g.missing sn }, false)

/-- `sorted(missing)`: insertion sort on the duplicate-free list. -/
def insertSorted (x : Int) : List Int → List Int
  | [] => [x]
  | y :: ys => if x ≤ y then x :: y :: ys else y :: insertSorted x ys

def sortInts (l : List Int) : List Int := l.foldr insertSorted []

end Aiortc.Model.Video
