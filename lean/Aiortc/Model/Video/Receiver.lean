import Aiortc.Model.Video.Nack
import Aiortc.Model.Rtp.Packet
import Aiortc.Model.Jitter
import Aiortc.Model.Vp8
import Aiortc.Model.H264
/-!
# Receive path of `src/aiortc/rtcrtpreceiver.py` — executable model, no Mathlib

`handleRtp` = `RTCRtpReceiver._handle_rtp_packet` (lines 453-543) of a *video* receiver from the codec
lookup to the decoder queue: RTX unwrap (C07's `unwrapRtx`), `NackGenerator.add` + NACK emission,
`depayload` (C16's VP8 / H264 models), `JitterBuffer.add` (C10's model) + PLI emission,
`TimestampMapper.map`, `__decoder_queue.put((codec, encoded_frame))`.

Left out (other properties): the bitrate estimator / REMB (C15), `StreamStatistics` (C18),
`__active_ssrc`; they do not influence anything modelled here.  `self._enabled` is taken to be `True`.
-/
namespace Aiortc.Model.Video
open Aiortc Aiortc.Gen Aiortc.Rtp

/-! ## `TimestampMapper` (lines 215-229) -/

structure TsMap where
  last : Option Int
  origin : Option Int
  deriving DecidableEq, Repr

def TsMap.init : TsMap := ⟨none, none⟩

/-- `map(timestamp)`; `timestamp < None` would be a TypeError (unreachable: `_last` is set with `_origin`). -/
def TsMap.map (m : TsMap) (t : Int) : Outcome (TsMap × Int) :=
  match m.origin with
  | none => .ok (⟨some t, some t⟩, 0)
  | some o =>
    match m.last with
    | none => .crash "TypeError"
    | some l =>
      let o' := if t < l then o - 4294967296 else o
      .ok (⟨some t, some o'⟩, t - o')

/-! ## configuration -/

inductive CodecName where
  | vp8 | h264 | rtx | other
  deriving DecidableEq, Repr

/-- The part of `RTCRtpCodecParameters` the receive path looks at; `apt` is `parameters.get("apt")` when it
is an `int`. -/
structure Codec where
  name : CodecName
  apt : Option Nat
  deriving DecidableEq, Repr

structure RecvCfg where
  codecs : List (Nat × Codec)      -- __codecs: payload type ↦ codec
  rtxSsrc : List (Nat × Nat)       -- __rtx_ssrc: RTX SSRC ↦ media SSRC
  rtcpSsrc : Option Nat            -- __rtcp_ssrc
  decoder : Bool                   -- __decoder_thread is not None
  deriving DecidableEq, Repr

def lookupNat {α} (l : List (Nat × α)) (k : Nat) : Option α := (l.find? (fun e => e.1 = k)).map (·.2)

/-- `depayload(codec, payload)` of codecs/__init__.py. -/
def depayloadFor (c : Codec) (payload : Bytes) : Outcome Bytes :=
  match c.name with
  | .vp8 => Aiortc.Model.Vp8.depayload payload
  | .h264 => Aiortc.Model.H264.depayload payload
  | _ => .ok payload

structure Receiver where
  nack : NackGen
  jb : Aiortc.Model.Jitter.JB
  tm : TsMap
  deriving DecidableEq, Repr

/-- RTCP feedback the receive path emits (only when `__rtcp_ssrc` is set). -/
inductive Fb where
  | nack (mediaSsrc : Nat) (lost : List Int)
  | pli (mediaSsrc : Nat)
  deriving DecidableEq, Repr

/-- An item put on the decoder queue: `(codec, JitterFrame(data, mapped timestamp))`, the codec named by its
payload type. -/
structure QItem where
  pt : Nat
  ts : Int
  data : Bytes
  deriving DecidableEq, Repr

structure RecvOut where
  r : Receiver
  fb : List Fb
  item : Option QItem
  /-- ghost: the jitter-buffer packets joined into `item` (not observable) -/
  used : List Aiortc.Model.Jitter.Packet
  /-- ghost: `pli_flag` of this call -/
  pli : Bool
  /-- ghost: the packet handed to `JitterBuffer.add` (after RTX unwrap and depayload), if the call got there -/
  fed : Option Aiortc.Model.Jitter.Packet

def RecvOut.drop (r : Receiver) : RecvOut := ⟨r, [], none, [], false, none⟩

/-- A fresh video receiver: `JitterBuffer(capacity=128, is_video=True)`, `NackGenerator()`. -/
def Receiver.init : Outcome Receiver :=
  match Aiortc.Model.Jitter.mk 128 0 true with
  | .ok jb => .ok ⟨NackGen.init, jb, TsMap.init⟩
  | .valueError => .valueError | .crash k => .crash k | .hang => .hang

/-- Lines 499-514: `none` = the packet is dropped; else the (possibly unwrapped) packet and its codec. -/
def unwrapStage (cfg : RecvCfg) (p : RtpPacket) (pt : Nat) (c : Codec) : Outcome (Option (RtpPacket × Nat × Codec)) :=
  if c.name = .rtx then
    match lookupNat cfg.rtxSsrc p.ssrc with
    | none => .ok none
    | some orig =>
      match c.apt with
      | none => .ok none
      | some apt =>
        match lookupNat cfg.codecs apt with
        | none => .ok none
        | some c2 =>
          if p.payload.length < 2 then .ok none
          else match unwrapRtx p apt orig with
            | .ok q => .ok (some (q, apt, c2))
            | .valueError => .valueError | .crash k => .crash k | .hang => .hang
  else .ok (some (p, pt, c))

/-- Lines 516-543, after the unwrap. -/
def feedStage (cfg : RecvCfg) (r : Receiver) (p : RtpPacket) (pt : Nat) (c : Codec) : Outcome RecvOut :=
  match r.nack.add (p.sequenceNumber : Int) with
  | .ok (ng, missed) =>
    let fb1 : List Fb :=
      if missed then (match cfg.rtcpSsrc with | some _ => [Fb.nack p.ssrc (sortInts ng.missing)] | none => [])
      else []
    let r1 : Receiver := { r with nack := ng }
    let dataO : Outcome Bytes := if p.payload.isEmpty then .ok [] else depayloadFor c p.payload
    match dataO with
    | .valueError => .ok ⟨r1, fb1, none, [], false, none⟩
    | .crash k => .crash k
    | .hang => .hang
    | .ok data =>
      let jp : Aiortc.Model.Jitter.Packet := ⟨(p.sequenceNumber : Int), (p.timestamp : Int), data⟩
      match Aiortc.Model.Jitter.add r1.jb jp with
      | .ok o =>
        let fb2 : List Fb :=
          if o.pli then (match cfg.rtcpSsrc with | some _ => [Fb.pli p.ssrc] | none => []) else []
        let r2 : Receiver := { r1 with jb := o.jb }
        match o.frame with
        | some f =>
          if cfg.decoder then
            match r2.tm.map f.ts with
            | .ok (tm', ts') => .ok ⟨{ r2 with tm := tm' }, fb1 ++ fb2, some ⟨pt, ts', f.data⟩, o.used, o.pli, some jp⟩
            | .valueError => .valueError | .crash k => .crash k | .hang => .hang
          else .ok ⟨r2, fb1 ++ fb2, none, o.used, o.pli, some jp⟩
        | none => .ok ⟨r2, fb1 ++ fb2, none, [], o.pli, some jp⟩
      | .valueError => .valueError | .crash k => .crash k | .hang => .hang
  | .valueError => .valueError | .crash k => .crash k | .hang => .hang

/-- `_handle_rtp_packet(packet, arrival_time_ms)`. -/
def handleRtp (cfg : RecvCfg) (r : Receiver) (p : RtpPacket) : Outcome RecvOut :=
  match lookupNat cfg.codecs p.payloadType with
  | none => .ok (RecvOut.drop r)
  | some c =>
    match unwrapStage cfg p p.payloadType c with
    | .ok none => .ok (RecvOut.drop r)
    | .ok (some (q, pt, c2)) => feedStage cfg r q pt c2
    | .valueError => .valueError | .crash k => .crash k | .hang => .hang

end Aiortc.Model.Video
