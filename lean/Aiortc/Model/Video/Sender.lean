import Aiortc.Model.Rtp.Packet
import Aiortc.Gen.Serial
import Aiortc.Gen.Rtp
/-!
# Sender side of `src/aiortc/rtcrtpsender.py` — executable model, no Mathlib

* `sendFrame`  = the body of the `while True` loop of `_run_rtp` (lines 375-407) for one encoded frame
  `(payloads, timestamp)`; an empty payload list never gets here (`_next_encoded_frame` returns `None`).
* `retransmit` = `_retransmit` (lines 332-349); `handleNack` = the NACK branch of `_handle_rtcp_packet`
  (lines 274-276).
* `__rtp_history` (a dict keyed by `sequence_number % RTP_HISTORY_SIZE`, only ever read with `.get`) is an
  association list with one entry per key.
* The random initial `sequence_number`, `timestamp_origin`, `__rtx_sequence_number` and the SSRCs are
  parameters.  Header extensions (`abs_send_time` = clock, `mid`, audio level) are left at their defaults in
  the model: they are copied unchanged by `wrap_rtx` and compared byte-wise by the oracle only.
-/
namespace Aiortc.Model.Video
open Aiortc Aiortc.Gen Aiortc.Rtp

structure SenderCfg where
  ssrc : Nat
  rtxSsrc : Nat
  pt : Nat                   -- codec.payloadType
  rtxPt : Option Nat         -- __rtx_payload_type
  tsOrigin : Int             -- timestamp_origin
  deriving DecidableEq, Repr

/-- What `send` reads of one entry of `parameters.codecs`: payload type, `is_rtx(codec)`, `parameters["apt"]`. -/
structure SendCodec where
  pt : Nat
  isRtx : Bool
  apt : Option Nat
  deriving DecidableEq, Repr

/-- The `for codec in parameters.codecs` loop of `send` (lines 219-225): the first rtx codec whose `apt` is the
payload type `pt0` of `codecs[0]`; `codec.parameters["apt"]` of an rtx codec without `apt` is a KeyError. -/
def rtxScan (pt0 : Nat) : List SendCodec → Outcome (Option Nat)
  | [] => .ok none
  | c :: cs =>
    if c.isRtx then
      match c.apt with
      | none => .crash "KeyError"
      | some a => if a = pt0 then .ok (some c.pt) else rtxScan pt0 cs
    else rtxScan pt0 cs

/-- `__rtx_payload_type` as `send(parameters)` derives it; `parameters.codecs[0]` of an empty list is an IndexError. -/
def rtxFor : List SendCodec → Outcome (Option Nat)
  | [] => .crash "IndexError"
  | c0 :: cs => rtxScan c0.pt (c0 :: cs)

/-- The sender configuration `send(parameters)` establishes: the sending codec is `codecs[0]`. -/
def SenderCfg.ofCodecs (ssrc rtxSsrc : Nat) (codecs : List SendCodec) (tsOrigin : Int) : Outcome SenderCfg :=
  match codecs, rtxFor codecs with
  | c0 :: _, .ok r => .ok ⟨ssrc, rtxSsrc, c0.pt, r, tsOrigin⟩
  | [], _ => .crash "IndexError"
  | _, .valueError => .valueError
  | _, .crash k => .crash k
  | _, .hang => .hang

abbrev History := List (Nat × RtpPacket)

structure Sender where
  seq : Int                  -- local `sequence_number` of `_run_rtp` (next number to use)
  rtxSeq : Int               -- __rtx_sequence_number
  history : History          -- __rtp_history
  deriving DecidableEq, Repr

/-- `history[k] = p`. -/
def histSet (h : History) (k : Nat) (p : RtpPacket) : History := (k, p) :: h.filter (fun e => e.1 ≠ k)

/-- `history.get(k)`. -/
def histGet (h : History) (k : Nat) : Option RtpPacket := (h.find? (fun e => e.1 = k)).map (·.2)

/-- `x % RTP_HISTORY_SIZE` as a dict key. -/
def slotOfSeq (x : Int) : Nat := (x % (RTP_HISTORY_SIZE : Int)).toNat

/-- Lines 378-385: the packet built for payload `i` of `n`. -/
def mkPacket (cfg : SenderCfg) (seq ts : Int) (payload : Bytes) (i n : Nat) : RtpPacket :=
  { marker := if i = n - 1 then 1 else 0, payloadType := cfg.pt, sequenceNumber := seq.toNat,
    timestamp := ts.toNat, ssrc := cfg.ssrc, payload := payload }

/-- The `for i, payload in enumerate(enc_frame.payloads)` loop; `n = len(enc_frame.payloads)`. -/
def sendLoop (cfg : SenderCfg) (ts : Int) (n : Nat) : Nat → List Bytes → Sender → Sender × List RtpPacket
  | _, [], s => (s, [])
  | i, pl :: rest, s =>
    let p := mkPacket cfg s.seq ts pl i n
    let s1 : Sender := { s with history := histSet s.history (slotOfSeq (p.sequenceNumber : Int)) p,
                                seq := uint16_add s.seq 1 }
    let r := sendLoop cfg ts n (i + 1) rest s1
    (r.1, p :: r.2)

/-- One iteration of `_run_rtp` with an encoded frame `(payloads, enc_ts)`; returns the packets handed to
`transport._send_rtp`, in order. -/
def sendFrame (cfg : SenderCfg) (s : Sender) (encTs : Int) (payloads : List Bytes) : Sender × List RtpPacket :=
  sendLoop cfg (uint32_add cfg.tsOrigin encTs) payloads.length 0 payloads s

/-- `_retransmit(sequence_number)`. -/
def retransmit (cfg : SenderCfg) (s : Sender) (sn : Int) : Sender × List RtpPacket :=
  match histGet s.history (slotOfSeq sn) with
  | some p =>
    if (p.sequenceNumber : Int) = sn then
      match cfg.rtxPt with
      | some rpt => ({ s with rtxSeq := uint16_add s.rtxSeq 1 }, [wrapRtx p rpt s.rtxSeq.toNat cfg.rtxSsrc])
      | none => (s, [p])
    else (s, [])
  | none => (s, [])

/-- `for seq in packet.lost: await self._retransmit(seq)`. -/
def handleNack (cfg : SenderCfg) : Sender → List Int → Sender × List RtpPacket
  | s, [] => (s, [])
  | s, x :: xs =>
    let r1 := retransmit cfg s x
    let r2 := handleNack cfg r1.1 xs
    (r2.1, r1.2 ++ r2.2)

end Aiortc.Model.Video
