import Aiortc.Model.Bytes
import Aiortc.Gen.Codec
/-!
# VP8 RTP payload format — executable model of `src/aiortc/codecs/vpx.py` (no Mathlib)

* `VpxPayloadDescriptor.__bytes__` → `Descr.toBytes`   (struct.error = `crash "struct.error"`)
* `VpxPayloadDescriptor.parse`     → `parse`
* `Vp8Encoder._packetize`          → `packetize`
* `vp8_depayload`                  → `depayload`

Descriptor fields are `Nat` (negative Python ints, which `struct.pack` rejects, are not modelled).
-/
namespace Aiortc.Model.Vp8
open Aiortc Aiortc.Gen

structure Descr where
  partition_start : Nat
  partition_id : Nat
  picture_id : Option Nat := none
  tl0picidx : Option Nat := none
  tid : Option (Nat × Nat) := none
  keyidx : Option Nat := none
  deriving Repr, DecidableEq

/-- `pack("!B", n)` -/
def packB (n : Nat) : Outcome Bytes := Outcome.ofStruct (packU8? n)
/-- `pack("!H", n)` -/
def packH (n : Nat) : Outcome Bytes := Outcome.ofStruct (packU16? n)

/-- `if self.picture_id is not None:` block of `__bytes__`: 7-bit or 15-bit (M bit set) picture id. -/
def picBytes : Option Nat → Outcome Bytes
  | none => .ok []
  | some pid => if pid < 128 then packB pid else packH ((1 <<< 15) ||| pid)

/-- `if self.tl0picidx is not None:` block. -/
def tl0Bytes : Option Nat → Outcome Bytes
  | none => .ok []
  | some t => packB t

/-- The `t_k` byte value (TID, Y, KEYIDX). -/
def tkVal (tid : Option (Nat × Nat)) (keyidx : Option Nat) : Nat :=
  let t_k := 0
  let t_k := match tid with
    | some (t0, t1) => t_k ||| ((t0 <<< 6) ||| (t1 <<< 5))
    | none => t_k
  match keyidx with
    | some k => t_k ||| k
    | none => t_k

/-- `if self.tid is not None or self.keyidx is not None:` block. -/
def tkBytes (tid : Option (Nat × Nat)) (keyidx : Option Nat) : Outcome Bytes :=
  if tid.isSome ∨ keyidx.isSome then packB (tkVal tid keyidx) else .ok []

/-- The extension octet (I, L, T, K flags). -/
def extOctet (d : Descr) : Nat :=
  let ext_octet := 0
  let ext_octet := if d.picture_id.isSome then ext_octet ||| (1 <<< 7) else ext_octet
  let ext_octet := if d.tl0picidx.isSome then ext_octet ||| (1 <<< 6) else ext_octet
  let ext_octet := if d.tid.isSome then ext_octet ||| (1 <<< 5) else ext_octet
  if d.keyidx.isSome then ext_octet ||| (1 <<< 4) else ext_octet

/-- `VpxPayloadDescriptor.__bytes__` (the `data += pack(...)` steps in program order). -/
def Descr.toBytes (d : Descr) : Outcome Bytes :=
  let octet := (d.partition_start <<< 4) ||| d.partition_id
  let ext_octet := extOctet d
  if ext_octet ≠ 0 then do
    let b0 ← packB ((1 <<< 7) ||| octet)
    let b1 ← packB ext_octet
    let p ← picBytes d.picture_id
    let l ← tl0Bytes d.tl0picidx
    let tk ← tkBytes d.tid d.keyidx
    pure (b0 ++ b1 ++ p ++ l ++ tk)
  else packB octet

/-- `VpxPayloadDescriptor.parse(data)`: `(descriptor, rest)`. -/
def parse (data : Bytes) : Outcome (Descr × Bytes) :=
  match data with
  | [] => .valueError
  | octet :: _ =>
    let extended := octet >>> 7
    let partition_start := (octet >>> 4) &&& 1
    let partition_id := octet &&& 0xF
    let pos := 1
    if extended ≠ 0 then
      match data[pos]? with
      | none => .valueError
      | some octet =>
        let ext_I := (octet >>> 7) &&& 1
        let ext_L := (octet >>> 6) &&& 1
        let ext_T := (octet >>> 5) &&& 1
        let ext_K := (octet >>> 4) &&& 1
        let pos := pos + 1
        -- picture id
        let r1 : Outcome (Option Nat × Nat) :=
          if ext_I ≠ 0 then
            match data[pos]? with
            | none => .valueError
            | some b =>
              if b &&& 0x80 ≠ 0 then
                if data.length < pos + 2 then .valueError
                else match unpackU16? (slice data pos (pos + 2)) with
                  | some v => .ok (some (v &&& 0x7FFF), pos + 2)
                  | none => .crash "struct.error"
              else .ok (some b, pos + 1)
          else .ok (none, pos)
        match r1 with
        | .ok (picture_id, pos) =>
          let r2 : Outcome (Option Nat × Nat) :=
            if ext_L ≠ 0 then
              match data[pos]? with
              | none => .valueError
              | some b => .ok (some b, pos + 1)
            else .ok (none, pos)
          match r2 with
          | .ok (tl0picidx, pos) =>
            if ext_T ≠ 0 ∨ ext_K ≠ 0 then
              match data[pos]? with
              | none => .valueError
              | some t_k =>
                let tid := if ext_T ≠ 0 then some ((t_k >>> 6) &&& 3, (t_k >>> 5) &&& 1) else none
                let keyidx := if ext_K ≠ 0 then some (t_k &&& 0x1F) else none
                .ok (⟨partition_start, partition_id, picture_id, tl0picidx, tid, keyidx⟩, data.drop (pos + 1))
            else .ok (⟨partition_start, partition_id, picture_id, tl0picidx, none, none⟩, data.drop pos)
          | .valueError => .valueError
          | .crash k => .crash k
          | .hang => .hang
        | .valueError => .valueError
        | .crash k => .crash k
        | .hang => .hang
    else .ok (⟨partition_start, partition_id, none, none, none, none⟩, data.drop pos)

/-- `vp8_depayload`. -/
def depayload (payload : Bytes) : Outcome Bytes :=
  match parse payload with
  | .ok r => .ok r.2
  | .valueError => .valueError
  | .crash k => .crash k
  | .hang => .hang

/-- The `while pos < length` loop of `Vp8Encoder._packetize`; `descr` is mutated after the first round. -/
def packetizeLoop (buffer : Bytes) : Nat → Descr → Nat → Outcome (List Bytes)
  | 0, _, _ => .hang
  | fuel + 1, descr, pos =>
    if pos < buffer.length then
      match descr.toBytes with
      | .ok descr_bytes =>
        let size := min (buffer.length - pos) (VPX_PACKET_MAX - descr_bytes.length)
        let payload := descr_bytes ++ slice buffer pos (pos + size)
        match packetizeLoop buffer fuel { descr with partition_start := 0 } (pos + size) with
        | .ok rest => .ok (payload :: rest)
        | .valueError => .valueError
        | .crash k => .crash k
        | .hang => .hang
      | .valueError => .valueError
      | .crash k => .crash k
      | .hang => .hang
    else .ok []

/-- `Vp8Encoder._packetize(buffer, picture_id)`. -/
def packetize (buffer : Bytes) (picture_id : Nat) : Outcome (List Bytes) :=
  packetizeLoop buffer (buffer.length + 1)
    { partition_start := 1, partition_id := 0, picture_id := some picture_id } 0

end Aiortc.Model.Vp8

namespace Aiortc.Model.Vp8
open Aiortc

/-- Receiver side of the property: `vp8_depayload` of every payload in order, concatenated. -/
def depayloadAll : List Bytes → Outcome Bytes
  | [] => .ok []
  | p :: ps =>
    match depayload p with
    | .ok a =>
      match depayloadAll ps with
      | .ok b => .ok (a ++ b)
      | .valueError => .valueError
      | .crash k => .crash k
      | .hang => .hang
    | .valueError => .valueError
    | .crash k => .crash k
    | .hang => .hang

end Aiortc.Model.Vp8
