import Aiortc.Model.Sctp.Endpoint
/-! # C01 (placeholder while the theorems are being written) -/
namespace Aiortc.Props.C01
open Aiortc.Sctp
theorem flag_masks : Aiortc.Gen.SCTP_DATA_LAST_FRAG = 1 ∧ Aiortc.Gen.SCTP_DATA_FIRST_FRAG = 2 ∧
    Aiortc.Gen.SCTP_DATA_UNORDERED = 4 := by decide
end Aiortc.Props.C01
