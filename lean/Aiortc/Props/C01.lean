import Aiortc.Lemmas.C01.SctpFinal
import Aiortc.Lemmas.C01.SctpRefine
/-!
# C01 — reliable data channels deliver every message exactly once, intact, in order

All theorems are about the executable models of `Model/Sctp/{Outbound,Inbound,Recv}.lean`
(`_send`, `_mark_received`, `InboundStream.add_chunk / pop_messages`, `_receive_data_chunk`,
`_data_channel_send / _data_channel_receive`), for ALL initial TSNs, message sequences and arrival
lists.  The network is the adversary: the receiver is fed an ARBITRARY list of (message, fragment)
pairs of chunks the sender produced — loss, duplication, reordering and delay in one quantifier, and
since every statement holds for every list it holds at every observation instant (every prefix).

Hypotheses beyond the property text (see `ASSUMPTIONS` in harness/props/C01.py):
* `hN`  : fewer than 2^31 DATA chunks are sent during the association (any initial TSN, so the 32-bit
          counter may wrap);  `markReceived_once` needs only the sliding window `Windowed`;
* `SsnWin` : an ordered message arrives only while fewer than 2^15 messages separate it from the next
          message its stream expects (implied by: no stream carries more than 2^15 ordered messages).
-/
namespace Aiortc.Props.C01
open Aiortc.Sctp Aiortc.Gen

/-! ## constants of the property text, tied to the regenerated ones -/

theorem flag_masks : SCTP_DATA_LAST_FRAG = 1 ∧ SCTP_DATA_FIRST_FRAG = 2 ∧ SCTP_DATA_UNORDERED = 4 := by decide
theorem userdata_max_const : USERDATA_MAX_LENGTH = 1200 ∧ USERDATA_MAX = 1200 := by decide
theorem ppid_consts : WEBRTC_DCEP = 50 ∧ WEBRTC_STRING = 51 ∧ WEBRTC_BINARY = 53 ∧
    WEBRTC_STRING_EMPTY = 56 ∧ WEBRTC_BINARY_EMPTY = 57 := by decide

/-! ## (a) `_send`: fragmentation -/

/-- The chunks `_send` creates for one message: fragment `i` carries TSN `tsn + i (mod 2^32)`, the same
stream id / stream sequence number / PPID, and the `i`-th slice of at most 1200 bytes. -/
theorem fragments_shape (tsn : Int) (sid : Nat) (ssn : Int) (ppid : Nat) (ordered : Bool)
    (e r : Option Int) (data : Bytes) :
    (fragments tsn sid ssn ppid ordered e r (fragCount data.length) data (fragCount data.length)).map SChunk.toR
      = (List.range (fragCount data.length)).map fun (i : Nat) =>
          ({ tsn := (tsn + (i : Int)) % 4294967296, sid := sid, ssn := ssn, ppid := ppid,
             flags := fragFlags ordered (fragCount data.length) i,
             data := (data.drop (i * 1200)).take 1200 } : RChunk) := by
  rw [fragments_toR _ _ _ _ _ _ _ _ _ _ (Nat.le_refl _), Nat.sub_self, ← List.range_eq_range']
  apply List.map_congr_left
  intro i _
  simp only [fragAt, USERDATA_MAX_eq]

/-- Exactly the first fragment carries B, exactly the last carries E, U iff the message is unordered. -/
theorem fragments_flags (ordered : Bool) (n i : Nat) :
    flagB (fragFlags ordered n i) = decide (i = 0) ∧ flagE (fragFlags ordered n i) = decide (i = n - 1)
      ∧ flagU (fragFlags ordered n i) = !ordered :=
  ⟨flagB_fragFlags _ _ _, flagE_fragFlags _ _ _, flagU_fragFlags _ _ _⟩

/-- The concatenation of the fragments' payloads is the message. -/
theorem fragments_join (tsn : Int) (sid : Nat) (ssn : Int) (ppid : Nat) (ordered : Bool)
    (e r : Option Int) (data : Bytes) :
    ((fragments tsn sid ssn ppid ordered e r (fragCount data.length) data (fragCount data.length)).map
      SChunk.toR).flatMap (·.data) = data := by
  rw [fragments_toR _ _ _ _ _ _ _ _ _ _ (Nat.le_refl _), Nat.sub_self, ← List.range_eq_range']
  exact fragAt_join _ _ _ _ _ _

/-- Every fragment carries at most 1200 bytes; a non-empty message has at least one fragment. -/
theorem fragments_size (tsn : Int) (sid : Nat) (ssn : Int) (ppid : Nat) (ordered : Bool)
    (e r : Option Int) (data : Bytes) :
    (∀ c ∈ (fragments tsn sid ssn ppid ordered e r (fragCount data.length) data (fragCount data.length)).map
        SChunk.toR, c.data.length ≤ 1200)
    ∧ (data ≠ [] → 1 ≤ fragCount data.length) := by
  constructor
  · rw [fragments_shape]
    intro c hc
    obtain ⟨i, _, rfl⟩ := List.mem_map.1 hc
    simp only [List.length_take]; omega
  · intro h
    have : 0 < data.length := List.length_pos_iff.2 h
    unfold fragCount; rw [USERDATA_MAX_eq]; omega

/-- `_send` advances the local TSN by the number of fragments (mod 2^32), appends exactly the fragments,
and bumps the stream sequence number of an ordered message (mod 2^16). -/
theorem enqueue_counters (t : Tx) (sid ppid : Nat) (data : Bytes) (e r : Option Int) (ordered : Bool) :
    (t.enqueue sid ppid data e r ordered).localTsn = (t.localTsn + fragCount data.length) % 4294967296
    ∧ (t.enqueue sid ppid data e r ordered).outQ
        = t.outQ ++ fragments t.localTsn sid (if ordered then (dictGet t.streamSeq sid).getD 0 else 0) ppid ordered
            e r (fragCount data.length) data (fragCount data.length)
    ∧ (ordered = true → dictGet (t.enqueue sid ppid data e r ordered).streamSeq sid
        = some (uint16_add ((dictGet t.streamSeq sid).getD 0) 1)) := by
  refine ⟨rfl, rfl, ?_⟩
  intro ho
  simp only [Tx.enqueue, ho, if_true]
  exact dictGet_dictSet_same _ _ _

/-- A whole sequence of `_send` calls on a fresh association (initial TSN `t0`): the chunks appended to the
outbound queue are, in order, the fragments `fragOf t0 ms j i`; fragment `i` of message `j` has TSN
`t0 + (number of fragments of earlier messages) + i (mod 2^32)`, and an ordered message carries the number
of earlier ordered messages of its stream (mod 2^16) as stream sequence number. -/
theorem sendAll_wire (t0 : Int) (ht0 : 0 ≤ t0 ∧ t0 < 4294967296) (t : Tx) (h1 : t.localTsn = t0)
    (h2 : t.streamSeq = []) (h3 : t.outQ = []) (ms : List SMsg) :
    (t.sendAll ms).outQ.map SChunk.toR = allFrags t0 ms
    ∧ (∀ c, c ∈ allFrags t0 ms ↔ ∃ p, ValidFrag ms p ∧ c = F t0 ms p)
    ∧ (∀ j i, (fragOf t0 ms j i).tsn = (t0 + ((startOf ms j + i : Nat) : Int)) % 4294967296)
    ∧ (∀ j i, (fragOf t0 ms j i).ssn
        = if (msgAt ms j).ordered then ((ordBefore ms j (msgAt ms j).sid : Nat) : Int) % 65536 else 0) :=
  ⟨sendAll_spec t0 ht0 t h1 h2 h3 ms, mem_allFrags t0 ms, fun j i => fragOf_tsn t0 ms j i, fun _ _ => rfl⟩

example : (Ep.init false 7 4294967295).tx.localTsn = 4294967295 ∧ (Ep.init false 7 4294967295).tx.streamSeq = []
    ∧ (Ep.init false 7 4294967295).tx.outQ = [] := by decide

/-! ## (b) `_mark_received`: every TSN is accepted exactly once -/

/-- The invariant "accepted = {index ≤ cumulative} ∪ misordered" and the verdict of one call: under the
sliding-window hypothesis `_mark_received` reports a duplicate iff the index arrived before. -/
theorem markReceived_invariant (t0 : Int) (ks : List Nat) (r : Rx) (k : Nat)
    (hinv : RxInv t0 ks r) (hwin : ∀ n, IsCum ks n → InWindow n k) :
    (markReceived r (tsnN t0 k)).1 = decide (k ∈ ks) ∧ RxInv t0 (ks ++ [k]) (markReceived r (tsnN t0 k)).2 :=
  markReceived_spec t0 ks r k hinv hwin

/-- Over ANY arrival list of sender indices inside the sliding window (fewer than 2^31 TSNs between the
first missing one and the arriving one), whatever the initial TSN: the `i`-th call returns "duplicate"
iff that index occurred earlier in the list — so each TSN is accepted exactly once, at its first arrival. -/
theorem markReceived_once (t0 : Int) (ks : List Nat) (hw : Windowed [] ks) :
    (markAll { last := tsn_minus_one t0, mis := [], dups := [] } (ks.map (tsnN t0))).1 = seenFlags [] ks :=
  (markAll_spec t0 ks [] _ (RxInv.init t0 []) hw).1

/-- The accepted indices are duplicate-free and are exactly the indices that arrived. -/
theorem accepted_exactly_once (ks : List Nat) :
    (acceptedOf [] ks).Nodup ∧ ∀ k, k ∈ acceptedOf [] ks ↔ k ∈ ks := by
  obtain ⟨h1, h2⟩ := acceptedOf_spec ks []
  exact ⟨h1, fun k => by rw [h2 k]; simp⟩

/-- non-vacuity: an arrival list with reordering and duplicates satisfies the window hypothesis; with initial
TSN 2^32-1 the TSNs wrap inside it. -/
example : Windowed [] [2, 0, 1, 1, 5, 0, 3] := Windowed_of_small _ _ (by decide)
example : (markAll { last := tsn_minus_one 4294967295, mis := [], dups := [] }
    ([2, 0, 1, 1, 5, 0, 3].map (tsnN 4294967295))).1 = [false, false, false, true, false, true, false] := by decide

/-! ## (c) `InboundStream.add_chunk` / `pop_messages` -/

/-- `pop_messages` never hangs (the fuel `2·len + 2` of the model is never exhausted) and every yielded
message is a `PopStep`: the queue is `pre ++ run ++ post`, `run` starts with a B chunk, its TSNs are
consecutive, only its last chunk carries E, the message is the concatenation of `run`'s payloads with the
last chunk's stream id and PPID, and afterwards the queue is `pre ++ post`. -/
theorem pop_sound (s : InStream) :
    ∃ out s', s.popMessages = .ok (out, s') ∧ PopSteps s.reasm s.seq out s'.reasm s'.seq :=
  popMessages_ok s

theorem pop_never_hangs (s : InStream) : s.popMessages ≠ .hang := by
  obtain ⟨out, s', h, _⟩ := popMessages_ok s
  rw [h]; intro e; cases e

/-- What a `PopStep` is, spelled out. -/
theorem popStep_spelled {reasm : List RChunk} {seq : Int} {m : Msg} {reasm' : List RChunk} {seq' : Int}
    (h : PopStep reasm seq m reasm' seq') :
    ∃ (pre run post : List RChunk) (hd lst : RChunk),
      reasm = pre ++ run ++ post ∧ reasm' = pre ++ post ∧ run.head? = some hd ∧ run.getLast? = some lst
      ∧ flagB hd.flags = true ∧ Linked run ∧ flagE lst.flags = true
      ∧ m = { sid := lst.sid, ppid := lst.ppid, data := run.flatMap (·.data) } := by
  obtain ⟨pre, run, post, hd, lst, h1, h2, h3, h4, h5, h6, h7, _, h9, _⟩ := h
  exact ⟨pre, run, post, hd, lst, h1, h2, h3, h4, h5, h6, h7, h9⟩

/-- `add_chunk` of a chunk whose TSN is not queued never raises the `AssertionError`, and keeps the queue
duplicate-free. -/
theorem addChunk_no_assert (s : InStream) (c : RChunk) (h : ∀ r ∈ s.reasm, r.tsn ≠ c.tsn) :
    ∃ s1, s.addChunk c = .ok s1 ∧ s1.seq = s.seq ∧ (∀ x, x ∈ s1.reasm → x = c ∨ x ∈ s.reasm)
      ∧ (s.reasm.Nodup → c ∉ s.reasm → s1.reasm.Nodup) :=
  addChunk_spec s c h

/-- Inside a window of fewer than 2^31 TSNs `add_chunk` keeps the queue sorted in serial TSN order (strictly
increasing sender indices `J`, for any initial TSN) and inserts the chunk exactly once. -/
theorem addChunk_keeps_sorted (t0 : Int) (s : InStream) (c : RChunk) (J : List Nat) (k : Nat)
    (hJ : J.Pairwise (· < ·)) (hmap : s.reasm.map (·.tsn) = J.map (tsnN t0)) (hk : k ∉ J)
    (hc : c.tsn = tsnN t0 k)
    (hw : ∀ x ∈ J, (x : Int) - k < 2147483648 ∧ (k : Int) - x < 2147483648) :
    ∃ s1, s.addChunk c = .ok s1 ∧ s1.seq = s.seq ∧ s1.reasm.map (·.tsn) = (insNat k J).map (tsnN t0)
      ∧ (insNat k J).Pairwise (· < ·) ∧ s1.reasm.Perm (c :: s.reasm) :=
  addChunk_sorted t0 s c J k hJ hmap hk hc hw

/-! ## (d) end to end -/

/-- Any list of chunks taken from the sender's output is the image of a list of valid (message, fragment)
pairs: quantifying over such pair lists is quantifying over all loss / duplication / reordering / delay
patterns of the sender's DATA chunks. -/
theorem arrivals_wlog (t0 : Int) (ms : List SMsg) (cs : List RChunk) (h : ∀ c ∈ cs, c ∈ allFrags t0 ms) :
    ∃ ps : List (Nat × Nat), (∀ q ∈ ps, ValidFrag ms q) ∧ cs = ps.map (F t0 ms) :=
  arrivals_are_frags t0 ms cs h

/-- The receiver never raises and never hangs on sender-produced chunks, and reaches the invariant. -/
theorem C01_receiver_total (t0 : Int) (ms : List SMsg) (hN : (allFrags t0 ms).length < 2147483648)
    (arr : List (Nat × Nat)) (hv : ∀ q ∈ arr, ValidFrag ms q) (hw : SsnWin t0 ms arr) :
    ∃ r out, Recv.run (Recv.init t0) (arr.map (F t0 ms)) = .ok (r, out) ∧ Inv t0 ms arr r out :=
  run_inv t0 ms (by rw [← allFrags_length t0 ms]; exact hN) arr hv hw

/-- Exactly once, intact (all streams, ordered or not): the messages handed to `_receive` are the images of
a DUPLICATE-FREE list of indices of sent messages — each delivery is a sent message with its exact stream
id, PPID and payload, and no sent message is delivered twice. -/
theorem C01_unordered (t0 : Int) (ms : List SMsg) (hN : (allFrags t0 ms).length < 2147483648)
    (arr : List (Nat × Nat)) (hv : ∀ q ∈ arr, ValidFrag ms q) (hw : SsnWin t0 ms arr)
    (r : Recv) (out : List Msg) (hrun : Recv.run (Recv.init t0) (arr.map (F t0 ms)) = .ok (r, out)) :
    ∃ dl : List Nat, dl.Nodup ∧ (∀ j ∈ dl, j < ms.length) ∧ out = dl.map (fun j => (msgAt ms j).toMsg)
      ∧ (∀ j ∈ dl, ∀ i, i < nfr (msgAt ms j) → (j, i) ∈ arr) := by
  obtain ⟨r', out', hrun', hinv⟩ := C01_receiver_total t0 ms hN arr hv hw
  rw [hrun] at hrun'
  simp only [Outcome.ok.injEq, Prod.mk.injEq] at hrun'
  obtain ⟨rfl, rfl⟩ := hrun'
  obtain ⟨_, dl, hg, _, _⟩ := hinv
  exact ⟨dl, hg.nodup, hg.lt, hg.out_eq, hg.arrived⟩

/-- … hence the deliveries are a sub-multiset of the sends. -/
theorem C01_unordered_count (t0 : Int) (ms : List SMsg) (hN : (allFrags t0 ms).length < 2147483648)
    (arr : List (Nat × Nat)) (hv : ∀ q ∈ arr, ValidFrag ms q) (hw : SsnWin t0 ms arr)
    (r : Recv) (out : List Msg) (hrun : Recv.run (Recv.init t0) (arr.map (F t0 ms)) = .ok (r, out))
    (m : Msg) : out.count m ≤ (ms.map SMsg.toMsg).count m := by
  obtain ⟨dl, hnd, hlt, hout, _⟩ := C01_unordered t0 ms hN arr hv hw r out hrun
  have := count_map_le_range (fun j => (msgAt ms j).toMsg) m ms.length dl hnd hlt
  rw [hout]
  have e : (List.range ms.length).map (fun j => (msgAt ms j).toMsg) = ms.map SMsg.toMsg := by
    conv => rhs; rw [← map_msgAt_range ms]
    rw [List.map_map]; rfl
  rw [e] at this; exact this

/-- No cross-talk: whatever is delivered was sent, on the stream it is delivered on, with the same PPID and
payload. -/
theorem C01_no_crosstalk (t0 : Int) (ms : List SMsg) (hN : (allFrags t0 ms).length < 2147483648)
    (arr : List (Nat × Nat)) (hv : ∀ q ∈ arr, ValidFrag ms q) (hw : SsnWin t0 ms arr)
    (r : Recv) (out : List Msg) (hrun : Recv.run (Recv.init t0) (arr.map (F t0 ms)) = .ok (r, out)) :
    ∀ m ∈ out, ∃ sm ∈ ms, sm.sid = m.sid ∧ sm.ppid = m.ppid ∧ sm.data = m.data := by
  obtain ⟨dl, _, hlt, hout, _⟩ := C01_unordered t0 ms hN arr hv hw r out hrun
  intro m hm
  rw [hout] at hm
  obtain ⟨j, hj, rfl⟩ := List.mem_map.1 hm
  exact ⟨msgAt ms j, msgAt_mem ms j (hlt j hj), rfl, rfl, rfl⟩

/-- Ordered channels: on a stream all of whose messages are ordered, the deliveries are — at every instant,
i.e. for every arrival list — a PREFIX of the messages sent on that stream (value and PPID included). -/
theorem C01_ordered (t0 : Int) (ms : List SMsg) (hN : (allFrags t0 ms).length < 2147483648)
    (arr : List (Nat × Nat)) (hv : ∀ q ∈ arr, ValidFrag ms q) (hw : SsnWin t0 ms arr)
    (r : Recv) (out : List Msg) (hrun : Recv.run (Recv.init t0) (arr.map (F t0 ms)) = .ok (r, out))
    (s : Nat) (ho : OrdOnly ms s) :
    out.filter (fun m => m.sid == s) <+: sentOn ms s := by
  obtain ⟨r', out', hrun', hinv⟩ := C01_receiver_total t0 ms hN arr hv hw
  rw [hrun] at hrun'
  simp only [Outcome.ok.injEq, Prod.mk.injEq] at hrun'
  obtain ⟨rfl, rfl⟩ := hrun'
  obtain ⟨_, dl, _, _, hO⟩ := hinv
  obtain ⟨d, _, _, hfil, _⟩ := hO s ho
  rw [hfil]; exact List.take_prefix _ _

/-- "At every instant": what the application has seen after any prefix `pre` of the arrivals is a prefix `o1`
of what it sees in the end (deliveries are never retracted or reordered), and `o1` itself satisfies the
ordered / exactly-once statements (the theorems above hold for every arrival list, hence for `pre`). -/
theorem C01_every_instant (t0 : Int) (ms : List SMsg) (hN : (allFrags t0 ms).length < 2147483648)
    (arr : List (Nat × Nat)) (hv : ∀ q ∈ arr, ValidFrag ms q) (hw : SsnWin t0 ms arr)
    (r : Recv) (out : List Msg) (hrun : Recv.run (Recv.init t0) (arr.map (F t0 ms)) = .ok (r, out))
    (pre : List (Nat × Nat)) (hpre : pre <+: arr) :
    ∃ r1 o1, Recv.run (Recv.init t0) (pre.map (F t0 ms)) = .ok (r1, o1) ∧ o1 <+: out
      ∧ (∀ s, OrdOnly ms s → o1.filter (fun m => m.sid == s) <+: sentOn ms s)
      ∧ (∀ m, o1.count m ≤ (ms.map SMsg.toMsg).count m) := by
  obtain ⟨suf, hsuf⟩ := hpre
  have hvp : ∀ q ∈ pre, ValidFrag ms q := fun q hq => hv q (by rw [← hsuf]; exact List.mem_append_left _ hq)
  have hwp : SsnWin t0 ms pre := hw.prefix ⟨suf, hsuf⟩
  rw [← hsuf, List.map_append] at hrun
  obtain ⟨r1, o1, o2, h1, _, h3⟩ := Recv.run_append_inv _ _ _ _ _ hrun
  exact ⟨r1, o1, h1, ⟨o2, h3.symm⟩, fun s ho => C01_ordered t0 ms hN pre hvp hwp r1 o1 h1 s ho,
    fun m => C01_unordered_count t0 ms hN pre hvp hwp r1 o1 h1 m⟩

/-! ### full-strength statements (sliding TSN window) and how the proved ones relate to them

DESIGN.md asks for the end-to-end statements under a *sliding* window: fewer than 2^31 TSNs between the receiver's
cumulative TSN / the chunks it still holds and any arriving chunk (`TsnWin`), so that an association may send any
number of chunks.  `C01_ordered`, `C01_unordered`, … above are these statements with `TsnWin` replaced by the
stronger `(allFrags t0 ms).length < 2^31` (`TsnWin_of_few`); they are the `_partial` versions.  The gap: to keep every
queued chunk within the window of later arrivals one needs that `pop_messages` delivers every complete deliverable
message (a completeness statement of C02's kind), which is not proved here. -/

/-- Full-strength ordered statement (NOT proved; `C01_ordered` is its restriction to `< 2^31` chunks). -/
def C01_ordered_sliding : Prop :=
  ∀ (t0 : Int) (ms : List SMsg) (arr : List (Nat × Nat)), (∀ q ∈ arr, ValidFrag ms q) →
    TsnWin t0 ms arr → SsnWin t0 ms arr →
    ∃ r out, Recv.run (Recv.init t0) (arr.map (F t0 ms)) = .ok (r, out) ∧
      ∀ s, OrdOnly ms s → out.filter (fun m => m.sid == s) <+: sentOn ms s

/-- Full-strength exactly-once statement (NOT proved; `C01_unordered` is its restriction to `< 2^31` chunks). -/
def C01_unordered_sliding : Prop :=
  ∀ (t0 : Int) (ms : List SMsg) (arr : List (Nat × Nat)), (∀ q ∈ arr, ValidFrag ms q) →
    TsnWin t0 ms arr → SsnWin t0 ms arr →
    ∃ r out, Recv.run (Recv.init t0) (arr.map (F t0 ms)) = .ok (r, out) ∧
      ∃ dl : List Nat, dl.Nodup ∧ (∀ j ∈ dl, j < ms.length) ∧ out = dl.map (fun j => (msgAt ms j).toMsg)

/-- What is proved of `C01_ordered_sliding`: its body for every association with fewer than 2^31 chunks (for
which `TsnWin` holds automatically, `TsnWin_of_few`). -/
theorem C01_ordered_partial (t0 : Int) (ms : List SMsg) (hN : (allFrags t0 ms).length < 2147483648)
    (arr : List (Nat × Nat)) (hv : ∀ q ∈ arr, ValidFrag ms q) (hw : SsnWin t0 ms arr) :
    TsnWin t0 ms arr ∧
    ∃ r out, Recv.run (Recv.init t0) (arr.map (F t0 ms)) = .ok (r, out) ∧
      ∀ s, OrdOnly ms s → out.filter (fun m => m.sid == s) <+: sentOn ms s := by
  refine ⟨TsnWin_of_few t0 ms (by rw [← allFrags_length t0 ms]; exact hN) arr hv, ?_⟩
  obtain ⟨r, out, hrun, _⟩ := C01_receiver_total t0 ms hN arr hv hw
  exact ⟨r, out, hrun, fun s ho => C01_ordered t0 ms hN arr hv hw r out hrun s ho⟩

theorem C01_unordered_partial (t0 : Int) (ms : List SMsg) (hN : (allFrags t0 ms).length < 2147483648)
    (arr : List (Nat × Nat)) (hv : ∀ q ∈ arr, ValidFrag ms q) (hw : SsnWin t0 ms arr) :
    TsnWin t0 ms arr ∧
    ∃ r out, Recv.run (Recv.init t0) (arr.map (F t0 ms)) = .ok (r, out) ∧
      ∃ dl : List Nat, dl.Nodup ∧ (∀ j ∈ dl, j < ms.length) ∧ out = dl.map (fun j => (msgAt ms j).toMsg) := by
  refine ⟨TsnWin_of_few t0 ms (by rw [← allFrags_length t0 ms]; exact hN) arr hv, ?_⟩
  obtain ⟨r, out, hrun, _⟩ := C01_receiver_total t0 ms hN arr hv hw
  obtain ⟨dl, h1, h2, h3, _⟩ := C01_unordered t0 ms hN arr hv hw r out hrun
  exact ⟨r, out, hrun, dl, h1, h2, h3⟩

/-- Chunk-level corollary with plain hypotheses: fresh sender with initial TSN `t0`, messages `ms`, fewer
than 2^31 chunks in total and at most 2^15 ordered messages per stream; `cs` is ANY list of chunks from the
sender's outbound queue.  Then the receiver accepts `cs` without exception and all four conclusions hold. -/
theorem C01_chunks (t0 : Int) (ht0 : 0 ≤ t0 ∧ t0 < 4294967296) (t : Tx) (h1 : t.localTsn = t0)
    (h2 : t.streamSeq = []) (h3 : t.outQ = []) (ms : List SMsg)
    (hN : (t.sendAll ms).outQ.length < 2147483648) (hfew : ∀ s, ordBefore ms ms.length s ≤ 32768)
    (cs : List RChunk) (hcs : ∀ c ∈ cs, c ∈ (t.sendAll ms).outQ.map SChunk.toR) :
    ∃ r out, Recv.run (Recv.init t0) cs = .ok (r, out)
      ∧ (∀ s, OrdOnly ms s → out.filter (fun m => m.sid == s) <+: sentOn ms s)
      ∧ (∀ m, out.count m ≤ (ms.map SMsg.toMsg).count m)
      ∧ (∀ m ∈ out, ∃ sm ∈ ms, sm.sid = m.sid ∧ sm.ppid = m.ppid ∧ sm.data = m.data) := by
  have hwire := sendAll_spec t0 ht0 t h1 h2 h3 ms
  have hN' : (allFrags t0 ms).length < 2147483648 := by
    rw [← hwire, List.length_map]; exact hN
  rw [hwire] at hcs
  obtain ⟨ps, hv, rfl⟩ := arrivals_are_frags t0 ms cs hcs
  have hw := SsnWin_of_few t0 ms hfew ps hv
  obtain ⟨r, out, hrun, _⟩ := C01_receiver_total t0 ms hN' ps hv hw
  exact ⟨r, out, hrun, fun s ho => C01_ordered t0 ms hN' ps hv hw r out hrun s ho,
    fun m => C01_unordered_count t0 ms hN' ps hv hw r out hrun m,
    C01_no_crosstalk t0 ms hN' ps hv hw r out hrun⟩

/-! ### non-vacuity: a concrete association at the TSN wrap point -/

/-- two streams: stream 1 ordered (a 3-fragment string then a 1-byte binary), stream 2 unordered -/
def bigPayload : Bytes := List.replicate 2500 65
theorem bigPayload_len : bigPayload.length = 2500 := List.length_replicate

def demoMsgs : List SMsg :=
  [ { sid := 1, ppid := 51, data := bigPayload, ordered := true },
    { sid := 2, ppid := 53, data := [9, 9], ordered := false },
    { sid := 1, ppid := 53, data := [7], ordered := true } ]

/-- arrival order with loss of nothing, a duplicate and heavy reordering: (message, fragment) -/
def demoArr : List (Nat × Nat) := [(2, 0), (0, 2), (1, 0), (0, 0), (0, 2), (0, 1), (1, 0)]

theorem demo_valid : ∀ q ∈ demoArr, ValidFrag demoMsgs q := by
  intro q hq
  simp only [demoArr, List.mem_cons, List.mem_nil_iff, or_false] at hq
  rcases hq with rfl | rfl | rfl | rfl | rfl | rfl | rfl <;>
    simp [ValidFrag, msgAt, demoMsgs, nfr, fragCount, USERDATA_MAX_eq, bigPayload_len]

example : (allFrags 4294967295 demoMsgs).length < 2147483648 ∧ (∀ q ∈ demoArr, ValidFrag demoMsgs q)
    ∧ OrdOnly demoMsgs 1 := by
  refine ⟨?_, demo_valid, ?_⟩
  · rw [allFrags_length]; simp [startOf, demoMsgs, nfr, fragCount, USERDATA_MAX_eq, bigPayload_len]
  · intro m hm hs
    simp only [demoMsgs, List.mem_cons, List.mem_nil_iff, or_false] at hm
    rcases hm with rfl | rfl | rfl <;> simp_all

example : SsnWin 4294967295 demoMsgs demoArr :=
  SsnWin_of_few _ _ (by
    intro s
    unfold ordBefore
    have h : ((demoMsgs.take demoMsgs.length).filter fun m => m.ordered && m.sid == s).length ≤ demoMsgs.length :=
      Nat.le_trans (List.length_filter_le _ _) (List.length_take_le _ _)
    have : demoMsgs.length = 3 := rfl
    omega) _ demo_valid

/-- The receiver really delivers (the safety theorems are not vacuous): initial TSN 2^32-1, an ordered
two-fragment message (TSNs 2^32-1, 0) and an ordered one-fragment message (TSN 1) on stream 1, an unordered
message (TSN 2) on stream 2; arrival order 2, 1, 0, 0 (dup), 2^32-1: everything is delivered exactly once,
stream 1 in sending order although its second message arrived first. -/
example :
    (match Recv.run (Recv.init 4294967295)
        [ { tsn := 2, sid := 2, ssn := 0, ppid := 53, flags := 7, data := [9] },
          { tsn := 1, sid := 1, ssn := 1, ppid := 53, flags := 3, data := [7] },
          { tsn := 0, sid := 1, ssn := 0, ppid := 51, flags := 1, data := [66] },
          { tsn := 0, sid := 1, ssn := 0, ppid := 51, flags := 1, data := [66] },
          { tsn := 4294967295, sid := 1, ssn := 0, ppid := 51, flags := 2, data := [65] } ] with
      | .ok (_, out) => out
      | _ => []) =
    [ { sid := 2, ppid := 53, data := [9] }, { sid := 1, ppid := 51, data := [65, 66] },
      { sid := 1, ppid := 53, data := [7] } ] := by decide

/-! ### link to the endpoint automaton that the trace correspondence validates -/

/-- The pure receiver step IS what `receiveData` (`_receive_data_chunk` inside the whole-endpoint automaton of
`Model/Sctp/Endpoint.lean`) computes: on an endpoint whose receive fields are `(rx, inStreams)`, whenever
`Recv.step` returns `ok (r', msgs)` the handler continues with `deliver msgs` (= `_receive` for each message, in
order) on a state whose receive fields are `r'`.  (Both include the guard that drops a chunk whose TSN is still
waiting in its stream's reassembly queue — the `fix:` for the "duplicate chunk in reassembly" assertion; under the
receiver invariant of this file it never fires.) -/
theorem endpoint_receive_refines (c : RChunk) (e : Ep) (l : List Out) (rx : Rx) (r' : Recv) (msgs : List Msg)
    (hrx : e.rx = some rx) (hstep : Recv.step { rx := rx, streams := e.inStreams } c = .ok (r', msgs)) :
    ∃ e', (receiveData c).run.run (e, l) = (deliver msgs).run.run (e', l)
      ∧ e'.rx = some r'.rx ∧ e'.inStreams = r'.streams :=
  receiveData_refines c e l rx r' msgs hrx hstep

/-- `dcReceive` (`_data_channel_receive` in the endpoint automaton) on a user message, with application handlers
that may re-enter `send()` (the echo-in-on-message idiom): either nothing happens at all (state and outputs unchanged),
or exactly ONE `message` event is emitted, on the channel registered for that stream id, with the value and type given
by `decodeUser`, followed only by handler outputs (`task` / `rexc`), and the state changes at most as one handler run
may change it (`ReactFrame`): one reaction consumed, `chans[i].buffered` increased, one user-data entry for channel `i`
appended to `dcQueue`, one `flush` task appended — every other field is equal (`ReactFrame.rest`), in particular
`rx`, `inStreams`, `sackNeeded`, `dataChannels`, `tx` (`ReactFrame.fields`). -/
theorem endpoint_dcReceive_user (sid ppid : Nat) (data : Bytes) (e : Ep) (l : List Out)
    (h : (ppid = WEBRTC_DCEP && !data.isEmpty) = false) :
    ∃ res e' evs, (dcReceive sid ppid data).run.run (e, l) = (res, (e', l ++ evs))
      ∧ ((evs = [] ∧ e' = e) ∨
         ∃ i b d tail, evs = Out.evMessage i b d :: tail ∧ decodeUser ppid data = some (b, d)
           ∧ dictGet e.dataChannels sid = some i ∧ ReactFrame i e e' ∧ ∀ o ∈ tail, IsHandlerOut o)
      ∧ e'.rx = e.rx ∧ e'.inStreams = e.inStreams ∧ e'.sackNeeded = e.sackNeeded
      ∧ e'.dataChannels = e.dataChannels ∧ e'.tx = e.tx := by
  obtain ⟨res, e', evs, hrun, hcase⟩ := dcReceive_user sid ppid data e l h
  refine ⟨res, e', evs, hrun, hcase, ?_⟩
  rcases hcase with ⟨_, rfl⟩ | ⟨i, b, d, tail, _, _, _, hfr, _⟩
  · exact ⟨rfl, rfl, rfl, rfl, rfl⟩
  · obtain ⟨h1, h2, h3, h4, h5, _, _⟩ := hfr.fields
    exact ⟨h1, h2, h3, h4, h5⟩

/-- What a handler run may change, spelled out (the fields of `ReactFrame`). -/
theorem reactFrame_spelled {i : Nat} {e e' : Ep} (h : ReactFrame i e e') :
    e' = { e with reactions := e'.reactions, chans := e'.chans, dcQueue := e'.dcQueue, tasks := e'.tasks }
    ∧ (e'.reactions = e.reactions ∨ ∃ r ∈ e.reactions, e'.reactions = e.reactions.erase r)
    ∧ (e'.chans = e.chans ∨ ∃ (c : Chan) (a : Int), e.chans[i]? = some c ∧ 0 < a
        ∧ e'.chans = e.chans.set i { c with buffered := c.buffered + a })
    ∧ (e'.dcQueue = e.dcQueue
        ∨ ∃ isStr d, e'.dcQueue = e.dcQueue ++ [(i, (userData isStr d).1, (userData isStr d).2)])
    ∧ (e'.tasks = e.tasks ∨ e'.tasks = e.tasks ++ [Task.flush]) :=
  ⟨h.rest, h.reactions, h.chans, h.dcQueue, h.tasks⟩

/-- Echo handlers preserve order.  `msgs`: user messages of one stream `sid` whose channel `i` is open with the
application's handlers attached (`EchoReady`), at least as many `message` handlers armed for `i` (`echoes i e`, in
arming order) as there are messages.  Then `deliver msgs` (the `_receive` loop of `_receive_data_chunk`) succeeds,
emits exactly one `message` event per message in delivery order (`msgEvents`), the `k`-th delivery consumes the
`k`-th armed handler, and the handlers' re-entrant `send()`s are appended to `dcQueue` in that same order; `rx` and
`inStreams` are untouched, the remaining handlers stay armed in order. -/
theorem echo_preserves_order (sid i : Nat) (msgs : List Msg) (e : Ep) (l : List Out) (hready : EchoReady sid i e)
    (hmsgs : ∀ m ∈ msgs, m.sid = sid ∧ (m.ppid = WEBRTC_DCEP && !m.data.isEmpty) = false
      ∧ (decodeUser m.ppid m.data).isSome = true)
    (harmed : msgs.length ≤ (echoes i e).length) :
    ∃ e' outs, (deliver msgs).run.run (e, l) = (.ok (), (e', l ++ outs))
      ∧ e'.dcQueue = e.dcQueue ++ ((echoes i e).take msgs.length).map (echoEntry i)
      ∧ echoes i e' = (echoes i e).drop msgs.length ∧ EchoReady sid i e'
      ∧ e'.rx = e.rx ∧ e'.inStreams = e.inStreams
      ∧ msgEvents outs = msgs.filterMap (fun m => (decodeUser m.ppid m.data).map fun v => (i, v.1, v.2)) :=
  deliver_echo_order sid i msgs e l hready hmsgs harmed

/-- non-vacuity: two messages, two armed echo handlers (and a handler of another channel in between). -/
example :
    let e : Ep := { (Ep.init true 1 100) with
      dataChannels := [(4, 0)], chans := [{ id := some 4, label := [], protocol := [], ready := 1 }]
      reactions := [(3, 0, true, [104, 105]), (3, 7, false, [1]), (3, 0, false, [])] }
    EchoReady 4 0 e ∧ echoes 0 e = [(3, 0, true, [104, 105]), (3, 0, false, [])]
      ∧ (match (deliver [{ sid := 4, ppid := 51, data := [97] }, { sid := 4, ppid := 57, data := [0] }]).run.run (e, []) with
          | (_, e', outs) => (e'.dcQueue, msgEvents outs))
        = ([(0, 51, [104, 105]), (0, 57, [0])], [(0, true, [97]), (0, false, [])]) := by
  refine ⟨⟨by decide, _, rfl, rfl, rfl⟩, by decide, by decide⟩

/-! ## (e) PPID mapping of the data-channel layer -/

/-- `send(x)` then `_data_channel_receive`: the `message` event carries exactly the value and the type
(str / bytes) that was sent, including the empty string and empty bytes; `data` of a `str` is its UTF-8
encoding, which is always valid UTF-8. -/
theorem ppid_roundtrip (isStr : Bool) (data : Bytes) (h : isStr = true → utf8Valid data = true) :
    decodeUser (encodeUser isStr data).1 (encodeUser isStr data).2 = some (isStr, data) := by
  unfold encodeUser decodeUser
  simp only [WEBRTC_DCEP, WEBRTC_STRING, WEBRTC_BINARY, WEBRTC_STRING_EMPTY, WEBRTC_BINARY_EMPTY]
  cases isStr <;> cases data with
  | nil => simp
  | cons a t => simp_all

/-- The payload handed to `_send` is never empty, so every channel message has at least one fragment. -/
theorem encodeUser_nonempty (isStr : Bool) (data : Bytes) :
    (encodeUser isStr data).2 ≠ [] ∧ 1 ≤ fragCount (encodeUser isStr data).2.length := by
  have h : (encodeUser isStr data).2 ≠ [] := by
    unfold encodeUser
    cases data with
    | nil => simp
    | cons a t => simp
  refine ⟨h, ?_⟩
  have : 0 < (encodeUser isStr data).2.length := List.length_pos_iff.2 h
  unfold fragCount; rw [USERDATA_MAX_eq]; omega

/-- DCEP control messages are never delivered as user messages; a non-user PPID delivers nothing. -/
theorem decodeUser_dcep (data : Bytes) (h : data ≠ []) : decodeUser 50 data = none := by
  unfold decodeUser
  cases data with
  | nil => exact absurd rfl h
  | cons a t => simp [WEBRTC_DCEP]

/-- The `_send` call `channel.send(value)` results in, on stream `s` (`v = (is str, payload)`). -/
def userMsg (s : Nat) (ordered : Bool) (v : Bool × Bytes) : SMsg :=
  { sid := s, ppid := (encodeUser v.1 v.2).1, data := (encodeUser v.1 v.2).2, ordered := ordered }

/-- What the application sees of a message handed to `_receive`: `(is str, payload)` or nothing. -/
def appView (m : Msg) : Option (Bool × Bytes) := decodeUser m.ppid m.data

/-- Decoding what a list of `send()` calls put on a stream gives back the values and their types. -/
theorem appView_userMsgs (s : Nat) (ordered : Bool) (vs : List (Bool × Bytes))
    (h : ∀ v ∈ vs, v.1 = true → utf8Valid v.2 = true) :
    ((vs.map (userMsg s ordered)).map SMsg.toMsg).filterMap appView = vs := by
  induction vs with
  | nil => rfl
  | cons v t ih =>
    have hv := ppid_roundtrip v.1 v.2 (h v (by simp))
    have := ih (fun x hx => h x (by simp [hx]))
    simp only [List.map_cons, List.filterMap_cons]
    have e : appView (userMsg s ordered v).toMsg = some v := hv
    rw [e, this]

/-- Application level, ordered channel: the `message` events (value AND type) seen on stream `s` are, for every
arrival list, a prefix of the values passed to `send()` on that stream — DCEP control messages (PPID 50), which
share the stream, are invisible on both sides. -/
theorem C01_app_ordered (t0 : Int) (ms : List SMsg) (hN : (allFrags t0 ms).length < 2147483648)
    (arr : List (Nat × Nat)) (hv : ∀ q ∈ arr, ValidFrag ms q) (hw : SsnWin t0 ms arr)
    (r : Recv) (out : List Msg) (hrun : Recv.run (Recv.init t0) (arr.map (F t0 ms)) = .ok (r, out))
    (s : Nat) (ho : OrdOnly ms s) :
    (out.filter (fun m => m.sid == s)).filterMap appView <+: (sentOn ms s).filterMap appView :=
  List.IsPrefix.filterMap appView (C01_ordered t0 ms hN arr hv hw r out hrun s ho)

example : ((([(true, []), (false, []), (true, [0xC3, 0xA9]), (false, [0, 255])] : List (Bool × Bytes)).map
    (userMsg 3 true)).map SMsg.toMsg).filterMap appView
      = [(true, []), (false, []), (true, [0xC3, 0xA9]), (false, [0, 255])] := by decide

/-- The SSN window hypothesis cannot be dropped: with the expected SSN at 0, an ordered message 2^15 ahead is
"not greater" in 16-bit serial arithmetic and is delivered at once, out of order (as in RFC 4960). -/
example :
    (match Recv.run (Recv.init 10)
        [ { tsn := 40000, sid := 1, ssn := 32768, ppid := 53, flags := 3, data := [1] } ] with
      | .ok (_, out) => out.length
      | _ => 0) = 1 := by decide

example : decodeUser (encodeUser true []).1 (encodeUser true []).2 = some (true, []) := by decide
example : decodeUser (encodeUser false []).1 (encodeUser false []).2 = some (false, []) := by decide
example : decodeUser (encodeUser true [0xC3, 0xA9]).1 (encodeUser true [0xC3, 0xA9]).2 = some (true, [0xC3, 0xA9]) := by
  decide

end Aiortc.Props.C01
