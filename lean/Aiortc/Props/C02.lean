import Aiortc.Lemmas.C02.SctpRxInv
/-!
# C02 — data channel traffic always drains: no stall or deadlock after any fault history

Model: `Model/Sctp/Outbound.lean` (`Tx`: `_send`, `_transmit`, `_receive_sack_chunk`, `_t3_expired`,
`_maybe_abandon`, `_update_advanced_peer_ack_point`, flight size), `Model/Sctp/Inbound.lean` (`Rx`:
`_mark_received`), `Model/Sctp/Endpoint.lean` (`sendSack`), tied to the real endpoints by the trace
correspondence of `harness/props/C02.py`.

What is proved here, for ALL inputs / histories (no enumeration):

* (a) `flight_accounting` — in every sender state reachable by any sequence of sender operations,
  `_flight_size` is exactly the sum of `_book_size` over the chunks of `_sent_queue` counted in flight, and no
  queued chunk is counted; preserved by each of the six operations separately; `sentQ = [] → flight = 0`;
  the saturating subtraction never truncates.
* (b) `timer_armed` — in every reachable sender state: something outstanding ⇒ T3 armed or a `_transmit`
  pending; FORWARD TSN waiting ⇒ `_transmit` pending; data queued ⇒ something outstanding or `_transmit` pending.
* (c) `t3_progress` — T3 expiry then the queued `_transmit` sends the earliest outstanding chunk first and
  re-arms T3 (`flight = 0 < cwnd = 1200`).
* (d) `receiveSack_never_raises`, `no_crash_reachable`, `transmit_loop_fuel_suffices`.
* (e) `sack_describes_misordered` — the gap blocks describe exactly the misordered set.
* (f) `C02_drains` (full statement, a `def`), and `C02_drains_partial`: on the sender/receiver pair joined by a
  lossless FIFO channel, the canonical fault-free continuation can only come to rest in a drained state, and
  from every coherent state with an empty network one epoch (T3, `_transmit`, burst, first SACK) strictly
  advances the cumulative ack within an explicit number of steps.
-/
namespace Aiortc.Props.C02
open Aiortc.Sctp Aiortc.Gen

theorem userdata_max_const : Aiortc.Gen.USERDATA_MAX_LENGTH = 1200 := by decide
theorem sack_max_entries_const : Aiortc.Gen.SACK_MAX_ENTRIES = 296 := by decide
/-- the initial congestion window of `Ep.init` is three MTUs, as in `RTCSctpTransport.__init__` -/
theorem initial_cwnd_const : (Ep.init false 1 100).tx.cwnd = 3 * 1200 := by decide

/-! ## (a) flight accounting -/

/-- **`flight_accounting`**: for every initial sender and EVERY sequence of sender operations (`_send`;
SACK = `_receive_sack_chunk` + flushed `_send`s + `_transmit`; T3 expiry; a queued `_transmit`; the two field
updates the endpoint makes at INIT and at stream reset): `flight = Σ bookSize` over the chunks of `sentQ` with
`inFlight`, chunks still in `outQ` are not in flight, and an abandoned chunk is neither in flight nor marked. -/
theorem flight_accounting (t0 : Tx) (h0 : t0.Initial) (ops : List SOp) :
    let t := (Snd.run { tx := t0 } ops).tx
    t.flight = flightSum t.sentQ
    ∧ (∀ c ∈ t.outQ, c.inFlight = false)
    ∧ (∀ c ∈ t.sentQ, c.abandoned = true → c.inFlight = false ∧ c.retransmit = false) := by
  have := (h0.inv.run ops).flight
  exact ⟨this.flight, fun c hc => (this.outQ c hc).1, this.sentQ⟩

/-- each operation preserves the invariant on its own (also the ones the endpoint only calls nested) -/
theorem flight_accounting_enqueue {t : Tx} (h : FlightInv t) (sid ppid : Nat) (d : Bytes) (e m : Option Int) (o : Bool) :
    FlightInv (t.enqueue sid ppid d e m o) := h.enqueue sid ppid d e m o
theorem flight_accounting_transmit {t : Tx} (h : FlightInv t) : FlightInv t.transmit.1 := h.transmit
theorem flight_accounting_receiveSack {t : Tx} (h : FlightInv t) (cum : Int) (gaps : List (Nat × Nat)) (now : Int)
    (t' : Tx) (evs : List TxEv) (hr : t.receiveSack cum gaps now = .ok (some (t', evs))) : FlightInv t' :=
  h.receiveSack cum gaps now t' evs hr
theorem flight_accounting_t3Expired {t : Tx} (h : FlightInv t) (now : Int) : FlightInv (t.t3Expired now) :=
  h.t3Expired now
theorem flight_accounting_maybeAbandon {t : Tx} (h : FlightInv t) (pos : Nat) (now : Int) :
    FlightInv (t.maybeAbandon pos now).2 := h.maybeAbandon pos now
theorem flight_accounting_updateAdvAck {t : Tx} (h : FlightInv t) : FlightInv t.updateAdvAck := h.updateAdvAck

/-- corollary: an empty sent queue means nothing is counted in flight (the pinned code could have
`_flight_size ≥ cwnd` with an empty `_sent_queue`, and then never sent again) -/
theorem flight_zero_of_empty (t0 : Tx) (h0 : t0.Initial) (ops : List SOp)
    (he : (Snd.run { tx := t0 } ops).tx.sentQ = []) : (Snd.run { tx := t0 } ops).tx.flight = 0 := by
  have := (h0.inv.run ops).flight.flight
  rw [this, he]; rfl

/-- **the saturating subtraction of `_flight_size_decrease` never truncates**: whenever a chunk of the sent queue
is discounted while the counter is at least the sum (which holds at every call site, see `Bal` in
`Lemmas/SctpFlight.lean`: every loop lemma is stated as "counter change = sum change"), the counter is at least
the chunk's share. -/
theorem decFlight_never_truncates (t : Tx) (h : FlightInv t) (c : SChunk) (hc : c ∈ t.sentQ) (hf : c.inFlight = true) :
    c.bookSize ≤ t.flight ∧ (decFlight t.flight c).1 + c.bookSize = t.flight := by
  have := decFlight_exact t.flight t.sentQ c hc (by rw [h.flight]; exact Nat.le_refl _)
  have hw : c.w = c.bookSize := by simp [SChunk.w, hf]
  rw [hw] at this
  exact ⟨by omega, this⟩

example : (Ep.init false 1 100).tx.Initial := ⟨rfl, rfl, rfl, rfl, by decide⟩

/-- non-vacuity: a run with two messages, a T3 expiry, the retransmission and a SACK for the first chunk -/
def demoMsg : SendArgs := { sid := 1, ppid := 53, data := [1, 2, 3], expiry := none, maxRtx := none, ordered := true }
def demoRun : Snd := Snd.run { tx := (Ep.init false 1 100).tx } [.send demoMsg, .send demoMsg, .t3 0, .task, .sack 100 [] 0 []]
example : demoRun.tx.sentQ.length = 1 ∧ demoRun.tx.flight = 3 ∧ demoRun.tx.t3 = true := by decide

/-! ## (b) the retransmission timer -/

/-- **`timer_armed`**: in every reachable sender state (operations composed as the endpoint composes them:
`_receive_sack_chunk` is followed by `_transmit`, `_t3_expired` queues a `_transmit` task)
* something outstanding ⇒ T3 is armed or a `_transmit` is pending,
* a FORWARD TSN waiting to be sent ⇒ a `_transmit` is pending,
* data queued in `_outbound_queue` ⇒ something is outstanding (hence T3) or a `_transmit` is pending. -/
theorem timer_armed (t0 : Tx) (h0 : t0.Initial) (ops : List SOp) :
    let s := Snd.run { tx := t0 } ops
    (s.tx.sentQ ≠ [] → s.tx.t3 = true ∨ s.pending = true)
    ∧ (s.tx.forwardTsn ≠ none → s.pending = true)
    ∧ (s.tx.outQ ≠ [] → s.tx.sentQ ≠ [] ∨ s.pending = true) := by
  have := h0.inv.run ops
  refine ⟨this.armed, ?_, this.queued⟩
  intro hne
  apply this.fwd
  cases h : (Snd.run { tx := t0 } ops).tx.forwardTsn with
  | none => exact absurd h hne
  | some _ => rfl

/-- right after any `_transmit`: T3 is armed iff needed, nothing waits -/
theorem after_transmit (t : Tx) (hf : FlightInv t) (hp : PreTx t) :
    (t.transmit.1.sentQ ≠ [] → t.transmit.1.t3 = true) ∧ t.transmit.1.forwardTsn = none
    ∧ (t.transmit.1.outQ ≠ [] → t.transmit.1.sentQ ≠ []) :=
  ⟨(afterTx_transmit hf hp).armed, (afterTx_transmit hf hp).fwd, (afterTx_transmit hf hp).queued⟩

example : demoRun.tx.sentQ ≠ [] ∧ demoRun.pending = false := by decide

/-! ## (c) T3 expiry makes progress -/

/-- **`t3_progress`**: in every reachable sender state, `_t3_expired` leaves `flight = 0 < cwnd = 1200`, T3
stopped, and if a chunk `c` is then first in the sent queue it is not abandoned, it is marked for
retransmission, and the `_transmit` that `_t3_expired` queues emits it before any other DATA chunk, (re)starts T3
right after it and leaves T3 armed. -/
theorem t3_progress (t0 : Tx) (h0 : t0.Initial) (ops : List SOp) (now : Int) (c : SChunk) (cs : List SChunk)
    (hq : ((Snd.run { tx := t0 } ops).tx.t3Expired now).sentQ = c :: cs) :
    let t1 := (Snd.run { tx := t0 } ops).tx.t3Expired now
    t1.flight = 0 ∧ t1.cwnd = 1200 ∧ t1.t3 = false ∧ c.abandoned = false ∧ c.retransmit = true
    ∧ t1.transmit.1.t3 = true
    ∧ ∃ more, t1.transmit.2 = t1.fwd.2 ++ TxEv.data (rtxChunk c).toR :: t3Restart t1.fwd.1.t3 ++ more :=
  t3_then_transmit _ (h0.inv.run ops).flight.winv now c cs hq

/-- the retransmitted chunk is the same chunk (TSN, stream, payload) -/
theorem rtxChunk_same (c : SChunk) : (rtxChunk c).toR = c.toR := rfl

/-- a FORWARD TSN that is waiting goes out first with the next `_transmit`, which arms T3 -/
theorem fwd_progress (t : Tx) (cum : Int) (streams : List (Nat × Int)) (h : t.forwardTsn = some (cum, streams)) :
    t.transmit.1.t3 = true ∧ t.transmit.1.forwardTsn = none ∧ ∃ more, t.transmit.2 = TxEv.fwd cum streams :: more :=
  fwd_then_transmit t cum streams h

example : (((Snd.run { tx := (Ep.init false 1 100).tx } [.send demoMsg, .send demoMsg]).tx.t3Expired 0).sentQ.map (·.tsn))
    = [100, 101] := by decide

/-! ## (d) nothing raises, no loop hangs -/

/-- **`_receive_sack_chunk` never raises**, in any sender state whose queued chunks are idle (every reachable one):
the `IndexError` branch (`self._sent_queue[-1]` after `loss`) is unreachable because `loss` implies a non-empty
sent queue; the model has no other failing branch. -/
theorem receiveSack_never_raises (t : Tx) (ho : ∀ c ∈ t.outQ, c.inFlight = false ∧ c.retransmit = false ∧ c.abandoned = false)
    (cum : Int) (gaps : List (Nat × Nat)) (now : Int) : ∃ r, t.receiveSack cum gaps now = .ok r :=
  receiveSack_ok t cum gaps now ho

theorem no_crash_reachable (t0 : Tx) (h0 : t0.Initial) (ops : List SOp) : (Snd.run { tx := t0 } ops).crashed = false :=
  (h0.inv.run ops).ok

/-- the `while self._outbound_queue and self._flight_size < cwnd` loop of `_transmit` ends because its condition
fails, never because the model's fuel (`len(outbound_queue) + 1`) ran out. All other loops of the send path
(`rtxLoop`, `ackLoop`, `htnaLoop`, `popAbandoned`, `abandonBack/Fwd/Unsent`, `strikeLoop`, `t3Mark`) are
structural recursions over the queue (or over the length of its snapshot) in the model, i.e. Lean's
termination checker has accepted them; none returns `Outcome.hang`. -/
theorem transmit_loop_fuel_suffices (cwnd fl : Nat) (t3 : Bool) (outQ sent : List SChunk) (evs : List TxEv) :
    (newLoop cwnd (outQ.length + 1) fl t3 outQ sent evs).2.2.1 = []
    ∨ cwnd ≤ (newLoop cwnd (outQ.length + 1) fl t3 outQ sent evs).1 :=
  newLoop_exit cwnd _ fl t3 outQ sent evs (Nat.lt_succ_self _)

theorem receiveSack_never_hangs (t : Tx) (cum : Int) (gaps : List (Nat × Nat)) (now : Int) :
    t.receiveSack cum gaps now ≠ .hang := by
  rw [receiveSack_eq]
  split
  · intro h; cases h
  · split <;> (intro h; first | cases h | skip)
    rename_i k hk
    unfold Tx.sackCwnd at hk
    split at hk
    · simp only at hk
      split at hk
      · split at hk <;> cases hk
      · cases hk
    · split at hk <;> cases hk

/-! ## (e) SACK generation -/

/-- **`sack_describes_misordered`**: the gap blocks `_send_sack` writes (`sackGapBlocks rx` is literally the `gaps`
of `sendSack` in the endpoint model) cover an offset `k` iff `k` is the offset of a TSN in `_sack_misordered` —
for misordered TSNs in range, at offsets 1 … 65535, needing at most 296 blocks. -/
theorem sack_describes_misordered (rx : Rx)
    (hmis : ∀ t ∈ rx.mis, R32 t ∧ 1 ≤ rx.off t ∧ rx.off t ≤ 65535) (hnd : rx.mis.Nodup)
    (hruns : newRuns none ((sortByKey rx.last rx.mis).map rx.off) ≤ 296) (k : Nat) :
    (∃ g ∈ sackGapBlocks rx, g.1 ≤ k ∧ k ≤ g.2) ↔ ∃ t ∈ rx.mis, rx.off t = k :=
  sack_gaps_exact rx hmis hnd hruns k

/-- and the sender reads them back as exactly those TSNs (`seen`, clipped to the highest outstanding TSN) -/
theorem sender_reads_gaps (cum : Int) (limit : Nat) (gaps : List (Nat × Nat)) (t : Int) :
    t ∈ (gapSeen cum limit gaps).1 ↔
      ∃ g ∈ gaps, ∃ k, g.1 ≤ k ∧ k ≤ min g.2 limit ∧ t = (cum + (k : Int)) % 4294967296 :=
  mem_gapSeen cum limit gaps t

def demoRx : Rx := { last := 10, mis := [13, 12, 15], dups := [] }
example : sackGapBlocks demoRx = [(2, 3), (5, 5)] := by decide
example : (∀ t ∈ demoRx.mis, R32 t ∧ 1 ≤ demoRx.off t ∧ demoRx.off t ≤ 65535) ∧ demoRx.mis.Nodup
    ∧ newRuns none ((sortByKey demoRx.last demoRx.mis).map demoRx.off) ≤ 296 := by
  refine ⟨?_, by decide, by decide⟩
  intro t ht
  simp only [demoRx, List.mem_cons, List.not_mem_nil, or_false] at ht
  rcases ht with rfl | rfl | rfl <;> (unfold R32; decide)

/-! ## (f) liveness -/

/-! ### the full statement (not proved) -/

/-- two endpoints and the datagrams in flight between them -/
structure World where
  a : Ep
  b : Ep
  ab : List Bytes := []
  ba : List Bytes := []
  now : Int := 1024000
  /-- history: (at endpoint A?, input, outputs) -/
  log : List (Bool × Input × List Out) := []

/-- run one input at one endpoint, route its datagrams into the network, log -/
def World.input (w : World) (atA : Bool) (inp : Input) : World :=
  let r := step (if atA then w.a else w.b) w.now inp
  let sent := r.2.filterMap fun o => match o with | .tx d => some d | _ => none
  { w with a := if atA then r.1 else w.a, b := if atA then w.b else r.1
           ab := if atA then w.ab ++ sent else w.ab, ba := if atA then w.ba else w.ba ++ sent
           log := w.log ++ [(atA, inp, r.2)] }

def armed (e : Ep) : List String :=
  (if e.tx.t3 then ["t3"] else []) ++ (if e.t1 then ["t1"] else []) ++ (if e.t2 then ["t2"] else [])
    ++ (if e.rcTimer then ["reconfig"] else [])

/-- the adversary: deliver / drop / duplicate ANY datagram (so also reorder), fire any armed timer, run the oldest
task, application calls, let time pass -/
inductive Move where
  | deliver (toB : Bool) (i : Nat) (cookie : Bytes)
  | drop (toB : Bool) (i : Nat)
  | dup (toB : Bool) (i : Nat)
  | fire (atA : Bool) (timer : String)
  | task (atA : Bool)
  | app (atA : Bool) (inp : Input)
  | tick (dt : Nat)

def World.move (w : World) : Move → World
  | .deliver toB i cookie =>
    match (if toB then w.ab else w.ba)[i]? with
    | some d =>
      let w := if toB then { w with ab := w.ab.eraseIdx i } else { w with ba := w.ba.eraseIdx i }
      w.input (!toB) (.rx d cookie)
    | none => w
  | .drop toB i => if toB then { w with ab := w.ab.eraseIdx i } else { w with ba := w.ba.eraseIdx i }
  | .dup toB i =>
    match (if toB then w.ab else w.ba)[i]? with
    | some d => if toB then { w with ab := w.ab ++ [d] } else { w with ba := w.ba ++ [d] }
    | none => w
  | .fire atA t => if (armed (if atA then w.a else w.b)).contains t then w.input atA (.fire t) else w
  | .task atA => w.input atA .task
  | .app atA inp => match inp with
    | .create _ | .send _ _ _ | .close _ | .threshold _ _ | .start _ => w.input atA inp
    | _ => w
  | .tick dt => { w with now := w.now + dt }

/-- the canonical fault-free continuation: run pending tasks; else deliver the oldest datagram; else fire an
armed timer (RTO values are not modelled: any armed timer may be the earliest) -/
def World.heal (w : World) : World :=
  if !w.a.tasks.isEmpty then w.input true .task
  else if !w.b.tasks.isEmpty then w.input false .task
  else match w.ab with
    | d :: rest => ({ w with ab := rest }).input false (.rx d [])
    | [] => match w.ba with
      | d :: rest => ({ w with ba := rest }).input true (.rx d [])
      | [] => match armed w.a, armed w.b with
        | t :: _, _ => ({ w with now := w.now + 1024 }).input true (.fire t)
        | [], t :: _ => ({ w with now := w.now + 1024 }).input false (.fire t)
        | [], [] => w

def World.connected (w : World) : Prop := w.a.state = "connected" ∧ w.b.state = "connected"

def epQuiet (e : Ep) : Prop :=
  e.tx.sentQ = [] ∧ e.tx.outQ = [] ∧ e.dcQueue = [] ∧ e.tx.flight = 0 ∧ e.tx.forwardTsn = none ∧ e.tasks.isEmpty = true
  ∧ ∀ c ∈ e.chans, c.buffered = 0

def World.quiescent (w : World) : Prop := epQuiet w.a ∧ epQuiet w.b ∧ w.ab = [] ∧ w.ba = []

/-- messages the application sent on channel index `i` of one side / messages delivered on channel index `j` -/
def sentOn (log : List (Bool × Input × List Out)) (atA : Bool) (i : Nat) : List (Bool × Bytes) :=
  log.filterMap fun (side, inp, outs) => match inp with
    | .send ch isStr data =>
      if side = atA ∧ ch = i ∧ !(outs.any fun o => match o with | .exc _ => true | _ => false) then some (isStr, data) else none
    | _ => none
def gotOn (log : List (Bool × Input × List Out)) (atA : Bool) (j : Nat) : List (Bool × Bytes) :=
  log.flatMap fun (side, _, outs) => outs.filterMap fun o => match o with
    | .evMessage ch isStr data => if side = atA ∧ ch = j then some (isStr, data) else none
    | _ => none

def reliable (c : Chan) : Prop := c.maxRetransmits = none ∧ c.maxPacketLifeTime = none

/-- every message sent on a reliable channel that is open at both ends has been delivered at the other end -/
def World.delivered (w : World) : Prop :=
  ∀ (fromA : Bool) (i j : Nat) (c d : Chan),
    (if fromA then w.a else w.b).chans[i]? = some c → (if fromA then w.b else w.a).chans[j]? = some d →
    reliable c → c.id.isSome → c.id = d.id → c.ready = 1 → d.ready = 1 →
    (gotOn w.log (!fromA) j).Perm (sentOn w.log fromA i)

def World.size (w : World) : Nat :=
  w.ab.length + w.ba.length + w.a.tx.sentQ.length + w.a.tx.outQ.length + w.a.dcQueue.length + w.a.tasks.length
  + w.b.tx.sentQ.length + w.b.tx.outQ.length + w.b.dcQueue.length + w.b.tasks.length

/-- an explicit bound on the number of steps of the continuation, in terms of the queue lengths -/
def World.bound (w : World) : Nat := 16 * (w.size + 4) ^ 2

def World.healN : Nat → World → World
  | 0, w => w
  | n + 1, w => World.healN n w.heal

/-- **C02 at full strength** (NOT proved; see `C02_drains_partial` and the notes for what is): for every pair of
fresh endpoints and EVERY finite history of adversarial moves (arbitrary drop / duplicate / reorder decisions on
every datagram, timers fired whenever armed, any application traffic in both directions), if both associations
still report themselves connected, the canonical fault-free continuation reaches within `bound` steps a state
where nothing is outstanding or queued on either side, `bufferedAmount` is 0 on every channel, and everything
sent on reliable channels has been delivered. -/
def C02_drains : Prop :=
  ∀ (tagA tagB tsnA tsnB : Nat) (hist : List Move),
    let w0 : World := { a := Ep.init false tagA tsnA, b := Ep.init true tagB tsnB }
    let w := hist.foldl World.move w0
    w.connected → ∃ n, n ≤ w.bound ∧ (World.healN n w).quiescent ∧ (World.healN n w).delivered

/-! ### what is proved -/

/-- **`C02_drains_partial`** — for one direction of the association abstracted to the model's own sender (`Tx`) and
receiver (`Rx`) functions joined by a lossless in-order channel (`Link`, `Link.step` = the canonical fault-free
continuation: pending `_transmit`, else oldest DATA datagram → SACK, else oldest SACK → `_receive_sack_chunk` +
`_transmit`, else T3):

1. (no deadlock) for every sender state satisfying the invariants that are proved for ALL reachable sender
   states (`SndInv`, see `flight_accounting` / `timer_armed`), the continuation can only come to rest
   (`step s = s`) in a state where nothing is outstanding, queued, in flight or armed;
2. (invariance) the sender invariants `SndInv` and the receiver invariant `RxOk` (`Link.Inv`) hold after every
   number of steps of the continuation, so part 1 applies wherever it stops;
3. (bounded progress) from every coherent state (sender invariants — `SndInv.run`: every reachable sender state;
   receiver invariant `RxOk` — `receiver_invariant`: every reachable receiver state; the receiver's cumulative
   TSN equal to or ahead of the sender's — assumed) with an empty network, if the chunk following the cumulative ack
   survives T3 (is not abandoned: reliable channel) and carries a TSN that was assigned (not beyond `localTsn - 1`; the
   receiver has only TSNs that were assigned: `Coherent.sent` — a SACK beyond the last TSN assigned is ignored since the
   fix "ignore a SACK whose cumulative TSN is not within what was sent"), then within `3 + (datagrams in the T3 burst)` steps the
   sender's cumulative ack has strictly advanced — whatever flags, miss counters, congestion window or
   fast-recovery state the fault history left behind, and whatever holes the receiver has.

Not covered (the gap to `C02_drains`): that `Coherent` holds again when the network is next empty, and that the
network empties between epochs (these need a two-sided invariant over the datagrams in flight) — so the
iteration "at most one epoch per outstanding chunk" is not a theorem; the receiver side of FORWARD TSN;
`_data_channel_flush` / `bufferedAmount`; both directions at once; the endpoint glue. Those are covered by the
trace correspondence and the oracle on the real endpoints only. -/
theorem C02_drains_partial :
    (∀ s : Link, SndInv { tx := s.tx, pending := s.pending } → s.step = s → s.Drained)
    ∧ (∀ (s : Link) (n : Nat), s.Inv → (Link.run n s).Inv)
    ∧ (∀ (s : Link) (c : SChunk) (cs : List SChunk), s.Coherent → s.toRx = [] → s.toTx = [] → s.pending = false →
        s.tx.t3 = true → (s.tx.t3Expired s.now1000).sentQ = c :: cs → c.tsn = tsn_plus_one s.tx.lastSacked →
        uint32_gt c.tsn (tsn_minus_one s.tx.localTsn) = false →
        uint32_gt (Link.run (3 + (dataOf (s.tx.t3Expired s.now1000).transmit.2).length) s).tx.lastSacked
          s.tx.lastSacked = true) :=
  ⟨Link.stuck_drained, fun _ n h => h.run n,
   fun s c cs hc hrx htx hp h3 hq hct hsent => Link.epoch_progress s hc hrx htx hp h3 c cs hq hct hsent⟩

/-- the receiver half of `Link.Coherent` is not an assumption about the history: `RxOk` holds after EVERY sequence
of arrivals of 32-bit TSNs (any loss, duplication, reordering), starting from the state INIT / INIT-ACK sets up -/
theorem receiver_invariant (last : Int) (hl : R32 last) (arrivals : List Int) (ha : ∀ t ∈ arrivals, R32 t) :
    RxOk (arrivals.foldl (fun r t => (markReceived r t).2) { last := last, mis := [], dups := [] }) :=
  RxOk.arrivals _ (RxOk.init last hl) arrivals ha

/-- non-vacuity of part 3: a sender with two chunks outstanding (TSN 100, 101), a receiver that has only the
second one (hole at 100), empty network, T3 armed -/
def demoLink : Link :=
  { tx := (Snd.run { tx := (Ep.init false 1 100).tx } [.send demoMsg, .send demoMsg]).tx
    rx := { last := 99, mis := [101], dups := [] } }

example : demoLink.Coherent :=
  { inv := ((show (Ep.init false 1 100).tx.Initial from ⟨rfl, rfl, rfl, rfl, by decide⟩).inv.run
              [.send demoMsg, .send demoMsg])
    rx := ⟨by unfold R32; decide, by intro x hx; simp [demoLink] at hx; subst hx; unfold R32; decide, by decide, by decide⟩
    ls := by unfold R32; decide
    ahead := ⟨0, by decide, by decide⟩
    sent := by decide }

example : demoLink.toRx = [] ∧ demoLink.toTx = [] ∧ demoLink.pending = false ∧ demoLink.tx.t3 = true
    ∧ (demoLink.tx.t3Expired demoLink.now1000).sentQ.map (·.tsn) = [100, 101]
    ∧ tsn_plus_one demoLink.tx.lastSacked = 100
    ∧ uint32_gt 100 (tsn_minus_one demoLink.tx.localTsn) = false := by decide

/-- … and there the whole continuation drains: after 8 steps both chunks are acknowledged and nothing is armed -/
example : (Link.run 8 demoLink).tx.sentQ = [] ∧ (Link.run 8 demoLink).tx.flight = 0
    ∧ (Link.run 8 demoLink).tx.t3 = false ∧ (Link.run 8 demoLink).rx.last = 101
    ∧ (Link.run 8 demoLink).toRx = [] ∧ (Link.run 8 demoLink).toTx = [] ∧ (Link.run 8 demoLink).pending = false := by
  decide

end Aiortc.Props.C02
