import Aiortc.Lemmas.C02.DrainPRGot3
/-!
# C02 (f), continued — partially reliable traffic in the fault history (FORWARD TSN)

`Props/C02Drain.lean` proves the drain theorem for histories of RELIABLE sends.  Here the restriction is lifted: the
application may send messages with `max_retransmits` and / or a lifetime, the clock may expire lifetimes (`tick`), so
`_maybe_abandon`, `_update_advanced_peer_ack_point` and FORWARD TSN occur, in the history and in the continuation.

System (`PLink`, `Lemmas/C02/DrainPRCoh.lean`): the model's sender `Tx`; the model's receiver on `Rx` — `_mark_received` for
DATA and the cumulative-TSN part of `_receive_forward_tsn_chunk` (`rxFwdTsn`, `C02PR_rxFwd_model`) for FORWARD TSN, every chunk
answered by the SACK `_send_sack` builds; DATA and FORWARD TSN chunks in flight (`toRx`), SACKs in flight (`toTx`).  Moves as in
`Fault`, without the reliability restriction.

* `C02PR_coherence_preserved`, `C02PR_reachable_coherent` — the coherence invariant `CohP b κ f r`: `lastSacked = T b κ`, advanced
  peer ack point `T b f`, `κ ≤ f`, FORWARD TSN needed iff `κ < f`, `sentQ ++ outQ` carry `T b (f+1) …`; receiver at `T b r`,
  `κ ≤ r ≤ f + |sentQ|`; DATA in flight was transmitted, FORWARD TSN in flight is at most `T b f`, SACKs at most `T b r`; a needed
  FORWARD TSN is scheduled or covered by T3 (`NeedT3`).  Preserved by EVERY move.
* `C02PR_step_decreases` — every non-T3 step of the continuation strictly decreases `phi3`, which also pays for the FORWARD TSN
  ping-pong (a SACK behind the ack point makes `_receive_sack_chunk` re-send the FORWARD TSN — the repeat rule —, which
  produces another SACK): a SACK at or beyond the ack point weighs `1 + 2N`, behind it `3 + 2N`; the ack point only moves when
  a chunk leaves the queues.
* `C02PR_epoch` — **the repeat rule at work**: from a quiet state with the cumulative ack behind the ack point (the FORWARD TSN
  and / or its SACK were lost) or with something outstanding, T3 expiry + `_transmit` put a FORWARD TSN for the current ack point,
  or the first outstanding chunk, into flight.
* **`C02PR_drains_from_coherent`**, **`C02PR_drains_abstract`** — from every coherent state / after ANY finite history (reliable and
  partially reliable sends mixed, T3 expiries, clock ticks, loss, duplication, reordering) the continuation reaches within
  `PLink.drainBound` steps a state with both queues and the network empty, nothing in flight, T3 off, no FORWARD TSN pending or
  needed, and `lastSacked = advAck = receiver's cumulative TSN = last TSN assigned`.
-/
namespace Aiortc.Props.C02DrainPR
open Aiortc.Sctp Aiortc.Gen

/-- the receiver step of `PLink` on FORWARD TSN is the `Rx` component of the model's `_receive_forward_tsn_chunk`
(`Model/Sctp/Forward.lean`, `rxFwd`), whatever the inbound streams are -/
theorem C02PR_rxFwd_model (rx rx' : Rx) (ins ins' : List (Nat × InStream)) (cum : Int) (streams : List (Nat × Int)) (freed : Nat)
    (msgs : List Msg) (h : rxFwd rx ins cum streams = .ok (rx', ins', freed, msgs)) : rx' = rxFwdTsn rx cum := by
  unfold rxFwd at h
  unfold rxFwdTsn
  split at h
  · simp only [Outcome.ok.injEq, Prod.mk.injEq] at h
    rename_i hg; rw [if_pos hg]; exact h.1.symm
  · rename_i hg
    rw [if_neg hg]
    split at h
    · simp only [Outcome.ok.injEq, Prod.mk.injEq] at h; exact h.1.symm
    all_goals cases h

/-- **every move preserves coherence**, reliable and partially reliable sends alike -/
theorem C02PR_coherence_preserved {b : Int} {κ f r : Nat} {s : PLink} (h : CohP b κ f r s) (ft : Fault)
    (hb : f + s.tx.nOut + ft.sent + 1 < 2147483648) :
    ∃ κ' f' r', CohP b κ' f' r' (s.fault ft) ∧ f' + (s.fault ft).tx.nOut = f + s.tx.nOut + ft.sent :=
  h.fault ft hb

theorem C02PR_reachable_coherent (s0 : PLink) (h0 : s0.Fresh) (fs : List Fault) (hb : sentTotal fs + 1 < 2147483648) :
    ∃ κ f r, CohP s0.tx.lastSacked κ f r (fs.foldl PLink.fault s0)
      ∧ f + (fs.foldl PLink.fault s0).tx.nOut = sentTotal fs := by
  obtain ⟨hc, hn⟩ := h0.coh
  obtain ⟨κ, f, r, h1, h2⟩ := hc.faults fs (by omega)
  exact ⟨κ, f, r, h1, by omega⟩

/-- **every non-T3 step decreases the potential**, keeps coherence, never un-acks, conserves `f + nOut` -/
theorem C02PR_step_decreases {b : Int} {κ f r h : Nat} {s : PLink} (hc : CohP b κ f r s) (hh : HonP b h s) (hq : ¬ s.Quiet) :
    ∃ κ' f' r' h', CohP b κ' f' r' s.step ∧ HonP b h' s.step ∧ h' ≤ h ∧ s.step.phi3 h' + 1 ≤ s.phi3 h ∧ κ ≤ κ'
      ∧ f' + s.step.tx.nOut = f + s.tx.nOut := by
  obtain ⟨κ1, f1, r1, hc1, hk1, hn1, _⟩ := step_progressP hc hq
  obtain ⟨h1, hle, hh1, hphi⟩ := step_phi3 hc hh hq
  exact ⟨κ1, f1, r1, h1, hc1, hh1, hle, hphi, hk1, hn1⟩

/-- **the repeat rule makes every epoch count**: quiet coherent state in which the cumulative ack is behind the advanced peer
ack point (FORWARD TSN or its SACK lost) or something is outstanding; after T3 and the queued `_transmit`, a FORWARD TSN
beyond the cumulative ack or the chunk after it is in flight (`AheadP`), and when the network is next empty the cumulative
ack has advanced -/
theorem C02PR_epoch {b : Int} {κ f r : Nat} {s : PLink} (h : CohP b κ f r s) (hq : s.Quiet) (h3 : s.tx.t3 = true)
    (hopen : κ < f ∨ s.tx.sentQ ≠ []) :
    ∃ j κ' f' r', j ≤ epochCostP s.tx.nOut ∧ CohP b κ' f' r' (PLink.run j s) ∧ (PLink.run j s).Quiet ∧ κ < κ'
      ∧ f' + (PLink.run j s).tx.nOut = f + s.tx.nOut := by
  have hh : HonP b 0 s := by
    have := HonP.start b s
    rw [hq.2.1] at this
    exact this
  obtain ⟨f2, hc2, hh2, hn2, hphi2, hah2⟩ := epochP h hh hq hopen
  have hrun : PLink.run 2 s = s.fireT3.runTask := by
    rw [PLink.run_two, s.step_t3 hq h3, PLink.step_task _ rfl]
  obtain ⟨j1, κ3, f3, r3, _, hj1, hc3, _, hq3, _, hn3, hah3⟩ := quiesceP _ hc2 hh2 (Nat.le_refl _)
  refine ⟨2 + j1, κ3, f3, r3, by omega, ?_, ?_, hah3 hah2, ?_⟩
  · rw [PLink.run_add, hrun]; exact hc3
  · rw [PLink.run_add, hrun]; exact hq3
  · rw [PLink.run_add, hrun]; omega

/-- the bound, spelled out: `N = |sentQ| + |outQ|`, `D` = TSNs assigned but not cumulatively acked -/
theorem drainBound_eq (s : PLink) :
    s.drainBound = s.toRx.length * (4 + 2 * s.tx.nOut) + s.toTx.length * (3 + 2 * s.tx.nOut) + (5 + 2 * s.tx.nOut)
      + (4 + 2 * s.tx.nOut) * (s.tx.nOut + s.tx.nOut * (s.toTx.length + 2 * s.tx.nOut))
      + (s.tx.unacked * (2 + (5 + 2 * s.tx.unacked)
          + (4 + 2 * s.tx.unacked) * (s.tx.unacked + s.tx.unacked * (2 * s.tx.unacked))) + 2) := rfl

theorem unacked_def (t : Tx) :
    t.unacked = ((t.advAck - t.lastSacked) % 4294967296).toNat + (t.sentQ.length + t.outQ.length) := rfl

/-- **`C02PR_drains_from_coherent`** -/
theorem C02PR_drains_from_coherent {b : Int} {κ f r : Nat} {s : PLink} (h : CohP b κ f r s) :
    ∃ j, j ≤ s.drainBound ∧ (PLink.run j s).Drained
      ∧ (PLink.run j s).tx.forwardNeeded = false
      ∧ (PLink.run j s).rx.last = (s.tx.advAck + (s.tx.nOut : Int)) % 4294967296
      ∧ (PLink.run j s).tx.lastSacked = (PLink.run j s).rx.last
      ∧ (PLink.run j s).tx.advAck = (PLink.run j s).rx.last
      ∧ (PLink.run j s).tx.localTsn = tsn_plus_one (PLink.run j s).rx.last := by
  obtain ⟨j, hj, hd, h1, h2, h3, h4, h5, _⟩ := h.drains
  refine ⟨j, hj, hd, h5, ?_, by rw [h1, h3], by rw [h2, h3], by rw [h4, h3, T_succ]⟩
  rw [h3, h.core.seq.adv, T_add]

/-- **`C02PR_drains_abstract`**: fresh pair, ANY finite history — reliable and partially reliable messages, T3 expiries,
clock ticks, loss / duplication / reordering of DATA, FORWARD TSN and SACK chunks —, then the canonical fault-free
continuation: within `drainBound` steps everything is drained, no FORWARD TSN is pending or needed, and the sender's cumulative
ack, its advanced peer ack point and the receiver's cumulative TSN all equal the last TSN assigned. -/
theorem C02PR_drains_abstract (s0 : PLink) (h0 : s0.Fresh) (fs : List Fault) (hb : sentTotal fs + 1 < 2147483648) :
    let s := fs.foldl PLink.fault s0
    ∃ j, j ≤ s.drainBound ∧ (PLink.run j s).Drained
      ∧ (PLink.run j s).tx.forwardNeeded = false
      ∧ (PLink.run j s).rx.last = (s0.tx.lastSacked + (sentTotal fs : Int)) % 4294967296
      ∧ (PLink.run j s).tx.lastSacked = (PLink.run j s).rx.last
      ∧ (PLink.run j s).tx.advAck = (PLink.run j s).rx.last
      ∧ (PLink.run j s).tx.localTsn = tsn_plus_one (PLink.run j s).rx.last := by
  intro s
  obtain ⟨κ, f, r, hc, hn⟩ := C02PR_reachable_coherent s0 h0 fs hb
  obtain ⟨j, hj, hd, h1, h2, h3, h4, h5, _⟩ := hc.drains
  refine ⟨j, hj, hd, h5, ?_, by rw [h1, h3], by rw [h2, h3], by rw [h4, h3, T_succ]⟩
  rw [h3, hn]; rfl

/-! ## every reliable message arrives

`queuedBy s0 fs` lists, in TSN order, every chunk the history `fs` put into `_outbound_queue` (`_send`'s fragments); `got` is
the list of TSNs that reached the receiver as DATA chunks.  Supporting invariants (`Lemmas/C02/DrainPRWf*.lean`,
`DrainPRGot*.lean`): the queue consists of whole messages whose fragments share `max_retransmits` / lifetime (`Wf`), so
`_maybe_abandon` — which walks from the chunk that exceeded its limits back to the FIRST and on to the LAST fragment — only ever
marks partially reliable chunks (`maybeAbandon_aw`); a chunk leaves the queues only cumulatively acknowledged or abandoned; the
receiver's cumulative TSN moves only over TSNs it received or that a FORWARD TSN (≤ the advanced peer ack point) skipped. -/

/-- `_maybe_abandon` marks only partially reliable chunks, in a queue made of whole messages -/
theorem C02PR_only_pr_abandoned (t : Tx) (pos : Nat) (now : Int) (h : AW t) : AW (t.maybeAbandon pos now).2 :=
  maybeAbandon_aw t pos now h

/-- **`C02PR_reliable_received`**: fresh pair, ANY finite history, then the continuation: drained within the bound; the chunks
the history queued are exactly the TSNs `initial + 1 … initial + sentTotal`; EVERY chunk of a reliable message (no
`max_retransmits`, no lifetime) reached the receiver as a DATA chunk; the receiver's cumulative TSN, the sender's cumulative
ack and its advanced peer ack point all equal the last TSN assigned (abandoned chunks were skipped by FORWARD TSN). -/
theorem C02PR_reliable_received (s0 : PLink) (h0 : s0.Fresh) (fs : List Fault) (hb : sentTotal fs + 1 < 2147483648) :
    ∃ j, j ≤ (fs.foldl PLink.fault s0).drainBound ∧ (PLink.run j (fs.foldl PLink.fault s0)).Drained
      ∧ (queuedBy s0 fs).length = sentTotal fs
      ∧ (∀ i c, (queuedBy s0 fs)[i]? = some c → c.tsn = (s0.tx.lastSacked + ((i + 1 : Nat) : Int)) % 4294967296)
      ∧ (∀ c ∈ queuedBy s0 fs, c.maxRetransmits = none → c.expiry = none →
          c.tsn ∈ (PLink.run j (fs.foldl PLink.fault s0)).got)
      ∧ (PLink.run j (fs.foldl PLink.fault s0)).rx.last = (s0.tx.lastSacked + (sentTotal fs : Int)) % 4294967296
      ∧ (PLink.run j (fs.foldl PLink.fault s0)).tx.lastSacked = (PLink.run j (fs.foldl PLink.fault s0)).rx.last
      ∧ (PLink.run j (fs.foldl PLink.fault s0)).tx.advAck = (PLink.run j (fs.foldl PLink.fault s0)).rx.last
      ∧ (PLink.run j (fs.foldl PLink.fault s0)).tx.forwardNeeded = false :=
  reliable_received s0 h0 fs hb

/-! ## both directions of one association

The model's endpoints never bundle a SACK with DATA (`Endpoint.sendChunk` builds one packet per chunk), and here the sender and
the receiver half of an endpoint share no state: an association is the product of the link A → B (`A.Tx`, `B.Rx`) and the link
B → A (`fault2`, `step2`, `run2` in `Lemmas/C02/DrainPRBoth.lean`). -/

/-- **`C02PR_drains_both_directions`**: two fresh links, ANY finite history of moves on either of them, then the canonical
continuation of the association (both links step): within the larger of the two bounds both directions are drained, and in
each the sender's cumulative ack, its advanced peer ack point and the peer's cumulative TSN equal the last TSN assigned. -/
theorem C02PR_drains_both_directions (a0 b0 : PLink) (ha : a0.Fresh) (hb : b0.Fresh) (fs : List (Bool × Fault))
    (hba : sentTotal (movesOf true fs) + 1 < 2147483648) (hbb : sentTotal (movesOf false fs) + 1 < 2147483648) :
    let s := fs.foldl fault2 (a0, b0)
    ∃ j, j ≤ max s.1.drainBound s.2.drainBound ∧ (run2 j s).1.Drained ∧ (run2 j s).2.Drained
      ∧ (run2 j s).1.rx.last = (a0.tx.lastSacked + (sentTotal (movesOf true fs) : Int)) % 4294967296
      ∧ (run2 j s).1.tx.lastSacked = (run2 j s).1.rx.last ∧ (run2 j s).1.tx.advAck = (run2 j s).1.rx.last
      ∧ (run2 j s).2.rx.last = (b0.tx.lastSacked + (sentTotal (movesOf false fs) : Int)) % 4294967296
      ∧ (run2 j s).2.tx.lastSacked = (run2 j s).2.rx.last ∧ (run2 j s).2.tx.advAck = (run2 j s).2.rx.last := by
  intro s
  have hs : s = ((movesOf true fs).foldl PLink.fault a0, (movesOf false fs).foldl PLink.fault b0) := foldl_fault2 fs (a0, b0)
  obtain ⟨κ1, f1, r1, hc1, hn1⟩ := C02PR_reachable_coherent a0 ha (movesOf true fs) hba
  obtain ⟨κ2, f2, r2, hc2, hn2⟩ := C02PR_reachable_coherent b0 hb (movesOf false fs) hbb
  have h1 : CohP a0.tx.lastSacked κ1 f1 r1 s.1 := by rw [hs]; exact hc1
  have h2 : CohP b0.tx.lastSacked κ2 f2 r2 s.2 := by rw [hs]; exact hc2
  have hn1' : f1 + s.1.tx.nOut = sentTotal (movesOf true fs) := by rw [hs]; exact hn1
  have hn2' : f2 + s.2.tx.nOut = sentTotal (movesOf false fs) := by rw [hs]; exact hn2
  obtain ⟨j, hj, d1, d2, a1, a2, a3, c1, c2, c3⟩ := drains_both h1 h2
  refine ⟨j, hj, d1, d2, ?_, by rw [a2, a1], by rw [a3, a1], ?_, by rw [c2, c1], by rw [c3, c1]⟩
  · rw [a1, hn1']; rfl
  · rw [c1, hn2']; rfl

/-! ## non-vacuity: an abandoned message and a FORWARD TSN that is lost twice -/

def relMsg : SendArgs := { sid := 1, ppid := 53, data := [1, 2, 3], expiry := none, maxRtx := none, ordered := true }
/-- `maxRetransmits = 0`: abandoned as soon as it would have to be retransmitted -/
def prMsg : SendArgs := { sid := 2, ppid := 53, data := [4, 5], expiry := none, maxRtx := some 0, ordered := true }

def demo0 : PLink := { tx := (Ep.init false 1 100).tx, rx := { last := 99, mis := [], dups := [] } }

example : demo0.Fresh :=
  ⟨⟨rfl, rfl, rfl, rfl, by decide⟩, rfl, by unfold R32; decide, rfl, by decide, rfl, rfl, rfl, rfl, rfl⟩

/-- TSN 100 (partially reliable) is lost, 101 arrives, its SACK is lost, T3 fires: 100 is abandoned and skipped, the FORWARD TSN
is lost, the retransmitted 101 is SACKed, `_receive_sack_chunk` repeats the FORWARD TSN, which is lost again; one more send -/
def demoFaults : List Fault :=
  [.send prMsg, .send relMsg, .dropData 0, .deliverData 0, .dropSack 0, .fireT3, .task, .dropData 0,
   .deliverData 0, .deliverSack 0, .dropData 0, .send relMsg]

def demo1 : PLink := demoFaults.foldl PLink.fault demo0

example : sentTotal demoFaults = 3 := by decide

/-- the history leaves: cumulative ack 99 behind the advanced peer ack point 100, FORWARD TSN needed but none in flight, the
receiver still at 99 with 101 misordered -/
example : demo1.tx.lastSacked = 99 ∧ demo1.tx.advAck = 100 ∧ demo1.tx.forwardNeeded = true ∧ demo1.tx.forwardTsn = none
    ∧ demo1.tx.sentQ.map (·.tsn) = [101, 102] ∧ demo1.rx.last = 99 ∧ demo1.rx.mis = [101] ∧ demo1.toTx = []
    ∧ demo1.toRx.length = 1 ∧ demo1.tx.t3 = true ∧ demo1.got = [101, 101] := by decide

example : demo1.drainBound = 768 := by decide

/-- … and the continuation drains it: the receiver's cumulative TSN ends at 99 + 3 although TSN 100 never arrived -/
example : (PLink.run 4 demo1).tx.sentQ = [] ∧ (PLink.run 4 demo1).tx.outQ = [] ∧ (PLink.run 4 demo1).tx.flight = 0
    ∧ (PLink.run 4 demo1).toRx = [] ∧ (PLink.run 4 demo1).toTx = [] ∧ (PLink.run 4 demo1).tx.t3 = false
    ∧ (PLink.run 4 demo1).rx.last = 102 ∧ (PLink.run 4 demo1).tx.lastSacked = 102 ∧ (PLink.run 4 demo1).tx.advAck = 102
    ∧ (PLink.run 4 demo1).tx.forwardNeeded = false ∧ (PLink.run 4 demo1).got = [101, 101, 102] := by decide

/-- the chunks the history queued: TSN 100 partially reliable, 101 and 102 reliable; the reliable ones arrive, 100 does not -/
example : (queuedBy demo0 demoFaults).map (fun c => (c.tsn, c.maxRetransmits)) = [(100, some 0), (101, none), (102, none)]
    ∧ 100 ∉ (PLink.run 4 demo1).got := by decide

/-- hypotheses of `C02PR_epoch`: everything in flight is lost too; only T3 is left -/
def demo2 : PLink := (demoFaults ++ [Fault.dropData 0]).foldl PLink.fault demo0
example : demo2.Quiet ∧ demo2.tx.t3 = true ∧ demo2.tx.lastSacked = 99 ∧ demo2.tx.advAck = 100 :=
  ⟨⟨by decide, by decide, by decide⟩, by decide, by decide, by decide⟩

/-- a history on both links: the one above on A → B, a lost reliable message on B → A -/
def demoBoth : List (Bool × Fault) := demoFaults.map (fun f => (true, f)) ++ [(false, .send relMsg), (false, .dropData 0)]
def demoB0 : PLink := { tx := (Ep.init true 2 500).tx, rx := { last := 499, mis := [], dups := [] } }
example : demoB0.Fresh :=
  ⟨⟨rfl, rfl, rfl, rfl, by decide⟩, rfl, by unfold R32; decide, rfl, by decide, rfl, rfl, rfl, rfl, rfl⟩
example : sentTotal (movesOf true demoBoth) = 3 ∧ sentTotal (movesOf false demoBoth) = 1 := by decide
example : (run2 8 (demoBoth.foldl fault2 (demo0, demoB0))).1.rx.last = 102
    ∧ (run2 8 (demoBoth.foldl fault2 (demo0, demoB0))).2.rx.last = 500
    ∧ (run2 8 (demoBoth.foldl fault2 (demo0, demoB0))).2.tx.sentQ = []
    ∧ (run2 8 (demoBoth.foldl fault2 (demo0, demoB0))).1.tx.sentQ = [] := by decide

end Aiortc.Props.C02DrainPR
