import Aiortc.Lemmas.NegotiateCodecs
import Aiortc.Lemmas.NegotiatePc
import Aiortc.Lemmas.NegotiateExchange
import Aiortc.Lemmas.NegotiateFresh
import Aiortc.Lemmas.C03.CompatCommon
/-!
# C03 — offer/answer yields a consistent, connectable session for every configuration

Theorems about the executable model of the offer/answer code (`Model/Jsep/Codecs.lean`, `Model/Jsep/Negotiate.lean`).
See notes/C03.md for what is proved at full strength, what is `_partial`, and what is only observed.
-/
namespace Aiortc.Props.C03
open Aiortc (Outcome)
open Aiortc.Model.Negotiate
open Aiortc.Model.Jsep (Sig)

/-! ## 0. regenerated constants and graphs the model is tied to -/

/-- `and_direction` as modelled is the regenerated graph of the real function. -/
theorem and_direction_graph : Gen.AND_DIRECTION =
    (Dir.all.flatMap fun a => Dir.all.map fun b => (a.str, b.str, (andDir a b).str)) := by decide

theorem or_direction_graph : Gen.OR_DIRECTION =
    (Dir.all.flatMap fun a => Dir.all.map fun b => (a.str, b.str, (orDir a b).str)) := by decide

theorem reverse_direction_graph : Gen.REVERSE_DIRECTION = Dir.all.map fun a => (a.str, (revDir a).str) := by decide

theorem directions_const : Gen.DIRECTIONS = Dir.all.map Dir.str := by decide

theorem dtls_role_setup_const :
    Gen.DTLS_ROLE_SETUP = [(Role.auto.str, Role.auto.setup), (Role.client.str, Role.client.setup), (Role.server.str, Role.server.setup)] := by
  decide

theorem dynamic_pt_const : Gen.NEG_DYNAMIC_PT_LO = 96 ∧ Gen.NEG_DYNAMIC_PT_HI = 128 := by decide

theorem media_kinds_const : Gen.NEG_MEDIA_KINDS = [Kind.audio.str, Kind.video.str] := by decide

/-! ## 1. directions (the 4×4 graphs, for all direction pairs) -/

theorem revDir_involutive (d : Dir) : revDir (revDir d) = d := by cases d <;> rfl

/-- The direction the answerer ends with (`and_direction(own, reverse(offered))`) never exceeds what it wants and
what the offerer allows; its reverse — the offerer's current direction — never exceeds what the offerer offered. -/
theorem answer_direction_sound (offered own : Dir) :
    let cur := andDir own (revDir offered)
    andDir cur own = cur ∧ andDir (revDir cur) offered = revDir cur := by
  cases offered <;> cases own <;> decide

/-- … and it is the largest such direction. -/
theorem answer_direction_maximal (offered own d : Dir) (h1 : andDir d own = d) (h2 : andDir (revDir d) offered = revDir d) :
    andDir d (andDir own (revDir offered)) = d := by
  revert h1 h2; cases offered <;> cases own <;> cases d <;> decide

/-! ## 2. codecs, feedback, header extensions: what is selected was offered (ALL lists) -/

/-- `find_common_codecs`: every selected codec is a local codec adapted to a compatible OFFERED non-RTX codec —
same (case-insensitive) mime type and clock rate, the offerer's payload type when that is dynamic, feedback ⊆ offered —
or an offered RTX codec itself. -/
theorem common_codecs_offered (loc remote : List Codec) (c : Codec) (hc : c ∈ findCommon loc remote) :
    (c.isRtx = false ∧ ∃ l ∈ loc, ∃ r ∈ remote, r.isRtx = false ∧ isCodecCompatible l r = true ∧
        c.mime = l.mime ∧ c.mime.toLower = r.mime.toLower ∧ c.clockRate = r.clockRate ∧ c.params = l.params ∧
        c.pt = (if isDynamicPt r.pt then r.pt else l.pt) ∧ ∀ f ∈ c.fb, f ∈ r.fb) ∨
    (c.isRtx = true ∧ c ∈ remote) := by
  cases findCommon_selected loc remote c hc with
  | base l r hl hr h1 h2 =>
    refine .inl ⟨by rw [adapt_isRtx, compatible_isRtx h2]; exact h1, l, hl, r, hr, h1, h2, rfl, ?_, ?_, rfl, rfl, ?_⟩
    · exact compatible_mime h2
    · exact compatible_clock h2
    · intro f hf; exact (adapt_fb_offered l r f hf).1
  | rtx r hr h1 => exact .inr ⟨h1, hr⟩

/-- RTX only next to its base codec: an RTX codec is accepted only if the codec its `apt` names was accepted, with
the same clock rate. -/
theorem common_codecs_rtx_has_base (loc remote : List Codec) : RtxHasBase (findCommon loc remote) :=
  findCommon_rtxHasBase loc remote

/-- `filter_preferred_codecs` never invents a codec, and when preferences are set an RTX codec is kept only right
behind a kept base codec whose payload type is its `apt`. -/
theorem preferred_codecs_sound {codecs : List Codec} {prefs : List Cap} {out : List Codec}
    (h : filterPreferred codecs prefs = .ok out) :
    (∀ c ∈ out, c ∈ codecs) ∧
    (prefs ≠ [] → ∀ c ∈ out, c.isRtx = true → ∃ b ∈ out, b.isRtx = false ∧ plookup "apt" c.params = some (.inl (b.pt : Int))) :=
  filterPreferred_spec h

/-- What `setRemoteDescription` stores in `transceiver._codecs` (intersection, then preference filter):
every codec was offered, and every RTX codec has its base codec in the list. -/
theorem negotiated_codecs_offered {loc remote : List Codec} {prefs : List Cap} {out : List Codec}
    (h : filterPreferred (findCommon loc remote) prefs = .ok out) :
    (∀ c ∈ out, Selected loc remote c) ∧
    (∀ c ∈ out, c.isRtx = true → ∃ b ∈ out, b.isRtx = false ∧ plookup "apt" c.params = some (.inl (b.pt : Int))) := by
  obtain ⟨hsub, hrtx⟩ := filterPreferred_spec h
  refine ⟨fun c hc => findCommon_selected loc remote c (hsub c hc), ?_⟩
  by_cases hp : prefs = []
  · subst hp
    simp [filterPreferred] at h
    subst h
    intro c hc hr
    obtain ⟨b, hb, h1, h2, _⟩ := findCommon_rtxHasBase loc remote c hc hr
    exact ⟨b, hb, h1, h2⟩
  · exact hrtx hp

/-- With aiortc's own tables on both sides a selected codec ALWAYS carries the offerer's payload type: a local audio
codec is compatible with a table codec of static payload type only if it has that payload type itself, and all
video payload types are dynamic. -/
theorem static_payload_types_agree :
    (∀ l ∈ codecsOf .audio, ∀ r ∈ codecsOf .audio, isCodecCompatible l r = true → isDynamicPt r.pt = false → l.pt = r.pt) ∧
    (∀ r ∈ codecsOf .video, isDynamicPt r.pt = true) := by
  constructor <;> decide +kernel

/-- Every RTX codec of the tables names its base (a non-RTX table codec) through an integer `apt`, so
`filter_preferred_codecs` cannot raise `KeyError` on the tables. -/
theorem tables_rtx_have_apt :
    ∀ k ∈ [Kind.audio, Kind.video], ∀ c ∈ codecsOf k, c.mime.toLower = "video/rtx" →
      ∃ b ∈ codecsOf k, b.mime.toLower ≠ "video/rtx" ∧ plookup "apt" c.params = some (.inl (b.pt : Int)) := by
  decide +kernel

/-- Header extensions: the selected ones are the offered entries themselves (offerer's ids) with a locally known uri. -/
theorem header_extensions_offered (loc remote : List Ext) :
    ∀ x ∈ findCommonExt loc remote, x ∈ remote ∧ ∃ l ∈ loc, l.uri = x.uri :=
  findCommonExt_offered loc remote

/-! ## 3. mids -/

theorem allocate_mid_fresh {mids : List String} {m : String} {mids' : List String}
    (h : allocateMid mids = .ok (m, mids')) : m ∉ mids ∧ mids' = mids ++ [m] := allocateMid_fresh h

/-- `allocate_mid`'s `while True` always terminates. -/
theorem allocate_mid_terminates (mids : List String) : allocateMid mids ≠ .hang := allocateMid_no_hang mids

/-! ## 4. a complete exchange: ANY two connection states, any bundling rule -/

/-- Both sides are `stable` after a successful exchange. -/
theorem negotiate_stable {o a : Pc} {ex : Exchange} (h : negotiate o a = .ok ex) :
    ex.offerer.sig = .stable ∧ ex.answerer.sig = .stable := by
  obtain ⟨o1, offer0, answer0, h1, h2, h3, h4, h5, h6, h7, h8⟩ := negotiateWith_steps h
  have hat : answer0.type = .answer := (createAnswer_spec h5).1
  obtain ⟨_, media, _, _, _, hs, hpl, hcl⟩ := setLocal_answer_spec hat h6
  have hans : ex.answer = { answer0 with media } := by
    simp [Pc.localDesc, hpl, hcl] at h7; exact h7.symm
  obtain ⟨_, pc1, pc2, _, _, _, hA⟩ := setRemoteWith_spec h8
  have : ex.answer.type = .answer := by rw [hans]; exact hat
  rw [hA this]
  exact ⟨rfl, hs⟩

/-- The answer mirrors the offer: same number of media sections, same order, kind and mid; its BUNDLE group lists
exactly its mids and equals the offer's BUNDLE group. -/
theorem negotiate_mirrors {o a : Pc} {ex : Exchange} (h : negotiate o a = .ok ex) :
    ex.answer.media.length = ex.offer.media.length ∧
    ex.answer.media.map (fun m => (m.kind, m.mid)) = ex.offer.media.map (fun m => (m.kind, m.mid)) ∧
    ex.answer.bundle = ex.answer.media.map (·.mid) ∧
    ex.answer.bundle = ex.offer.bundle := by
  obtain ⟨o1, offer0, answer0, h1, h2, h3, h4, h5, h6, h7, h8⟩ := negotiateWith_steps h
  -- the offer
  obtain ⟨hot, hob⟩ := createOffer_shape h1
  obtain ⟨_, omedia, hof, _, _, _, hopl⟩ := setLocal_offer_spec hot h2
  have hoffer : ex.offer = { offer0 with media := omedia } := by
    simp [Pc.localDesc, hopl] at h3; exact h3.symm
  -- the answerer has the offer as remote description when it answers
  obtain ⟨_, pc1, pc2, _, _, hO, _⟩ := setRemoteWith_spec h4
  have hoty : ex.offer.type = .offer := by rw [hoffer]; exact hot
  have hrd : ex.answererMid.remoteDesc = some ex.offer := by rw [hO hoty]; simp [Pc.remoteDesc]
  -- the answer
  obtain ⟨hat, hab, _⟩ := createAnswer_spec h5
  obtain ⟨hv, amedia, haf, _, _, _, hpl, hcl⟩ := setLocal_answer_spec hat h6
  have hans : ex.answer = { answer0 with media := amedia } := by
    simp [Pc.localDesc, hpl, hcl] at h7; exact h7.symm
  -- validation of the local answer compared it with the offer
  have hkeys : keysOf answer0 = keysOf ex.offer := by
    obtain ⟨_, offer, ho, hk⟩ := validate_answer hv hat
    simp only [if_true, hrd] at ho
    cases ho; exact hk
  have hk2 : ex.answer.media.map (fun m => (m.kind, m.mid)) = ex.offer.media.map (fun m => (m.kind, m.mid)) := by
    rw [hans]; simp only; rw [refresh_keys haf]; exact hkeys
  have hmids : ex.answer.media.map (·.mid) = ex.offer.media.map (·.mid) := by
    have := congrArg (List.map Prod.snd) hk2
    simpa [List.map_map, Function.comp_def] using this
  refine ⟨?_, hk2, ?_, ?_⟩
  · have := congrArg List.length hk2; simpa using this
  · rw [hans]; simp only; rw [hab, refresh_mids haf]
  · have e1 : ex.answer.bundle = answer0.media.map (·.mid) := by rw [hans]; exact hab
    have e2 : ex.offer.bundle = offer0.media.map (·.mid) := by rw [hoffer]; exact hob
    have e3 : ex.answer.media.map (·.mid) = answer0.media.map (·.mid) := by rw [hans]; exact refresh_mids haf
    have e4 : ex.offer.media.map (·.mid) = offer0.media.map (·.mid) := by rw [hoffer]; exact refresh_mids hof
    rw [e1, e2, ← e3, ← e4, hmids]

/-- Every section of the answer carries a definite DTLS role (`active` or `passive`, never `actpass`);
every section of the offer says `actpass`. -/
theorem negotiate_roles_definite {o a : Pc} {ex : Exchange} (h : negotiate o a = .ok ex) :
    ∀ m ∈ ex.answer.media, m.setup = .client ∨ m.setup = .server := by
  obtain ⟨o1, offer0, answer0, h1, h2, h3, h4, h5, h6, h7, h8⟩ := negotiateWith_steps h
  obtain ⟨hat, _, rd, _, hrel⟩ := createAnswer_spec h5
  obtain ⟨_, amedia, haf, _, _, _, hpl, hcl⟩ := setLocal_answer_spec hat h6
  have hans : ex.answer = { answer0 with media := amedia } := by
    simp [Pc.localDesc, hpl, hcl] at h7; exact h7.symm
  have hdef : ∀ s ∈ answer0.media, s.setup ≠ .auto := hrel.forall_right (fun _ _ hr => hr.1)
  intro m hm
  rw [hans] at hm
  obtain ⟨m0, hm0, he⟩ := refresh_setup haf m hm
  have := hdef m0 hm0
  rw [he]
  cases hs : m0.setup <;> simp_all

/-- The role the offerer's transport takes from an answer section is the opposite of the answerer's. -/
theorem remote_role_opposite (s : Role) (x : Transport) (hs : s = .client ∨ s = .server) :
    ((remoteRoles .answer s x).role = .client ∨ (remoteRoles .answer s x).role = .server) ∧ (remoteRoles .answer s x).role ≠ s := by
  rcases hs with rfl | rfl <;> simp [remoteRoles]

/-- An offer (always `actpass` between aiortc peers) leaves the DTLS role of the answerer's transport alone; the
answerer then answers `active` unless a role was fixed by an earlier exchange. -/
theorem offer_keeps_role (x : Transport) : (remoteRoles .offer .auto x).role = x.role := by
  simp [remoteRoles]; split <;> rfl

/-! ## 5. BUNDLE: the transport that carries the bundle survives (the fix), the unpatched rule loses it -/

/-- After the (patched) bundling step every section of the group is on the primary transport … -/
theorem bundle_moves_all (pc : Pc) (p : Nat) (slaves : List String) :
    (∀ t ∈ (bundleStep pc p slaves).transceivers, inSlaves slaves t.mid = true → t.transport = p) ∧
    (∀ s, (bundleStep pc p slaves).sctp = some s → inSlaves slaves s.mid = true → s.transport = p) := by
  constructor
  · intro t ht hs
    simp only [bundleStep, List.mem_map] at ht
    obtain ⟨t0, _, rfl⟩ := ht
    split
    · rfl
    · rename_i hn; simp [hn] at hs
  · intro s hs hsl
    simp only [bundleStep, Option.map_eq_some_iff] at hs
    obtain ⟨s0, _, rfl⟩ := hs
    split
    · rfl
    · rename_i hn; simp [hn] at hsl

/-- … and the primary transport itself is never among the stopped ones: its entry is untouched. -/
theorem bundle_keeps_primary (pc : Pc) (p : Nat) (slaves : List String) :
    ∀ x ∈ (bundleStep pc p slaves).transports, x.id = p → x ∈ pc.transports := by
  intro x hx hid
  simp only [bundleStep, List.mem_map] at hx
  obtain ⟨x0, hx0, rfl⟩ := hx
  by_cases hc : (bundleOld pc p slaves).contains x0.id = true
  · exfalso
    simp only [hc, if_true] at hid
    exact bundleOld_ne pc p slaves x0.id (by simpa using hc) hid
  · simp only [hc]
    exact hx0

/-! ## 6. section by section: a first exchange, whatever either side configured beforehand -/

/-- What one media section of the answer is, relative to the same section of the offer, and what both sides end with. -/
structure SectionOutcome (ex : Exchange) (so sa : MSec) : Prop where
  kind : sa.kind = so.kind
  mid : sa.mid = so.mid
  /-- the answer's codecs are `filter_preferred_codecs(find_common_codecs(CODECS[kind], offered), preferences)` -/
  codecs : ∃ prefs, filterPreferred (findCommon (codecsOf so.kind) so.codecs) prefs = .ok sa.codecs
  nonempty : sa.codecs ≠ []
  exts : sa.exts = findCommonExt (extsOf so.kind) so.exts
  /-- the answerer's transceiver of that mid: its current direction is what the answer says,
  namely `and_direction(its direction, reverse_direction(offered))` -/
  answerer : ∃ ta ∈ ex.answerer.transceivers, ta.mid = some so.mid ∧ ta.currentDirection = some sa.direction ∧
    sa.direction = andDir ta.direction (revDir so.direction)
  /-- the offerer's transceiver of that mid: the reverse of it -/
  offerer : ∃ to ∈ ex.offerer.transceivers, to.mid = some so.mid ∧ to.currentDirection = some (revDir sa.direction)

/-- **Per-section theorem.**  For ANY offerer and ANY answerer that has not been through an exchange yet (whatever
transceivers, directions, tracks, preferences, data channel, bundle policy it was given), if the exchange succeeds,
the offer's mids are distinct and the offerer owns exactly the offered sections (both are what `createOffer` +
`setLocalDescription` produce; the harness checks them on every real exchange), then every media section of the
answer is the intersection of the offered section with the answerer's tables and preferences, and the two
transceivers of that mid end with complementary current directions. -/
theorem exchange_sections {o a : Pc} {ex : Exchange} (h : negotiate o a = .ok ex)
    (hun : Unnegotiated a.transceivers)
    (hnd : (ex.offer.media.map (·.mid)).Nodup)
    (hown : OwnedBy ex.answer.media ex.offererMid.transceivers) :
    ∀ (j : Nat) (so sa : MSec), ex.offer.media[j]? = some so → ex.answer.media[j]? = some sa → so.kind.isMedia = true →
      SectionOutcome ex so sa := by
  intro j so sa hso hsa hk
  obtain ⟨answer0, amedia, hoty, _, h4, h5, hat, h6, haf, hans, hkeys, h8⟩ := exchange_facts h
  obtain ⟨hrd, hu1, hlines, hneg⟩ := setRemote_offer_fresh h4 hoty hun hnd
  have hkeys := hkeys hrd
  obtain ⟨_, _, rd, hrd', hrel⟩ := createAnswer_spec h5
  rw [hrd] at hrd'; cases hrd'
  -- section j of the unrefreshed answer
  have hsa' : amedia[j]? = some sa := by rw [hans] at hsa; exact hsa
  obtain ⟨s0, hs0, hs0sa⟩ := haf.get_right j sa hsa'
  have hR := hrel.get j so s0 hso hs0
  obtain ⟨t, od, hby, hod, hmid0, hkind0, hdir0, hcod0, hext0⟩ := hR.2.1 hk
  have htmem : t ∈ ex.answererMid.transceivers := List.mem_of_find?_eq_some hby
  have htmid : t.mid = some so.mid := by simpa using List.find?_some hby
  obtain ⟨t', ht', hN⟩ := hneg j so hso hk
  have htt : t = t' := hu1.eq t htmem t' ht' (by rw [htmid, hN.mid]) (by rw [htmid]; simp)
  subst htt
  have hodv : od = revDir so.direction := by
    have := hN.off rfl; rw [hod] at this; exact Option.some.inj this
  subst hodv
  have e_kind : sa.kind = so.kind := by rw [hs0sa]; simp only; rw [hkind0, hN.kind]
  have e_mid : sa.mid = so.mid := by rw [hs0sa]; exact hmid0
  have e_dir : sa.direction = andDir t.direction (revDir so.direction) := by rw [hs0sa]; exact hdir0
  -- the answerer's final transceivers
  have hyp : ∀ x ∈ ex.answererMid.transceivers, ∀ i, x.mline = some i → ∃ m, answer0.media[i]? = some m ∧ x.mid = some m.mid := by
    intro x hx i hi
    rcases hlines x hx with h1 | ⟨i', m, hm, hxm, hxl⟩
    · rw [h1.2] at hi; cases hi
    · rw [hxl] at hi; cases hi
      have : (answer0.media.map (fun m => (m.kind, m.mid)))[i]? = (ex.offer.media.map (fun m => (m.kind, m.mid)))[i]? := by
        have := hkeys; unfold keysOf at this; rw [this]
      simp only [List.getElem?_map, hm, Option.map_some] at this
      cases hq : answer0.media[i]? with
      | none => rw [hq] at this; simp at this
      | some q =>
        rw [hq] at this; simp at this
        exact ⟨q, rfl, by rw [hxm, this.2]⟩
  have hfin := setLocal_answer_transceivers hat h6 hyp
  -- the offerer's final transceivers
  obtain ⟨_, pc1, pc2, hfold, hb, _, hA⟩ := setRemoteWith_spec h8
  have haty : ex.answer.type = .answer := by rw [hans]; exact hat
  rw [haty] at hfold
  have hmids : ex.answer.media.map (·.mid) = ex.offer.media.map (·.mid) := by
    have := (negotiate_mirrors h).2.1
    have := congrArg (List.map Prod.snd) this
    simpa [List.map_map, Function.comp_def] using this
  obtain ⟨_, _, hnegO⟩ := ownedBy_fold ex.answer.media ex.offererMid pc1 0 hown (by rw [hmids]; exact hnd) hfold
  have hsamem : sa ∈ ex.answer.media := List.mem_of_getElem? hsa
  obtain ⟨to', hto', hNO⟩ := hnegO sa hsamem (by rw [e_kind]; exact hk)
  obtain ⟨g, hg, hmap⟩ := applyBundle_transceivers hb
  have hoff : ex.offerer.transceivers = pc1.transceivers.map g := by rw [hA haty]; exact hmap
  refine ⟨e_kind, e_mid, ?_, ?_, ?_, ?_, ?_⟩
  · rw [hs0sa]; simp only; rw [hcod0]; exact ⟨_, hN.codecs⟩
  · rw [hs0sa]; simp only; rw [hcod0]; exact hN.nonempty
  · rw [hs0sa]; simp only; rw [hext0]; exact hN.exts
  · refine ⟨{ t with currentDirection := some (andDir t.direction (revDir so.direction)) },
      by rw [hfin]; exact localDirections_mem htmem hod, htmid, ?_, ?_⟩
    · show some (andDir t.direction (revDir so.direction)) = some sa.direction
      rw [e_dir]
    · exact e_dir
  · refine ⟨g to', by rw [hoff]; exact List.mem_map_of_mem hto', ?_, ?_⟩
    · rw [(hg to').mid, hNO.mid, e_mid]
    · have := (hNO.sameBut (hg to')).cur rfl
      exact this

/-- **First exchange, no structural hypothesis left.**  For ANY freshly configured offerer (`FreshPc`: any transceivers,
directions, tracks, codec preferences, data channel, bundle policy — but no exchange yet) and ANY answerer that has not
negotiated its transceivers yet: if the exchange goes through, every media section of the answer and the final
directions on both sides are as `SectionOutcome` says.  (That the exchange does go through when every section has a
common codec is proved in `exchange_succeeds` below, for every well-formed pair.) -/
theorem first_exchange_sections {o a : Pc} {ex : Exchange} (hf : FreshPc o) (hun : Unnegotiated a.transceivers)
    (h : negotiate o a = .ok ex) :
    ∀ (j : Nat) (so sa : MSec), ex.offer.media[j]? = some so → ex.answer.media[j]? = some sa → so.kind.isMedia = true →
      SectionOutcome ex so sa := by
  obtain ⟨o1, offer0, answer0, h1, h2, h3, _⟩ := negotiateWith_steps h
  obtain ⟨hnd0, hown0⟩ := fresh_offer_owned hf h1 h2
  obtain ⟨hot, _⟩ := createOffer_shape h1
  obtain ⟨_, omedia, hof, _, _, _, hopl⟩ := setLocal_offer_spec hot h2
  have hoffer : ex.offer = { offer0 with media := omedia } := by
    simp [Pc.localDesc, hopl] at h3; exact h3.symm
  have hk1 : ex.offer.media.map (fun m => (m.kind, m.mid)) = offer0.media.map (fun m => (m.kind, m.mid)) := by
    rw [hoffer]; exact refresh_keys hof
  have hm1 : ex.offer.media.map (·.mid) = offer0.media.map (·.mid) := by
    rw [hoffer]; exact refresh_mids hof
  have hk2 := (negotiate_mirrors h).2.1
  exact exchange_sections h hun (by rw [hm1]; exact hnd0) (hown0.of_keys (hk2.trans hk1))

/-- **An offer/answer exchange succeeds.**  For every pair of well-formed connection states (`WF`: holds for new
connections and is preserved by addTransceiver / addTrack / createDataChannel / setCodecPreferences / direction changes
and by exchanges — so: any multiset of transceivers with any directions, tracks or not, data channel or not, any bundle
policies, any history of earlier exchanges, INCLUDING transceivers / data channels the other side never matched) that
describe the same sections (`Paired`) and whose codec preferences are `Compatible`, none of the six calls createOffer /
setLocalDescription(offer) / setRemoteDescription(offer) / createAnswer / setLocalDescription(answer) /
setRemoteDescription(answer) raises, and the pair is well-formed, paired and compatible again. -/
theorem exchange_succeeds {o a : Pc} (ho : WF o) (ha : WF a) (hp : Paired o a) (hc : Compatible o a) :
    ∃ ex, negotiate o a = .ok ex ∧ WF ex.offerer ∧ WF ex.answerer ∧ Paired ex.offerer ex.answerer ∧
      Compatible ex.offerer ex.answerer := by
  obtain ⟨ex, h, r⟩ := negotiate_ok ho ha hp hc
  exact ⟨ex, h, r.wfO, r.wfA, r.paired, r.compat⟩

/-- new connections are well-formed, paired, and — without codec preferences — compatible -/
theorem new_pair_ready (p1 p2 : Policy) :
    WF (Pc.new p1) ∧ WF (Pc.new p2) ∧ Paired (Pc.new p1) (Pc.new p2) ∧ Compatible (Pc.new p1) (Pc.new p2) :=
  ⟨WF.new p1, WF.new p2, ⟨rfl, fun _ => Iff.rfl⟩,
    compatible_of_prefsOk prefsOk_none (fun t ht => by simp [Pc.new] at ht) (fun t ht => by simp [Pc.new] at ht)⟩

/-- `Compatible` from a checkable family of preference lists: if every transceiver's preferences belong to a family `P`
(per kind, containing "no preference") any three lists of which leave a codec through offer → answer → offerer
(`PrefsOk`, decidable for finite families: `prefsOk_of_check`), the two connections are compatible.
`prefsOk_none` (no preferences at all) and `prefsOk_sample` are instances. -/
theorem compatible_of_family {P : Kind → List Cap → Prop} (hP : PrefsOk P) {o a : Pc}
    (ho : ∀ t ∈ o.transceivers, P t.kind t.preferred) (ha : ∀ t ∈ a.transceivers, P t.kind t.preferred) : Compatible o a :=
  compatible_of_prefsOk hP ho ha

/-- **"At least one real codec in common per kind" ⇒ `Compatible`.**  Fix for each media kind a real (non-RTX) capability
of aiortc's tables; if every transceiver of both connections has no preference or a preference list that contains the
capability of its kind (anywhere, with anything else, with or without RTX), the connections are compatible: offer,
answer and what the offerer keeps all contain that codec.  (`prefsOk_opus_vp8` is the instance Opus / VP8.) -/
theorem compatible_of_common_codec (cap : Kind → Cap)
    (hcap : ∀ k, k.isMedia = true → (cap k).isRtx = false ∧ ∃ c0 ∈ codecsOf k, c0.isRtx = false ∧
      c0.mime.toLower = (cap k).mime.toLower ∧ c0.params = (cap k).params) {o a : Pc}
    (ho : ∀ t ∈ o.transceivers, t.preferred = [] ∨ cap t.kind ∈ t.preferred)
    (ha : ∀ t ∈ a.transceivers, t.preferred = [] ∨ cap t.kind ∈ t.preferred) : Compatible o a :=
  compatible_of_prefsOk (prefsOk_common cap hcap) ho ha

/-- The hypothesis "at least one REAL codec" cannot be dropped, and the weaker compatibility condition of round 1
(only offerer-vs-existing-answerer lists) was not enough: an offerer whose only preference is the RTX capability offers
no codec at all, the answerer (which creates its transceiver on the fly) finds nothing in common and
`setRemoteDescription(offer)` raises `OperationError`. -/
theorem rtx_only_preference_fails :
    (match ((Pc.new .balanced).addTransceiver .video .sendrecv false).setCodecPreferences 0 [(capsOf .video)[1]!] with
     | .ok o => (match negotiate o (Pc.new .balanced) with
                 | .crash k => k == "OperationError"
                 | _ => false)
     | _ => false) = true := by decide +kernel

/-- **Any exchange, section by section** (not only the first one): for well-formed, paired, compatible connections every
media section of the answer is the intersection of the offered section with the answerer's tables and preferences, and
the two transceivers that own the section end with complementary current directions. -/
theorem exchange_sections_any {o a : Pc} {ex : Exchange} (ho : WF o) (ha : WF a) (hp : Paired o a) (hc : Compatible o a)
    (h : negotiate o a = .ok ex) :
    ∀ (j : Nat) (so sa : MSec), ex.offer.media[j]? = some so → ex.answer.media[j]? = some sa → so.kind.isMedia = true →
      SectionOutcome ex so sa := by
  obtain ⟨ex', h', r⟩ := negotiate_ok ho ha hp hc
  rw [h] at h'; cases h'
  intro j so sa hso hsa hk
  have s := r.sections j so sa hso hsa hk
  exact ⟨s.kind, s.mid, s.codecs, s.nonempty, s.exts, s.answerer, s.offerer⟩

/-- Corollary: every codec of an answer section was offered in the same section (a table codec adapted to a
compatible offered codec, or an offered RTX codec), every RTX codec has its base codec next to it in the section, at
least one codec is selected, and the header extensions are offered entries with the offerer's ids. -/
theorem answer_codecs_offered {ex : Exchange} {so sa : MSec} (hs : SectionOutcome ex so sa) :
    (∀ c ∈ sa.codecs, Selected (codecsOf so.kind) so.codecs c) ∧
    (∀ c ∈ sa.codecs, c.isRtx = true → ∃ b ∈ sa.codecs, b.isRtx = false ∧ plookup "apt" c.params = some (.inl (b.pt : Int))) ∧
    sa.codecs ≠ [] ∧ (∀ x ∈ sa.exts, x ∈ so.exts) := by
  obtain ⟨prefs, hp⟩ := hs.codecs
  obtain ⟨h1, h2⟩ := negotiated_codecs_offered hp
  refine ⟨h1, h2, hs.nonempty, ?_⟩
  intro x hx
  rw [hs.exts] at hx
  exact (findCommonExt_offered _ _ x hx).1

/-- Corollary: the current directions of the two transceivers of a section are the reverse of each other, and
neither side sends or receives more than it asked for. -/
theorem directions_complementary {ex : Exchange} {so sa : MSec} (hs : SectionOutcome ex so sa) :
    ∃ ta ∈ ex.answerer.transceivers, ∃ to ∈ ex.offerer.transceivers, ta.mid = some so.mid ∧ to.mid = some so.mid ∧
      ∃ da dO, ta.currentDirection = some da ∧ to.currentDirection = some dO ∧ dO = revDir da ∧ da = revDir dO ∧
        andDir da ta.direction = da ∧ andDir dO so.direction = dO := by
  obtain ⟨ta, hta, hm1, hc1, hd⟩ := hs.answerer
  obtain ⟨to, hto, hm2, hc2⟩ := hs.offerer
  refine ⟨ta, hta, to, hto, hm1, hm2, sa.direction, revDir sa.direction, hc1, hc2, rfl, (revDir_involutive _).symm, ?_, ?_⟩
  · rw [hd]; exact (answer_direction_sound so.direction ta.direction).1
  · rw [hd]; exact (answer_direction_sound so.direction ta.direction).2

/-! ## 7. non-vacuity: concrete configurations satisfy the hypotheses and go through -/

/-- offerer: balanced policy, an audio transceiver `sendonly` with a track, a video transceiver, a data channel -/
def exO : Pc := (((Pc.new .balanced).addTransceiver .audio .sendonly true).addTransceiver .video .sendrecv false).createDataChannel
/-- answerer: max-bundle policy, video created BEFORE audio (the order that lost the primary transport before the fix) -/
def exA : Pc := ((Pc.new .maxBundle).addTransceiver .video .recvonly false).addTrack .audio

example : FreshPc exO := ⟨by unfold Unnegotiated; decide, by decide, rfl, rfl, rfl, by decide⟩
example : Unnegotiated exA.transceivers := by unfold Unnegotiated; decide

/-- the exchange succeeds, and its outcome is the one the theorems describe -/
example : (match negotiate exO exA with
    | .ok ex => decide (
      ex.offer.media.map (fun m => (m.kind, m.mid, m.direction, m.setup)) =
        [(.audio, "0", .sendonly, .auto), (.video, "1", .sendrecv, .auto), (.application, "2", .sendrecv, .auto)] ∧
      ex.answer.media.map (fun m => (m.kind, m.mid, m.direction, m.setup)) =
        [(.audio, "0", .recvonly, .client), (.video, "1", .recvonly, .client), (.application, "2", .sendrecv, .client)] ∧
      ex.answer.bundle = ["0", "1", "2"] ∧
      ex.offerer.transceivers.map (·.currentDirection) = [some .sendonly, some .sendonly] ∧
      ex.answerer.transceivers.map (·.currentDirection) = [some .recvonly, some .recvonly] ∧
      ex.offerer.sig = .stable ∧ ex.answerer.sig = .stable ∧
      ex.offerer.connectReady = true ∧ ex.answerer.connectReady = true ∧
      ex.offerer.idleTransports = [] ∧ ex.answerer.idleTransports = [])
    | _ => false) = true := by decide +kernel

/-- the same exchange with the UNPATCHED bundling rule: the answerer stops the transport that carries the bundle
(defect fixed by `fixes/C03-bundle-by-transport-identity.patch`) -/
theorem orig_bundling_stops_primary_transport :
    (match negotiateWith bundleStepOrig exO exA with
     | .ok ex => ex.answerer.connectReady
     | _ => true) = false := by decide +kernel

/-- … and with two audio transceivers behind a video one (balanced policy) it leaves the second audio section on the
stopped transport (the other half of the defect). -/
theorem orig_bundling_strands_flagged_section :
    (match negotiateWith bundleStepOrig
        ((((Pc.new .balanced).addTransceiver .video .sendrecv false).addTransceiver .audio .sendrecv false).addTransceiver .audio .sendrecv false)
        (Pc.new .balanced) with
     | .ok ex => ex.offerer.connectReady
     | _ => true) = false := by decide +kernel

/-- the patched rule on the same configuration -/
example :
    (match negotiate
        ((((Pc.new .balanced).addTransceiver .video .sendrecv false).addTransceiver .audio .sendrecv false).addTransceiver .audio .sendrecv false)
        (Pc.new .balanced) with
     | .ok ex => ex.offerer.connectReady && ex.answerer.connectReady
     | _ => false) = true := by decide +kernel

/-- a codec list / preference list in which the theorems of §2 have something to say: VP8 + RTX offered on the
offerer's payload types 97/98, the local table answers with exactly those -/
example : (filterPreferred (findCommon (codecsOf .video) ((codecsOf .video).take 2)) [(capsOf .video)[0]!, (capsOf .video)[1]!]).isOk = true ∧
    (findCommon (codecsOf .video) ((codecsOf .video).take 2)).map (·.pt) = [97, 98] := by decide +kernel

end Aiortc.Props.C03
