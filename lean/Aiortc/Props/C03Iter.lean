import Aiortc.Props.C03
import Aiortc.Lemmas.C03.RoleEx
/-!
# C03, round 2 — every exchange of every script succeeds

`negotiate` iterated: from a pair of new connections, for ANY list of operations — add a transceiver (any kind,
direction, with or without track), add a track, create a data channel, set codec preferences (inside a compatible family),
change a direction, run a complete exchange with either side offering — every exchange succeeds, leaves both sides
`stable` with mirrored descriptions and definite roles, sections are only ever appended and mids are never re-used.
-/
namespace Aiortc.Props.C03
open Aiortc (Outcome)
open Aiortc.Model.Negotiate
open Aiortc.Model.Jsep (Sig)

/-- operations on a pair of connections; `second` selects the connection (for `negotiate`: who offers) -/
inductive Op where
  | addTransceiver (second : Bool) (kind : Kind) (dir : Dir) (track : Bool)
  | addTrack (second : Bool) (kind : Kind)
  | createDataChannel (second : Bool)
  | setCodecPreferences (second : Bool) (idx : Nat) (caps : List Cap)
  | setDirection (second : Bool) (idx : Nat) (dir : Dir)
  | negotiate (second : Bool)

def onPeer (s : Pc × Pc) (second : Bool) (f : Pc → Pc) : Pc × Pc := if second then (s.1, f s.2) else (f s.1, s.2)

/-- one operation; a set-up call that raises (`IndexError` / `ValueError`) leaves the connection as it was -/
def step (s : Pc × Pc) : Op → Outcome ((Pc × Pc) × Option Exchange)
  | .addTransceiver p k d tr => .ok (onPeer s p (·.addTransceiver k d tr), none)
  | .addTrack p k => .ok (onPeer s p (·.addTrack k), none)
  | .createDataChannel p => .ok (onPeer s p (·.createDataChannel), none)
  | .setCodecPreferences p i caps => .ok (onPeer s p (·.trySetCodecPreferences i caps), none)
  | .setDirection p i d => .ok (onPeer s p (·.trySetDirection i d), none)
  | .negotiate false =>
    match Aiortc.Model.Negotiate.negotiate s.1 s.2 with
    | .ok ex => .ok ((ex.offerer, ex.answerer), some ex)
    | .valueError => .valueError
    | .crash k => .crash k
    | .hang => .hang
  | .negotiate true =>
    match Aiortc.Model.Negotiate.negotiate s.2 s.1 with
    | .ok ex => .ok ((ex.answerer, ex.offerer), some ex)
    | .valueError => .valueError
    | .crash k => .crash k
    | .hang => .hang

/-- a script; the exchanges it performs are collected in order -/
def run : Pc × Pc → List Op → Outcome ((Pc × Pc) × List Exchange)
  | s, [] => .ok (s, [])
  | s, op :: ops =>
    match step s op with
    | .ok (s1, e) =>
      match run s1 ops with
      | .ok (s2, es) => .ok (s2, e.toList ++ es)
      | .valueError => .valueError
      | .crash k => .crash k
      | .hang => .hang
    | .valueError => .valueError
    | .crash k => .crash k
    | .hang => .hang

/-- operations inside the property's configuration space: media kinds are audio / video; installed codec preferences
stay inside the compatible family `P` -/
def Op.Valid (P : Kind → List Cap → Prop) : Op → Prop
  | .addTransceiver _ k _ _ => k.isMedia = true
  | .addTrack _ k => k.isMedia = true
  | .setCodecPreferences _ _ caps => ∀ k : Kind, (caps.all fun c => (capsOf k).contains c) = true → P k (dedupKeepLast caps)
  | _ => True

/-- the invariant of a pair between operations -/
structure Inv (P : Kind → List Cap → Prop) (s : Pc × Pc) : Prop where
  wf1 : WF s.1
  wf2 : WF s.2
  paired : Paired s.1 s.2
  prefs1 : PrefsIn P s.1
  prefs2 : PrefsIn P s.2
  /-- DTLS roles: each connection has one definite role value, the two are opposite -/
  roles : RolePair s.1 s.2

theorem inv_new {P : Kind → List Cap → Prop} (p1 p2 : Policy) : Inv P (Pc.new p1, Pc.new p2) :=
  ⟨WF.new p1, WF.new p2, ⟨rfl, fun _ => Iff.rfl⟩, fun t ht => by simp [Pc.new] at ht, fun t ht => by simp [Pc.new] at ht,
    rolePair_new p1 p2⟩

theorem inv_setup {P : Kind → List Cap → Prop} {s : Pc × Pc} (h : Inv P s) (p : Bool) {f : Pc → Pc}
    (hf : ∀ pc, SetupOk P pc (f pc)) (hrw : ∀ pc r, RWF pc r → RWF (f pc) r) : Inv P (onPeer s p f) := by
  unfold onPeer
  obtain ⟨ro, ra, hopp, Ro, Ra⟩ := h.roles
  cases p
  · simp only [Bool.false_eq_true, if_false]
    have := hf s.1
    refine ⟨this.wf h.wf1, h.wf2, ⟨by rw [keys_of_slots this.slots]; exact h.paired.keys, fun x => by rw [this.seen]; exact h.paired.seen x⟩,
      this.prefs h.prefs1, h.prefs2, ⟨ro, ra, hopp, hrw _ _ Ro, Ra⟩⟩
  · simp only [if_true]
    have := hf s.2
    refine ⟨h.wf1, this.wf h.wf2, ⟨by rw [keys_of_slots this.slots]; exact h.paired.keys, fun x => by rw [this.seen]; exact h.paired.seen x⟩,
      h.prefs1, this.prefs h.prefs2, ⟨ro, ra, hopp, Ro, hrw _ _ Ra⟩⟩

/-- what every exchange of a script looks like -/
structure ExGood (ex : Exchange) : Prop where
  stable : ex.offerer.sig = .stable ∧ ex.answerer.sig = .stable
  mirrors : ex.answer.media.length = ex.offer.media.length ∧
    ex.answer.media.map (fun m => (m.kind, m.mid)) = ex.offer.media.map (fun m => (m.kind, m.mid)) ∧
    ex.answer.bundle = ex.answer.media.map (·.mid) ∧ ex.answer.bundle = ex.offer.bundle
  /-- every media section has its own mid, however many sections there are -/
  distinct : (ex.offer.media.map (·.mid)).Nodup ∧ (ex.answer.media.map (·.mid)).Nodup
  roles : ∀ m ∈ ex.answer.media, m.setup = .client ∨ m.setup = .server
  actpass : ∀ m ∈ ex.offer.media, m.setup = .auto
  sections : ∀ (j : Nat) (so sa : MSec), ex.offer.media[j]? = some so → ex.answer.media[j]? = some sa → so.kind.isMedia = true →
    SectionDone ex so sa

/-- how the pair's history relates two states: sections are appended, never changed or moved; new mids were never seen -/
structure Extends (s s' : Pc × Pc) : Prop where
  keys : ∃ rest, s'.1.keys = s.1.keys ++ rest ∧ ∀ kx ∈ rest, kx.2 ∉ s.1.seenMids
  seen : ∀ x, x ∈ s.1.seenMids → x ∈ s'.1.seenMids
  /-- ROLE STABILITY: a transport whose DTLS role is definite keeps that role for ever -/
  roles1 : ∀ id r, (r = .client ∨ r = .server) → s.1.roleOf id = r → s'.1.roleOf id = r
  roles2 : ∀ id r, (r = .client ∨ r = .server) → s.2.roleOf id = r → s'.2.roleOf id = r

theorem Extends.refl (s : Pc × Pc) : Extends s s := ⟨⟨[], by simp, by simp⟩, fun _ h => h, fun _ _ _ h => h, fun _ _ _ h => h⟩

theorem Extends.trans {a b c : Pc × Pc} (h1 : Extends a b) (h2 : Extends b c) : Extends a c := by
  obtain ⟨r1, e1, f1⟩ := h1.keys
  obtain ⟨r2, e2, f2⟩ := h2.keys
  refine ⟨⟨r1 ++ r2, by rw [e2, e1, List.append_assoc], ?_⟩, fun x hx => h2.seen x (h1.seen x hx),
    fun id r hr h => h2.roles1 id r hr (h1.roles1 id r hr h), fun id r hr h => h2.roles2 id r hr (h1.roles2 id r hr h)⟩
  intro kx hkx
  rcases List.mem_append.mp hkx with h | h
  · exact f1 kx h
  · exact fun hh => f2 kx h (h1.seen _ hh)

/-- **Mids are pairwise distinct** in the offer and in the answer of every exchange between well-formed, paired, compatible
connections — for any number of media sections (the 12th section gets "11", not a second "10"). -/
theorem exchange_mids_distinct {o a : Pc} {ex : Exchange} (hok : ExchangeOk o a ex) :
    (ex.offer.media.map (·.mid)).Nodup ∧ (ex.answer.media.map (·.mid)).Nodup := by
  have h := hok.wfO.nodup
  have ho : ex.offer.media.map (·.mid) = ex.offerer.keys.map (·.2) := by
    rw [← hok.offerKeys]; simp [keysOf, List.map_map, Function.comp_def]
  have ha : ex.answer.media.map (·.mid) = ex.offerer.keys.map (·.2) := by
    rw [← hok.answerKeys]; simp [keysOf, List.map_map, Function.comp_def]
  exact ⟨ho ▸ h, ha ▸ h⟩

theorem exchange_good {o a : Pc} {ex : Exchange} (h : Aiortc.Model.Negotiate.negotiate o a = .ok ex) (hok : ExchangeOk o a ex) : ExGood ex :=
  ⟨negotiate_stable h, negotiate_mirrors h, exchange_mids_distinct hok, negotiate_roles_definite h, hok.offerAuto, hok.sections⟩

theorem exchange_extends {o a : Pc} {ex : Exchange} (hok : ExchangeOk o a ex) :
    (∃ rest, ex.offerer.keys = o.keys ++ rest ∧ ∀ kx ∈ rest, kx.2 ∉ o.seenMids) ∧ (∀ x, x ∈ o.seenMids → x ∈ ex.offerer.seenMids) := by
  obtain ⟨rest, hrest⟩ := hok.ext
  refine ⟨⟨rest, hrest, ?_⟩, fun x hx => (hok.seen x).mpr (.inl hx)⟩
  intro kx hkx
  obtain ⟨i, hi⟩ := List.getElem?_of_mem hkx
  refine hok.fresh (o.keys.length + i) kx (Nat.le_add_right _ _) ?_
  rw [hrest, List.getElem?_append_right (Nat.le_add_right _ _)]
  simpa using hi

/-- **Opposite roles.**  After any exchange from a pair satisfying the invariant, every negotiated section (transceiver with
a mid, SCTP transport with a mid) of the offerer sits on a transport of one definite DTLS role and every negotiated
section of the answerer on a transport of the opposite role. -/
theorem exchange_roles_opposite {P : Kind → List Cap → Prop} (hP : PrefsOk P) {s : Pc × Pc} (h : Inv P s) {ex : Exchange}
    (hn : Aiortc.Model.Negotiate.negotiate s.1 s.2 = .ok ex) :
    ∃ ro ra, Opp ro ra ∧
      (∀ t ∈ ex.offerer.transceivers, t.mid ≠ none → ex.offerer.roleOf t.transport = ro) ∧
      (∀ t ∈ ex.answerer.transceivers, t.mid ≠ none → ex.answerer.roleOf t.transport = ra) ∧
      (∀ c, ex.offerer.sctp = some c → c.mid ≠ none → ex.offerer.roleOf c.transport = ro) ∧
      (∀ c, ex.answerer.sctp = some c → c.mid ≠ none → ex.answerer.roleOf c.transport = ra) := by
  obtain ⟨ex', hn', hok⟩ := negotiate_ok h.wf1 h.wf2 h.paired (compatible_of_prefsOk hP h.prefs1 h.prefs2)
  rw [hn] at hn'; cases hn'
  obtain ⟨⟨ro, ra, hopp, Ro, Ra⟩, _, _⟩ := exchange_roles h.wf1 h.wf2 h.paired hok h.roles
  exact ⟨ro, ra, hopp, Ro.owners, Ra.owners, Ro.sctpOwner, Ra.sctpOwner⟩

/-- one operation -/
theorem step_ok {P : Kind → List Cap → Prop} (hP : PrefsOk P) {s : Pc × Pc} (h : Inv P s) {op : Op} (hv : op.Valid P) :
    ∃ s' e, step s op = .ok (s', e) ∧ Inv P s' ∧ Extends s s' ∧ (∀ ex ∈ e.toList, ExGood ex) := by
  have same : ∀ (p : Bool) (f : Pc → Pc), (∀ pc, SetupOk P pc (f pc)) → (∀ pc, RoleSame pc.transports (f pc).transports) →
      Extends s (onPeer s p f) := by
    intro p f hf hrs
    have hst : ∀ pc id r, pc.roleOf id = r → (f pc).roleOf id = r := by
      intro pc id r hid
      rw [roleOf_eq] at hid ⊢
      rw [(hrs pc).lookup]; exact hid
    unfold onPeer
    cases p
    · simp only [Bool.false_eq_true, if_false]
      exact ⟨⟨[], by simp [keys_of_slots (hf s.1).slots], by simp⟩, fun x hx => by rw [(hf s.1).seen]; exact hx,
        fun id r _ h => hst _ id r h, fun _ _ _ h => h⟩
    · simp only [if_true]
      exact ⟨⟨[], by simp, by simp⟩, fun x hx => hx, fun _ _ _ h => h, fun id r _ h => hst _ id r h⟩
  cases op with
  | addTransceiver p k d tr =>
    have hf : ∀ pc, SetupOk P pc (pc.addTransceiver k d tr) := fun pc => setupOk_createTransceiver hP.nil pc d hv tr
    exact ⟨_, none, rfl, inv_setup h p hf (fun pc r hr => rwf_createTransceiver hr d k tr),
      same p _ hf (fun pc => (roleSame_setup pc).1 d k tr), by simp⟩
  | addTrack p k =>
    have hf : ∀ pc, SetupOk P pc (pc.addTrack k) := fun pc => setupOk_addTrack hP.nil pc hv
    exact ⟨_, none, rfl, inv_setup h p hf (fun pc r hr => rwf_addTrack hr k), same p _ hf (fun pc => (roleSame_setup pc).2.1 k), by simp⟩
  | createDataChannel p =>
    have hf : ∀ pc, SetupOk P pc pc.createDataChannel := fun pc => setupOk_createDataChannel P pc
    exact ⟨_, none, rfl, inv_setup h p hf (fun pc r hr => rwf_createDataChannel hr), same p _ hf (fun pc => (roleSame_setup pc).2.2.1), by simp⟩
  | setCodecPreferences p i caps =>
    have hf : ∀ pc, SetupOk P pc (pc.trySetCodecPreferences i caps) := fun pc => setupOk_setCodecPreferences pc i caps hv
    exact ⟨_, none, rfl, inv_setup h p hf (fun pc r hr => rwf_trySetCodecPreferences hr i caps),
      same p _ hf (fun pc => (roleSame_setup pc).2.2.2.1 i caps), by simp⟩
  | setDirection p i d =>
    have hf : ∀ pc, SetupOk P pc (pc.trySetDirection i d) := fun pc => setupOk_setDirection P pc i d
    exact ⟨_, none, rfl, inv_setup h p hf (fun pc r hr => rwf_trySetDirection hr i d),
      same p _ hf (fun pc => (roleSame_setup pc).2.2.2.2 i d), by simp⟩
  | negotiate p =>
    cases p
    · obtain ⟨ex, hn, hok⟩ := negotiate_ok h.wf1 h.wf2 h.paired (compatible_of_prefsOk hP h.prefs1 h.prefs2)
      obtain ⟨hrp, hst1, hst2⟩ := exchange_roles h.wf1 h.wf2 h.paired hok h.roles
      refine ⟨(ex.offerer, ex.answerer), some ex, by simp [step, hn], ?_, ?_, ?_⟩
      · refine ⟨hok.wfO, hok.wfA, hok.paired, ?_, ?_, hrp⟩
        · intro t ht
          rcases hok.prefsO t ht with he | ⟨t0, ht0, hk, hp⟩
          · rw [he]; exact hP.nil _
          · rw [← hk, ← hp]; exact h.prefs1 t0 ht0
        · intro t ht
          rcases hok.prefsA t ht with he | ⟨t0, ht0, hk, hp⟩
          · rw [he]; exact hP.nil _
          · rw [← hk, ← hp]; exact h.prefs2 t0 ht0
      · obtain ⟨hk, hs⟩ := exchange_extends hok
        exact ⟨hk, hs, hst1, hst2⟩
      · intro e he; simp at he; subst he; exact exchange_good hn hok
    · obtain ⟨ex, hn, hok⟩ := negotiate_ok h.wf2 h.wf1 h.paired.symm (compatible_of_prefsOk hP h.prefs2 h.prefs1)
      obtain ⟨hrp, hst1, hst2⟩ := exchange_roles h.wf2 h.wf1 h.paired.symm hok h.roles.symm
      refine ⟨(ex.answerer, ex.offerer), some ex, by simp [step, hn], ?_, ?_, ?_⟩
      · refine ⟨hok.wfA, hok.wfO, hok.paired.symm, ?_, ?_, hrp.symm⟩
        · intro t ht
          rcases hok.prefsA t ht with he | ⟨t0, ht0, hk, hp⟩
          · rw [he]; exact hP.nil _
          · rw [← hk, ← hp]; exact h.prefs1 t0 ht0
        · intro t ht
          rcases hok.prefsO t ht with he | ⟨t0, ht0, hk, hp⟩
          · rw [he]; exact hP.nil _
          · rw [← hk, ← hp]; exact h.prefs2 t0 ht0
      · obtain ⟨⟨rest, hk, hf⟩, hs⟩ := exchange_extends hok
        refine ⟨⟨rest, ?_, ?_⟩, ?_, hst2, hst1⟩
        · show ex.answerer.keys = s.1.keys ++ rest
          rw [← hok.paired.keys, hk, h.paired.keys]
        · intro kx hkx hh; exact hf kx hkx ((h.paired.seen _).mp hh)
        · intro x hx
          show x ∈ ex.answerer.seenMids
          rw [← hok.paired.seen]; exact hs x ((h.paired.seen x).mp hx)
      · intro e he; simp at he; subst he; exact exchange_good hn hok

/-- **Every exchange of every script succeeds.**  From any pair satisfying the invariant (in particular two new
connections, `inv_new`), any list of valid operations runs to the end: no call of any exchange raises; the invariant
holds again; every exchange leaves both sides `stable`, the answer mirroring the offer with definite roles and
section-wise the negotiated intersection; sections are only appended, mids never re-used, and a DTLS role that is
definite never changes (`Extends`). -/
theorem run_ok {P : Kind → List Cap → Prop} (hP : PrefsOk P) : ∀ (ops : List Op) (s : Pc × Pc), Inv P s → (∀ op ∈ ops, op.Valid P) →
    ∃ s' exs, run s ops = .ok (s', exs) ∧ Inv P s' ∧ Extends s s' ∧ (∀ ex ∈ exs, ExGood ex) := by
  intro ops
  induction ops with
  | nil => intro s h _; exact ⟨s, [], rfl, h, Extends.refl s, by simp⟩
  | cons op ops ih =>
    intro s h hv
    obtain ⟨s1, e, h1, i1, x1, g1⟩ := step_ok hP h (hv op (by simp))
    obtain ⟨s2, es, h2, i2, x2, g2⟩ := ih s1 i1 (fun o ho => hv o (by simp [ho]))
    refine ⟨s2, e.toList ++ es, by simp [run, h1, h2], i2, x1.trans x2, ?_⟩
    intro ex hex
    rcases List.mem_append.mp hex with hh | hh
    · exact g1 ex hh
    · exact g2 ex hh

def Op.isNegotiate : Op → Bool
  | .negotiate _ => true
  | _ => false

theorem step_count {s s1 : Pc × Pc} {op : Op} {e : Option Exchange} (h : step s op = .ok (s1, e)) :
    e.toList.length = if op.isNegotiate then 1 else 0 := by
  cases op with
  | negotiate p =>
    cases p <;> simp only [step] at h <;> split at h <;> first | (cases h; rfl) | cases h
  | _ => simp_all [step, Op.isNegotiate]

/-- the number of exchanges performed is the number of `negotiate` operations: none is skipped -/
theorem run_count : ∀ (ops : List Op) (s s' : Pc × Pc) (exs : List Exchange), run s ops = .ok (s', exs) →
    exs.length = (ops.filter Op.isNegotiate).length := by
  intro ops
  induction ops with
  | nil => intro s s' exs h; simp [run] at h; simp [h.2.symm]
  | cons op ops ih =>
    intro s s' exs h
    simp only [run] at h
    split at h
    · rename_i s1 e h1
      split at h
      · rename_i s2 es h2
        cases h
        have h3 := ih s1 _ es h2
        have h4 := step_count h1
        simp only [List.length_append, h3, h4, List.filter_cons]
        cases op.isNegotiate <;> simp <;> omega
      · cases h
      · cases h
      · cases h
    · cases h
    · cases h
    · cases h

/-! ## instances with many sections

`allocate_mid` on the mids of an 11-, 12-, 13-, 20-, 30- and 101-section description: the next mid is the next number
(a "highest mid + 1" computed over the mid STRINGS would hand out "10" again after "9" and "10" exist, "100" after "99"). -/

def midsUpTo (n : Nat) : List String := (List.range n).map toString

example : (allocateMid (midsUpTo 10)).bind (fun r => .ok r.1) = .ok "10" := by decide +kernel
example : (allocateMid (midsUpTo 11)).bind (fun r => .ok r.1) = .ok "11" := by decide +kernel
example : (allocateMid (midsUpTo 12)).bind (fun r => .ok r.1) = .ok "12" := by decide +kernel
example : (allocateMid (midsUpTo 13)).bind (fun r => .ok r.1) = .ok "13" := by decide +kernel
example : (allocateMid (midsUpTo 20)).bind (fun r => .ok r.1) = .ok "20" := by decide +kernel
example : (allocateMid (midsUpTo 30)).bind (fun r => .ok r.1) = .ok "30" := by decide +kernel
example : (allocateMid (midsUpTo 101)).bind (fun r => .ok r.1) = .ok "101" := by decide +kernel
/-- remote mids that are not numbers are skipped over, holes are filled first (the scan starts at 0) -/
example : (allocateMid (["audio", "1", "0", "data", "3"] ++ midsUpTo 12)).bind (fun r => .ok r.1) = .ok "12" := by decide +kernel

/-- a conference: audio + video with tracks, a data channel, eleven more receive-only audio transceivers — 14 sections
at once, then a follow-up exchange offered by the OTHER side that adds one more -/
def bigScript : List Op :=
  [.addTrack false .audio, .addTrack false .video] ++ List.replicate 5 (.addTransceiver false .audio .recvonly false) ++
  [.createDataChannel false] ++ List.replicate 6 (.addTransceiver false .audio .recvonly false) ++
  [.negotiate false, .addTransceiver true .video .sendrecv true, .negotiate true]

/-- the script satisfies the hypotheses of `run_ok` (for any family `P`) -/
example (P : Kind → List Cap → Prop) : ∀ op ∈ bigScript, op.Valid P := by
  intro op h
  simp only [bigScript, List.replicate, List.cons_append, List.nil_append, List.mem_cons, List.not_mem_nil, or_false] at h
  rcases h with h | h | h | h | h | h | h | h | h | h | h | h | h | h | h | h | h <;> subst h <;> simp [Op.Valid, Kind.isMedia]

/-- ... and the model run: two exchanges, of 14 and 15 sections, mids "0" … "13" and "0" … "14" in order -/
example : (match run (Pc.new .balanced, Pc.new .balanced) bigScript with
    | .ok (_, exs) => exs.map (fun ex => (ex.offer.media.map (·.mid), ex.answer.media.map (·.mid)))
    | _ => []) = [(midsUpTo 14, midsUpTo 14), (midsUpTo 15, midsUpTo 15)] := by decide +kernel

end Aiortc.Props.C03
