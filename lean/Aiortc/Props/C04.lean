import Aiortc.Model.Dtls
import Aiortc.Lemmas.Dtls
set_option linter.unusedSimpArgs false
/-!
# C04 — DTLS connects only to the fingerprinted peer; both sides derive matching keys

Theorems about `Model/Dtls.lean` (the decision logic of `rtcdtlstransport.py`, fixed code), for ALL inputs.
What OpenSSL and libsrtp do (handshake soundness, equal exporter output, authentication) is NOT proved
here: their answers are inputs of the model (see `harness/props/C04.py` ASSUMPTIONS / TRUSTED_EXTRA).
-/
namespace Aiortc.Props.C04
open Aiortc Aiortc.Model.Dtls Aiortc.Lemmas.Dtls

/-- Pointwise relation between two lists of the same length (core Lean has no `List.Forall₂`). -/
inductive Rel₂ {α β : Type} (R : α → β → Prop) : List α → List β → Prop
  | nil : Rel₂ R [] []
  | cons {a b l₁ l₂} : R a b → Rel₂ R l₁ l₂ → Rel₂ R (a :: l₁) (b :: l₂)

theorem Rel₂.imp {α β : Type} {R S : α → β → Prop} (h : ∀ {a b}, R a b → S a b) {l₁ l₂} :
    Rel₂ R l₁ l₂ → Rel₂ S l₁ l₂ := by
  intro hr; induction hr with
  | nil => exact .nil
  | cons hab _ ih => exact .cons (h hab) ih

/-! ## 1. fingerprint policy -/

section policy
variable (lower fold : Str → Str) (algs : List Str) (digest : Str → Str)

/-- The policy of the property text: accepted ⇔ at least one fingerprint uses a supported hash and every
fingerprint with a supported hash matches the certificate digest (after case folding). -/
theorem fingerprint_policy (fps : List Fingerprint) :
    accepted lower fold algs digest fps = true ↔
      (∃ f ∈ fps, lower f.algorithm ∈ algs) ∧
      (∀ f ∈ fps, lower f.algorithm ∈ algs → fold f.value = fold (digest (lower f.algorithm))) := by
  unfold accepted
  rw [validateCounts_eq]
  have hle := good_le_sup lower fold algs digest fps
  have hiff := count_eq_iff lower fold algs digest fps
  have hpos : 0 < fps.countP (sup lower algs) ↔ ∃ f ∈ fps, lower f.algorithm ∈ algs := by
    rw [List.countP_pos_iff]; simp [sup]
  have hall : (∀ f ∈ fps, sup lower algs f = true → good lower fold algs digest f = true) ↔
      (∀ f ∈ fps, lower f.algorithm ∈ algs → fold f.value = fold (digest (lower f.algorithm))) := by
    constructor
    · intro h f hf hs
      have := h f hf (by simp [sup, hs])
      simp only [good, Bool.and_eq_true, decide_eq_true_eq] at this
      exact this.2
    · intro h f hf hs
      simp only [sup, decide_eq_true_eq] at hs
      simp [good, hs, h f hf hs]
  rw [← hpos, ← hall, ← hiff]
  simp only [Bool.not_eq_true', Bool.or_eq_false_iff, beq_eq_false_iff_ne, ne_eq, bne_eq_false_iff_eq]
  omega

/-- An empty list, or a list without any supported hash, is rejected. -/
theorem rejected_without_supported (fps : List Fingerprint)
    (h : ∀ f ∈ fps, lower f.algorithm ∉ algs) : accepted lower fold algs digest fps = false := by
  rw [Bool.eq_false_iff]; intro hacc
  obtain ⟨⟨f, hf, hs⟩, _⟩ := (fingerprint_policy lower fold algs digest fps).1 hacc
  exact h f hf hs

theorem empty_rejected : accepted lower fold algs digest [] = false :=
  rejected_without_supported lower fold algs digest [] (by simp)

/-- One supported fingerprint that does not match is enough to reject, whatever else is in the list. -/
theorem rejected_on_mismatch (fps : List Fingerprint) (f : Fingerprint) (hf : f ∈ fps)
    (hs : lower f.algorithm ∈ algs) (hne : fold f.value ≠ fold (digest (lower f.algorithm))) :
    accepted lower fold algs digest fps = false := by
  rw [Bool.eq_false_iff]; intro hacc
  exact hne (((fingerprint_policy lower fold algs digest fps).1 hacc).2 f hf hs)

/-- Order does not matter. -/
theorem accepted_perm {fps gps : List Fingerprint} (h : fps.Perm gps) :
    accepted lower fold algs digest fps = accepted lower fold algs digest gps := by
  rw [Bool.eq_iff_iff, fingerprint_policy, fingerprint_policy]
  constructor
  · rintro ⟨⟨f, hf, hs⟩, hall⟩
    exact ⟨⟨f, h.mem_iff.1 hf, hs⟩, fun g hg => hall g (h.mem_iff.2 hg)⟩
  · rintro ⟨⟨f, hf, hs⟩, hall⟩
    exact ⟨⟨f, h.mem_iff.2 hf, hs⟩, fun g hg => hall g (h.mem_iff.1 hg)⟩

/-- Any recasing: replacing every entry by one whose algorithm name lower-cases to the same string and
whose value folds to the same string does not change the decision. -/
theorem accepted_recase {fps gps : List Fingerprint}
    (h : Rel₂ (fun f g => lower f.algorithm = lower g.algorithm ∧ fold f.value = fold g.value) fps gps) :
    accepted lower fold algs digest fps = accepted lower fold algs digest gps := by
  unfold accepted
  rw [validateCounts_eq, validateCounts_eq]
  have h12 : fps.countP (sup lower algs) = gps.countP (sup lower algs) ∧
      fps.countP (good lower fold algs digest) = gps.countP (good lower fold algs digest) := by
    induction h with
    | nil => exact ⟨rfl, rfl⟩
    | cons hab _ ih =>
      have e1 : ∀ a b : Fingerprint, lower a.algorithm = lower b.algorithm →
          sup lower algs a = sup lower algs b := by intro a b h; simp only [sup, h]
      have e2 : ∀ a b : Fingerprint, lower a.algorithm = lower b.algorithm → fold a.value = fold b.value →
          good lower fold algs digest a = good lower fold algs digest b := by
        intro a b h h'; simp only [good, h, h']
      rw [List.countP_cons, List.countP_cons, List.countP_cons, List.countP_cons, ih.1, ih.2,
        e1 _ _ hab.1, e2 _ _ hab.1 hab.2]
      exact ⟨rfl, rfl⟩
  obtain ⟨h1, h2⟩ := h12
  rw [h1, h2]

/-- Entries with an unsupported hash are irrelevant: adding or removing them anywhere changes nothing. -/
theorem accepted_unsupported_irrelevant (l₁ l₂ : List Fingerprint) (u : Fingerprint)
    (hu : lower u.algorithm ∉ algs) :
    accepted lower fold algs digest (l₁ ++ u :: l₂) = accepted lower fold algs digest (l₁ ++ l₂) := by
  unfold accepted
  rw [validateCounts_eq, validateCounts_eq]
  have hs : sup lower algs u = false := by simp [sup, hu]
  have hg : good lower fold algs digest u = false := by simp [good, hu]
  simp [List.countP_append, List.countP_cons, hs, hg]

theorem accepted_filter_supported (fps : List Fingerprint) :
    accepted lower fold algs digest (fps.filter (sup lower algs)) = accepted lower fold algs digest fps := by
  rw [Bool.eq_iff_iff, fingerprint_policy, fingerprint_policy]
  simp only [List.mem_filter, sup, decide_eq_true_eq]
  constructor
  · rintro ⟨⟨f, ⟨hf, _⟩, hs⟩, hall⟩
    exact ⟨⟨f, hf, hs⟩, fun g hg hs => hall g ⟨hg, hs⟩ hs⟩
  · rintro ⟨⟨f, hf, hs⟩, hall⟩
    exact ⟨⟨f, ⟨hf, hs⟩, hs⟩, fun g hg hs => hall g hg.1 hs⟩

end policy

/-! ### the concrete instantiation (ASCII folding, regenerated algorithm table) -/

/-- The supported hashes are exactly the three of the property text (breaks if the table changes). -/
theorem algs_const : ALGS = [strOf "sha-256", strOf "sha-384", strOf "sha-512"] := by decide

theorem algs_codepoints : ALGS =
    [[115, 104, 97, 45, 50, 53, 54], [115, 104, 97, 45, 51, 56, 52], [115, 104, 97, 45, 53, 49, 50]] := by
  decide

theorem fingerprint_policy_real (dg : Digests) (fps : List Fingerprint) :
    acceptedReal dg fps = true ↔
      (∃ f ∈ fps, asciiLower f.algorithm ∈ ALGS) ∧
      (∀ f ∈ fps, asciiLower f.algorithm ∈ ALGS →
        asciiLower f.value = asciiLower (digestOf dg (asciiLower f.algorithm))) :=
  fingerprint_policy asciiLower asciiLower ALGS (digestOf dg) fps

theorem algs_lower_fixed : ∀ a ∈ ALGS, asciiLower a = a := by decide

/-- Round trip between the two ends: what `getFingerprints()` signals for a certificate is accepted by the policy
for that very certificate — for all digests (stateless: it depends on nothing but the certificate's digests). -/
theorem local_fingerprints_accepted (dg : Digests) : acceptedReal dg (localFingerprints dg) = true := by
  rw [fingerprint_policy_real]
  constructor
  · refine ⟨⟨strOf "sha-256", digestOf dg (strOf "sha-256")⟩, ?_,
      (by decide : asciiLower (strOf "sha-256") ∈ ALGS)⟩
    unfold localFingerprints
    rw [algs_const]
    simp
  · intro f hf _
    unfold localFingerprints at hf
    obtain ⟨a, ha, rfl⟩ := List.mem_map.1 hf
    simp only
    rw [algs_lower_fixed a ha]


theorem lowerC_idem (c : Nat) : lowerC (lowerC c) = lowerC c := by grind [lowerC]
theorem lowerC_upperC (c : Nat) : lowerC (upperC c) = lowerC c := by
  grind [lowerC, upperC]
theorem asciiLower_idem (s : Str) : asciiLower (asciiLower s) = asciiLower s := by
  simp [asciiLower, lowerC_idem]
theorem asciiLower_asciiUpper (s : Str) : asciiLower (asciiUpper s) = asciiLower s := by
  simp [asciiLower, asciiUpper, lowerC_upperC]

/-- A per-character recasing: each character is kept, upper-cased or lower-cased (ASCII). -/
def Recased (s s' : Str) : Prop := Rel₂ (fun c c' => c' = c ∨ c' = upperC c ∨ c' = lowerC c) s s'

theorem asciiLower_recased {s s' : Str} (h : Recased s s') : asciiLower s = asciiLower s' := by
  unfold Recased at h
  induction h with
  | nil => rfl
  | cons hc _ ih =>
    simp only [asciiLower, List.map_cons, List.cons.injEq] at *
    refine ⟨?_, ih⟩
    rcases hc with h | h | h <;> subst h
    · rfl
    · exact (lowerC_upperC _).symm
    · exact (lowerC_idem _).symm

/-- Upper / lower / mixed case of algorithm names and of values does not change the decision. -/
theorem accepted_ascii_recase (dg : Digests) {fps gps : List Fingerprint}
    (h : Rel₂ (fun f g => Recased f.algorithm g.algorithm ∧ Recased f.value g.value) fps gps) :
    acceptedReal dg fps = acceptedReal dg gps := by
  apply accepted_recase
  exact h.imp (fun hfg => ⟨asciiLower_recased hfg.1, asciiLower_recased hfg.2⟩)

example : acceptedReal [(strOf "sha-256", [0xAB, 0x01])]
    [⟨strOf "SHA-256", strOf "ab:01"⟩, ⟨strOf "sha-1", strOf "zz"⟩] = true := by decide
example : acceptedReal [(strOf "sha-256", [0xAB, 0x01]), (strOf "sha-384", [0xCD])]
    [⟨strOf "sha-256", strOf "AB:01"⟩, ⟨strOf "sha-384", strOf "CE"⟩] = false := by decide
example : acceptedReal [(strOf "sha-256", [0xAB, 0x01])] [⟨strOf "sha-1", strOf "AB:01"⟩] = false := by decide

/-! ### the textual fingerprint determines the digest -/

def hexLow (n : Nat) : Nat := lowerC (hexUp n)

theorem hexLow_inj (n m : Nat) (hn : n < 16) (hm : m < 16) (h : hexLow n = hexLow m) : n = m := by
  unfold hexLow lowerC hexUp at h
  grind

theorem hexLow_ne_colon (n : Nat) (hn : n < 16) : hexLow n ≠ 58 := by
  unfold hexLow lowerC hexUp
  grind

theorem byte_eq (x y : Nat) (hx : x < 256) (hy : y < 256)
    (h1 : hexLow (x / 16 % 16) = hexLow (y / 16 % 16)) (h2 : hexLow (x % 16) = hexLow (y % 16)) : x = y := by
  have a := hexLow_inj _ _ (Nat.mod_lt _ (by omega)) (Nat.mod_lt _ (by omega)) h1
  have b := hexLow_inj _ _ (Nat.mod_lt _ (by omega)) (Nat.mod_lt _ (by omega)) h2
  omega

theorem lower_colonHex_nil : asciiLower (colonHex []) = [] := rfl
theorem lower_colonHex_one (x : Nat) : asciiLower (colonHex [x]) = [hexLow (x / 16 % 16), hexLow (x % 16)] := rfl
theorem lower_colonHex_cons (x y : Nat) (r : Bytes) :
    asciiLower (colonHex (x :: y :: r)) =
      hexLow (x / 16 % 16) :: hexLow (x % 16) :: 58 :: asciiLower (colonHex (y :: r)) := by
  simp [colonHex, asciiLower, byteHex, hexLow, lowerC]

theorem lower_colonHex_length_pos (y : Nat) (r : Bytes) : 2 ≤ (asciiLower (colonHex (y :: r))).length := by
  cases r with
  | nil => simp [lower_colonHex_one]
  | cons z r => simp [lower_colonHex_cons]

/-- The (case-folded) textual fingerprint determines the digest bytes. -/
theorem lower_colonHex_injective (a b : Bytes) (ha : IsBytes a) (hb : IsBytes b)
    (h : asciiLower (colonHex a) = asciiLower (colonHex b)) : a = b := by
  induction a generalizing b with
  | nil =>
    cases b with
    | nil => rfl
    | cons y r =>
      have := lower_colonHex_length_pos y r
      rw [← h] at this; simp [lower_colonHex_nil] at this
  | cons x a ih =>
    cases b with
    | nil =>
      have := lower_colonHex_length_pos x a
      rw [h] at this; simp [lower_colonHex_nil] at this
    | cons y b =>
      have hx : x < 256 := ha x (by simp)
      have hy : y < 256 := hb y (by simp)
      have ha' : IsBytes a := fun z hz => ha z (by simp [hz])
      have hb' : IsBytes b := fun z hz => hb z (by simp [hz])
      cases a with
      | nil =>
        cases b with
        | nil =>
          simp only [lower_colonHex_one, List.cons.injEq, and_true] at h
          rw [byte_eq x y hx hy h.1 h.2]
        | cons y' b =>
          rw [lower_colonHex_one, lower_colonHex_cons] at h
          simp at h
      | cons x' a =>
        cases b with
        | nil =>
          rw [lower_colonHex_one, lower_colonHex_cons] at h
          simp at h
        | cons y' b =>
          rw [lower_colonHex_cons, lower_colonHex_cons] at h
          simp only [List.cons.injEq, true_and] at h
          rw [byte_eq x y hx hy h.1 h.2.1, ih (y' :: b) ha' hb' h.2.2]

/-- **only the fingerprinted certificate**: if the same signalled list is accepted for two peer certificates,
then for every listed supported hash (and there is at least one) the two certificates have the same digest
bytes. (That equal SHA-2 digests mean equal certificates is collision resistance — trusted.) -/
theorem accepted_pins_digest (dg dg' : Digests) (fps : List Fingerprint)
    (h1 : acceptedReal dg fps = true) (h2 : acceptedReal dg' fps = true) :
    (∃ f ∈ fps, asciiLower f.algorithm ∈ ALGS) ∧
    ∀ f ∈ fps, asciiLower f.algorithm ∈ ALGS → ∀ b b',
      dg.lookup (asciiLower f.algorithm) = some b → dg'.lookup (asciiLower f.algorithm) = some b' →
      IsBytes b → IsBytes b' → b = b' := by
  obtain ⟨hex, hall⟩ := (fingerprint_policy_real dg fps).1 h1
  obtain ⟨_, hall'⟩ := (fingerprint_policy_real dg' fps).1 h2
  refine ⟨hex, ?_⟩
  intro f hf hs b b' hb hb' ib ib'
  have e1 := hall f hf hs
  have e2 := hall' f hf hs
  simp only [digestOf, hb, hb'] at e1 e2
  exact lower_colonHex_injective b b' ib ib' (e1.symm.trans e2)

/-! ## 2. SRTP keys: RFC 5764 partition and mirror image -/

/-- The profile table is the one of the property's anchors (breaks if a length changes). -/
theorem srtp_profiles_const : TABLE =
    [⟨"SRTP_AEAD_AES_256_GCM", 32, 12⟩, ⟨"SRTP_AEAD_AES_128_GCM", 16, 12⟩, ⟨"SRTP_AES128_CM_SHA1_80", 16, 14⟩] := by
  decide

/-- The four slices partition the keying material in the RFC 5764 order
`client_key | server_key | client_salt | server_salt`; index 0 is the client's key‖salt, index 1 the server's. -/
theorem keys_partition (k s : Nat) (m : Bytes) (hm : m.length = 2 * (k + s)) :
    ∃ ck sk cs ss : Bytes,
      ck.length = k ∧ sk.length = k ∧ cs.length = s ∧ ss.length = s ∧
      m = ck ++ sk ++ cs ++ ss ∧
      getKeyAndSalt k s m 0 = ck ++ cs ∧ getKeyAndSalt k s m 1 = sk ++ ss := by
  refine ⟨m.take k, (m.drop k).take k, (m.drop (2 * k)).take s, (m.drop (2 * k + s)).take s, ?_⟩
  refine ⟨by simp; omega, by simp; omega, by simp; omega, by simp; omega, ?_, ?_, ?_⟩
  · have h4 : (m.drop (2 * k + s)).take s = m.drop (2 * k + s) := by
      apply List.take_of_length_le; simp; omega
    rw [h4]
    have e1 : m.drop (2 * k) = (m.drop k).drop k := by rw [List.drop_drop]; congr 1; omega
    have e2 : m.drop (2 * k + s) = (m.drop (2 * k)).drop s := by rw [List.drop_drop]
    rw [e2, List.append_assoc, List.take_append_drop, e1, List.append_assoc, List.take_append_drop,
      List.take_append_drop]
  · simp [getKeyAndSalt, slice, List.take_drop]
  · simp only [getKeyAndSalt, slice, Nat.one_mul]
    congr 1
    · rw [← List.take_drop]
    · rw [← List.take_drop]

theorem getKeyAndSalt_length (k s : Nat) (m : Bytes) (hm : m.length = 2 * (k + s)) (idx : Nat) (hi : idx < 2) :
    (getKeyAndSalt k s m idx).length = k + s := by
  obtain ⟨ck, sk, cs, ss, h1, h2, h3, h4, _, h0, h1'⟩ := keys_partition k s m hm
  have : idx = 0 ∨ idx = 1 := by omega
  rcases this with h | h <;> subst h
  · rw [h0]; simp [*]
  · rw [h1']; simp [*]

/-- Mirror image, for every profile and every keying material: what the client sends with, the server
receives with, and vice versa. (`auto` never reaches `_setup_srtp`: `start()` resolves it; it would behave
as `client`.) -/
theorem keys_mirror (p : Profile) (m : Bytes) :
    (deriveKeys .client p m).tx = (deriveKeys .server p m).rx ∧
    (deriveKeys .server p m).tx = (deriveKeys .client p m).rx ∧
    (deriveKeys .client p m).profile = (deriveKeys .server p m).profile := by
  simp [deriveKeys]

/-- For every profile of the regenerated table and keying material of the requested length: keys have the
length libsrtp expects (key + salt), mirror each other, and client and server keys together are a
rearrangement of the whole material (nothing shared, nothing dropped). -/
theorem keys_mirror_table (p : Profile) (_hp : p ∈ TABLE) (m : Bytes) (hm : m.length = exportLen p) :
    let c := deriveKeys .client p m
    let s := deriveKeys .server p m
    c.tx = s.rx ∧ s.tx = c.rx ∧ c.tx.length = p.keyLen + p.saltLen ∧ s.tx.length = p.keyLen + p.saltLen ∧
    ∃ ck sk cs ss : Bytes, m = ck ++ sk ++ cs ++ ss ∧ c.tx = ck ++ cs ∧ s.tx = sk ++ ss ∧
      ck.length = p.keyLen ∧ sk.length = p.keyLen ∧ cs.length = p.saltLen ∧ ss.length = p.saltLen := by
  unfold exportLen at hm
  obtain ⟨ck, sk, cs, ss, h1, h2, h3, h4, hm', h0, h1'⟩ := keys_partition p.keyLen p.saltLen m hm
  simp only [deriveKeys, if_true, reduceCtorEq, if_false]
  refine ⟨trivial, trivial, getKeyAndSalt_length _ _ _ hm 0 (by omega), getKeyAndSalt_length _ _ _ hm 1 (by omega),
    ck, sk, cs, ss, hm', h0, h1', h1, h2, h3, h4⟩

/-- Literal instance: AES128_CM_SHA1_80 asks for 60 bytes and uses 30-byte keys. -/
example : ∀ p ∈ TABLE, exportLen p ∈ [88, 56, 60] := by decide

/-- `_setup_srtp` succeeds iff the profile OpenSSL selected is one of the local list; it then uses the
lengths of that very profile. -/
theorem setupSrtp_some_iff (role : Role) (ps : List Profile) (sel : String) (m : Bytes) :
    (setupSrtp role ps sel m).isSome = true ↔ ∃ p ∈ ps, p.name = sel := by
  unfold setupSrtp findProfile
  cases h : ps.find? (fun p => p.name == sel) with
  | none =>
    simp only [Option.isSome_none, Bool.false_eq_true, false_iff, not_exists, not_and]
    intro p hp hn
    have := List.find?_eq_none.1 h p hp
    simp [hn] at this
  | some p =>
    simp only [Option.isSome_some, true_iff]
    exact ⟨p, List.mem_of_find?_eq_some h, by simpa using List.find?_some h⟩

theorem setupSrtp_profile (role : Role) (ps : List Profile) (sel : String) (m : Bytes) (k : Keys)
    (h : setupSrtp role ps sel m = some k) :
    k.profile ∈ ps ∧ k.profile.name = sel ∧ k = deriveKeys role k.profile m := by
  unfold setupSrtp findProfile at h
  cases hf : ps.find? (fun p => p.name == sel) with
  | none => simp [hf] at h
  | some p =>
    simp only [hf, Option.some.injEq] at h
    subst h
    have hp : (deriveKeys role p m).profile = p := by unfold deriveKeys; split <;> rfl
    rw [hp]
    exact ⟨List.mem_of_find?_eq_some hf, by simpa using List.find?_some hf, rfl⟩

/-! ## 3. the `start()` / pump automaton -/

def isDelivery : Eff → Bool
  | .deliverData _ | .deliverRtp _ | .deliverRtcp _ => true
  | _ => false

def isSent : Eff → Bool
  | .sentData _ | .sentRtp _ | .sentRtcp _ => true
  | _ => false

/-- In the history `evs` the transport `t` passed all three gates: `start()` was called with fingerprints
`fps`, the handshake completed with a peer certificate whose digests `dg` the policy accepts for `fps`,
OpenSSL selected a profile of the local list, and the SRTP sessions are keyed from the exported material
according to the role. -/
def Validated (evs : List Ev) (t : T) : Prop :=
  ∃ fps ice dg sel mat p, Ev.start fps ice ∈ evs ∧ Ev.hsOk dg sel mat ∈ evs ∧
    acceptedReal dg fps = true ∧ findProfile t.profiles sel = some p ∧
    t.srtp = some (deriveKeys t.role p mat)

/-- Invariant of every reachable transport (with its history). -/
structure Inv (evs : List Ev) (t : T) : Prop where
  hs : t.handshaking = true → t.state = .connecting ∧ ∃ ice, Ev.start t.fps ice ∈ evs
  quiet : t.state ≠ .connected → t.state ≠ .closed → t.srtp = none ∧ t.pumping = false
  valid : t.state = .connected ∨ t.state = .closed → Validated evs t
  pump : t.pumping = true → t.state = .connected

theorem Validated.mono {evs : List Ev} {t : T} (e : Ev) (h : Validated evs t) : Validated (evs ++ [e]) t := by
  obtain ⟨fps, ice, dg, sel, mat, p, h1, h2, h3⟩ := h
  exact ⟨fps, ice, dg, sel, mat, p, List.mem_append_left _ h1, List.mem_append_left _ h2, h3⟩

theorem Validated.congr {evs : List Ev} {t t' : T} (hp : t'.profiles = t.profiles) (hr : t'.role = t.role)
    (hs : t'.srtp = t.srtp) (h : Validated evs t) : Validated evs t' := by
  obtain ⟨fps, ice, dg, sel, mat, p, h1, h2, h3, h4, h5⟩ := h
  exact ⟨fps, ice, dg, sel, mat, p, h1, h2, h3, by rw [hp]; exact h4, by rw [hs, hr]; exact h5⟩

theorem Inv.mono {evs : List Ev} {t : T} (e : Ev) (h : Inv evs t) : Inv (evs ++ [e]) t where
  hs := fun hh => ⟨(h.hs hh).1, (h.hs hh).2.elim fun ice hi => ⟨ice, List.mem_append_left _ hi⟩⟩
  quiet := h.quiet
  valid := fun hv => (h.valid hv).mono e
  pump := h.pump

theorem inv_init (ps : List Profile) (dr : Bool) (role : Role) : Inv [] (init ps dr role) where
  hs := by simp [init]
  quiet := by simp [init]
  valid := by simp [init]
  pump := by simp [init]

/-- `_recv_next` never delivers application data outside CONNECTED, never delivers RTP/RTCP before the SRTP
sessions exist, and only delivers what OpenSSL / libsrtp authenticated and returned. -/
theorem recvNext_delivery (t : T) (d : RecvIn) (effs : List Eff) (h : recvNext t d = .ok effs) (e : Eff)
    (he : e ∈ effs) :
    (∃ data ssl srtp x, d = .pkt data ssl srtp ∧
      ((e = .deliverData x ∧ ssl = .data x ∧ x ≠ [] ∧ t.state = .connected ∧ t.hasDataReceiver = true) ∨
       ((e = .deliverRtp x ∨ e = .deliverRtcp x) ∧ srtp = .ok x ∧ t.srtp.isSome = true))) := by
  unfold recvNext at h
  split at h
  · simp only [RecvOut.ok.injEq] at h; subst h; simp at he
  · simp at h
  · simp at h
  · rename_i b rest ssl srtp
    split at h
    · split at h
      · simp at h
      · simp at h
      · simp only [RecvOut.ok.injEq] at h; subst h; simp at he
      · rename_i x
        split at h
        · rename_i hc
          simp only [RecvOut.ok.injEq] at h; subst h
          simp only [List.mem_singleton] at he
          exact ⟨_, _, _, x, rfl, Or.inl ⟨he, rfl, hc.1, hc.2.2, hc.2.1⟩⟩
        · simp only [RecvOut.ok.injEq] at h; subst h; simp at he
    · split at h
      · rename_i hc
        split at h
        · simp at h
        · simp only [RecvOut.ok.injEq] at h; subst h; simp at he
        · rename_i x
          split at h
          · simp only [RecvOut.ok.injEq] at h; subst h
            simp only [List.mem_singleton] at he
            exact ⟨_, _, _, x, rfl, Or.inr ⟨Or.inr he, rfl, hc.2.2⟩⟩
          · simp only [RecvOut.ok.injEq] at h; subst h
            simp only [List.mem_singleton] at he
            exact ⟨_, _, _, x, rfl, Or.inr ⟨Or.inl he, rfl, hc.2.2⟩⟩
      · simp only [RecvOut.ok.injEq] at h; subst h; simp at he

/-- Packets that fail authentication (DTLS record MAC → `SSL.Error`; SRTP tag → `pylibsrtp.Error`) are
dropped: nothing is delivered and nothing else happens. -/
theorem recvNext_auth_failure_drops (t : T) (data : Bytes) (hne : data ≠ []) :
    recvNext t (.pkt data .error .fail) = .ok [] := by
  cases data with
  | nil => exact absurd rfl hne
  | cons b rest =>
    simp only [recvNext]
    split
    · rfl
    · split <;> rfl

/-- The invariant is preserved by every event (the history grows by that event). -/
theorem inv_step {evs : List Ev} {t : T} (h : Inv evs t) (e : Ev) : Inv (evs ++ [e]) (step t e).1 := by
  cases e with
  | start fps ice =>
    simp only [step]
    split
    · exact h.mono _
    · rename_i hn
      have hnew : t.state = .new := by simpa using hn
      have hq := h.quiet (by simp [hnew]) (by simp [hnew])
      exact { hs := fun _ => ⟨rfl, ice, by simp⟩, quiet := fun _ _ => hq, valid := by simp,
              pump := by simp [hq.2] }
  | hsWant d =>
    simp only [step]
    split
    · rename_i hc
      have hst := (h.hs hc.1).1
      have hq := h.quiet (by simp [hst]) (by simp [hst])
      split
      · exact h.mono _
      · exact { hs := by simp, quiet := fun _ _ => hq, valid := by simp, pump := by simp [hq.2] }
      · exact { hs := by simp, quiet := fun _ _ => hq, valid := by simp [hst], pump := by simp [hq.2] }
      · exact h.mono _
    · exact h.mono _
  | hsError =>
    simp only [step]
    split
    · rename_i hc
      have hst := (h.hs hc.1).1
      have hq := h.quiet (by simp [hst]) (by simp [hst])
      exact { hs := by simp, quiet := fun _ _ => hq, valid := by simp, pump := by simp [hq.2] }
    · exact h.mono _
  | hsOk dg sel mat =>
    simp only [step]
    split
    · rename_i hc
      obtain ⟨hst, ice, hstart⟩ := h.hs hc.1
      have hq := h.quiet (by simp [hst]) (by simp [hst])
      split
      · exact { hs := by simp, quiet := fun _ _ => hq, valid := by simp, pump := by simp [hq.2] }
      · rename_i hacc
        split
        · exact { hs := by simp, quiet := fun _ _ => hq, valid := by simp, pump := by simp [hq.2] }
        · rename_i p hp
          refine { hs := by simp, quiet := by simp, valid := fun _ => ?_, pump := by simp }
          exact ⟨t.fps, ice, dg, sel, mat, p, List.mem_append_left _ hstart, by simp,
            by simpa using hacc, hp, rfl⟩
    · exact h.mono _
  | pump d =>
    simp only [step]
    split
    · rename_i hc
      have hst := h.pump hc
      have hv := h.valid (Or.inl hst)
      split
      · exact h.mono _
      · exact { hs := fun hh => absurd (h.hs hh).1 (by rw [hst]; simp), quiet := by simp, pump := by simp,
                valid := fun _ => (hv.mono _).congr rfl rfl rfl }
      · exact { hs := fun hh => absurd (h.hs hh).1 (by rw [hst]; simp), quiet := by simp, pump := by simp,
                valid := fun _ => (hv.mono _).congr rfl rfl rfl }
      · exact h.mono _
    · exact h.mono _
  | sendData d err =>
    simp only [step]
    split
    · exact h.mono _
    · split <;> exact h.mono _
  | sendRtp d pok =>
    simp only [step]
    split
    · exact h.mono _
    · split <;> exact h.mono _
  | stop =>
    simp only [step]
    split
    · exact h.mono _
    · split
      · rename_i hc
        have hst := h.pump hc
        have hv := h.valid (Or.inl hst)
        exact { hs := fun hh => absurd (h.hs hh).1 (by rw [hst]; simp), quiet := by simp, pump := by simp,
                valid := fun _ => (hv.mono _).congr rfl rfl rfl }
      · exact h.mono _

theorem run_append (t : T) (a b : List Ev) :
    run t (a ++ b) = ((run (run t a).1 b).1, (run t a).2 ++ (run (run t a).1 b).2) := by
  induction a generalizing t with
  | nil => simp [run]
  | cons e es ih => simp only [List.cons_append, run, ih, List.append_assoc]

theorem inv_run {pre : List Ev} {t : T} (h : Inv pre t) (evs : List Ev) : Inv (pre ++ evs) (run t evs).1 := by
  induction evs generalizing pre t with
  | nil => simpa [run] using h
  | cons e es ih =>
    have := ih (inv_step h e)
    simpa [run, List.append_assoc] using this

/-- Every reachable transport satisfies the invariant w.r.t. its own history. -/
theorem inv_reachable (ps : List Profile) (dr : Bool) (role : Role) (evs : List Ev) :
    Inv evs (run (init ps dr role) evs).1 := by
  simpa using inv_run (inv_init ps dr role) evs

/-- **connected only if**: in every run, the transport is CONNECTED (or has been: CLOSED) only if `start()`
was called with fingerprints that the policy accepts for the certificate the handshake completed with, and
OpenSSL selected a profile of the local list; its SRTP keys are then the role's slices of the exporter. -/
theorem connected_only_if (ps : List Profile) (dr : Bool) (role : Role) (evs : List Ev)
    (h : (run (init ps dr role) evs).1.state = .connected ∨ (run (init ps dr role) evs).1.state = .closed) :
    Validated evs (run (init ps dr role) evs).1 :=
  (inv_reachable ps dr role evs).valid h

/-- SRTP sessions exist only after all three gates. -/
theorem srtp_only_after_setup (ps : List Profile) (dr : Bool) (role : Role) (evs : List Ev)
    (h : (run (init ps dr role) evs).1.srtp.isSome = true) :
    Validated evs (run (init ps dr role) evs).1 := by
  have inv := inv_reachable ps dr role evs
  by_cases h1 : (run (init ps dr role) evs).1.state = .connected
  · exact inv.valid (Or.inl h1)
  · by_cases h2 : (run (init ps dr role) evs).1.state = .closed
    · exact inv.valid (Or.inr h2)
    · have := (inv.quiet h1 h2).1
      simp [this] at h

/-- The only transition into CONNECTED: a completed handshake on a transport that is inside `start()`, with
accepted fingerprints and a selected profile from the local list. -/
theorem step_to_connected (t : T) (e : Ev) (h0 : t.state ≠ .connected) (h1 : (step t e).1.state = .connected) :
    ∃ dg sel mat p, e = .hsOk dg sel mat ∧ t.handshaking = true ∧ acceptedReal dg t.fps = true ∧
      findProfile t.profiles sel = some p ∧ (step t e).1.srtp = some (deriveKeys t.role p mat) := by
  cases e with
  | start fps ice => simp only [step] at h1; split at h1 <;> simp_all
  | hsWant d =>
    simp only [step] at h1
    split at h1
    · split at h1 <;> simp_all
    · simp_all
  | hsError => simp only [step] at h1; split at h1 <;> simp_all
  | hsOk dg sel mat =>
    simp only [step] at h1 ⊢
    split at h1
    · rename_i hc
      rw [if_pos hc]
      split at h1
      · simp at h1
      · rename_i hacc
        rw [if_neg hacc]
        split at h1
        · simp at h1
        · rename_i p hp
          exact ⟨dg, sel, mat, p, rfl, hc.1, by simpa using hacc, hp, by simp [hp]⟩
    · simp_all
  | pump d =>
    simp only [step] at h1
    split at h1
    · split at h1 <;> simp_all
    · simp_all
  | sendData d err =>
    simp only [step] at h1
    split at h1 <;> (try split at h1) <;> simp_all
  | sendRtp d pok =>
    simp only [step] at h1
    split at h1 <;> (try split at h1) <;> simp_all
  | stop =>
    simp only [step] at h1
    split at h1 <;> (try split at h1) <;> simp_all

/-- `_send_data` / `_send_rtp` refuse (ConnectionError) unless CONNECTED, and change nothing. -/
theorem send_refused_unless_connected (t : T) (d : Bytes) (h : t.state ≠ .connected) :
    (∀ err, step t (.sendData d err) = (t, [.refused])) ∧ ∀ pok, step t (.sendRtp d pok) = (t, [.refused]) := by
  simp [step, h]

/-- `_send_rtp` never changes the transport, whether or not libsrtp accepts the packet; when `protect` refuses
it the exception is visible to the caller (it is not a silent loss). -/
theorem sendRtp_state_unchanged (t : T) (d : Bytes) (pok : Bool) : (step t (.sendRtp d pok)).1 = t := by
  simp only [step]; split <;> (try split) <;> rfl

theorem sendRtp_protect_failure_visible (t : T) (d : Bytes) (h : t.state = .connected) :
    Eff.raised "Error" ∈ (step t (.sendRtp d false)).2 := by
  simp only [step, h, ne_eq, not_true_eq_false, ↓reduceIte, Bool.false_eq_true]
  split <;> simp

/-- `_send_data` never changes the transport, whatever OpenSSL answers; when `SSL.Connection.send` refuses the
message (empty, or longer than a DTLS record can be) the exception reaches the caller: not a silent loss. -/
theorem sendData_state_unchanged (t : T) (d : Bytes) (err : Option String) :
    (step t (.sendData d err)).1 = t := by
  simp only [step]; split <;> (try split) <;> rfl

theorem sendData_ssl_failure_visible (t : T) (d : Bytes) (k : String) (h : t.state = .connected) :
    Eff.raised k ∈ (step t (.sendData d (some k))).2 := by
  simp [step, h]

example : (step { (init [] true .client) with state := .connected } (.sendData [] (some "SysCallError"))).2 =
    [.sentData [], .raised "SysCallError"] := by decide

/-- Under the invariant, whatever is handed to a data / RTP / RTCP receiver or sent as application data /
SRTP in a step, the transport was CONNECTED when the step began. -/
theorem step_payload_connected {evs : List Ev} {t : T} (h : Inv evs t) (e : Ev) (eff : Eff)
    (he : eff ∈ (step t e).2) (hp : isDelivery eff = true ∨ isSent eff = true) : t.state = .connected := by
  have key : ∀ d effs, (t.handshaking = true ∨ t.pumping = true) → recvNext t d = .ok effs → eff ∈ effs →
      t.state = .connected := by
    intro d effs hc hr hm
    rcases hc with hh | hpump
    · have hst := (h.hs hh).1
      have hq := h.quiet (by simp [hst]) (by simp [hst])
      obtain ⟨data, ssl, srtp, x, _, hcase⟩ := recvNext_delivery t d effs hr eff hm
      rcases hcase with ⟨_, _, _, hst', _⟩ | ⟨_, _, hsome⟩
      · exact hst'
      · simp [hq.1] at hsome
    · exact h.pump hpump
  cases e with
  | start fps ice =>
    simp only [step] at he
    split at he
    · simp at he; subst he; simp [isDelivery, isSent] at hp
    · simp at he; rcases he with he | he <;> subst he <;> simp [isDelivery, isSent] at hp
  | hsWant d =>
    simp only [step] at he
    split at he
    · rename_i hc
      split at he
      · rename_i effs hr
        exact key d effs (Or.inl hc.1) hr he
      all_goals (simp at he; subst he; simp [isDelivery, isSent] at hp)
    · simp at he; subst he; simp [isDelivery, isSent] at hp
  | hsError =>
    simp only [step] at he
    split at he <;> simp at he <;> subst he <;> simp [isDelivery, isSent] at hp
  | hsOk dg sel mat =>
    simp only [step] at he
    split at he
    · split at he
      · simp at he; subst he; simp [isDelivery, isSent] at hp
      · split at he
        · simp at he; subst he; simp [isDelivery, isSent] at hp
        · simp at he
          rcases he with he | he | he <;> subst he <;> simp [isDelivery, isSent] at hp
    · simp at he; subst he; simp [isDelivery, isSent] at hp
  | pump d =>
    simp only [step] at he
    split at he
    · rename_i hc
      exact h.pump hc
    · simp at he; subst he; simp [isDelivery, isSent] at hp
  | sendData d err =>
    simp only [step] at he
    split at he
    · simp at he; subst he; simp [isDelivery, isSent] at hp
    · rename_i hc; simpa using hc
  | sendRtp d pok =>
    simp only [step] at he
    split at he
    · simp at he; subst he; simp [isDelivery, isSent] at hp
    · rename_i hc; simpa using hc
  | stop =>
    simp only [step] at he
    split at he
    · simp at he; subst he; simp [isDelivery, isSent] at hp
    · split at he
      · simp at he; subst he; simp [isDelivery, isSent] at hp
      · simp at he

/-- Where an effect of a run comes from. -/
theorem mem_run_effs (t : T) (evs : List Ev) (eff : Eff) (h : eff ∈ (run t evs).2) :
    ∃ pre e post, evs = pre ++ e :: post ∧ eff ∈ (step (run t pre).1 e).2 := by
  induction evs generalizing t with
  | nil => simp [run] at h
  | cons e es ih =>
    simp only [run, List.mem_append] at h
    rcases h with h | h
    · exact ⟨[], e, es, rfl, by simpa [run] using h⟩
    · obtain ⟨pre, e', post, heq, hm⟩ := ih _ h
      exact ⟨e :: pre, e', post, by simp [heq], by simpa [run] using hm⟩

/-- **delivers / sends only after validation**: every application-data, RTP or RTCP delivery to a receiver,
and every application data / SRTP packet sent, happens in a step that starts in CONNECTED, at a point of
the history where all three gates have already been passed. -/
theorem delivery_only_if_validated (ps : List Profile) (dr : Bool) (role : Role) (evs : List Ev) (eff : Eff)
    (h : eff ∈ (run (init ps dr role) evs).2) (hp : isDelivery eff = true ∨ isSent eff = true) :
    ∃ pre e post, evs = pre ++ e :: post ∧ eff ∈ (step (run (init ps dr role) pre).1 e).2 ∧
      (run (init ps dr role) pre).1.state = .connected ∧ Validated pre (run (init ps dr role) pre).1 := by
  obtain ⟨pre, e, post, heq, hm⟩ := mem_run_effs _ _ _ h
  have inv := inv_reachable ps dr role pre
  have hc := step_payload_connected inv e eff hm hp
  exact ⟨pre, e, post, heq, hm, hc, inv.valid (Or.inl hc)⟩

/-- FAILED is absorbing and silent: no event changes a failed transport, nothing is delivered or sent. -/
theorem failed_step {evs : List Ev} {t : T} (h : Inv evs t) (hf : t.state = .failed) (e : Ev) :
    (step t e).1 = t ∧ ∀ eff ∈ (step t e).2, isDelivery eff = false ∧ isSent eff = false := by
  have hq := h.quiet (by simp [hf]) (by simp [hf])
  have hh : t.handshaking = false := by
    cases hb : t.handshaking with
    | false => rfl
    | true => have := (h.hs hb).1; simp [hf] at this
  cases e <;> simp [step, hf, hh, hq.2, isDelivery, isSent]

theorem failed_terminal {pre : List Ev} {t : T} (h : Inv pre t) (hf : t.state = .failed) (evs : List Ev) :
    (run t evs).1 = t ∧ ∀ eff ∈ (run t evs).2, isDelivery eff = false ∧ isSent eff = false := by
  induction evs generalizing pre with
  | nil => simp [run]
  | cons e es ih =>
    obtain ⟨h1, h2⟩ := failed_step h hf e
    have h' : Inv (pre ++ [e]) t := h.mono e
    obtain ⟨h3, h4⟩ := ih h'
    simp only [run, h1, h3, List.mem_append, true_and]
    rintro eff (hm | hm)
    · exact h2 eff hm
    · exact h4 eff hm

/-- Once CONNECTED (or CLOSED) a transport never becomes FAILED. -/
theorem connected_stays {evs : List Ev} {t : T} (h : Inv evs t) (hc : t.state = .connected ∨ t.state = .closed)
    (e : Ev) : (step t e).1.state = .connected ∨ (step t e).1.state = .closed := by
  have hh : t.handshaking = false := by
    cases hb : t.handshaking with
    | false => rfl
    | true => have := (h.hs hb).1; rcases hc with hc | hc <;> simp [hc] at this
  have hn : t.state ≠ .new := by rcases hc with hc | hc <;> simp [hc]
  cases e with
  | start fps ice => simpa [step, hn] using hc
  | hsWant d => simpa [step, hh] using hc
  | hsError => simpa [step, hh] using hc
  | hsOk dg sel mat => simpa [step, hh] using hc
  | pump d =>
    simp only [step]
    split
    · split <;> simp [hc]
    · exact hc
  | sendData d err => simp only [step]; split <;> (try split) <;> exact hc
  | sendRtp d pok => simp only [step]; split <;> (try split) <;> exact hc
  | stop => simp only [step]; split <;> (try split) <;> simp [hc]

theorem connected_stays_run {pre : List Ev} {t : T} (h : Inv pre t)
    (hc : t.state = .connected ∨ t.state = .closed) (evs : List Ev) :
    (run t evs).1.state = .connected ∨ (run t evs).1.state = .closed := by
  induction evs generalizing pre t with
  | nil => simpa [run] using hc
  | cons e es ih => simpa [run] using ih (inv_step h e) (connected_stays h hc e)

/-- **otherwise it ends in `failed` and delivers nothing**: a run that ends in FAILED has not delivered
anything to any receiver nor sent any application data / SRTP, at any point of its history. -/
theorem failed_silent (ps : List Profile) (dr : Bool) (role : Role) (evs : List Ev)
    (hf : (run (init ps dr role) evs).1.state = .failed) (eff : Eff) (h : eff ∈ (run (init ps dr role) evs).2) :
    isDelivery eff = false ∧ isSent eff = false := by
  by_cases hp : isDelivery eff = true ∨ isSent eff = true
  · obtain ⟨pre, e, post, heq, _, hc, _⟩ := delivery_only_if_validated ps dr role evs eff h hp
    have inv := inv_reachable ps dr role pre
    have := connected_stays_run inv (Or.inl hc) (e :: post)
    rw [heq, run_append] at hf
    simp only at hf
    rcases this with h1 | h1 <;> simp [h1] at hf
  · simp only [not_or, Bool.not_eq_true] at hp
    exact hp

/-- The two outcomes of `start()` once the handshake has completed, as a function of the three gates. -/
theorem run_state_connected_iff (t : T) (dg : Digests) (sel : String) (mat : Bytes)
    (hh : t.handshaking = true) (he : t.encrypted = false) :
    ((step t (.hsOk dg sel mat)).1.state = .connected ↔
      acceptedReal dg t.fps = true ∧ ∃ p ∈ t.profiles, p.name = sel) ∧
    ((step t (.hsOk dg sel mat)).1.state ≠ .connected → (step t (.hsOk dg sel mat)).1.state = .failed) := by
  have hsome := setupSrtp_some_iff t.role t.profiles sel mat
  unfold setupSrtp at hsome
  simp only [step, hh, he, and_self, if_true]
  cases hacc : acceptedReal dg t.fps with
  | false => simp
  | true =>
    cases hf : findProfile t.profiles sel with
    | none => simp [hf] at hsome ⊢; exact hsome
    | some p => simp [hf] at hsome ⊢; exact hsome

/-! ### non-vacuity: concrete runs -/

def exDg : Digests := [(strOf "sha-256", [0xAB, 0x01])]
def exFps : List Fingerprint := [⟨strOf "SHA-256", strOf "ab:01"⟩]
def exMat : Bytes := List.range 60

/-- controlling ICE side (⇒ server), handshake, all gates pass, then: application data, an RTP packet, an
RTP packet failing authentication, a send. -/
def exGood : List Ev :=
  [.start exFps true, .hsWant (.pkt [22, 1] .error .notAsked), .hsOk exDg "SRTP_AES128_CM_SHA1_80" exMat,
   .pump (.pkt [23, 0] (.data [1, 2]) .notAsked), .pump (.pkt [128, 0, 9] .notAsked (.ok [128, 0, 7])),
   .pump (.pkt [128, 0, 9] .notAsked .fail), .sendData [5] none]

example : (run (init TABLE true .auto) exGood).1.state = .connected := by decide
example : (run (init TABLE true .auto) exGood).2 =
    [.role .server, .state .connecting, .exportLen 60,
     .keys "SRTP_AES128_CM_SHA1_80" (List.range' 16 16 ++ List.range' 46 14) (List.range' 0 16 ++ List.range' 32 14),
     .state .connected, .deliverData [1, 2], .deliverRtp [128, 0, 7], .sentData [5]] := by decide
example : Validated exGood (run (init TABLE true .auto) exGood).1 :=
  connected_only_if TABLE true .auto exGood (Or.inl (by decide))

/-- the intruder: wrong certificate, application data coalesced with the last handshake flight. -/
def exIntruder : List Ev :=
  [.start exFps false, .hsWant (.pkt [22, 1] (.data [69, 86, 73, 76]) .notAsked),
   .hsOk [(strOf "sha-256", [0xAB, 0x02])] "SRTP_AES128_CM_SHA1_80" exMat, .sendData [5] none, .stop]

example : run (init TABLE true .auto) exIntruder =
    ({ init TABLE true .client with state := .failed, encrypted := true, fps := exFps },
     [.role .client, .state .connecting, .state .failed, .refused]) := by decide

/-- no common SRTP profile: OpenSSL reports no selected profile. -/
example : (run (init TABLE true .auto) [.start exFps true, .hsOk exDg "" []]).1.state = .failed := by decide

/-! ## 4. the replay windows of the two SRTP sessions (`_setup_srtp`: `rx_policy` / `tx_policy`)

"every RTP packet sent by one side is received by the other": a packet that the SENDING session encrypts
(its own replay window lets the index through) must not be thrown away by the RECEIVING session as too old.
That holds for every sequence of packet indexes — re-ordered, repeated, jumping backwards, with losses —
iff the receiving window is at least as wide as the sending one. -/

/-- The receiver has never seen an index beyond the sender's highest one. -/
def LinkInv (l : Link) : Prop := l.rx.hi ≤ l.tx.hi

theorem linkInv_init : LinkInv {} := Nat.le_refl _

theorem recv_inv {l : Link} (wrx i : Nat) (a : Bool) (h : LinkInv l) (hi : i ≤ l.tx.hi) :
    LinkInv (l.recv wrx i a).1 := by
  unfold Link.recv
  split
  · exact h
  · exact h
  · split
    · exact h
    · simp only [LinkInv, Rdb.add] at *; omega

theorem send_inv {l : Link} (wtx wrx : Nat) (rep : Bool) (i : Nat) (a : Bool) (h : LinkInv l) :
    LinkInv (l.send wtx wrx rep i a).1 := by
  unfold Link.send
  split
  · exact h
  · rename_i hc
    split
    · refine recv_inv wrx i a h ?_
      unfold Rdb.check at hc
      split at hc
      · simp at hc
      · omega
    · exact h
  · refine recv_inv wrx i a ?_ ?_
    · simp only [LinkInv, Rdb.add] at *; omega
    · simp only [Rdb.add]; omega

theorem recv_not_old {l : Link} {wrx i : Nat} (a : Bool) (h : l.rx.check wrx i ≠ .old) :
    (l.recv wrx i a).2 ≠ .rxOld := by
  unfold Link.recv
  split
  · rename_i hc; exact absurd hc h
  · simp
  · split <;> simp

/-- A packet that passes the sender's window is never "too old" for a receiver whose window is not narrower. -/
theorem send_not_rxOld {l : Link} {wtx wrx : Nat} (hw : wtx ≤ wrx) (rep : Bool) (i : Nat) (a : Bool)
    (h : LinkInv l) : (l.send wtx wrx rep i a).2 ≠ .rxOld := by
  unfold Link.send
  split
  · simp
  · rename_i hc
    split
    · refine recv_not_old a ?_
      unfold Rdb.check at hc ⊢
      unfold LinkInv at h
      split at hc
      · simp at hc
      · split at hc
        · simp at hc
        · split
          · simp
          · split
            · omega
            · split <;> simp
    · simp
  · rename_i hc
    refine recv_not_old a ?_
    unfold Rdb.check at hc ⊢
    unfold LinkInv at h
    simp only [Rdb.add]
    split at hc
    · split
      · simp
      · omega
    · split at hc
      · simp at hc
      · split
        · simp
        · split
          · omega
          · split <;> simp

theorem run_not_rxOld {wtx wrx : Nat} (hw : wtx ≤ wrx) (rep : Bool) (pkts : List (Nat × Bool)) :
    ∀ {l : Link}, LinkInv l → PktOut.rxOld ∉ (Link.run wtx wrx rep l pkts).2 := by
  induction pkts with
  | nil => intro l _; simp [Link.run]
  | cons p ps ih =>
    intro l h
    obtain ⟨i, a⟩ := p
    simp only [Link.run, List.mem_cons, not_or]
    exact ⟨fun e => send_not_rxOld hw rep i a h e.symm, ih (send_inv wtx wrx rep i a h)⟩

/-- Whatever the order, repetition, backward jumps and in-transit damage of the packets of one SSRC: when the
receiving policy's window is at least the sending policy's, no packet that the sender put on the wire is
discarded as too old. (`window_size` 0 is libsrtp's default 128.) -/
theorem window_no_silent_loss (wtx wrx : Nat) (hw : effWindow wtx ≤ effWindow wrx) (rep : Bool)
    (pkts : List (Nat × Bool)) :
    PktOut.rxOld ∉ (Link.run (effWindow wtx) (effWindow wrx) rep {} pkts).2 :=
  run_not_rxOld hw rep pkts linkInv_init

/-- The only other way an unaltered packet is not delivered: the receiver has already delivered that index. -/
theorem send_rxReplay_seen {l : Link} {wtx wrx : Nat} {rep : Bool} {i : Nat} {a : Bool}
    (h : (l.send wtx wrx rep i a).2 = .rxReplay) : i ∈ l.rx.seen := by
  have key : ∀ l' : Link, l'.rx = l.rx → (l'.recv wrx i a).2 = .rxReplay → i ∈ l.rx.seen := by
    intro l' hl hr
    unfold Link.recv at hr
    split at hr
    · simp at hr
    · rename_i hc
      unfold Rdb.check at hc
      rw [hl] at hc
      split at hc
      · simp at hc
      · split at hc
        · simp at hc
        · split at hc
          · assumption
          · simp at hc
    · split at hr <;> simp at hr
  unfold Link.send at h
  split at h
  · simp at h
  · split at h
    · exact key l rfl h
    · simp at h
  · exact key { l with tx := l.tx.add i } rfl h

/-- An index enters the receiver's database exactly when it is delivered. -/
theorem send_rx_seen (l : Link) (wtx wrx : Nat) (rep : Bool) (i : Nat) (a : Bool) :
    (l.send wtx wrx rep i a).1.rx.seen =
      if (l.send wtx wrx rep i a).2 = .delivered then i :: l.rx.seen else l.rx.seen := by
  have key : ∀ l' : Link, l'.rx = l.rx → (l'.recv wrx i a).1.rx.seen =
      if (l'.recv wrx i a).2 = .delivered then i :: l.rx.seen else l.rx.seen := by
    intro l' hl
    unfold Link.recv
    split
    · simp [hl]
    · simp [hl]
    · split <;> simp [hl, Rdb.add]
  unfold Link.send
  split
  · simp
  · split
    · exact key l rfl
    · simp
  · exact key { l with tx := l.tx.add i } rfl

/-- equal windows of 1024 (the pinned code): 1023 behind is delivered, a repeat is a replay, 1024 behind is
refused by the SENDER (visible), nothing is lost silently -/
example : (Link.run 1024 1024 true {} [(5000, false), (3977, false), (3977, false), (3976, false), (5001, true),
    (5001, false)]).2 = [.delivered, .delivered, .rxReplay, .txRefused, .authFail, .delivered] := by decide
/-- a receiving window narrower than the sending one (rx_policy left at libsrtp's default): the sender encrypts
a packet 128 behind, the receiver silently drops it -/
example : (Link.run (effWindow 1024) (effWindow 0) true {} [(5000, false), (4873, false), (4872, false)]).2 =
    [.delivered, .delivered, .rxOld] := by decide
example : effWindow 1024 ≤ effWindow 1024 := by decide

/-! ## `_write_ssl`: records, the BIO byte stream and datagrams

"every data message sent by one side is received intact": DTLS never re-assembles a record, so the record that
carries a message has to leave `_write_ssl` in one piece, at the start of a datagram. -/

/-- A record that fits the `bio_read` size leaves an empty BIO as exactly one datagram, nothing stays behind. -/
theorem sendRecord_whole {chunk : Nat} {r : Bytes} (hne : r ≠ []) (hfit : r.length ≤ chunk) :
    sendRecord chunk [] r = (some r, []) := by
  have ht : r.take chunk = r := List.take_of_length_le hfit
  have hd : r.drop chunk = [] := List.drop_of_length_le hfit
  simp [sendRecord, writeSsl, ht, hd, hne]

/-- A bare `_write_ssl` on an empty BIO sends nothing. -/
theorem writeSsl_empty (chunk : Nat) : writeSsl chunk [] = (none, []) := by
  simp [writeSsl]

/-- A record LONGER than the `bio_read` size is cut: the datagram is a proper prefix (the peer's OpenSSL discards it),
and the tail stays in the BIO. -/
theorem sendRecord_cut {chunk : Nat} {r : Bytes} (hpos : 0 < chunk) (hlong : chunk < r.length) :
    ∃ d, (sendRecord chunk [] r).1 = some d ∧ d.length = chunk ∧ d ≠ r ∧
      (sendRecord chunk [] r).2.length = r.length - chunk ∧ (sendRecord chunk [] r).2 ≠ [] := by
  have hlen : (r.take chunk).length = chunk := by simp [List.length_take]; omega
  have hne : r.take chunk ≠ [] := by
    intro h; rw [h] at hlen; simp at hlen; omega
  refine ⟨r.take chunk, ?_, hlen, ?_, ?_, ?_⟩
  · simp [sendRecord, writeSsl, hne]
  · intro h; rw [h] at hlen; omega
  · simp [sendRecord, writeSsl, hne]
  · simp only [sendRecord, writeSsl, List.nil_append, hne, if_false]
    intro h
    have : (r.drop chunk).length = 0 := by rw [h]; rfl
    simp at this; omega

/-- What a cut leaves behind goes out FIRST in the next datagram: the next record no longer starts a datagram (the
peer demultiplexes / parses garbage, the message is lost although it was small enough). -/
theorem sendRecord_after_cut {chunk : Nat} {pending r : Bytes} (hp : pending ≠ []) (hfit : pending.length ≤ chunk) :
    ∃ d, (sendRecord chunk pending r).1 = some d ∧ pending <+: d := by
  have hne : (pending ++ r).take chunk ≠ [] := by
    cases pending with
    | nil => exact absurd rfl hp
    | cons a as =>
      cases chunk with
      | zero => simp at hfit
      | succ n => simp
  refine ⟨(pending ++ r).take chunk, by simp [sendRecord, writeSsl, hne], ?_⟩
  rw [List.take_append, List.take_of_length_le hfit]
  exact List.prefix_append _ _

/-- One read per call (the pinned code) is `writeSsl`. -/
theorem writeReads_single (n : Nat) (bio : Bytes) :
    writeReads [n] bio = ((writeSsl n bio).1.toList, (writeSsl n bio).2) := by
  simp only [writeReads]
  split <;> rename_i h <;> simp [h, writeReads]

/-- Reading again after a record that fitted (a draining `_write_ssl`) changes nothing: the BIO is empty. -/
theorem writeReads_whole {chunk : Nat} {r : Bytes} (more : List Nat) (hne : r ≠ []) (hfit : r.length ≤ chunk) :
    writeReads (chunk :: more) r = ([r], []) := by
  have h := sendRecord_whole hne hfit
  simp only [sendRecord, List.nil_append] at h
  have hmore : ∀ ns : List Nat, writeReads ns [] = ([], []) := by
    intro ns; induction ns with
    | nil => rfl
    | cons n ns ih => simp [writeReads, writeSsl_empty, ih]
  simp [writeReads, h, hmore]

/-- Any run of `_send_data` calls with records that fit (and bare `_write_ssl` calls in between), starting from an
empty BIO: every record crosses as exactly one datagram of its own, bare calls send nothing, the BIO ends empty. -/
theorem sendRecords_whole {chunk : Nat} (steps : List (Option Bytes))
    (h : ∀ r, some r ∈ steps → r ≠ [] ∧ r.length ≤ chunk) :
    sendRecords chunk [] steps = (steps, []) := by
  induction steps with
  | nil => rfl
  | cons s rest ih =>
    have ih' := ih (fun r hr => h r (List.mem_cons_of_mem _ hr))
    cases s with
    | none =>
      simp [sendRecords, sendRecord, writeSsl_empty, ih']
    | some r =>
      obtain ⟨hne, hfit⟩ := h r (List.mem_cons_self)
      simp [sendRecords, sendRecord_whole hne hfit, ih']

/-- With the pinned `bio_read(1500)` and the 37 bytes the negotiated AES-GCM suites add to a message (13 header,
8 explicit nonce, 16 tag): every data message of 1..1463 bytes leaves as one whole record. -/
theorem data_messages_whole_1500 (recs : List Bytes) (h : ∀ r ∈ recs, 1 + 37 ≤ r.length ∧ r.length ≤ 1463 + 37) :
    sendRecords 1500 [] (recs.map some) = (recs.map some, []) := by
  apply sendRecords_whole
  intro r hr
  obtain ⟨x, hx, hxr⟩ := List.mem_map.mp hr
  cases hxr
  obtain ⟨h1, h2⟩ := h r hx
  refine ⟨?_, by omega⟩
  intro h0; rw [h0] at h1; simp at h1

/-- in small: a 5-byte record through `bio_read(4)` is cut and its last byte poisons the next datagram; through
`bio_read(5)` it is whole, a bare `_write_ssl` in between sends nothing -/
example : sendRecords 4 [] [some [9, 8, 7, 6, 5], some [1, 2, 3]] = ([some [9, 8, 7, 6], some [5, 1, 2, 3]], []) := by decide
example : sendRecords 5 [] [some [9, 8, 7, 6, 5], none, some [1, 2, 3]] = ([some [9, 8, 7, 6, 5], none, some [1, 2, 3]], []) := by
  decide
/-- the hypotheses of `data_messages_whole_1500` / `sendRecord_cut` are satisfiable: a 1244-byte message (1281-byte
record) is whole with 1500 and cut with 1280 -/
example : ∀ r ∈ [List.replicate 1281 (7 : Nat)], 1 + 37 ≤ r.length ∧ r.length ≤ 1463 + 37 := by
  intro r hr
  rw [List.mem_singleton.mp hr, List.length_replicate]
  omega
example : (0 : Nat) < 1280 ∧ 1280 < (List.replicate 1281 (7 : Nat)).length := by
  rw [List.length_replicate]; omega

/-! ## the first-byte demultiplexer of `_recv_next` (RFC 7983) -/

/-- The classes partition 0..255 exactly as RFC 7983 says: [20..63] DTLS, [128..191] RTP/RTCP, everything else
(STUN 0..3, ZRTP 16..19, TURN channels 64..79, 80..127, 192..255) is dropped. -/
theorem demux_rfc7983 (b : Nat) :
    (demuxClass b = .dtls ↔ 20 ≤ b ∧ b ≤ 63) ∧ (demuxClass b = .srtp ↔ 128 ≤ b ∧ b ≤ 191) ∧
    (demuxClass b = .drop ↔ b ≤ 19 ∨ (64 ≤ b ∧ b ≤ 127) ∨ 192 ≤ b) := by
  unfold demuxClass
  refine ⟨?_, ?_, ?_⟩ <;> (split <;> (try split) <;> simp <;> omega)

/-- every one of the 256 byte values is in exactly the class the RFC gives it (checked value by value) -/
theorem demux_table : ∀ b < 256, demuxClass b =
    (if 20 ≤ b ∧ b ≤ 63 then Demux.dtls else if 128 ≤ b ∧ b ≤ 191 then Demux.srtp else Demux.drop) := by
  intro b _
  unfold demuxClass
  have e1 : (19 < b ∧ b < 64) ↔ (20 ≤ b ∧ b ≤ 63) := by omega
  have e2 : (127 < b ∧ b < 192) ↔ (128 ≤ b ∧ b ≤ 191) := by omega
  simp only [e1, e2]

/-- `recvNext` IS this demultiplexer: a dropped class produces nothing and asks neither OpenSSL nor libsrtp. -/
theorem recvNext_drop (t : T) (b : Nat) (rest : Bytes) (ssl : SslRecv) (u : Unprotect)
    (h : demuxClass b = .drop) : recvNext t (.pkt (b :: rest) ssl u) = .ok [] := by
  unfold demuxClass at h
  split at h
  · simp at h
  · rename_i h1
    split at h
    · simp at h
    · rename_i h2
      simp only [recvNext, h1, if_false]
      have : ¬(127 < b ∧ b < 192 ∧ t.srtp.isSome = true) := fun hh => h2 ⟨hh.1, hh.2.1⟩
      simp [this]

/-- Every first byte 0x80..0xBF (all 64 RTP layouts P × X × CC, all RTCP padding × count values) reaches libsrtp once
the SRTP sessions exist, and what `unprotect` returns is handed on — RTCP iff the second byte is 192..208. -/
theorem recvNext_srtp_sweep (t : T) (b : Nat) (rest d : Bytes) (ssl : SslRecv)
    (hb : 128 ≤ b ∧ b ≤ 191) (hs : t.srtp.isSome = true) :
    recvNext t (.pkt (b :: rest) ssl (.ok d)) =
      .ok [if isRtcp (b :: rest) then .deliverRtcp d else .deliverRtp d] := by
  have h1 : ¬(19 < b ∧ b < 64) := by omega
  have h2 : 127 < b ∧ b < 192 ∧ t.srtp.isSome = true := ⟨by omega, by omega, hs⟩
  simp only [recvNext, h1, if_false, h2, and_self, if_true]
  split <;> simp_all

/-- … and every first byte 20..63 reaches OpenSSL. -/
theorem recvNext_dtls_sweep (t : T) (b : Nat) (rest : Bytes) (u : Unprotect) (hb : 20 ≤ b ∧ b ≤ 63) :
    recvNext t (.pkt (b :: rest) .error u) = .ok [] ∧ recvNext t (.pkt (b :: rest) .zeroReturn u) = .connError := by
  have h1 : 19 < b ∧ b < 64 := by omega
  simp [recvNext, h1]

example : demuxClass 0xBF = .srtp ∧ demuxClass 0x80 = .srtp ∧ demuxClass 0xC0 = .drop ∧ demuxClass 63 = .dtls ∧
    demuxClass 64 = .drop ∧ demuxClass 19 = .drop ∧ demuxClass 20 = .dtls := by decide
example : recvNext { (init [] true .client) with srtp := some ⟨⟨"x", 16, 14⟩, [], []⟩ } (.pkt [0xBF, 96, 1] .notAsked (.ok [7])) =
    .ok [.deliverRtp [7]] := by decide

end Aiortc.Props.C04
