import Aiortc.Lemmas.SctpTotal
/-!
# C05 — no received datagram can crash, hang or wedge the receive path

The theorems of this property live in three files (all three are audited by the check):
* `Props/C05.lean` (this file): totality of the SCTP wire parsers, restated from `Lemmas/SctpTotal.lean`;
* `Props/C05Sctp.lean`: the SCTP endpoint automaton never raises and never hangs on any datagram
  (`rx_never_crashes_proved`, `rx_no_hang`, invariant preservation, work bounds);
* `Props/C05Rtp.lean`: totality of the RTP / RTCP / header-extension / REMB / H.264 / VP8 parsers
  (`parsers_total`) and of the dispatch around them (`recv_next_total`, `still_alive`).
-/
namespace Aiortc.Props.C05
open Aiortc Aiortc.Sctp.Wire

theorem minimum_length_const : Aiortc.Gen.SCTP_PACKET_MINIMUM_LENGTH = 16 := by decide

/-- `parse_packet(data)` returns or raises `ValueError`, for EVERY byte string: never `struct.error`,
never a non-terminating loop. -/
theorem sctp_parse_packet_total (d : Bytes) :
    (∃ r, parsePacket d = .ok r) ∨ parsePacket d = .valueError := by
  have h := parsePacket_benign d
  cases hp : parsePacket d with
  | ok r => exact Or.inl ⟨r, rfl⟩
  | valueError => exact Or.inr rfl
  | crash k => rw [hp] at h; exact absurd h (by simp [Benign])
  | hang => rw [hp] at h; exact absurd h (by simp [Benign])

/-- `decode_params(body)` likewise (the zero-length parameter no longer loops). -/
theorem sctp_decode_params_total (b : Bytes) :
    (∃ r, decodeParams b = .ok r) ∨ decodeParams b = .valueError := by
  have h := decodeParams_benign b
  cases hp : decodeParams b with
  | ok r => exact Or.inl ⟨r, rfl⟩
  | valueError => exact Or.inr rfl
  | crash k => rw [hp] at h; exact absurd h (by simp [Benign])
  | hang => rw [hp] at h; exact absurd h (by simp [Benign])

/-- The three RE-CONFIG parameter parsers likewise. -/
theorem sctp_reconfig_parse_total (cls : RcCls) (data : Bytes) :
    (∃ r, RcParam.parse cls data = .ok r) ∨ RcParam.parse cls data = .valueError := by
  have h := rcParse_benign cls data
  cases hp : RcParam.parse cls data with
  | ok r => exact Or.inl ⟨r, rfl⟩
  | valueError => exact Or.inr rfl
  | crash k => rw [hp] at h; exact absurd h (by simp [Benign])
  | hang => rw [hp] at h; exact absurd h (by simp [Benign])

end Aiortc.Props.C05
