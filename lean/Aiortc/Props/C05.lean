import Aiortc.Model.Sctp.Endpoint
/-! # C05 (placeholder while the theorems are being written) -/
namespace Aiortc.Props.C05
theorem minimum_length_const : Aiortc.Gen.SCTP_PACKET_MINIMUM_LENGTH = 16 := by decide
end Aiortc.Props.C05
