import Aiortc.Lemmas.RtpDispatch.Transport
import Aiortc.Lemmas.Router
import Aiortc.Props.C07
/-!
# C05 (RTP / RTCP / codec part) — no received datagram can crash, hang or wedge the media receive path

Model: `Model/RtpDispatch.lean` (`RTCDtlsTransport._recv_next`, `_handle_rtp_data`, `_handle_rtcp_data`,
`RtpRouter`, `RTCRtpReceiver._handle_rtp_packet / _handle_rtcp_packet`, `RTCRtpSender._handle_rtcp_packet`) on top of
the wire parsers of C07 / C12 / C16.  Tree with fixes/C05b-empty-datagram.patch and
fixes/C05b-nack-generator-jump.patch.

`Safe o` means "`o` is `ok _` or `valueError`": not `crash _` (struct.error, IndexError, TypeError, …), not `hang`.
-/
namespace Aiortc.Props.C05Rtp
open Aiortc Aiortc.Gen Aiortc.Rtp Aiortc.Model Aiortc.Model.RtpDispatch Aiortc.Lemmas.RtpDispatch

/-! ## 0. constants of the property text -/

theorem history_size_const : RTP_HISTORY_SIZE = 128 := by decide
theorem rtcp_type_consts : RTCP_SR = 200 ∧ RTCP_BYE = 203 ∧ RTCP_RTPFB = 205 ∧ RTCP_PSFB = 206
    ∧ RTCP_RTPFB_NACK = 1 ∧ RTCP_PSFB_PLI = 1 ∧ RTCP_PSFB_FIR = 4 ∧ RTCP_PSFB_APP = 15 := by decide

/-! ## 1. `parsers_total`: every wire parser of the media path returns a value or raises `ValueError` -/

/-- `RtpPacket.parse` (C07). -/
theorem rtp_parse_total (ids : ExtIds) (data : Bytes) : Safe (Rtp.parse ids data) :=
  Props.C07.rtp_parse_only_value_error ids data

/-- `RtcpPacket.parse` incl. the six packet classes (C07). -/
theorem rtcp_parse_total (data : Bytes) : Safe (parseCompound data) :=
  Props.C07.rtcp_parse_only_value_error data

/-- `unpack_remb_fci` (C07), and the copy of it in the router model (C12). -/
theorem remb_parse_total (data : Bytes) : Safe (unpackRemb data) :=
  Props.C07.remb_parse_only_value_error data

theorem router_remb_parse_total (data : Bytes) :
    Router.unpackRembFci data = .valueError ∨ ∃ b l, Router.unpackRembFci data = .ok (b, l) :=
  Router.unpackRembFci_no_crash data

/-- `unpack_header_extensions` for every profile (one-byte, two-byte, unknown) and every value. -/
theorem header_extensions_unpack_total (profile : Nat) (value : Bytes) :
    Safe (unpackHeaderExtensions profile value) := by
  unfold unpackHeaderExtensions
  split
  · exact unpackOneByte_safe value
  · split
    · exact unpackTwoByte_safe value
    · exact safe_ok _

/-- `HeaderExtensionsMap.get` for every id map (also ids 0 / duplicates). -/
theorem header_extensions_get_total (ids : ExtIds) (profile : Nat) (value : Bytes) :
    Safe (extGet ids profile value) := extGet_safe ids profile value

/-- `H264PayloadDescriptor.parse`: no `IndexError`, no `struct.error`, the STAP-A loop ends. -/
theorem h264_parse_total (data : Bytes) : Safe (H264.parse data) := h264_parse_safe data
theorem h264_depayload_total (data : Bytes) : Safe (H264.depayload data) := h264_depayload_safe data

/-- The STAP-A loop never needs more than `len(data) + 1` rounds, from any position. -/
theorem stap_a_fuel_suffices (data : Bytes) (pos : Nat) :
    H264.stapOffsets data (data.length + 1) pos ≠ .hang := by
  rcases stapOffsets_safe data (data.length + 1) pos (by omega) (by omega) with h | ⟨a, h⟩ <;> rw [h] <;> simp

/-- `VpxPayloadDescriptor.parse` / `vp8_depayload`. -/
theorem vp8_parse_total (data : Bytes) : Safe (Vp8.parse data) := vp8_parse_safe data
theorem vp8_depayload_total (data : Bytes) : Safe (Vp8.depayload data) := vp8_depayload_safe data

/-- `codecs.depayload` for every codec. -/
theorem depayload_total (k : CodecKind) (payload : Bytes) : Safe (depayloadFor k payload) :=
  depayloadFor_safe k payload

/-- **parsers_total** (media path): for EVERY byte string and EVERY extension-id map. -/
theorem parsers_total (ids : ExtIds) (profile : Nat) (data : Bytes) :
    Safe (Rtp.parse ids data) ∧ Safe (parseCompound data) ∧ Safe (unpackRemb data)
    ∧ Safe (unpackHeaderExtensions profile data) ∧ Safe (extGet ids profile data)
    ∧ Safe (H264.parse data) ∧ Safe (H264.depayload data) ∧ Safe (Vp8.parse data) ∧ Safe (Vp8.depayload data) :=
  ⟨rtp_parse_total ids data, rtcp_parse_total data, remb_parse_total data,
   header_extensions_unpack_total profile data, header_extensions_get_total ids profile data,
   h264_parse_total data, h264_depayload_total data, vp8_parse_total data, vp8_depayload_total data⟩

/-! ## 2. `dispatch_safe`: the handlers around the parsers -/

/-- Demultiplexing of `_recv_next`, with the literal byte ranges: DTLS 20..63, SRTP/SRTCP 128..191,
RTCP iff the second byte is 192..208. -/
theorem demux_spec (first : Nat) (rest : Bytes) :
    demux true (first :: rest) =
      if 19 < first ∧ first < 64 then .dtls
      else if 127 < first ∧ first < 192 then
        (match rest with
         | second :: _ => if 192 ≤ second ∧ second ≤ 208 then Demux.rtcp else .rtp
         | [] => .rtp)
      else .ignored := by
  unfold demux isRtcp
  cases rest <;> simp

theorem demux_empty (b : Bool) : demux b [] = .empty := rfl

/-- Without an SRTP session nothing is handed to the RTP / RTCP handlers. -/
theorem demux_no_srtp (data : Bytes) : demux false data ≠ .rtp ∧ demux false data ≠ .rtcp := by
  unfold demux
  cases data with
  | nil => simp
  | cons a t => simp only [Bool.false_eq_true, and_false]; split <;> simp

/-- What the `try` blocks catch is EXACTLY `ValueError`: any other outcome of the parser would escape
`_handle_rtp_data` / `_handle_rtcp_data` (and close the transport in `__run`) … -/
theorem handlers_catch_only_value_error (env : Env) (t : Transport) (data : Bytes) (k : String) :
    (Rtp.parse t.ids data = .crash k → handleRtpData env t data = .crash k) ∧
    (parseCompound data = .crash k → handleRtcpData t data = .crash k) := by
  constructor
  · intro h; unfold handleRtpData; rw [h]
  · intro h; unfold handleRtcpData; rw [h]

/-- … and a rejected datagram changes nothing: router, receivers, senders are exactly as before. -/
theorem rejected_unchanged (env : Env) (t : Transport) (data : Bytes) :
    (Rtp.parse t.ids data = .valueError → handleRtpData env t data = .ok (t, [], 0)) ∧
    (parseCompound data = .valueError → handleRtcpData t data = .ok (t, [])) :=
  ⟨handleRtpData_rejected env t data, handleRtcpData_rejected t data⟩

/-- `RTCRtpReceiver._handle_rtp_packet` for every packet `RtpPacket.parse` can return and every receiver state
satisfying the component invariants: returns normally, keeps the invariants, and its only loop (the NACK
generator) runs at most 128 times. -/
theorem receiver_handle_rtp_total (r : Receiver) (hr : RecvInv r) (p : RtpPacket) (hp : PktOk p) (clock : Int)
    (remb : Bool) :
    ∃ r' e n, r.handleRtp p clock (.ok remb) = .ok (r', e, n) ∧ RecvInv r' ∧ n ≤ 128 :=
  handleRtp_total r hr p hp clock remb

/-- The RTX unwrap is guarded: `unwrap_rtx` raises `struct.error` on a payload shorter than 2 bytes (C07
`rtx_short_payload_crashes`), `_handle_rtp_packet` returns before calling it. -/
theorem rtx_short_payload_guarded (r : Receiver) (codec : Codec) (p : RtpPacket) (h : p.payload.length < 2)
    (hk : codec.kind.isRtx = true) : r.stageRtx codec p = .ok none := by
  unfold Receiver.stageRtx
  cases hc : codec.kind with
  | rtx apt =>
    simp only
    cases Router.dget p.ssrc r.rtxSsrc with
    | none => rfl
    | some o => simp only [h, if_true]
  | vp8 => rw [hc] at hk; cases hk
  | h264 => rw [hc] at hk; cases hk
  | other => rw [hc] at hk; cases hk

/-- A payload the codec parser rejects is dropped after statistics and NACK bookkeeping (`except ValueError`): the
jitter buffer, the timestamp mapper and the decoder are not touched. -/
theorem depayload_error_keeps_jitter_buffer (r : Receiver) (e0 : List Effect) (codec : Codec) (p : RtpPacket)
    (hk : codec.kind.isRtx = false)
    (hne : p.payload.isEmpty = false) (hbad : depayloadFor codec.kind p.payload = .valueError)
    (r' : Receiver) (e : List Effect) (n : Nat) (h : r.handleRtpCodec e0 codec p = .ok (r', e, n)) :
    r'.jb = r.jb ∧ r'.tsMap = r.tsMap ∧ r'.decoderRunning = r.decoderRunning := by
  unfold Receiver.handleRtpCodec at h
  have hx : r.stageRtx codec p = .ok (some (p, codec)) := by
    unfold Receiver.stageRtx
    cases hc : codec.kind with
    | rtx apt => rw [hc] at hk; cases hk
    | vp8 => rfl
    | h264 => rfl
    | other => rfl
  rw [hx] at h
  simp only [hne, Bool.false_eq_true, if_false, hbad] at h
  cases hn : r.stageNack p with
  | ok v =>
    obtain ⟨r1, e1, n1⟩ := v
    rw [hn] at h
    simp only at h
    cases h
    exact stageNack_fields hn
  | valueError => rw [hn] at h; cases h
  | crash k => rw [hn] at h; cases h
  | hang => rw [hn] at h; cases h

/-- `RTCRtpReceiver._handle_rtcp_packet` (SR: note LSR; BYE: stop the decoder) returns normally and keeps the
invariants. -/
theorem receiver_handle_rtcp_total (r : Receiver) (hr : RecvInv r) (p : RtcpPacket) :
    RecvInv (r.handleRtcp p).1 := recv_handleRtcp_inv r hr p

/-- `RTCRtpSender._handle_rtcp_packet` for EVERY parsed RTCP packet and EVERY sender state whose RTX sequence number is
a 16-bit number (`SenderInv`): RR/SR statistics, NACK → `_retransmit` for each listed sequence number (incl.
`RtpPacket.serialize` of the RTX packet: `struct.error` if the counter had left 0..65535), PLI / FIR → key frame,
REMB → `unpack_remb_fci` inside `try … except ValueError`.  The invariant holds again afterwards, whatever the
history. -/
theorem sender_handle_rtcp_total (s : Sender) (hs : SenderInv s) (p : RtcpPacket) :
    ∃ s' e, s.handleRtcp p = .ok (s', e) ∧ SenderInv s' :=
  sender_handleRtcp_total s hs p

/-- A NACK answers each listed sequence number with at most one retransmission: the work is linear in the
datagram (each 4-byte FCI entry lists at most 17 sequence numbers). -/
theorem retransmissions_bounded (s : Sender) (hs : SenderInv s) (lost : List Nat) :
    ∃ s' e, s.retransmitAll lost = .ok (s', e) ∧ SenderInv s' ∧ e.length ≤ lost.length :=
  retransmitAll_total s hs lost

/-! ### the RTX sequence number: every origin, every length of history -/

/-- `RTCRtpSender.__init__`: `random_sequence_number()` = `random16() % 32768` is a 16-bit number, for every draw. -/
theorem fresh_sender_inv (r16 : Int) (s : Sender) (h : s.rtxSequenceNumber = r16 % 32768) : SenderInv s := by
  unfold SenderInv Props.C17.R16
  omega

/-- One retransmission of a packet that is in the history, RTX negotiated: the RTX packet carries the current counter,
which fits the 16-bit field, and the counter advances in serial arithmetic — 65535 is followed by 0. -/
theorem retransmit_hit (s : Sender) (hs : SenderInv s) (seq pt : Nat) (pkt : RtpPacket)
    (hh : Router.dget (seq % RTP_HISTORY_SIZE) s.history = some pkt) (hq : pkt.sequenceNumber = seq)
    (hpt : s.rtxPayloadType = some pt) :
    s.retransmit seq = .ok ({ s with rtxSequenceNumber := (s.rtxSequenceNumber + 1) % 65536 },
                            [.retransmit s.id (wrapRtx pkt pt s.rtxSequenceNumber.toNat s.rtxSsrc)])
    ∧ (wrapRtx pkt pt s.rtxSequenceNumber.toNat s.rtxSsrc).sequenceNumber < 65536 := by
  constructor
  · unfold Sender.retransmit Sender.retransmitWith
    rw [hh]
    simp only [hq, if_true, hpt, seqPackable_of_r16 hs, uint16_add]
  · have h1 := hs.1
    have h2 := hs.2
    unfold wrapRtx
    simp only
    omega

/-- **Any origin, any length of history**: after `n` retransmissions (n arbitrary — 32 769, 65 536, …) from ANY 16-bit
origin the counter is `(origin + n) mod 2^16`, all `n` packets were sent, nothing was raised. -/
theorem rtx_counter_every_origin (seq pt : Nat) (pkt : RtpPacket) (hq : pkt.sequenceNumber = seq) :
    ∀ (n : Nat) (s : Sender), SenderInv s → Router.dget (seq % RTP_HISTORY_SIZE) s.history = some pkt →
      s.rtxPayloadType = some pt →
      ∃ s' e, s.retransmitAll (List.replicate n seq) = .ok (s', e)
        ∧ s'.rtxSequenceNumber = (s.rtxSequenceNumber + n) % 65536 ∧ e.length = n := by
  intro n
  induction n with
  | zero =>
    intro s hs _ _
    refine ⟨s, [], rfl, ?_, rfl⟩
    have h1 := hs.1
    have h2 := hs.2
    simp only [Int.natCast_zero, Int.add_zero]
    omega
  | succ k ih =>
    intro s hs hh hpt
    have hstep := (retransmit_hit s hs seq pt pkt hh hq hpt).1
    have hs1 : SenderInv { s with rtxSequenceNumber := (s.rtxSequenceNumber + 1) % 65536 } := by
      unfold SenderInv Props.C17.R16; simp only; omega
    obtain ⟨s2, e2, h2, hc2, hl2⟩ := ih { s with rtxSequenceNumber := (s.rtxSequenceNumber + 1) % 65536 } hs1 hh hpt
    unfold Sender.retransmitAll at h2
    unfold Sender.retransmit at hstep
    unfold Sender.retransmitAll
    rw [List.replicate_succ]
    unfold Sender.retransmitAllWith
    rw [hstep]
    simp only
    rw [h2]
    refine ⟨_, _, rfl, ?_, ?_⟩
    · rw [hc2]
      simp only
      push_cast
      omega
    · simp only [List.length_append, List.length_cons, List.length_nil, hl2]
      omega

/-- The class of regression this invariant is about: advance the counter WITHOUT the reduction (`+= 1`).  From 65535 the
next retransmission still goes out (it carries 65535) and leaves the counter at 65536; the one after it raises
`struct.error` out of `_handle_rtcp_packet` — for every sender, every history, every packet. -/
theorem unreduced_counter_crashes (s : Sender) (seq pt : Nat) (pkt : RtpPacket)
    (hh : Router.dget (seq % RTP_HISTORY_SIZE) s.history = some pkt) (hq : pkt.sequenceNumber = seq)
    (hpt : s.rtxPayloadType = some pt) (h : s.rtxSequenceNumber = 65535) :
    s.retransmitAllWith (fun n => n + 1) [seq, seq] = .crash "struct.error" := by
  unfold Sender.retransmitAllWith Sender.retransmitWith
  rw [hh]
  simp only [hq, if_true, hpt, h]
  have h1 : seqPackable 65535 = true := by decide
  rw [if_pos h1]
  simp only
  unfold Sender.retransmitAllWith Sender.retransmitWith
  simp only [hh, hq, if_true]
  have h2 : seqPackable (65535 + 1) = false := by decide
  simp only [h2, Bool.false_eq_true, if_false]

/-- `_handle_rtp_data` for ANY byte string, ANY transport state (router, receivers, senders) whose receivers satisfy
their invariants. -/
theorem handle_rtp_data_total (env : Env) (remb : Bool) (henv : env.rbeOut = .ok remb) (t : Transport)
    (ht : TransportInv t) (data : Bytes) (hb : IsBytes data) :
    ∃ t' e n, handleRtpData env t data = .ok (t', e, n) ∧ TransportInv t' ∧ n ≤ 128 :=
  handleRtpData_total env remb henv t ht data hb

/-- `_handle_rtcp_data` (parse, `route_rtcp`, every recipient's handler) for ANY byte string. -/
theorem handle_rtcp_data_total (t : Transport) (ht : TransportInv t) (data : Bytes) :
    ∃ t' e, handleRtcpData t data = .ok (t', e) ∧ TransportInv t' :=
  handleRtcpData_total t ht data

/-- **dispatch_safe / recv_next_total**: `_recv_next` on ANY datagram (any bytes, incl. the empty one; SRTP
authentication succeeding or failing) in ANY protocol state returns normally — nothing escapes to `__run`, so the
transport stays connected — keeps every receiver's invariants (so the next datagram is covered again), and does
at most 128 loop iterations beyond the parsers' linear passes. -/
theorem recv_next_total (env : Env) (remb : Bool) (henv : env.rbeOut = .ok remb)
    (hsrtp : ∀ d plain, env.unprotect d = some plain → IsBytes plain)
    (t : Transport) (ht : TransportInv t) (data : Bytes) :
    ∃ t' e n, recvNext env t data = .ok (t', e, n) ∧ TransportInv t' ∧ n ≤ 128 := by
  unfold recvNext
  dsimp only
  have hc : TransportInv (t.count data) := ⟨fun i => ht.1 i, fun i => ht.2 i⟩
  cases hd : demux (t.count data).hasSrtp data with
  | empty => exact ⟨_, _, _, rfl, hc, by omega⟩
  | dtls => exact ⟨_, _, _, rfl, hc, by omega⟩
  | ignored => exact ⟨_, _, _, rfl, hc, by omega⟩
  | rtcp =>
    simp only
    cases hu : env.unprotect data with
    | none => exact ⟨_, _, _, rfl, hc, by omega⟩
    | some plain =>
      simp only
      obtain ⟨t', e, h, hinv⟩ := handleRtcpData_total (t.count data) hc plain
      rw [h]
      exact ⟨_, _, _, rfl, hinv, by omega⟩
  | rtp =>
    simp only
    cases hu : env.unprotect data with
    | none => exact ⟨_, _, _, rfl, hc, by omega⟩
    | some plain => exact handleRtpData_total env remb henv (t.count data) hc plain (hsrtp data plain hu)

/-- The hypotheses of `recv_next_total` are satisfiable: the identity `unprotect` on byte strings. -/
example (data : Bytes) (h : IsBytes data) : ∀ d plain, (fun x => if x = data then some x else none) d = some plain →
    IsBytes plain := by
  intro d plain hd
  simp only at hd
  split at hd
  · cases hd; subst d; exact h
  · cases hd

/-- After a datagram that is not media, that fails SRTP authentication, or that the parser rejects, the transport
is as before except for the two receive counters. -/
theorem recv_next_rejected_unchanged (env : Env) (t : Transport) (data : Bytes) :
    (demux t.hasSrtp data ∈ [.empty, .dtls, .ignored] → recvNext env t data = .ok (t.count data, [], 0)) ∧
    (env.unprotect data = none → recvNext env t data = .ok (t.count data, [], 0)) ∧
    (∀ plain, demux t.hasSrtp data = .rtp → env.unprotect data = some plain →
      Rtp.parse t.ids plain = .valueError → recvNext env t data = .ok (t.count data, [], 0)) ∧
    (∀ plain, demux t.hasSrtp data = .rtcp → env.unprotect data = some plain →
      parseCompound plain = .valueError → recvNext env t data = .ok (t.count data, [], 0)) := by
  have hs : (t.count data).hasSrtp = t.hasSrtp := rfl
  refine ⟨?_, ?_, ?_, ?_⟩
  · intro h
    unfold recvNext
    dsimp only
    rw [hs]
    simp only [List.mem_cons, List.not_mem_nil, or_false] at h
    rcases h with h | h | h <;> rw [h]
  · intro h
    unfold recvNext
    dsimp only
    rw [hs]
    cases demux t.hasSrtp data <;> simp only [h]
  · intro plain hd hu hp
    unfold recvNext
    dsimp only
    rw [hs, hd]
    simp only [hu]
    exact handleRtpData_rejected env (t.count data) plain hp
  · intro plain hd hu hp
    unfold recvNext
    dsimp only
    rw [hs, hd]
    simp only [hu]
    rw [handleRtcpData_rejected (t.count data) plain hp]

/-- The pinned `_recv_next` indexes `data[0]` of an empty datagram: `IndexError` escapes to `__run`, whose
`finally` closes the transport (fixes/C05b-empty-datagram.patch). -/
theorem recv_next_unfixed_empty_crashes (env : Env) (t : Transport) :
    recvNextUnfixed env t [] = .crash "IndexError" := rfl

/-! ## 3. bounded work: the NACK generator -/

/-- **Fixed** `NackGenerator.add`: total on 16-bit sequence numbers, at most 128 loop iterations per packet. -/
theorem nack_add_bounded (g : Nack) (hg : ∀ m, g.maxSeq = some m → Props.C17.R16 m) (p : Int)
    (hp : Props.C17.R16 p) :
    ∃ g' missed n, g.add p = .ok (g', missed, n) ∧ n ≤ 128 ∧ (∀ m, g'.maxSeq = some m → Props.C17.R16 m) :=
  nack_add_total g hg p hp

/-- **Pinned** `NackGenerator.add`: one packet costs as many iterations as sequence numbers were skipped … -/
theorem nack_add_unfixed_walks (g : Nack) (m p : Int) (hm : Props.C17.R16 m) (hp : Props.C17.R16 p)
    (hmax : g.maxSeq = some m) (hgt : uint16_gt p m = true) :
    ∃ g' missed, g.addUnfixed p = .ok (g', missed, (fwd p m - 1).toNat) :=
  Lemmas.RtpDispatch.nack_add_unfixed_walks g m p hm hp hmax hgt

/-- … 32766 for a 12-byte packet 32767 ahead, where the fixed code needs at most 128. -/
theorem nack_jump_witness :
    (∃ g' missed, (Nack.mk (some 0) []).addUnfixed 32767 = .ok (g', missed, 32766)) ∧
    (∃ g' missed n, (Nack.mk (some 0) []).add 32767 = .ok (g', missed, n) ∧ n ≤ 128) :=
  Lemmas.RtpDispatch.nack_jump_witness

/-! ## 4. `still_alive`: any sequence of datagrams -/

/-- Feed a list of datagrams (each with its own environment inputs). -/
def runAll : Transport → List (Env × Bytes) → Outcome (Transport × List Effect)
  | t, [] => .ok (t, [])
  | t, (env, d) :: rest =>
    match recvNext env t d with
    | .ok (t1, e1, _) =>
      match runAll t1 rest with
      | .ok (t2, e2) => .ok (t2, e1 ++ e2)
      | .valueError => .valueError | .crash k => .crash k | .hang => .hang
    | .valueError => .valueError | .crash k => .crash k | .hang => .hang

/-- An environment whose bitrate estimator returns and whose SRTP layer hands over byte strings. -/
def EnvOk (env : Env) : Prop :=
  (∃ remb, env.rbeOut = .ok remb) ∧ ∀ d plain, env.unprotect d = some plain → IsBytes plain

/-- **still_alive**: after ANY sequence of datagrams the transport has not raised and is again in a state to
which `recv_next_total` applies — whatever came before, the next (valid) datagram is processed by the same total
handlers. -/
theorem still_alive : ∀ (ds : List (Env × Bytes)) (t : Transport), TransportInv t → (∀ x ∈ ds, EnvOk x.1) →
    ∃ t' e, runAll t ds = .ok (t', e) ∧ TransportInv t' := by
  intro ds
  induction ds with
  | nil => intro t ht _; exact ⟨t, [], rfl, ht⟩
  | cons x rest ih =>
    intro t ht hall
    obtain ⟨env, d⟩ := x
    obtain ⟨⟨remb, hremb⟩, hsrtp⟩ := hall (env, d) (by simp)
    obtain ⟨t1, e1, n, h1, hinv1, _⟩ := recv_next_total env remb hremb hsrtp t ht d
    obtain ⟨t2, e2, h2, hinv2⟩ := ih t1 hinv1 (fun y hy => hall y (by simp [hy]))
    unfold runAll
    rw [h1]
    simp only
    rw [h2]
    exact ⟨_, _, rfl, hinv2⟩

/-! ### the receive path during set-up: `_do_handshake` reads datagrams through the same `_recv_next` -/

/-- Before `_setup_srtp()` has created the SRTP sessions (`self._rx_srtp` is `None`: the whole DTLS handshake) NO
datagram — whatever its first byte, in particular 128..191 — is handed to `unprotect` or to the RTP / RTCP handlers:
`_recv_next` returns normally and only the two receive counters move.  (Dropping the `and self._rx_srtp` conjunct
makes `self._rx_srtp.unprotect` an `AttributeError` that escapes `start()`.) -/
theorem recv_next_before_srtp (env : Env) (t : Transport) (h : t.hasSrtp = false) (data : Bytes) :
    recvNext env t data = .ok (t.count data, [], 0) := by
  have hd := demux_no_srtp data
  have hs : (t.count data).hasSrtp = false := h
  unfold recvNext
  dsimp only
  rw [hs]
  cases hx : demux false data with
  | empty => rfl
  | dtls => rfl
  | ignored => rfl
  | rtcp => exact absurd hx hd.2
  | rtp => exact absurd hx hd.1

/-- … for ANY sequence of datagrams that arrives during the handshake: nothing raised, no effect, receivers, senders and
router exactly as before — the transport that `_setup_srtp()` completes is the one `start()` began with. -/
theorem handshake_phase_inert : ∀ (ds : List (Env × Bytes)) (t : Transport), t.hasSrtp = false →
    ∃ t', runAll t ds = .ok (t', []) ∧ t'.receivers = t.receivers ∧ t'.senders = t.senders ∧ t'.router = t.router
      ∧ t'.ids = t.ids ∧ t'.hasSrtp = false := by
  intro ds
  induction ds with
  | nil => intro t h; exact ⟨t, rfl, rfl, rfl, rfl, rfl, h⟩
  | cons x rest ih =>
    intro t h
    obtain ⟨env, d⟩ := x
    obtain ⟨t2, h2, ha, hb, hc, hd, he⟩ := ih (t.count d) h
    unfold runAll
    rw [recv_next_before_srtp env t h d]
    simp only
    rw [h2]
    exact ⟨t2, rfl, ha, hb, hc, hd, he⟩

/-- The hypothesis is satisfiable, and it matters: the same RTP-looking datagram is inert before the SRTP sessions
exist and reaches the router afterwards. -/
example : demux false [128, 0, 0, 1] = .ignored ∧ demux true [128, 0, 0, 1] = .rtp ∧ demux false [129, 200] = .ignored
    ∧ demux true [129, 200] = .rtcp := by decide

/-! ## 5. the hypotheses are satisfiable: a freshly constructed receiver / transport -/

/-- `RTCRtpReceiver.__init__` for video (`JitterBuffer(capacity=128, is_video=True)`) and audio
(`capacity=16, prefetch=4`) satisfies the invariant. -/
theorem fresh_receiver_inv (id : Nat) (video : Bool) (codecs : List (Nat × Codec)) (rtx : List (Nat × Nat))
    (rtcp : Option Nat) :
    ∃ jb, Jitter.mk (if video then 128 else 16) (if video then 0 else 4) video = .ok jb ∧
      RecvInv { id := id, isVideo := video, codecs := codecs, rtxSsrc := rtx, rtcpSsrc := rtcp, jb := jb } := by
  have hc : Props.C10.Pow2Cap (if video then 128 else 16) := by
    cases video
    · exact ⟨4, by omega, rfl⟩
    · exact ⟨7, by omega, rfl⟩
  obtain ⟨jb, hmk, hinv, _⟩ := Props.C10.mk_inv (if video then 128 else 16) (if video then 0 else 4) video hc
  refine ⟨jb, hmk, ⟨hinv, ?_, ⟨fun h => by cases h⟩, fun m h => by cases h⟩⟩
  exact ⟨by simp [Stats.Receiver.init], by simp [Stats.Receiver.init]⟩

/-- A transport state to which `recv_next_total` / `still_alive` apply exists: fresh video receivers everywhere. -/
example : ∃ t : Transport, TransportInv t := by
  obtain ⟨jb, _, hinv⟩ := fresh_receiver_inv 0 true [(100, ⟨.vp8, 90000⟩)] [] (some 1)
  exact ⟨{ ids := {}, router := Router.Router.empty,
           receivers := fun _ => { id := 0, isVideo := true, codecs := [(100, ⟨.vp8, 90000⟩)], rtxSsrc := [],
                                   rtcpSsrc := some 1, jb := jb },
           senders := fun _ => { id := 0, ssrc := 1, rtxSsrc := 2, rtxPayloadType := none, rtxSequenceNumber := 0,
                                 history := [], hasEncoder := false } },
         ⟨fun _ => hinv, fun _ => by unfold SenderInv Props.C17.R16; simp⟩⟩

/-- The hypotheses of `retransmit_hit` / `rtx_counter_every_origin` / `unreduced_counter_crashes` hold for a sender
one step before the wrap with one packet in its history. -/
example : let s : Sender := { id := 0, ssrc := 1, rtxSsrc := 2, rtxPayloadType := some 101, rtxSequenceNumber := 65535,
                              history := [(3 % 128, { sequenceNumber := 3 })], hasEncoder := false }
    SenderInv s ∧ Router.dget (3 % RTP_HISTORY_SIZE) s.history = some { sequenceNumber := 3 }
      ∧ s.rtxPayloadType = some 101 ∧ s.rtxSequenceNumber = 65535 :=
  ⟨⟨by decide, by decide⟩, by decide, rfl, rfl⟩

/-- `PktOk` holds for a concrete packet (hypothesis of `receiver_handle_rtp_total`). -/
example : PktOk { sequenceNumber := 65535, ssrc := 4294967295, payload := [0x90, 0x80, 5, 1, 2] } :=
  ⟨by decide, by decide, by decide⟩

/-- The hypotheses of `nack_add_bounded` / `nack_add_unfixed_walks` hold for a generator in the middle of a stream. -/
example : (∀ m, (Nack.mk (some 65535) [65000]).maxSeq = some m → Props.C17.R16 m) ∧ Props.C17.R16 32766
    ∧ uint16_gt 32766 65535 = true := by
  refine ⟨?_, ?_, by decide⟩
  · intro m h; cases h; unfold Props.C17.R16; omega
  · unfold Props.C17.R16; omega

end Aiortc.Props.C05Rtp
