import Aiortc.Lemmas.SctpNoCrashChunk
import Aiortc.Lemmas.SctpNoCrashTask
import Aiortc.Lemmas.SctpNoCrashQuiet
import Aiortc.Lemmas.SctpNoCrashWitness
/-!
# C05 (SCTP part): no received datagram can crash or hang the SCTP receive path

About the endpoint automaton `Aiortc.Sctp.step` (model of `RTCSctpTransport` + `RTCDataChannel`, tied to the real
code by `./check C05`).  See `notes/C05a.md` for what is proved, what is assumed and the defects found.
-/
namespace Aiortc.Props.C05Sctp
open Aiortc Aiortc.Gen Aiortc.Sctp Aiortc.Sctp.Wire

/-- The invariant: structural well-formedness, receive-window accounting, stream ids of queued fragments. -/
def Inv (e : Ep) : Prop := WF e ∧ Acc 0 e.rwnd e.inStreams ∧ SidOk e.inStreams

/-- From a weakest-precondition fact about a handler to the outputs of `step`. -/
theorem step_of_wp {e : Ep} {now : Int} {inp : Input} {A : String → Prop} {P : Ep → Prop}
    (hw : wp A (handle inp) (fun _ s' => P s'.1) ({ e with now := now }, [])) :
    (∀ k, Out.crash k ∈ (step e now inp).2 → A k) ∧
    ((∀ k, Out.crash k ∉ (step e now inp).2) → P (step e now inp).1) := by
  have hquiet := handle_quiet inp ({ e with now := now }, []) (by intro o ho; cases ho)
  unfold wp at hw
  cases hrun : (handle inp).run.run ({ e with now := now }, []) with
  | mk r s' =>
    obtain ⟨e', outs⟩ := s'
    rw [hrun] at hw hquiet
    cases r with
    | ok a =>
      have hst : step e now inp = (e', outs) := by simp only [step, hrun]
      rw [hst]
      exact ⟨fun k hk => absurd rfl (hquiet _ hk k), fun _ => hw⟩
    | error k =>
      have hst : step e now inp = (e', outs ++ [Out.crash k]) := by simp only [step, hrun]
      rw [hst]
      refine ⟨?_, ?_⟩
      · intro k' hk'
        rcases List.mem_append.mp hk' with hk' | hk'
        · exact absurd rfl (hquiet _ hk' k')
        · simp only [List.mem_singleton, Out.crash.injEq] at hk'; subst hk'; exact hw
      · intro hno
        exact absurd (List.mem_append.mpr (Or.inr (List.mem_singleton.mpr rfl))) (hno k)

/-- The full statement wanted: from a well-formed state NO datagram makes the receive path raise. -/
def rx_never_crashes : Prop :=
  ∀ (e : Ep), Inv e → ∀ (d cookie : Bytes) (now : Int), IsBytes d → cookie.length ≤ 1000 →
    ∀ k, Out.crash k ∉ (step e now (.rx d cookie)).2

/-- From a well-formed state, for EVERY byte string `d` (random bytes, truncated packets, well-formed but nonsensical
chunks of every type, in every association state) no exception escapes `_handle_data`, and the state is well-formed
again, so the statement composes over any sequence of datagrams.  (Model AFTER fixes/C05a-*.patch.) -/
theorem rx_never_crashes_and_preserves (e : Ep) (h : Inv e) (d cookie : Bytes) (now : Int) (hd : IsBytes d)
    (hc : cookie.length ≤ 1000) :
    (∀ k, Out.crash k ∉ (step e now (.rx d cookie)).2) ∧ Inv (step e now (.rx d cookie)).1 := by
  obtain ⟨hw, ha, hs⟩ := h
  have key : wp NoExc (handle (.rx d cookie)) (fun _ s' => Inv s'.1) ({ e with now := now }, []) := by
    show wp NoExc (handleData d cookie) _ _
    refine wp_handleData (by wf_same hw) ha hs hd hc ?_
    intro e' l' hw' ha' hs'
    exact ⟨hw', ha', hs'⟩
  obtain ⟨h1, h2⟩ := step_of_wp key
  have hno : ∀ k, Out.crash k ∉ (step e now (.rx d cookie)).2 := fun k hk => h1 k hk
  exact ⟨hno, h2 hno⟩

theorem rx_never_crashes_proved : rx_never_crashes :=
  fun e h d cookie now hd hc => (rx_never_crashes_and_preserves e h d cookie now hd hc).1

/-- No fuelled loop reachable from `.rx` runs out of fuel: "hang" is never produced. -/
theorem rx_no_hang (e : Ep) (h : Inv e) (d cookie : Bytes) (now : Int) (hd : IsBytes d)
    (hc : cookie.length ≤ 1000) : Out.crash "hang" ∉ (step e now (.rx d cookie)).2 :=
  (rx_never_crashes_and_preserves e h d cookie now hd hc).1 _

/-- Reassembly never hangs, whatever is in the queue: `pop_messages` with fuel `2·len + 2` returns. -/
theorem pop_messages_no_hang (s : InStream) : ∃ r, s.popMessages = .ok r := by
  obtain ⟨msgs, s', h, _⟩ := popMessages_ok s
  exact ⟨_, h⟩

/-- Work bound for a SACK: the set of TSNs reported by the gap blocks has at most `|gaps| · (limit + 1)` elements,
where `limit` is the offset of the highest outstanding TSN (each block is clipped to it). -/
theorem rx_work_bound_partial (cum : Int) (limit : Nat) (gaps : List (Nat × Nat)) :
    (gapSeen cum limit gaps).1.length ≤ gaps.length * (limit + 1) := by
  unfold gapSeen
  simp only
  induction gaps with
  | nil => simp
  | cons g gs ih =>
    simp only [List.flatMap_cons, List.length_append, List.length_map, List.length_range, List.length_cons]
    have : min g.2 limit + 1 - g.1 ≤ limit + 1 := by omega
    rw [Nat.succ_mul]
    omega

/-- … and the SACK this endpoint sends never has more than 296 gap blocks, all offsets within 16 bits. -/
theorem sack_bound (rx : Rx) (sorted : List Int) :
    (sendSack.build rx none [] sorted).length ≤ 296 ∧ pairsInRange (sendSack.build rx none [] sorted) = true :=
  sackBuild_ok rx sorted

/-- The invariant holds for a fresh endpoint as soon as the application has called `start()` (which, on the client
side, sends the INIT): tags and the initial TSN are 32-bit random numbers, the remote port a 16-bit number. -/
theorem inv_after_start (isServer : Bool) (tag tsn rp : Nat) (now : Int) (ht : tag < 4294967296)
    (hs : tsn < 4294967296) (hr : rp < 65536) :
    (∀ k, Out.crash k ∉ (step (Ep.init isServer tag tsn) now (.start rp)).2) ∧
    Inv (step (Ep.init isServer tag tsn) now (.start rp)).1 := by
  have key : wp NoExc (handle (.start rp)) (fun _ s' => Inv s'.1)
      ({ (Ep.init isServer tag tsn) with now := now }, []) := by
    have hw0 : WF { (Ep.init isServer tag tsn) with
        now := now, started := true, state := "connecting", remotePort := some rp,
        dcId := some (if isServer then 0 else 1), registered := true } := by
      refine ⟨⟨by simp [Ep.init], ⟨rp, rfl, hr⟩, by simp [Ep.init], ht, by simp [Ep.init, MAX_STREAMS], by simp [Ep.init, MAX_STREAMS]⟩,
        ⟨by simp [Ep.init], by simp [Ep.init], by simp [Ep.init], by simp [Ep.init], by simp [Ep.init],
         by simp [Ep.init], by simp [Ep.init], by simp [Ep.init]⟩,
        ⟨by simp [Ep.init], by simp [Ep.init], rfl, rfl, by simp [Ep.init], ?_⟩, ⟨by simp [Ep.init]⟩, ?_, ?_, ?_, rfl⟩
      · simp only [Ep.init]; omega
      · simp only [Ep.init, InRange32]; omega
      · simp only [Ep.init, InRange32]; omega
      · simp [Ep.init]
    have ha0 : Acc 0 (1048576 : Int) ([] : List (Nat × InStream)) := ⟨by simp [reasmBytes], by simp⟩
    have hs0 : SidOk ([] : List (Nat × InStream)) := by intro p hp; cases hp
    simp only [handle, wp_bind, wp_getE]
    rw [wp_ite]
    refine ⟨fun _ => ?_, fun hn => absurd rfl hn⟩
    simp only [wp_bind, wp_setE]
    rw [wp_ite]
    refine ⟨fun _ => ?_, fun _ => ?_⟩
    · simp only [wp_bind, wp_getE]
      refine wp_sendChunk hw0 ?_ ?_
      · have h1 : paramsInRange localExtensions = true := by decide
        have h2 : 16 + (encodeParams localExtensions).length + 4 < 65536 := by decide
        simp [Chunk.inRange, Ep.init, h1, MAX_STREAMS, ht, hs]
        omega
      · intro d
        refine wp_t1Start rfl ?_
        intro l'
        rw [wp_setState_other (by decide) (by decide)]
        exact ⟨by wf_same hw0, ha0, hs0⟩
    · simp only [wp_pure]
      exact ⟨hw0, ha0, hs0⟩
  obtain ⟨h1, h2⟩ := step_of_wp key
  have hno : ∀ k, Out.crash k ∉ (step (Ep.init isServer tag tsn) now (.start rp)).2 :=
    fun k hk => h1 k hk
  exact ⟨hno, h2 hno⟩

/-- A queued task (`_data_channel_flush`, `_transmit`, `_transmit_reconfig`, a T1/T2/RE-CONFIG retransmission)
neither raises nor breaks the invariant, provided a queued retransmission is serialisable (`TaskOk`: it is a chunk
that was sent before). -/
theorem task_preserves_inv_partial (e : Ep) (h : Inv e) (now : Int)
    (ht : ∀ t rest, e.tasks = t :: rest → TaskOk t) :
    (∀ k, Out.crash k ∉ (step e now .task).2) ∧ Inv (step e now .task).1 := by
  obtain ⟨hw, ha, hs⟩ := h
  have key : wp NoExc (handle .task) (fun _ s' => Inv s'.1) ({ e with now := now }, []) := by
    show wp NoExc runTask _ _
    refine wp_runTask (by wf_same hw) ht ?_
    intro e' l' hw' hr hi
    exact ⟨hw', ha.frame hr hi, hs.frame hi⟩
  obtain ⟨h1, h2⟩ := step_of_wp key
  have hno : ∀ k, Out.crash k ∉ (step e now .task).2 := fun k hk => h1 k hk
  exact ⟨hno, h2 hno⟩

/-- The timers T1, T2, T3 and the RE-CONFIG timer neither raise nor break the invariant, provided T1 / T2 were armed
with a chunk (`_t1_start(chunk)` always stores one). -/
theorem fire_preserves_inv_partial (e : Ep) (h : Inv e) (now : Int) (t : String)
    (ht : t = "t1" ∧ e.t1Chunk.isSome = true ∨ t = "t2" ∧ e.t2Chunk.isSome = true ∨ t = "t3" ∨ t = "reconfig") :
    (∀ k, Out.crash k ∉ (step e now (.fire t)).2) ∧ Inv (step e now (.fire t)).1 := by
  obtain ⟨hw, ha, hs⟩ := h
  have hw0 : WF { e with now := now } := by wf_same hw
  have post : ∀ (e' : Ep) (l' : List Out), WF e' → e'.rwnd = e.rwnd → e'.inStreams = e.inStreams →
      (fun (_ : Unit) (s' : St) => Inv s'.1) () (e', l') :=
    fun e' l' hw' hr hi => ⟨hw', ha.frame hr hi, hs.frame hi⟩
  have key : wp NoExc (handle (.fire t)) (fun _ s' => Inv s'.1) ({ e with now := now }, []) := by
    rcases ht with ⟨rfl, hc⟩ | ⟨rfl, hc⟩ | rfl | rfl
    · exact wp_fire_t1 hw0 hc post
    · exact wp_fire_t2 hw0 hc post
    · exact wp_fire_t3 hw0 post
    · exact wp_fire_reconfig hw0 post
  obtain ⟨h1, h2⟩ := step_of_wp key
  have hno : ∀ k, Out.crash k ∉ (step e now (.fire t)).2 := fun k hk => h1 k hk
  exact ⟨hno, h2 hno⟩

/-! ## the two crash witnesses of the unfixed code no longer crash -/

set_option maxRecDepth 1000000 in
open Aiortc.Sctp.Witness in
theorem witnesses_fixed :
    noCrash (step e4 now0 (.rx dData ck)).2 = true ∧ noCrash (runIn (Ep.init true 222 5000) run2).2 = true := by
  constructor <;> decide +kernel

/-! ## the hypotheses are satisfiable -/

open Aiortc.Sctp.Witness in
/-- `Inv` holds for a started endpoint, `IsBytes` / the cookie bound for a real datagram and a real cookie. -/
example : Inv e0 ∧ IsBytes dData ∧ ck.length ≤ 1000 :=
  ⟨(inv_after_start true 222 5000 5000 now0 (by decide) (by decide) (by decide)).2, by decide +kernel,
   by decide +kernel⟩

/-- A queued retransmission of SHUTDOWN-ACK is `TaskOk`. -/
example : TaskOk (.resend (.plain .shutdownAck 0 [])) := by
  show Chunk.inRange _ = true
  decide

theorem sack_max_entries_const : SACK_MAX_ENTRIES = 296 := by decide
theorem cookie_length_const : COOKIE_LENGTH = 24 := by decide

end Aiortc.Props.C05Sctp
